#!/usr/bin/env python3
"""Builds seeded/RESULTS.md from seeded/*/meta.json."""
import glob, json, os
V = os.path.dirname(os.path.dirname(os.path.abspath(__file__)))
rows = []
for m in sorted(glob.glob(os.path.join(V, "seeded", "*", "meta.json"))):
    d = json.load(open(m))
    note = ""
    np = os.path.join(os.path.dirname(m), "NOTES.md")
    needs = d.get("needs", "")
    rows.append(d)
out = ["# Planted changes and which checks catch them", "",
       "Each change was written by an independent sub-agent that saw only the text of one property and a scratch worktree",
       "(nothing from /verif).  `tools/seedkeep.py` confirmed in the agent's worktree that the demonstration passes on the clean",
       "tree and fails with the change, that the change compiles and that the 36 stable tests still pass, then",
       "`tools/seedtest.py` applied it to /repo, ran every quick check, and undid it.  `fired` = exit 1 with a VIOLATION line",
       "(`*` = only `no-failing-input-found`).", "",
       "| change | written for | confirmed | what it needs to manifest | checks that fire (quick tier) | target check fires |", "|---|---|---|---|---|---|"]
for d in rows:
    fired = []
    for l in d.get("checks", []):
        w = l.split()
        if len(w) > 1 and w[1] == "FIRED":
            fired.append(w[0] + ("*" if "no-failing-input-found" in l else ""))
    tgt = d["property"]
    hit = any(f.rstrip("*") == tgt for f in fired)
    out.append("| %s | %s | %s | %s | %s | %s |" % (d["name"], tgt, "yes" if d.get("confirmed") else "NO (%s / demo clean rc=%s, changed rc=%s)" % (d.get("stable_tests_with_change", "?")[-40:], d.get("demo_without_change", {}).get("exit"), d.get("demo_with_change", {}).get("exit")),
                                               d.get("needs", "see NOTES.md"), " ".join(fired) or "none", "yes" if hit else "**no**"))
open(os.path.join(V, "seeded", "RESULTS.md"), "w").write("\n".join(out) + "\n")
print("\n".join(out[-len(rows):]))
