#!/usr/bin/env python3
"""Source translator: C++ functions of /repo  ->  MiniC terms (coq/MiniC.v)  in coq/Gen/Src_*.v.

For every translation unit listed in UNITS it asks clang for the JSON AST of the wanted functions
(`-Xclang -ast-dump=json -Xclang -ast-dump-filter=<name>`: macros are expanded, every implicit conversion is an
explicit node, every expression carries its type) and for the record layouts (`-fdump-record-layouts`), and
translates statement by statement.  Anything it does not understand raises GenError: the file is then not
regenerated and the checks that depend on it count as broken (tools/wv.py).

Design choices (they are part of the trusted base, DESIGN Part D):
  * class members are memory objects named <prefix><member>; members of POD/union type and the members of an
    anonymous union are byte arrays (accessed little-endian), arrays of integers are arrays of that integer type;
  * scalar locals and parameters are variables; local arrays are objects named %<name>;
  * side effects inside expressions (x++, calls) are hoisted in front of the statement in evaluation order;
  * calls to the progress callback (std::function printload) and fflush(stdout) are dropped;
  * a virtual call on `this` or through a pointer is SCallVirt (resolved by the object's dynamic class),
    a call on a member object is static.
"""
import hashlib, json, os, re, subprocess, sys

V = os.path.dirname(os.path.dirname(os.path.abspath(__file__)))
REPO = os.environ.get("WENCRY_REPO", "/repo")
OUT = os.path.join(V, "coq", "Gen")
CACHE = os.path.join(V, ".cache", "cgen")
K = "kernel"
INC = [K, K + "/hash", K + "/multi_aes", K + "/multi_aes/aes", "valget", "valget/base64"]


class GenError(Exception):
    pass


# ------------------------------------------------------------------ clang
def clang(args, src):
    cmd = ["clang++", "-std=c++17", "-fsyntax-only", "-w"] + ["-I" + os.path.join(REPO, i) for i in INC] + args + [os.path.join(REPO, src)]
    p = subprocess.run(cmd, capture_output=True, text=True)
    if p.returncode != 0:
        raise GenError("clang failed on %s: %s" % (src, p.stderr[-400:]))
    return p.stdout


def tu_key(src):
    h = hashlib.sha256()
    for root in [os.path.join(REPO, "kernel"), os.path.join(REPO, "valget")]:
        for dp, dn, fn in sorted(os.walk(root)):
            for f in sorted(fn):
                if f.endswith((".h", ".cpp")):
                    h.update(f.encode())
                    h.update(open(os.path.join(dp, f), "rb").read())
    h.update(open(os.path.abspath(__file__), "rb").read())
    h.update(src.encode())
    return h.hexdigest()[:24]


def cached(src, tag, fn):
    os.makedirs(CACHE, exist_ok=True)
    p = os.path.join(CACHE, "%s_%s_%s" % (tu_key(src), re.sub(r"\W", "_", src), re.sub(r"\W", "_", tag)))
    if os.path.exists(p):
        return open(p).read()
    s = fn()
    with open(p + ".tmp", "w") as f:
        f.write(s)
    os.replace(p + ".tmp", p)
    return s


def ast_docs(src, flt):
    s = cached(src, "ast_" + flt, lambda: clang(["-Xclang", "-ast-dump=json", "-Xclang", "-ast-dump-filter=" + flt], src))
    dec = json.JSONDecoder()
    i, docs = 0, []
    while i < len(s):
        while i < len(s) and s[i] in " \n\r\t":
            i += 1
        if i >= len(s):
            break
        if s[i] != "{":
            j = s.find("\n", i)
            i = j + 1 if j >= 0 else len(s)
            continue
        d, j = dec.raw_decode(s, i)
        docs.append(d)
        i = j
    return docs


def record_layouts(src):
    """{record name: {"size": n, "fields": {name: (offset, type)}, "order": [names], "tree": [...]}}
    fields: the record's own members and the members of its anonymous structs/unions (offsets relative to the record);
    tree: the full nested layout as (offset, text, children) for class_objects()"""
    s = cached(src, "layouts", lambda: clang(["-Xclang", "-fdump-record-layouts"], src))
    recs = {}
    for blk in s.split("*** Dumping AST Record Layout")[1:]:
        rows = []
        size = None
        for l in blk.splitlines():
            ms = re.search(r"\[sizeof=(\d+)", l)
            if ms:
                size = int(ms.group(1))
            m2 = re.match(r"\s*(\d+)(?::[\d-]+)? \|(\s+)(.*?)\s*$", l)
            if m2:
                rows.append((int(m2.group(1)), len(m2.group(2)), m2.group(3)))
        if not rows:
            continue
        name = re.sub(r"^(class|struct|union) ", "", rows[0][2]).strip()

        def build(i, ind):
            """children of the row at index i-1 (rows with indent > ind, first level)"""
            out = []
            while i < len(rows) and rows[i][1] > ind:
                off, ci, txt = rows[i]
                kids, j = build(i + 1, ci)
                out.append((off, txt, kids))
                i = j
            return out, i
        tree, _ = build(1, rows[0][1])
        rec = {"fields": {}, "order": [], "size": size, "tree": tree, "base_off": rows[0][0]}

        def own(nodes):
            for off, txt, kids in nodes:
                if "vtable pointer" in txt or txt.endswith("(primary base)") or txt.endswith("(base)") or "(virtual base)" in txt:
                    continue
                if re.match(r"(?:struct|union|class) .*\(anonymous at [^)]*\)$", txt):
                    own(kids)
                    continue
                mf = re.match(r"(.*\S)\s+([A-Za-z_]\w*)$", txt)
                if mf:
                    rec["fields"].setdefault(mf.group(2), (off - rows[0][0], mf.group(1)))
                    rec["order"].append(mf.group(2))
        own(tree)
        recs[name] = rec
    return recs


def class_objects(layouts, types, cls, prefix=""):
    """memory objects making up an instance of class cls: [(name, ity, count)]"""
    rec = layouts.get(cls)
    if rec is None:
        raise GenError("no layout for class %s" % cls)
    out = []

    def walk(nodes, pfx):
        for off, txt, kids in nodes:
            if "vtable pointer" in txt:
                continue
            if txt.endswith("(primary base)") or txt.endswith("(base)"):
                walk(kids, pfx)
                continue
            ma = re.match(r"(struct|union|class) (.*\(anonymous at [^)]*\))$", txt)
            if ma:
                sub = layouts.get(ma.group(2))
                first = sub["order"][0] if sub and sub["order"] else None
                if first is None:
                    raise GenError("empty anonymous record in %s" % cls)
                out.append((pfx + first, "U8", sub["size"]))
                continue
            mf = re.match(r"(.*\S)\s+([A-Za-z_]\w*)$", txt)
            if not mf:
                continue
            t, name = mf.group(1), mf.group(2)
            if t.startswith("class "):
                walk(kids, pfx + name + ".")
                continue
            tc = clean_ty(t)
            if tc.endswith("*") or "(*)" in tc or tc.startswith("std::"):
                continue
            et = tc
            while re.search(r"\[\d+\]$", et):
                et = types.elem(et)
            if types.is_int(et):
                out.append((pfx + name, types.ity(et), types.sizeof(tc) // BYTES[types.ity(et)]))
            else:
                out.append((pfx + name, "U8", types.sizeof(tc)))
    walk(rec["tree"], prefix)
    return out


# ------------------------------------------------------------------ types
ITY = {"unsigned char": "U8", "u8_t": "U8", "char": "I8", "signed char": "I8", "unsigned short": "U16", "u16_t": "U16", "short": "I16",
       "unsigned int": "U32", "u32_t": "U32", "int": "I32", "unsigned long long": "U64", "u64_t": "U64", "unsigned long": "U64",
       "size_t": "U64", "_Bool": "TBool", "long": "I64", "long long": "I64", "bool": "TBool", "uint8_t": "U8", "uint32_t": "U32", "uint64_t": "U64"}
BYTES = {"U8": 1, "I8": 1, "U16": 2, "I16": 2, "U32": 4, "I32": 4, "U64": 8, "I64": 8, "TBool": 1}


def clean_ty(t):
    t = re.sub(r"\b(const|volatile|enum|struct|class|union)\b", "", t)
    return " ".join(t.split())


class Types:
    def __init__(self, layouts, enums):
        self.layouts = layouts
        self.enums = enums           # enum type names

    def ity(self, node_or_str):
        t = node_or_str if isinstance(node_or_str, str) else self.qual(node_or_str)
        t = clean_ty(t)
        if t in ITY:
            return ITY[t]
        if t in self.enums or t.split("::")[-1] in self.enums:
            return "U32"
        raise GenError("not an integer type: %r" % t)

    def qual(self, node):
        ty = node.get("type", {})
        return ty.get("desugaredQualType") or ty.get("qualType") or ""

    def is_int(self, t):
        try:
            self.ity(t)
            return True
        except GenError:
            return False

    def is_ptr(self, t):
        t = clean_ty(t)
        return t.endswith("*") or t.endswith("&")

    def pointee(self, t):
        t = clean_ty(t)
        if t.endswith("*") or t.endswith("&"):
            return t[:-1].strip()
        m = re.match(r"(.*?)\s*\(\*\)\s*((?:\[\d+\])+)$", t)   # pointer to array: u8_t (*)[16]
        if m:
            return m.group(1) + m.group(2)
        raise GenError("not a pointer type: %r" % t)

    def sizeof(self, t):
        t = clean_ty(t)
        m = re.match(r"(.*?)\s*((?:\[\d+\])+)$", t)
        if m:
            n = 1
            for d in re.findall(r"\[(\d+)\]", m.group(2)):
                n *= int(d)
            return n * self.sizeof(m.group(1))
        if self.is_ptr(t) or "(*)" in t:
            return 8
        if t in ITY:
            return BYTES[ITY[t]]
        if t in self.enums:
            return 4
        for k in (t, t.split("::")[-1]):
            if k in self.layouts and self.layouts[k]["size"] is not None:
                return self.layouts[k]["size"]
        raise GenError("sizeof unknown type %r" % t)

    def elem(self, t):
        """element type of an array type"""
        t = clean_ty(t)
        m = re.match(r"(.*?)\s*\[(\d+)\]((?:\[\d+\])*)$", t)
        if not m:
            raise GenError("not an array type: %r" % t)
        return (m.group(1) + m.group(3)).strip()

    def record(self, t):
        t = clean_ty(t)
        for k in (t, t.split("::")[-1]):
            if k in self.layouts:
                return self.layouts[k]
        raise GenError("no layout for record %r" % t)

    def is_record(self, t):
        try:
            self.record(t)
            return True
        except GenError:
            return False


# ------------------------------------------------------------------ Coq term printing
def q(s):
    return '"%s"' % s.replace('"', '""')


def zc(n):
    return "(%d)" % n if n < 0 else "%d" % n


BIN = {"+": "Add", "-": "Sub", "*": "Mul", "/": "Div", "%": "Rem", "<<": "Shl", ">>": "Shr", "&": "BAnd", "|": "BOr", "^": "BXor",
       "<": "Lt", "<=": "Le", ">": "Gt", ">=": "Ge", "==": "Eq", "!=": "Ne"}


class Fn:
    """translation of one function body"""

    def __init__(self, tr, cls, name):
        self.tr, self.cls, self.name = tr, cls, name
        self.T = tr.types
        self.ntmp = 0
        self.refs = set()       # parameters / locals that hold references (their value is a pointer)
        self.arrays = {}        # local arrays: name -> type string
        self.decl_names = {}    # decl id -> unique variable name
        self.used = {}
        self.addr_taken = set() # ids of local scalars whose address is taken (they live in memory as one-cell arrays)

    def tmp(self):
        self.ntmp += 1
        return "$t%d" % self.ntmp

    def var_name(self, decl):
        i = decl.get("id")
        if i in self.decl_names:
            return self.decl_names[i]
        n = decl.get("name", "_")
        k = self.used.get(n, 0)
        self.used[n] = k + 1
        nm = n if k == 0 else "%s'%d" % (n, k)
        self.decl_names[i] = nm
        return nm

    # ---- expressions: return (pre-statements list, expr string)
    def strip(self, n):
        while n.get("kind") in ("ParenExpr", "ConstantExpr", "ExprWithCleanups", "MaterializeTemporaryExpr", "CXXBindTemporaryExpr") or \
                (n.get("kind") in ("ImplicitCastExpr", "CStyleCastExpr", "CXXStaticCastExpr", "CXXFunctionalCastExpr") and n.get("castKind") == "NoOp"):
            n = n["inner"][0]
        return n

    def lv(self, n):
        """lvalue -> ('var', name) for a scalar local, or ('ptr', pre, pointer-expr)"""
        n = self.strip(n)
        k = n.get("kind")
        if k == "DeclRefExpr":
            rd = n["referencedDecl"]
            name = rd.get("name")
            if rd["kind"] in ("VarDecl", "ParmVarDecl"):
                vn = self.decl_names.get(rd["id"])
                if vn is None:
                    # global
                    return ("ptr", [], "(EGlobal %s)" % q(self.tr.global_name(rd)))
                if vn in self.arrays:
                    return ("ptr", [], "(ELocalArr %s)" % q(vn))
                if vn in self.refs:
                    return ("ptr", [], "(EVar %s)" % q(vn))
                return ("var", vn)
            raise GenError("lvalue DeclRefExpr to %s" % rd["kind"])
        if k == "MemberExpr":
            base = self.strip_this(n["inner"][0])
            fname = n.get("name", "")
            if base is not None and base.get("kind") == "MemberExpr" and base.get("name", "") == "" and self.strip_this(base["inner"][0]) is None:
                # member of an anonymous union/struct of the current object
                return ("ptr", [], self.tr.field_ptr(self.cls, fname, n))
            if base is None:    # member of the current object
                return ("ptr", [], self.tr.field_ptr(self.cls_of_this(n["inner"][0]), fname, n))
            # member of a record lvalue / of a pointed-to record
            bt = self.T.qual(base)
            if n.get("isArrow"):
                pre, p = self.rv(base)
                rec_t = self.T.pointee(bt)
            else:
                kind, *rest = self.lv(base)
                if kind != "ptr":
                    raise GenError("member of a scalar")
                pre, p = rest
                rec_t = bt
            if fname == "":
                return ("ptr", pre, p)      # anonymous struct/union member: same address computations below
            rec = self.T.record(rec_t)
            if fname not in rec["fields"]:
                raise GenError("field %s not in layout of %s" % (fname, rec_t))
            off = rec["fields"][fname][0]
            return ("ptr", pre, p if off == 0 else "(EPtrAdd %s 1 (EConst %d))" % (p, off))
        if k == "ArraySubscriptExpr":
            pre1, p = self.rv(n["inner"][0])
            pre2, i = self.rv(n["inner"][1])
            sz = self.T.sizeof(self.T.qual(n))
            return ("ptr", pre1 + pre2, "(EPtrAdd %s %d %s)" % (p, sz, i))
        if k == "UnaryOperator" and n.get("opcode") == "*":
            pre, p = self.rv(n["inner"][0])
            return ("ptr", pre, p)
        if k == "CXXThisExpr":
            return ("ptr", [], "(EField %s)" % q(""))
        if k in ("CallExpr", "CXXMemberCallExpr"):
            # call returning a reference: its value is the address
            t = self.tmp()
            return ("ptr", self.call(n, t), "(EVar %s)" % q(t))
        raise GenError("unsupported lvalue %s in %s" % (k, self.name))

    def strip_this(self, n):
        """returns None when n denotes *this / this (possibly cast to a base class), else the stripped node"""
        m = self.strip(n)
        while m.get("kind") == "ImplicitCastExpr" and m.get("castKind") in ("UncheckedDerivedToBase", "DerivedToBase"):
            m = self.strip(m["inner"][0])
        if m.get("kind") == "CXXThisExpr":
            return None
        return m

    def cls_of_this(self, n):
        return self.cls

    def load(self, n, lvres):
        t = self.T.qual(n)
        if lvres[0] == "var":
            return [], "(EVar %s)" % q(lvres[1])
        _, pre, p = lvres
        if self.T.is_int(t):
            return pre, "(ELoad %s %s)" % (self.T.ity(t), p)
        if self.T.is_ptr(t):
            raise GenError("load of a pointer stored in memory (%s) in %s" % (t, self.name))
        raise GenError("load of non-scalar type %s" % t)

    def rv(self, n):
        n = self.strip(n)
        k = n.get("kind")
        T = self.T
        if k == "IntegerLiteral":
            return [], "(EConst %s)" % zc(int(n["value"]))
        if k == "CharacterLiteral":
            return [], "(EConst %s)" % zc(int(n["value"]))
        if k == "CXXBoolLiteralExpr":
            return [], "(EConst %d)" % (1 if n["value"] else 0)
        if k in ("GNUNullExpr", "CXXNullPtrLiteralExpr"):
            return [], "ENull"
        if k in ("ImplicitCastExpr", "CStyleCastExpr", "CXXStaticCastExpr", "CXXFunctionalCastExpr", "CXXReinterpretCastExpr"):
            ck = n.get("castKind")
            sub = n["inner"][0]
            if ck == "LValueToRValue":
                s = self.strip(sub)
                if s.get("kind") == "DeclRefExpr" and s["referencedDecl"]["kind"] == "EnumConstantDecl":
                    return [], "(EConst %s)" % zc(self.tr.enum_value(s["referencedDecl"]))
                t = T.qual(n)
                lvr = self.lv(sub)
                if lvr[0] == "var":
                    return [], "(EVar %s)" % q(lvr[1])
                if T.is_ptr(t) and not T.is_int(t):
                    # a pointer-typed member variable read: only FILE* / object-pointer members named by their field
                    return self.tr.pointer_member(self, sub, lvr)
                return self.load(n, lvr)
            if ck == "ArrayToPointerDecay":
                lvr = self.lv(sub)
                if lvr[0] != "ptr":
                    raise GenError("decay of a scalar")
                return lvr[1], lvr[2]
            if ck in ("IntegralCast", "IntegralToBoolean", "BooleanToSignedIntegral"):
                pre, e = self.rv(sub)
                return pre, "(ECast %s %s)" % (T.ity(T.qual(n)), e)
            if ck in ("BitCast", "NoOp", "UncheckedDerivedToBase", "DerivedToBase", "ConstructorConversion", "UserDefinedConversion"):
                return self.rv(sub)
            if ck == "NullToPointer":
                return [], "ENull"
            if ck == "PointerToBoolean":
                pre, e = self.rv(sub)
                return pre, "(EUn TBool LNot (EIsNull %s))" % e
            if ck == "FunctionToPointerDecay":
                raise GenError("function pointer")
            raise GenError("cast kind %s in %s" % (ck, self.name))
        if k == "DeclRefExpr":
            rd = n["referencedDecl"]
            if rd["kind"] == "EnumConstantDecl":
                return [], "(EConst %s)" % zc(self.tr.enum_value(rd))
            raise GenError("rvalue DeclRefExpr %s" % rd.get("name"))
        if k == "UnaryExprOrTypeTraitExpr":
            if n.get("name") != "sizeof":
                raise GenError("trait " + str(n.get("name")))
            if "argType" in n:
                t = n["argType"].get("desugaredQualType") or n["argType"]["qualType"]
            else:
                t = T.qual(self.strip(n["inner"][0]))
            return [], "(EConst %d)" % T.sizeof(t)
        if k == "UnaryOperator":
            op = n["opcode"]
            sub = n["inner"][0]
            if op in ("++", "--"):
                return self.incdec(n, want_value=True)
            if op == "-":
                pre, e = self.rv(sub)
                return pre, "(EUn %s Neg %s)" % (T.ity(T.qual(n)), e)
            if op == "~":
                pre, e = self.rv(sub)
                return pre, "(EUn %s BNot %s)" % (T.ity(T.qual(n)), e)
            if op == "!":
                pre, e = self.rv(sub)
                return pre, "(EUn TBool LNot %s)" % e
            if op == "+":
                return self.rv(sub)
            if op == "&":
                lvr = self.lv(sub)
                if lvr[0] != "ptr":
                    raise GenError("address of a scalar local")
                return lvr[1], lvr[2]
            if op == "*":
                return self.load(n, self.lv(n))
            raise GenError("unary " + op)
        if k == "BinaryOperator":
            op = n["opcode"]
            a, b = n["inner"]
            if op == ",":
                pre = self.stmt_expr(a)
                pre2, e = self.rv(b)
                return pre + pre2, e
            if op == "=":
                pre = self.assign(n)
                lvr = self.lv(a)
                p2, e = self.load(a, lvr) if lvr[0] == "ptr" else ([], "(EVar %s)" % q(lvr[1]))
                return pre + p2, e
            if op in ("&&", "||"):
                pa, ea = self.rv(a)
                pb, eb = self.rv(b)
                if pb:
                    # the right operand (with its side effects) is evaluated only when the left one does not decide
                    t = self.tmp()
                    tv = "(EVar %s)" % q(t)
                    setb = seq(pb + ["(SSet %s (ECast TBool %s))" % (q(t), eb)])
                    if op == "&&":
                        return pa + ["(SSet %s (ECast TBool %s))" % (q(t), ea), "(SIf %s %s SSkip)" % (tv, setb)], tv
                    return pa + ["(SSet %s (ECast TBool %s))" % (q(t), ea), "(SIf %s SSkip %s)" % (tv, setb)], tv
                return pa, "(%s %s %s)" % ("EAnd" if op == "&&" else "EOr", ea, eb)
            ta, tb = T.qual(self.strip_casts_for_type(a)), T.qual(b)
            tya, tyb = T.qual(a), T.qual(b)
            # pointer arithmetic / comparison
            if T.is_ptr(tya) and not T.is_int(tya):
                if op in ("==", "!="):
                    pa, ea = self.rv(a)
                    pb, eb = self.rv(b)
                    if eb == "ENull":
                        e = "(EIsNull %s)" % ea
                    elif ea == "ENull":
                        e = "(EIsNull %s)" % eb
                    else:
                        raise GenError("pointer comparison")
                    return pa + pb, e if op == "==" else "(EUn TBool LNot %s)" % e
                if op in ("+", "-") and T.is_int(tyb):
                    pa, ea = self.rv(a)
                    pb, eb = self.rv(b)
                    sz = T.sizeof(T.pointee(tya))
                    return pa + pb, "(EPtrAdd %s %s %s)" % (ea, zc(sz if op == "+" else -sz), eb)
                raise GenError("pointer operator " + op)
            if T.is_ptr(tyb) and not T.is_int(tyb):
                if op in ("==", "!="):
                    pa, ea = self.rv(a)
                    pb, eb = self.rv(b)
                    if ea == "ENull":
                        e = "(EIsNull %s)" % eb
                        return pa + pb, e if op == "==" else "(EUn TBool LNot %s)" % e
                raise GenError("pointer operator " + op)
            pa, ea = self.rv(a)
            pb, eb = self.rv(b)
            if op not in BIN:
                raise GenError("binary operator " + op)
            rt = T.ity(T.qual(n))
            if op in ("<", "<=", ">", ">=", "==", "!="):
                rt = "TBool"
            return pa + pb, "(EBin %s %s %s %s)" % (rt, BIN[op], ea, eb)
        if k == "CompoundAssignOperator":
            pre = self.assign(n)
            lvr = self.lv(n["inner"][0])
            p2, e = self.load(n["inner"][0], lvr) if lvr[0] == "ptr" else ([], "(EVar %s)" % q(lvr[1]))
            return pre + p2, e
        if k == "ConditionalOperator":
            c, a, b = n["inner"]
            pc, ec = self.rv(c)
            pa, ea = self.rv(a)
            pb, eb = self.rv(b)
            if pa or pb:
                t = self.tmp()
                return pc + ["(SIf %s %s %s)" % (ec, seq(pa + ["(SSet %s %s)" % (q(t), ea)]), seq(pb + ["(SSet %s %s)" % (q(t), eb)]))], "(EVar %s)" % q(t)
            return pc, "(ECond %s %s %s)" % (ec, ea, eb)
        if k in ("CallExpr", "CXXMemberCallExpr", "CXXOperatorCallExpr"):
            t = self.tmp()
            pre = self.call(n, t)
            return pre, "(EVar %s)" % q(t)
        if k == "CXXNewExpr":
            t = self.tmp()
            return self.new_expr(n, t), "(EVar %s)" % q(t)
        if k == "MemberExpr" or k == "ArraySubscriptExpr":
            # an lvalue used where a pointer to a record is needed (reference binding)
            lvr = self.lv(n)
            if lvr[0] == "ptr":
                return lvr[1], lvr[2]
        raise GenError("unsupported expression %s in %s" % (k, self.name))

    def strip_casts_for_type(self, n):
        return n

    def new_expr(self, init, vn):
        """statements for  vn = new T[n]  /  vn = new Class(args)"""
        T = self.T
        rt = clean_ty(T.qual(init))
        et = T.pointee(rt)
        if init.get("isArray"):
            p, e = self.rv(init["inner"][0])
            return p + ["(SNew %s %s %s)" % (q(vn), T.ity(et), e)]
        cls = clean_ty(et)
        objs = class_objects(self.tr.layouts, T, cls)
        ce = [c for c in init.get("inner", []) if c.get("kind") == "CXXConstructExpr"]
        cargs = ce[0].get("inner", []) if ce else []
        cargs = [a for a in cargs if self.strip(a).get("kind") != "CXXDefaultArgExpr"]
        info = self.tr.by_key.get((cls, cls, len(cargs)))
        ptypes = info["ptypes"] if info else [None] * len(cargs)
        pre, es = self.args(cargs, ptypes)
        ctor = "None"
        if (cls, cls, len(cargs)) in self.tr.fdecls or (cls, cls, len(cargs)) in self.tr.by_key:
            # (defined in this or in another translation unit: the programs are linked by concatenating the function lists)
            ctor = "(Some %s)" % q("%s::%s/%d" % (cls, cls, len(cargs)))
            self.tr.needed.add((cls, cls, len(cargs)))
        else:
            raise GenError("constructor %s/%d not declared" % (cls, len(cargs)))
        ol = "[" + "; ".join("(%s, %s, %d)" % (q(a), b, c) for a, b, c in objs) + "]"
        return pre + ["(SNewObj %s %s %s %s [%s])" % (q(vn), q(cls), ol, ctor, "; ".join(es))]

    def incdec(self, n, want_value):
        op = n["opcode"]
        sub = n["inner"][0]
        T = self.T
        t = T.qual(sub)
        lvr = self.lv(sub)
        d = "Add" if op == "++" else "Sub"
        post = n.get("isPostfix", False)
        if lvr[0] == "var":
            x = lvr[1]
            cur = "(EVar %s)" % q(x)
            pre0 = []
        else:
            pre0 = lvr[1]
            cur = "(ELoad %s %s)" % (T.ity(t), lvr[2])
        ity = T.ity(t)
        # C: the operand is promoted to int, incremented, converted back
        if BYTES[ity] < 4:
            newv = "(ECast %s (EBin I32 %s (ECast I32 %s) (EConst 1)))" % (ity, d, cur)
        else:
            newv = "(EBin %s %s %s (EConst 1))" % (ity, d, cur)
        pre = list(pre0)
        val = None
        if want_value and post:
            tmpv = self.tmp()
            pre.append("(SSet %s %s)" % (q(tmpv), cur))
            val = "(EVar %s)" % q(tmpv)
        if lvr[0] == "var":
            pre.append("(SSet %s %s)" % (q(lvr[1]), newv))
        else:
            pre.append("(SStore %s %s %s)" % (ity, lvr[2], newv))
        if want_value and not post:
            val = cur
        return pre, val

    def assign(self, n):
        """BinaryOperator '=' or CompoundAssignOperator, as statements"""
        T = self.T
        a, b = n["inner"]
        lvr = self.lv(a)
        ta = T.qual(a)
        if n["kind"] == "CompoundAssignOperator":
            op = n["opcode"][:-1]
            ct = n.get("computeResultType", {}).get("desugaredQualType") or n.get("computeResultType", {}).get("qualType") or ta
            lt = n.get("computeLHSType", {}).get("desugaredQualType") or n.get("computeLHSType", {}).get("qualType") or ta
            pb, eb = self.rv(b)
            if lvr[0] == "var":
                cur, pl = "(EVar %s)" % q(lvr[1]), []
            else:
                pl, cur = lvr[1], "(ELoad %s %s)" % (T.ity(ta), lvr[2])
            if T.is_ptr(ta) and not T.is_int(ta):
                raise GenError("compound assignment on a pointer")
            lhs = cur if T.ity(lt) == T.ity(ta) else "(ECast %s %s)" % (T.ity(lt), cur)
            val = "(EBin %s %s %s %s)" % (T.ity(ct), BIN[op], lhs, eb)
            if T.ity(ct) != T.ity(ta):
                val = "(ECast %s %s)" % (T.ity(ta), val)
            if lvr[0] == "var":
                return pl + pb + ["(SSet %s %s)" % (q(lvr[1]), val)]
            return pl + pb + ["(SStore %s %s %s)" % (T.ity(ta), lvr[2], val)]
        pb, eb = self.rv(b)
        if lvr[0] == "var":
            return pb + ["(SSet %s %s)" % (q(lvr[1]), eb)]
        if T.is_ptr(ta) and not T.is_int(ta):
            if re.match(r'^\(EField "([^"]*)"\)$', lvr[2]):
                return lvr[1] + pb + ["(SSetPtr %s %s)" % (lvr[2], eb)]
            raise GenError("store of a pointer into memory in %s" % self.name)
        return lvr[1] + pb + ["(SStore %s %s %s)" % (T.ity(ta), lvr[2], eb)]

    # ---- calls
    def call(self, n, ret):
        """returns statements performing the call; result (if any) in variable ret (None = discard)"""
        k = n["kind"]
        inner = n["inner"]
        callee = self.strip(inner[0])
        args = inner[1:]
        r = "None" if ret is None else "(Some %s)" % q(ret)
        if k == "CXXOperatorCallExpr":
            # std::function call: the progress callback
            return []
        while callee.get("kind") == "ImplicitCastExpr":
            callee = self.strip(callee["inner"][0])
        if callee.get("kind") == "DeclRefExpr":
            fname = callee["referencedDecl"]["name"]
            if fname in ("memcpy", "memset"):
                pre, es = self.args(args, [None] * len(args))
                return pre + ["(%s %s %s %s)" % ("SMemcpy" if fname == "memcpy" else "SMemset", es[0], es[1], es[2])] + \
                    ([] if ret is None else ["(SSet %s %s)" % (q(ret), es[0])])
            if fname in ("fflush",):
                return []
            if fname in ("fread", "fwrite", "feof", "fgetc", "ungetc", "isalnum", "fseek", "strlen"):
                pre, es = self.args(args, [None] * len(args))
                return pre + ["(SPrim %s %s [%s])" % (r, q(fname), "; ".join(es))]
            if fname in ("printload",):
                return []
            fd = callee["referencedDecl"]
            ptypes = self.tr.param_types(fd, len(args))
            pre, es = self.args(args, ptypes)
            return pre + ["(SCall %s %s None [%s])" % (r, q("%s/%d" % (fname, len(args))), "; ".join(es))]
        if callee.get("kind") == "MemberExpr":
            mname = callee["name"]
            base = callee["inner"][0]
            b = self.strip_this(base)
            if b is not None and re.search(r"ResPrint|ResultPrint", self.T.qual(b)):
                # result / progress printing (AbsResultPrint hierarchy): no effect on the data, dropped
                if ret is not None:
                    raise GenError("value of a printer call used in %s" % self.name)
                return []
            mid = callee.get("referencedMemberDecl")
            if b is None:
                hint = self.cls
            elif callee.get("isArrow"):
                hint = clean_ty(self.T.pointee(self.T.qual(b)))
            else:
                hint = clean_ty(self.T.qual(b))
            info = self.tr.method_info(mid, mname, len(args), hint)
            ovi = self.tr.pick_overload(info["cls"], mname, len(args), [self.T.qual(self.strip(x)) for x in args]) if args else None
            if ovi is not None:
                info = ovi
            sfx = self.tr.suffix(info["cls"], mname, len(args), info["ptypes"])
            pre, es = self.args(args, info.get("ptypes", [None] * len(args)))
            if b is None:
                this = "None"
                static_cls = info["cls"]
                virt = info["virtual"]
            else:
                bt = self.T.qual(b)
                if callee.get("isArrow"):
                    p0, pe = self.rv(b)
                    pre = p0 + pre
                    this = "(Some %s)" % pe
                    static_cls = clean_ty(self.T.pointee(bt))
                    virt = info["virtual"]
                else:
                    lvr = self.lv(b)
                    if lvr[0] != "ptr":
                        raise GenError("method call on a scalar")
                    pre = lvr[1] + pre
                    this = "(Some %s)" % self.tr.subobject_prefix(lvr[2])
                    static_cls = clean_ty(bt)
                    virt = False
            if virt:
                return pre + ["(SCallVirt %s %s %s [%s])" % (r, q("%s/%d" % (mname, len(args))), this, "; ".join(es))]
            cls = self.tr.resolve_static(static_cls, mname, len(args), info["cls"])
            return pre + ["(SCall %s %s %s [%s])" % (r, q("%s::%s/%d%s" % (cls, mname, len(args), sfx)), this, "; ".join(es))]
        raise GenError("call through %s in %s" % (callee.get("kind"), self.name))

    def args(self, args, ptypes):
        pre, es = [], []
        for a, pt in zip(args, ptypes):
            a0 = self.strip(a)
            if a0.get("kind") == "CXXDefaultArgExpr":
                continue
            if "std::function" in self.T.qual(a0) or (pt and "std::function" in pt):
                continue        # the progress callback is not passed on (calls to it are dropped)
            if a0.get("valueCategory") == "lvalue" and (pt is None or pt.strip().endswith("&")) and not self.T.is_int(self.T.qual(a0)):
                lvr = self.lv(a0)
                if lvr[0] != "ptr":
                    raise GenError("reference to a scalar local")
                pre += lvr[1]
                es.append(lvr[2])
            else:
                p, e = self.rv(a)
                pre += p
                es.append(e)
        return pre, es

    def prescan(self, n):
        """local scalars whose address is taken (&x)"""
        if n.get("kind") == "UnaryOperator" and n.get("opcode") == "&":
            m = self.strip(n["inner"][0])
            if m.get("kind") == "DeclRefExpr" and m["referencedDecl"]["kind"] in ("VarDecl",):
                self.addr_taken.add(m["referencedDecl"]["id"])
        for c in n.get("inner", []):
            if isinstance(c, dict):
                self.prescan(c)

    # ---- statements
    def stmt_expr(self, n):
        """expression evaluated for its side effects"""
        n = self.strip(n)
        k = n.get("kind")
        if k == "BinaryOperator" and n["opcode"] == ",":
            return self.stmt_expr(n["inner"][0]) + self.stmt_expr(n["inner"][1])
        if (k == "BinaryOperator" and n["opcode"] == "=") or k == "CompoundAssignOperator":
            return self.assign(n)
        if k == "UnaryOperator" and n["opcode"] in ("++", "--"):
            pre, _ = self.incdec(n, want_value=False)
            return pre
        if k in ("CallExpr", "CXXMemberCallExpr", "CXXOperatorCallExpr"):
            return self.call(n, None)
        if k == "CXXDeleteExpr":
            p, e = self.rv(n["inner"][0])
            return p + ["(SDelete %s)" % e]
        if k in ("DeclRefExpr",) or (k == "ImplicitCastExpr"):
            return []       # `for (i; ...)`: expression result unused
        pre, _ = self.rv(n)
        return pre

    def stmt(self, n):
        """returns list of MiniC statement strings"""
        k = n.get("kind")
        T = self.T
        if k == "CompoundStmt":
            out = []
            for c in n.get("inner", []):
                out += self.stmt(c)
            return out
        if k == "NullStmt":
            return []
        if k == "DeclStmt":
            out = []
            for d in n.get("inner", []):
                if d["kind"] != "VarDecl":
                    raise GenError("declaration of %s" % d["kind"])
                t = d["type"].get("desugaredQualType") or d["type"]["qualType"]
                vn = self.var_name(d)
                tc = clean_ty(t)
                if re.search(r"\[\d+\]$", tc):
                    et = tc
                    while re.search(r"\[\d+\]$", et):
                        et = T.elem(et)
                    if T.is_int(et):
                        self.arrays[vn] = tc
                        out.append("(SLocalArr %s %s %d)" % (q(vn), T.ity(et), T.sizeof(tc) // BYTES[T.ity(et)]))
                    else:
                        self.arrays[vn] = tc
                        out.append("(SLocalArr %s U8 %d)" % (q(vn), T.sizeof(tc)))
                    if d.get("inner"):
                        raise GenError("initialised local array %s" % vn)
                    continue
                if d.get("id") in self.addr_taken and T.is_int(tc):
                    self.arrays[vn] = tc + "[1]"
                    out.append("(SLocalArr %s %s 1)" % (q(vn), T.ity(tc)))
                    if d.get("inner"):
                        p, e = self.rv(d["inner"][0])
                        out += p + ["(SStore %s (ELocalArr %s) %s)" % (T.ity(tc), q(vn), e)]
                    continue
                if "_Bind" in t or "std::function" in t:
                    continue        # auto boundfunc = std::bind(&AbsResultPrint::printpercentage, ...): the progress callback
                if tc.endswith("&"):
                    self.refs.add(vn)
                    lvr = self.lv(d["inner"][0])
                    if lvr[0] != "ptr":
                        raise GenError("reference to scalar")
                    out += lvr[1] + ["(SSet %s %s)" % (q(vn), lvr[2])]
                    continue
                if d.get("inner"):
                    init = self.strip(d["inner"][0])
                    if init.get("kind") == "CXXNewExpr":
                        out += self.new_expr(init, vn)
                        continue
                    p, e = self.rv(d["inner"][0])
                    out += p + ["(SSet %s %s)" % (q(vn), e)]
                # uninitialised scalar: nothing (reading it before assignment is an error in MiniC)
            return out
        if k == "IfStmt":
            inner = n["inner"]
            pc, ec = self.rv(inner[0])
            a = self.stmt(inner[1])
            b = self.stmt(inner[2]) if len(inner) > 2 else []
            return pc + ["(SIf %s %s %s)" % (ec, seq(a), seq(b))]
        if k == "ForStmt":
            init, _cv, cond, inc, body = n["inner"]
            out = []
            if init and init.get("kind"):
                out += self.stmt(init) if init["kind"] in ("DeclStmt", "CompoundStmt", "NullStmt") else self.stmt_expr(init)
            if cond and cond.get("kind"):
                pc, ec = self.rv(cond)
                if pc:
                    raise GenError("side effect in a loop condition")
            else:
                ec = "(EConst 1)"
            st = self.stmt_expr(inc) if inc and inc.get("kind") else []
            bd = self.stmt(body)
            return out + ["(SLoop %s %s %s)" % (ec, seq(bd), seq(st))]
        if k == "WhileStmt":
            cond, body = n["inner"][-2], n["inner"][-1]
            pc, ec = self.rv(cond)
            if pc:
                raise GenError("side effect in a loop condition")
            return ["(SLoop %s %s SSkip)" % (ec, seq(self.stmt(body)))]
        if k == "DoStmt":
            body, cond = n["inner"]
            pc, ec = self.rv(cond)
            bd = self.stmt(body)
            if pc:
                # evaluate the condition's side effects at the end of the body
                t = self.tmp()
                return ["(SDoWhile %s (EVar %s))" % (seq(bd + pc + ["(SSet %s %s)" % (q(t), ec)]), q(t))]
            return ["(SDoWhile %s %s)" % (seq(bd), ec)]
        if k == "BreakStmt":
            return ["SBreak"]
        if k == "ReturnStmt":
            if not n.get("inner"):
                return ["(SReturn None)"]
            e0 = self.strip(n["inner"][0])
            if self.tr.returns_ref(self):
                lvr = self.lv(e0)
                return lvr[1] + ["(SReturn (Some %s))" % lvr[2]]
            p, e = self.rv(n["inner"][0])
            return p + ["(SReturn (Some %s))" % e]
        if k == "SwitchStmt":
            return self.switch(n)
        # expression statement
        return self.stmt_expr(n)

    def switch(self, n):
        cond = n["inner"][0]
        body = n["inner"][-1]
        pc, ec = self.rv(cond)
        t = self.tmp()
        out = pc + ["(SSet %s %s)" % (q(t), ec)]
        cases = []      # (value or None, stmts)
        cur = None
        for c in body.get("inner", []):
            while c.get("kind") in ("CaseStmt", "DefaultStmt"):
                if c["kind"] == "CaseStmt":
                    v = self.strip(c["inner"][0])
                    val = self.const_int(c["inner"][0])
                    cur = [val, []]
                    cases.append(cur)
                    c = c["inner"][-1]
                else:
                    cur = [None, []]
                    cases.append(cur)
                    c = c["inner"][-1]
            if cur is None:
                raise GenError("statement before the first case")
            cur[1].append(c)
        # every case must end with break or return (no fall-through)
        res = "SSkip"
        default = []
        chain = []
        for val, stmts in cases:
            ss = []
            ended = False
            for s in stmts:
                if ended:
                    continue        # unreachable statements after return (e.g. `return X; break;`)
                if s.get("kind") == "BreakStmt":
                    ended = True
                    continue
                ss += self.stmt(s)
                if s.get("kind") == "ReturnStmt":
                    ended = True
            if not ended and (val, stmts) is not cases[-1]:
                raise GenError("switch case falls through in %s" % self.name)
            if val is None:
                default = ss
            else:
                chain.append((val, ss))
        res = seq(default)
        for val, ss in reversed(chain):
            res = "(SIf (EBin TBool Eq (EVar %s) (EConst %s)) %s %s)" % (q(t), zc(val), seq(ss), res)
        return out + [res]

    def const_int(self, n):
        m = n
        while m.get("kind") in ("ConstantExpr", "ImplicitCastExpr", "ParenExpr"):
            if "value" in m and m["kind"] == "ConstantExpr":
                return int(m["value"])
            m = m["inner"][0]
        if m.get("kind") in ("IntegerLiteral", "CharacterLiteral"):
            return int(m["value"])
        if m.get("kind") == "DeclRefExpr" and m["referencedDecl"]["kind"] == "EnumConstantDecl":
            return self.tr.enum_value(m["referencedDecl"])
        raise GenError("non-constant case label")


def seq(stmts):
    if not stmts:
        return "SSkip"
    if len(stmts) == 1:
        return stmts[0]
    return "(SSeq %s %s)" % (stmts[0], seq(stmts[1:]))


# ------------------------------------------------------------------ translation unit
class Unit:
    def __init__(self, src, wanted, filters, enums=(), layout_src=None):
        """wanted: list of (class or None, function name); filters: names for -ast-dump-filter"""
        self.src, self.wanted = src, wanted
        self.layouts = record_layouts(src)
        if layout_src:
            for k_, v_ in record_layouts(layout_src).items():
                self.layouts.setdefault(k_, v_)
        self.enum_vals = {}
        self.enum_types = set()
        self.methods = {}       # decl id -> info
        self.fdecls = {}        # (cls, name, arity) -> node
        self.globals = {}       # name -> (ity, values)
        self.ret_ref = {}
        self.bases = {}
        self.scalar_globals = set()
        self.needed = set()
        self.overloads = {}     # (class, method, arity) -> {ptypes tuple: info} when overloaded on parameter types
        self.by_key = {}        # (class, method, arity) -> info
        docs = []
        for f in filters:
            docs += ast_docs(src, f)
        self.types = Types(self.layouts, self.enum_types)
        for d in docs:
            self.scan(d, None)

    def scan(self, n, cls):
        k = n.get("kind")
        if k == "EnumDecl":
            if n.get("name"):
                self.enum_types.add(n["name"])
            v = -1
            for c in n.get("inner", []):
                if c.get("kind") == "EnumConstantDecl":
                    v += 1
                    if c.get("inner"):
                        m = c["inner"][0]
                        while m.get("kind") in ("ConstantExpr", "ImplicitCastExpr") and "value" not in m:
                            m = m["inner"][0]
                        if "value" in m:
                            v = int(m["value"])
                        elif m.get("kind") == "UnaryOperator" and m.get("opcode") == "-":
                            v = -int(m["inner"][0]["value"])
                    self.enum_vals[c["id"]] = v
                    self.enum_vals[c["name"]] = v
            return
        if k in ("CXXRecordDecl", "ClassTemplateDecl"):
            name = n.get("name")
            if name and n.get("bases"):
                self.bases[name] = [clean_ty(b["type"].get("desugaredQualType") or b["type"]["qualType"]) for b in n["bases"]]
            for c in n.get("inner", []):
                self.scan(c, name if name else cls)
            return
        if k in ("CXXMethodDecl", "FunctionDecl", "CXXConstructorDecl"):
            if n.get("isImplicit"):
                return          # compiler-generated copy/move constructors and assignment operators
            name = n.get("name")
            params = [c for c in n.get("inner", []) if c.get("kind") == "ParmVarDecl"]
            owner = cls
            if owner is None and n.get("parentDeclContextId"):
                owner = self.class_by_id.get(n["parentDeclContextId"]) if hasattr(self, "class_by_id") else None
            info = {"cls": owner, "virtual": bool(n.get("virtual")), "name": name, "arity": len(params),
                    "ptypes": [(p["type"].get("desugaredQualType") or p["type"]["qualType"]) for p in params],
                    "ret": n["type"]["qualType"].split("(")[0].strip()}
            self.methods[n["id"]] = info
            if owner is not None:
                old = self.by_key.get((owner, name, len(params)))
                if old is not None:
                    info["virtual"] = info["virtual"] or old["virtual"]
                    if old["ptypes"] != info["ptypes"]:
                        self.overloads.setdefault((owner, name, len(params)), {})[tuple(old["ptypes"])] = old
                        self.overloads[(owner, name, len(params))][tuple(info["ptypes"])] = info
                self.by_key[(owner, name, len(params))] = info
            if n.get("previousDecl") and n["previousDecl"] in self.methods:
                prev = self.methods[n["previousDecl"]]
                info["cls"] = info["cls"] or prev["cls"]
                info["virtual"] = info["virtual"] or prev["virtual"]
            body = [c for c in n.get("inner", []) if c.get("kind") == "CompoundStmt"]
            if body:
                lst = self.fdecls.setdefault((info["cls"], name, len(params)), [])
                if not any(x[1]["ptypes"] == info["ptypes"] for x in lst):
                    lst.append((n, info))
            return
        if k == "VarDecl" and n.get("inner") and cls is None or (k == "VarDecl" and n.get("storageClass") == "static"):
            self.scan_global(n, cls)
            return
        for c in n.get("inner", []) if k in ("TranslationUnitDecl", "NamespaceDecl", "LinkageSpecDecl") else []:
            self.scan(c, cls)

    def scan_global(self, n, cls):
        t = n["type"].get("desugaredQualType") or n["type"]["qualType"]
        tc = clean_ty(t)
        if not re.search(r"\[\d+\]$", tc) or not n.get("inner"):
            return
        et = tc
        while re.search(r"\[\d+\]$", et):
            et = self.types.elem(et)
        if not self.types.is_int(et):
            return
        init = n["inner"][0]
        vals = []

        def lit(m):
            while m.get("kind") in ("ImplicitCastExpr", "ConstantExpr", "ParenExpr", "CStyleCastExpr"):
                m = m["inner"][0]
            if m.get("kind") in ("IntegerLiteral", "CharacterLiteral"):
                return int(m["value"])
            if m.get("kind") == "UnaryOperator" and m.get("opcode") == "-":
                return -lit(m["inner"][0])
            raise GenError("initialiser element %s of %s" % (m.get("kind"), n.get("name")))

        def walk(m):
            if m.get("kind") == "InitListExpr":
                for c in m.get("inner", []):
                    walk(c)
                if "array_filler" in m:
                    raise GenError("partially initialised table %s" % n.get("name"))
            elif m.get("kind") == "StringLiteral":
                s = json.loads(m["value"]) if m["value"].startswith('"') else m["value"]
                for ch in s.encode("latin-1"):
                    vals.append(ch)
                vals.append(0)
            else:
                vals.append(lit(m))
        walk(init)
        total = self.types.sizeof(tc) // BYTES[self.types.ity(et)]
        if len(vals) != total:
            raise GenError("table %s: %d initialisers for %d elements" % (n.get("name"), len(vals), total))
        gname = (cls + "::" if cls else "") + n["name"]
        self.globals[n["id"]] = (gname, self.types.ity(et), vals)
        if n.get("previousDecl"):
            self.globals[n["previousDecl"]] = self.globals[n["id"]]

    # ---- services for Fn
    def global_name(self, rd):
        g = self.globals.get(rd["id"])
        if g is None:
            for v in self.globals.values():
                if v[0].split("::")[-1] == rd.get("name"):
                    return v[0]
            # a scalar constant (static const class member): a one-cell global object the harness / lemma supplies
            self.scalar_globals.add(rd.get("name"))
            return rd.get("name")
        return g[0]

    def enum_value(self, rd):
        if rd["id"] in self.enum_vals:
            return self.enum_vals[rd["id"]]
        if rd.get("name") in self.enum_vals:
            return self.enum_vals[rd["name"]]
        raise GenError("unknown enum constant %s" % rd.get("name"))

    def method_info(self, mid, name, arity, cls=None):
        """declaration info of method name/arity as seen from class cls (searching its bases); node ids are only
        comparable within one clang run, so the lookup is by name"""
        seen = set()
        todo = [cls] if cls else []
        while todo:
            c = todo.pop(0)
            if c in seen or c is None:
                continue
            seen.add(c)
            for key in ((c, name, arity), (c.split("::")[-1], name, arity)):
                if key in self.by_key:
                    i = dict(self.by_key[key])
                    # virtual if any declaration up the hierarchy says so
                    i["virtual"] = i["virtual"] or self.virtual_in_bases(c, name, arity)
                    return i
            todo += self.bases.get(c, []) + self.bases.get(c.split("::")[-1], [])
        if mid in self.methods:
            return self.methods[mid]
        c = [i for i in self.methods.values() if i["name"] == name and i["arity"] == arity]
        if len(c) >= 1 and all(x["cls"] == c[0]["cls"] for x in c):
            return c[0]
        raise GenError("unknown method %s/%d (seen from %s)" % (name, arity, cls))

    def virtual_in_bases(self, c, name, arity):
        seen, todo = set(), list(self.bases.get(c, []))
        while todo:
            b = todo.pop()
            if b in seen:
                continue
            seen.add(b)
            i = self.by_key.get((b, name, arity))
            if i and i["virtual"]:
                return True
            todo += self.bases.get(b, [])
        return False

    def param_types(self, fd, n):
        i = self.methods.get(fd.get("id"))
        return i["ptypes"] if i else [None] * n

    def resolve_static(self, static_cls, mname, arity, decl_cls):
        """class whose definition of mname/arity is used for an object of static type static_cls"""
        if (static_cls, mname, arity) in self.fdecls:
            return static_cls
        if (decl_cls, mname, arity) in self.fdecls:
            return decl_cls
        return decl_cls or static_cls

    def returns_ref(self, fn):
        return fn.info["ret"].strip().endswith("&")

    def field_ptr(self, cls, fname, node):
        """pointer to member fname of the current object; members of an anonymous union share one byte object"""
        base = node["inner"][0]
        m = base
        while m.get("kind") in ("ImplicitCastExpr", "ParenExpr"):
            m = m["inner"][0]
        if m.get("kind") == "MemberExpr" and m.get("name", "") == "":
            # member of an anonymous union/struct of the class: object named after the union's first member
            anon_t = clean_ty(self.types.qual(m))
            rec = self.types.record(anon_t)
            first = rec["order"][0]
            off = rec["fields"][fname][0]
            p = "(EField %s)" % q(first)
            return p if off == 0 else "(EPtrAdd %s 1 (EConst %d))" % (p, off)
        return "(EField %s)" % q(fname)

    def subobject_prefix(self, ptr):
        m = re.match(r'^\(EField "([^"]*)"\)$', ptr)
        if not m:
            raise GenError("method call on a computed object: %s" % ptr)
        return '(EField "%s.")' % m.group(1)

    def pointer_member(self, fn, sub, lvr):
        """value of a pointer-typed member (FILE *fin, ...): the pseudo-object named <prefix><member>"""
        m = re.match(r'^\(EField "([^"]*)"\)$', lvr[2])
        if not m:
            raise GenError("pointer stored in memory: %s" % lvr[2])
        return lvr[1], "(EPtrVar %s)" % lvr[2]

    def suffix(self, cls, name, arity, ptypes):
        """distinguishes overloads that differ only in parameter types: @<first differing parameter type>"""
        ov = self.overloads.get((cls, name, arity))
        if not ov or len(ov) < 2:
            return ""
        return "@" + re.sub(r"\W+", "_", clean_ty(ptypes[0])).strip("_")

    def pick_overload(self, cls, name, arity, argtypes):
        ov = self.overloads.get((cls, name, arity))
        if not ov or len(ov) < 2:
            return None
        for pt, info in ov.items():
            if clean_ty(pt[0]).replace(" ", "") == clean_ty(argtypes[0]).replace(" ", ""):
                return info
        raise GenError("cannot resolve overload %s::%s/%d for argument type %s" % (cls, name, arity, argtypes[0]))

    def translate(self, cls, name, arity=None):
        cands = [(key, v) for key, lst in self.fdecls.items() for v in lst if key[1] == name and (cls is None or key[0] == cls) and (arity is None or key[2] == arity)]
        if not cands:
            raise GenError("function %s%s not found in %s" % ((cls + "::") if cls else "", name, self.src))
        out = []
        for key, (node, info) in cands:
            full = "%s%s/%d%s" % ((key[0] + "::") if key[0] else "", name, key[2], self.suffix(key[0], name, key[2], info["ptypes"]))
            fn = Fn(self, key[0], full)
            fn.info = info
            params = []
            for p in node.get("inner", []):
                if p.get("kind") == "ParmVarDecl":
                    vn = fn.var_name(p)
                    t = clean_ty(p["type"].get("desugaredQualType") or p["type"]["qualType"])
                    if "std::function" in t:
                        continue
                    if t.endswith("&"):
                        fn.refs.add(vn)
                    params.append(vn)
            body = [c for c in node["inner"] if c.get("kind") == "CompoundStmt"][0]
            fn.prescan(body)
            inits = []
            for c in node.get("inner", []):
                if c.get("kind") == "CXXCtorInitializer":
                    e = c["inner"][0] if c.get("inner") else None
                    if e is None or (e.get("kind") == "CXXConstructExpr" and not e.get("inner")) or e.get("kind") == "ImplicitValueInitExpr":
                        continue        # default initialisation of a member array / POD: nothing happens
                    fld = c.get("anyInit")
                    if not fld or fld.get("kind") != "FieldDecl":
                        raise GenError("base/delegating initialiser in %s" % full)
                    ft = clean_ty(fld["type"].get("desugaredQualType") or fld["type"]["qualType"])
                    if self.types.is_int(ft):
                        pz, ez = fn.rv(e)
                        inits += pz + ["(SStore %s (EField %s) %s)" % (self.types.ity(ft), q(fld["name"]), ez)]
                    elif ft.endswith("*"):
                        pz, ez = fn.rv(e)
                        inits += pz + ["(SSetPtr (EField %s) %s)" % (q(fld["name"]), ez)]
                    else:
                        raise GenError("initialiser of member %s : %s in %s" % (fld["name"], ft, full))
            stmts = inits + fn.stmt(body)
            out.append((full, params, seq(stmts)))
        return out


def coq_str_list(xs):
    return "[" + "; ".join(q(x) for x in xs) + "]"


def emit_unit(fname, src_list, funcs, globs, classes=(), scalars=()):
    body = "(* GENERATED by tools/cgen.py from %s -- do not edit *)\n" % ", ".join(src_list)
    body += "From Coq Require Import ZArith List String.\nFrom Wencry Require Import MiniC.\nImport ListNotations.\nLocal Open Scope Z_scope.\nLocal Open Scope string_scope.\n\n"
    names = []
    for full, params, stm in funcs:
        ident = "f_" + re.sub(r"\W+", "_", full)
        names.append((full, ident))
        body += "Definition %s : func :=\n  {| f_params := %s;\n     f_body := %s |}.\n\n" % (ident, coq_str_list(params), wrap_term(stm))
    gnames = []
    for gname, ity, vals in globs:
        ident = "g_" + re.sub(r"\W+", "_", gname)
        gnames.append((gname, ident))
        body += "Definition %s : object := {| o_ty := %s; o_cells := [%s] |}.\n\n" % (ident, ity, "; ".join(zc(v) for v in vals))
    for cname, objs in classes:
        body += "Definition objects_%s : list (string * ity * Z) :=\n  [%s].\n\n" % (re.sub(r"\W", "_", cname), "; ".join("(%s, %s, %d)" % (q(n), t, c) for n, t, c in objs))
    if scalars:
        body += "(* scalar constants of the source referenced by the functions: one-cell global objects to be supplied *)\nDefinition scalar_globals : list string := %s.\n\n" % coq_str_list(sorted(scalars))
    body += "Definition functions : program :=\n  [" + ";\n   ".join("(%s, %s)" % (q(f), i) for f, i in names) + "].\n\n"
    body += "Definition globals : memory :=\n  [" + ";\n   ".join("(%s, %s)" % (q(g), i) for g, i in gnames) + "].\n"
    os.makedirs(OUT, exist_ok=True)
    p = os.path.join(OUT, fname)
    old = open(p).read() if os.path.exists(p) else None
    if old != body:
        open(p, "w").write(body)
        return True
    return False


def wrap_term(s, width=150):
    """break a long one-line term at spaces before '(' so that coqc's line lengths stay reasonable"""
    out, line = [], ""
    for tok in s.split(" "):
        if len(line) + len(tok) + 1 > width and tok.startswith("("):
            out.append(line)
            line = "      " + tok
        else:
            line = tok if not line else line + " " + tok
    out.append(line)
    return "\n".join(out)


# ------------------------------------------------------------------ what is translated
def uniq_globals(u):
    seen, out = set(), []
    for g in u.globals.values():
        if g[0] not in seen:
            seen.add(g[0])
            out.append(g)
    return sorted(out)


def unit_hash(name, cls, src, methods):
    def go():
        u = Unit(src, None, [cls, "Hashmaster"])
        fs = []
        for m, ar in methods:
            fs += u.translate(cls, m, ar)
        fs += u.translate("Hashmaster", "addtotal", 1)
        objs = class_objects(u.layouts, u.types, cls)
        return emit_unit(name, [src, "kernel/hash/hashmaster.h"], fs, uniq_globals(u), [(cls, objs)])
    return go


HASH_METHODS = [("getHash", 1), ("getHash", 2), ("getres", 1), ("reset", 0), ("gethlen", 0), ("getblen", 0)]


def unit_hashmaster():
    u = Unit("kernel/hash/hashmaster.cpp", None, ["Hashmaster", "buffer64"])
    fs = u.translate("Hashmaster", "getStringHash", 3) + u.translate("Hashmaster", "getFileHash", 3)
    return emit_unit("Src_hashmaster.v", [u.src], fs, [])


def unit_aes():
    u = Unit("kernel/multi_aes/aes/aes.cpp", None, ["aeshandle", "encryaes", "decryaes", "addroundkey", "s_box", "RC", "Logtable", "Alogtable", "state_t"],
             layout_src="kernel/multi_aes/aes/aesmode.cpp")
    fs = []
    for cls, m, ar in (("keyhandle", "genkey", 1), ("keyhandle", "genall", 0), ("keyhandle", "keyhandle", 1), ("keyhandle", "get_key", 1),
                       (None, "addroundkey", 2), (None, "encryaes_subbytes", 1), (None, "encryaes_rowshift", 1), (None, "encryaes_columnmix", 1),
                       (None, "encryaes_commonround", 2), (None, "encryaes_specround", 3),
                       (None, "decryaes_subbytes", 1), (None, "decryaes_rowshift", 1), (None, "decryaes_columnmix", 1),
                       (None, "decryaes_commonround", 2), (None, "decryaes_specround", 3),
                       ("encryaes", "runaes_128bit", 1), ("decryaes", "runaes_128bit", 1)):
        fs += u.translate(cls, m, ar)
    cl = [(c, class_objects(u.layouts, u.types, c)) for c in ("encryaes", "decryaes")]
    return emit_unit("Src_aes.v", [u.src, "kernel/multi_aes/aes/aes.h", "kernel/multi_aes/aes/tab.h"], fs, uniq_globals(u), cl)


MODE_CLASSES = ["AesECB_Enc", "AesECB_Dec", "AesCBC_Enc", "AesCBC_Dec", "AesCTR", "AesCFB_Enc", "AesCFB_Dec", "AesOFB"]


def unit_aesmode():
    u = Unit("kernel/multi_aes/aes/aesmode.cpp", None, ["Aes", "encryaes", "decryaes", "aeshandle"])
    fs = u.translate("Aesmode", "getXor", 2) + u.translate("Aesmode", "Aesmode", 1) + u.translate("AesCTR", "ctrInc", 0)
    for c in MODE_CLASSES:
        fs += u.translate(c, "runcry", 1)
    cl = [(c, class_objects(u.layouts, u.types, c)) for c in MODE_CLASSES]
    return emit_unit("Src_aesmode.v", [u.src, "kernel/multi_aes/aes/aesmode.h"], fs, [], cl)


def unit_base64():
    u = Unit("valget/base64/base64.cpp", None, ["base64", "b64_tab", "hex_tab", "is_valid_b64"])
    fs = u.translate(None, "hex_to_base64", 3) + u.translate(None, "base64_to_hex", 3) + u.translate(None, "is_base64", 1) + u.translate(None, "is_valid_b64", 2)
    return emit_unit("Src_base64.v", [u.src, "valget/base64/tab.h"], fs, uniq_globals(u))


def unit_iobuffer():
    u = Unit("kernel/multi_aes/multi_buffergroup.cpp", None, ["iobuffer", "loadstate_t", "bufstate_t"])
    fs = []
    for m, ar in (("load_buffer", 2), ("export_buffer", 2), ("get_entry", 0), ("get_size", 0)):
        fs += u.translate("iobuffer", m, ar)
    # the object list depends on BUF_SZ; the harness builds it for the chunk size it uses: emit the scalar members and the constants
    consts = {}
    return emit_unit("Src_iobuffer.v", [u.src, "kernel/multi_aes/multi_buffergroup.h"], fs, [], [("iobuffer", class_objects(u.layouts, u.types, "iobuffer"))], u.scalar_globals)


def unit_hashbuffer():
    u = Unit("kernel/hash/hashbuffer.cpp", None, ["buffer64"], layout_src="kernel/fheader.cpp")
    fs = u.translate("filebuffer64", "filebuffer64", 3) + u.translate("filebuffer64", "read_buffer64", 2)
    return emit_unit("Src_hashbuffer.v", [u.src, "kernel/hash/hashbuffer.h"], fs, [], [("filebuffer64", class_objects(u.layouts, u.types, "filebuffer64"))], u.scalar_globals)


# ------------------------------------------------------------------ synchronisation skeleton
def canon(n):
    """canonical text of a statement / expression tree (macros expanded, implicit nodes dropped): used for the functions that
    make up the hand-over protocol, whose transition-system model (PipeConc.v) is pinned to this text (PipeSync.v)"""
    k = n.get("kind")
    inner = [c for c in n.get("inner", []) if c.get("kind")]
    if k in ("ImplicitCastExpr", "ExprWithCleanups", "MaterializeTemporaryExpr", "CXXBindTemporaryExpr", "ConstantExpr", "FullExpr"):
        return canon(inner[0]) if inner else ""
    if k == "ParenExpr":
        return "(" + canon(inner[0]) + ")"
    if k == "CompoundStmt":
        return "{ " + " ".join(stmt_text(c) for c in inner) + " }"
    if k == "NullStmt":
        return ";"
    if k == "DeclStmt":
        return " ".join(canon(c) for c in inner)
    if k == "VarDecl":
        t = n["type"]["qualType"]
        return "%s %s%s;" % (t, n.get("name", ""), (" = " + canon(inner[0])) if inner else "")
    if k == "IfStmt":
        e = " else " + canon(inner[2]) if len(inner) > 2 else ""
        return "if (%s) %s%s" % (canon(inner[0]), canon(inner[1]), e)
    if k == "WhileStmt":
        return "while (%s) %s" % (canon(inner[-2]), canon(inner[-1]))
    if k == "DoStmt":
        return "do %s while (%s);" % (canon(inner[0]), canon(inner[1]))
    if k == "ForStmt":
        raw = n["inner"]
        parts = [canon(c) if c.get("kind") else "" for c in raw]
        return "for (%s %s; %s) %s" % (parts[0] if parts[0].endswith(";") else parts[0] + ";", parts[2], parts[3], parts[4])
    if k == "ReturnStmt":
        return "return %s;" % (canon(inner[0]) if inner else "")
    if k == "BreakStmt":
        return "break;"
    if k in ("BinaryOperator", "CompoundAssignOperator"):
        return "%s %s %s" % (canon(inner[0]), n["opcode"], canon(inner[1]))
    if k == "UnaryOperator":
        return (canon(inner[0]) + n["opcode"]) if n.get("isPostfix") else (n["opcode"] + canon(inner[0]))
    if k == "ConditionalOperator":
        return "%s ? %s : %s" % tuple(canon(c) for c in inner)
    if k == "DeclRefExpr":
        return n["referencedDecl"].get("name", "?")
    if k == "MemberExpr":
        b = canon(inner[0]) if inner else ""
        if b in ("this", ""):
            return n.get("name", "")
        return b + ("->" if n.get("isArrow") else ".") + n.get("name", "")
    if k == "CXXThisExpr":
        return "this"
    if k in ("IntegerLiteral", "CharacterLiteral"):
        return str(n["value"])
    if k == "CXXBoolLiteralExpr":
        return "true" if n["value"] else "false"
    if k in ("GNUNullExpr", "CXXNullPtrLiteralExpr"):
        return "NULL"
    if k == "StringLiteral":
        return n.get("value", "")
    if k == "ArraySubscriptExpr":
        return "%s[%s]" % (canon(inner[0]), canon(inner[1]))
    if k in ("CallExpr", "CXXMemberCallExpr", "CXXOperatorCallExpr"):
        return "%s(%s)" % (canon(inner[0]), ", ".join(canon(c) for c in inner[1:] if c.get("kind") != "CXXDefaultArgExpr"))
    if k in ("CXXConstructExpr", "CXXTemporaryObjectExpr"):
        t = n["type"]["qualType"]
        return "%s(%s)" % (t, ", ".join(canon(c) for c in inner))
    if k in ("CStyleCastExpr", "CXXStaticCastExpr", "CXXFunctionalCastExpr", "CXXReinterpretCastExpr"):
        return "(%s)%s" % (n["type"]["qualType"], canon(inner[0]))
    if k == "CXXNewExpr":
        return "new %s(%s)" % (n["type"]["qualType"], ", ".join(canon(c) for c in inner))
    if k == "CXXDeleteExpr":
        return "delete %s" % canon(inner[0])
    if k == "UnaryExprOrTypeTraitExpr":
        return "sizeof(...)"
    # expression statement wrappers and anything else: generic, still deterministic
    return "%s<%s>" % (k, ", ".join(canon(c) for c in inner))


def stmt_text(n):
    t = canon(n)
    return t if t.endswith(("}", ";")) else t + ";"


def canon_fn(node):
    body = [c for c in node.get("inner", []) if c.get("kind") == "CompoundStmt"][0]
    inits = []
    for c in node.get("inner", []):
        if c.get("kind") == "CXXCtorInitializer" and c.get("anyInit") and c.get("inner"):
            e = c["inner"][0]
            if not (e.get("kind") == "CXXConstructExpr" and not e.get("inner")):
                inits.append("%s(%s)" % (c["anyInit"]["name"], canon(e)))
    params = ", ".join("%s %s" % (p["type"]["qualType"], p.get("name", "")) for p in node.get("inner", []) if p.get("kind") == "ParmVarDecl")
    txt = "(" + params + ")" + ((" : " + ", ".join(inits)) if inits else "") + " { " + " ".join(stmt_text(c) for c in body.get("inner", []) if c.get("kind")) + " }"
    return " ".join(txt.split())


SYNC_FUNCS = [("bufferctrl", "bufferctrl", 0), ("bufferctrl", "cmpstate", 1), ("bufferctrl", "haslive", 0), ("bufferctrl", "wait_ready", 0),
              ("bufferctrl", "wait_update", 0), ("bufferctrl", "set_ready", 1), ("bufferctrl", "set_update", 0),
              ("iobuffer", "get_entry", 0),
              ("buffergroup", "turn_iter", 0), ("buffergroup", "require_buffer_entry", 1), ("buffergroup", "wait_buffer_ready", 1),
              ("buffergroup", "buffer_update", 1), ("buffergroup", "run_buffer", 1), ("buffergroup", "set_buffergroup", 4),
              (None, "multiruncrypt_file", 2), ("multicry_master", "run_multicry", 2)]


def unit_sync():
    u1 = Unit("kernel/multi_aes/multi_buffergroup.cpp", None, ["bufferctrl", "buffergroup", "iobuffer"])
    u2 = Unit("kernel/multi_aes/multicry.cpp", None, ["multiruncrypt_file", "multicry_master"])
    rows = []
    for cls, name, ar in SYNC_FUNCS:
        key = (cls, name, ar)
        u = u1 if key in u1.fdecls else u2
        if key not in u.fdecls:
            raise GenError("function %s%s/%d of the hand-over protocol not found" % ((cls + "::") if cls else "", name, ar))
        rows.append(("%s%s/%d" % ((cls + "::") if cls else "", name, ar), canon_fn(u.fdecls[key][0][0])))
    body = "(* GENERATED by tools/cgen.py from kernel/multi_aes/multi_buffergroup.cpp, multi_buffergroup.h, multicry.cpp -- do not edit *)\n"
    body += "(* canonical text (macros expanded with the verification guard OFF, comments and implicit nodes dropped) of every function of the\n   buffer hand-over protocol: PipeConc.v was written from exactly this text, PipeSync.v pins it *)\n"
    body += "From Coq Require Import List String.\nImport ListNotations.\nLocal Open Scope string_scope.\n\n"
    body += "Definition sync_skeleton : list (string * string) :=\n  [" + ";\n   ".join("(%s,\n    %s)" % (q(f), q(t)) for f, t in rows) + "].\n"
    os.makedirs(OUT, exist_ok=True)
    p = os.path.join(OUT, "Sync.v")
    old = open(p).read() if os.path.exists(p) else None
    if old != body:
        open(p, "w").write(body)
        return True
    return False


def unit_fheader():
    u = Unit("kernel/fheader.cpp", None, ["hmac", "FileHeader", "HashFactory", "sha1hash", "md5hash", "sha256hash", "buffer64", "Hashmaster"], layout_src="kernel/cry.cpp")
    fs = []
    for cls, m, ar in (("hmac", "getres", 4), ("hmac", "gethmac", 5), ("hmac", "cmphmac", 5), ("hmac", "writeFileHmac", 6), ("hmac", "get_length", 0),
                       ("FileHeader", "getIV", 2), ("FileHeader", "getFileHeader", 1), ("FileHeader", "checkType", 0), ("FileHeader", "checkMn", 0),
                       ("FileHeader", "getHmac", 1), ("FileHeader", "getctype", 0), ("FileHeader", "gethtype", 0), ("FileHeader", "FileHeader", 6),
                       ("sha1hash", "sha1hash", 0), ("md5hash", "md5hash", 0), ("sha256hash", "sha256hash", 0)):
        fs += u.translate(cls, m, ar)
    cl = [(c, class_objects(u.layouts, u.types, c)) for c in ("hmac", "FileHeader")]
    return emit_unit("Src_fheader.v", [u.src, "kernel/fheader.h", "kernel/hash/hashmaster.h"], fs, uniq_globals(u), cl, u.scalar_globals)


def unit_hashfactory():
    u = Unit("kernel/hash/hashmaster.cpp", None, ["HashFactory", "sha1hash", "md5hash", "sha256hash", "Hashmaster"], layout_src="kernel/fheader.cpp")
    fs = u.translate("HashFactory", "getType", 1) + u.translate("HashFactory", "getHasher", 1)
    return emit_unit("Src_hashfactory.v", [u.src], fs, [], [], u.scalar_globals)


def unit_cry():
    u = Unit("kernel/cry.cpp", None, ["runcrypt", "FileHeader", "hmac", "multicry_master"])
    fs = u.translate("runcrypt", "verify", 1) + u.translate("runcrypt", "prepare_IV", 1) + u.translate("runcrypt", "prepare_IV", 0)
    cl = [("runcrypt", class_objects(u.layouts, u.types, "runcrypt"))]
    return emit_unit("Src_cry.v", [u.src, "kernel/cry.h"], fs, [], cl, u.scalar_globals)


UNITS = [("Src_sha256.v", unit_hash("Src_sha256.v", "sha256hash", "kernel/hash/sha256.cpp", [("getwdata", 0)] + HASH_METHODS)),
         ("Src_sha1.v", unit_hash("Src_sha1.v", "sha1hash", "kernel/hash/sha1.cpp", [("getwdata", 0)] + HASH_METHODS)),
         ("Src_md5.v", unit_hash("Src_md5.v", "md5hash", "kernel/hash/md5.cpp", HASH_METHODS)),
         ("Src_hashmaster.v", unit_hashmaster),
         ("Src_aes.v", unit_aes),
         ("Src_aesmode.v", unit_aesmode),
         ("Src_base64.v", unit_base64),
         ("Src_iobuffer.v", unit_iobuffer),
         ("Src_hashbuffer.v", unit_hashbuffer),
         ("Sync.v", unit_sync),
         ("Src_hashfactory.v", unit_hashfactory),
         ("Src_fheader.v", unit_fheader),
         ("Src_cry.v", unit_cry)]


def main():
    failed, changed = [], []
    only = sys.argv[1:]
    for fname, fn in UNITS:
        if only and fname not in only:
            continue
        try:
            if fn():
                changed.append(fname)
        except GenError as e:
            failed.append(fname)
            print("GEN-FAILED %s: GEN-ERROR: %s" % (fname, e))
        except Exception as e:
            failed.append(fname)
            print("GEN-FAILED %s: GEN-ERROR: %s: %s" % (fname, type(e).__name__, e))
            if os.environ.get("CGEN_DEBUG"):
                raise
    print("cgen.py: %s; changed: %s" % ("ok" if not failed else "FAILED for " + " ".join(failed), ", ".join(changed) if changed else "none"))
    return 2 if failed else 0


if __name__ == "__main__":
    sys.exit(main())
