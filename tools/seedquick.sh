#!/bin/bash
# quick look: apply a patch to the scratch worktree /tmp/repo_clean (NOT /repo) and run the given checks against it
P=$1; shift
cd /tmp/repo_clean && git checkout -q -- . && git apply "$P" || { echo "patch does not apply"; exit 2; }
cd /verif
for c in "$@"; do
  r=$(WENCRY_REPO=/tmp/repo_clean python3 check.py $c quick 2>&1 | grep -E "^OK|^VIOL" | head -1 | cut -c1-90)
  echo "  $c: $r"
done
cd /tmp/repo_clean && git checkout -q -- .
