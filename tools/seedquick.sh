#!/bin/bash
# quick look: run the given checks against a seeded change (in a scratch worktree and a private copy of /verif: tools/seedtest.py)
P=$1; shift
SEEDTEST_TAG=_q python3 /verif/tools/seedtest.py "$P" "$@" | grep -E "^C[0-9]+ " | cut -c1-200
