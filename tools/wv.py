#!/usr/bin/env python3
"""Core of the wencry verification checks (see DESIGN.md A.3/A.4).

Every check does, in this order:
  1. regenerate coq/Gen/*.v from /repo's working tree (tools/gen.py);
  2. (re)build the Coq development with make (full .vo build, kernel-checked) for the
     property's theorem file, scan for forbidden constructs, collect Print Assumptions;
  3. extract the executable model/spec to OCaml and build the model driver;
  4. build the C++ driver(s) from /repo's *current working tree* (hooks enabled);
  5. generate cases from one PRNG seeded by VERIF_SEED, run both sides, compare;
  6. on any break: search for a concrete failing input of the property itself, write a
     replay file, print the VIOLATION line;
  7. write evidence/<id>.json.
"""
import fcntl, hashlib, json, os, random, re, shutil, subprocess, sys, tempfile, time
from concurrent.futures import ThreadPoolExecutor

VERIF = os.path.dirname(os.path.dirname(os.path.abspath(__file__)))
REPO = os.environ.get("WENCRY_REPO", "/repo")
COQ = os.path.join(VERIF, "coq")
BUILD = os.path.join(VERIF, "build")
CACHE = os.path.join(VERIF, ".cache")
HARNESS = os.path.join(VERIF, "harness")
NCPU = os.cpu_count() or 4
GUARD = "WENCRY_VERIF"

FORBIDDEN = re.compile(
    r"\b(Admitted|admit|Axiom|Axioms|Parameter|Parameters|Conjecture|Conjectures|Admit Obligations|"
    r"Unset Guard Checking|Unset Positivity Checking|Unset Universe Checking|bypass_check|"
    r"type-in-type|impredicative-set|native_compute)\b")


def log(msg):
    print("[wv] " + msg, flush=True)


class Lock:
    def __init__(self, name):
        os.makedirs(CACHE, exist_ok=True)
        self.path = os.path.join(CACHE, name + ".lock")

    def __enter__(self):
        self.f = open(self.path, "w")
        fcntl.flock(self.f, fcntl.LOCK_EX)
        return self

    def __exit__(self, *a):
        fcntl.flock(self.f, fcntl.LOCK_UN)
        self.f.close()


def sh(cmd, timeout=1800, cwd=None, env=None, input=None):
    p = subprocess.run(cmd, cwd=cwd, env=env, input=input, stdout=subprocess.PIPE, stderr=subprocess.STDOUT,
                       timeout=timeout, text=True, shell=isinstance(cmd, str))
    return p.returncode, p.stdout


# ------------------------------------------------------------------ translator
def run_gen():
    with Lock("coq"):
        rc, out = sh([sys.executable, os.path.join(VERIF, "tools", "gen.py")], timeout=120)
        # the source translator (functions -> MiniC terms, coq/Gen/Src_*.v); clang output is cached by source hash
        rc2, out2 = sh([sys.executable, os.path.join(VERIF, "tools", "cgen.py")], timeout=900)
    return rc == 0 and rc2 == 0, (out.strip() + "\n" + out2.strip()).strip()


def gen_failed_files(out):
    """Gen/*.v files the translator could not regenerate (they are stale), from gen.py's GEN-FAILED lines"""
    bad = {}
    for l in out.splitlines():
        m = re.match(r"GEN-FAILED (\S+): (.*)", l)
        if m:
            for f in m.group(1).split(","):
                bad["Gen/" + f] = m.group(2)
    return bad


# ------------------------------------------------------------------ Coq
def coq_files():
    files = []
    with open(os.path.join(COQ, "_CoqProject")) as f:
        for l in f:
            l = l.strip()
            if l.endswith(".v"):
                files.append(l)
    return files


def coq_make(targets, timeout=2400, per_file=None):
    """full .vo build of the given targets (and what they depend on). Returns (ok, output).
    Every coqc runs under `timeout per_file` (default 240 s, WV_COQC_TIMEOUT overrides; the slowest file of the unchanged tree needs
    ~90 s alone, ~200 s when 16 build in parallel): a changed source can send a proof script into a very long search - that is a
    broken proof obligation, reported as such, not a reason for the check to run for an hour."""
    per_file = per_file or int(os.environ.get("WV_COQC_TIMEOUT", "240"))
    with Lock("coq"):
        if not os.path.exists(os.path.join(COQ, "Makefile")) or \
                os.path.getmtime(os.path.join(COQ, "Makefile")) < os.path.getmtime(os.path.join(COQ, "_CoqProject")):
            sh(["coq_makefile", "-f", "_CoqProject", "-o", "Makefile"], cwd=COQ)
        try:
            rc, out = sh(["make", "-k", "-j%d" % NCPU, "TIMECMD=timeout %d" % per_file] + targets, cwd=COQ, timeout=timeout)
        except subprocess.TimeoutExpired as e:
            rc, out = 124, (e.stdout or "") + "\nmake did not finish within %d s" % timeout
    ok = all(os.path.exists(os.path.join(COQ, t)) for t in targets) and rc == 0
    return ok, out


def coq_deps(vfile):
    """transitive project-local dependencies (as .v paths relative to coq/) of vfile, itself included"""
    seen, todo = [], [vfile]
    while todo:
        f = todo.pop()
        if f in seen or not os.path.exists(os.path.join(COQ, f)):
            continue
        seen.append(f)
        src = open(os.path.join(COQ, f)).read()
        for m in re.finditer(r"From\s+Wencry(\.Gen)?\s+Require\s+(?:Import\s+|Export\s+)?([^.]*)\.", src):
            pre = "Gen/" if m.group(1) else ""
            for name in m.group(2).split():
                todo.append(pre + name.replace(".", "/") + ".v")
    return sorted(seen)


STMT = re.compile(r"^\s*(?:Local\s+|Global\s+|#\[[^\]]*\]\s*)*(Theorem|Lemma|Example|Corollary|Fact|Remark|Proposition)\s+([A-Za-z0-9_']+)", re.M)


def count_obligations(vfile):
    """(obligations, discharged, per-file detail): statements in the dependency closure, counted as
    discharged when the file's .vo exists and is newer than its source (make succeeded on it)."""
    obl = dis = 0
    detail = {}
    for f in coq_deps(vfile):
        src = open(os.path.join(COQ, f)).read()
        n = len(STMT.findall(src))
        vo = os.path.join(COQ, f[:-2] + ".vo")
        done = os.path.exists(vo) and os.path.getmtime(vo) >= os.path.getmtime(os.path.join(COQ, f))
        obl += n
        dis += n if done else 0
        detail[f] = {"statements": n, "compiled": bool(done)}
    return obl, dis, detail


def forbidden_scan():
    hits = []
    for f in coq_files():
        p = os.path.join(COQ, f)
        if not os.path.exists(p):
            continue
        src = open(p).read()
        src_nc = re.sub(r"\(\*.*?\*\)", lambda m: " " * len(m.group(0)), src, flags=re.S)
        for m in FORBIDDEN.finditer(src_nc):
            line = src_nc.count("\n", 0, m.start()) + 1
            hits.append("%s:%d:%s" % (f, line, m.group(0)))
    return hits


def print_assumptions(module, theorems):
    """runs coqc on scratch files (the theorems are spread over up to 8 concurrent coqc runs: Print Assumptions on a theorem with a
    large proof closure takes ~10 s); returns {theorem: assumptions text}"""
    d = tempfile.mkdtemp(prefix="wv_pa_")
    try:
        head = "From Wencry Require Import %s.\n" % (module if isinstance(module, str) else " ".join(module))
        n = max(1, min(8, len(theorems)))
        groups = [theorems[i::n] for i in range(n)]

        def one(ig):
            i, g = ig
            body = head
            for t in g:
                body += 'Goal True. idtac "@@BEGIN %s". Abort.\nPrint Assumptions %s.\nGoal True. idtac "@@END". Abort.\n' % (t, t)
            p = os.path.join(d, "PA%d.v" % i)
            open(p, "w").write(body)
            try:
                return sh(["coqc", "-Q", COQ, "Wencry", p], timeout=900)
            except subprocess.TimeoutExpired:
                return 124, "Print Assumptions timed out"
        res = {}
        with ThreadPoolExecutor(max_workers=n) as ex:
            for rc, out in ex.map(one, list(enumerate(groups))):
                for m in re.finditer(r"@@BEGIN (\S+)\n(.*?)@@END", out, flags=re.S):
                    res[m.group(1)] = " ".join(m.group(2).split())
                if rc != 0:
                    res["_error"] = out[-2000:]
        return res
    finally:
        shutil.rmtree(d, ignore_errors=True)


# ------------------------------------------------------------------ model driver (OCaml)
def build_model_driver():
    """Extract.vo must have been built (it writes coq/model.ml). Returns path of the binary."""
    od = os.path.join(BUILD, "ocaml")
    os.makedirs(od, exist_ok=True)
    with Lock("ocaml"):
        srcs = [os.path.join(COQ, "model.ml"), os.path.join(COQ, "model.mli"), os.path.join(HARNESS, "mdrv.ml")]
        h = hashlib.sha256()
        for s in srcs:
            h.update(open(s, "rb").read())
        stamp = os.path.join(od, "stamp")
        exe = os.path.join(od, "mdrv")
        if os.path.exists(exe) and os.path.exists(stamp) and open(stamp).read() == h.hexdigest():
            return exe
        for s in srcs:
            shutil.copy(s, od)
        rc, out = sh(["ocamlfind", "ocamlopt", "-w", "-a", "-O3", "model.mli", "model.ml", "mdrv.ml", "-o", "mdrv"], cwd=od, timeout=600)
        if rc != 0:
            raise RuntimeError("OCaml build failed:\n" + out[-3000:])
        open(stamp, "w").write(h.hexdigest())
        return exe


# ------------------------------------------------------------------ implementation driver (C++)
KERNEL_SRCS = ["kernel/cry.cpp", "kernel/fheader.cpp", "kernel/hash/hashmaster.cpp", "kernel/hash/sha1.cpp",
               "kernel/hash/md5.cpp", "kernel/hash/sha256.cpp", "kernel/hash/hashbuffer.cpp",
               "kernel/multi_aes/multicry.cpp", "kernel/multi_aes/multi_buffergroup.cpp",
               "kernel/multi_aes/aes/aes.cpp", "kernel/multi_aes/aes/aesmode.cpp", "valget/base64/base64.cpp"]
CLI_SRCS = ["valget/getopts.cpp", "valget/getval1.cpp", "valget/information.cpp"]
INCLUDES = ["kernel", "kernel/hash", "kernel/multi_aes", "kernel/multi_aes/aes", "valget", "valget/base64"]


def repo_source_hash():
    h = hashlib.sha256()
    for root in ("kernel", "valget"):
        for dp, dn, fn in sorted(os.walk(os.path.join(REPO, root))):
            dn.sort()
            for f in sorted(fn):
                if f.endswith((".cpp", ".h")):
                    p = os.path.join(dp, f)
                    h.update(p.encode())
                    h.update(open(p, "rb").read())
    for f in ("main.cpp", "config.h.in"):
        p = os.path.join(REPO, f)
        if os.path.exists(p):
            h.update(open(p, "rb").read())
    return h.hexdigest()


def build_impl(kind="drv", buf=None, hbuf=None, extra_flags=(), extra_srcs=(), opt="-O1", reverse_link_order=False):
    """Builds a binary from /repo's current working tree, cached by content hash.
    kind: 'drv' (harness/drv.cpp + kernel), 'cli' (main.cpp + everything), or a harness source name."""
    flags = ["-std=c++17", opt, "-g", "-pthread", "-D" + GUARD]
    if buf is not None:
        flags.append("-DWENCRY_VERIF_BUF_SZ=%d" % buf)
    if hbuf is not None:
        flags.append("-DWENCRY_VERIF_HBUF_SZ=%d" % hbuf)
    flags += list(extra_flags)
    if kind == "cli":
        main_srcs = [os.path.join(REPO, "main.cpp")] + [os.path.join(REPO, s) for s in CLI_SRCS]
        flags.append("-DOPT_ON")
    else:
        main_srcs = [os.path.join(HARNESS, kind + ".cpp")] + [os.path.join(HARNESS, s) for s in extra_srcs] + [os.path.join(REPO, s) for s in CLI_SRCS]
        flags.append("-DOPT_ON")
    h = hashlib.sha256()
    h.update(repo_source_hash().encode())
    h.update(" ".join(flags).encode())
    if reverse_link_order:
        h.update(b"reverse-link-order")
    for s in main_srcs:
        h.update(open(s, "rb").read())
    for s in os.listdir(HARNESS):
        if s.endswith(".h"):
            h.update(open(os.path.join(HARNESS, s), "rb").read())
    key = h.hexdigest()[:24]
    os.makedirs(CACHE, exist_ok=True)
    exe = os.path.join(CACHE, "%s_%s" % (kind, key))
    with Lock("cxx_" + key):
        if os.path.exists(exe):
            os.utime(exe)
            return exe, None
        gen = os.path.join(CACHE, "gen_" + key)
        os.makedirs(gen, exist_ok=True)
        cfg = open(os.path.join(REPO, "config.h.in")).read()
        cfg = cfg.replace("@build_time@", "verif").replace("@PROJECT_VERSION_MAJOR@", "3").replace(
            "@PROJECT_VERSION_MINOR@", "7").replace("@PROJECT_VERSION_PATCH@", "4").replace("@PROJECT_VERSION@", "3.7.4")
        open(os.path.join(gen, "config.h"), "w").write(cfg)
        cmd = ["g++"] + flags + ["-I" + gen, "-I" + HARNESS] + ["-I" + os.path.join(REPO, i) for i in INCLUDES] + main_srcs + \
              [os.path.join(REPO, s) for s in (list(reversed(KERNEL_SRCS)) if reverse_link_order else KERNEL_SRCS)] + ["-o", exe + ".tmp"]
        if any("fsanitize" in f for f in flags) and "clang" in os.environ.get("WV_SAN_CXX", ""):
            cmd[0] = os.environ["WV_SAN_CXX"]
        rc, out = sh(cmd, timeout=900)
        shutil.rmtree(gen, ignore_errors=True)
        if rc != 0:
            return None, out[-4000:]
        os.rename(exe + ".tmp", exe)
        prune_cache()
        return exe, None


def prune_cache(keep=40):
    try:
        bins = [os.path.join(CACHE, f) for f in os.listdir(CACHE) if re.match(r"^[a-z_]+_[0-9a-f]{24}$", f)]
        bins.sort(key=os.path.getmtime, reverse=True)
        for b in bins[keep:]:
            os.remove(b)
    except OSError:
        pass


# ------------------------------------------------------------------ running cases
def run_lines(cmd, lines, shards=None, timeout=1800, env=None):
    """feeds 'id cmd args' lines to a driver, sharded over processes. Returns {id: result-string}"""
    if not lines:
        return {}
    shards = shards or min(NCPU, max(1, len(lines) // 8))
    parts = [lines[i::shards] for i in range(shards)]

    def one(part):
        e = dict(os.environ)
        if env:
            e.update(env)
        p = subprocess.run(cmd, input="\n".join(part) + "\n", stdout=subprocess.PIPE, stderr=subprocess.DEVNULL,
                           text=True, errors="replace", timeout=timeout, env=e)
        return p.stdout

    res = {}
    with ThreadPoolExecutor(max_workers=shards) as ex:
        for out in ex.map(one, parts):
            for l in out.splitlines():
                i = l.find(" ")
                if i > 0:
                    res[l[:i]] = l[i + 1:]
    return res


# ------------------------------------------------------------------ known findings
def known_findings():
    p = os.path.join(VERIF, "known_findings.json")
    if not os.path.exists(p):
        return {"findings": [], "fixed": []}
    return json.load(open(p))


# ------------------------------------------------------------------ check context
class Check:
    def __init__(self, pid, tier):
        self.pid = pid
        self.tier = tier
        self.seed = int(os.environ.get("VERIF_SEED", "1"))
        self.rng = random.Random("%s/%d" % (pid, self.seed))
        self.t0 = time.time()
        self.violations = []          # (what, replay dict, found_input: bool)
        self.known_hits = []
        self.cov = {"evaluations": 0, "distinct_nontrivial": 0, "samples": [], "trusted_base": [],
                    "obligations": 0, "discharged": 0, "checker_cmd": ""}
        self.assumptions = []
        self.notes = []
        self.scratch = tempfile.mkdtemp(prefix="wv_%s_" % pid)
        self.proof_ok = False
        self.gen_ok = False

    # -- proof side -------------------------------------------------------
    def prove(self, module, theorems):
        """gen + make + scans. Sets self.proof_ok."""
        with Lock("prove"):
            return self._prove(module, theorems)

    def _prove(self, module, theorems):
        gen_all_ok, gen_out = run_gen()
        log(gen_out)
        modules = [module] if isinstance(module, str) else list(module)
        # a translator failure concerns this property only if a stale Gen file is in the dependency closure of its theorems
        stale = gen_failed_files(gen_out)
        closure = set()
        for m in modules:
            closure.update(coq_deps(m + ".v"))
        mine = {f: w for f, w in stale.items() if f in closure}
        self.gen_ok = gen_all_ok or (bool(stale) and not mine)
        if mine:
            gen_out = "; ".join("%s is stale: %s" % (f, w) for f, w in sorted(mine.items()))
        vos = [m + ".vo" for m in modules]
        vo = " ".join(vos)
        ok, out = coq_make(vos + ["Extract.vo"])
        self.make_tail = out[-3000:]
        obl = dis = 0
        detail = {}
        for m in modules:
            o, d_, det = count_obligations(m + ".v")
            for f, v in det.items():
                if f not in detail:
                    detail[f] = v
        obl = sum(v["statements"] for v in detail.values())
        dis = sum(v["statements"] for v in detail.values() if v["compiled"])
        hits = forbidden_scan()
        all_vo = all(os.path.exists(os.path.join(COQ, v)) for v in vos)
        pa = print_assumptions(modules, theorems) if all_vo else {}
        closed = all("Closed under the global context" in pa.get(t, "") for t in theorems)
        axioms = {t: pa.get(t, "(not available)") for t in theorems}
        self.cov.update({
            "obligations": obl, "discharged": dis,
            "checker_cmd": "python3 tools/gen.py && cd coq && coq_makefile -f _CoqProject -o Makefile && make -k -j%d %s (coqc 8.16.1, full .vo build); Print Assumptions on %s" % (NCPU, vo, ", ".join(theorems)),
            "theorems": theorems, "print_assumptions": axioms, "per_file": detail,
            "forbidden_constructs_found": hits, "translator_ok": self.gen_ok,
        })
        vo_ok = all_vo and ok
        self.proof_ok = bool(self.gen_ok and vo_ok and not hits and "_error" not in pa and (closed or self.allowed_axioms(pa, theorems)))
        if not self.gen_ok:
            self.broken = "translator tools/gen.py: " + gen_out
        elif not vo_ok:
            m = re.findall(r'File "\./([^"]+)", line (\d+).*?\n(Error:.*?)(?:\n\n|\Z)', out, flags=re.S)
            self.broken = "proof obligation no longer checks: " + (
                "; ".join("%s:%s %s" % (a, b, " ".join(c.split())[:300]) for a, b, c in m[:3]) if m else "make failed for " + vo)
        elif hits:
            self.broken = "forbidden construct in development: " + ", ".join(hits[:5])
        elif not self.proof_ok:
            self.broken = "Print Assumptions reports unexpected axioms: " + json.dumps(axioms)[:500]
        else:
            self.broken = None
        log("proof side: %s (obligations %d, discharged %d)" % ("ok" if self.proof_ok else "BROKEN: " + str(self.broken), obl, dis))
        return self.proof_ok

    def allowed_axioms(self, pa, theorems):
        return False

    # -- drivers ------------------------------------------------------------
    def model_driver(self):
        return build_model_driver()

    def impl_driver(self, **kw):
        exe, err = build_impl(**kw)
        if exe is None:
            raise BuildError(err)
        return exe

    def env(self):
        return {"WV_SCRATCH": self.scratch}

    # -- reporting ----------------------------------------------------------
    def sample(self, s):
        if len(self.cov["samples"]) < 12:
            self.cov["samples"].append(s)

    def violation(self, what, replay, found_input=True):
        self.violations.append((what, replay, found_input))

    def finish(self, level="proof", assumptions=(), rule=""):
        os.makedirs(os.path.join(VERIF, "evidence"), exist_ok=True)
        os.makedirs(os.path.join(VERIF, "replays"), exist_ok=True)
        kf = known_findings()
        rc = 0
        lines = []
        reported = 0
        # a concrete failing input outranks "proof / correspondence broken, nothing found": when one was found (and is not a listed
        # known finding), the no-failing-input-found reports are dropped; found ones come first
        def _is_known(rep):
            return any(k["property"] == self.pid and rep.get("class") is not None and k.get("class") == rep.get("class") for k in kf.get("findings", []))
        if any(f and not _is_known(rp) for (_, rp, f) in self.violations):
            self.violations = [v for v in self.violations if v[2]]
        for what, replay, found in self.violations:
            cls = replay.get("class")
            known = [k for k in kf.get("findings", []) if k["property"] == self.pid and cls is not None and k.get("class") == cls]
            if known:
                if cls not in self.known_hits:
                    self.known_hits.append(cls)
                    lines.append("KNOWN-FINDING: property=%s %s" % (self.pid, known[0]["what"]))
                continue
            reported += 1
            if reported > 5:
                continue
            h = hashlib.sha256(json.dumps(replay, sort_keys=True).encode()).hexdigest()[:12]
            path = os.path.join(VERIF, "replays", "%s-%s.json" % (self.pid, h))
            replay = dict(replay)
            replay.update({"property": self.pid, "what": what, "seed": self.seed, "tier": self.tier})
            json.dump(replay, open(path, "w"), indent=1)
            lines.append("VIOLATION property=%s replay=%s%s" % (self.pid, path, "" if found else " no-failing-input-found"))
            rc = 1
        self.cov["rule"] = rule
        self.cov["known_findings_seen"] = self.known_hits
        ev = {"property_id": self.pid, "tier": self.tier, "seed": self.seed, "level": level,
              "coverage": self.cov, "assumptions": list(assumptions) + self.assumptions,
              "wall_s": round(time.time() - self.t0, 2), "violations": reported}
        if self.notes:
            ev["coverage"]["notes"] = self.notes
        json.dump(ev, open(os.path.join(VERIF, "evidence", self.pid + ".json"), "w"), indent=1)
        shutil.rmtree(self.scratch, ignore_errors=True)
        for l in lines:
            print(l, flush=True)
        if rc == 0:
            print("OK property=%s tier=%s evaluations=%d wall=%.1fs" % (self.pid, self.tier, self.cov["evaluations"], time.time() - self.t0), flush=True)
        return rc


class BuildError(Exception):
    pass


def hexs(bs):
    return bytes(bs).hex() if len(bs) else "-"


TRUSTED_BASE = [
    "Coq 8.16.1 kernel incl. vm_compute (no native_compute)",
    "tools/gen.py translator (tables/constants regenerated from /repo on every run)",
    "ExtrOcamlBasic extraction (Extract Inductive bool/option/unit/list/prod/sumbool/sumor; Extract Inlined Constant andb/orb; no directive of our own), OCaml 4.13.1, harness/mdrv.ml",
    "harness/drv.cpp + g++ 12.2 building /repo's working tree with -DWENCRY_VERIF",
    "hand-written Gallina model of the C++ control logic, tied by the correspondence run of this check",
]
