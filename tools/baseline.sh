#!/bin/bash
# Builds /repo's working tree with the verification guard OFF in a scratch directory
# outside /repo and /verif, runs the repository's test suite and checks that every test of
# the pinned stable baseline (/root/.vp/BASELINE.json: stable_pass) passes.  Removes the
# scratch directory afterwards.
set -u
R=${1:-/repo}
D=$(mktemp -d /tmp/wv_baseline_XXXXXX)
trap 'rm -rf "$D"' EXIT
GT=$(grep -m1 '^GTest_DIR:PATH=' /repo/_build/CMakeCache.txt 2>/dev/null | cut -d= -f2)
[ -z "$GT" ] && GT=/root/miniconda/lib/cmake/GTest
cmake -G Ninja -S "$R" -B "$D/b" -DCMAKE_BUILD_TYPE=RelWithDebInfo -DCMAKE_CXX_FLAGS=-Wno-error -DGTest_DIR="$GT" >"$D/cmake.log" 2>&1 || { tail -30 "$D/cmake.log"; echo "BASELINE: configure failed"; exit 1; }
cmake --build "$D/b" -j16 >"$D/build.log" 2>&1 || { tail -40 "$D/build.log"; echo "BASELINE: build failed"; exit 1; }
# the end-to-end tests share fixed file names in the cwd, so they are run with -j1 per executable dir
python3 - "$D" <<'PY'
import json, sys, os, re, subprocess, glob
d = sys.argv[1]
base = json.load(open("/root/.vp/BASELINE.json"))
stable = base["stable_pass"]
# run each gtest binary with --gtest_output to obtain per-case results
passed = set()
order = ["utest", "sha1", "md5", "sha256", "aes", "base64", "hmac", "ECB", "CBC", "CTR", "CFB", "OFB", "small", "smode", "shash", "big", "speed"]
exes = sorted(glob.glob(os.path.join(d, "b", "test", "Test*")), key=lambda e: order.index(os.path.basename(e)[4:]) if os.path.basename(e)[4:] in order else 99)
for exe in exes:
    if not os.access(exe, os.X_OK) or os.path.isdir(exe):
        continue
    name = os.path.basename(exe)
    out = os.path.join(d, name + ".json")
    wd = os.path.join(d, "b", "test")   # same cwd and order as ctest: the tests share test.txt
    try:
        p = subprocess.run([exe, "--gtest_output=json:" + out], cwd=wd, stdout=subprocess.DEVNULL, stderr=subprocess.DEVNULL, timeout=900)
        rc = p.returncode
    except subprocess.TimeoutExpired:
        rc = -1
    allok = True
    if os.path.exists(out):
        j = json.load(open(out))
        for s in j.get("testsuites", []):
            for t in s.get("testsuite", []):
                ok = not t.get("failures")
                allok &= ok
                if ok:
                    passed.add("%s::%s" % (s["name"], t["name"]))
    if rc == 0 and allok:
        passed.add("%s::%s" % (name, name))
missing = [t for t in stable if t not in passed]
print("BASELINE: %d/%d stable tests pass with the guard off" % (len(stable) - len(missing), len(stable)))
if missing:
    print("BASELINE: failing: " + ", ".join(missing))
    sys.exit(1)
PY
