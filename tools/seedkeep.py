#!/usr/bin/env python3
"""Confirm a change written by a seeding sub-agent and keep it under /verif/seeded/<name>/.
usage: seedkeep.py <Cxx> <patchfile> <demodir> <name> [--checks C01,C02,...]
Steps (all in the agent's scratch worktree /tmp/seed/<Cxx>, never in /repo):
  clean tree: demo must PASS; with the patch: it compiles, the 36 stable tests pass, the demo FAILs.
Then tools/seedtest.py applies the patch to /repo, runs the checks, and undoes it."""
import json, os, shutil, subprocess, sys, time

V = os.path.dirname(os.path.dirname(os.path.abspath(__file__)))


def sh(cmd, cwd=None, timeout=3600):
    p = subprocess.run(cmd, cwd=cwd, shell=isinstance(cmd, str), capture_output=True, text=True, errors="replace", timeout=timeout)
    return p.returncode, (p.stdout + p.stderr)


def main():
    pid, patch, demo, name = sys.argv[1:5]
    checks = None
    if "--checks" in sys.argv:
        checks = sys.argv[sys.argv.index("--checks") + 1].split(",")
    wt = os.environ.get("SEED_WT", "/tmp/seed/" + pid)
    out = os.path.join(V, "seeded", name)
    os.makedirs(out, exist_ok=True)
    shutil.copy(patch, os.path.join(out, "patch.diff"))
    if os.path.isdir(os.path.join(out, "demo")):
        shutil.rmtree(os.path.join(out, "demo"))
    shutil.copytree(demo, os.path.join(out, "demo"))
    notes = os.path.join(os.path.dirname(patch), "NOTES.md")
    if os.path.exists(notes):
        shutil.copy(notes, os.path.join(out, "NOTES.md"))
    meta = {"property": pid, "name": name, "ran": []}
    # the scratch worktree follows /repo's HEAD (fixes committed since it was created)
    sh("git checkout -- . && git clean -fdq -- kernel valget && git checkout -q --detach $(git -C /repo rev-parse HEAD)", cwd=wt)
    rc0, o0 = sh(["bash", os.path.join(out, "demo", "run.sh"), wt], timeout=1800)
    meta["demo_without_change"] = {"exit": rc0, "tail": o0[-300:]}
    meta["ran"].append("demo/run.sh on the clean worktree")
    rc, o = sh(["git", "apply", os.path.join(out, "patch.diff")], cwd=wt)
    meta["applies"] = rc == 0
    rc1, o1 = sh(["bash", os.path.join(out, "demo", "run.sh"), wt], timeout=1800)
    meta["demo_with_change"] = {"exit": rc1, "tail": o1[-300:]}
    meta["ran"].append("demo/run.sh with the change applied")
    rcb, ob = sh([os.path.join(V, "tools", "baseline.sh"), wt], timeout=3600)
    meta["stable_tests_with_change"] = ob.strip().splitlines()[-1] if ob.strip() else "?"
    meta["ran"].append("tools/baseline.sh <worktree> (cmake build + the 36 stable tests) with the change applied")
    sh("git checkout -- . && git clean -fdq -- kernel valget", cwd=wt)
    meta["confirmed"] = bool(rc0 == 0 and rc1 != 0 and rcb == 0 and meta["applies"])
    cmd = [sys.executable, os.path.join(V, "tools", "seedtest.py"), os.path.join(out, "patch.diff")] + (checks or [])
    rc, o = sh(cmd, timeout=7200)
    lines = [l for l in o.splitlines() if l[:1] == "C"]
    meta["checks"] = lines
    meta["fired"] = [l.split()[0] for l in lines if " FIRED " in l]
    meta["ran"].append("tools/seedtest.py (git -C /repo apply, quick checks, git -C /repo checkout -- .)")
    json.dump(meta, open(os.path.join(out, "meta.json"), "w"), indent=1)
    print(json.dumps({k: meta[k] for k in ("name", "confirmed", "fired", "stable_tests_with_change")}))
    print("demo clean rc=%d, with change rc=%d" % (rc0, rc1))


if __name__ == "__main__":
    main()
