#!/usr/bin/env python3
"""Apply a seeded change to /repo, run the given checks (quick tier by default), undo it.
usage: seedtest.py <patch.diff> [--tier quick|thorough] C01 C03 ...   (no ids = all claimed checks)
Prints one line per check: which fired (exit 1 + VIOLATION) and which stayed quiet."""
import json, os, subprocess, sys, time

V = os.path.dirname(os.path.dirname(os.path.abspath(__file__)))


def main():
    args = sys.argv[1:]
    patch = os.path.abspath(args[0])
    tier = "quick"
    ids = []
    i = 1
    while i < len(args):
        if args[i] == "--tier":
            tier = args[i + 1]
            i += 2
        else:
            ids.append(args[i])
            i += 1
    # default: a scratch worktree of /repo's HEAD (checks run with WENCRY_REPO pointing at it), so that an interrupted run
    # never leaves /repo modified; --in-repo applies to /repo itself (git -C /repo apply ... / checkout -- .)
    R = "/repo"
    if "--in-repo" in ids:
        ids.remove("--in-repo")
    else:
        R = "/tmp/seed/_apply" + os.environ.get("SEEDTEST_TAG", "")
        if not os.path.isdir(R):
            os.makedirs("/tmp/seed", exist_ok=True)
            subprocess.run(["git", "-C", "/repo", "worktree", "prune"])
            subprocess.run(["git", "-C", "/repo", "worktree", "add", "--detach", R, "HEAD"], capture_output=True)
        subprocess.run(["git", "-C", R, "checkout", "-q", "--detach", subprocess.run(["git", "-C", "/repo", "rev-parse", "HEAD"], capture_output=True, text=True).stdout.strip()])
        subprocess.run(["git", "-C", R, "checkout", "--", "."])
    os.environ["WENCRY_REPO"] = R
    # the checks regenerate coq/Gen and rebuild in place: run them in a private copy of /verif so that work going on in
    # /verif itself is not disturbed (and does not disturb the run)
    global V
    if R != "/repo":
        V2 = "/tmp/seed/_verif" + os.environ.get("SEEDTEST_TAG", "")
        subprocess.run(["rsync", "-a", "--delete", "--exclude", ".git", "--exclude", "replays", "--exclude", "seeded", V + "/", V2 + "/"], check=True)
        V = V2
    if not ids:
        ids = [c["property_id"] for c in json.load(open(os.path.join(V, "MANIFEST.json")))["checks"]]
    st = subprocess.run(["git", "-C", R, "status", "--porcelain"], capture_output=True, text=True).stdout.strip()
    if st:
        print("refusing: %s has uncommitted changes:\n" % R + st)
        return 2
    r = subprocess.run(["git", "-C", R, "apply", patch], capture_output=True, text=True)
    if r.returncode != 0:
        print("patch does not apply: " + r.stderr)
        return 2
    res = {}
    try:
        for pid in ids:
            t0 = time.time()
            p = subprocess.run([sys.executable, os.path.join(V, "check.py"), pid, tier], cwd=V, capture_output=True, text=True, errors="replace")
            viol = [l for l in p.stdout.splitlines() if l.startswith("VIOLATION")]
            nofail = all("no-failing-input-found" in l for l in viol) if viol else False
            res[pid] = {"exit": p.returncode, "violations": len(viol), "only_no_failing_input": nofail, "wall_s": round(time.time() - t0, 1),
                        "first": viol[0] if viol else ""}
            what = ""
            if viol:
                try:
                    rp = viol[0].split("replay=")[1].split()[0]
                    what = json.load(open(rp)).get("what", "")[:160]
                except Exception:
                    pass
            print("%s %s exit=%d violations=%d%s %.0fs  %s" % (pid, "FIRED" if p.returncode == 1 and viol else "quiet", p.returncode, len(viol), " (no-failing-input-found)" if nofail else "", time.time() - t0, what), flush=True)
    finally:
        subprocess.run(["git", "-C", R, "checkout", "--", "."])
        subprocess.run(["git", "-C", R, "clean", "-fdq", "--", "kernel", "valget"])
    print(json.dumps(res))
    return 0


if __name__ == "__main__":
    sys.exit(main())
