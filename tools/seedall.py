#!/usr/bin/env python3
"""Re-runs every quick check against every kept seeded change (seeded/*/patch.diff) with the CURRENT machinery and rewrites the
'checks' / 'fired' fields of seeded/*/meta.json; several changes in parallel, each in its own scratch worktree and private copy
of /verif (tools/seedtest.py with SEEDTEST_TAG).  usage: seedall.py [-j N] [names...]"""
import glob, json, os, subprocess, sys
from concurrent.futures import ThreadPoolExecutor
V = os.path.dirname(os.path.dirname(os.path.abspath(__file__)))


RELEVANT = False


def one(name):
    d = os.path.join(V, "seeded", name)
    env = dict(os.environ, SEEDTEST_TAG="_" + name)
    mp = os.path.join(d, "meta.json")
    meta = json.load(open(mp)) if os.path.exists(mp) else {"name": name, "property": name.split("_")[0]}
    ids = []
    if RELEVANT:      # only the check of the property the change was written for + the checks that fired on it before
        ids = sorted(set([meta.get("property", name.split("_")[0])] + list(meta.get("fired") or [])))
    p = subprocess.run([sys.executable, os.path.join(V, "tools", "seedtest.py"), os.path.join(d, "patch.diff")] + ids, capture_output=True, text=True, errors="replace", env=env)
    lines = [l for l in p.stdout.splitlines() if l[:1] == "C" and len(l) > 3 and l[1:3].isdigit()]
    if RELEVANT and meta.get("checks"):
        new = {l.split()[0]: l for l in lines}
        lines = [new.get(l.split()[0], l + "  [not re-run]") for l in meta["checks"]]
    if "patch does not apply" in p.stdout:
        meta["applies_to_current_head"] = False
    else:
        meta["applies_to_current_head"] = True
        meta["checks"] = lines
        meta["fired"] = [l.split()[0] for l in lines if " FIRED " in l]
    needs = json.load(open(os.path.join(V, "tools", "seed_needs.json"))) if os.path.exists(os.path.join(V, "tools", "seed_needs.json")) else {}
    if not meta.get("needs") and name in needs:
        meta["needs"] = needs[name]
    json.dump(meta, open(mp, "w"), indent=1)
    subprocess.run(["git", "-C", "/repo", "worktree", "remove", "--force", "/tmp/seed/_apply_" + name], capture_output=True)
    subprocess.run(["rm", "-rf", "/tmp/seed/_verif_" + name])
    return name, meta.get("fired"), meta.get("applies_to_current_head")


def main():
    global RELEVANT
    args = sys.argv[1:]
    j = 4
    if "--relevant" in args:
        args.remove("--relevant")
        RELEVANT = True
    if args[:1] == ["-j"]:
        j = int(args[1])
        args = args[2:]
    names = args or sorted(os.path.basename(os.path.dirname(p)) for p in glob.glob(os.path.join(V, "seeded", "*", "patch.diff")))
    with ThreadPoolExecutor(max_workers=j) as ex:
        for name, fired, ok in ex.map(one, names):
            print(name, "applies" if ok else "DOES NOT APPLY", fired, flush=True)


if __name__ == "__main__":
    main()
