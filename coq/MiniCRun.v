(* Running translated functions: construction of the initial memory from the object lists the
   translator emits, conversion between byte lists (N) and cells (Z). *)
From Coq Require Import ZArith NArith List String.
From Wencry Require Import MiniC.
Import ListNotations.
Local Open Scope Z_scope.

Definition mk_object (t : ity) (n : Z) : object := {| o_ty := t; o_cells := repeat 0 (Z.to_nat n) |}.
Definition mk_objects (pfx : string) (l : list (string * ity * Z)) : memory :=
  map (fun x => match x with (name, t, n) => ((pfx ++ name)%string, mk_object t n) end) l.
Definition bytes_object (bs : list N) : object := {| o_ty := U8; o_cells := map Z.of_N bs |}.
Definition object_bytes (o : object) : list N := map Z.to_N (o_cells o).

Definition init_state (m : memory) : state :=
  {| mem := m; loc := []; pre := ""%string; files := []; ptrs := []; fresh := 0 |}.

Definition get_bytes (s : state) (name : string) : option (list N) :=
  match mget (mem s) name with Some o => Some (object_bytes o) | None => None end.
