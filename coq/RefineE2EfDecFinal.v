(* Stage 5: execute_decrypt (accepting path) end to end modulo THREE named big-step premises about sequential code on explicit states:
     RefineE2EfSetup1D.dec_verify_spec      (runcrypt::verify/1 with the state it leaves),
     RefineE2EfSetup1D.dec_prepare_IV0_spec (runcrypt::prepare_IV/0),
     pa_rest_d_premise                      (prepare_AES after get_instance for the decrypt layout instance: RefineE2EfDecSpec.pa_rest_spec_d).
   Proved: both machine steps of the set-up (RefineE2EfSetup1D.dec_first_step, RefineE2EfSetup2D.second_step), `new buffergroup` (RefineE2EfSetup2AD.gi_if_ok_d),
   the layout instance (RefineE2EfDecInst), the concurrent phase, the tear-down and the file-level model (RefineE2EfDec2.decrypt_modulo_setup). *)
From Coq Require Import ZArith NArith List String Bool Lia Arith.
From Wencry Require Import Bytes AesModel ModesModel HashModel FileSpec FileModel FileProps PipeConc MiniC MiniCRun MiniCLemmas MiniCConc SrcRun SrcRun2 SrcRun5.
From Wencry Require Import RefineE2EfLay RefineE2EfWLay RefineE2EfGen RefineE2EfHashSpec RefineE2EfHashB3 RefineE2EfDec2 RefineE2EfDecSpec RefineE2EfDecInst.
From Wencry Require RefineE2EfSetup1D RefineE2EfSetup2AD RefineE2EfSetup2D ModesProofs RefineE2EfEnc2 RefineE2EfSetup2PAD.
Import ListNotations.

Definition pa_rest_d_premise : Prop :=
  forall (c hbuf T : nat) (F key : list N) (kd : mkind) (h n : nat) (ivo : object) (extra : memory) (pextra : locs),
    (1 <= c)%nat -> (1 <= T <= 16)%nat -> block16 key -> bytesb F = true -> (hmac_mark + 64 <= List.length F)%nat ->
    (nth 8 F 0 <= 4)%N -> create false (nth 8 F 0%N) = Some kd ->
    (n < h)%nat -> (1 <= n)%nat -> mget extra (heap_name n) = Some ivo -> o_ty ivo = U8 -> (16 <= List.length (o_cells ivo))%nat ->
    firstn 16 (o_cells ivo) = map Z.of_N (firstn 16 (skipn 48 F)) ->
    ext_mem_ok h extra = true -> ext_ptr_ok h pextra = true -> no_sizeof_names extra = true -> no_alloc_keys pextra = true ->
    pa_rest_spec_d c hbuf T F key h n extra pextra kd.

Lemma In_skipn' : forall (A : Type) k (l : list A) x, In x (skipn k l) -> In x l.
Proof. intros A k. induction k as [|k IH]; intros [|a l] x H; cbn [skipn] in H; try exact H. right. apply IH. exact H. Qed.
Lemma iv16_block : forall F, bytesb F = true -> (64 <= List.length F)%nat -> block16 (firstn 16 (skipn 48 F)).
Proof.
  intros F HF HL. apply ModesProofs.block16_iff. split.
  - rewrite firstn_length, skipn_length. lia.
  - unfold ModesProofs.bytes. apply Forall_forall. intros x Hx.
    assert (In x F) by (apply (In_skipn' _ 48); apply (RefineE2EfEnc2.In_firstn' _ 16); exact Hx).
    unfold bytesb in HF. rewrite forallb_forall in HF. specialize (HF x H). unfold byte_ok in HF. apply N.ltb_lt in HF. exact HF.
Qed.

Lemma pa_rest_d_ok : pa_rest_d_premise.
Proof.
  intros c hbuf T F key kd h n ivo extra pextra Hc HT Hkey HF Hlen Hct Hkd Hn Hn1 Hivo Hty Hl16 Hiv16 Hext Hpext Hnsz Hnal.
  assert (Hlen74 : (64 <= List.length F)%nat) by (assert (hmac_mark = 10%nat) by reflexivity; lia).
  apply (RefineE2EfSetup2PAD.pa_rest_ok_d c hbuf T F key h n extra pextra kd ivo HT Hkey (iv16_block F HF Hlen74) Hkd Hn ltac:(lia) Hivo Hty Hl16 Hiv16 Hext Hpext Hnsz Hnal).
Qed.

(* what an accepted file gives *)
Lemma dec_accepts : forall c hbuf T F key out, dec c hbuf T F key = FileModel.Ok out ->
  verify hbuf F key = FileModel.Ok 0%N /\ (hmac_mark + 64 <= List.length F)%nat /\ (nth 8 F 0 <= 4)%N /\ exists kd, create false (nth 8 F 0%N) = Some kd.
Proof.
  intros c hbuf T F key out H. unfold dec in H.
  destruct (verify hbuf F key) as [code| | |] eqn:EV; try discriminate H.
  destruct code as [|p]; [|discriminate H].
  split; [reflexivity|].
  unfold verify in EV.
  destruct (List.length F <? 8)%nat; [discriminate EV|].
  destruct (negb (list_eqb (firstn 8 F) magic_bytes)); [discriminate EV|].
  destruct (List.length F <? hmac_mark + 64)%nat eqn:EL; [discriminate EV|]. apply Nat.ltb_ge in EL.
  split; [exact EL|].
  destruct ((4 <? nth 8 F 0)%N || (2 <? nth 9 F 0)%N) eqn:EC; [discriminate EV|]. apply orb_false_iff in EC. destruct EC as [EC _]. apply N.ltb_ge in EC.
  split; [exact EC|].
  destruct (create false (nth 8 F 0%N)) as [kd|]; [exists kd; reflexivity|discriminate H].
Qed.

Theorem decrypt_modulo_named :
  RefineE2EfSetup1D.dec_verify_spec -> RefineE2EfSetup1D.dec_prepare_IV0_spec -> pa_rest_d_premise ->
  forall (c hbuf T : nat) (F key : list N) (rnd : N) (out : list N),
  (1 <= c)%nat -> (1 <= hbuf)%nat -> (N.of_nat (16 * c) < 2 ^ 32)%N -> (N.of_nat (64 * hbuf) < 2 ^ 32)%N -> (1 <= T <= 16)%nat ->
  block16 key -> bytesb F = true -> (N.of_nat (List.length F) < 2 ^ 36)%N ->
  dec c hbuf T F key = FileModel.Ok out ->
  match src_decrypt_file c hbuf T F key rnd with
  | SOk (b, o, i, _) => b = true /\ o = out /\ i = F
  | SErr w => w = "out of fuel"%string \/ w = "step bound reached"%string
  end.
Proof.
  intros D1 D2 PAD c hbuf T F key rnd out Hc Hh1 Hc32 Hh32 HT Hkey HF HL36 Hdec.
  destruct (dec_accepts c hbuf T F key out Hdec) as (Hver & Hlen & Hct & kd & Hkd).
  assert (Hlen74 : (64 <= List.length F)%nat) by (assert (hmac_mark = 10%nat) by reflexivity; lia).
  pose proof (iv16_block F HF Hlen74) as Hiv.
  assert (Hct256 : (nth 8 F 0 < 256)%N) by lia.
  destruct (RefineE2EfSetup1D.dec_first_step c hbuf T F key Hh1 Hh32 HT Hkey HF Hver Hlen Hct256 D1 D2)
    as (h & n & ivo & extra & pextra & Hn & Hn1 & Hivo & Hty & Hl16 & Hiv16 & Hext & Hpext & Hnsz & Hnal & Hst).
  cbv zeta in Hst. destruct Hst as (EL0 & EL1 & Hst1).
  pose proof (RefineE2EfSetup2AD.gi_if_ok_d c hbuf T F key h n extra pextra kd HT Hkey Hiv Hn Hext Hpext Hnsz Hnal) as GI.
  pose proof (PAD c hbuf T F key kd h n ivo extra pextra Hc HT Hkey HF Hlen Hct Hkd Hn Hn1 Hivo Hty Hl16 Hiv16 Hext Hpext Hnsz Hnal) as PA.
  destruct (RefineE2EfSetup2D.second_step c hbuf T F key h n extra pextra kd HT Hkey Hiv Hn Hext Hpext GI PA) as (sm0 & Hsm & Hst2).
  cbv zeta in Hst2.
  apply (decrypt_modulo_setup c hbuf T F key out Hc Hc32 HT HF Hdec kd Hkd (PWd hbuf T F key h n extra pextra kd) eq_refl eq_refl eq_refl eq_refl
           (PWdec_ok hbuf T F key HT Hkey Hiv h n extra pextra kd Hn Hext Hpext) (PWdec_frame hbuf T F key h n extra pextra kd) sm0 Hsm).
  intros fuel. split; [exact EL0|].
  destruct (Hst1 fuel) as [E|E]; [left; exact E|right].
  eexists. eexists. split; [exact E|]. split; [exact EL1|].
  destruct (Hst2 fuel) as [E2|[e2 E2]]; [left; exact E2|right; exists e2; exact E2].
Qed.
Print Assumptions decrypt_modulo_named.

Theorem decrypt_modulo_first_step_premises :
  RefineE2EfSetup1D.dec_verify_spec -> RefineE2EfSetup1D.dec_prepare_IV0_spec ->
  forall (c hbuf T : nat) (F key : list N) (rnd : N) (out : list N),
  (1 <= c)%nat -> (1 <= hbuf)%nat -> (N.of_nat (16 * c) < 2 ^ 32)%N -> (N.of_nat (64 * hbuf) < 2 ^ 32)%N -> (1 <= T <= 16)%nat ->
  block16 key -> bytesb F = true -> (N.of_nat (List.length F) < 2 ^ 36)%N ->
  dec c hbuf T F key = FileModel.Ok out ->
  match src_decrypt_file c hbuf T F key rnd with
  | SOk (b, o, i, _) => b = true /\ o = out /\ i = F
  | SErr w => w = "out of fuel"%string \/ w = "step bound reached"%string
  end.
Proof. intros D1 D2. exact (decrypt_modulo_named D1 D2 pa_rest_d_ok). Qed.
Print Assumptions decrypt_modulo_first_step_premises.
