(* Statement file for the delivered parts of Stage 5 (the end-to-end theorems of Properties_SrcE2Ef.v are reduced to them plus
   two sequential obligations, see (iii) below).  Everything here is closed under the global context.
   (i)   the buffer hand-over protocol of the translated code follows PipeConc for ANY layout of the heap / calling frame /
         rest of the memory and ANY stream object that satisfies the machine-level specification LayoutOk.stream_call;
   (ii)  the layout of the whole program (SrcRun5.whole_prog) with the eight real mode classes of aesmode.cpp satisfies it;
   (iii) execute_encrypt / execute_decrypt end to end, given (Hpre) that the two set-up steps of the main thread end in the canonical
         state of that layout and (Hsuf) a description of the last step of the main thread. *)
From Coq Require Import ZArith NArith List String Bool.
From Wencry Require Import Bytes AesModel ModesModel HashModel FileModel FileProps PipeConc PipeProps MiniC MiniCRun MiniCLemmas MiniCConc SrcRun SrcRun2 SrcRun5.
From Wencry Require Import RefineConcDone RefineE2EfPipe.
From Wencry Require Import RefineE2EfLay RefineE2EfMach RefineE2EfMem RefineE2EfRel RefineE2EfGen RefineE2EfRun
     RefineE2EfWLay RefineE2EfWOk RefineE2EfEnc RefineE2EfDec RefineE2EfTail RefineE2EfDec2 RefineE2EfHashSpec RefineE2EfEnc2 RefineE2EfFinal RefineE2EfSetup1 RefineE2EfFinal2 RefineE2EfFinal3 RefineE2EfFinal4 RefineE2EfSetup1D RefineE2EfDecFinal RefineE2EfDecFinal2.
Import ListNotations.

(* ---------------- (i) any layout, any stream object ---------------- *)
Theorem SRC_protocol_follows_PipeConc_any_stream :
  forall (LY : Layout) (LO : LayoutOk) (c T : nat) (pad : bool) (input0 : list N),
  (1 <= c)%nat -> (16 * Z.of_nat c < 2 ^ 32)%Z -> (1 <= T <= 16)%nat -> bytesb input0 = true ->
  forall sched s cs s' log,
    sim c T pad input0 s cs -> inv_done LS s ->
    run_events LS Ltr Lev c pad s sched = Some (s', log) ->
    exists F cs' log',
      (forall F', (F <= F')%nat -> crun Lprog [] F' cs sched = Ok (cs', log')) /\
      norm_log log' = log /\ sim c T pad input0 s' cs' /\ inv_done LS s'.
Proof. intros LY LO c T pad input0 Hc Hc32 HT Hb. exact (run_sim c T pad input0 Hc Hc32 HT Hb). Qed.
Print Assumptions SRC_protocol_follows_PipeConc_any_stream.

(* the scheduler of SrcRun5 on a related state: never a deadlock, never undefined behaviour *)
Theorem SRC_scheduler_run_follows_PipeConc_any_stream :
  forall (LY : Layout) (LO : LayoutOk) (c T : nat) (pad : bool) (input0 : list N),
  (1 <= c)%nat -> (16 * Z.of_nat c < 2 ^ 32)%Z -> (1 <= T <= 16)%nat -> bytesb input0 = true ->
  forall (Qfin : pstate -> cstate -> Prop),
  (forall s cs, sim c T pad input0 s cs -> terminal LS s = true -> forall fuel,
     cstep Lprog [] fuel cs 0 = NoFuel \/
     exists cs' evs, cstep Lprog [] fuel cs 0 = Ok (cs', evs) /\ Qfin s cs' /\ enabled_list cs' = [] /\ all_tdone cs' = true) ->
  forall n fuel rnd s cs k, sim c T pad input0 s cs -> inv_done LS s ->
    goodres (fun cs' => exists s', reach c T pad (skipn Lpos0 input0) LS Ltr Lev (Lsig0 T) s' /\ terminal LS s' = true /\ Qfin s' cs')
            (auto_run_with Lprog n fuel rnd cs k).
Proof. intros LY LO c T pad input0 Hc Hc32 HT Hb Qfin Hsuf. exact (auto_run_middle c T pad input0 Hc Hc32 HT Hb Qfin Hsuf). Qed.
Print Assumptions SRC_scheduler_run_follows_PipeConc_any_stream.

(* ---------------- (ii) the whole program with the real modes ---------------- *)
Theorem SRC_whole_program_layout_ok : forall P : wpar, wpar_ok P -> wdone_ok P -> @LayoutOk (wlayout P).
Proof. exact wlayout_ok. Qed.
Print Assumptions SRC_whole_program_layout_ok.

(* ---------------- (iii) end to end, modulo the sequential set-up and the last step ---------------- *)
Theorem SRC_execute_encrypt_is_model_from_parts :
  forall (c hbuf T : nat) (P key seed : list N) (cm hm : N),
  enc_params c hbuf T P key seed cm hm -> (N.of_nat (16 * c) < 2 ^ 32)%N ->
  forall ke, create true cm = Some ke ->
  forall (PW : wpar),
  wp_kind PW = ke -> wp_ks PW = genall key -> wp_iv PW = firstn 16 (iv_chain seed T) ->
  wp_out0 PW = map Z.of_N (file_header cm hm (iv_chain seed T) T) -> wp_pos0 PW = 0%nat ->
  forall (OKW : wpar_ok PW) (DKW : wdone_ok PW) (sm0 : memory),
  (forall i, (i < T)%nat -> w_srep PW T i (firstn 16 (iv_chain seed T)) sm0) ->
  let cs0 := whole_init WEnc c hbuf T (Z.of_N cm) (Z.of_N hm) P key seed in
  let cs2 := @cstate_md (wlayout PW) c T true P I_WaitUpdate (repeat W_New T) (@d_init0 (wlayout PW) c T sm0) (@g_init0 (wlayout PW) T) in
  (forall fuel, enabled_list cs0 = [O] /\
     (cstep whole_prog [] fuel cs0 0 = NoFuel \/
      exists cs1 e1, cstep whole_prog [] fuel cs0 0 = Ok (cs1, e1) /\ enabled_list cs1 = [O] /\
        (cstep whole_prog [] fuel cs1 0 = NoFuel \/ exists e2, cstep whole_prog [] fuel cs1 0 = Ok (cs2, e2)))) ->
  (forall s cs, @sim (wlayout PW) c T true P s cs -> terminal (list N) s = true -> forall fuel,
     cstep whole_prog [] fuel cs 0 = NoFuel \/
     exists cs' evs, cstep whole_prog [] fuel cs 0 = Ok (cs', evs) /\
       Qfin hbuf T P key seed cm hm PW s cs' /\ enabled_list cs' = [] /\ all_tdone cs' = true) ->
  forall rnd,
  match src_encrypt_file c hbuf T cm hm P key seed rnd with
  | SOk (b, o, i, _) => b = true /\ enc c hbuf T P key cm hm seed = FileModel.Ok o /\ i = P
  | SErr w => w = "out of fuel"%string \/ w = "step bound reached"%string
  end.
Proof.
  intros c hbuf T P key seed cm hm EP Hc32 ke Hke PW E1 E2 E3 E4 E5 OKW DKW sm0 Hsm cs0 cs2 Hpre Hsuf.
  exact (encrypt_from_parts c hbuf T P key seed cm hm EP Hc32 ke Hke PW E1 E2 E3 E5 OKW DKW sm0 Hsm Hpre Hsuf).
Qed.
Print Assumptions SRC_execute_encrypt_is_model_from_parts.

Theorem SRC_execute_decrypt_is_model_from_parts :
  forall (c hbuf T : nat) (F key out : list N),
  (1 <= c)%nat -> (N.of_nat (16 * c) < 2 ^ 32)%N -> (1 <= T <= 16)%nat -> bytesb F = true ->
  dec c hbuf T F key = FileModel.Ok out ->
  forall kd, create false (nth 8 F 0%N) = Some kd ->
  forall (PW : wpar),
  wp_kind PW = kd -> wp_ks PW = genall key -> wp_iv PW = firstn 16 (skipn 48 F) -> wp_out0 PW = [] -> wp_pos0 PW = text_mark T ->
  forall (OKW : wpar_ok PW) (DKW : wdone_ok PW) (sm0 : memory),
  (forall i, (i < T)%nat -> w_srep PW T i (firstn 16 (skipn 48 F)) sm0) ->
  let cs0 := whole_init WDec c hbuf T (-1) (-1) F key [] in
  let cs2 := @cstate_md (wlayout PW) c T false F I_WaitUpdate (repeat W_New T) (@d_init0 (wlayout PW) c T sm0) (@g_init0 (wlayout PW) T) in
  (forall fuel, enabled_list cs0 = [O] /\
     (cstep whole_prog [] fuel cs0 0 = NoFuel \/
      exists cs1 e1, cstep whole_prog [] fuel cs0 0 = Ok (cs1, e1) /\ enabled_list cs1 = [O] /\
        (cstep whole_prog [] fuel cs1 0 = NoFuel \/ exists e2, cstep whole_prog [] fuel cs1 0 = Ok (cs2, e2)))) ->
  (forall s cs, @sim (wlayout PW) c T false F s cs -> terminal (list N) s = true -> forall fuel,
     cstep whole_prog [] fuel cs 0 = NoFuel \/
     exists cs' evs, cstep whole_prog [] fuel cs 0 = Ok (cs', evs) /\
       QfinD F PW s cs' /\ enabled_list cs' = [] /\ all_tdone cs' = true) ->
  forall rnd,
  match src_decrypt_file c hbuf T F key rnd with
  | SOk (b, o, i, _) => b = true /\ o = out /\ i = F
  | SErr w => w = "out of fuel"%string \/ w = "step bound reached"%string
  end.
Proof.
  intros c hbuf T F key out Hc Hc32 HT HF Hdec kd Hkd PW E1 E2 E3 E4 E5 OKW DKW sm0 Hsm cs0 cs2 Hpre Hsuf.
  exact (decrypt_from_parts c hbuf T F key out Hc Hc32 HT HF Hdec kd Hkd PW E1 E2 E3 E5 OKW DKW sm0 Hsm Hpre Hsuf).
Qed.
Print Assumptions SRC_execute_decrypt_is_model_from_parts.

(* ---------------- (iii'/iv') with the tear-down proved ---------------- *)
(* decrypt: only the set-up (Hpre) is left; the frame conditions dec_frame_ok describe execute_decrypt's frame around run_multicry *)
Theorem SRC_execute_decrypt_is_model_modulo_setup :
  forall (c hbuf T : nat) (F key out : list N),
  (1 <= c)%nat -> (N.of_nat (16 * c) < 2 ^ 32)%N -> (1 <= T <= 16)%nat -> bytesb F = true ->
  dec c hbuf T F key = FileModel.Ok out ->
  forall kd, create false (nth 8 F 0%N) = Some kd ->
  forall (PW : wpar),
  wp_kind PW = kd -> wp_ks PW = genall key -> wp_iv PW = firstn 16 (skipn 48 F) -> wp_pos0 PW = text_mark T ->
  forall (OKW : wpar_ok PW) (DF : dec_frame_ok PW) (sm0 : memory),
  (forall i, (i < T)%nat -> w_srep PW T i (firstn 16 (skipn 48 F)) sm0) ->
  let cs0 := whole_init WDec c hbuf T (-1) (-1) F key [] in
  let cs2 := @cstate_md (wlayout PW) c T false F I_WaitUpdate (repeat W_New T) (@d_init0 (wlayout PW) c T sm0) (@g_init0 (wlayout PW) T) in
  (forall fuel, enabled_list cs0 = [O] /\
     (cstep whole_prog [] fuel cs0 0 = NoFuel \/
      exists cs1 e1, cstep whole_prog [] fuel cs0 0 = Ok (cs1, e1) /\ enabled_list cs1 = [O] /\
        (cstep whole_prog [] fuel cs1 0 = NoFuel \/ exists e2, cstep whole_prog [] fuel cs1 0 = Ok (cs2, e2)))) ->
  forall rnd,
  match src_decrypt_file c hbuf T F key rnd with
  | SOk (b, o, i, _) => b = true /\ o = out /\ i = F
  | SErr w => w = "out of fuel"%string \/ w = "step bound reached"%string
  end.
Proof. exact decrypt_modulo_setup. Qed.
Print Assumptions SRC_execute_decrypt_is_model_modulo_setup.

(* encrypt: the set-up (Hpre) and the NAMED premise RefineE2EfTail.writeFileHmac_spec about hmac::writeFileHmac are left *)
Theorem SRC_execute_encrypt_is_model_modulo_setup_and_writeFileHmac :
  forall (c hbuf T : nat) (P key seed : list N) (cm hm : N),
  enc_params c hbuf T P key seed cm hm -> (N.of_nat (16 * c) < 2 ^ 32)%N ->
  forall ke, create true cm = Some ke ->
  forall (h n : nat) (extra : memory) (pextra : locs),
  (n < h)%nat -> ext_mem_ok h extra = true -> ext_ptr_ok h pextra = true ->
  let PW := PWenc hbuf T P key seed cm hm h (heap_name n) extra pextra ke in
  writeFileHmac_spec PW c hbuf T hm key ->
  forall (sm0 : memory),
  (forall i, (i < T)%nat -> w_srep PW T i (firstn 16 (iv_chain seed T)) sm0) ->
  let cs0 := whole_init WEnc c hbuf T (Z.of_N cm) (Z.of_N hm) P key seed in
  let cs2 := @cstate_md (wlayout PW) c T true P I_WaitUpdate (repeat W_New T) (@d_init0 (wlayout PW) c T sm0) (@g_init0 (wlayout PW) T) in
  (forall fuel, enabled_list cs0 = [O] /\
     (cstep whole_prog [] fuel cs0 0 = NoFuel \/
      exists cs1 e1, cstep whole_prog [] fuel cs0 0 = Ok (cs1, e1) /\ enabled_list cs1 = [O] /\
        (cstep whole_prog [] fuel cs1 0 = NoFuel \/ exists e2, cstep whole_prog [] fuel cs1 0 = Ok (cs2, e2)))) ->
  forall rnd,
  match src_encrypt_file c hbuf T cm hm P key seed rnd with
  | SOk (b, o, i, _) => b = true /\ enc c hbuf T P key cm hm seed = FileModel.Ok o /\ i = P
  | SErr w => w = "out of fuel"%string \/ w = "step bound reached"%string
  end.
Proof. exact encrypt_modulo_setup_and_hmac. Qed.
Print Assumptions SRC_execute_encrypt_is_model_modulo_setup_and_writeFileHmac.

(* encrypt: ONLY the set-up is left, as the NAMED premise RefineE2EfFinal.setup_enc_spec (the two set-up steps of the main thread end
   in the canonical state of the layout instance PWenc, with the name conditions left_behind_ok on what prepare_IV left behind);
   hmac::writeFileHmac is proved (RefineE2EfHashB3.writeFileHmac_enc_ok', agent proof-hash) *)
Theorem SRC_execute_encrypt_is_model_modulo_setup :
  forall (c hbuf T : nat) (P key seed : list N) (cm hm : N),
  enc_params c hbuf T P key seed cm hm -> (N.of_nat (16 * c) < 2 ^ 32)%N -> (N.of_nat (64 * hbuf) < 2 ^ 32)%N ->
  forall ke, create true cm = Some ke ->
  RefineE2EfFinal.setup_enc_spec c hbuf T P key seed cm hm ke ->
  forall rnd,
  match src_encrypt_file c hbuf T cm hm P key seed rnd with
  | SOk (b, o, i, _) => b = true /\ enc c hbuf T P key cm hm seed = FileModel.Ok o /\ i = P
  | SErr w => w = "out of fuel"%string \/ w = "step bound reached"%string
  end.
Proof. exact RefineE2EfFinal.encrypt_modulo_setup. Qed.
Print Assumptions SRC_execute_encrypt_is_model_modulo_setup.

(* encrypt: the set-up split; the FIRST step of the main thread (constructors, entry of execute_encrypt, prepare_IV, get_ctype, entry of
   prepare_AES / get_instance up to its lock) is proved from the big-step premise about prepare_IV (RefineE2EfSetup1.enc_first_step);
   left: RefineE2EfSetup1.prepare_IV_enc_spec2 (big-step, runcrypt::prepare_IV/1) and RefineE2EfFinal2.setup2_enc_spec (the second step
   of the main thread from the explicit state cs1_enc to the canonical state) *)
Theorem SRC_execute_encrypt_is_model_modulo_prepare_IV_and_second_setup_step :
  forall (c hbuf T : nat) (P key seed : list N) (cm hm : N),
  enc_params c hbuf T P key seed cm hm ->
  forallb (fun b => (0 <? b)%N && (b <? 256)%N) seed = true -> (N.of_nat (List.length seed) < 2 ^ 32)%N ->
  (N.of_nat (16 * c) < 2 ^ 32)%N -> (N.of_nat (64 * hbuf) < 2 ^ 32)%N ->
  forall ke, create true cm = Some ke ->
  RefineE2EfSetup1.prepare_IV_enc_spec2 -> RefineE2EfFinal2.setup2_enc_spec c hbuf T P key seed cm hm ke ->
  forall rnd,
  match src_encrypt_file c hbuf T cm hm P key seed rnd with
  | SOk (b, o, i, _) => b = true /\ enc c hbuf T P key cm hm seed = FileModel.Ok o /\ i = P
  | SErr w => w = "out of fuel"%string \/ w = "step bound reached"%string
  end.
Proof. exact RefineE2EfFinal2.encrypt_modulo_prepare_IV_and_second_step. Qed.
Print Assumptions SRC_execute_encrypt_is_model_modulo_prepare_IV_and_second_setup_step.

(* encrypt: prepare_IV proved too (RefineE2EfHashA3.prepare_IV_enc_ok2, agent proof-hash): ONLY the second set-up step of the main thread is left,
   as the named premise RefineE2EfFinal2.setup2_enc_spec (from the explicit state cs1_enc at the lock of buffergroup::get_instance to the canonical
   state of the layout instance PWenc at the lock of wait_update; hash-free) *)
Theorem SRC_execute_encrypt_is_model_modulo_second_setup_step :
  forall (c hbuf T : nat) (P key seed : list N) (cm hm : N),
  enc_params c hbuf T P key seed cm hm ->
  forallb (fun b => (0 <? b)%N && (b <? 256)%N) seed = true -> (N.of_nat (List.length seed) < 2 ^ 32)%N ->
  (N.of_nat (16 * c) < 2 ^ 32)%N -> (N.of_nat (64 * hbuf) < 2 ^ 32)%N ->
  forall ke, create true cm = Some ke ->
  RefineE2EfFinal2.setup2_enc_spec c hbuf T P key seed cm hm ke ->
  forall rnd,
  match src_encrypt_file c hbuf T cm hm P key seed rnd with
  | SOk (b, o, i, _) => b = true /\ enc c hbuf T P key cm hm seed = FileModel.Ok o /\ i = P
  | SErr w => w = "out of fuel"%string \/ w = "step bound reached"%string
  end.
Proof. exact RefineE2EfFinal3.encrypt_modulo_second_step. Qed.
Print Assumptions SRC_execute_encrypt_is_model_modulo_second_setup_step.

(* encrypt: the machine part of the second set-up step is proved too (RefineE2EfSetup2.second_step: lock / unlock of get_instance, returns, call of
   run_multicry, the spawn loop, run_buffer / wait_update up to its lock); left: the two SEQUENTIAL stretches as big-step premises over
   `exec whole_prog` on explicit states (RefineE2EfSetup2Spec.gi_if_spec, pa_rest_spec), bundled in RefineE2EfFinal4.second_step_seq_spec *)
Theorem SRC_execute_encrypt_is_model_modulo_two_sequential_stretches :
  forall (c hbuf T : nat) (P key seed : list N) (cm hm : N),
  enc_params c hbuf T P key seed cm hm ->
  forallb (fun b => (0 <? b)%N && (b <? 256)%N) seed = true -> (N.of_nat (List.length seed) < 2 ^ 32)%N ->
  (N.of_nat (16 * c) < 2 ^ 32)%N -> (N.of_nat (64 * hbuf) < 2 ^ 32)%N ->
  forall ke, create true cm = Some ke ->
  RefineE2EfFinal4.second_step_seq_spec c hbuf T P key seed cm hm ke ->
  forall rnd,
  match src_encrypt_file c hbuf T cm hm P key seed rnd with
  | SOk (b, o, i, _) => b = true /\ enc c hbuf T P key cm hm seed = FileModel.Ok o /\ i = P
  | SErr w => w = "out of fuel"%string \/ w = "step bound reached"%string
  end.
Proof. exact RefineE2EfFinal4.encrypt_modulo_second_step_seq. Qed.
Print Assumptions SRC_execute_encrypt_is_model_modulo_two_sequential_stretches.

(* decrypt: the set-up on the machine is proved too (RefineE2EfSetup1D.dec_first_step, RefineE2EfSetup2D.second_step, RefineE2EfSetup2AD.gi_if_ok_d,
   RefineE2EfDecInst); left: THREE big-step premises about sequential code on explicit states: runcrypt::verify/1 and runcrypt::prepare_IV/0 with the
   state they leave (RefineE2EfSetup1D.dec_verify_spec / dec_prepare_IV0_spec) and prepare_AES after get_instance for the decrypt layout instance
   (RefineE2EfDecFinal.pa_rest_d_premise) *)
Theorem SRC_execute_decrypt_is_model_modulo_three_sequential_premises :
  RefineE2EfSetup1D.dec_verify_spec -> RefineE2EfSetup1D.dec_prepare_IV0_spec -> RefineE2EfDecFinal.pa_rest_d_premise ->
  forall (c hbuf T : nat) (F key : list N) (rnd : N) (out : list N),
  (1 <= c)%nat -> (1 <= hbuf)%nat -> (N.of_nat (16 * c) < 2 ^ 32)%N -> (N.of_nat (64 * hbuf) < 2 ^ 32)%N -> (1 <= T <= 16)%nat ->
  block16 key -> bytesb F = true -> (N.of_nat (List.length F) < 2 ^ 36)%N ->
  dec c hbuf T F key = FileModel.Ok out ->
  match src_decrypt_file c hbuf T F key rnd with
  | SOk (b, o, i, _) => b = true /\ o = out /\ i = F
  | SErr w => w = "out of fuel"%string \/ w = "step bound reached"%string
  end.
Proof. exact RefineE2EfDecFinal.decrypt_modulo_named. Qed.
Print Assumptions SRC_execute_decrypt_is_model_modulo_three_sequential_premises.

(* decrypt: prepare_AES for the decrypt layout instance proved too (RefineE2EfSetup2PAD.pa_rest_ok_d, agent proof-hash): ONLY the two first-step
   premises are left: runcrypt::verify/1 and runcrypt::prepare_IV/0 with the state they leave *)
Theorem SRC_execute_decrypt_is_model_modulo_verify_and_prepare_IV :
  RefineE2EfSetup1D.dec_verify_spec -> RefineE2EfSetup1D.dec_prepare_IV0_spec ->
  forall (c hbuf T : nat) (F key : list N) (rnd : N) (out : list N),
  (1 <= c)%nat -> (1 <= hbuf)%nat -> (N.of_nat (16 * c) < 2 ^ 32)%N -> (N.of_nat (64 * hbuf) < 2 ^ 32)%N -> (1 <= T <= 16)%nat ->
  block16 key -> bytesb F = true -> (N.of_nat (List.length F) < 2 ^ 36)%N ->
  dec c hbuf T F key = FileModel.Ok out ->
  match src_decrypt_file c hbuf T F key rnd with
  | SOk (b, o, i, _) => b = true /\ o = out /\ i = F
  | SErr w => w = "out of fuel"%string \/ w = "step bound reached"%string
  end.
Proof. exact RefineE2EfDecFinal.decrypt_modulo_first_step_premises. Qed.
Print Assumptions SRC_execute_decrypt_is_model_modulo_verify_and_prepare_IV.

(* decrypt: prepare_IV/0 proved too (RefineE2EfDecD2.dec_prepare_IV0_ok, agent proof-hash): ONLY runcrypt::verify/1 with the state it leaves is left *)
Theorem SRC_execute_decrypt_is_model_modulo_verify :
  RefineE2EfSetup1D.dec_verify_spec ->
  forall (c hbuf T : nat) (F key : list N) (rnd : N) (out : list N),
  (1 <= c)%nat -> (1 <= hbuf)%nat -> (N.of_nat (16 * c) < 2 ^ 32)%N -> (N.of_nat (64 * hbuf) < 2 ^ 32)%N -> (1 <= T <= 16)%nat ->
  block16 key -> bytesb F = true -> (N.of_nat (List.length F) < 2 ^ 36)%N ->
  dec c hbuf T F key = FileModel.Ok out ->
  match src_decrypt_file c hbuf T F key rnd with
  | SOk (b, o, i, _) => b = true /\ o = out /\ i = F
  | SErr w => w = "out of fuel"%string \/ w = "step bound reached"%string
  end.
Proof. exact RefineE2EfDecFinal2.decrypt_modulo_verify. Qed.
Print Assumptions SRC_execute_decrypt_is_model_modulo_verify.
