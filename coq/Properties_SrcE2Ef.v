(* End to end for the operations that RUN THE PIPELINE: runcrypt::execute_encrypt and the accepting path of runcrypt::execute_decrypt
   as TRANSLATED - constructors, header and IV chain, the factory and the cipher-mode objects, the buffer hand-over protocol with its
   T worker threads, the chunk buffers, the HMAC pass, the hash classes - run on the thread machine MiniCConc under ANY scheduler
   seed, produce exactly what the hand model FileModel.enc / FileModel.dec computes (hence, by C02, the documented .wenc format; by
   C01, the original plaintext back), report success and leave their input as it was.
   Composes: SRC_protocol_follows_PipeConc generalised from the harness' tagging stream objects to the real cipher-mode objects
   (SRC_mode_stream: translated runcry = ModesModel), C03 for PipeConc with those streams (FileConcGlue: every terminating schedule
   writes the body of enc / the plaintext of dec), SRC_header, SRC_hmac / SRC_verify, the constructor glue of RefineE2E, and
   SRC_seq_machine_agrees_any for the sequential stretches before the threads start and after they are joined. *)
From Coq Require Import ZArith NArith List String Bool.
From Wencry Require Import Bytes HashModel FileModel FileProps MiniC MiniCRun MiniCConc SrcRun SrcRun2 SrcRun5 RefineE2Ef.
Import ListNotations.
Local Open Scope N_scope.

Theorem SRC_execute_encrypt_is_model : forall c hbuf T P key seed cm hm rnd,
  enc_params c hbuf T P key seed cm hm ->
  forallb (fun b => (0 <? b) && (b <? 256)) seed = true ->           (* = RefineFileHeader.seed_ok: the C code takes strlen of the seed *)
  N.of_nat (length seed) < 2 ^ 32 ->                                 (* the C code casts that strlen to u32 (as in Properties_Src2's header theorem) *)
  N.of_nat (16 * c) < 2 ^ 32 -> N.of_nat (64 * hbuf) < 2 ^ 32 ->
  match src_encrypt_file c hbuf T cm hm P key seed rnd with
  | SOk (b, o, i, _) => b = true /\ enc c hbuf T P key cm hm seed = FileModel.Ok o /\ i = P
  | SErr w => w = "out of fuel"%string \/ w = "step bound reached"%string     (* the budgets of SrcRun5.run_from were too small *)
  end.
Proof. exact SRC_execute_encrypt_is_model_proof. Qed.
Print Assumptions SRC_execute_encrypt_is_model.

Theorem SRC_execute_decrypt_is_model_on_accepted_files : forall c hbuf T F key rnd out,
  (1 <= c)%nat -> (1 <= hbuf)%nat -> N.of_nat (16 * c) < 2 ^ 32 -> N.of_nat (64 * hbuf) < 2 ^ 32 -> (1 <= T <= 16)%nat ->
  block16 key -> bytesb F = true -> N.of_nat (length F) < 2 ^ 36 ->
  dec c hbuf T F key = FileModel.Ok out ->
  match src_decrypt_file c hbuf T F key rnd with
  | SOk (b, o, i, _) => b = true /\ o = out /\ i = F
  | SErr w => w = "out of fuel"%string \/ w = "step bound reached"%string
  end.
Proof. exact SRC_execute_decrypt_is_model_on_accepted_files_proof. Qed.
Print Assumptions SRC_execute_decrypt_is_model_on_accepted_files.
