(* C15 -- operations repeated in one process behave as in a fresh process.
   Process-wide state = the static live-buffer counter, the buffer-group singleton, the getopt
   scanner and the global default-output name.  Every operation returns it to a state that is
   observationally the initial one, hence after any history each operation behaves as alone.
   That the pipeline really ends with the counter at 0 and all workers joined is C03/C04
   (PipeConc: terminal states have live = 0); that the option parser is reinitialised rests on the
   regenerated constant optind_reset = 0 and glibc's documented behaviour. *)
From Wencry Require Import Bytes ProcModel ProcProofs.
From Wencry.Gen Require Import Opts.
Local Open Scope N_scope.

Theorem C15_every_operation_restores_the_process_state : forall p o,
  observably_fresh p -> op_ok o ->
  observably_fresh (fst (step_op p o)) /\ snd (step_op p o) = Some true.
Proof. exact C15_every_operation_restores_the_process_state_proof. Qed.
Print Assumptions C15_every_operation_restores_the_process_state.

Theorem C15_history_independence : forall h o,
  Forall op_ok h -> op_ok o ->
  snd (step_op (run_history proc0 h) o) = Some true /\ snd (step_op proc0 o) = Some true.
Proof. exact C15_history_independence_proof. Qed.
Print Assumptions C15_history_independence.

Theorem C15_scanner_is_reinitialised : optind_reset = 0.
Proof. exact C15_scanner_is_reinitialised_proof. Qed.
Print Assumptions C15_scanner_is_reinitialised.

(* the pipeline really leaves the static counter at 0: in every terminal state of the concurrent
   transition system (every T, input, schedule, stream object) all buffers are INV, all workers
   returned, the input is consumed and live = 0 -- the premise [p_live = 0] of run_pipeline *)
From Wencry Require Import FileModel PipeConc PipeProps PipeProofs.
Theorem C15_pipeline_leaves_counter_zero : forall (S : Type) tr tr_event c ispadding T sigma0 ls (s : PipeConc.state S),
  (1 <= T)%nat -> length sigma0 = T -> wf_loads ls -> reachable S tr tr_event c ispadding T sigma0 ls s -> terminal S s = true ->
  live S s = 0%nat /\ (forall i, (i < T)%nat -> b_st (getb S s i) = INV /\ getw S s i = W_Done) /\ input S s = [] /\ over S s = true.
Proof. intros S tr tr_event c ispadding. exact (pipeline_end_state_proof S tr tr_event c ispadding). Qed.
Print Assumptions C15_pipeline_leaves_counter_zero.
