(* C15 -- operations repeated in one process behave as in a fresh process.
   Process-wide state = the static live-buffer counter, the buffer-group singleton, the getopt
   scanner and the global default-output name.  Every operation returns it to a state that is
   observationally the initial one, hence after any history each operation behaves as alone.
   That the pipeline really ends with the counter at 0 and all workers joined is C03/C04
   (PipeConc: terminal states have live = 0); that the option parser is reinitialised rests on the
   regenerated constant optind_reset = 0 and glibc's documented behaviour. *)
From Wencry Require Import Bytes ProcModel ProcProofs.
From Wencry.Gen Require Import Opts.
Local Open Scope N_scope.

Theorem C15_every_operation_restores_the_process_state : forall p o,
  observably_fresh p -> op_ok o ->
  observably_fresh (fst (step_op p o)) /\ snd (step_op p o) = Some true.
Proof. exact C15_every_operation_restores_the_process_state_proof. Qed.
Print Assumptions C15_every_operation_restores_the_process_state.

Theorem C15_history_independence : forall h o,
  Forall op_ok h -> op_ok o ->
  snd (step_op (run_history proc0 h) o) = Some true /\ snd (step_op proc0 o) = Some true.
Proof. exact C15_history_independence_proof. Qed.
Print Assumptions C15_history_independence.

Theorem C15_scanner_is_reinitialised : optind_reset = 0.
Proof. exact C15_scanner_is_reinitialised_proof. Qed.
Print Assumptions C15_scanner_is_reinitialised.
