(* hmac::getres / hmac::writeFileHmac of execute_encrypt in the whole-program world, on ANY state that extends the frame memory
   memA_e (more objects, more pointer-table entries): plan world (RefineFileHmac2.getres_g) --RefineE2ESim--> the state with
   memory memA_e and an empty pointer table --RefineE2EfHashMono.call_more--> the big state. *)
From Coq Require Import ZArith NArith List String Bool Lia PeanoNat Ascii.
From Wencry Require Import Bytes HashModel HashProofs HmacProofs FileModel MiniC MiniCRun MiniCLemmas SrcRun SrcRun2 SrcRun5
     RefineHashDefs RefineHashDriver RefineFileBase RefineFileHmac RefineFileHmac2 RefineFileHmac3
     RefineE2ENames RefineE2ERel RefineE2EEval RefineE2EAlloc RefineE2ESim RefineE2EFrame RefineE2EWhole RefineE2EBridge RefineE2E.
From Wencry Require Import RefineE2EfHashSpec RefineE2EfHashMono RefineE2EfHashB1.
From Wencry.Gen Require Layout Src_sha256 Src_sha1 Src_md5 Src_hashmaster Src_hashbuffer Src_hashfactory Src_fheader Src_cry.
Import ListNotations.
Local Open Scope list_scope.
Local Open Scope string_scope.
Local Open Scope Z_scope.

Notation FS2 fi fo := [("fin", fi); ("fout", fo)].
Definition pss (cls : string) : list (string * value) := [("alloc:" ++ cls, VPtr "" 0); ("alloc:filebuffer64", VPtr "buf." 0)].


(* ---------------- fseek / fwrite on the output stream ---------------- *)
Lemma fseek_fout : forall m l p fi fo ps fr off, 0 <= off <= 2 ^ 40 ->
  do_prim (St m l p (FS2 fi fo) ps fr) "fseek" [VPtr "fout" 0; VInt off; VInt 0] =
  Ok (Some (VInt 0), St m l p (FS2 fi {| cf_data := cf_data fo; cf_pos := Z.to_nat off; cf_eof := false |}) ps fr).
Proof.
  intros m l p fi fo ps fr off Ho. unfold do_prim.
  change (String.eqb "fseek" "fread") with false. change (String.eqb "fseek" "feof") with false. change (String.eqb "fseek" "fgetc") with false.
  change (String.eqb "fseek" "ungetc") with false. change (String.eqb "fseek" "fwrite") with false. change (String.eqb "fseek" "isalnum") with false.
  change (String.eqb "fseek" "fseek") with true. cbv iota.
  cbn [stream_of bind files lget String.eqb Ascii.eqb Bool.eqb].
  destruct (off <? 0) eqn:E1; [apply Z.ltb_lt in E1; lia|]. destruct (2 ^ 40 <? off) eqn:E2; [apply Z.ltb_lt in E2; lia|].
  cbn [orb]. reflexivity.
Qed.
Lemma fwrite_fout : forall m l p fi fo ps fr os n cells,
  mget m os = Some {| o_ty := U8; o_cells := cells |} -> 0 <= n <= Z.of_nat (List.length cells) ->
  let src := firstn (Z.to_nat n) cells in
  let d := cf_data fo in
  do_prim (St m l p (FS2 fi fo) ps fr) "fwrite" [VPtr os 0; VInt 1; VInt n; VPtr "fout" 0] =
  Ok (Some (VInt n), St m l p (FS2 fi {| cf_data := if Nat.eqb (cf_pos fo) (List.length d) then (d ++ src)%list
                                                    else let d0 := (d ++ repeat 0 (cf_pos fo - List.length d))%list in
                                                         (firstn (cf_pos fo) d0 ++ src ++ skipn (cf_pos fo + List.length src) d0)%list;
                                        cf_pos := (cf_pos fo + List.length src)%nat; cf_eof := cf_eof fo |}) ps fr).
Proof.
  intros m l p fi fo ps fr os n cells Hm Hn src d. unfold do_prim.
  change (String.eqb "fwrite" "fread") with false. change (String.eqb "fwrite" "feof") with false. change (String.eqb "fwrite" "fgetc") with false.
  change (String.eqb "fwrite" "ungetc") with false. change (String.eqb "fwrite" "fwrite") with true. cbv iota.
  cbn [stream_of bind files lget String.eqb Ascii.eqb Bool.eqb mem]. rewrite Hm. cbn [o_ty o_cells]. change (ity_bytes U8) with 1.
  destruct (n <? 0) eqn:E1; [apply Z.ltb_lt in E1; lia|]. change (0 <? 0) with false. rewrite !Z.mod_1_r. change (0 =? 0) with true. cbn [orb negb].
  rewrite !Z.div_1_r. destruct (Z.of_nat (List.length cells) <? 0 + n) eqn:E2; [apply Z.ltb_lt in E2; lia|].
  change (1 =? 1) with true. cbv iota. change (Z.to_nat 0) with 0%nat. cbn [skipn]. reflexivity.
Qed.
Lemma call_loc_pre : forall prog vt fuel g pfx vs s v s', call prog vt fuel g pfx vs s = Ok (v, s') -> loc s' = loc s /\ pre s' = pre s.
Proof.
  intros prog vt fuel g pfx vs s v s' H. unfold call in H. destruct (lget prog g) as [fn|]; [|discriminate H].
  bo H as l El. bo H as r1 E1. destruct r1 as [o1 s1]. injection H as _ <-. split; reflexivity.
Qed.
Lemma two_files : forall (fs : list (string * cfile)) fi, map fst fs = ["fin"; "fout"] -> lget fs "fin" = Some fi -> exists fo, fs = FS2 fi fo.
Proof.
  intros fs fi Hk Hf. destruct fs as [|[k1 v1] [|[k2 v2] [|x fs]]]; try discriminate Hk. cbn [map fst] in Hk. injection Hk as -> ->.
  cbn [lget String.eqb Ascii.eqb Bool.eqb] in Hf. injection Hf as ->. eauto.
Qed.
Lemma HFLm : forall g fn, In g FL0 -> lget whole_prog g = Some fn -> mok whole_prog FL0 [] (f_body fn) = true.
Proof.
  assert (C : forallb (fun g => match lget whole_prog g with Some fn => mok whole_prog FL0 [] (f_body fn) | None => true end) FL0 = true)
    by (vm_compute; reflexivity).
  intros g fn Hg L. rewrite forallb_forall in C. specialize (C g Hg). rewrite L in C. exact C.
Qed.

(* ---------------- the frame memory ---------------- *)
Section MemA.
Variables (hbuf : nat) (key seed : list N) (cm hm : N) (c T : nat).
Notation memA := (memA_e hbuf key seed cm hm c T).
Definition KEYSA : list string :=
  ["rc.settings.ctype"; "rc.settings.htype"; "rc.settings.no_echo"; "rc.threads_num"; "rc.mode"; "rc.header.hash"; "rc.header.num"; "rc.header.ctype";
   "rc.header.htype"; "rc.crym.THREADS_NUM"; "rc.hmachandle.length"; "st.ctype"; "st.htype"; "st.no_echo"; "key"; "seed"; "k"; "HBUF_SZ";
   "sizeof:filebuffer64.b"; "ipad"; "opad"; "Magic_Num"; "THREAD_MAX"; "Alogtable"; "Logtable"; "RC"; "rs_box"; "s_box"; "sum"; "sizeof:iobuffer.b"].
Lemma keysA : map fst memA = KEYSA.
Proof. vm_compute. reflexivity. Qed.
Lemma keysA_all : forall (Pk : string -> bool) k o, forallb Pk KEYSA = true -> mget memA k = Some o -> Pk k = true.
Proof. intros Pk k o HP H. rewrite forallb_forall in HP. apply HP. rewrite <- keysA. eapply mget_in, H. Qed.
Lemma keysA_hash : forall r o, mget memA (String "#"%char r) = Some o -> False.
Proof.
  intros r o H. pose proof (keysA_all (fun k => match k with String "#"%char _ => false | _ => true end) _ _ eq_refl H) as X. discriminate X.
Qed.

Lemma relA : forall cls l pfx fs f, ordb pfx = true -> gl (Wf f) l -> (forall k fl, lget fs k = Some fl -> ordb k = true) ->
  Rel cls E0 (Wf f) (St (msrc memA) l pfx fs (pss cls) f) (St memA l pfx fs [] f).
Proof.
  intros cls l pfx fs f Hp Hl Hfs. constructor; cbn [mem loc pre files ptrs fresh].
  - reflexivity.
  - reflexivity.
  - apply wf_Wf.
  - now rewrite tau_Wf.
  - left. exact Hp.
  - now rewrite lmap_Wf.
  - exact Hl.
  - reflexivity.
  - exact Hfs.
  - intros k Hn HnE. rewrite tau_Wf, mget_msrc. destruct (keepb k) eqn:Ek; [reflexivity|].
    destruct (mget memA k) as [o|] eqn:Eo; [|reflexivity]. exfalso.
    unfold keepb in Ek. destruct (nm_Wf_cases f k Hn) as [Hb|[r ->]].
    + rewrite Hb in Ek. cbn [andb] in Ek. apply negb_false_iff, inb_In in Ek. contradiction.
    + eapply keysA_hash, Eo.
  - intros e [<-|[]]. rewrite mget_msrc. reflexivity.
  - intros k o H. rewrite mget_msrc in H. destruct (keepb k) eqn:Ek; [|discriminate H]. unfold keepb in Ek. apply andb_prop in Ek. apply nmb_nm_f, Ek.
  - intros n y Hn. destruct (mget memA (hobj n ++ y)) as [o|] eqn:Eo; [|reflexivity]. exfalso. rewrite hobj_app in Eo. eapply keysA_hash, Eo.
  - intros k Hn. rewrite tau_Wf. unfold pss. cbn [lget].
    destruct (String.eqb_spec k ("alloc:" ++ cls)) as [->|_]; [exfalso; eapply nm_not_alloc; [exact Hn|reflexivity]|].
    destruct (String.eqb_spec k "alloc:filebuffer64") as [->|_]; [exfalso; eapply (nm_not_alloc (Wf f) _ "filebuffer64"); [exact Hn|reflexivity]|]. reflexivity.
  - intros r _. unfold pss. cbn [lget].
    destruct (String.eqb_spec ("class:" ++ r) ("alloc:" ++ cls)) as [E|_]; [discriminate E|].
    destruct (String.eqb_spec ("class:" ++ r) "alloc:filebuffer64") as [E|_]; [discriminate E|]. reflexivity.
  - intros k v H. unfold pss in H. cbn [lget] in H.
    destruct (String.eqb_spec k ("alloc:" ++ cls)) as [->|_]; [injection H as <-; right; right; left; auto|].
    destruct (String.eqb_spec k "alloc:filebuffer64") as [->|_]; [injection H as <-; right; right; right; auto|discriminate H].
  - intro c0. reflexivity.
  - intros n y Hn. split; reflexivity.
  - intro Ha. exfalso. apply Ha. reflexivity.
  - intro Hb. exfalso. apply Hb. reflexivity.
Qed.
End MemA.

Lemma prefix_hash : forall k, is_prefix "#" k = true -> exists r, k = String "#"%char r.
Proof. intros k H. apply prefix_split in H. destruct H as [r ->]. exists r. reflexivity. Qed.

(* ---------------- hmac::getres on the state (memA_e, no pointer entries) ---------------- *)
Section AnyClassB.
Variable cls : string.
Variable a : halg.
Variable objs : list (string * ity * Z).
Variable globs : memory.
Variable F : nat.
Variable hm : N.
Variable hbuf : nat.
Hypothesis C : hctx cls a objs globs (file_vt hm) F (Z.of_N hm) hbuf "rc.hmachandle.".
Hypothesis Hgh : get_hasher hm = Some a.
Hypothesis Hfive : forall name t n, In (name, t, n) objs -> In name RefineFileHmac3.five.
Hypothesis Hcls : In cls hashcls.
Hypothesis Hvt : file_vt hm = vt0 cls.
Hypothesis Hgl : forall key seed cm c T, globals_ok globs (msrc (memA_e hbuf key seed cm hm c T)).

Lemma cls_ne_fb' : cls <> "filebuffer64".
Proof. intro E. subst cls. cbn in Hcls. intuition discriminate. Qed.

Section WithMem.
Variables (key seed : list N) (cm : N) (c T : nat).
Notation memA := (memA_e hbuf key seed cm hm c T).

Lemma gpreA : forall fi dout, block16 key -> Forall (fun z => 0 <= z < 256) dout ->
  gpre cls objs globs hbuf "rc.hmachandle." "fout" (msrc memA) (pss cls) (FS2 fi {| cf_data := dout; cf_pos := 48; cf_eof := false |}) "key" key
       {| cf_data := dout; cf_pos := 48; cf_eof := false |} (skipn 48 (map Z.to_N dout)).
Proof.
  intros fi dout [Hk16 Hkb] Hd.
  constructor.
  - unfold pss. cbn [lget]. rewrite String.eqb_refl. reflexivity.
  - unfold pss. cbn [lget]. destruct (String.eqb_spec "alloc:filebuffer64" ("alloc:" ++ cls)) as [E|_].
    + exfalso. change "alloc:filebuffer64" with ("alloc:" ++ "filebuffer64") in E. apply append_inj_l in E. apply cls_ne_fb'. auto.
    + reflexivity.
  - intros k Hk Hne. rewrite mget_msrc. destruct (keepb k) eqn:Ek; [|reflexivity].
    destruct (mget memA k) as [o|] eqn:Eo; [|reflexivity]. exfalso.
    pose proof (keysA_all hbuf key seed cm hm c T (fun k => negb (is_prefix "sizeof:" k) || String.eqb k "sizeof:filebuffer64.b" || String.eqb k "sizeof:iobuffer.b") _ _ eq_refl Eo) as X.
    cbn beta in X. rewrite Hk in X. cbn [negb orb] in X. apply orb_prop in X. destruct X as [X|X]; apply String.eqb_eq in X; [contradiction|].
    subst k. discriminate Ek.
  - reflexivity.
  - reflexivity.
  - reflexivity.
  - reflexivity.
  - apply Hgl.
  - intros name t n Hin. apply Hfive in Hin. cbn [RefineFileHmac3.five In] in Hin.
    repeat (destruct Hin as [<-|Hin]; [reflexivity|]). destruct Hin.
  - intros k Hk. rewrite mget_msrc. destruct (keepb k); [|reflexivity].
    destruct (mget memA k) as [o|] eqn:Eo; [|reflexivity]. exfalso.
    pose proof (keysA_all hbuf key seed cm hm c T (fun k => negb (is_prefix "buf." k)) _ _ eq_refl Eo) as X. cbn beta in X. rewrite Hk in X. discriminate.
  - eexists. reflexivity.
  - reflexivity.
  - lia.
  - exact Hkb.
  - reflexivity.
  - discriminate.
  - reflexivity.
  - cbn [cf_pos cf_data]. rewrite <- (map_of_to_N dout Hd) at 1. apply skipn_map.
  - apply bytesb_skipn. unfold bytesb. apply forallb_forall. intros x Hx. apply in_map_iff in Hx. destruct Hx as (z & <- & Hz).
    pose proof (proj1 (Forall_forall _ _) Hd z Hz) as Q. cbv beta in Q. unfold byte_ok. apply N.ltb_lt. lia.
Qed.

(* the call in the small state *)
Lemma getres_small : forall fi dout fz Lg f0, block16 key -> Forall (fun z => 0 <= z < 256) dout -> gl (Wf f0) Lg ->
  exists fuel tag s' nres rc,
    hmac_model hbuf hm key (skipn 48 (map Z.to_N dout)) = Some tag /\
    call whole_prog [] fuel "hmac::getres/4" "rc.hmachandle." [VInt (Z.of_N hm); VPtr "key" 0; VPtr "fout" 0; VInt fz]
         (St memA Lg "rc.hmachandle." (FS2 fi {| cf_data := dout; cf_pos := 48; cf_eof := false |}) [] f0) = Ok (None, s') /\
    NA s' /\
    lget (ptrs s') "rc.hmachandle.hmac_res" = Some (VPtr nres 0) /\
    mget (mem s') nres = Some {| o_ty := U8; o_cells := rc |} /\ firstn (List.length tag) rc = map Z.of_N tag /\ (List.length tag <= List.length rc)%nat /\
    List.length tag = ha_hlen a /\
    mget (mem s') "rc.hmachandle.length" = Some (cell1 U8 (Z.of_nat (ha_hlen a))) /\
    mget (mem s') "rc.threads_num" = Some (oc U8 (Z.of_nat T)) /\
    lget (files s') "fin" = Some fi.
Proof.
  intros fi dout fz Lg f0 Hk Hd HLg.
  set (DN := map Z.to_N dout).
  destruct (loop_total_g hbuf hm a key (skipn 48 DN) (hc_h1 _ _ _ _ _ _ _ _ _ C) Hgh Hk) as (st' & Hfl & Hmodel).
  set (nn := (List.length (skipn 48 DN) / 64 + 3)%nat) in *.
  set (fs := FS2 fi {| cf_data := dout; cf_pos := 48; cf_eof := false |}).
  destruct (getres_g cls a objs globs (file_vt hm) F (Z.of_N hm) hbuf "rc.hmachandle." C "fout" (F + nn + 120)%nat
              (msrc memA) Lg "rc.hmachandle." fs (pss cls) f0 "key" key fz
              {| cf_data := dout; cf_pos := 48; cf_eof := false |} (skipn 48 DN) nn st' (le_n _) (gpreA fi dout Hk Hd) Hfl)
    as (sp & nres & Ec & Hloc & Hpre & Hptr & Hnh & Hby & Htl & Hlen & Hoth & Hfiles).
  rewrite Hvt in Ec.
  assert (R : Rel cls E0 (Wf f0) (St (msrc memA) Lg "rc.hmachandle." fs (pss cls) f0) (St memA Lg "rc.hmachandle." fs [] f0)).
  { apply relA; [reflexivity|exact HLg|].
    intros k fl H. unfold fs in H. cbn [lget] in H. destruct (String.eqb_spec k "fin") as [->|_]; [reflexivity|].
    destruct (String.eqb_spec k "fout") as [->|_]; [reflexivity|discriminate]. }
  assert (Hg : In "hmac::getres/4" OKL0).
  { unfold OKL0. apply in_or_app. right. apply in_or_app. right. apply in_or_app. right. left. reflexivity. }
  assert (Hp : preok (Wf f0) "rc.hmachandle.") by (left; reflexivity).
  assert (Hpu : "rc.hmachandle." = "" -> inb "hmac::getres/4" UL0 = true) by discriminate.
  assert (Gvs : Forall (gv (Wf f0)) [VInt (Z.of_N hm); VPtr "key" 0; VPtr "fout" 0; VInt fz]).
  { repeat constructor; cbn [gv]; left; reflexivity. }
  destruct (call_simR file_prog whole_prog cls E0 OKL0 UL0 HE0 Hcls HOK0 _ "hmac::getres/4" "rc.hmachandle."
              _ _ _ (Wf f0) _ sp Hg Hp Hpu Gvs R Ec) as (W' & S' & s1 & S1 & X1 & EcW & R1 & M1 & P1 & F1 & FR1 & M2 & P2 & F2 & FR2).
  rewrite tau_Wf, map_rv_Wf in EcW. cbn [option_map] in EcW.
  destruct (prefix_hash nres Hnh) as [rr ->].
  destruct Hby as (rob & Hgr & Htyr & _ & Hcr & Hlr). destruct rob as [tyr rc]. cbn [o_ty o_cells] in Htyr, Hcr, Hlr. subst tyr.
  change (Z.to_nat 0) with 0%nat in Hcr, Hlr. change (skipn 0 rc) with rc in Hcr. cbn [Nat.add] in Hlr.
  exists (F + nn + 120)%nat, (tag_of a key st'), S', (String "#"%char rr), rc.
  split; [exact Hmodel|]. split; [exact EcW|].
  split; [intro c0; rewrite <- P2; apply (r_noalloc _ _ _ _ _ R1)|].
  split.
  { rewrite <- P2. assert (Hn : nm W' "rc.hmachandle.hmac_res") by (left; reflexivity).
    pose proof (r_ptrs _ _ _ _ _ R1 _ Hn) as Q. rewrite (tau_ord W' "rc.hmachandle.hmac_res") in Q by reflexivity.
    rewrite P1 in Q. change ("rc.hmachandle." ++ "hmac_res") with "rc.hmachandle.hmac_res" in Hptr. rewrite Hptr in Q.
    cbn [option_map rv] in Q. rewrite tau_hashc in Q. exact Q. }
  split.
  { rewrite <- M2. rewrite <- M1 in Hgr. destruct (rel_mget cls E0 W' s1 S1 _ _ R1 Hgr) as [_ Q]. rewrite tau_hashc in Q. exact Q. }
  split; [exact Hcr|]. split; [exact Hlr|]. split; [exact Htl|].
  split.
  { rewrite <- M2. change ("rc.hmachandle." ++ "length") with "rc.hmachandle.length" in Hlen. rewrite <- M1 in Hlen.
    destruct (rel_mget cls E0 W' s1 S1 _ _ R1 Hlen) as [_ Q]. rewrite (tau_ord W' "rc.hmachandle.length") in Q by reflexivity. exact Q. }
  split.
  { rewrite <- M2.
    assert (Ht : mget (mem sp) "rc.threads_num" = Some (oc U8 (Z.of_nat T))).
    { rewrite Hoth by (try reflexivity; discriminate). rewrite mget_msrc. reflexivity. }
    rewrite <- M1 in Ht. destruct (rel_mget cls E0 W' s1 S1 _ _ R1 Ht) as [_ Q]. rewrite (tau_ord W' "rc.threads_num") in Q by reflexivity. exact Q. }
  rewrite <- F2, (r_files _ _ _ _ _ R1), F1. rewrite Hfiles by discriminate. reflexivity.
Qed.

(* ---------------- ... and on any state that extends it ---------------- *)
Section BigState.
Variables (M Jm : memory) (Pt : list (string * value)) (f0 : nat).
Hypothesis HM : forall k, mget M k = match mget memA k with Some o => Some o | None => mget Jm k end.
Hypothesis HJf : forall n y, (f0 <= n)%nat -> mget Jm (hobj n ++ y) = None.
Hypothesis HJs : forall r, mget Jm ("sizeof:" ++ r) = None.
Hypothesis HPa : forall c0, lget Pt ("alloc:" ++ c0) = None.

Lemma getres_big : forall fi dout fz Lg, block16 key -> Forall (fun z => 0 <= z < 256) dout -> gl (Wf f0) Lg ->
  exists fuel tag S' nres rc fo',
    hmac_model hbuf hm key (skipn 48 (map Z.to_N dout)) = Some tag /\
    call whole_prog [] fuel "hmac::getres/4" "rc.hmachandle." [VInt (Z.of_N hm); VPtr "key" 0; VPtr "fout" 0; VInt fz]
         (St M Lg "rc.hmachandle." (FS2 fi {| cf_data := dout; cf_pos := 48; cf_eof := false |}) Pt f0) = Ok (None, S') /\
    loc S' = Lg /\ pre S' = "rc.hmachandle." /\
    lget (ptrs S') "rc.hmachandle.hmac_res" = Some (VPtr nres 0) /\
    mget (mem S') nres = Some {| o_ty := U8; o_cells := rc |} /\ firstn (List.length tag) rc = map Z.of_N tag /\ (List.length tag <= List.length rc)%nat /\
    (List.length tag <= 64)%nat /\
    mget (mem S') "rc.hmachandle.length" = Some (cell1 U8 (Z.of_nat (List.length tag))) /\
    mget (mem S') "rc.threads_num" = Some (oc U8 (Z.of_nat T)) /\
    files S' = FS2 fi fo' /\ cf_data fo' = dout /\
    (forall m off, 0 <= off -> lget (ptrs S') (ptr_key (heap_name m) off) = lget Pt (ptr_key (heap_name m) off)) /\
    lget (ptrs S') "rc.fin" = lget Pt "rc.fin" /\ lget (ptrs S') "rc.out" = lget Pt "rc.out".
Proof.
  intros fi dout fz Lg Hk Hd HLg.
  destruct (getres_small fi dout fz Lg f0 Hk Hd HLg) as (fuel & tag & s' & nres & rc & Hmodel & Ec & HNA & Hptr & Hres & Hcr & Hlr & Htl & Hlen & Hthr & Hfin).
  set (fs := FS2 fi {| cf_data := dout; cf_pos := 48; cf_eof := false |}) in *.
  assert (R : MR Jm Pt f0 (St memA Lg "rc.hmachandle." fs [] f0) (St M Lg "rc.hmachandle." fs Pt f0)).
  { constructor; cbn [mem loc pre files ptrs fresh]; try reflexivity; try lia.
    - exact HM.
    - intros k. reflexivity. }
  assert (Hg : In "hmac::getres/4" FL0).
  { unfold FL0. apply in_or_app. left. unfold OKL0. apply in_or_app. right. apply in_or_app. right. apply in_or_app. right. left. reflexivity. }
  destruct (call_more whole_prog [] FL0 [] HFLm Jm Pt f0 HJf (fun r _ => HJs r) HPa fuel "hmac::getres/4" "rc.hmachandle." _ _ _ _ _ Hg Ec HNA R) as (S' & EcB & R').
  destruct (call_loc_pre _ _ _ _ _ _ _ _ _ EcB) as [Hl Hp]. cbn [loc pre] in Hl, Hp.
  destruct (call_grow whole_prog [] FL0 [] HFLm _ _ _ _ _ _ _ Hg EcB) as (_ & _ & Hfk). cbn [files] in Hfk.
  assert (Hfin' : lget (files S') "fin" = Some fi) by (rewrite (mr_files _ _ _ _ _ R'); exact Hfin).
  destruct (two_files (files S') fi Hfk Hfin') as [fo' Hfs].
  exists fuel, tag, S', nres, rc, fo'.
  split; [exact Hmodel|]. split; [exact EcB|]. split; [exact Hl|]. split; [exact Hp|].
  split; [apply (mrp_some _ _ _ _ _ (mr_p _ _ _ _ _ R') Hptr)|].
  split; [apply (mrm_some _ _ _ _ _ (mr_m _ _ _ _ _ R') Hres)|]. split; [exact Hcr|]. split; [exact Hlr|].
  split; [rewrite Htl; apply (hc_hlen _ _ _ _ _ _ _ _ _ C)|].
  split; [rewrite Htl; apply (mrm_some _ _ _ _ _ (mr_m _ _ _ _ _ R') Hlen)|].
  split; [apply (mrm_some _ _ _ _ _ (mr_m _ _ _ _ _ R') Hthr)|].
  split; [exact Hfs|].
  pose proof (call_frameD 0 0 ltac:(lia) _ _ _ _ _ _ _ Hg EcB) as [Fd _].
  split.
  { specialize (Fd "fout"). unfold fdata in Fd. cbn [files] in Fd. rewrite Hfs in Fd. unfold fs in Fd.
    cbn [lget String.eqb Ascii.eqb Bool.eqb option_map cf_data] in Fd. injection Fd as Fd. exact Fd. }
  split.
  { intros m off Ho. destruct (call_frameD m off Ho _ _ _ _ _ _ _ Hg EcB) as [_ Fk]. cbn [ptrs] in Fk. apply Fk. unfold KeysD. cbn [In]. auto. }
  destruct (call_frameD 0 0 ltac:(lia) _ _ _ _ _ _ _ Hg EcB) as [_ Fk]. cbn [ptrs] in Fk.
  split; apply Fk; unfold KeysD; cbn [In]; auto.
Qed.

(* hmac::writeFileHmac(hashtype, fout, key, 48, 10, fsize) *)
Lemma wfh_big : forall fi dout fsize l p0, block16 key -> Forall (fun z => 0 <= z < 256) dout -> (hm < 256)%N ->
  exists fuel tag s' fo,
    hmac_model hbuf hm key (skipn 48 (map Z.to_N dout)) = Some tag /\
    call whole_prog [] fuel "hmac::writeFileHmac/6" "rc.hmachandle." [VInt (Z.of_N hm); VPtr "fout" 0; VPtr "key" 0; VInt 48; VInt 10; VInt fsize]
         (St M l p0 (FS2 fi {| cf_data := dout; cf_pos := List.length dout; cf_eof := false |}) Pt f0) = Ok (None, s') /\
    files s' = FS2 fi fo /\ cf_data fo = map Z.of_N (patch (map Z.to_N dout) 10 tag) /\
    mget (mem s') "rc.threads_num" = Some (oc U8 (Z.of_nat T)) /\
    (forall m off, 0 <= off -> lget (ptrs s') (ptr_key (heap_name m) off) = lget Pt (ptr_key (heap_name m) off)) /\
    lget (ptrs s') "rc.fin" = lget Pt "rc.fin" /\ lget (ptrs s') "rc.out" = lget Pt "rc.out".
Proof.
  intros fi dout fsize l p0 Hk Hd Hhm.
  set (Lw := [("hashtype", VInt (Z.of_N hm)); ("fp", VPtr "fout" 0); ("key", VPtr "key" 0); ("hashMark", VInt 48); ("writeMark", VInt 10); ("fsize", VInt fsize)]).
  assert (HLw : gl (Wf f0) Lw) by (unfold Lw; repeat constructor; cbn [gv snd]; left; reflexivity).
  destruct (getres_big fi dout fsize Lw Hk Hd HLw)
    as (fuel & tag & S' & nres & rc & fo' & Hmodel & Ec & Hl & Hp & Hptr & Hres & Hcr & Hlr & H64 & Hlen & Hthr & Hfs & Hfd & Hkeys & Hkf & Hko).
  destruct S' as [M' L' P' FS' PS' FR']. cbn [mem loc pre files ptrs fresh] in *. subst L' P' FS'.
  exists (S (S (S (S (S (S fuel)))))), tag. eexists. eexists.
  split; [exact Hmodel|].
  unfold call. rewrite (lget_W _ _ (eq_refl : lget file_prog "hmac::writeFileHmac/6" = Some Src_fheader.f_hmac_writeFileHmac_6)).
  cbn [f_params f_body Src_fheader.f_hmac_writeFileHmac_6 bind_params bind mem loc pre files ptrs fresh]. fold Lw.
  (* fseek(fp, 48) *)
  rewrite exec_seq. rewrite (x_prim whole_prog []). cbn [eval_list eval bind as_int loc Lw lget String.eqb Ascii.eqb Bool.eqb]. fold Lw.
  change (wrap I64 48) with 48. rewrite fseek_fout by lia. cbn [bind set_ret cf_data]. change (Z.to_nat 48) with 48%nat.
  (* getres *)
  rewrite exec_seq.
  rewrite (x_scall whole_prog [] (S (S (S fuel))) None "hmac::getres/4" None [EVar "hashtype"; EVar "key"; EVar "fp"; EVar "fsize"]
             (St M Lw "rc.hmachandle." (FS2 fi {| cf_data := dout; cf_pos := 48; cf_eof := false |}) Pt f0)
             [VInt (Z.of_N hm); VPtr "key" 0; VPtr "fout" 0; VInt fsize] "rc.hmachandle." None _ _ eq_refl eq_refl
             (call_mono whole_prog [] fuel _ _ _ _ _ Ec (S (S (S fuel))) ltac:(lia)) eq_refl).
  cbn [bind].
  (* fseek(fp, 10) *)
  rewrite exec_seq. rewrite (x_prim whole_prog []). cbn [eval_list eval bind as_int loc Lw lget String.eqb Ascii.eqb Bool.eqb]. fold Lw.
  change (wrap I64 10) with 10. rewrite fseek_fout by lia. cbn [bind set_ret]. rewrite Hfd. change (Z.to_nat 10) with 10%nat.
  (* fwrite(hmac_res, 1, length, fp) *)
  rewrite exec_seq. rewrite (x_prim whole_prog []). cbn [eval_list eval bind as_int loc pre ptrs mem append Lw lget String.eqb Ascii.eqb Bool.eqb]. fold Lw.
  rewrite Hptr, Hlen. cbn [bind as_int]. rewrite load_cell1. cbn [bind as_int].
  change (wrap U64 1) with 1. rewrite (wrap_U8_small (Z.of_nat (List.length tag))) by lia. rewrite (wrap_U64_small (Z.of_nat (List.length tag))) by lia.
  rewrite (fwrite_fout M' Lw "rc.hmachandle." fi {| cf_data := dout; cf_pos := 10; cf_eof := false |} PS' FR' nres (Z.of_nat (List.length tag)) rc Hres ltac:(lia)).
  cbn [bind set_ret cf_data cf_pos cf_eof]. rewrite Nat2Z.id, Hcr.
  (* delete hmac_res *)
  rewrite x_delete. cbn [eval bind pre ptrs append]. rewrite Hptr. cbn [bind].
  split; [reflexivity|]. cbn [mem files ptrs].
  split; [reflexivity|]. cbn [cf_data].
  split; [apply fwrite_patch, Hd|].
  split; [exact Hthr|]. split; [exact Hkeys|]. split; assumption.
Qed.
End BigState.
End WithMem.
End AnyClassB.
