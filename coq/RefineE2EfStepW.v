(* Layer M, the workers: one step of worker i of the machine on a canonical state, pc by pc. *)
From Coq Require Import ZArith NArith List String Bool Lia Arith.
From Wencry Require Import Bytes FileModel PipeConc PipeLemmas MiniC MiniCLemmas MiniCConc SrcRun RefineSeqDefs RefineSeqA RefineSeqB.
From Wencry Require Import RefineE2EfLay RefineE2EfMach RefineE2EfMem RefineE2EfTac.
From Wencry.Gen Require Src_conc.
Import ListNotations.
Local Open Scope string_scope.
Local Open Scope list_scope.

Section W.
Context {LY : Layout} {LO : LayoutOk}.
Variables (c T : nat) (pad : bool) (input0 : list N).
Notation cst := (cstate_md c T pad input0).
Notation sho := (sh_of c T pad input0).

Ltac start_worker Hi Hw :=
  unfold cstate_md at 1;
  eapply (cstep_run 100); [apply nth_thread_worker; exact Hi | rewrite Hw; reflexivity | rewrite Hw; unf; try reflexivity | ];
  rewrite Hw; unf.

Lemma rd_state : forall d i l, (i < T)%nat -> (mb_st (nth i (d_bufs d) mb0) < 4)%nat ->
  eval (tst (sho d) l (cpfx i)) (ELoad U32 (EField "state")) = Ok (VInt (Z.of_nat (mb_st (nth i (d_bufs d) mb0)))).
Proof. intros d i l Hi H. evs. rewrite mget_st by exact Hi. rewrite load_cell. rewrite wrap_U32_small by lia. reflexivity. Qed.

Definition st_after_update (st : nat) : nat := if Nat.eqb st 2 then 1%nat else st.

Lemma M_set_update : forall p ws d g i,
  (i < T)%nat -> dwf c T d -> List.length ws = T -> List.length (g_wl g) = T -> nth i ws W_Done = W_SetUpdate ->
  let st := mb_st (nth i (d_bufs d) mb0) in
  let p' := if Nat.eqb st 2 && Nat.eqb (d_turn d) i then wake_io_pc p else p in
  let d' := if Nat.eqb st 2 then with_bufs d (upd_buf i (mb_with_st 1) (d_bufs d)) else d in
  exists n, (n <= 100)%nat /\ cstep prog vt n (cst p ws d g) (S i) =
     Ok (cst p' (set_nth i W_WaitReady ws) d' (with_wl g i (nth i (g_wl g) [])),
         [(18, -1, Z.of_nat (st_after_update st))]%Z).
Proof.
  intros p ws d g i Hi Hd Lw Lg Hw st p' d'.
  destruct Hd as (Lb & Ln & Ht & Hl & HT & Hc1 & Hc & Hb & Hn). destruct (Hb i Hi) as (Hst & _). fold st in Hst.
  assert (Est : (st = 0 \/ st = 1 \/ st = 2 \/ st = 3)%nat) by lia.
  assert (RD : forall l, eval (tst (sho d) l (cpfx i)) (ELoad U32 (EField "state")) = Ok (VInt (Z.of_nat st))).
  { intros l. evs. rewrite mget_st by exact Hi. fold st. rewrite load_cell. rewrite wrap_U32_small by lia. reflexivity. }
  subst p' d'.
  destruct Est as [E|[E|[E|E]]]; rewrite E in *; cbn [Nat.eqb andb st_after_update].
  - start_worker Hi Hw. msteps. stop_worker W_WaitReady (nth i (g_wl g) []). reflexivity.
  - start_worker Hi Hw. msteps. stop_worker W_WaitReady (nth i (g_wl g) []). reflexivity.
  - start_worker Hi Hw. do 4 mstep. mstep; [rewrite mget_st by exact Hi; reflexivity | apply store_cell | ].
      erewrite (sho_mset _ _ _ _ d); [ | change (wrap U32 1) with (Z.of_nat 1); apply mset_st; assumption | reflexivity].
      mstep. rewrite wake_all_update.
      assert (RD2 : forall l, eval (tst (sho (with_bufs d (upd_buf i (mb_with_st 1) (d_bufs d)))) l (cpfx i)) (ELoad U32 (EField "state")) = Ok (VInt 1)).
      { intros l. rewrite rd_state; cbn [with_bufs d_bufs]; rewrite ?nth_upd_buf_same by lia; cbn [mb_with_st mb_st]; try lia. reflexivity. }
      clear RD. msteps. stop_worker W_WaitReady (nth i (g_wl g) []). reflexivity.
  - start_worker Hi Hw. msteps. stop_worker W_WaitReady (nth i (g_wl g) []). reflexivity.
Qed.

(* ---- W_New: the thread function up to the lock of wait_ready ---- *)
Lemma M_new : forall p ws d g i,
  (i < T)%nat -> dwf c T d -> List.length ws = T -> List.length (g_wl g) = T -> nth i ws W_Done = W_New -> nth i (g_wl g) [] = wl0 i ->
  exists n, (n <= 100)%nat /\ cstep prog vt n (cst p ws d g) (S i) = Ok (cst p (set_nth i W_Start ws) d (with_wl g i (wl1 i)), @nil event).
Proof.
  intros p ws d g i Hi Hd Lw Lg Hw Hl.
  destruct Hd as (Lb & Ln & Ht & Hlv & HT & Hc1 & Hc & Hb & Hn).
  start_worker Hi Hw. rewrite Hl. unfold wl0. msteps. stop_worker W_Start (wl1 i). reflexivity.
Qed.

Definition is_ready (st : nat) : bool := Nat.eqb st 2 || Nat.eqb st 3.
Definition wait_pc (st : nat) (fs : bool) : wpc := if is_ready st then (if fs then W_Get else W_Cmp) else W_Asleep fs.
Definition wait_evs (st : nat) : list event := if is_ready st then [(16, -1, Z.of_nat st)]%Z else [(11, 0, 0)]%Z.

Lemma M_wait_lock : forall p ws d g i (fs : bool),
  (i < T)%nat -> dwf c T d -> List.length ws = T -> List.length (g_wl g) = T ->
  nth i ws W_Done = (if fs then W_Start else W_WaitReady) -> (fs = true -> nth i (g_wl g) [] = wl1 i) ->
  let st := mb_st (nth i (d_bufs d) mb0) in
  exists n, (n <= 100)%nat /\ cstep prog vt n (cst p ws d g) (S i) =
     Ok (cst p (set_nth i (wait_pc st fs) ws) d (with_wl g i (nth i (g_wl g) [])), wait_evs st).
Proof.
  intros p ws d g i fs Hi Hd Lw Lg Hw Hl st.
  destruct Hd as (Lb & Ln & Ht & Hlv & HT & Hc1 & Hc & Hb & Hn). destruct (Hb i Hi) as (Hst & _). fold st in Hst.
  assert (Est : (st = 0 \/ st = 1 \/ st = 2 \/ st = 3)%nat) by lia.
  pose proof (fun l => rd_state d i l Hi Hst) as RD. fold st in RD.
  unfold wait_pc, wait_evs, is_ready.
  destruct fs; [specialize (Hl eq_refl)|clear Hl];
  (destruct Est as [E|[E|[E|E]]]; rewrite E in *; cbn [Nat.eqb orb]).
  all: start_worker Hi Hw; rewrite ?Hl; unfold wl1, wl0; cbn [app]; mstepsL.
  - sleep_worker (W_Asleep true) (wl1 i). reflexivity.
  - sleep_worker (W_Asleep true) (wl1 i). reflexivity.
  - stop_worker W_Get (wl1 i). reflexivity.
  - stop_worker W_Get (wl1 i). reflexivity.
  - sleep_worker (W_Asleep false) (nth i (g_wl g) []). reflexivity.
  - sleep_worker (W_Asleep false) (nth i (g_wl g) []). reflexivity.
  - stop_worker W_Cmp (nth i (g_wl g) []). reflexivity.
  - stop_worker W_Cmp (nth i (g_wl g) []). reflexivity.
Qed.

Ltac start_awake Hi Hw :=
  unfold cstate_md at 1;
  eapply (cstep_awake 100); [apply nth_thread_worker; exact Hi | rewrite Hw; reflexivity | ];
  rewrite Hw; unf; unfold with_status; cbn [ct_cur ct_k ct_loc ct_pre ct_st].

Lemma M_wait_awake : forall p ws d g i (fs : bool),
  (i < T)%nat -> dwf c T d -> List.length ws = T -> List.length (g_wl g) = T ->
  nth i ws W_Done = W_Awake fs -> (fs = true -> nth i (g_wl g) [] = wl1 i) ->
  let st := mb_st (nth i (d_bufs d) mb0) in
  exists n, (n <= 100)%nat /\ cstep prog vt n (cst p ws d g) (S i) =
     Ok (cst p (set_nth i (wait_pc st fs) ws) d (with_wl g i (nth i (g_wl g) [])), (12, 0, 0)%Z :: wait_evs st).
Proof.
  intros p ws d g i fs Hi Hd Lw Lg Hw Hl st.
  destruct Hd as (Lb & Ln & Ht & Hlv & HT & Hc1 & Hc & Hb & Hn). destruct (Hb i Hi) as (Hst & _). fold st in Hst.
  assert (Est : (st = 0 \/ st = 1 \/ st = 2 \/ st = 3)%nat) by lia.
  pose proof (fun l => rd_state d i l Hi Hst) as RD. fold st in RD.
  unfold wait_pc, wait_evs, is_ready.
  destruct fs; [specialize (Hl eq_refl)|clear Hl];
  (destruct Est as [E|[E|[E|E]]]; rewrite E in *; cbn [Nat.eqb orb]).
  all: start_awake Hi Hw; rewrite ?Hl; unfold wl1, wl0; cbn [app]; mstepsL.
  - sleep_worker (W_Asleep true) (wl1 i). reflexivity.
  - sleep_worker (W_Asleep true) (wl1 i). reflexivity.
  - stop_worker W_Get (wl1 i). reflexivity.
  - stop_worker W_Get (wl1 i). reflexivity.
  - sleep_worker (W_Asleep false) (nth i (g_wl g) []). reflexivity.
  - sleep_worker (W_Asleep false) (nth i (g_wl g) []). reflexivity.
  - stop_worker W_Cmp (nth i (g_wl g) []). reflexivity.
  - stop_worker W_Cmp (nth i (g_wl g) []). reflexivity.
Qed.

End W.
