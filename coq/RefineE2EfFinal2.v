(* Stage 5: execute_encrypt end to end modulo TWO named premises that are smaller than RefineE2EfFinal.setup_enc_spec:
     prepare_IV_enc_spec2 (RefineE2EfSetup1): the big-step statement about runcrypt::prepare_IV/1 (header + SHA-1 IV chain, heap hash objects);
     setup2_enc_spec: the SECOND step of the main thread, from the explicit state cs1_enc at the lock of buffergroup::get_instance
                      (new buffergroup, set_buffergroup, the mode array, loadiv, T x createCryMaster, run_multicry's spawn loop)
                      to the canonical state of the layout instance PWenc at the lock of wait_update.
   The first step of the main thread is proved (RefineE2EfSetup1.enc_first_step). *)
From Coq Require Import ZArith NArith List String Bool Lia Arith.
From Wencry Require Import Bytes AesModel ModesModel HashModel FileModel FileProps PipeConc MiniC MiniCRun MiniCLemmas MiniCConc SrcRun SrcRun2 SrcRun5 RefineE2EWhole.
From Wencry Require Import RefineE2EfLay RefineE2EfMach RefineE2EfMem RefineE2EfRel RefineE2EfGen RefineE2EfRun
     RefineE2EfWNames RefineE2EfWLay RefineE2EfWOk RefineE2EfEnc RefineE2EfTail RefineE2EfEncDefs RefineE2EfHashSpec RefineE2EfEnc2 RefineE2EfHashB3
     RefineE2EfFinal RefineE2EfSetup1.
Import ListNotations.
Local Open Scope list_scope.
Local Open Scope string_scope.

Definition setup2_enc_spec (c hbuf T : nat) (P key seed : list N) (cm hm : N) (ke : mkind) : Prop :=
  enc_params c hbuf T P key seed cm hm -> (N.of_nat (16 * c) < 2 ^ 32)%N -> create true cm = Some ke ->
  forall (h n : nat) (ivo : object) (extra : memory) (pextra : locs),
    (n < h)%nat -> mget extra (heap_name n) = Some ivo -> o_ty ivo = U8 -> (16 <= List.length (o_cells ivo))%nat ->
    firstn 16 (o_cells ivo) = map Z.of_N (firstn 16 (iv_chain seed T)) ->
    ext_mem_ok h extra = true -> ext_ptr_ok h pextra = true ->
    (forall k o, mget (M1e c hbuf T key seed (Z.of_N cm) (Z.of_N hm)) k = Some o -> mget extra k = None) ->
    no_sizeof_names extra = true -> no_alloc_keys pextra = true ->
    let PW := PWenc hbuf T P key seed cm hm h (heap_name n) extra pextra ke in
    let cs1 := cs1_enc c hbuf T P key seed cm hm h n extra pextra in
    exists sm0 : memory,
      (forall i, (i < T)%nat -> w_srep PW T i (firstn 16 (iv_chain seed T)) sm0) /\
      let cs2 := @cstate_md (wlayout PW) c T true P I_WaitUpdate (repeat W_New T) (@d_init0 (wlayout PW) c T sm0) (@g_init0 (wlayout PW) T) in
      forall fuel, cstep whole_prog [] fuel cs1 0 = NoFuel \/ exists e2, cstep whole_prog [] fuel cs1 0 = Ok (cs2, e2).

Lemma setup_from_steps : forall (c hbuf T : nat) (P key seed : list N) (cm hm : N) (ke : mkind),
  enc_params c hbuf T P key seed cm hm ->
  forallb (fun b => (0 <? b)%N && (b <? 256)%N) seed = true -> (N.of_nat (List.length seed) < 2 ^ 32)%N ->
  (N.of_nat (16 * c) < 2 ^ 32)%N -> (N.of_nat (64 * hbuf) < 2 ^ 32)%N -> create true cm = Some ke ->
  prepare_IV_enc_spec2 -> setup2_enc_spec c hbuf T P key seed cm hm ke ->
  setup_enc_spec c hbuf T P key seed cm hm ke.
Proof.
  intros c hbuf T P key seed cm hm ke EP Hseed HsL Hc32 Hh32 Hke PIV S2.
  destruct (enc_first_step c hbuf T P key seed cm hm EP Hseed HsL Hh32 PIV)
    as (h & n & ivo & extra & pextra & Hn & Hivo & Hty & Hlen & Hiv & Hext & Hpext & Hdis & Hnsz & Hnal & Hst).
  cbv zeta in Hst. destruct Hst as (EL0 & EL1 & Hst1).
  destruct (S2 EP Hc32 Hke h n ivo extra pextra Hn Hivo Hty Hlen Hiv Hext Hpext Hdis Hnsz Hnal) as (sm0 & Hsm & Hst2). cbv zeta in Hst2.
  exists h, n, extra, pextra, sm0. split; [unfold left_behind_ok; tauto|]. cbv zeta. split; [exact Hsm|].
  intros fuel. split; [exact EL0|].
  destruct (Hst1 fuel) as [E|E]; [left; exact E|right].
  eexists. eexists. split; [exact E|]. split; [exact EL1|].
  destruct (Hst2 fuel) as [E2|[e2 E2]]; [left; exact E2|right; exists e2; exact E2].
Qed.

Theorem encrypt_modulo_prepare_IV_and_second_step :
  forall (c hbuf T : nat) (P key seed : list N) (cm hm : N),
  enc_params c hbuf T P key seed cm hm ->
  forallb (fun b => (0 <? b)%N && (b <? 256)%N) seed = true -> (N.of_nat (List.length seed) < 2 ^ 32)%N ->
  (N.of_nat (16 * c) < 2 ^ 32)%N -> (N.of_nat (64 * hbuf) < 2 ^ 32)%N ->
  forall ke, create true cm = Some ke ->
  prepare_IV_enc_spec2 -> setup2_enc_spec c hbuf T P key seed cm hm ke ->
  forall rnd,
  match src_encrypt_file c hbuf T cm hm P key seed rnd with
  | SOk (b, o, i, _) => b = true /\ enc c hbuf T P key cm hm seed = FileModel.Ok o /\ i = P
  | SErr w => w = "out of fuel"%string \/ w = "step bound reached"%string
  end.
Proof.
  intros c hbuf T P key seed cm hm EP Hseed HsL Hc32 Hh32 ke Hke PIV S2.
  exact (encrypt_modulo_setup c hbuf T P key seed cm hm EP Hc32 Hh32 ke Hke
           (setup_from_steps c hbuf T P key seed cm hm ke EP Hseed HsL Hc32 Hh32 Hke PIV S2)).
Qed.
Print Assumptions encrypt_modulo_prepare_IV_and_second_step.
