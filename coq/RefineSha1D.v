From Coq Require Import ZArith NArith List String Bool Lia.
From Wencry Require Import Bytes HashModel MiniC MiniCLemmas MiniCRun SrcRun RefineHashDefs RefineSha1Lib RefineSha1A RefineSha1B RefineSha1C.
From Wencry.Gen Require Import HashConst.
From Wencry.Gen Require Src_sha1.
Import ListNotations.
Local Open Scope string_scope.
Local Open Scope list_scope.
Local Open Scope Z_scope.

Notation hok := (hasher_ok alg_sha1 Src_sha1.objects_sha1hash Src_sha1.globals).

(* what the methods need from the memory, in terms of the chaining words H and the counter T *)
Definition sha1_mem (m : memory) (H : list N) (T : N) : Prop :=
  (exists so, mget m "s" = Some so /\ o_ty so = U8 /\ List.length (o_cells so) = 64%nat) /\
  (exists wo, mget m "w" = Some wo /\ o_ty wo = U32 /\ List.length (o_cells wo) = 80%nat) /\
  mget m "h" = Some (u32_obj H) /\ List.length H = 5%nat /\ Forall u32 H /\
  mget m "totalsize" = Some (u64_cell T) /\ (T < 2 ^ 64)%N.

Lemma hok_mem : forall st m, hok st m -> sha1_mem m (hs_h st) (hs_total st).
Proof.
  intros st m [[Hh Ht] [Hsc [_ [Hl [Hu HT]]]]]. unfold sha1_mem. repeat split; auto.
  - destruct (Hsc "s" U8 64) as [so [E [E1 E2]]]; [cbn; auto 10|]. exists so. repeat split; auto. lia.
  - destruct (Hsc "w" U32 80) as [so [E [E1 E2]]]; [cbn; auto 10|]. exists so. repeat split; auto. lia.
Qed.
Lemma mem_hok : forall m m' st H' T', hok st m -> sha1_mem m' H' T' -> mget m' "hashblock" = mget m "hashblock" ->
  hok {| hs_h := H'; hs_total := T' |} m'.
Proof.
  intros m m' st H' T' [[Hh Ht] [Hsc [_ [Hl [Hu HT]]]]] [[so [Es [Es1 Es2]]] [[wo [Ew [Ew1 Ew2]]] [Eh [EHl [EHu [Et ET]]]]]] Hb.
  split; [split; assumption|]. split; [|split; [|repeat split; auto]].
  - intros name t n Hin. cbn in Hin.
    destruct Hin as [E|[E|[E|[E|[E|[]]]]]]; inversion E; subst.
    + rewrite Hb. apply Hsc. cbn; auto.
    + eexists. split; [exact Et|]. split; reflexivity.
    + eexists. split; [exact Eh|]. split; [reflexivity|]. cbn. rewrite map_length, EHl. reflexivity.
    + exists wo. repeat split; auto. rewrite Ew2. reflexivity.
    + exists so. repeat split; auto. rewrite Es2. reflexivity.
  - intros k ob Hk. discriminate.
Qed.
Lemma sha1_mem_mset_other : forall m H T k v, k <> "s" -> k <> "w" -> k <> "h" -> k <> "totalsize" ->
  sha1_mem m H T -> sha1_mem (mset m k v) H T.
Proof.
  intros m H T k v N1 N2 N3 N4 [[so [Es X1]] [[wo [Ew X2]] [Eh [X3 [X4 [Et X5]]]]]].
  unfold sha1_mem. rewrite !mget_mset_other by assumption. repeat split; eauto.
Qed.

(* memory after getHash(block) *)
Definition gh1_result (m : memory) (blk H : list N) (T : N) : memory :=
  let W := m_sha1_W (words_of be32 blk) in
  let V := fold_left (m_sha1_round W) (seq 0 80) H in
  mset (mset (mset (mset (mset m "s" (bytes_object blk)) "w" (u32_obj W)) "totalsize" (u64_cell (tot_add T 64)))
             "%temph" (u32_obj V)) "h" (u32_obj (m_sha1_block H blk)).

Lemma gh1_other : forall m blk H T k, k <> "s" -> k <> "w" -> k <> "h" -> k <> "totalsize" -> k <> "%temph" ->
  mget (gh1_result m blk H T) k = mget m k.
Proof.
  intros. unfold gh1_result. cbv zeta. rewrite !mget_mset_other by (apply not_eq_sym; assumption). reflexivity.
Qed.
Lemma block_shape : forall H blk, List.length H = 5%nat -> Forall u32 H ->
  List.length (m_sha1_block H blk) = 5%nat /\ Forall u32 (m_sha1_block H blk).
Proof.
  intros H blk HL HU. unfold m_sha1_block. cbv zeta.
  destruct (rounds_shape (m_sha1_W (words_of be32 blk)) H 80 HL HU) as [v0 [v1 [v2 [v3 [v4 [EV _]]]]]]. rewrite EV.
  destruct (length5 H HL) as [h0 [h1 [h2 [h3 [h4 EH]]]]]. rewrite EH. cbn [map2 List.length].
  split; [reflexivity|]. repeat constructor; apply u32_add32.
Qed.
Lemma gh1_mem : forall m blk H T, sha1_mem m H T -> List.length blk = 64%nat ->
  sha1_mem (gh1_result m blk H T) (m_sha1_block H blk) (tot_add T 64).
Proof.
  intros m blk H T [[so [Es X1]] [[wo [Ew X2]] [Eh [HL [HU [Et X5]]]]]] Hbl.
  destruct (block_shape H blk HL HU) as [L' U'].
  unfold sha1_mem, gh1_result. cbv zeta.
  split; [|split; [|split; [|split; [|split; [|split]]]]].
  - eexists. split; [rewrite !mget_mset_other by (intro Q; discriminate Q); apply mget_mset_same|].
    split; [reflexivity|]. unfold bytes_object. cbn [o_cells]. rewrite map_length. exact Hbl.
  - eexists. split; [rewrite !mget_mset_other by (intro Q; discriminate Q); apply mget_mset_same|].
    split; [reflexivity|]. unfold u32_obj. cbn [o_cells]. rewrite map_length. apply W_length. exact Hbl.
  - apply mget_mset_same.
  - exact L'.
  - exact U'.
  - rewrite !mget_mset_other by (intro Q; discriminate Q). apply mget_mset_same.
  - apply tot_add_lt.
Qed.

Section Stmts.
Variable vt : list (string * string).
Hypothesis Hvt : lget vt "" = Some "sha1hash".
Notation exec := (MiniC.exec hash_prog vt).

Lemma getHash1_exec : forall m fs ps fr o off blk H T,
  sha1_mem m H T -> bytes_at m o off blk -> List.length blk = 64%nat -> bytesb blk = true ->
  o <> "s" -> o <> "w" -> o <> "h" -> o <> "totalsize" -> o <> "%temph" ->
  exists l', exec 300 (f_body Src_sha1.f_sha1hash_getHash_1) (ST m [("input", VPtr o off)] fs ps fr) =
             Ok (Normal, ST (gh1_result m blk H T) l' fs ps fr).
Proof.
  intros m fs ps fr o off blk H T [[so [Es [X1 X1']]] [[wo [Ew [X2 X2']]] [Eh [HL [HU [Et X5]]]]]] Hin Hbl Hbb N1 N2 N3 N4 N5.
  exact (getHash1_body vt m fs ps fr o off blk H T so wo Es X1 X1' Ew X2 X2' Eh HL HU Et X5 Hin Hbl Hbb N1).
Qed.

(* the virtual call getHash(temp) inside getHash(input, n) *)
Lemma getHash1_stmt : forall f e m l fs ps fr o off blk H T, (302 <= f)%nat ->
  eval (ST m l fs ps fr) e = Ok (VPtr o off) ->
  sha1_mem m H T -> bytes_at m o off blk -> List.length blk = 64%nat -> bytesb blk = true ->
  o <> "s" -> o <> "w" -> o <> "h" -> o <> "totalsize" -> o <> "%temph" ->
  exec f (SCallVirt None "getHash/1" None [e]) (ST m l fs ps fr) = Ok (Normal, ST (gh1_result m blk H T) l fs ps fr).
Proof.
  intros f e m l fs ps fr o off blk H T Hf He Hm Hin Hbl Hbb N1 N2 N3 N4 N5.
  destruct (getHash1_exec m fs ps fr o off blk H T Hm Hin Hbl Hbb N1 N2 N3 N4 N5) as [l' E].
  eapply callvirt_ok with (f1 := 300%nat) (cls := "sha1hash").
  - cbn [eval_list]. rewrite He. reflexivity.
  - reflexivity.
  - exact Hvt.
  - apply lk_getHash1.
  - reflexivity.
  - nrm. exact E.
  - reflexivity.
  - lia.
Qed.

Lemma getblen_stmt : forall f x m l fs ps fr, (3 <= f)%nat ->
  exec f (SCallVirt (Some x) "getblen/0" None []) (ST m l fs ps fr) = Ok (Normal, ST m (lset l x (VInt 64)) fs ps fr).
Proof.
  intros f x m l fs ps fr Hf.
  eapply callvirt_ok with (f1 := 1%nat) (cls := "sha1hash").
  - reflexivity.
  - reflexivity.
  - exact Hvt.
  - apply lk_getblen.
  - reflexivity.
  - cbn [f_body Src_sha1.f_sha1hash_getblen_0]. eapply return_ok; [ev|lia].
  - reflexivity.
  - lia.
Qed.
End Stmts.
