(* PARALLEL3, B3: ONE call AesFactory::createCryMaster(1, ctype) of prepare_AES in a big whole-program state: the new cipher-mode
   object "#f." (five byte arrays, appended to the memory), its class entry (appended to the pointer table), key schedule = genall key.
   Direct execution: the refinement lemma of the key schedule (RefineAesKey.keyhandle_spec) is stated for ANY state and ANY prefix,
   so no simulation is needed here; aes_prog is a sub-program of whole_prog (RefineE2EfWStream.exec_prog_sub). *)
From Coq Require Import ZArith NArith List String Bool Lia PeanoNat Ascii.
From Wencry Require Import Bytes AesModel ModesModel MiniC MiniCRun MiniCLemmas SrcRun SrcRun2 SrcRun5 AesProofs
     RefineAesLib RefineAesOps RefineAesKey RefineAes RefineModes RefineE2ENames RefineE2EfWNames RefineE2EfWStream RefineE2EfHashKeys.
From Wencry Require RefineFileBase RefineConcMem RefineSha1Lib ModesProofs.
From Wencry.Gen Require Src_aes Src_aesmode.
Import ListNotations.
Local Open Scope list_scope.
Local Open Scope string_scope.
Local Open Scope Z_scope.

(* ---------------- aes_prog inside whole_prog, at the level of calls ---------------- *)
Lemma call_aes_whole : forall vt fuel g pfx vs s r, call aes_prog vt fuel g pfx vs s = Ok r -> call whole_prog vt fuel g pfx vs s = Ok r.
Proof.
  intros vt fuel g pfx vs s r H. unfold call in *. destruct (lget aes_prog g) as [fn|] eqn:L; [|discriminate H].
  rewrite (aes_in_whole _ _ L). apply bind_Ok in H. destruct H as [l [El H]]. rewrite El. cbn [bind].
  apply bind_Ok in H. destruct H as [r1 [E1 H]]. rewrite (exec_prog_sub aes_prog whole_prog vt aes_in_whole _ _ _ _ E1). exact H.
Qed.

(* ---------------- lists ---------------- *)
Lemma mset_new : forall (m : memory) k o, mget m k = None -> mset m k o = (m ++ [(k, o)])%list.
Proof.
  induction m as [|[k0 o0] m IH]; intros k o H; cbn [mget mset app] in *; [reflexivity|].
  destruct (String.eqb k k0); [discriminate|]. f_equal. apply IH, H.
Qed.
Lemma lset_new : forall A (l : list (string * A)) k v, lget l k = None -> lset l k v = (l ++ [(k, v)])%list.
Proof.
  induction l as [|[k0 o0] l IH]; intros k o H; cbn [lget lset app] in *; [reflexivity|].
  destruct (String.eqb k k0); [discriminate|]. f_equal. apply IH, H.
Qed.
Lemma tabs_ok_app : forall M r, tabs_ok M -> tabs_ok (M ++ r)%list.
Proof.
  intros M r (T1 & T2 & T3 & T4 & T5). unfold tabs_ok. rewrite !RefineConcMem.mget_app, T1, T2, T3, T4, T5. auto.
Qed.

Section Obj.
Variable p : string.                       (* the prefix of the new object *)
Hypothesis Hptab : forall y, ~ is_tab (p ++ y).

Definition seg (o1 o2 o3 o4 o5 : object) : memory :=
  [(p ++ "iv", o1); (p ++ "initiv", o2); (p ++ "crypt.w", o3); (p ++ "crypt.key.key", o4); (p ++ "crypt.key.init_key", o5)].
Ltac segt := repeat (rewrite ?append_eqb_l; cbn [seg mget mset String.eqb Ascii.eqb Bool.eqb andb]).

Variable M : memory.
Hypothesis HMp : forall y, mget M (p ++ y) = None.
Hypothesis HMt : tabs_ok M.

Lemma mget_Mseg : forall r y, mget (M ++ r)%list (p ++ y) = mget r (p ++ y).
Proof. intros r y. rewrite RefineConcMem.mget_app, HMp. reflexivity. Qed.
Lemma mget_Mseg_old : forall r k o, mget M k = Some o -> mget (M ++ r)%list k = Some o.
Proof. intros r k o H. rewrite RefineConcMem.mget_app, H. reflexivity. Qed.
Lemma mset_Mseg : forall r y o, mset (M ++ r)%list (p ++ y) o = (M ++ mset r (p ++ y) o)%list.
Proof. intros r y o. apply RefineConcMem.mset_app_r, HMp. Qed.

(* Aesmode::Aesmode(iv): initiv := iv[0..16), iv := initiv *)
Lemma aesmode_ctor_w : forall fuel l0 p0 fs ps fr oiv ivc c1 c2 o3 o4 o5,
  (6 <= fuel)%nat -> mget M oiv = Some (bobj ivc) -> (16 <= List.length ivc)%nat -> List.length c1 = 16%nat -> List.length c2 = 16%nat ->
  call whole_prog [] fuel "Aesmode::Aesmode/1" p [VPtr oiv 0]
       {| mem := (M ++ seg (bobj c1) (bobj c2) o3 o4 o5)%list; loc := l0; pre := p0; files := fs; ptrs := ps; fresh := fr |}
  = Ok (None, {| mem := (M ++ seg (bobj (firstn 16 ivc)) (bobj (firstn 16 ivc)) o3 o4 o5)%list; loc := l0; pre := p0; files := fs; ptrs := ps; fresh := fr |}).
Proof.
  intros fuel l0 p0 fs ps fr oiv ivc c1 c2 o3 o4 o5 Hf Hiv Hl L1 L2.
  eapply call_mono; [|exact Hf].
  unfold call. rewrite (aes_in_whole _ _ (eq_refl : lget aes_prog "Aesmode::Aesmode/1" = Some Src_aesmode.f_Aesmode_Aesmode_1)).
  cbn [f_params f_body Src_aesmode.f_Aesmode_Aesmode_1 bind_params bind mem loc pre files ptrs fresh].
  assert (L16 : List.length (firstn 16 ivc) = 16%nat) by (rewrite firstn_length; lia).
  rewrite exec_seq. rewrite (RefineFileBase.x_memcpy whole_prog []). cbn [eval bind as_int loc pre lget String.eqb Ascii.eqb Bool.eqb].
  change (wrap U64 16) with 16.
  rewrite (memcpy_u8 _ (p ++ "initiv") 0 oiv 0 16 c2 ivc); cbn [mem]; try lia;
    [|rewrite mget_Mseg; segt; reflexivity|apply mget_Mseg_old, Hiv].
  cbn [bind]. unfold with_mem. cbn [mem loc pre files ptrs fresh].
  unfold slice. change (Z.to_nat 0) with 0%nat. change (Z.to_nat 16) with 16%nat. cbn [skipn].
  rewrite (RefineSha1Lib.upd_range_all (firstn 16 ivc) c2) by lia.
  rewrite mset_Mseg. segt.
  rewrite (RefineFileBase.x_memcpy whole_prog []). cbn [eval bind as_int loc pre].
  change (wrap U64 16) with 16.
  rewrite (memcpy_u8 _ (p ++ "iv") 0 (p ++ "initiv") 0 16 c1 (firstn 16 ivc)); cbn [mem]; try lia;
    [|rewrite mget_Mseg; segt; reflexivity|rewrite mget_Mseg; segt; reflexivity].
  cbn [bind]. unfold with_mem. cbn [mem loc pre files ptrs fresh].
  unfold slice. change (Z.to_nat 0) with 0%nat. change (Z.to_nat 16) with 16%nat. cbn [skipn].
  rewrite (firstn_all2 (n := 16) (firstn 16 ivc)) by lia.
  rewrite (RefineSha1Lib.upd_range_all (firstn 16 ivc) c1) by lia.
  rewrite mset_Mseg. segt. reflexivity.
Qed.

(* encryaes::encryaes(key) -> aeshandle::aeshandle(key) -> keyhandle::keyhandle(key) on the member "crypt." *)
Lemma encryaes_w : forall fuel l0 p0 fs ps fr ok key o1 o2 o3 kc ik,
  (130 <= fuel)%nat -> mget M ok = Some (bytes_object key) -> block16 key -> List.length kc = 176%nat -> List.length ik = 20%nat ->
  call whole_prog [] fuel "encryaes::encryaes/1" (p ++ "crypt.") [VPtr ok 0]
       {| mem := (M ++ seg o1 o2 o3 (bobj kc) (bobj ik))%list; loc := l0; pre := p0; files := fs; ptrs := ps; fresh := fr |}
  = Ok (None, {| mem := (M ++ seg o1 o2 o3 (bobj (concat (map (map Z.of_N) (genall key)))) (bobj (map Z.of_N key ++ skipn 16 ik)))%list;
                 loc := l0; pre := p0; files := fs; ptrs := ps; fresh := fr |}).
Proof.
  intros fuel l0 p0 fs ps fr ok key o1 o2 o3 kc ik Hf Hk Bk Lk Li.
  eapply call_mono; [|exact Hf].
  assert (Hne : ok <> (p ++ "crypt.key.") ++ "init_key").
  { intro E0. rewrite E0, append_assoc_s, HMp in Hk. discriminate Hk. }
  set (s0 := {| mem := (M ++ seg o1 o2 o3 (bobj kc) (bobj ik))%list; loc := [("initkey", VPtr ok 0)]; pre := (p ++ "crypt.key."); files := fs; ptrs := ps; fresh := fr |}).
  pose proof (keyhandle_spec [] s0 (p ++ "crypt.key.") 126 ok key ik kc ltac:(lia)) as KH.
  cbn [mem s0] in KH.
  specialize (KH (tabs_ok_app _ _ HMt)).
  rewrite !append_assoc_s in KH. cbn [append] in KH.
  specialize (KH (Hptab _) (Hptab _)). rewrite append_assoc_s in Hne. cbn [append] in Hne. specialize (KH Hne).
  specialize (KH (mget_Mseg_old _ _ _ Hk) Bk).
  assert (E1 : mget (M ++ seg o1 o2 o3 (bobj kc) (bobj ik))%list (p ++ "crypt.key.init_key") = Some (bobj ik)) by (rewrite mget_Mseg; segt; reflexivity).
  assert (E2 : mget (M ++ seg o1 o2 o3 (bobj kc) (bobj ik))%list (p ++ "crypt.key.key") = Some (bobj kc)) by (rewrite mget_Mseg; segt; reflexivity).
  specialize (KH E1 Li E2 Lk). apply call_aes_whole in KH.
  unfold with_mem in KH. cbn [mem loc pre files ptrs fresh s0] in KH.
  rewrite !mset_Mseg in KH. revert KH. segt. intro KH.
  (* encryaes -> aeshandle -> keyhandle *)
  unfold call. rewrite (aes_in_whole _ _ (eq_refl : lget aes_prog "encryaes::encryaes/1" = Some Src_aesmode.f_encryaes_encryaes_1)).
  cbn [f_params f_body Src_aesmode.f_encryaes_encryaes_1 bind_params bind mem loc pre files ptrs fresh].
  set (s1 := {| mem := (M ++ seg o1 o2 o3 (bobj kc) (bobj ik))%list; loc := [("initkey", VPtr ok 0)]; pre := (p ++ "crypt."); files := fs; ptrs := ps; fresh := fr |}).
  fold s1.
  assert (AH : call whole_prog [] 128 "aeshandle::aeshandle/1" (p ++ "crypt.") [VPtr ok 0] s1 =
               Ok (None, {| mem := (M ++ seg o1 o2 o3 (bobj (concat (map (map Z.of_N) (genall key)))) (bobj (map Z.of_N key ++ skipn 16 ik)))%list;
                            loc := [("initkey", VPtr ok 0)]; pre := (p ++ "crypt."); files := fs; ptrs := ps; fresh := fr |})).
  { unfold call. rewrite (aes_in_whole _ _ (eq_refl : lget aes_prog "aeshandle::aeshandle/1" = Some Src_aesmode.f_aeshandle_aeshandle_1)).
    cbn [f_params f_body Src_aesmode.f_aeshandle_aeshandle_1 bind_params bind mem loc pre files ptrs fresh s1]. fold s1.
    rewrite (RefineFileBase.x_scall whole_prog [] 127 None "keyhandle::keyhandle/1" (Some (EField "key.")) [EVar "initkey"] s1 [VPtr ok 0] (p ++ "crypt.key.") None _ _
               eq_refl ltac:(unfold s1; cbn [this_prefix eval bind pre]; rewrite append_assoc_s; reflexivity)
               (call_mono whole_prog [] 126 _ _ _ _ _ (call_caller_indep whole_prog [] 126 _ _ _ _ _ _ _ _ KH) 127%nat ltac:(lia)) eq_refl).
    reflexivity. }
  rewrite (RefineFileBase.x_scall whole_prog [] 129 None "aeshandle::aeshandle/1" None [EVar "initkey"] s1 [VPtr ok 0] (p ++ "crypt.") None _ _
             eq_refl eq_refl (call_mono whole_prog [] 128 _ _ _ _ _ AH 129%nat ltac:(lia)) eq_refl).
  reflexivity.
Qed.
(* AesEncrypt::AesEncrypt(key, iv) *)
Lemma aesencrypt_w : forall fuel l0 p0 fs ps fr ok key oiv ivc c1 c2 o3 kc ik,
  (140 <= fuel)%nat -> mget M ok = Some (bytes_object key) -> block16 key -> mget M oiv = Some (bobj ivc) -> (16 <= List.length ivc)%nat ->
  List.length c1 = 16%nat -> List.length c2 = 16%nat -> List.length kc = 176%nat -> List.length ik = 20%nat ->
  call whole_prog [] fuel "AesEncrypt::AesEncrypt/2" p [VPtr ok 0; VPtr oiv 0]
       {| mem := (M ++ seg (bobj c1) (bobj c2) o3 (bobj kc) (bobj ik))%list; loc := l0; pre := p0; files := fs; ptrs := ps; fresh := fr |}
  = Ok (None, {| mem := (M ++ seg (bobj (firstn 16 ivc)) (bobj (firstn 16 ivc)) o3 (bobj (concat (map (map Z.of_N) (genall key)))) (bobj (map Z.of_N key ++ skipn 16 ik)))%list;
                 loc := l0; pre := p0; files := fs; ptrs := ps; fresh := fr |}).
Proof.
  intros fuel l0 p0 fs ps fr ok key oiv ivc c1 c2 o3 kc ik Hf Hk Bk Hiv Hl L1 L2 Lk Li.
  eapply call_mono; [|exact Hf].
  unfold call. rewrite (aes_in_whole _ _ (eq_refl : lget aes_prog "AesEncrypt::AesEncrypt/2" = Some Src_aesmode.f_AesEncrypt_AesEncrypt_2)).
  cbn [f_params f_body Src_aesmode.f_AesEncrypt_AesEncrypt_2 bind_params bind mem loc pre files ptrs fresh].
  set (L := [("key", VPtr ok 0); ("iv", VPtr oiv 0)]).
  rewrite exec_seq.
  rewrite (RefineFileBase.x_scall whole_prog [] 138 None "Aesmode::Aesmode/1" None [EVar "iv"]
             {| mem := (M ++ seg (bobj c1) (bobj c2) o3 (bobj kc) (bobj ik))%list; loc := L; pre := p; files := fs; ptrs := ps; fresh := fr |}
             [VPtr oiv 0] p None _ _ eq_refl eq_refl
             (aesmode_ctor_w 138 L p fs ps fr oiv ivc c1 c2 o3 (bobj kc) (bobj ik) ltac:(lia) Hiv Hl L1 L2) eq_refl).
  cbn [bind].
  rewrite (RefineFileBase.x_scall whole_prog [] 138 None "encryaes::encryaes/1" (Some (EField "crypt.")) [EVar "key"]
             {| mem := (M ++ seg (bobj (firstn 16 ivc)) (bobj (firstn 16 ivc)) o3 (bobj kc) (bobj ik))%list; loc := L; pre := p; files := fs; ptrs := ps; fresh := fr |}
             [VPtr ok 0] (p ++ "crypt.") None _ _ eq_refl eq_refl
             (encryaes_w 138 L p fs ps fr ok key _ _ o3 kc ik ltac:(lia) Hk Bk Lk Li) eq_refl).
  reflexivity.
Qed.

(* the constructor of one of the five encrypting classes: it only calls the base constructor *)
Lemma classctor_w : forall g fuel l0 p0 fs ps fr ok key oiv ivc c1 c2 o3 kc ik,
  lget whole_prog g = Some {| f_params := ["key"; "iv"]; f_body := SCall None "AesEncrypt::AesEncrypt/2" None [EVar "key"; EVar "iv"] |} ->
  (145 <= fuel)%nat -> mget M ok = Some (bytes_object key) -> block16 key -> mget M oiv = Some (bobj ivc) -> (16 <= List.length ivc)%nat ->
  List.length c1 = 16%nat -> List.length c2 = 16%nat -> List.length kc = 176%nat -> List.length ik = 20%nat ->
  call whole_prog [] fuel g p [VPtr ok 0; VPtr oiv 0]
       {| mem := (M ++ seg (bobj c1) (bobj c2) o3 (bobj kc) (bobj ik))%list; loc := l0; pre := p0; files := fs; ptrs := ps; fresh := fr |}
  = Ok (None, {| mem := (M ++ seg (bobj (firstn 16 ivc)) (bobj (firstn 16 ivc)) o3 (bobj (concat (map (map Z.of_N) (genall key)))) (bobj (map Z.of_N key ++ skipn 16 ik)))%list;
                 loc := l0; pre := p0; files := fs; ptrs := ps; fresh := fr |}).
Proof.
  intros g fuel l0 p0 fs ps fr ok key oiv ivc c1 c2 o3 kc ik Hg Hf Hk Bk Hiv Hl L1 L2 Lk Li.
  eapply call_mono; [|exact Hf].
  unfold call. rewrite Hg. cbn [f_params f_body bind_params bind mem loc pre files ptrs fresh].
  set (L := [("key", VPtr ok 0); ("iv", VPtr oiv 0)]).
  rewrite (RefineFileBase.x_scall whole_prog [] 144 None "AesEncrypt::AesEncrypt/2" None [EVar "key"; EVar "iv"]
             {| mem := (M ++ seg (bobj c1) (bobj c2) o3 (bobj kc) (bobj ik))%list; loc := L; pre := p; files := fs; ptrs := ps; fresh := fr |}
             [VPtr ok 0; VPtr oiv 0] p None _ _ eq_refl eq_refl
             (aesencrypt_w 144 L p fs ps fr ok key oiv ivc c1 c2 o3 kc ik ltac:(lia) Hk Bk Hiv Hl L1 L2 Lk Li) eq_refl).
  reflexivity.
Qed.

(* the five byte arrays of a new object, all zero *)
Definition objs5 : list (string * ity * Z) := [("iv", U8, 16); ("initiv", U8, 16); ("crypt.w", U8, 16); ("crypt.key.key", U8, 176); ("crypt.key.init_key", U8, 20)].
Definition seg0 : memory := seg (bobj (repeat 0 16)) (bobj (repeat 0 16)) (bobj (repeat 0 16)) (bobj (repeat 0 176)) (bobj (repeat 0 20)).
Hypothesis Hpsz : forall y r, p ++ y <> "sizeof:" ++ r.
Lemma alloc5 : forall cls, (forall name, mget M ("sizeof:" ++ cls ++ "." ++ name) = None) -> alloc_objs cls p objs5 M = (M ++ seg0)%list.
Proof.
  intros cls Hsz.
  assert (A : forall r name, mget (M ++ r)%list ("sizeof:" ++ cls ++ "." ++ name) = mget r ("sizeof:" ++ cls ++ "." ++ name))
    by (intros r name; rewrite RefineConcMem.mget_app, Hsz; reflexivity).
  assert (B : forall y name, String.eqb ("sizeof:" ++ cls ++ "." ++ name) (p ++ y) = false).
  { intros y name. apply String.eqb_neq. intro E0. apply (Hpsz y (cls ++ "." ++ name)). symmetry. exact E0. }
  unfold objs5. cbn [alloc_objs].
  rewrite Hsz. rewrite (mset_new M) by apply HMp.
  rewrite A. cbn [mget]. rewrite B. rewrite mset_Mseg. cbn [mset]. rewrite append_eqb_l. cbn [String.eqb Ascii.eqb Bool.eqb andb].
  rewrite A. cbn [mget]. rewrite !B. rewrite mset_Mseg. cbn [mset]. rewrite !append_eqb_l. cbn [String.eqb Ascii.eqb Bool.eqb andb].
  rewrite A. cbn [mget]. rewrite !B. rewrite mset_Mseg. cbn [mset]. rewrite !append_eqb_l. cbn [String.eqb Ascii.eqb Bool.eqb andb].
  rewrite A. cbn [mget]. rewrite !B. rewrite mset_Mseg. cbn [mset]. rewrite !append_eqb_l. cbn [String.eqb Ascii.eqb Bool.eqb andb].
  reflexivity.
Qed.
End Obj.

(* ---------------- the new object "#f." ---------------- *)
Definition smf (p : string) (key : list N) (ivc : list Z) : memory :=
  seg p (bobj (firstn 16 ivc)) (bobj (firstn 16 ivc)) (bobj (repeat 0 16)) (bobj (concat (map (map Z.of_N) (genall key))))
      (bobj (map Z.of_N key ++ skipn 16 (repeat 0 20))).
Lemma hobj_not_tab : forall f y, ~ is_tab (hobj f ++ y).
Proof. intros f y H. rewrite hobj_app in H. unfold is_tab in H. intuition discriminate. Qed.
Lemma hobj_not_sz : forall f y r, hobj f ++ y <> "sizeof:" ++ r.
Proof. intros f y r H. rewrite hobj_app in H. discriminate H. Qed.

Definition ctor_fn : func := {| f_params := ["key"; "iv"]; f_body := SCall None "AesEncrypt::AesEncrypt/2" None [EVar "key"; EVar "iv"] |}.

Lemma newobj_w : forall fuel x cls g M Pt f l0 pa fs key ok oiv ivc,
  lget whole_prog g = Some ctor_fn -> (150 <= fuel)%nat -> block16 key ->
  tabs_ok M -> mget M ok = Some (bytes_object key) -> mget M oiv = Some (bobj ivc) -> (16 <= List.length ivc)%nat ->
  (forall y, mget M (hobj f ++ y) = None) -> (forall name, mget M ("sizeof:" ++ cls ++ "." ++ name) = None) ->
  lget Pt ("alloc:" ++ cls) = None -> lget Pt (class_key (hobj f)) = None ->
  lget Pt (pa ++ "key") = Some (VPtr ok 0) -> lget Pt (pa ++ "iv") = Some (VPtr oiv 0) ->
  exec whole_prog [] (S fuel) (SNewObj x cls objs5 (Some g) [EPtrVar (EField "key"); EPtrVar (EField "iv")])
       {| mem := M; loc := l0; pre := pa; files := fs; ptrs := Pt; fresh := f |} =
  Ok (Normal, {| mem := (M ++ smf (hobj f) key ivc)%list; loc := lset l0 x (VPtr (hobj f) 0); pre := pa; files := fs;
                 ptrs := (Pt ++ [(class_key (hobj f), VPtr cls 0)])%list; fresh := S f |}).
Proof.
  intros fuel x cls g M Pt f l0 pa fs key ok oiv ivc Hg Hf Bk Ht Hk Hiv Hl HMp Hsz Hal Hcl Hpk Hpi.
  cbn [exec eval_list eval bind pre ptrs]. rewrite Hpk, Hpi. cbn [bind]. rewrite Hal. cbn [fresh mem].
  change ("#" ++ nat_string f ++ ".") with (hobj f).
  unfold objs5 at 1. cbn [forallb fst]. rewrite !HMp. cbn [andb negb].
  rewrite Hg. cbn [f_params ctor_fn bind_params bind loc files ptrs].
  change [("iv", U8, 16); ("initiv", U8, 16); ("crypt.w", U8, 16); ("crypt.key.key", U8, 176); ("crypt.key.init_key", U8, 20)] with objs5.
  rewrite (alloc5 (hobj f) M HMp (hobj_not_sz f) cls Hsz).
  rewrite (lset_new _ Pt (class_key (hobj f)) (VPtr cls 0) Hcl).
  pose proof (classctor_w (hobj f) (hobj_not_tab f) M HMp Ht g fuel (lset l0 x (VPtr (hobj f) 0)) pa fs (Pt ++ [(class_key (hobj f), VPtr cls 0)])%list (S f)
                ok key oiv ivc (repeat 0 16) (repeat 0 16) (bobj (repeat 0 16)) (repeat 0 176) (repeat 0 20) Hg ltac:(lia) Hk Bk Hiv Hl
                eq_refl eq_refl eq_refl eq_refl) as CC.
  destruct (call_inv _ _ _ _ _ _ _ _ _ _ _ CC Hg eq_refl) as (o1 & s1 & Ex & _ & Es).
  cbn [mem loc pre files ptrs fresh] in Ex. unfold seg0. rewrite Ex. cbn [bind].
  pose proof (f_equal mem Es) as E1. pose proof (f_equal files Es) as E2. pose proof (f_equal ptrs Es) as E3. pose proof (f_equal fresh Es) as E4.
  cbn [mem files ptrs fresh] in E1, E2, E3, E4. rewrite <- E1, <- E2, <- E3, <- E4. reflexivity.
Qed.

(* ---------------- B3: one createCryMaster(1, ctype) ---------------- *)
Lemma lget_ctor : forall ke, (ke = ECB_Enc \/ ke = CBC_Enc \/ ke = CTRm \/ ke = CFB_Enc \/ ke = OFBm) ->
  lget whole_prog (cls_of ke ++ "::" ++ cls_of ke ++ "/2") = Some ctor_fn.
Proof. intros ke [-> |[-> |[-> |[-> | ->]]]]; vm_compute; reflexivity. Qed.

Theorem createCryMaster_w : forall fuel M Pt f l0 p0 fs key cm ke oiv ivc,
  (200 <= fuel)%nat -> create true cm = Some ke -> block16 key ->
  tabs_ok M -> mget M "key" = Some (bytes_object key) -> mget M oiv = Some (bobj ivc) -> (16 <= List.length ivc)%nat ->
  (forall y, mget M (hobj f ++ y) = None) ->
  (forall r, mget M ("sizeof:Aes" ++ r) = None) ->
  (forall c0, lget Pt ("alloc:" ++ c0) = None) -> lget Pt (class_key (hobj f)) = None ->
  lget Pt "rc.aesfactory.key" = Some (VPtr "key" 0) -> lget Pt "rc.aesfactory.iv" = Some (VPtr oiv 0) ->
  call whole_prog [] fuel "AesFactory::createCryMaster/2" "rc.aesfactory." [VInt 1; VInt (Z.of_N cm)]
       {| mem := M; loc := l0; pre := p0; files := fs; ptrs := Pt; fresh := f |} =
  Ok (Some (VPtr (hobj f) 0),
      {| mem := (M ++ smf (hobj f) key ivc)%list; loc := l0; pre := p0; files := fs;
         ptrs := (Pt ++ [(class_key (hobj f), VPtr (cls_of ke) 0)])%list; fresh := S f |}).
Proof.
  intros fuel M Pt f l0 p0 fs key cm ke oiv ivc Hf Hc Bk Ht Hk Hiv Hl HMp Hsz Hal Hcl Hpk Hpi.
  eapply call_mono; [|exact Hf].
  assert (Hm : (cm <= 4)%N).
  { destruct (N.le_gt_cases cm 4) as [Hle|Hgt]; [exact Hle|].
    apply (proj2 (ModesProofs.C10_factory_domain_proof true cm)) in Hgt. rewrite Hgt in Hc. discriminate. }
  assert (NO : forall cls x g, lget whole_prog g = Some ctor_fn ->
     (forall name, mget M ("sizeof:" ++ cls ++ "." ++ name) = None) ->
     exec whole_prog [] 190 (SNewObj x cls objs5 (Some g) [EPtrVar (EField "key"); EPtrVar (EField "iv")])
       {| mem := M; loc := lset [("isenc", VInt 1); ("type", VInt (Z.of_N cm))] "$t1" (VInt (Z.of_N cm)); pre := "rc.aesfactory."; files := fs; ptrs := Pt; fresh := f |} =
     Ok (Normal, {| mem := (M ++ smf (hobj f) key ivc)%list; loc := lset (lset [("isenc", VInt 1); ("type", VInt (Z.of_N cm))] "$t1" (VInt (Z.of_N cm))) x (VPtr (hobj f) 0);
                    pre := "rc.aesfactory."; files := fs; ptrs := (Pt ++ [(class_key (hobj f), VPtr cls 0)])%list; fresh := S f |})).
  { intros cls x g Hg Hs. apply (newobj_w 189 x cls g M Pt f _ "rc.aesfactory." fs key "key" oiv ivc Hg ltac:(lia) Bk Ht Hk Hiv Hl HMp Hs (Hal cls) Hcl Hpk Hpi). }
  unfold call. rewrite (aes_in_whole _ _ (eq_refl : lget aes_prog "AesFactory::createCryMaster/2" = Some Src_aesmode.f_AesFactory_createCryMaster_2)).
  cbn [f_params f_body Src_aesmode.f_AesFactory_createCryMaster_2 bind_params bind mem loc pre files ptrs fresh].
  destruct (ModesProofs.mode_cases cm Hm) as [->|[->|[->|[->| ->]]]]; cbn in Hc; injection Hc as <-; cbn [cls_of Z.of_N];
    change 200%nat with (S (S (S (S (S (S (S (S (S (S 190)))))))))).
  - rewrite exec_if. cbn [eval bind as_int loc lget String.eqb Ascii.eqb Bool.eqb]. change (1 =? 0) with false. cbv iota.
    rewrite exec_seq, exec_set. cbn [eval bind as_int loc lget String.eqb Ascii.eqb Bool.eqb]. change (wrap I32 0) with 0. unfold with_loc. cbn [bind mem loc pre files ptrs fresh].
    rewrite exec_if. cbn [eval bind as_int loc lget lset String.eqb Ascii.eqb Bool.eqb eval_bin Z.eqb]. cbv iota.
    rewrite exec_seq.
    rewrite (exec_mono _ _ _ _ _ _ (NO "AesECB_Enc" "$t2" "AesECB_Enc::AesECB_Enc/2" (lget_ctor ECB_Enc ltac:(auto)) ltac:(intros name; apply Hsz))) by lia.
    cbn [bind]. rewrite RefineFileBase.x_return. cbn [eval bind loc]. rewrite lget_lset_same. reflexivity.
  - rewrite exec_if. cbn [eval bind as_int loc lget String.eqb Ascii.eqb Bool.eqb]. change (1 =? 0) with false. cbv iota.
    rewrite exec_seq, exec_set. cbn [eval bind as_int loc lget String.eqb Ascii.eqb Bool.eqb]. change (wrap I32 1) with 1. unfold with_loc. cbn [bind mem loc pre files ptrs fresh].
    do 2 (rewrite exec_if; cbn [eval bind as_int loc lget lset String.eqb Ascii.eqb Bool.eqb eval_bin Z.eqb Pos.eqb]; cbv iota).
    rewrite exec_seq.
    rewrite (exec_mono _ _ _ _ _ _ (NO "AesCBC_Enc" "$t3" "AesCBC_Enc::AesCBC_Enc/2" (lget_ctor CBC_Enc ltac:(auto)) ltac:(intros name; apply Hsz))) by lia.
    cbn [bind]. rewrite RefineFileBase.x_return. cbn [eval bind loc]. rewrite lget_lset_same. reflexivity.
  - rewrite exec_if. cbn [eval bind as_int loc lget String.eqb Ascii.eqb Bool.eqb]. change (1 =? 0) with false. cbv iota.
    rewrite exec_seq, exec_set. cbn [eval bind as_int loc lget String.eqb Ascii.eqb Bool.eqb]. change (wrap I32 2) with 2. unfold with_loc. cbn [bind mem loc pre files ptrs fresh].
    do 3 (rewrite exec_if; cbn [eval bind as_int loc lget lset String.eqb Ascii.eqb Bool.eqb eval_bin Z.eqb Pos.eqb]; cbv iota).
    rewrite exec_seq.
    rewrite (exec_mono _ _ _ _ _ _ (NO "AesCTR" "$t4" "AesCTR::AesCTR/2" (lget_ctor CTRm ltac:(auto)) ltac:(intros name; apply Hsz))) by lia.
    cbn [bind]. rewrite RefineFileBase.x_return. cbn [eval bind loc]. rewrite lget_lset_same. reflexivity.
  - rewrite exec_if. cbn [eval bind as_int loc lget String.eqb Ascii.eqb Bool.eqb]. change (1 =? 0) with false. cbv iota.
    rewrite exec_seq, exec_set. cbn [eval bind as_int loc lget String.eqb Ascii.eqb Bool.eqb]. change (wrap I32 3) with 3. unfold with_loc. cbn [bind mem loc pre files ptrs fresh].
    do 4 (rewrite exec_if; cbn [eval bind as_int loc lget lset String.eqb Ascii.eqb Bool.eqb eval_bin Z.eqb Pos.eqb]; cbv iota).
    rewrite exec_seq.
    rewrite (exec_mono _ _ _ _ _ _ (NO "AesCFB_Enc" "$t5" "AesCFB_Enc::AesCFB_Enc/2" (lget_ctor CFB_Enc ltac:(auto)) ltac:(intros name; apply Hsz))) by lia.
    cbn [bind]. rewrite RefineFileBase.x_return. cbn [eval bind loc]. rewrite lget_lset_same. reflexivity.
  - rewrite exec_if. cbn [eval bind as_int loc lget String.eqb Ascii.eqb Bool.eqb]. change (1 =? 0) with false. cbv iota.
    rewrite exec_seq, exec_set. cbn [eval bind as_int loc lget String.eqb Ascii.eqb Bool.eqb]. change (wrap I32 4) with 4. unfold with_loc. cbn [bind mem loc pre files ptrs fresh].
    do 5 (rewrite exec_if; cbn [eval bind as_int loc lget lset String.eqb Ascii.eqb Bool.eqb eval_bin Z.eqb Pos.eqb]; cbv iota).
    rewrite exec_seq.
    rewrite (exec_mono _ _ _ _ _ _ (NO "AesOFB" "$t6" "AesOFB::AesOFB/2" (lget_ctor OFBm ltac:(auto)) ltac:(intros name; apply Hsz))) by lia.
    cbn [bind]. rewrite RefineFileBase.x_return. cbn [eval bind loc]. rewrite lget_lset_same. reflexivity.
Qed.
Print Assumptions createCryMaster_w.
