(* Refinement, part 1: the leaf operations of aes.cpp (addroundkey, subbytes, rowshift, columnmix) vs AesModel. *)
From Coq Require Import ZArith NArith List String Bool Lia.
From Wencry Require Import Bytes AesModel MiniC MiniCRun MiniCLemmas SrcRun AesProofs RefineAesLib.
From Wencry.Gen Require Import AesTab AesCoef.
From Wencry.Gen Require Src_aes Src_aesmode.
Import ListNotations.
Local Open Scope Z_scope.
Local Open Scope string_scope.

(* ---------------- tables ---------------- *)
Lemma tab_s_box_eq : o_cells Src_aes.g_s_box = map Z.of_N tab_s_box.
Proof. vm_compute; reflexivity. Qed.
Lemma tab_rs_box_eq : o_cells Src_aes.g_rs_box = map Z.of_N tab_rs_box.
Proof. vm_compute; reflexivity. Qed.
Lemma tab_RC_eq : o_cells Src_aes.g_RC = map Z.of_N tab_RC.
Proof. vm_compute; reflexivity. Qed.
Lemma tab_Logtable_eq : o_cells Src_aes.g_Logtable = map Z.of_N tab_Logtable.
Proof. vm_compute; reflexivity. Qed.
Lemma tab_Alogtable_eq : o_cells Src_aes.g_Alogtable = map Z.of_N tab_Alogtable.
Proof. vm_compute; reflexivity. Qed.

Lemma g_s_box_eq : Src_aes.g_s_box = bobj (map Z.of_N tab_s_box).
Proof. vm_compute; reflexivity. Qed.
Lemma g_rs_box_eq : Src_aes.g_rs_box = bobj (map Z.of_N tab_rs_box).
Proof. vm_compute; reflexivity. Qed.
Lemma g_RC_eq : Src_aes.g_RC = bobj (map Z.of_N tab_RC).
Proof. vm_compute; reflexivity. Qed.
Lemma g_Logtable_eq : Src_aes.g_Logtable = bobj (map Z.of_N tab_Logtable).
Proof. vm_compute; reflexivity. Qed.
Lemma g_Alogtable_eq : Src_aes.g_Alogtable = bobj (map Z.of_N tab_Alogtable).
Proof. vm_compute; reflexivity. Qed.

Lemma forallb_lt256 : forall l, forallb (fun x => (x <? 256)%N) l = true -> Forall (fun x => (x < 256)%N) l.
Proof. intros l H. rewrite forallb_forall in H. apply Forall_forall. intros x Hx. apply N.ltb_lt. auto. Qed.
Lemma s_box_bytes : Forall (fun x => (x < 256)%N) tab_s_box.
Proof. apply forallb_lt256. vm_compute. reflexivity. Qed.
Lemma rs_box_bytes : Forall (fun x => (x < 256)%N) tab_rs_box.
Proof. apply forallb_lt256. vm_compute. reflexivity. Qed.
Lemma sbox_lt : forall b, (sbox b < 256)%N.
Proof.
  intros b. unfold sbox, nthN. pose proof s_box_bytes as Hb. rewrite Forall_forall in Hb.
  destruct (nth_in_or_default (N.to_nat b) tab_s_box 0%N) as [Hin|Hd]; [apply Hb; exact Hin|rewrite Hd; reflexivity].
Qed.
Lemma rsbox_lt : forall b, (rsbox b < 256)%N.
Proof.
  intros b. unfold rsbox, nthN. pose proof rs_box_bytes as Hb. rewrite Forall_forall in Hb.
  destruct (nth_in_or_default (N.to_nat b) tab_rs_box 0%N) as [Hin|Hd]; [apply Hb; exact Hin|rewrite Hd; reflexivity].
Qed.

Definition tabs_ok (m : memory) : Prop :=
  mget m "s_box" = Some Src_aes.g_s_box /\ mget m "rs_box" = Some Src_aes.g_rs_box /\
  mget m "RC" = Some Src_aes.g_RC /\ mget m "Logtable" = Some Src_aes.g_Logtable /\
  mget m "Alogtable" = Some Src_aes.g_Alogtable.

Definition is_tab (k : string) : Prop :=
  k = "s_box" \/ k = "rs_box" \/ k = "RC" \/ k = "Logtable" \/ k = "Alogtable".

Local Notation P := aes_prog.

(* ---------------- addroundkey ---------------- *)
Lemma xor64 : forall a b : list N, List.length a = 8%nat -> List.length b = 8%nat ->
  Forall (fun x => (x < 256)%N) a -> Forall (fun x => (x < 256)%N) b ->
  le_bytes 8 (wrap U64 (wrap U64 (Z.lxor (wrap U64 (le_val (map Z.of_N a))) (wrap U64 (le_val (map Z.of_N b))))) mod 2 ^ (8 * 8))
  = map Z.of_N (xorl a b).
Proof.
  intros a b La Lb Ha Hb.
  assert (Ra := le_val_range _ (Forall_B _ Ha)). assert (Rb := le_val_range _ (Forall_B _ Hb)).
  rewrite map_length in Ra, Rb. rewrite La in Ra. rewrite Lb in Rb.
  change (256 ^ Z.of_nat 8) with (2 ^ 64) in Ra, Rb.
  rewrite (wrap_U64_small (le_val (map Z.of_N a))), (wrap_U64_small (le_val (map Z.of_N b))) by assumption.
  unfold wrap; cbn [ity_bits ity_signed]. change (2 ^ (8 * 8)) with (256 ^ Z.of_nat 8). change (2 ^ 64) with (256 ^ Z.of_nat 8).
  rewrite !le_bytes_mod. rewrite le_bytes_lxor.
  replace 8%nat with (List.length (map Z.of_N a)) at 1 by (now rewrite map_length).
  replace 8%nat with (List.length (map Z.of_N b)) at 1 by (now rewrite map_length).
  rewrite !le_bytes_le_val by (apply Forall_B; assumption).
  apply map2_lxor_B.
Qed.

Ltac bytes_tac := repeat (constructor; try assumption).

Ltac store_hook ::=
  lazymatch goal with
  | |- le_bytes 8 (wrap U64 (wrap U64 (Z.lxor (wrap U64 (le_val ?la)) (wrap U64 (le_val ?lb)))) mod _) = _ =>
      repeat match goal with HH : slice _ _ _ = _ |- _ => rewrite HH end;
      lazymatch goal with |- le_bytes 8 (wrap U64 (wrap U64 (Z.lxor (wrap U64 (le_val ?la)) (wrap U64 (le_val ?lb)))) mod _) = _ =>
      let a := unB la in let b := unB lb in
      exact (xor64 a b eq_refl eq_refl ltac:(bytes_tac) ltac:(bytes_tac)) end
  end.
Ltac st_norm_hook ::= cbn [xorl map2 map].

Lemma skipn_add : forall A b a (l : list A), skipn (b + a) l = skipn a (skipn b l).
Proof. induction b as [|b IH]; intros a [|x l]; cbn [skipn Nat.add]; auto. now rewrite skipn_nil. Qed.

Lemma key_halves : forall kc off (k : list N), 0 <= off ->
  firstn 16 (skipn (Z.to_nat off) kc) = map Z.of_N k ->
  slice (Z.to_nat off) 8 kc = map Z.of_N (firstn 8 k) /\
  slice (Z.to_nat (off + 8)) 8 kc = map Z.of_N (skipn 8 k).
Proof.
  intros kc off k H0 H. unfold slice. split.
  - rewrite <- firstn_map, <- H, firstn_firstn. reflexivity.
  - rewrite <- skipn_map, <- H. replace (Z.to_nat (off + 8)) with (Z.to_nat off + 8)%nat by lia.
    rewrite skipn_add. rewrite firstn_skipn_comm. reflexivity.
Qed.

Lemma addroundkey_spec : forall vt s pfx fuel o ok offk w kc k,
  (10 <= fuel)%nat ->
  mget (mem s) o = Some (bytes_object w) -> block16 w ->
  mget (mem s) ok = Some (bobj kc) -> 0 <= offk -> offk + 16 <= Z.of_nat (List.length kc) ->
  firstn 16 (skipn (Z.to_nat offk) kc) = map Z.of_N k -> block16 k -> o <> ok ->
  call P vt fuel "addroundkey/2" pfx [VPtr o 0; VPtr ok offk] s
  = Ok (None, with_mem s (mset (mem s) o (bytes_object (addroundkey w k)))).
Proof.
  intros vt s pfx fuel o ok offk w kc k Hf Hw Bw Hk H0 Hlen Hkk Bk Hne.
  eapply call_mono; [|exact Hf].
  destruct (key_halves _ _ _ H0 Hkk) as [Hk1 Hk2]. clear Hkk.
  revert Hk1 Hk2. blk k Bk. intros Hk1 Hk2.
  match type of Hk1 with ?l = ?r => let r' := eval cbn [firstn skipn map] in r in change (l = r') in Hk1 end.
  match type of Hk2 with ?l = ?r => let r' := eval cbn [firstn skipn map] in r in change (l = r') in Hk2 end.
  revert Hw. blk w Bw. intros Hw.
  eapply call_normal; [reflexivity | reflexivity | | | | | ].
  - cbn [f_body Src_aes.f_addroundkey_2]. xs.
  - reflexivity.
  - reflexivity.
  - reflexivity.
  - st_norm. reflexivity.
Qed.

(* ---------------- subbytes ---------------- *)
Ltac fold_word4 :=
  repeat match goal with
  | |- context [le_val [Z.of_N ?a; Z.of_N ?b; Z.of_N ?c; Z.of_N ?d]] =>
      change (le_val [Z.of_N a; Z.of_N b; Z.of_N c; Z.of_N d]) with (word4 a b c d)
  end.

Ltac tabs_elim Ht :=
  let H1 := fresh "Hsbox" in let H2 := fresh "Hrsbox" in let H3 := fresh "HRC" in
  let H4 := fresh "Hlog" in let H5 := fresh "Halog" in
  destruct Ht as (H1 & H2 & H3 & H4 & H5);
  rewrite g_s_box_eq in H1; rewrite g_rs_box_eq in H2; rewrite g_RC_eq in H3;
  rewrite g_Logtable_eq in H4; rewrite g_Alogtable_eq in H5.
Ltac nt_elim Hnt :=
  let H1 := fresh "Hn" in let H2 := fresh "Hn" in let H3 := fresh "Hn" in
  let H4 := fresh "Hn" in let H5 := fresh "Hn" in
  unfold is_tab in Hnt;
  match type of Hnt with ~ (?o = _ \/ _) =>
    assert (H1 : o <> "s_box") by tauto; assert (H2 : o <> "rs_box") by tauto; assert (H3 : o <> "RC") by tauto;
    assert (H4 : o <> "Logtable") by tauto; assert (H5 : o <> "Alogtable") by tauto
  end.

Ltac ev_hook ::=
  lazymatch goal with
  | |- eval _ (ELoad U8 (EPtrAdd (EGlobal "s_box") 1 _)) = _ =>
      eapply (ev_tab _ "s_box" tab_s_box); [cbn [mem]; mget_tac | exact s_box_bytes | ev | change (Z.of_nat (List.length tab_s_box)) with 256; range_tac]
  | |- eval _ (ELoad U8 (EPtrAdd (EGlobal "rs_box") 1 _)) = _ =>
      eapply (ev_tab _ "rs_box" tab_rs_box); [cbn [mem]; mget_tac | exact rs_box_bytes | ev | change (Z.of_nat (List.length tab_rs_box)) with 256; range_tac]
  end.

Ltac store_hook ::=
  fold_word4; rewrite ?wrap_U32_word4 by assumption;
  rewrite ?word4_b0, ?word4_b1, ?word4_b2, ?word4_b3 by assumption; rewrite ?N2Z.id;
  apply pack4; first [apply sbox_lt | apply rsbox_lt].

Lemma enc_subbytes_spec : forall vt s pfx fuel o w,
  (20 <= fuel)%nat -> tabs_ok (mem s) -> ~ is_tab o ->
  mget (mem s) o = Some (bytes_object w) -> block16 w ->
  call P vt fuel "encryaes_subbytes/1" pfx [VPtr o 0] s
  = Ok (None, with_mem s (mset (mem s) o (bytes_object (enc_subbytes w)))).
Proof.
  intros vt s pfx fuel o w Hf Ht Hnt Hw Bw.
  eapply call_mono; [|exact Hf]. tabs_elim Ht. nt_elim Hnt.
  revert Hw. blk w Bw. intros Hw.
  eapply call_normal; [reflexivity | reflexivity | | | | | ].
  - cbn [f_body Src_aes.f_encryaes_subbytes_1]. xs.
  - reflexivity.
  - reflexivity.
  - reflexivity.
  - st_norm. reflexivity.
Qed.

Lemma dec_subbytes_spec : forall vt s pfx fuel o w,
  (20 <= fuel)%nat -> tabs_ok (mem s) -> ~ is_tab o ->
  mget (mem s) o = Some (bytes_object w) -> block16 w ->
  call P vt fuel "decryaes_subbytes/1" pfx [VPtr o 0] s
  = Ok (None, with_mem s (mset (mem s) o (bytes_object (dec_subbytes w)))).
Proof.
  intros vt s pfx fuel o w Hf Ht Hnt Hw Bw.
  eapply call_mono; [|exact Hf]. tabs_elim Ht. nt_elim Hnt.
  revert Hw. blk w Bw. intros Hw.
  eapply call_normal; [reflexivity | reflexivity | | | | | ].
  - cbn [f_body Src_aes.f_decryaes_subbytes_1]. xs.
  - reflexivity.
  - reflexivity.
  - reflexivity.
  - st_norm. reflexivity.
Qed.

(* ---------------- rowshift ---------------- *)
Ltac store_hook ::=
  fold_word4; rewrite ?wrap_U32_word4 by assumption;
  first [ rewrite rrot8 by assumption | rewrite rrot16 by assumption | rewrite rrot24 by assumption
        | rewrite lrot8 by assumption | rewrite lrot16 by assumption | rewrite lrot24 by assumption ];
  apply word4_bytes; assumption.

Lemma enc_rowshift_spec : forall vt s pfx fuel o w,
  (20 <= fuel)%nat ->
  mget (mem s) o = Some (bytes_object w) -> block16 w ->
  call P vt fuel "encryaes_rowshift/1" pfx [VPtr o 0] s
  = Ok (None, with_mem s (mset (mem s) o (bytes_object (enc_rowshift w)))).
Proof.
  intros vt s pfx fuel o w Hf Hw Bw.
  eapply call_mono; [|exact Hf].
  revert Hw. blk w Bw. intros Hw.
  eapply call_normal; [reflexivity | reflexivity | | | | | ].
  - cbn [f_body Src_aes.f_encryaes_rowshift_1]. xs.
  - reflexivity.
  - reflexivity.
  - reflexivity.
  - st_norm. reflexivity.
Qed.

Lemma dec_rowshift_spec : forall vt s pfx fuel o w,
  (20 <= fuel)%nat ->
  mget (mem s) o = Some (bytes_object w) -> block16 w ->
  call P vt fuel "decryaes_rowshift/1" pfx [VPtr o 0] s
  = Ok (None, with_mem s (mset (mem s) o (bytes_object (dec_rowshift w)))).
Proof.
  intros vt s pfx fuel o w Hf Hw Bw.
  eapply call_mono; [|exact Hf].
  revert Hw. blk w Bw. intros Hw.
  eapply call_normal; [reflexivity | reflexivity | | | | | ].
  - cbn [f_body Src_aes.f_decryaes_rowshift_1]. xs.
  - reflexivity.
  - reflexivity.
  - reflexivity.
  - st_norm. reflexivity.
Qed.

(* ---------------- columnmix ---------------- *)
Lemma Logtable_bytes : Forall (fun x => (x < 256)%N) tab_Logtable.
Proof. apply forallb_lt256. vm_compute. reflexivity. Qed.
Lemma Alogtable_bytes : Forall (fun x => (x < 256)%N) tab_Alogtable.
Proof. apply forallb_lt256. vm_compute. reflexivity. Qed.
Lemma nthN_bytes : forall tab i, Forall (fun x => (x < 256)%N) tab -> (nthN tab i 0 < 256)%N.
Proof.
  intros tab i Hb. unfold nthN. rewrite Forall_forall in Hb.
  destruct (nth_in_or_default (N.to_nat i) tab 0%N) as [Hin|Hd]; [apply Hb; exact Hin|rewrite Hd; reflexivity].
Qed.
Lemma Gmul_lt : forall u v, (Gmul u v < 256)%N.
Proof. intros u v. unfold Gmul. destruct (v =? 0)%N; [reflexivity|]. apply nthN_bytes. exact Alogtable_bytes. Qed.

Lemma ev_gmul : forall s e x uz,
  eval s e = Ok (VInt x) ->
  mget (mem s) "Logtable" = Some (bobj (map Z.of_N tab_Logtable)) ->
  mget (mem s) "Alogtable" = Some (bobj (map Z.of_N tab_Alogtable)) ->
  0 <= uz < 256 ->
  eval s (ECond (ECast TBool (ECast U8 e))
                (ECast I32 (ELoad U8 (EPtrAdd (EGlobal "Alogtable") 1
                   (EBin I32 Add (EConst uz) (ECast I32 (ELoad U8 (EPtrAdd (EGlobal "Logtable") 1 (ECast U8 e))))))))
                (EConst 0))
  = Ok (VInt (Z.of_N (Gmul (Z.to_N uz) (Z.to_N (wrap U8 x))))).
Proof.
  intros s e x uz He Hlog Halog Hu.
  pose proof (wrap_U8_range x) as Hb. set (b := wrap U8 x) in *.
  eapply ev_cond.
  - eapply ev_cast; [eapply ev_cast; [exact He | reflexivity] | reflexivity].
  - fold b. unfold Gmul. change (wrap TBool b) with (if (b =? 0)%Z then 0 else 1).
    destruct (Z.eqb_spec b 0) as [E|E].
    + rewrite E. reflexivity.
    + cbn [Z.eqb]. replace (Z.to_N b =? 0)%N with false by (symmetry; apply N.eqb_neq; lia).
      set (L := nthN tab_Logtable (Z.to_N b) 0%N).
      assert (HL : (L < 256)%N) by (apply nthN_bytes; exact Logtable_bytes).
      eapply ev_cast.
      * eapply (ev_tab _ "Alogtable" tab_Alogtable); [exact Halog | exact Alogtable_bytes | |].
        -- eapply ev_bin; [apply ev_const | |].
           ++ eapply ev_cast; [|reflexivity].
              eapply (ev_tab _ "Logtable" tab_Logtable); [exact Hlog | exact Logtable_bytes | |].
              ** eapply ev_cast; [exact He | reflexivity].
              ** fold b. change (Z.of_nat (List.length tab_Logtable)) with 256. exact Hb.
           ++ fold b. fold L. rewrite wrap_I32_B by exact HL. cbn [eval_bin]. apply arith_I32_small. lia.
        -- change (Z.of_nat (List.length tab_Alogtable)) with 512. lia.
      * rewrite Z2N.inj_add by lia. rewrite N2Z.id. symmetry. apply wrap_I32_B. apply nthN_bytes. exact Alogtable_bytes.
Qed.

Ltac ev_hook ::=
  lazymatch goal with
  | |- eval _ (ECond (ECast TBool (ECast U8 _)) (ECast I32 (ELoad U8 (EPtrAdd (EGlobal "Alogtable") 1 _))) (EConst 0)) = _ =>
      eapply ev_gmul; [ev | cbn [mem]; mget_tac | cbn [mem]; mget_tac | lia]
  end.

Ltac bound_tac := repeat apply lxor_lt256; first [apply Gmul_lt | apply sbox_lt | apply rsbox_lt | assumption | reflexivity].
Ltac cm_norm :=
  fold_word4; rewrite ?wrap_U32_word4 by assumption;
  repeat (rewrite word4_shr8 by (assumption || reflexivity));
  rewrite ?word4_b0 by (assumption || reflexivity); rewrite ?N2Z.id; cbn [Z.to_N];
  repeat first [ rewrite lxor_B | rewrite wrap_I32_B by bound_tac | rewrite wrap_U8_B by bound_tac ].

Lemma enc_columnmix_spec : forall vt s pfx fuel o w,
  (30 <= fuel)%nat -> tabs_ok (mem s) -> ~ is_tab o ->
  mget (mem s) o = Some (bytes_object w) -> block16 w ->
  call P vt fuel "encryaes_columnmix/1" pfx [VPtr o 0] s
  = Ok (None, with_mem s (mset (mem s) o (bytes_object (columnmix enc_mix_rows w)))).
Proof.
  intros vt s pfx fuel o w Hf Ht Hnt Hw Bw.
  eapply call_mono; [|exact Hf]. tabs_elim Ht. nt_elim Hnt.
  revert Hw. blk w Bw. intros Hw.
  eapply call_normal; [reflexivity | reflexivity | | | | | ].
  - cbn [f_body Src_aes.f_encryaes_columnmix_1]. xs.
  - reflexivity.
  - reflexivity.
  - reflexivity.
  - st_norm. cm_norm. reflexivity.
Qed.

Lemma dec_columnmix_spec : forall vt s pfx fuel o w,
  (30 <= fuel)%nat -> tabs_ok (mem s) -> ~ is_tab o ->
  mget (mem s) o = Some (bytes_object w) -> block16 w ->
  call P vt fuel "decryaes_columnmix/1" pfx [VPtr o 0] s
  = Ok (None, with_mem s (mset (mem s) o (bytes_object (columnmix dec_mix_rows w)))).
Proof.
  intros vt s pfx fuel o w Hf Ht Hnt Hw Bw.
  eapply call_mono; [|exact Hf]. tabs_elim Ht. nt_elim Hnt.
  revert Hw. blk w Bw. intros Hw.
  eapply call_normal; [reflexivity | reflexivity | | | | | ].
  - cbn [f_body Src_aes.f_decryaes_columnmix_1]. xs.
  - reflexivity.
  - reflexivity.
  - reflexivity.
  - st_norm. cm_norm. reflexivity.
Qed.
