(* Refinement for the option front end: get_v_opt (and everything it calls), as translated into MiniC (Gen/Src_cli.v, Gen/Src_base64.v),
   run in the environment CliConc.conc builds from CliModel's tokens = CliModel.parse_all followed by post_checks.
   Proof parts: RefineCliSim (simulation lemma for the base64 fragment), RefineCliLib / RefineCliTac (primitives, tactics),
   RefineCliKey (the key texts), RefineCliTok / RefineCliTokK (parseOpts per token), RefineCliLoop (the getopt loop),
   RefineCliPost / RefineCliFin (the checks after the loop). *)
From Coq Require Import ZArith NArith List String Bool Lia.
From Wencry Require Import Bytes Base64Spec CliModel MiniC MiniCRun MiniCLemmas SrcRun SrcRun3 CliConc RefineB64Lib RefineCliSim RefineCliLib RefineCliTac RefineCliKey RefineCliTok RefineCliTokK RefineCliLoop RefineCliPost RefineCliFin.
From Wencry.Gen Require Src_cli Src_base64.
Import ListNotations.
Local Open Scope string_scope.
Local Open Scope list_scope.
Local Open Scope Z_scope.
Local Arguments heap_name : simpl never.

(* ---------------- the statements before the loop ---------------- *)
Fixpoint exec_prefix (n : nat) (st : stmt) (s : state) : option state :=
  match n, st with
  | O, _ => Some s
  | S k, SSeq a b => match exec cli_prog [] 1 a s with Ok (Normal, s1) => exec_prefix k b s1 | _ => None end
  | _, _ => None
  end.
Lemma exec_prefix_ok : forall n st s s' fuel,
  exec_prefix n st s = Some s' -> exec cli_prog [] (n + fuel) st s = exec cli_prog [] fuel (seq_drop n st) s'.
Proof.
  induction n as [|n IH]; intros st s s' fuel H; cbn [exec_prefix seq_drop Nat.add] in *.
  - inversion H; reflexivity.
  - destruct st; try discriminate.
    destruct (exec cli_prog [] 1 st1 s) as [[o s1]| |] eqn:E; try discriminate. destruct o; try discriminate.
    destruct (n + fuel)%nat as [|f] eqn:Ef.
    + assert (n = 0%nat /\ fuel = 0%nat) as [-> ->] by lia. cbn [exec_prefix] in H. inversion H; subst. reflexivity.
    + rewrite exec_seq. rewrite (exec_mono _ _ _ _ _ _ E (S f) ltac:(lia)). cbn [bind]. rewrite <- Ef. apply IH. exact H.
Qed.

Definition init_st (D F : list Z) : state :=
  {| mem := Src_base64.globals ++ [("fout", mk_object U8 128); ("fout_too_long", mk_object TBool 1); ("optind", {| o_ty := I32; o_cells := [1] |})];
     loc := [("argc", VInt 0); ("argv", VNull)]; pre := "";
     files := [("@getopt", {| cf_data := D; cf_pos := 0; cf_eof := false |}); ("@fopen", {| cf_data := F; cf_pos := 0; cf_eof := false |})];
     ptrs := [("optarg", VNull)]; fresh := 0 |}.
Definition m0 : memory :=
  Eval vm_compute in match exec_prefix 13 gv_body (init_st [] []) with Some s => mem s | None => [] end.
Lemma init_ok : forall D F,
  exec_prefix 13 gv_body (init_st D F) = Some (mk m0 (gl []) (gfiles D 0 F 0) (pps VNull VNull VNull VNull []) 1).
Proof. intros D F. vm_compute. reflexivity. Qed.

Lemma inv0 : Inv pak0 false false m0 VNull VNull VNull 1.
Proof.
  constructor; cbn [pak0 mode ctype htype fp out key no_echo dflt_ok is_some vrel krel]; try lia; try reflexivity.
  eexists. split; [reflexivity|reflexivity].
Qed.

(* ---------------- the environment built by CliConc.conc ---------------- *)
Lemma flat_map_map' : forall A B C (f : B -> list C) (g : A -> B) l, flat_map f (map g l) = flat_map (fun x => f (g x)) l.
Proof. induction l as [|x l IH]; cbn [map flat_map]; [reflexivity|]. now rewrite IH. Qed.
Lemma map_flat_map' : forall A B C (f : B -> C) (g : A -> list B) l, map f (flat_map g l) = flat_map (fun x => map f (g x)) l.
Proof. induction l as [|x l IH]; cbn [map flat_map]; [reflexivity|]. now rewrite map_app, IH. Qed.

Lemma conc_D : forall ts, flat_map opt_record (fst (conc ts)) = flat_map trec ts.
Proof. intros ts. unfold conc, trec. cbn [fst]. apply flat_map_map'. Qed.
Lemma conc_F : forall ts, map (fun b : bool => if b then 1 else 0) (snd (conc ts)) = flat_map tfop ts ++ [b2z (fold_left dl_next ts false)].
Proof. intros ts. unfold conc, tfop. cbn [snd]. rewrite map_app, map_flat_map'. reflexivity. Qed.
Lemma conc_len : forall ts, List.length (fst (conc ts)) = List.length ts.
Proof. intros ts. unfold conc. cbn [fst]. apply map_length. Qed.

(* ---------------- reading the result back ---------------- *)
Lemma res_cell_mode : forall md ct ht ne, nth 288 (res_cells md ct ht ne) 0 = md. Proof. reflexivity. Qed.
Lemma res_cell_ct : forall md ct ht ne, nth 289 (res_cells md ct ht ne) 0 = ct. Proof. reflexivity. Qed.
Lemma res_cell_ht : forall md ct ht ne, nth 290 (res_cells md ct ht ne) 0 = ht. Proof. reflexivity. Qed.
Lemma res_cell_ne : forall md ct ht ne, nth 291 (res_cells md ct ht ne) 0 = ne. Proof. reflexivity. Qed.
Lemma signed8_byte : forall z, -1 <= z < 128 -> signed8 (z mod 256) = z.
Proof.
  intros z H. unfold signed8. destruct (Z.eq_dec z (-1)) as [->|N]; [reflexivity|].
  rewrite Z.mod_small by lia. destruct (Z.leb_spec 128 z); [lia|reflexivity].
Qed.

Lemma read_back : forall p lng dl m fpv outv keyv fr l fs oa pe,
  Inv p lng dl m fpv outv keyv fr ->
  let s := mk m l fs (pps oa fpv outv keyv pe) fr in
  match mget (mem s) "#0" with
  | Some o =>
      let cell i := nth i (o_cells o) 0 in
      let key := match lget (ptrs s) (ptr_key "#0" 16) with
                 | Some (VPtr ko _) => get_bytes s ko
                 | _ => None
                 end in
      SOk (Some {| c_mode := cell 288%nat; c_ctype := signed8 (cell 289%nat); c_htype := signed8 (cell 290%nat);
                   c_fp := ptr_nonnull s (ptr_key "#0" 0); c_out := ptr_nonnull s (ptr_key "#0" 8);
                   c_key := key; c_no_echo := negb (Z.eqb (cell 291%nat) 0) |})
  | None => SErr "no parameter pack"
  end = SOk (Some (abs_pak p)).
Proof.
  intros p lng dl m fpv outv keyv fr l fs oa pe I. cbv zeta. unfold mk. cbn [mem ptrs].
  rewrite (i_res _ _ _ _ _ _ _ _ I). unfold res_obj. cbn [o_cells].
  rewrite res_cell_mode, res_cell_ct, res_cell_ht, res_cell_ne.
  rewrite (signed8_byte (ctype p)) by (destruct I; lia). rewrite (signed8_byte (htype p)) by (destruct I; lia).
  change (ptr_key "#0" 16) with "#0@16". change (ptr_key "#0" 8) with "#0@8". change (ptr_key "#0" 0) with "#0".
  unfold ptr_nonnull, pps. cbn [ptrs lget app String.eqb Ascii.eqb Bool.eqb].
  unfold abs_pak. do 2 f_equal.
  pose proof (i_fp _ _ _ _ _ _ _ _ I) as HF. pose proof (i_out _ _ _ _ _ _ _ _ I) as HO. pose proof (i_key _ _ _ _ _ _ _ _ I) as HK.
  unfold vrel, krel in *.
  assert (E1 : match fpv with VPtr _ _ => true | _ => false end = match fp p with Some _ => true | None => false end).
  { destruct (fp p); cbn [is_some] in HF; [destruct HF as (nm & ->)|subst fpv]; reflexivity. }
  assert (E2 : match outv with VPtr _ _ => true | _ => false end = out p).
  { destruct (out p); [destruct HO as (nm & ->)|subst outv]; reflexivity. }
  assert (E3 : match keyv with VPtr ko _ => get_bytes {| mem := m; loc := l; pre := ""; files := fs; ptrs := [("optarg", oa); ("#0", fpv); ("#0@8", outv); ("#0@16", keyv)] ++ pe; fresh := fr |} ko | _ => None end
               = option_map key_of (key p)).
  { destruct (key p) as [kid|]; [destruct HK as (j & -> & _ & Hm)|subst keyv; reflexivity].
    unfold get_bytes. cbn [mem]. rewrite Hm. unfold object_bytes, bytes_object. cbn [o_cells option_map]. rewrite map_to_of_N. reflexivity. }
  assert (E4 : negb (b2z (no_echo p) =? 0) = no_echo p) by (destruct (no_echo p); reflexivity).
  cbn [app] in E3. rewrite E1, E2, E3, E4. reflexivity.
Qed.

(* ---------------- the theorem ---------------- *)
Lemma SRC_cli_parse_proof : forall ts,
  Forall tok_ok ts ->
  src_cli_parse ts = SOk (option_map abs_pak (cli_parse ts)).
Proof.
  intros ts Hok. unfold src_cli_parse, src_get_v_opt, cli_parse.
  rewrite conc_len.
  unfold call. change (lget cli_prog "get_v_opt/2") with (Some Src_cli.f_get_v_opt_2).
  cbn [bind bind_params f_params Src_cli.f_get_v_opt_2].
  unfold cli_state. cbn [mem loc pre files ptrs fresh]. rewrite conc_D, conc_F.
  set (D := flat_map trec ts). set (dlf := fold_left dl_next ts false). set (F := flat_map tfop ts ++ [b2z dlf]).
  change {| mem := Src_base64.globals ++ [("fout", mk_object U8 128); ("fout_too_long", mk_object TBool 1); ("optind", {| o_ty := I32; o_cells := [1] |})];
            loc := [("argc", VInt 0); ("argv", VNull)]; pre := "";
            files := [("@getopt", {| cf_data := D; cf_pos := 0; cf_eof := false |}); ("@fopen", {| cf_data := F; cf_pos := 0; cf_eof := false |})];
            ptrs := [("optarg", VNull)]; fresh := 0 |} with (init_st D F).
  change (f_body Src_cli.f_get_v_opt_2) with gv_body.
  replace (2000 + 40 * List.length ts)%nat with (13 + S (1986 + 40 * List.length ts))%nat by lia.
  rewrite (exec_prefix_ok 13 gv_body _ _ _ (init_ok D F)).
  change (seq_drop 13 gv_body) with (SSeq gv_loop gv_post).
  pose proof (loop_ok ts pak0 false false m0 VNull VNull VNull 1 [] [] [b2z dlf] [] VNull [] (1986 + 40 * List.length ts)%nat Hok inv0 ltac:(lia)) as HL.
  cbv zeta in HL. cbn [app List.length] in HL. fold D in HL. fold F in HL. fold dlf in HL.
  destruct (parse_all pak0 ts) as [p|].
  - destruct HL as (lng' & m' & oa' & fpv' & outv' & keyv' & pe' & fr' & extra' & HL & I').
    pose proof (post_ok p lng' dlf m' fpv' outv' keyv' fr' extra' D (List.length D) (flat_map tfop ts) oa' pe' I') as HP.
    cbv zeta in HP. fold F in HP.
    destruct (post_checks p) as [p'|].
    + destruct HP as (m2 & fpv2 & outv2 & keyv2 & fr2 & l2 & fs2 & HP & I2).
      erewrite x_seq; [|exact HL|eapply exec_mono; [exact HP|lia]].
      cbn [bind of_res fst snd option_map].
      apply (read_back p' lng' dlf m2 fpv2 outv2 keyv2 fr2 [] fs2 oa' pe' I2).
    + destruct HP as (s' & HP).
      erewrite x_seq; [|exact HL|eapply exec_mono; [exact HP|lia]].
      reflexivity.
  - destruct HL as (s' & HL). erewrite x_seq_ret; [|exact HL]. reflexivity.
Qed.
Print Assumptions SRC_cli_parse_proof.

(* non-vacuity: a concrete token list satisfying the hypothesis, with the evaluated result *)
Example SRC_cli_parse_nonvacuous :
  let ts := [T_d; T_i false true (FWenc 3); T_k (KValid 3); T_o true; T_cmode 3; T_hmode 2; T_n] in
  Forall tok_ok ts /\
  src_cli_parse ts = SOk (Some {| c_mode := 100; c_ctype := 3; c_htype := 2; c_fp := true; c_out := true; c_key := Some (key_of 3); c_no_echo := true |}).
Proof. split; [repeat constructor; cbn; lia|vm_compute; reflexivity]. Qed.
