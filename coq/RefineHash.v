(* SRC_hash_string / SRC_hash_file: the translated hashmaster.cpp + hashbuffer.cpp + {sha1,md5,sha256}.cpp,
   run from the entry points of SrcRun.v, compute the model's getStringHash / getFileHash.
   Generic driver: RefineHashDriver.v; the three classes: RefineSha256.v, RefineSha1.v, RefineMd5.v. *)
From Coq Require Import ZArith NArith List String Bool Lia PeanoNat.
From Wencry Require Import Bytes HashModel HashProofs MiniC MiniCRun MiniCLemmas SrcRun RefineHashDefs RefineHashDriver
     RefineSha256 RefineSha1 RefineMd5.
From Wencry.Gen Require Src_sha256 Src_sha1 Src_md5 Src_hashmaster Src_hashbuffer.
Import ListNotations.
Local Open Scope string_scope.
Local Open Scope list_scope.
Local Open Scope Z_scope.

(* ------------------------------------------------------------------------------------ *)
(** * 1. Fuel: what the driver needs of the per-method fuel of each class                *)
(* ------------------------------------------------------------------------------------ *)
(* The entry points of SrcRun give length/64 + 2000; getFileHash_refines needs F + (length/64 + 3) + 23
   and getStringHash_refines F + length/64 + 5: so F + 26 <= 2000 suffices for both. *)
Lemma F_sha256hash_bound : (F_sha256hash + 26 <= 2000)%nat.
Proof. apply Nat.leb_le. vm_compute. reflexivity. Qed.
Lemma F_sha1hash_bound : (F_sha1hash + 26 <= 2000)%nat.
Proof. apply Nat.leb_le. vm_compute. reflexivity. Qed.
Lemma F_md5hash_bound : (F_md5hash + 26 <= 2000)%nat.
Proof. apply Nat.leb_le. vm_compute. reflexivity. Qed.

(* ------------------------------------------------------------------------------------ *)
(** * 2. Small facts                                                                     *)
(* ------------------------------------------------------------------------------------ *)
Lemma mget_app_l : forall g r k o, mget g k = Some o -> mget (g ++ r) k = Some o.
Proof.
  induction g as [|[k' o'] g IH]; intros r k o Hk; cbn [mget app] in *; [discriminate|].
  destruct (String.eqb k k'); [exact Hk|]. apply IH, Hk.
Qed.

Lemma map_to_of_N : forall l, map Z.to_N (map Z.of_N l) = l.
Proof. induction l as [|x l IH]; cbn [map]; [reflexivity|]. rewrite N2Z.id, IH. reflexivity. Qed.

(* the hasher state the freshly built (all-zero) object represents *)
Definition zero_st (n : nat) : hstate := {| hs_h := repeat 0%N n; hs_total := 0%N |}.

(* the zero-filled output object as model bytes *)
Lemma map_of_N_zeros : forall n, map Z.of_N (repeat 0%N n) = repeat 0 n.
Proof. induction n as [|n IH]; cbn [repeat map]; [reflexivity|]. rewrite IH. reflexivity. Qed.

Lemma bytes_at_zeros : forall m o (n : nat), mget m o = Some (mk_object U8 (Z.of_nat n)) -> bytes_at m o 0 (repeat 0%N n).
Proof.
  intros m o n Hm. exists (mk_object U8 (Z.of_nat n)). split; [exact Hm|]. split; [reflexivity|]. split; [lia|].
  unfold mk_object. cbn [o_cells]. rewrite Nat2Z.id. change (Z.to_nat 0) with 0%nat. cbn [skipn].
  rewrite repeat_length. split; [|rewrite repeat_length; lia].
  rewrite <- (repeat_length 0 n) at 1. rewrite firstn_all. symmetry. apply map_of_N_zeros.
Qed.

Lemma bytes_at_object : forall m o bs, mget m o = Some (bytes_object bs) -> bytes_at m o 0 bs.
Proof.
  intros m o bs Hm. exists (bytes_object bs). split; [exact Hm|]. split; [reflexivity|]. split; [lia|].
  unfold bytes_object. cbn [o_cells]. change (Z.to_nat 0) with 0%nat. cbn [skipn]. rewrite map_length.
  split; [|lia]. rewrite <- (map_length Z.of_N bs). apply firstn_all.
Qed.

(* reading the digest back out of the output object *)
Lemma out_bytes_of : forall s m0 o (n : nat) d,
  mget m0 o = Some (mk_object U8 (Z.of_nat n)) -> out_kept m0 (mem s) o 0 n ->
  bytes_at (mem s) o 0 d -> List.length d = n ->
  out_bytes s o = SOk d.
Proof.
  intros s m0 o n d Hm0 Hkept (ob & Hget & Hty & _ & Hcells & _) Hlen.
  destruct (Hkept _ _ Hm0 Hget) as (_ & Hl & _).
  unfold out_bytes, get_bytes. rewrite Hget. unfold object_bytes.
  change (Z.to_nat 0) with 0%nat in Hcells. cbn [skipn] in Hcells.
  unfold mk_object in Hl. cbn [o_cells] in Hl. rewrite repeat_length, Nat2Z.id in Hl.
  rewrite firstn_all2 in Hcells by lia. rewrite Hcells, map_to_of_N. reflexivity.
Qed.

(* ------------------------------------------------------------------------------------ *)
(** * 3. The two entry points, for any class satisfying the contract                     *)
(* ------------------------------------------------------------------------------------ *)
Section AnyClass.
Variable cls : string.
Variable a : halg.
Variable objs : list (string * ity * Z).
Variable globs : memory.
Variable F : nat.
Hypothesis Hspec : forall vt, lget vt "" = Some cls -> class_spec cls a objs globs vt F.
Hypothesis HF : (F + 26 <= 2000)%nat.
(* the digest has ha_hlen bytes *)
Hypothesis Hout_len : forall h, List.length h = List.length (ha_init a) -> List.length (ha_out a h) = ha_hlen a.

Lemma string_entry : forall m st0 msg,
  hasher_ok a objs globs st0 m ->
  mget m "msg" = Some (bytes_object msg) -> mget m "out" = Some (mk_object U8 (Z.of_nat (ha_hlen a))) ->
  bytesb msg = true -> (N.of_nat (List.length msg) < 2 ^ 32)%N ->
  of_res (call SrcRun.hash_prog [("", cls)] (List.length msg / 64 + 2000) "Hashmaster::getStringHash/3" ""
               [VPtr "msg" 0; VInt (zlen msg); VPtr "out" 0] (init_state m))
         (fun r => out_bytes (snd r) "out") = SOk (getStringHash a msg).
Proof.
  intros m st0 msg Hok Hmsg Hout Hbytes Hlen.
  assert (Hvt : lget [("", cls)] "" = Some cls) by reflexivity.
  destruct (getStringHash_refines cls a objs globs [("", cls)] F (Hspec _ Hvt) (init_state m) st0
              (List.length msg / 64 + 2000) "msg" 0 msg "out" 0 (repeat 0%N (ha_hlen a)))
    as (s' & stf & Ecall & Hd & Hokf & Hby & _ & _ & Hkept & _); try reflexivity; try assumption.
  - clear - HF. lia.
  - left. reflexivity.
  - apply bytes_at_object, Hmsg.
  - clear - Hlen. lia.
  - left. reflexivity.
  - apply bytes_at_zeros, Hout.
  - apply repeat_length.
  - change RefineHashDefs.hash_prog with SrcRun.hash_prog in Ecall. unfold zlen. rewrite Ecall. cbn [of_res snd].
    apply (out_bytes_of s' m "out" (ha_hlen a)); try assumption.
    rewrite <- Hd. apply Hout_len. destruct Hokf as (_ & _ & _ & Hl & _). exact Hl.
Qed.

Variable hbuf : nat.
Hypothesis Hh1 : (1 <= hbuf)%nat.
Hypothesis Hh2 : (N.of_nat (64 * hbuf) < 2 ^ 32)%N.
Hypothesis Hblock : In ("hashblock", U8, 64) objs.
Hypothesis Hglobs : forall k o, mget globs k = Some o -> is_prefix "buf." k = false /\ k <> "hashblock".

Lemma file_entry : forall m st0 block stream,
  hasher_ok a objs globs st0 m -> fb_shape hbuf m ->
  mget m "out" = Some (mk_object U8 (Z.of_nat (ha_hlen a))) ->
  (forall b, block = Some b -> mget m "blk" = Some (bytes_object b) /\ List.length b = 64%nat /\ bytesb b = true) ->
  bytesb stream = true ->
  let st := {| mem := m; loc := []; pre := ""; files := [("fp", {| cf_data := map Z.of_N stream; cf_pos := 0; cf_eof := false |})];
               ptrs := []; fresh := 0 |} in
  let vt := [("", cls); ("buf.", "filebuffer64")] in
  let fuel := (List.length stream / 64 + 2000)%nat in
  exists d, getFileHash hbuf a block stream = Some d /\
    of_res (call SrcRun.hash_prog vt fuel "filebuffer64::filebuffer64/3" "buf."
                 [VPtr "fp" 0; match block with Some _ => VPtr "blk" 0 | None => VNull end] st)
      (fun r1 => of_res (call SrcRun.hash_prog vt fuel "Hashmaster::getFileHash/3" "" [VPtr "buf." 0; VPtr "out" 0] (snd r1))
      (fun r2 => out_bytes (snd r2) "out")) = SOk d.
Proof.
  intros m st0 block stream Hok Hshape Hout Hblk Hbytes st vt fuel.
  assert (Hvt : lget vt "" = Some cls) by reflexivity.
  assert (Hh2' : Z.of_nat (64 * hbuf) < 2 ^ 32) by (clear - Hh2; lia).
  (* the model's loop terminates within its fuel *)
  assert (Hpre : match block with None => True | Some p => List.length p = 64%nat end).
  { destruct block as [b|]; [|exact I]. apply (Hblk b eq_refl). }
  pose proof (getFileHash_string hbuf a block stream Hh1 Hpre) as Hgf.
  unfold getFileHash in Hgf |- *.
  destruct (file_loop hbuf a (List.length stream / 64 + 3) (reset a) (fb_new hbuf block stream)) as [st'|] eqn:Hfl;
    [|discriminate]. cbn [option_map]. clear Hgf.
  exists (ha_out a (hs_h st')). split; [reflexivity|].
  (* constructor *)
  destruct (fb_ctor_refines vt "fp" hbuf Hh1 Hh2' fuel st (match block with Some _ => VPtr "blk" 0 | None => VNull end) block stream
              {| cf_data := map Z.of_N stream; cf_pos := 0; cf_eof := false |})
    as (s1 & Ector & Hwf1 & Hrep1 & Hfr1 & _ & Hsh1 & Hloc1 & Hpre1 & Hfresh1 & _ & _); try reflexivity; try assumption.
  { unfold fuel. clear. lia. }
  { destruct block as [b|]; cbn [blk_arg]; [|reflexivity]. destruct (Hblk b eq_refl) as (Hb1 & Hb2 & Hb3).
    exists "blk", 0. split; [reflexivity|]. split; [reflexivity|]. split; [apply bytes_at_object, Hb1|]. split; [lia|exact Hb3]. }
  change RefineHashDefs.hash_prog with SrcRun.hash_prog in Ector. rewrite Ector. cbn [of_res snd].
  (* getFileHash *)
  assert (Hok1 : hasher_ok a objs globs st0 (mem s1)).
  { apply (hok_read a objs globs Hglobs st0 m); [exact Hok| |exact Hsh1].
    intros k Hk. apply Hfr1. unfold fb_owned in Hk. apply orb_false_iff in Hk. apply Hk. }
  destruct (getFileHash_refines cls a objs globs vt F (Hspec _ Hvt) "fp" hbuf Hh1 Hh2' eq_refl Hblock Hglobs s1 st0 fuel
              (fb_new hbuf block stream) (List.length stream / 64 + 3)%nat st' "out" 0 (repeat 0%N (ha_hlen a)))
    as (s2 & Ecall & Hok2 & Hby2 & _ & _ & Hkept2 & _); try reflexivity; try assumption.
  { unfold fuel. clear - HF. lia. }
  { left. reflexivity. }
  { apply (bytes_at_frame (is_prefix "buf.") m); [exact Hfr1|reflexivity|]. apply bytes_at_zeros, Hout. }
  { apply repeat_length. }
  change RefineHashDefs.hash_prog with SrcRun.hash_prog in Ecall. rewrite Ecall. cbn [of_res snd].
  apply (out_bytes_of s2 (mem s1) "out" (ha_hlen a)); try assumption.
  - rewrite (Hfr1 "out" eq_refl). exact Hout.
  - apply Hout_len. destruct Hok2 as (_ & _ & _ & Hl & _). exact Hl.
Qed.
End AnyClass.

(* ------------------------------------------------------------------------------------ *)
(** * 4. The three classes                                                               *)
(* ------------------------------------------------------------------------------------ *)
Lemma out_len_sha256 : forall h, List.length h = List.length (ha_init alg_sha256) -> List.length (ha_out alg_sha256 h) = ha_hlen alg_sha256.
Proof. intros h Hh. change (ha_out alg_sha256) with (flat_map be32_bytes). rewrite flat_map_length4 by reflexivity. rewrite Hh. reflexivity. Qed.
Lemma out_len_sha1 : forall h, List.length h = List.length (ha_init alg_sha1) -> List.length (ha_out alg_sha1 h) = ha_hlen alg_sha1.
Proof. intros h Hh. change (ha_out alg_sha1) with (flat_map be32_bytes). rewrite flat_map_length4 by reflexivity. rewrite Hh. reflexivity. Qed.
Lemma out_len_md5 : forall h, List.length h = List.length (ha_init alg_md5) -> List.length (ha_out alg_md5 h) = ha_hlen alg_md5.
Proof. intros h Hh. change (ha_out alg_md5) with (flat_map le32_bytes). rewrite flat_map_length4 by reflexivity. rewrite Hh. reflexivity. Qed.

Lemma globs_sha256 : forall k o, mget Src_sha256.globals k = Some o -> is_prefix "buf." k = false /\ k <> "hashblock".
Proof.
  intros k o Hk. unfold Src_sha256.globals in Hk. cbn [mget] in Hk.
  destruct (String.eqb_spec k "k") as [->|]; [split; [reflexivity|discriminate]|discriminate].
Qed.
Lemma globs_sha1 : forall k o, mget Src_sha1.globals k = Some o -> is_prefix "buf." k = false /\ k <> "hashblock".
Proof. intros k o Hk. discriminate. Qed.
Lemma globs_md5 : forall k o, mget Src_md5.globals k = Some o -> is_prefix "buf." k = false /\ k <> "hashblock".
Proof. intros k o Hk. discriminate. Qed.

(* the all-zero object built by the entry points is a well-shaped hasher (in state zero_st) *)
Ltac scratch_tac Hin :=
  repeat (destruct Hin as [Hin|Hin];
          [inversion Hin; subst; eexists; split; [reflexivity|split; reflexivity]|]);
  destruct Hin.
Ltac init_ok objs_def :=
  split; [split; reflexivity|];
  split; [intros name t n Hin; unfold objs_def in Hin; cbn [In] in Hin; scratch_tac Hin|];
  split; [intros k o Hk; apply mget_app_l; exact Hk|];
  split; [reflexivity|];
  split; [cbn [zero_st hs_h repeat]; repeat (apply Forall_cons; [reflexivity|]); apply Forall_nil|reflexivity].

Lemma init_ok_sha256 : forall rest,
  hasher_ok alg_sha256 Src_sha256.objects_sha256hash Src_sha256.globals (zero_st 8)
    (Src_sha256.globals ++ mk_objects "" Src_sha256.objects_sha256hash ++ rest).
Proof. intro rest. init_ok Src_sha256.objects_sha256hash. Qed.
Lemma init_ok_sha1 : forall rest,
  hasher_ok alg_sha1 Src_sha1.objects_sha1hash Src_sha1.globals (zero_st 5)
    (Src_sha1.globals ++ mk_objects "" Src_sha1.objects_sha1hash ++ rest).
Proof. intro rest. init_ok Src_sha1.objects_sha1hash. Qed.
Lemma init_ok_md5 : forall rest,
  hasher_ok alg_md5 Src_md5.objects_md5hash Src_md5.globals (zero_st 4)
    (Src_md5.globals ++ mk_objects "" Src_md5.objects_md5hash ++ rest).
Proof. intro rest. init_ok Src_md5.objects_md5hash. Qed.

Lemma init_okf_sha256 : forall hb rest,
  hasher_ok alg_sha256 Src_sha256.objects_sha256hash Src_sha256.globals (zero_st 8)
    (Src_sha256.globals ++ [("HBUF_SZ", hb)] ++ mk_objects "" Src_sha256.objects_sha256hash ++ rest).
Proof. intros hb rest. init_ok Src_sha256.objects_sha256hash. Qed.
Lemma init_okf_sha1 : forall hb rest,
  hasher_ok alg_sha1 Src_sha1.objects_sha1hash Src_sha1.globals (zero_st 5)
    (Src_sha1.globals ++ [("HBUF_SZ", hb)] ++ mk_objects "" Src_sha1.objects_sha1hash ++ rest).
Proof. intros hb rest. init_ok Src_sha1.objects_sha1hash. Qed.
Lemma init_okf_md5 : forall hb rest,
  hasher_ok alg_md5 Src_md5.objects_md5hash Src_md5.globals (zero_st 4)
    (Src_md5.globals ++ [("HBUF_SZ", hb)] ++ mk_objects "" Src_md5.objects_md5hash ++ rest).
Proof. intros hb rest. init_ok Src_md5.objects_md5hash. Qed.

(* ------------------------------------------------------------------------------------ *)
(** * 5. SRC_hash_string                                                                 *)
(* ------------------------------------------------------------------------------------ *)
Lemma SRC_hash_string_proof : forall alg a msg,
  get_hasher alg = Some a -> bytesb msg = true -> (N.of_nat (List.length msg) < 2 ^ 32)%N ->
  src_hash_string alg msg = SOk (getStringHash a msg).
Proof.
  intros alg a msg Hg Hb Hl.
  destruct (get_hasher_cases _ _ Hg) as [[-> ->]|[[-> ->]|[-> ->]]]; unfold src_hash_string; cbn [hash_class]; cbv zeta.
  - apply (string_entry "sha1hash" alg_sha1 _ _ F_sha1hash sha1hash_class_spec F_sha1hash_bound out_len_sha1 _ (zero_st 5));
      [apply init_ok_sha1|reflexivity|reflexivity|exact Hb|exact Hl].
  - apply (string_entry "md5hash" alg_md5 _ _ F_md5hash md5hash_class_spec F_md5hash_bound out_len_md5 _ (zero_st 4));
      [apply init_ok_md5|reflexivity|reflexivity|exact Hb|exact Hl].
  - apply (string_entry "sha256hash" alg_sha256 _ _ F_sha256hash sha256hash_class_spec F_sha256hash_bound out_len_sha256 _ (zero_st 8));
      [apply init_ok_sha256|reflexivity|reflexivity|exact Hb|exact Hl].
Qed.

(* ------------------------------------------------------------------------------------ *)
(** * 6. SRC_hash_file                                                                   *)
(* ------------------------------------------------------------------------------------ *)
(* the zero-filled filebuffer64 object at "buf." and the constant HBUF_SZ have the declared shapes *)
Ltac shape_tac :=
  constructor;
  [ reflexivity
  | eexists; split; [reflexivity|]; cbn [o_cells mk_object]; rewrite repeat_length; lia
  | eexists; split; [reflexivity|]; reflexivity
  | eexists; reflexivity | eexists; reflexivity | eexists; reflexivity | eexists; reflexivity ].

Ltac file_tac cls a F spec bound outlen globs_ok initf n Hh1 Hh2 Hb Hblk :=
  apply (file_entry cls a _ _ F spec bound outlen _ Hh1 Hh2 ltac:(left; reflexivity) globs_ok _ (zero_st n));
  [ apply initf
  | shape_tac
  | reflexivity
  | intros b0 E; first [ discriminate E
                       | apply some_inj in E; subst b0; split; [reflexivity|apply Hblk; reflexivity] ]
  | exact Hb ].

Lemma SRC_hash_file_proof : forall hbuf alg a block stream,
  get_hasher alg = Some a -> (1 <= hbuf)%nat -> (N.of_nat (64 * hbuf) < 2 ^ 32)%N ->
  bytesb stream = true -> (N.of_nat (List.length stream) < 2 ^ 56)%N ->
  (forall b, block = Some b -> List.length b = 64%nat /\ bytesb b = true) ->
  exists d, getFileHash hbuf a block stream = Some d /\ src_hash_file hbuf alg block stream = SOk d.
Proof.
  intros hbuf alg a block stream Hg Hh1 Hh2 Hb _ Hblk.
  destruct (get_hasher_cases _ _ Hg) as [[-> ->]|[[-> ->]|[-> ->]]]; unfold src_hash_file; cbn [hash_class]; cbv zeta;
    destruct block as [blk|].
  - file_tac "sha1hash" alg_sha1 F_sha1hash sha1hash_class_spec F_sha1hash_bound out_len_sha1 globs_sha1 init_okf_sha1 5%nat Hh1 Hh2 Hb Hblk.
  - file_tac "sha1hash" alg_sha1 F_sha1hash sha1hash_class_spec F_sha1hash_bound out_len_sha1 globs_sha1 init_okf_sha1 5%nat Hh1 Hh2 Hb Hblk.
  - file_tac "md5hash" alg_md5 F_md5hash md5hash_class_spec F_md5hash_bound out_len_md5 globs_md5 init_okf_md5 4%nat Hh1 Hh2 Hb Hblk.
  - file_tac "md5hash" alg_md5 F_md5hash md5hash_class_spec F_md5hash_bound out_len_md5 globs_md5 init_okf_md5 4%nat Hh1 Hh2 Hb Hblk.
  - file_tac "sha256hash" alg_sha256 F_sha256hash sha256hash_class_spec F_sha256hash_bound out_len_sha256 globs_sha256 init_okf_sha256 8%nat Hh1 Hh2 Hb Hblk.
  - file_tac "sha256hash" alg_sha256 F_sha256hash sha256hash_class_spec F_sha256hash_bound out_len_sha256 globs_sha256 init_okf_sha256 8%nat Hh1 Hh2 Hb Hblk.
Qed.
