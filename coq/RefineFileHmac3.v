(* SRC_hmac / SRC_cmphmac: the entry points src_hmac / src_cmphmac of SrcRun2.v compute HashModel.hmac_model / cmphmac *)
From Coq Require Import ZArith NArith List String Bool Lia PeanoNat.
From Wencry Require Import Bytes HashModel HashProofs HmacProofs ModesProofs MiniC MiniCRun MiniCLemmas SrcRun SrcRun2 RefineHashDefs RefineHashDriver
     RefineSha256 RefineSha1 RefineMd5 RefineHash RefineFileBase RefineFileHmac RefineFileHmac2.
From Wencry.Gen Require Layout Src_sha256 Src_sha1 Src_md5 Src_hashmaster Src_hashbuffer Src_hashfactory Src_fheader Src_cry.
Import ListNotations.
Local Open Scope list_scope.
Local Open Scope string_scope.
Local Open Scope Z_scope.

(* ------------------------------------------------------------------------------------ *)
(** * 1. The three classes satisfy the hypotheses of getres, for any prefix with harmless names *)
(* ------------------------------------------------------------------------------------ *)
Lemma out_bytes_be : forall h, bytesb (flat_map be32_bytes h) = true.
Proof.
  induction h as [|x h IH]; [reflexivity|]. cbn [flat_map]. apply bytesb_app; [|exact IH].
  unfold be32_bytes, bytesb. cbn [forallb]. unfold byte_ok.
  rewrite !(proj2 (N.ltb_lt _ _)) by (apply N.mod_lt; discriminate). reflexivity.
Qed.
Lemma out_bytes_le : forall h, bytesb (flat_map le32_bytes h) = true.
Proof.
  induction h as [|x h IH]; [reflexivity|]. cbn [flat_map]. apply bytesb_app; [|exact IH].
  unfold le32_bytes, be32_bytes, bytesb. cbn [rev app forallb]. unfold byte_ok.
  rewrite !(proj2 (N.ltb_lt _ _)) by (apply N.mod_lt; discriminate). reflexivity.
Qed.

(* what the prefix of the hmac object has to satisfy *)
Record pfx_ok (pfx : string) : Prop := {
  po1 : file_owned (pfx ++ "length") = false;
  po2 : ~ In (pfx ++ "length") ["h"; "totalsize"; "hashblock"; "totalsize"; "h"; "w"; "s"; "k"];
  po3 : is_prefix "sizeof:" (pfx ++ "length") = false;
  po4 : "ipad" <> pfx ++ "length";
  po5 : "opad" <> pfx ++ "length";
  po6 : "HBUF_SZ" <> pfx ++ "length";
  pq1 : pfx ++ "hmac_res" <> "buf.fp";
  pq2 : pfx ++ "hmac_res" <> "class:buf.";
  pq3 : pfx ++ "buf" <> "buf.fp";
  pq4 : "alloc:filebuffer64" <> pfx ++ "hmac_res" }.

Lemma pfx_ok_hm : pfx_ok "hm.".
Proof. constructor; try reflexivity; try discriminate. cbn. intuition discriminate. Qed.
Lemma pfx_ok_rc : pfx_ok "rc.hmachandle.".
Proof. constructor; try reflexivity; try discriminate. cbn. intuition discriminate. Qed.

Ltac names_tac := repeat (apply Forall_cons; [repeat split; reflexivity|]); apply Forall_nil.

Lemma hctx_sha1 : forall hbuf pfx, (1 <= hbuf)%nat -> Z.of_nat (64 * hbuf) < 2 ^ 32 -> pfx_ok pfx ->
  hctx "sha1hash" alg_sha1 Src_sha1.objects_sha1hash Src_sha1.globals (file_vt 0) F_sha1hash 0 hbuf pfx.
Proof.
  intros hbuf pfx Hh1 Hh2 P. destruct P.
  constructor; try assumption; try reflexivity.
  - apply sha1hash_class_spec. reflexivity.
  - apply factory_sha1. apply sha1hash_class_spec. reflexivity.
  - cbn; auto.
  - apply globs_sha1.
  - unfold hasher_names. cbn [map fst Src_sha1.objects_sha1hash Src_sha1.globals app]. names_tac.
  - intros name t n Hin. in_objs Hin; reflexivity.
  - cbn. lia.
  - apply out_len_sha1.
  - apply out_bytes_be.
  - unfold hasher_names. cbn [map fst Src_sha1.objects_sha1hash Src_sha1.globals app]. cbn in po8 |- *. intuition.
Qed.
Lemma hctx_md5 : forall hbuf pfx, (1 <= hbuf)%nat -> Z.of_nat (64 * hbuf) < 2 ^ 32 -> pfx_ok pfx ->
  hctx "md5hash" alg_md5 Src_md5.objects_md5hash Src_md5.globals (file_vt 1) F_md5hash 1 hbuf pfx.
Proof.
  intros hbuf pfx Hh1 Hh2 P. destruct P.
  constructor; try assumption; try reflexivity.
  - apply md5hash_class_spec. reflexivity.
  - apply factory_md5. apply md5hash_class_spec. reflexivity.
  - cbn; auto.
  - apply globs_md5.
  - unfold hasher_names. cbn [map fst Src_md5.objects_md5hash Src_md5.globals app]. names_tac.
  - intros name t n Hin. in_objs Hin; reflexivity.
  - cbn. lia.
  - apply out_len_md5.
  - apply out_bytes_le.
  - unfold hasher_names. cbn [map fst Src_md5.objects_md5hash Src_md5.globals app]. cbn in po8 |- *. intuition.
Qed.
Lemma hctx_sha256 : forall hbuf pfx, (1 <= hbuf)%nat -> Z.of_nat (64 * hbuf) < 2 ^ 32 -> pfx_ok pfx ->
  hctx "sha256hash" alg_sha256 Src_sha256.objects_sha256hash Src_sha256.globals (file_vt 2) F_sha256hash 2 hbuf pfx.
Proof.
  intros hbuf pfx Hh1 Hh2 P. destruct P.
  constructor; try assumption; try reflexivity.
  - apply sha256hash_class_spec. reflexivity.
  - apply factory_sha256. apply sha256hash_class_spec. reflexivity.
  - cbn; auto.
  - apply globs_sha256.
  - unfold hasher_names, Src_sha256.globals. cbn [map fst Src_sha256.objects_sha256hash app]. names_tac.
  - intros name t n Hin. in_objs Hin; reflexivity.
  - cbn. lia.
  - apply out_len_sha256.
  - apply out_bytes_be.
Qed.

(* ------------------------------------------------------------------------------------ *)
(** * 2. The initial states of src_hmac / src_cmphmac                                    *)
(* ------------------------------------------------------------------------------------ *)
Definition hm_mem (hbuf : nat) (key : list N) (oname : string) (oobj : object) : memory :=
  (file_globals hbuf ++ mk_objects "hm." Src_fheader.objects_hmac ++ [("key", bytes_object key); (oname, oobj)])%list.

Ltac spine_none k Hk :=
  repeat match goal with
         | |- context [String.eqb k ?x] => destruct (String.eqb_spec k x) as [->|_]; [first [discriminate Hk | exfalso; apply Hk; reflexivity]|]
         end; reflexivity.

Lemma hm_mem_nosz : forall hbuf key oname oobj, is_prefix "sizeof:" oname = false -> no_sizeof (hm_mem hbuf key oname oobj).
Proof.
  intros hbuf key oname oobj Ho k Hk Hne. unfold hm_mem.
  cbn [file_globals Src_sha1.globals Src_md5.globals Src_sha256.globals app mk_objects map Src_fheader.objects_hmac mget append].
  repeat match goal with
         | |- context [String.eqb k ?x] => destruct (String.eqb_spec k x) as [->|_]; [first [discriminate Hk | exfalso; apply Hne; reflexivity | rewrite Ho in Hk; discriminate Hk]|]
         end. reflexivity.
Qed.
Lemma hm_mem_nobuf : forall hbuf key oname oobj, is_prefix "buf." oname = false ->
  forall k, is_prefix "buf." k = true -> mget (hm_mem hbuf key oname oobj) k = None.
Proof.
  intros hbuf key oname oobj Ho k Hk. unfold hm_mem.
  cbn [file_globals Src_sha1.globals Src_md5.globals Src_sha256.globals app mk_objects map Src_fheader.objects_hmac mget append].
  repeat match goal with
         | |- context [String.eqb k ?x] => destruct (String.eqb_spec k x) as [->|_]; [first [discriminate Hk | rewrite Ho in Hk; discriminate Hk]|]
         end. reflexivity.
Qed.

Lemma globals_ok_file : forall hbuf rest globs, (globs = Src_sha1.globals \/ globs = Src_md5.globals \/ globs = Src_sha256.globals) ->
  globals_ok globs (file_globals hbuf ++ rest)%list.
Proof.
  intros hbuf rest globs Hg k o Hk. destruct Hg as [E|[E|E]]; subst globs; try discriminate Hk.
  unfold file_globals. cbn [Src_sha1.globals Src_md5.globals app]. rewrite <- app_assoc. apply mget_app_l. exact Hk.
Qed.

Definition five : list string := ["hashblock"; "totalsize"; "h"; "w"; "s"].

Lemma loop_total_g : forall hbuf hm a key strm, (1 <= hbuf)%nat -> get_hasher hm = Some a -> block16 key ->
  exists st', file_loop hbuf a (List.length strm / 64 + 3) (reset a) (fb_new hbuf (Some (map (fun x => N.lxor x 54) (key1_of key))) strm) = Some st' /\
    hmac_model hbuf hm key strm = Some (tag_of a key st').
Proof.
  intros hbuf hm a key strm Hh1 Hgh [Hk16 Hkb].
  set (h1b := map (fun x => N.lxor x 54%N) (key1_of key)).
  assert (Hl : match Some h1b with None => True | Some p => List.length p = 64%nat end).
  { unfold h1b. rewrite map_length. apply key1_len. lia. }
  pose proof (getFileHash_string hbuf a (Some h1b) strm Hh1 Hl) as Hgf.
  unfold getFileHash in Hgf.
  destruct (file_loop hbuf a (List.length strm / 64 + 3) (reset a) (fb_new hbuf (Some h1b) strm)) as [st'|] eqn:Hfl; [|discriminate].
  exists st'. split; [reflexivity|].
  unfold hmac_model. rewrite Hgh. unfold getFileHash. change Layout.hmac_ipad with 54%N. change Layout.hmac_opad with 92%N.
  change (firstn 16 key ++ zeros 48)%list with (key1_of key). fold h1b. rewrite Hfl. reflexivity.
Qed.

Section AnyClass.
Variable cls : string.
Variable a : halg.
Variable objs : list (string * ity * Z).
Variable globs : memory.
Variable F : nat.
Variable hm : N.
Variable hbuf : nat.
Hypothesis C : hctx cls a objs globs (file_vt hm) F (Z.of_N hm) hbuf "hm.".
Hypothesis Hgh : get_hasher hm = Some a.
Hypothesis HF : (F + 26 <= 2000)%nat.
Hypothesis Hfive : forall name t n, In (name, t, n) objs -> In name five.
Hypothesis Hgl : forall rest, globals_ok globs (file_globals hbuf ++ rest)%list.
Hypothesis Hal : lget alloc_plan ("alloc:" ++ cls) = Some (VPtr "" 0).

Lemma gpre_hm : forall key data pos oname oobj,
  block16 key -> bytesb data = true ->
  is_prefix "sizeof:" oname = false -> is_prefix "buf." oname = false -> ~ In oname five -> oname <> "hm.length" -> oname <> "key" ->
  (forall k, In k ["sizeof:filebuffer64.b"; "HBUF_SZ"; "ipad"; "opad"] -> oname <> k) ->
  gpre cls objs globs hbuf "hm." "fp" (hm_mem hbuf key oname oobj) alloc_plan [("fp", stream data pos)] "key" key (stream data pos) (skipn pos data).
Proof.
  intros key data pos oname oobj [Hk16 Hkb] Hdb Ho1 Ho2 Ho3 Ho4 Ho5 Ho6.
  assert (Hget : forall k o, k <> oname -> mget (file_globals hbuf ++ mk_objects "hm." Src_fheader.objects_hmac ++ [("key", bytes_object key)])%list k = Some o ->
                              mget (hm_mem hbuf key oname oobj) k = Some o).
  { intros k o Hne Hk. unfold hm_mem. change [("key", bytes_object key); (oname, oobj)] with ([("key", bytes_object key)] ++ [(oname, oobj)])%list.
    rewrite !app_assoc. apply mget_app_l. rewrite <- !app_assoc. exact Hk. }
  constructor.
  - exact Hal.
  - reflexivity.
  - apply hm_mem_nosz, Ho1.
  - apply Hget; [apply not_eq_sym, Ho6; cbn; auto|reflexivity].
  - apply Hget; [apply not_eq_sym, Ho6; cbn; auto|reflexivity].
  - apply Hget; [apply not_eq_sym, Ho6; cbn; auto|reflexivity].
  - apply Hget; [apply not_eq_sym, Ho6; cbn; auto|reflexivity].
  - apply Hgl.
  - intros name t n Hin. apply Hfive in Hin. unfold hm_mem.
    cbn [file_globals Src_sha1.globals Src_md5.globals Src_sha256.globals app mk_objects map Src_fheader.objects_hmac mget append].
    assert (E : String.eqb name oname = false) by (apply String.eqb_neq; intro E; subst; contradiction).
    cbn [five In] in Hin. repeat (destruct Hin as [<-|Hin]; [rewrite E; reflexivity|]). destruct Hin.
  - apply hm_mem_nobuf, Ho2.
  - eexists. apply Hget; [apply not_eq_sym, Ho4|reflexivity].
  - apply Hget; [apply not_eq_sym, Ho5|reflexivity].
  - lia.
  - exact Hkb.
  - reflexivity.
  - discriminate.
  - reflexivity.
  - unfold stream. cbn [cf_pos cf_data]. apply skipn_map.
  - apply bytesb_skipn, Hdb.
Qed.

Lemma loop_total : forall key strm, block16 key ->
  exists st', file_loop hbuf a (List.length strm / 64 + 3) (reset a) (fb_new hbuf (Some (map (fun x => N.lxor x 54) (key1_of key))) strm) = Some st' /\
    hmac_model hbuf hm key strm = Some (tag_of a key st').
Proof.
  intros key strm [Hk16 Hkb].
  set (h1b := map (fun x => N.lxor x 54%N) (key1_of key)).
  assert (Hl : match Some h1b with None => True | Some p => List.length p = 64%nat end).
  { unfold h1b. rewrite map_length. apply key1_len. lia. }
  pose proof (getFileHash_string hbuf a (Some h1b) strm (hc_h1 _ _ _ _ _ _ _ _ _ C) Hl) as Hgf.
  unfold getFileHash in Hgf.
  destruct (file_loop hbuf a (List.length strm / 64 + 3) (reset a) (fb_new hbuf (Some h1b) strm)) as [st'|] eqn:Hfl; [|discriminate].
  exists st'. split; [reflexivity|].
  unfold hmac_model. rewrite Hgh. unfold getFileHash. change Layout.hmac_ipad with 54%N. change Layout.hmac_opad with 92%N.
  change (firstn 16 key ++ zeros 48)%list with (key1_of key). fold h1b. rewrite Hfl. reflexivity.
Qed.

Lemma map_to_of_N' : forall l, map Z.to_N (map Z.of_N l) = l.
Proof. induction l as [|x l IH]; cbn [map]; [reflexivity|]. rewrite N2Z.id, IH. reflexivity. Qed.

Lemma src_hmac_any : forall key data pos,
  block16 key -> bytesb data = true -> (pos <= List.length data)%nat ->
  exists tag, hmac_model hbuf hm key (skipn pos data) = Some tag /\ src_hmac hbuf hm key data pos = SOk tag.
Proof.
  intros key data pos Hk Hdb Hpos.
  destruct (loop_total key (skipn pos data) Hk) as (st' & Hfl & Hmodel).
  exists (tag_of a key st'). split; [exact Hmodel|].
  unfold src_hmac. cbv zeta. fold (hm_mem hbuf key "out" (mk_object U8 64)).
  assert (Hdiv : (List.length (skipn pos data) / 64 <= List.length data / 64)%nat).
  { apply Nat.div_le_mono; [lia|]. rewrite skipn_length. lia. }
  destruct (gethmac_refines cls a objs globs (file_vt hm) F (Z.of_N hm) hbuf "hm." C "fp" (List.length data / 64 + 3000)%nat
              (hm_mem hbuf key "out" (mk_object U8 64)) [] "" [("fp", stream data pos)] alloc_plan 0%nat "key" key 0 (stream data pos) (skipn pos data)
              (List.length (skipn pos data) / 64 + 3)%nat st' "out" (repeat 0 (Z.to_nat 64)))
    as (s' & Ec & Hout & Hlen & Htl).
  - lia.
  - apply gpre_hm; try assumption; try reflexivity; try discriminate.
    + cbn. intuition discriminate.
    + intros k Hin. cbn in Hin. intuition (subst; discriminate).
  - exact Hfl.
  - unfold hm_mem. cbn [file_globals Src_sha1.globals Src_md5.globals Src_sha256.globals app mk_objects map Src_fheader.objects_hmac mget append]. reflexivity.
  - rewrite repeat_length. pose proof (hc_hlen _ _ _ _ _ _ _ _ _ C). lia.
  - reflexivity.
  - discriminate.
  - rewrite Ec. cbn [of_res snd]. unfold get_bytes. rewrite Hout. change ("hm." ++ "length") with "hm.length" in Hlen. rewrite Hlen.
    cbn [o_cells cell1 nth]. rewrite Nat2Z.id. f_equal. unfold object_bytes. cbn [o_cells].
    rewrite map_app, map_to_of_N'. rewrite firstn_app, Htl, Nat.sub_diag. cbn [firstn]. rewrite app_nil_r.
    rewrite <- Htl. apply firstn_all.
Qed.

Lemma src_cmphmac_any : forall key data pos stored,
  block16 key -> bytesb data = true -> (pos <= List.length data)%nat -> List.length stored = 64%nat -> bytesb stored = true ->
  exists tag, hmac_model hbuf hm key (skipn pos data) = Some tag /\
              src_cmphmac hbuf hm key data pos stored = SOk (cmphmac tag stored).
Proof.
  intros key data pos stored Hk Hdb Hpos Hsl Hsb.
  destruct (loop_total key (skipn pos data) Hk) as (st' & Hfl & Hmodel).
  exists (tag_of a key st'). split; [exact Hmodel|].
  unfold src_cmphmac. cbv zeta. fold (hm_mem hbuf key "stored" (bytes_object stored)).
  assert (Hdiv : (List.length (skipn pos data) / 64 <= List.length data / 64)%nat).
  { apply Nat.div_le_mono; [lia|]. rewrite skipn_length. lia. }
  destruct (cmphmac_refines cls a objs globs (file_vt hm) F (Z.of_N hm) hbuf "hm." C "fp" (List.length data / 64 + 3000)%nat
              (hm_mem hbuf key "stored" (bytes_object stored)) [] "" [("fp", stream data pos)] alloc_plan 0%nat "key" key 0 (stream data pos) (skipn pos data)
              (List.length (skipn pos data) / 64 + 3)%nat st' "stored" stored)
    as (s' & Ec & _).
  - lia.
  - apply gpre_hm; try assumption; try reflexivity; try discriminate.
    + cbn. intuition discriminate.
    + intros k Hin. cbn in Hin. intuition (subst; discriminate).
  - exact Hfl.
  - unfold hm_mem. cbn [file_globals Src_sha1.globals Src_md5.globals Src_sha256.globals app mk_objects map Src_fheader.objects_hmac mget append]. reflexivity.
  - pose proof (hc_hlen _ _ _ _ _ _ _ _ _ C). lia.
  - exact Hsb.
  - reflexivity.
  - discriminate.
  - rewrite Ec. cbn [of_res fst]. destruct (cmphmac (tag_of a key st') stored); reflexivity.
Qed.
End AnyClass.

(* ------------------------------------------------------------------------------------ *)
(** * 3. SRC_hmac, SRC_cmphmac                                                            *)
(* ------------------------------------------------------------------------------------ *)
Lemma five_sha1 : forall name t n, In (name, t, n) Src_sha1.objects_sha1hash -> In name five.
Proof. intros name t n Hin. in_objs Hin; cbn; auto 10. Qed.
Lemma five_md5 : forall name t n, In (name, t, n) Src_md5.objects_md5hash -> In name five.
Proof. intros name t n Hin. in_objs Hin; cbn; auto 10. Qed.
Lemma five_sha256 : forall name t n, In (name, t, n) Src_sha256.objects_sha256hash -> In name five.
Proof. intros name t n Hin. in_objs Hin; cbn; auto 10. Qed.

Lemma SRC_hmac_proof : forall hbuf hm a key data pos,
  get_hasher hm = Some a -> (1 <= hbuf)%nat -> (N.of_nat (64 * hbuf) < 2 ^ 32)%N ->
  block16 key -> bytesb data = true -> (pos <= List.length data)%nat -> (N.of_nat (List.length data) < 2 ^ 56)%N ->
  exists tag, hmac_model hbuf hm key (skipn pos data) = Some tag /\ src_hmac hbuf hm key data pos = SOk tag.
Proof.
  intros hbuf hm a key data pos Hg Hh1 Hh2 Hk Hdb Hpos _.
  assert (Hh2' : Z.of_nat (64 * hbuf) < 2 ^ 32) by lia.
  destruct (get_hasher_cases _ _ Hg) as [[-> ->]|[[-> ->]|[-> ->]]].
  - apply (src_hmac_any "sha1hash" alg_sha1 _ _ F_sha1hash 0%N hbuf (hctx_sha1 hbuf "hm." Hh1 Hh2' pfx_ok_hm) eq_refl F_sha1hash_bound five_sha1
             (fun rest => globals_ok_file hbuf rest _ (or_introl eq_refl)) eq_refl); assumption.
  - apply (src_hmac_any "md5hash" alg_md5 _ _ F_md5hash 1%N hbuf (hctx_md5 hbuf "hm." Hh1 Hh2' pfx_ok_hm) eq_refl F_md5hash_bound five_md5
             (fun rest => globals_ok_file hbuf rest _ (or_intror (or_introl eq_refl))) eq_refl); assumption.
  - apply (src_hmac_any "sha256hash" alg_sha256 _ _ F_sha256hash 2%N hbuf (hctx_sha256 hbuf "hm." Hh1 Hh2' pfx_ok_hm) eq_refl F_sha256hash_bound five_sha256
             (fun rest => globals_ok_file hbuf rest _ (or_intror (or_intror eq_refl))) eq_refl); assumption.
Qed.

Lemma SRC_cmphmac_proof : forall hbuf hm a key data pos stored,
  get_hasher hm = Some a -> (1 <= hbuf)%nat -> (N.of_nat (64 * hbuf) < 2 ^ 32)%N ->
  block16 key -> bytesb data = true -> (pos <= List.length data)%nat -> (N.of_nat (List.length data) < 2 ^ 56)%N ->
  List.length stored = 64%nat -> bytesb stored = true ->
  exists tag, hmac_model hbuf hm key (skipn pos data) = Some tag /\
              src_cmphmac hbuf hm key data pos stored = SOk (cmphmac tag stored).
Proof.
  intros hbuf hm a key data pos stored Hg Hh1 Hh2 Hk Hdb Hpos _ Hsl Hsb.
  assert (Hh2' : Z.of_nat (64 * hbuf) < 2 ^ 32) by lia.
  destruct (get_hasher_cases _ _ Hg) as [[-> ->]|[[-> ->]|[-> ->]]].
  - apply (src_cmphmac_any "sha1hash" alg_sha1 _ _ F_sha1hash 0%N hbuf (hctx_sha1 hbuf "hm." Hh1 Hh2' pfx_ok_hm) eq_refl F_sha1hash_bound five_sha1
             (fun rest => globals_ok_file hbuf rest _ (or_introl eq_refl)) eq_refl); assumption.
  - apply (src_cmphmac_any "md5hash" alg_md5 _ _ F_md5hash 1%N hbuf (hctx_md5 hbuf "hm." Hh1 Hh2' pfx_ok_hm) eq_refl F_md5hash_bound five_md5
             (fun rest => globals_ok_file hbuf rest _ (or_intror (or_introl eq_refl))) eq_refl); assumption.
  - apply (src_cmphmac_any "sha256hash" alg_sha256 _ _ F_sha256hash 2%N hbuf (hctx_sha256 hbuf "hm." Hh1 Hh2' pfx_ok_hm) eq_refl F_sha256hash_bound five_sha256
             (fun rest => globals_ok_file hbuf rest _ (or_intror (or_intror eq_refl))) eq_refl); assumption.
Qed.
Print Assumptions SRC_hmac_proof.
Print Assumptions SRC_cmphmac_proof.
