(* Expressions, stores, memcpy/memset, fread and calls under the relation of RefineE2EfXRel.v *)
From Coq Require Import ZArith NArith List String Bool Lia Ascii Arith.
From Wencry Require Import MiniC MiniCLemmas RefineE2EfXNames RefineE2EfXRel.
Import ListNotations.
Local Open Scope list_scope.
Local Open Scope string_scope.

(* u = true: code that may run on the hasher object (prefix ""): only the hasher's members *)
Fixpoint oke (u : bool) (e : expr) : bool :=
  match e with
  | EConst _ | EVar _ | ENull | ELocalArr _ => true
  | EGlobal g => ordb g
  | EField f => if u then inb f five else true
  | ELoad _ p => oke u p
  | EPtrAdd p _ i => oke u p && oke u i
  | EUn _ _ a => oke u a
  | EBin _ _ a b => oke u a && oke u b
  | ECast _ a => oke u a
  | ECond c a b => oke u c && oke u a && oke u b
  | EAnd a b | EOr a b => oke u a && oke u b
  | EIsNull p => oke u p
  | EPtrVar p => oke u p
  | EPtrEq _ _ | EPtrCell _ | EElem _ _ => false
  end.

Tactic Notation "bo" hyp(H) "as" ident(a) ident(E) := apply bind_Ok in H; destruct H as [a [E H]].

Section Eval.
Variable cls0 : string.
Variable E : list string.
Notation Rel := (Rel cls0 E).

Section WithStates.
Variable W : world.
Variables s S : state.
Hypothesis R : Rel W s S.
Variable u : bool.
Hypothesis Hu : pre s = "" -> u = true.

Lemma eval_sim : forall e v, oke u e = true -> eval s e = Ok v -> eval S e = Ok (rv W v) /\ gv W v.
Proof.
  induction e; intros v K H; cbn [oke] in K; try discriminate K; cbn [eval] in H |- *.
  - injection H as <-. split; [reflexivity|exact I].
  - destruct (lget (loc s) x) as [w|] eqn:Ex; [|discriminate]. injection H as <-.
    rewrite (r_loc _ _ _ _ _ R), lget_lmap, Ex. split; [reflexivity|]. eapply gl_lget; [apply (r_gl _ _ _ _ _ R)|exact Ex].
  - injection H as <-. cbn [rv gv]. rewrite tau_ord by exact K. split; [reflexivity|left; exact K].
  - injection H as <-. cbn [rv gv]. rewrite (r_pre _ _ _ _ _ R).
    destruct (coh W (pre s) f (r_preok _ _ _ _ _ R)) as [A B].
    { intro E0. rewrite (Hu E0) in K. apply inb_In, K. }
    rewrite A. auto.
  - injection H as <-. cbn [rv gv]. rewrite tau_ord by reflexivity. split; [reflexivity|left; reflexivity].
  - bo H as v1 E1. destruct (IHe v1 K E1) as [A G]. rewrite A. cbn [bind].
    destruct v1 as [z|o off|]; try discriminate H. cbn [rv]. cbn [gv] in G.
    destruct (mget (mem s) o) as [ob|] eqn:Eo; [|discriminate]. destruct (rel_mget _ _ W s S o ob R Eo) as [_ Eo']. rewrite Eo'.
    bo H as z1 E2. rewrite E2. cbn [bind]. injection H as <-. split; [reflexivity|exact I].
  - apply andb_prop in K. destruct K as [K1 K2]. bo H as v1 E1. destruct (IHe1 v1 K1 E1) as [A G]. rewrite A. cbn [bind].
    bo H as v2 E2. destruct (IHe2 v2 K2 E2) as [A2 G2]. rewrite A2. cbn [bind]. rewrite as_int_rv. bo H as z2 E3. rewrite E3. cbn [bind].
    destruct v1 as [z|o off|]; try discriminate H. injection H as <-. cbn [rv gv] in *. auto.
  - bo H as v1 E1. destruct (IHe v1 K E1) as [A G]. rewrite A. cbn [bind]. rewrite as_int_rv. bo H as z1 E2. rewrite E2. cbn [bind].
    bo H as z2 E3. rewrite E3. cbn [bind]. injection H as <-. split; [reflexivity|exact I].
  - apply andb_prop in K. destruct K as [K1 K2]. bo H as v1 E1. destruct (IHe1 v1 K1 E1) as [A G]. rewrite A. cbn [bind]. rewrite as_int_rv.
    bo H as z1 E2. rewrite E2. cbn [bind]. bo H as v2 E3. destruct (IHe2 v2 K2 E3) as [A2 G2]. rewrite A2. cbn [bind]. rewrite as_int_rv.
    bo H as z2 E4. rewrite E4. cbn [bind]. bo H as z3 E5. rewrite E5. cbn [bind]. injection H as <-. split; [reflexivity|exact I].
  - bo H as v1 E1. destruct (IHe v1 K E1) as [A G]. rewrite A. cbn [bind]. rewrite as_int_rv. bo H as z1 E2. rewrite E2. cbn [bind].
    injection H as <-. split; [reflexivity|exact I].
  - apply andb_prop in K. destruct K as [K K3]. apply andb_prop in K. destruct K as [K1 K2].
    bo H as v1 E1. destruct (IHe1 v1 K1 E1) as [A G]. rewrite A. cbn [bind]. rewrite as_int_rv. bo H as z1 E2. rewrite E2. cbn [bind].
    destruct (z1 =? 0)%Z; auto.
  - apply andb_prop in K. destruct K as [K1 K2]. bo H as v1 E1. destruct (IHe1 v1 K1 E1) as [A G]. rewrite A. cbn [bind]. rewrite as_int_rv.
    bo H as z1 E2. rewrite E2. cbn [bind]. destruct (z1 =? 0)%Z; [injection H as <-; split; [reflexivity|exact I]|].
    bo H as v2 E3. destruct (IHe2 v2 K2 E3) as [A2 G2]. rewrite A2. cbn [bind]. rewrite as_int_rv. bo H as z2 E4. rewrite E4. cbn [bind].
    injection H as <-. split; [reflexivity|exact I].
  - apply andb_prop in K. destruct K as [K1 K2]. bo H as v1 E1. destruct (IHe1 v1 K1 E1) as [A G]. rewrite A. cbn [bind]. rewrite as_int_rv.
    bo H as z1 E2. rewrite E2. cbn [bind]. destruct (z1 =? 0)%Z; [|injection H as <-; split; [reflexivity|exact I]].
    bo H as v2 E3. destruct (IHe2 v2 K2 E3) as [A2 G2]. rewrite A2. cbn [bind]. rewrite as_int_rv. bo H as z2 E4. rewrite E4. cbn [bind].
    injection H as <-. split; [reflexivity|exact I].
  - bo H as v1 E1. destruct (IHe v1 K E1) as [A G]. rewrite A. cbn [bind].
    destruct v1 as [z|o off|]; try discriminate H; injection H as <-; split; try reflexivity; exact I.
  - injection H as <-. split; [reflexivity|exact I].
  - bo H as v1 E1. destruct (IHe v1 K E1) as [A G]. rewrite A. cbn [bind].
    destruct v1 as [z|o off|]; try discriminate H. cbn [rv]. cbn [gv] in G.
    destruct (lget (ptrs s) o) as [pv|] eqn:Eo; [|discriminate]. injection H as <-.
    rewrite (r_ptrs _ _ _ _ _ R o G), Eo. cbn [option_map]. split; [reflexivity|].
    destruct (r_ptrsnm _ _ _ _ _ R o pv Eo) as [[_ G2]|[(r & c & -> & _)|[[-> _]|[-> _]]]]; [exact G2| | |]; exfalso.
    + eapply nm_not_class; [exact G|reflexivity].
    + eapply nm_not_alloc; [exact G|reflexivity].
    + eapply (nm_not_alloc W _ "filebuffer64"); [exact G|reflexivity].
Qed.

Lemma eval_list_sim : forall es vs, forallb (oke u) es = true -> eval_list s es = Ok vs ->
  eval_list S es = Ok (map (rv W) vs) /\ Forall (gv W) vs.
Proof.
  induction es as [|e es IH]; intros vs K H; cbn [eval_list] in H |- *.
  - injection H as <-. split; [reflexivity|constructor].
  - cbn [forallb] in K. apply andb_prop in K. destruct K as [K1 K2]. bo H as v1 E1. destruct (eval_sim e v1 K1 E1) as [A G]. rewrite A. cbn [bind].
    bo H as vs1 E2. destruct (IH vs1 K2 E2) as [A2 G2]. rewrite A2. cbn [bind]. injection H as <-. split; [reflexivity|constructor; assumption].
Qed.
End WithStates.

Lemma bind_params_sim : forall W ps vs l, bind_params ps vs = Ok l -> Forall (gv W) vs ->
  bind_params ps (map (rv W) vs) = Ok (lmap W l) /\ gl W l.
Proof.
  induction ps as [|p ps IH]; intros [|v vs] l H G; cbn [bind_params map] in H |- *; try discriminate.
  - injection H as <-. split; [reflexivity|constructor].
  - bo H as l1 E1. inversion G as [|? ? Gv Gvs]; subst. destruct (IH vs l1 E1 Gvs) as [A B]. rewrite A. cbn [bind]. injection H as <-. split; [reflexivity|].
    constructor; assumption.
Qed.

(* entering a method, and coming back *)
Lemma rel_enter : forall W s S pfx l, Rel W s S -> preok W pfx -> gl W l ->
  Rel W {| mem := mem s; loc := l; pre := pfx; files := files s; ptrs := ptrs s; fresh := fresh s |}
        {| mem := mem S; loc := lmap W l; pre := tau W pfx; files := files S; ptrs := ptrs S; fresh := fresh S |}.
Proof.
  intros W s S pfx l R Hp Hl. destruct R as [q1 q2 q3 q4 q5 q6 q7 q8 q9 q10 q11 q12 q13 q14 q15 q16 q17 q18 q19 q20].
  constructor; cbn [mem loc pre files ptrs fresh]; auto.
Qed.
Lemma rel_back : forall W W1 s S s1 S1, Rel W s S -> ext W W1 -> Rel W1 s1 S1 ->
  Rel W1 {| mem := mem s1; loc := loc s; pre := pre s; files := files s1; ptrs := ptrs s1; fresh := fresh s1 |}
         {| mem := mem S1; loc := loc S; pre := pre S; files := files S1; ptrs := ptrs S1; fresh := fresh S1 |}.
Proof.
  intros W W1 s S s1 S1 R X R1. destruct R1 as [q1 q2 q3 q4 q5 q6 q7 q8 q9 q10 q11 q12 q13 q14 q15 q16 q17 q18 q19 q20].
  constructor; cbn [mem loc pre files ptrs fresh]; auto.
  - rewrite (r_pre _ _ _ _ _ R). symmetry. apply (nm_mono W W1 _ X). apply preok_nm, (r_preok _ _ _ _ _ R).
  - eapply preok_mono; [exact X|apply (r_preok _ _ _ _ _ R)].
  - rewrite (r_loc _ _ _ _ _ R). symmetry. apply (gl_mono W W1 _ X (r_gl _ _ _ _ _ R)).
  - apply (gl_mono W W1 _ X (r_gl _ _ _ _ _ R)).
Qed.

Lemma set_ret_sim : forall W s S ret v s2, Rel W s S -> set_ret s ret v = Ok s2 -> (forall w, v = Some w -> gv W w) ->
  exists S2, set_ret S ret (option_map (rv W) v) = Ok S2 /\ Rel W s2 S2 /\ pre s2 = pre s.
Proof.
  intros W s S ret v s2 R H G. unfold set_ret in *. destruct ret as [x|].
  - destruct v as [w|]; [|discriminate]. injection H as <-. cbn [option_map]. eexists. split; [reflexivity|]. split; [|reflexivity].
    rewrite (r_loc _ _ _ _ _ R), <- lset_lmap. apply rel_loc; [exact R|]. apply gl_lset; [apply (r_gl _ _ _ _ _ R)|apply G; reflexivity].
  - injection H as <-. eexists. split; [reflexivity|]. split; [exact R|reflexivity].
Qed.

(* ---------------- stores ---------------- *)
Lemma store_sim : forall W s S o ob ob', Rel W s S -> mget (mem s) o = Some ob ->
  mget (mem S) (tau W o) = Some ob /\ Rel W (with_mem s (mset (mem s) o ob')) (with_mem S (mset (mem S) (tau W o) ob')).
Proof.
  intros W s S o ob ob' R H. split; [apply (rel_mget _ _ W s S o ob R H)|]. apply rel_mset; [exact R|congruence].
Qed.

Lemma memcpy_sim : forall W s S d sr n s', Rel W s S -> gv W d -> gv W sr -> do_memcpy s d sr n = Ok s' ->
  exists S', do_memcpy S (rv W d) (rv W sr) n = Ok S' /\ Rel W s' S' /\ pre s' = pre s.
Proof.
  intros W s S d sr n s' R Gd Gs H. unfold do_memcpy in *.
  destruct d as [z|od offd|]; try discriminate H. destruct sr as [z|os offs|]; try discriminate H. cbn [rv].
  destruct (mget (mem s) od) as [bd|] eqn:Ed; [|discriminate]. destruct (mget (mem s) os) as [bs|] eqn:Es; [|discriminate].
  rewrite (proj2 (rel_mget _ _ W s S od bd R Ed)), (proj2 (rel_mget _ _ W s S os bs R Es)).
  destruct (negb (ity_bytes (o_ty bs) =? ity_bytes (o_ty bd))%Z); [discriminate|].
  match type of H with (if ?c then _ else _) = _ => destruct c; [discriminate|] end.
  match type of H with (if ?c then _ else _) = _ => destruct c; [discriminate|] end.
  match type of H with (if ?c then _ else _) = _ => destruct c; [discriminate|] end.
  injection H as <-. eexists. split; [reflexivity|]. split; [|reflexivity]. apply rel_mset; [exact R|congruence].
Qed.

Lemma memset_sim : forall W s S d v n s', Rel W s S -> gv W d -> do_memset s d v n = Ok s' ->
  exists S', do_memset S (rv W d) v n = Ok S' /\ Rel W s' S' /\ pre s' = pre s.
Proof.
  intros W s S d v n s' R Gd H. unfold do_memset in *.
  destruct d as [z|od offd|]; try discriminate H. cbn [rv].
  destruct (mget (mem s) od) as [bd|] eqn:Ed; [|discriminate].
  rewrite (proj2 (rel_mget _ _ W s S od bd R Ed)).
  match type of H with (if ?c then _ else _) = _ => destruct c; [discriminate|] end.
  match type of H with (if ?c then _ else _) = _ => destruct c; [discriminate|] end.
  match type of H with (if ?c then _ else _) = _ => destruct c; [discriminate|] end.
  injection H as <-. eexists. split; [reflexivity|]. split; [|reflexivity]. apply rel_mset; [exact R|congruence].
Qed.

(* ---------------- fread ---------------- *)
Lemma fread_sim : forall W s S vs v s', Rel W s S -> Forall (gv W) vs -> do_prim s "fread" vs = Ok (v, s') ->
  exists S', do_prim S "fread" (map (rv W) vs) = Ok (v, S') /\ Rel W s' S' /\ pre s' = pre s /\ (forall w, v = Some w -> gv W w) /\ option_map (rv W) v = v.
Proof.
  intros W s S vs v s' R G H. unfold do_prim in *. cbn [String.eqb Ascii.eqb Bool.eqb andb] in *.
  destruct vs as [|[z|od offd|] vs]; try discriminate H.
  destruct vs as [|[z1|?|] vs]; try discriminate H. destruct z1 as [|[p|p|]|]; try discriminate H.
  destruct vs as [|[n|?|] vs]; try discriminate H. destruct vs as [|fp vs]; try discriminate H. destruct vs; try discriminate H.
  cbn [map rv]. bo H as fname E0. unfold stream_of in E0. destruct fp as [z|fo foff|]; try discriminate E0. injection E0 as <-. cbn [rv stream_of bind].
  inversion G as [|? ? Gd G1]; subst. inversion G1 as [|? ? _ G2]; subst. inversion G2 as [|? ? _ G3]; subst. inversion G3 as [|? ? Gf _]; subst.
  cbn [gv] in Gd, Gf.
  destruct (lget (files s) fo) as [f|] eqn:Ef; [|discriminate].
  rewrite (tau_ord W fo) by (eapply (r_fk _ _ _ _ _ R), Ef). rewrite (r_files _ _ _ _ _ R), Ef.
  destruct (mget (mem s) od) as [bd|] eqn:Ed; [|discriminate].
  rewrite (proj2 (rel_mget _ _ W s S od bd R Ed)).
  destruct (negb (ity_bytes (o_ty bd) =? 1)%Z).
  - match type of H with (if ?c then _ else _) = _ => destruct c; [discriminate|] end.
    match type of H with (if ?c then _ else _) = _ => destruct c; [discriminate|] end.
    injection H as <- <-. eexists. split; [reflexivity|]. split; [|split; [reflexivity|split; [intros w Hw; injection Hw as <-; exact I|reflexivity]]].
    match goal with |- Rel _ (with_files ?s1 _) (with_files ?S1 (lset _ _ ?f')) =>
      assert (R1 : Rel W s1 S1) by (apply rel_mset; [exact R|congruence]);
      pose proof (rel_files _ _ W s1 S1 fo f f' R1 Ef) as R2 end.
    cbn [with_mem files] in R2. rewrite (r_files _ _ _ _ _ R) in R2. exact R2.
  - match type of H with (if ?c then _ else _) = _ => destruct c; [discriminate|] end.
    match type of H with (if ?c then _ else _) = _ => destruct c; [discriminate|] end.
    injection H as <- <-. eexists. split; [reflexivity|]. split; [|split; [reflexivity|split; [intros w Hw; injection Hw as <-; exact I|reflexivity]]].
    match goal with |- Rel _ (with_files ?s1 _) (with_files ?S1 (lset _ _ ?f')) =>
      assert (R1 : Rel W s1 S1) by (apply rel_mset; [exact R|congruence]);
      pose proof (rel_files _ _ W s1 S1 fo f f' R1 Ef) as R2 end.
    cbn [with_mem files] in R2. rewrite (r_files _ _ _ _ _ R) in R2. exact R2.
Qed.
(* ---------------- strlen, fwrite, fseek (added for runcrypt::prepare_IV / runcrypt::verify) ---------------- *)
Lemma strlen_sim : forall W s S vs v s', Rel W s S -> Forall (gv W) vs -> do_prim s "strlen" vs = Ok (v, s') ->
  exists S', do_prim S "strlen" (map (rv W) vs) = Ok (v, S') /\ Rel W s' S' /\ pre s' = pre s /\ (forall w, v = Some w -> gv W w) /\ option_map (rv W) v = v.
Proof.
  intros W s S vs v s' R G H. unfold do_prim in *. cbn [String.eqb Ascii.eqb Bool.eqb andb] in *.
  destruct vs as [|[z|o off|] vs]; try discriminate H. destruct vs; try discriminate H. cbn [map rv].
  inversion G as [|? ? Go _]; subst. cbn [gv] in Go.
  destruct (mget (mem s) o) as [ob|] eqn:Eo; [|discriminate]. rewrite (proj2 (rel_mget _ _ W s S o ob R Eo)).
  match type of H with (if ?c then _ else _) = _ => destruct c; [discriminate|] end.
  destruct (strlen_from _ _); [|discriminate]. injection H as <- <-.
  eexists. split; [reflexivity|]. split; [exact R|]. split; [reflexivity|]. split; [intros w Hw; injection Hw as <-; exact I|reflexivity].
Qed.
Lemma fwrite_sim : forall W s S vs v s', Rel W s S -> Forall (gv W) vs -> do_prim s "fwrite" vs = Ok (v, s') ->
  exists S', do_prim S "fwrite" (map (rv W) vs) = Ok (v, S') /\ Rel W s' S' /\ pre s' = pre s /\ (forall w, v = Some w -> gv W w) /\ option_map (rv W) v = v.
Proof.
  intros W s S vs v s' R G H. unfold do_prim in *. cbn [String.eqb Ascii.eqb Bool.eqb andb] in *.
  destruct vs as [|[z|os offs|] vs]; try discriminate H.
  destruct vs as [|[z1|?|] vs]; try discriminate H. destruct z1 as [|[p|p|]|]; try discriminate H.
  destruct vs as [|[n|?|] vs]; try discriminate H. destruct vs as [|fp vs]; try discriminate H. destruct vs; try discriminate H.
  cbn [map rv]. bo H as fname E0. unfold stream_of in E0. destruct fp as [z|fo foff|]; try discriminate E0. injection E0 as <-. cbn [rv stream_of bind].
  inversion G as [|? ? Gd G1]; subst. inversion G1 as [|? ? _ G2]; subst. inversion G2 as [|? ? _ G3]; subst. inversion G3 as [|? ? Gf _]; subst.
  cbn [gv] in Gd, Gf.
  destruct (lget (files s) fo) as [f|] eqn:Ef; [|discriminate].
  rewrite (tau_ord W fo) by (eapply (r_fk _ _ _ _ _ R), Ef). rewrite (r_files _ _ _ _ _ R), Ef.
  destruct (mget (mem s) os) as [bs|] eqn:Ed; [|discriminate].
  rewrite (proj2 (rel_mget _ _ W s S os bs R Ed)).
  match type of H with (if ?c then _ else _) = _ => destruct c; [discriminate|] end.
  match type of H with (if ?c then _ else _) = _ => destruct c; [discriminate|] end.
  injection H as <- <-. eexists. split; [reflexivity|]. split; [|split; [reflexivity|split; [intros w Hw; injection Hw as <-; exact I|reflexivity]]].
  match goal with |- Rel _ (with_files _ _) (with_files _ (lset _ _ ?f')) => pose proof (rel_files _ _ W s S fo f f' R Ef) as R2 end.
  rewrite (r_files _ _ _ _ _ R) in R2. exact R2.
Qed.
Lemma fseek_sim : forall W s S vs v s', Rel W s S -> Forall (gv W) vs -> do_prim s "fseek" vs = Ok (v, s') ->
  exists S', do_prim S "fseek" (map (rv W) vs) = Ok (v, S') /\ Rel W s' S' /\ pre s' = pre s /\ (forall w, v = Some w -> gv W w) /\ option_map (rv W) v = v.
Proof.
  intros W s S vs v s' R G H. unfold do_prim in *. cbn [String.eqb Ascii.eqb Bool.eqb andb] in *.
  destruct vs as [|fp vs]; try discriminate H. destruct vs as [|[off|?|] vs]; try discriminate H.
  destruct vs as [|[z|?|] vs]; try discriminate H. destruct z; try discriminate H. destruct vs; try discriminate H.
  cbn [map rv]. bo H as fname E0. unfold stream_of in E0. destruct fp as [z|fo foff|]; try discriminate E0. injection E0 as <-. cbn [rv stream_of bind].
  inversion G as [|? ? Gf _]; subst. cbn [gv] in Gf.
  destruct (lget (files s) fo) as [f|] eqn:Ef; [|discriminate].
  rewrite (tau_ord W fo) by (eapply (r_fk _ _ _ _ _ R), Ef). rewrite (r_files _ _ _ _ _ R), Ef.
  match type of H with (if ?c then _ else _) = _ => destruct c; [discriminate|] end.
  injection H as <- <-. eexists. split; [reflexivity|]. split; [|split; [reflexivity|split; [intros w Hw; injection Hw as <-; exact I|reflexivity]]].
  match goal with |- Rel _ (with_files _ _) (with_files _ (lset _ _ ?f')) => pose proof (rel_files _ _ W s S fo f f' R Ef) as R2 end.
  rewrite (r_files _ _ _ _ _ R) in R2. exact R2.
Qed.
End Eval.
