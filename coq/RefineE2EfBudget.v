(* Stage 5: the two end-to-end theorems for ARBITRARY budgets of the scheduler loop (step bound `steps`, statement budget `fuel` of one thread step, scheduler
   seed rnd), stated on SrcRun5.auto_run directly: the run ends in WDone with the model's result, or in WSteps (step bound reached), or in WErr "out of fuel";
   never in a deadlock, never in undefined behaviour.  (RefineE2Ef.v states them for the fixed budgets of SrcRun5.run_from.)
   The two sections are parametric copies of RefineE2EfEnc.encrypt_from_parts / RefineE2EfDec.decrypt_from_parts; the assemblies reuse every proved piece. *)
From Coq Require Import ZArith NArith List String Bool Lia Arith ZifyN ZifyNat.
From Wencry Require Import Bytes AesModel ModesModel HashModel FileSpec FileModel FileProps FileProofsDec FileConcGlue PipeConc PipeProps PipeLemmas
     MiniC MiniCLemmas MiniCRun MiniCConc SrcRun SrcRun2 SrcRun5.
From Wencry Require Import RefineConcPipe RefineE2EfPipe RefineConcDone RefineSeqVerify.
From Wencry Require ModesProofs.
From Wencry Require Import RefineE2EfLay RefineE2EfMach RefineE2EfMem RefineE2EfRel RefineE2EfGen RefineE2EfRun
     RefineE2EfWLay RefineE2EfWOk RefineE2EfEnc RefineE2EfDec.
Import ListNotations.
Local Open Scope list_scope.

Section EncB.
Variables (c hbuf T : nat) (P key seed : list N) (cm hm : N).
Hypothesis EP : enc_params c hbuf T P key seed cm hm.
Hypothesis Hc32 : (N.of_nat (16 * c) < 2 ^ 32)%N.
Variable ke : mkind.
Hypothesis Hke : create true cm = Some ke.

Let ivs := iv_chain seed T.
Let iv16 := firstn 16 ivs.
Let hdr := file_header cm hm ivs T.

(* the layout of the concurrent phase *)
Variable PW : wpar.
Hypothesis Ekind : wp_kind PW = ke.
Hypothesis Eks : wp_ks PW = genall key.
Hypothesis Eiv : wp_iv PW = iv16.
Hypothesis Eout : wp_out0 PW = map Z.of_N hdr.
Hypothesis Epos : wp_pos0 PW = 0%nat.
Hypothesis OKW : wpar_ok PW.
Hypothesis DKW : wdone_ok PW.
Variable sm0 : memory.
Hypothesis Hsm0 : forall i, (i < T)%nat -> w_srep PW T i iv16 sm0.

Local Instance LYEb : Layout := wlayout PW.
Local Instance LOEb : LayoutOk := wlayout_ok PW OKW DKW.

Let cs0 := whole_init WEnc c hbuf T (Z.of_N cm) (Z.of_N hm) P key seed.
Let cs2 := cstate_md c T true P I_WaitUpdate (repeat W_New T) (d_init0 c T sm0) (g_init0 T).

(* the two set-up steps of the main thread *)
Hypothesis Hpre : forall fuel, enabled_list cs0 = [O] /\
  (cstep whole_prog [] fuel cs0 0 = NoFuel \/
   exists cs1 e1, cstep whole_prog [] fuel cs0 0 = Ok (cs1, e1) /\ enabled_list cs1 = [O] /\
     (cstep whole_prog [] fuel cs1 0 = NoFuel \/ exists e2, cstep whole_prog [] fuel cs1 0 = Ok (cs2, e2))).

(* the last step *)
Hypothesis Hsuf : forall s cs, sim c T true P s cs -> terminal LS s = true -> forall fuel,
  cstep whole_prog [] fuel cs 0 = NoFuel \/
  exists cs' evs, cstep whole_prog [] fuel cs 0 = Ok (cs', evs) /\ Qfin hbuf T P key seed cm hm PW s cs' /\ enabled_list cs' = [] /\ all_tdone cs' = true.

Definition good_enc (r : whole_res) : Prop :=
  match r with
  | WDone cs _ => main_result cs = Some 1%Z /\ enc c hbuf T P key cm hm seed = FileModel.Ok (out_bytes cs) /\ in_bytes cs = P
  | WDeadlock _ => False
  | WSteps => True
  | WErr w => w = "out of fuel"%string
  end.

Theorem encrypt_from_parts_b : forall steps fuel rnd, good_enc (auto_run steps fuel rnd cs0 0).
Proof.
  intros steps fuel rnd. pose proof EP as EP'. destruct EP as [Hc Hh HT HP Hkey Hseed Hcm Hhm HsP HsT HsS].
  assert (Hc32' : (16 * Z.of_nat c < 2 ^ 32)%Z) by lia.
  assert (HT16 : (1 <= T <= 16)%nat) by lia.
  unfold auto_run.
  destruct steps as [|[|n]]; [exact I| |].
  { destruct (Hpre fuel) as [EL0 H0]. rewrite auto_run_with_S, EL0. cbv zeta. rewrite nth_single.
    destruct H0 as [E0|(cs1 & e1 & E0 & _)]; rewrite E0; [reflexivity|exact I]. }
  destruct (Hpre fuel) as [EL0 H0].
  rewrite auto_run_with_S, EL0. cbv zeta. rewrite nth_single.
  destruct H0 as [E0|(cs1 & e1 & E0 & EL1 & H1)]; rewrite E0; [reflexivity|].
  rewrite auto_run_with_S, EL1. cbv zeta. rewrite nth_single.
  destruct H1 as [E1|(e2 & E1)]; rewrite E1; [reflexivity|].
  assert (Hsim : sim c T true P (init LS T (Lsig0 T) (loads_of c true (skipn Lpos0 P))) cs2).
  { apply (sim_init c T true P Hc HT16 HP). intros i Hi. change (Lsig0 T) with (repeat (wp_iv PW) T). rewrite nth_repeat_lt by exact Hi.
    rewrite Eiv. apply Hsm0. exact Hi. }
  pose proof (auto_run_middle c T true P Hc Hc32' HT16 HP (Qfin hbuf T P key seed cm hm PW) Hsuf n fuel (lcg (lcg rnd)) _ cs2 2%nat Hsim I) as G.
  change (auto_run_with whole_prog n fuel (lcg (lcg rnd)) cs2 2) with (auto_run_with prog n fuel (lcg (lcg rnd)) cs2 2).
  destruct (auto_run_with prog n fuel (lcg (lcg rnd)) cs2 2) as [csf k| k| |w] eqn:ER; cbn [goodres] in G; cbn [good_enc].
  - destruct G as (s' & Hre & Hterm & (tag & Htag & Hout & Hres & Hin)).
    split; [exact Hres|]. split; [|exact Hin].
    rewrite Hout.
    destruct (enc_pieces c hbuf T P key seed cm hm EP') as (F & ke' & kd & body & HF & Hke' & Hkd & Hpc & _).
    rewrite Hke in Hke'. injection Hke' as <-.
    assert (Hwfl : wfl (loads_of c true P)).
    { apply (wfl_enc c Hc (List.length P)); [rewrite sum_eq; nia|apply ModesProofs.bytesb_bytes; exact HP]. }
    destruct Hre as [sched Hrun]. change Lpos0 with (wp_pos0 PW) in Hrun. rewrite Epos in Hrun. cbn [skipn] in Hrun.
    destruct (every_schedule (aes_enc key) (aes_dec key) ke T c true iv16 (loads_of c true P) body HT Hwfl Hpc sched s') as [Hbody _].
    { change (Lsig0 T) with (repeat (wp_iv PW) T) in Hrun. rewrite Eiv in Hrun.
      change LS with (list N) in Hrun. change Ltr with (runcry (aes_enc_with (wp_ks PW)) (aes_dec_with (wp_ks PW)) (wp_kind PW)) in Hrun.
      rewrite Eks, Ekind in Hrun. exact Hrun. }
    { exact Hterm. }
    change (output St s') with (output (list N) s') in *. rewrite Hbody in *.
    apply (enc_ok c hbuf T P key cm hm seed ke body tag Hke); [exact Hpc|exact Htag].
  - contradiction.
  - exact I.
  - exact G.
Qed.
End EncB.

Section DecB.
Variables (c hbuf T : nat) (F key out : list N).
Hypothesis Hc : (1 <= c)%nat.
Hypothesis Hc32 : (N.of_nat (16 * c) < 2 ^ 32)%N.
Hypothesis HT : (1 <= T <= 16)%nat.
Hypothesis HF : bytesb F = true.
Hypothesis Hdec : dec c hbuf T F key = FileModel.Ok out.
Variable kd : mkind.
Hypothesis Hkd : create false (nth 8 F 0%N) = Some kd.

Let iv16 := firstn 16 (skipn 48 F).

Variable PW : wpar.
Hypothesis Ekind : wp_kind PW = kd.
Hypothesis Eks : wp_ks PW = genall key.
Hypothesis Eiv : wp_iv PW = iv16.
Hypothesis Eout : wp_out0 PW = [].
Hypothesis Epos : wp_pos0 PW = text_mark T.
Hypothesis OKW : wpar_ok PW.
Hypothesis DKW : wdone_ok PW.
Variable sm0 : memory.
Hypothesis Hsm0 : forall i, (i < T)%nat -> w_srep PW T i iv16 sm0.

Local Instance LYDb : Layout := wlayout PW.
Local Instance LODb : LayoutOk := wlayout_ok PW OKW DKW.

Let cs0 := whole_init WDec c hbuf T (-1) (-1) F key [].
Let cs2 := cstate_md c T false F I_WaitUpdate (repeat W_New T) (d_init0 c T sm0) (g_init0 T).

Hypothesis Hpre : forall fuel, enabled_list cs0 = [O] /\
  (cstep whole_prog [] fuel cs0 0 = NoFuel \/
   exists cs1 e1, cstep whole_prog [] fuel cs0 0 = Ok (cs1, e1) /\ enabled_list cs1 = [O] /\
     (cstep whole_prog [] fuel cs1 0 = NoFuel \/ exists e2, cstep whole_prog [] fuel cs1 0 = Ok (cs2, e2))).

Hypothesis Hsuf : forall s cs, sim c T false F s cs -> terminal LS s = true -> forall fuel,
  cstep whole_prog [] fuel cs 0 = NoFuel \/
  exists cs' evs, cstep whole_prog [] fuel cs 0 = Ok (cs', evs) /\ QfinD F PW s cs' /\ enabled_list cs' = [] /\ all_tdone cs' = true.

Definition good_dec (r : whole_res) : Prop :=
  match r with
  | WDone cs _ => main_result cs = Some 1%Z /\ out_bytes cs = out /\ in_bytes cs = F
  | WDeadlock _ => False
  | WSteps => True
  | WErr w => w = "out of fuel"%string
  end.

Theorem decrypt_from_parts_b : forall steps fuel rnd, good_dec (auto_run steps fuel rnd cs0 0).
Proof.
  intros steps fuel rnd.
  assert (Hc32' : (16 * Z.of_nat c < 2 ^ 32)%Z) by lia.
  unfold auto_run.
  destruct steps as [|[|n]]; [exact I| |].
  { destruct (Hpre fuel) as [EL0 H0]. rewrite auto_run_with_S, EL0. cbv zeta. rewrite nth_single.
    destruct H0 as [E0|(cs1 & e1 & E0 & _)]; rewrite E0; [reflexivity|exact I]. }
  destruct (Hpre fuel) as [EL0 H0].
  rewrite auto_run_with_S, EL0. cbv zeta. rewrite nth_single.
  destruct H0 as [E0|(cs1 & e1 & E0 & EL1 & H1)]; rewrite E0; [reflexivity|].
  rewrite auto_run_with_S, EL1. cbv zeta. rewrite nth_single.
  destruct H1 as [E1|(e2 & E1)]; rewrite E1; [reflexivity|].
  assert (Hsim : sim c T false F (init LS T (Lsig0 T) (loads_of c false (skipn Lpos0 F))) cs2).
  { apply (sim_init c T false F Hc HT HF). intros i Hi. change (Lsig0 T) with (repeat (wp_iv PW) T). rewrite nth_repeat_lt by exact Hi.
    rewrite Eiv. apply Hsm0. exact Hi. }
  pose proof (auto_run_middle c T false F Hc Hc32' HT HF (QfinD F PW) Hsuf n fuel (lcg (lcg rnd)) _ cs2 2%nat Hsim I) as G.
  change (auto_run_with whole_prog n fuel (lcg (lcg rnd)) cs2 2) with (auto_run_with prog n fuel (lcg (lcg rnd)) cs2 2).
  destruct (auto_run_with prog n fuel (lcg (lcg rnd)) cs2 2) as [csf k| k| |w] eqn:ER; cbn [goodres] in G; cbn [good_dec].
  - destruct G as (s' & Hre & Hterm & (Hout & Hres & Hin)).
    split; [exact Hres|]. split; [|exact Hin].
    rewrite Hout.
    destruct (decrypt_under_every_schedule_proof c hbuf T F key out Hc (proj1 HT) (proj1 (ModesProofs.bytesb_bytes F) HF) Hdec) as (kd' & Hkd' & Hall).
    rewrite Hkd in Hkd'. injection Hkd' as <-. cbv zeta in Hall. destruct Hall as [_ Hall].
    destruct Hre as [sched Hrun]. change Lpos0 with (wp_pos0 PW) in Hrun. rewrite Epos in Hrun.
    change (Lsig0 T) with (repeat (wp_iv PW) T) in Hrun. rewrite Eiv in Hrun.
    change LS with (list N) in Hrun. change Ltr with (runcry (aes_enc_with (wp_ks PW)) (aes_dec_with (wp_ks PW)) (wp_kind PW)) in Hrun.
    rewrite Eks, Ekind in Hrun.
    destruct (Hall sched s' Hrun Hterm) as [Hbody _]. exact Hbody.
  - contradiction.
  - exact I.
  - exact G.
Qed.
End DecB.
