(* Refinement: translated aesmode.cpp (Gen/Src_aesmode.v) under MiniC = ModesModel.
   Part 2: the eight runcry methods, the stream induction and the theorem SRC_mode_stream_proof. *)
From Coq Require Import ZArith NArith List String Bool Lia.
From Wencry Require Import Bytes AesModel ModesModel MiniC MiniCRun MiniCLemmas SrcRun AesProofs
     RefineAesLib RefineAesOps RefineAesKey RefineAes RefineModesOps.
From Wencry Require ModesProofs.
From Wencry.Gen Require Import AesTab AesCoef.
From Wencry.Gen Require Src_aes Src_aesmode.
Import ListNotations.
Local Open Scope Z_scope.
Local Open Scope string_scope.

Local Notation P := aes_prog.

Ltac mget_tac ::=
  cbn [append];
  first [ rewrite mget_mset_same; reflexivity
        | rewrite mget_mset_other by neq_tac; mget_tac
        | eassumption
        | match goal with H : mget ?m ?k = Some _ |- mget ?m ?k = _ => exact H end ].
Ltac st_norm_hook ::= cbn [append].

(* ---------------- blocks ---------------- *)
Section Modes.
Variable ks : list (list N).
Hypothesis Hlks : List.length ks = 11%nat.
Hypothesis Bks : Forall block16 ks.

Lemma Hkb : forall i, (i < 11)%nat -> block16 (nth i ks []).
Proof. intros i Hi. apply block16_nth; [exact Bks | lia]. Qed.

Lemma enc_state_block : forall b, block16 b -> block16 (enc_state ks b).
Proof.
  intros b Hb. rewrite enc_state_unfold. pose proof Hkb as Hkb'.
  unfold enc_specround. apply addroundkey_block; [|apply Hkb; lia].
  apply enc_rowshift_block, enc_subbytes_block, addroundkey_block; [|apply Hkb; lia].
  unfold enc_commonround at 1. apply columnmix_block.
Qed.
Lemma dec_state_block : forall b, block16 b -> block16 (dec_state ks b).
Proof.
  intros b Hb. rewrite dec_state_unfold.
  unfold dec_commonround at 1. apply addroundkey_block; [|apply Hkb; lia].
  apply dec_subbytes_block, dec_rowshift_block, columnmix_block.
Qed.
Lemma aes_enc_with_block : forall b, block16 b -> block16 (aes_enc_with ks b).
Proof. intros. rewrite aes_enc_with_state. apply transpose_block', enc_state_block. assumption. Qed.
Lemma aes_dec_with_block : forall b, block16 b -> block16 (aes_dec_with ks b).
Proof. intros. rewrite aes_dec_with_state. apply transpose_block', dec_state_block. assumption. Qed.

Definition mode_rep (iv : list N) (m : memory) : Prop :=
  tabs_ok m /\ mget m "iv" = Some (bytes_object iv) /\ block16 iv /\
  (exists wc, mget m "crypt.w" = Some (bobj wc) /\ List.length wc = 16%nat) /\
  mget m "crypt.key.key" = Some (bobj (concat (map (map Z.of_N) ks))).

Notation E := (aes_enc_with ks).
Notation D := (aes_dec_with ks).

Ltac mblocks :=
  lazymatch goal with
  | |- block16 (aes_enc_with ks _) => apply aes_enc_with_block; mblocks
  | |- block16 (aes_dec_with ks _) => apply aes_dec_with_block; mblocks
  | |- block16 (enc_state ks _) => apply enc_state_block; mblocks
  | |- block16 (dec_state ks _) => apply dec_state_block; mblocks
  | |- block16 (xorl _ _) => apply ModesProofs.block16_xorl; mblocks
  | |- block16 (ctrInc _) => apply ModesProofs.block16_ctrInc; mblocks
  | |- _ => assumption
  end.
Ltac len16 :=
  first [ eassumption
        | rewrite map_length; apply block16_length; mblocks
        | apply repeat_length
        | reflexivity ].
Ltac mtabs := cbn [mem]; repeat (apply tabs_ok_mset; [nt_tac|]); assumption.

Ltac mside :=
  cbn [append];
  lazymatch goal with
  | |- (_ <= _)%nat => lia
  | |- tabs_ok _ => mtabs
  | |- ~ is_tab _ => nt_tac
  | |- _ <> _ => discriminate
  | |- mget _ _ = _ => cbn [mem]; mget_tac
  | |- List.length ks = _ => exact Hlks
  | |- List.length _ = 16%nat => len16
  | |- Forall block16 _ => exact Bks
  | |- block16 _ => mblocks
  | |- _ = concat _ => reflexivity
  end.

Ltac xc_enc o := st_norm; eapply x_call; [evl | reflexivity
  | eapply (enc_runaes_spec [] _ "crypt." _ o _ _ _ ks); mside | reflexivity].
Ltac xc_dec o := st_norm; eapply x_call; [evl | reflexivity
  | eapply (dec_runaes_spec [] _ "crypt." _ o _ _ _ ks); mside | reflexivity].
Ltac xc_xor := st_norm; eapply x_call; [evl | reflexivity
  | eapply (getXor_spec []); mside | reflexivity].
Ltac xc_ctr := st_norm; eapply x_call; [evl | reflexivity
  | eapply (ctrInc_spec []); mside | reflexivity].
Ltac xm16 := st_norm; eapply x_memcpy16; [ev | ev | cbn [mem]; mget_tac | len16 | cbn [mem]; mget_tac | mblocks].

Ltac rep_tac :=
  unfold mode_rep; cbn [mem];
  repeat match goal with |- _ /\ _ => split end;
  lazymatch goal with
  | |- tabs_ok _ => mtabs
  | |- mget _ _ = _ => mget_tac
  | |- block16 _ => mblocks
  | |- exists _, _ => eexists; split; [mget_tac | len16]
  end.

Ltac runcry_start Hrep :=
  let Ht := fresh "Ht" in let Hiv := fresh "Hiv" in let Biv := fresh "Biv" in
  let wc := fresh "wc" in let Hw := fresh "Hw" in let Hlw := fresh "Hlw" in let Hkk := fresh "Hkk" in
  destruct Hrep as (Ht & Hiv & Biv & (wc & Hw & Hlw) & Hkk).

Lemma runcry_ECB_Enc : forall s fuel iv b, (250 <= fuel)%nat ->
  mode_rep iv (mem s) -> mget (mem s) "blk" = Some (bytes_object b) -> block16 b ->
  exists m', call P [] fuel "AesECB_Enc::runcry/1" "" [VPtr "blk" 0] s = Ok (None, with_mem s m') /\
             mode_rep (fst (runcry E D ECB_Enc iv b)) m' /\
             mget m' "blk" = Some (bytes_object (snd (runcry E D ECB_Enc iv b))).
Proof.
  intros s fuel iv b Hf Hrep Hb Bb. runcry_start Hrep. cbn [runcry fst snd].
  eexists. split; [|split].
  - eapply call_mono; [|exact Hf].
    eapply call_normal; [reflexivity | reflexivity | | | | | ].
    + cbn [f_body Src_aesmode.f_AesECB_Enc_runcry_1]. xc_enc "blk".
    + reflexivity.
    + reflexivity.
    + reflexivity.
    + st_norm. reflexivity.
  - rep_tac.
  - cbn [mem]. mget_tac.
Qed.

Lemma runcry_ECB_Dec : forall s fuel iv b, (250 <= fuel)%nat ->
  mode_rep iv (mem s) -> mget (mem s) "blk" = Some (bytes_object b) -> block16 b ->
  exists m', call P [] fuel "AesECB_Dec::runcry/1" "" [VPtr "blk" 0] s = Ok (None, with_mem s m') /\
             mode_rep (fst (runcry E D ECB_Dec iv b)) m' /\
             mget m' "blk" = Some (bytes_object (snd (runcry E D ECB_Dec iv b))).
Proof.
  intros s fuel iv b Hf Hrep Hb Bb. runcry_start Hrep. cbn [runcry fst snd].
  eexists. split; [|split].
  - eapply call_mono; [|exact Hf].
    eapply call_normal; [reflexivity | reflexivity | | | | | ].
    + cbn [f_body Src_aesmode.f_AesECB_Dec_runcry_1].
      xc_dec "blk".
    + reflexivity.
    + reflexivity.
    + reflexivity.
    + st_norm. reflexivity.
  - rep_tac.
  - cbn [mem]. mget_tac.
Qed.

Lemma runcry_CBC_Enc : forall s fuel iv b, (250 <= fuel)%nat ->
  mode_rep iv (mem s) -> mget (mem s) "blk" = Some (bytes_object b) -> block16 b ->
  exists m', call P [] fuel "AesCBC_Enc::runcry/1" "" [VPtr "blk" 0] s = Ok (None, with_mem s m') /\
             mode_rep (fst (runcry E D CBC_Enc iv b)) m' /\
             mget m' "blk" = Some (bytes_object (snd (runcry E D CBC_Enc iv b))).
Proof.
  intros s fuel iv b Hf Hrep Hb Bb. runcry_start Hrep. cbn [runcry fst snd].
  eexists. split; [|split].
  - eapply call_mono; [|exact Hf].
    eapply call_normal; [reflexivity | reflexivity | | | | | ].
    + cbn [f_body Src_aesmode.f_AesCBC_Enc_runcry_1].
      eapply x_seq; [xc_xor|]. eapply x_seq; [xc_enc "blk"|]. xm16.
    + reflexivity.
    + reflexivity.
    + reflexivity.
    + st_norm. reflexivity.
  - rep_tac.
  - cbn [mem]. mget_tac.
Qed.

Lemma runcry_CBC_Dec : forall s fuel iv b, (250 <= fuel)%nat ->
  mode_rep iv (mem s) -> mget (mem s) "blk" = Some (bytes_object b) -> block16 b ->
  exists m', call P [] fuel "AesCBC_Dec::runcry/1" "" [VPtr "blk" 0] s = Ok (None, with_mem s m') /\
             mode_rep (fst (runcry E D CBC_Dec iv b)) m' /\
             mget m' "blk" = Some (bytes_object (snd (runcry E D CBC_Dec iv b))).
Proof.
  intros s fuel iv b Hf Hrep Hb Bb. runcry_start Hrep. cbn [runcry fst snd].
  eexists. split; [|split].
  - eapply call_mono; [|exact Hf].
    eapply call_normal; [reflexivity | reflexivity | | | | | ].
    + cbn [f_body Src_aesmode.f_AesCBC_Dec_runcry_1].
      eapply x_seq; [xs|]. eapply x_seq; [xm16|]. eapply x_seq; [xc_dec "blk"|]. eapply x_seq; [xc_xor|]. xm16.
    + reflexivity.
    + reflexivity.
    + reflexivity.
    + st_norm. reflexivity.
  - rep_tac.
  - cbn [mem]. mget_tac.
Qed.

Lemma runcry_CTRm : forall s fuel iv b, (250 <= fuel)%nat ->
  mode_rep iv (mem s) -> mget (mem s) "blk" = Some (bytes_object b) -> block16 b ->
  exists m', call P [] fuel "AesCTR::runcry/1" "" [VPtr "blk" 0] s = Ok (None, with_mem s m') /\
             mode_rep (fst (runcry E D CTRm iv b)) m' /\
             mget m' "blk" = Some (bytes_object (snd (runcry E D CTRm iv b))).
Proof.
  intros s fuel iv b Hf Hrep Hb Bb. runcry_start Hrep. cbn [runcry fst snd].
  eexists. split; [|split].
  - eapply call_mono; [|exact Hf].
    eapply call_normal; [reflexivity | reflexivity | | | | | ].
    + cbn [f_body Src_aesmode.f_AesCTR_runcry_1].
      eapply x_seq; [xs|]. eapply x_seq; [xm16|]. eapply x_seq; [xc_enc "%mask"|]. eapply x_seq; [xc_xor|]. xc_ctr.
    + reflexivity.
    + reflexivity.
    + reflexivity.
    + st_norm. reflexivity.
  - rep_tac.
  - cbn [mem]. mget_tac.
Qed.

Lemma runcry_CFB_Enc : forall s fuel iv b, (250 <= fuel)%nat ->
  mode_rep iv (mem s) -> mget (mem s) "blk" = Some (bytes_object b) -> block16 b ->
  exists m', call P [] fuel "AesCFB_Enc::runcry/1" "" [VPtr "blk" 0] s = Ok (None, with_mem s m') /\
             mode_rep (fst (runcry E D CFB_Enc iv b)) m' /\
             mget m' "blk" = Some (bytes_object (snd (runcry E D CFB_Enc iv b))).
Proof.
  intros s fuel iv b Hf Hrep Hb Bb. runcry_start Hrep. cbn [runcry fst snd].
  eexists. split; [|split].
  - eapply call_mono; [|exact Hf].
    eapply call_normal; [reflexivity | reflexivity | | | | | ].
    + cbn [f_body Src_aesmode.f_AesCFB_Enc_runcry_1].
      eapply x_seq; [xc_enc "iv"|]. eapply x_seq; [xc_xor|]. xm16.
    + reflexivity.
    + reflexivity.
    + reflexivity.
    + st_norm. reflexivity.
  - rep_tac.
  - cbn [mem]. mget_tac.
Qed.

Lemma runcry_CFB_Dec : forall s fuel iv b, (250 <= fuel)%nat ->
  mode_rep iv (mem s) -> mget (mem s) "blk" = Some (bytes_object b) -> block16 b ->
  exists m', call P [] fuel "AesCFB_Dec::runcry/1" "" [VPtr "blk" 0] s = Ok (None, with_mem s m') /\
             mode_rep (fst (runcry E D CFB_Dec iv b)) m' /\
             mget m' "blk" = Some (bytes_object (snd (runcry E D CFB_Dec iv b))).
Proof.
  intros s fuel iv b Hf Hrep Hb Bb. runcry_start Hrep. cbn [runcry fst snd].
  eexists. split; [|split].
  - eapply call_mono; [|exact Hf].
    eapply call_normal; [reflexivity | reflexivity | | | | | ].
    + cbn [f_body Src_aesmode.f_AesCFB_Dec_runcry_1].
      eapply x_seq; [xs|]. eapply x_seq; [xm16|]. eapply x_seq; [xc_enc "iv"|]. eapply x_seq; [xc_xor|]. xm16.
    + reflexivity.
    + reflexivity.
    + reflexivity.
    + st_norm. reflexivity.
  - rep_tac.
  - cbn [mem]. mget_tac.
Qed.

Lemma runcry_OFBm : forall s fuel iv b, (250 <= fuel)%nat ->
  mode_rep iv (mem s) -> mget (mem s) "blk" = Some (bytes_object b) -> block16 b ->
  exists m', call P [] fuel "AesOFB::runcry/1" "" [VPtr "blk" 0] s = Ok (None, with_mem s m') /\
             mode_rep (fst (runcry E D OFBm iv b)) m' /\
             mget m' "blk" = Some (bytes_object (snd (runcry E D OFBm iv b))).
Proof.
  intros s fuel iv b Hf Hrep Hb Bb. runcry_start Hrep. cbn [runcry fst snd].
  eexists. split; [|split].
  - eapply call_mono; [|exact Hf].
    eapply call_normal; [reflexivity | reflexivity | | | | | ].
    + cbn [f_body Src_aesmode.f_AesOFB_runcry_1].
      eapply x_seq; [xc_enc "iv"|]. xc_xor.
    + reflexivity.
    + reflexivity.
    + reflexivity.
    + st_norm. reflexivity.
  - rep_tac.
  - cbn [mem]. mget_tac.
Qed.

(* ---------------- all eight classes at once ---------------- *)
Definition cls_of (k : mkind) : string :=
  match k with
  | ECB_Enc => "AesECB_Enc" | ECB_Dec => "AesECB_Dec" | CBC_Enc => "AesCBC_Enc" | CBC_Dec => "AesCBC_Dec"
  | CTRm => "AesCTR" | CFB_Enc => "AesCFB_Enc" | CFB_Dec => "AesCFB_Dec" | OFBm => "AesOFB"
  end.

Lemma runcry_all : forall kind s fuel iv b, (250 <= fuel)%nat ->
  mode_rep iv (mem s) -> mget (mem s) "blk" = Some (bytes_object b) -> block16 b ->
  exists m', call P [] fuel (cls_of kind ++ "::runcry/1") "" [VPtr "blk" 0] s = Ok (None, with_mem s m') /\
             mode_rep (fst (runcry E D kind iv b)) m' /\
             mget m' "blk" = Some (bytes_object (snd (runcry E D kind iv b))).
Proof.
  intros kind. destruct kind; cbn [cls_of append].
  - exact runcry_ECB_Enc.
  - exact runcry_ECB_Dec.
  - exact runcry_CBC_Enc.
  - exact runcry_CBC_Dec.
  - exact runcry_CTRm.
  - exact runcry_CFB_Enc.
  - exact runcry_CFB_Dec.
  - exact runcry_OFBm.
Qed.

Lemma mode_rep_set_blk : forall iv m b, mode_rep iv m -> mode_rep iv (mset m "blk" b).
Proof.
  intros iv m b (Ht & Hiv & Biv & (wc & Hw & Hlw) & Hkk). unfold mode_rep.
  rewrite !mget_mset_other by discriminate.
  split; [apply tabs_ok_mset; [nt_tac | assumption]|].
  split; [assumption|]. split; [assumption|]. split; [exists wc; auto | assumption].
Qed.

Lemma run_blocks_spec : forall kind blks s acc iv,
  mode_rep iv (mem s) -> Forall block16 blks ->
  exists s', run_blocks (cls_of kind) blks s acc = SOk ((rev acc ++ snd (run E D kind iv blks))%list, s').
Proof.
  intros kind blks. induction blks as [|b r IH]; intros s acc iv Hrep Hbs.
  - exists s. cbn [run_blocks run snd]. now rewrite app_nil_r.
  - inversion Hbs as [|? ? Bb Br]; subst. cbn [run_blocks].
    set (s1 := with_mem s (mset (mem s) "blk" (bytes_object b))).
    destruct (runcry_all kind s1 300 iv b) as (m' & Hcall & Hrep' & Hblk').
    + lia.
    + unfold s1. cbn [mem with_mem]. apply mode_rep_set_blk. exact Hrep.
    + unfold s1. cbn [mem with_mem]. apply mget_mset_same.
    + exact Bb.
    + rewrite Hcall. cbn [of_res snd]. unfold get_bytes. cbn [mem with_mem]. rewrite Hblk'.
      rewrite object_bytes_bytes_object.
      destruct (IH (with_mem s1 m') (snd (runcry E D kind iv b) :: acc) (fst (runcry E D kind iv b)) Hrep' Br) as (s' & Hs').
      exists s'. rewrite Hs'. do 2 f_equal.
      rewrite ModesProofs.snd_run_cons. cbn [rev]. rewrite <- app_assoc. reflexivity.
Qed.
End Modes.

(* ---------------- the entry point src_mode ---------------- *)
Ltac mget_tac ::=
  cbn [append];
  first [ rewrite mget_mset_same; reflexivity
        | rewrite mget_mset_other by neq_tac; mget_tac
        | eassumption
        | match goal with H : mget ?m ?k = Some _ |- mget ?m ?k = _ => exact H end
        | reflexivity ].

Definition mode_objs : list (string * ity * Z) := Src_aesmode.objects_AesECB_Enc.

Lemma stream_init : forall key iv, block16 key -> block16 iv ->
  let m := (Src_aes.globals ++ mk_objects "" mode_objs ++ [("k", bytes_object key); ("iv0", bytes_object iv); ("blk", mk_object U8 16)])%list in
  exists s1 s2,
    call P [] 200 "Aesmode::Aesmode/1" "" [VPtr "iv0" 0] (init_state m) = Ok (None, s1) /\
    call P [] 200 "keyhandle::keyhandle/1" "crypt.key." [VPtr "k" 0] s1 = Ok (None, s2) /\
    mode_rep (genall key) iv (mem s2).
Proof.
  intros key iv Bk Biv m.
  assert (Ht0 : tabs_ok m) by (repeat split; reflexivity).
  eexists. eexists. split; [|split].
  - eapply call_normal; [reflexivity | reflexivity | | | | | ].
    + cbn [f_body Src_aesmode.f_Aesmode_Aesmode_1].
      eapply x_seq.
      * st_norm. eapply x_memcpy16; [ev | ev | cbn [mem]; mget_tac | reflexivity | cbn [mem]; mget_tac | assumption].
      * st_norm. eapply x_memcpy16; [ev | ev | cbn [mem]; mget_tac | reflexivity | cbn [mem]; mget_tac | assumption].
    + reflexivity.
    + reflexivity.
    + reflexivity.
    + st_norm. reflexivity.
  - eapply (keyhandle_spec [] _ "crypt.key." 200 "k" key (repeat 0 20) (repeat 0 176)).
    + lia.
    + cbn [mem with_mem init_state]. repeat (apply tabs_ok_mset; [nt_tac|]). exact Ht0.
    + nt_tac.
    + nt_tac.
    + discriminate.
    + cbn [mem with_mem init_state]. mget_tac.
    + assumption.
    + cbn [mem with_mem init_state]. mget_tac.
    + reflexivity.
    + cbn [mem with_mem init_state]. mget_tac.
    + reflexivity.
  - unfold mode_rep. cbn [mem with_mem init_state append].
    split; [repeat (apply tabs_ok_mset; [nt_tac|]); exact Ht0|].
    split; [mget_tac|]. split; [assumption|].
    split; [exists (repeat 0 16); split; [mget_tac | reflexivity] | mget_tac].
Qed.

Theorem SRC_mode_stream_proof : forall (isenc : bool) type kind key iv blks,
  create isenc type = Some kind -> block16 key -> block16 iv -> Forall block16 blks ->
  src_mode isenc type key iv blks =
  SOk (snd (run (aes_enc_with (genall key)) (aes_dec_with (genall key)) kind iv blks)).
Proof.
  intros isenc type kind key iv blks Hc Bk Biv Bbs.
  assert (Hcls : mode_class isenc type = Some (cls_of kind, mode_objs)).
  { assert (Hm : (type <= 4)%N).
    { destruct (N.le_gt_cases type 4) as [Hle|Hgt]; [exact Hle|].
      apply (proj2 (ModesProofs.C10_factory_domain_proof isenc type)) in Hgt.
      rewrite Hgt in Hc. discriminate. }
    destruct (ModesProofs.mode_cases type Hm) as [->|[->|[->|[->| ->]]]]; destruct isenc; cbn in Hc;
      injection Hc as <-; reflexivity. }
  unfold src_mode. rewrite Hcls.
  destruct (stream_init key iv Bk Biv) as (s1 & s2 & H1 & H2 & Hrep).
  rewrite H1. cbn [of_res snd]. rewrite H2. cbn [of_res snd].
  destruct (run_blocks_spec (genall key) (genall_length key) (genall_blocks key Bk) kind blks s2 [] iv Hrep Bbs) as (s' & Hs').
  rewrite Hs'. reflexivity.
Qed.
Print Assumptions SRC_mode_stream_proof.

(* non-vacuity: a CTR stream over two blocks of the SP 800-38A vectors *)
Example SRC_mode_stream_nonvacuous :
  create true 2 = Some CTRm /\ block16 ModesProofs.ex_key /\ block16 ModesProofs.ex_ctr /\
  Forall block16 [ModesProofs.ex_p1; ModesProofs.ex_p2].
Proof. repeat split; try (vm_compute; reflexivity); repeat constructor; vm_compute; reflexivity. Qed.
