(* C01 / C02 / C03 glued: the file-level theorems (C01, C02) are about the sequential reading
   of the pipeline (FileModel.pipe_seq); C03 is about the concurrent transition system
   (PipeConc) for an arbitrary stream object.  Instantiating the stream object with the real
   mode objects (ModesModel.runcry over the AES model) transfers C01/C02 to EVERY schedule:
   every terminating concurrent execution of the encryption pipeline writes exactly the body of
   the file that [enc] specifies, and every terminating concurrent execution of the decryption
   pipeline over that body writes exactly the plaintext.
   Only the statement; the proof is one [exact] of a lemma of FileConcGlue. *)
From Wencry Require Import Bytes AesModel ModesModel ModesProofs FileModel FileSpec FileProps PipeConc PipeProps FileConcGlue.
Local Open Scope nat_scope.

Theorem C01_roundtrip_under_every_schedule : forall c hbuf T P key seed cm hm,
  enc_params c hbuf T P key seed cm hm ->
  exists F ke kd,
    enc c hbuf T P key cm hm seed = Ok F /\
    create true cm = Some ke /\ create false cm = Some kd /\
    let E := aes_enc_with (genall key) in
    let D := aes_dec_with (genall key) in
    let iv16 := firstn 16 (skipn 48 F) in
    let body := skipn (text_mark T) F in
    (forall sched s,
        run (list N) (runcry E D ke) (fun _ _ => []) c true
            (init (list N) T (repeat iv16 T) (loads_of c true P)) sched = Some s ->
        terminal (list N) s = true ->
        concat (output (list N) s) = body /\ crashed (list N) s = None) /\
    (forall sched s,
        run (list N) (runcry E D kd) (fun _ _ => []) c false
            (init (list N) T (repeat iv16 T) (loads_of c false body)) sched = Some s ->
        terminal (list N) s = true ->
        concat (output (list N) s) = P /\ crashed (list N) s = None).
Proof. exact C01_roundtrip_under_every_schedule_proof. Qed.
Print Assumptions C01_roundtrip_under_every_schedule.

(* every file that decryption accepts -- produced by encryption or not (authentic files made by other means, with an
   empty or ragged body, any pad byte) -- is decrypted to the same bytes by EVERY terminating schedule of the concurrent
   pipeline, and the load list the decryptor builds is always well formed (so C03 / C04 / C14 apply to it) *)
Theorem C03_decrypt_of_any_accepted_file_under_every_schedule : forall c hbuf T F key out,
  1 <= c -> 1 <= T -> bytes F -> dec c hbuf T F key = Ok out ->
  exists kd, create false (nth 8 F 0%N) = Some kd /\
    let E := aes_enc_with (genall key) in
    let D := aes_dec_with (genall key) in
    let iv16 := firstn 16 (skipn 48 F) in
    let ls := loads_of c false (skipn (text_mark T) F) in
    wf_loads ls /\
    forall sched s,
      run (list N) (runcry E D kd) (fun _ _ => []) c false
          (init (list N) T (repeat iv16 T) ls) sched = Some s ->
      terminal (list N) s = true ->
      concat (output (list N) s) = out /\ crashed (list N) s = None.
Proof. exact decrypt_under_every_schedule_proof. Qed.
Print Assumptions C03_decrypt_of_any_accepted_file_under_every_schedule.
