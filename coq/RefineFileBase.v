(* Groundwork for the second tier of refinement proofs (RefineFile*.v): the program file_prog as an
   extension of hash_prog, one-step equations for the statements the translated fheader.cpp /
   cry.cpp use, SNewObj allocation, creation of a hasher object by HashFactory::getHasher. *)
From Coq Require Import ZArith NArith List String Bool Lia PeanoNat.
From Wencry Require Import Bytes HashModel HashProofs MiniC MiniCRun MiniCLemmas SrcRun SrcRun2 RefineHashDefs RefineHashDriver.
From Wencry.Gen Require Src_sha256 Src_sha1 Src_md5 Src_hashmaster Src_hashbuffer Src_hashfactory Src_fheader Src_cry.
Import ListNotations.
Local Open Scope list_scope.
Local Open Scope string_scope.
Local Open Scope Z_scope.

(* ------------------------------------------------------------------------------------ *)
(** * 1. file_prog extends hash_prog                                                     *)
(* ------------------------------------------------------------------------------------ *)
Definition file_ext : program := (Src_hashfactory.functions ++ Src_fheader.functions ++ Src_cry.functions)%list.
Lemma file_prog_eq : file_prog = (hash_prog ++ file_ext)%list.
Proof.
  unfold file_prog, hash_prog, SrcRun.hash_prog, file_ext.
  repeat rewrite <- app_assoc. reflexivity.
Qed.
Lemma call_file_prog : forall vt fuel f pfx vs s r,
  call hash_prog vt fuel f pfx vs s = Ok r -> call file_prog vt fuel f pfx vs s = Ok r.
Proof. intros. rewrite file_prog_eq. apply call_prog_extend. assumption. Qed.

(* a call made from a method body: any caller locals / prefix *)
Lemma call_any_caller : forall prog vt fuel f pfx vs m l p fs ps fr v s',
  call prog vt fuel f pfx vs {| mem := m; loc := []; pre := ""; files := fs; ptrs := ps; fresh := fr |} = Ok (v, s') ->
  call prog vt fuel f pfx vs {| mem := m; loc := l; pre := p; files := fs; ptrs := ps; fresh := fr |}
  = Ok (v, {| mem := mem s'; loc := l; pre := p; files := files s'; ptrs := ptrs s'; fresh := fresh s' |}).
Proof.
  intros prog vt fuel f pfx vs m l p fs ps fr v s' Hc.
  apply (call_caller_indep prog vt fuel f pfx vs _ l p v s') in Hc. exact Hc.
Qed.

(* ------------------------------------------------------------------------------------ *)
(** * 2. One-step equations                                                              *)
(* ------------------------------------------------------------------------------------ *)
Section Steps.
Variable prog : program.
Variable vt : list (string * string).

Lemma x_prim : forall fuel ret name args s,
  exec prog vt (S fuel) (SPrim ret name args) s =
  (do vs <- eval_list s args; do r <- do_prim s name vs; let '(v, s1) := r in do s2 <- set_ret s1 ret v; Ok (Normal, s2)).
Proof. reflexivity. Qed.
Lemma x_memcpy : forall fuel d sr n s,
  exec prog vt (S fuel) (SMemcpy d sr n) s =
  (do dv <- eval s d; do sv <- eval s sr; do nv <- eval s n; do k <- as_int nv; do s' <- do_memcpy s dv sv k; Ok (Normal, s')).
Proof. reflexivity. Qed.
Lemma x_memset : forall fuel d v n s,
  exec prog vt (S fuel) (SMemset d v n) s =
  (do dv <- eval s d; do vv <- eval s v; do x <- as_int vv; do nv <- eval s n; do k <- as_int nv;
   do s' <- do_memset s dv x k; Ok (Normal, s')).
Proof. reflexivity. Qed.
Lemma x_return : forall fuel e s,
  exec prog vt (S fuel) (SReturn (Some e)) s = (do v <- eval s e; Ok (Returned (Some v), s)).
Proof. reflexivity. Qed.
Lemma x_setptr : forall fuel p e s,
  exec prog vt (S fuel) (SSetPtr p e) s =
  (do pv <- eval s p; do ev <- eval s e;
   match pv with VPtr o _ => Ok (Normal, with_ptrs s (lset (ptrs s) o ev)) | _ => UB "pointer member of a non-object" end).
Proof. reflexivity. Qed.
Lemma x_delete : forall fuel p s,
  exec prog vt (S fuel) (SDelete p) s = (do _ <- eval s p; Ok (Normal, s)).
Proof. reflexivity. Qed.
Lemma x_new : forall fuel x t n s,
  exec prog vt (S fuel) (SNew x t n) s =
  (do nv <- eval s n; do k <- as_int nv;
   if k <? 0 then UB "new[] of negative size" else
   Ok (Normal, {| mem := mset (mem s) (heap_name (fresh s)) {| o_ty := t; o_cells := repeat 0 (Z.to_nat k) |};
                  loc := lset (loc s) x (VPtr (heap_name (fresh s)) 0); pre := pre s; files := files s; ptrs := ptrs s;
                  fresh := S (fresh s) |})).
Proof. reflexivity. Qed.
Lemma x_store : forall fuel t p e s,
  exec prog vt (S fuel) (SStore t p e) s =
  (do pv <- eval s p; do ev <- eval s e; do z <- as_int ev;
   match pv with
   | VPtr o off => match mget (mem s) o with
                   | Some ob => do ob' <- store_obj ob t off z; Ok (Normal, with_mem s (mset (mem s) o ob'))
                   | None => UB ("no object " ++ o)%string
                   end
   | _ => UB "store through a non-pointer"
   end).
Proof. reflexivity. Qed.
Lemma x_localarr : forall fuel x t n s,
  exec prog vt (S fuel) (SLocalArr x t n) s =
  Ok (Normal, with_mem s (mset (mem s) ("%" ++ x) {| o_ty := t; o_cells := repeat 0 (Z.to_nat n) |})).
Proof. reflexivity. Qed.

(* a non-virtual call whose `call` is known *)
Lemma x_scall : forall fuel ret f this args s vs pfx v s' s2,
  eval_list s args = Ok vs -> this_prefix s this = Ok pfx ->
  call prog vt fuel f pfx vs s = Ok (v, s') -> set_ret s' ret v = Ok s2 ->
  exec prog vt (S fuel) (SCall ret f this args) s = Ok (Normal, s2).
Proof.
  intros fuel ret f this args s vs pfx v s' s2 Hv Hp Hc Hr.
  rewrite (exec_scall_call prog vt fuel ret f this args s vs pfx v s' Hv Hp Hc), Hr. reflexivity.
Qed.

(* new cls(args) with a constructor whose run is known *)
Lemma x_newobj : forall fuel x cls objs ctor args s vs name f l o1 s1,
  eval_list s args = Ok vs ->
  lget (ptrs s) ("alloc:" ++ cls) = Some (VPtr name 0) ->
  forallb (fun x : string * ity * Z => match mget (mem s) (name ++ fst (fst x)) with None => true | Some _ => false end) objs = true ->
  lget prog ctor = Some f -> bind_params (f_params f) vs = Ok l ->
  exec prog vt fuel (f_body f) {| mem := alloc_objs cls name objs (mem s); loc := l; pre := name; files := files s;
                                 ptrs := lset (ptrs s) (class_key name) (VPtr cls 0); fresh := S (fresh s) |} = Ok (o1, s1) ->
  exec prog vt (S fuel) (SNewObj x cls objs (Some ctor) args) s =
  Ok (Normal, {| mem := mem s1; loc := lset (loc s) x (VPtr name 0); pre := pre s; files := files s1; ptrs := ptrs s1; fresh := fresh s1 |}).
Proof.
  intros fuel x cls objs ctor args s vs name f l o1 s1 Hv Ha Hfree Hf Hl He.
  cbn [exec]. rewrite Hv. cbn [bind]. rewrite Ha. rewrite Hfree. cbn [negb]. rewrite Hf, Hl. cbn [bind mem loc pre files ptrs fresh].
  rewrite He. reflexivity.
Qed.
End Steps.

(* ------------------------------------------------------------------------------------ *)
(** * 3. alloc_objs                                                                      *)
(* ------------------------------------------------------------------------------------ *)
(* allocation without size overrides *)
Fixpoint alloc_plain (pfx : string) (l : list (string * ity * Z)) (m : memory) : memory :=
  match l with
  | [] => m
  | (name, t, n) :: r => alloc_plain pfx r (mset m (pfx ++ name) (mk_object t n))
  end.

Definition no_sizeof (m : memory) : Prop := forall k, is_prefix "sizeof:" k = true -> k <> "sizeof:filebuffer64.b" -> mget m k = None.

Lemma sizeof_prefix : forall x, is_prefix "sizeof:" ("sizeof:" ++ x) = true.
Proof. intro x. unfold is_prefix. cbn. destruct x; reflexivity. Qed.

Lemma alloc_objs_plain : forall cls pfx l m,
  (forall name t n, In (name, t, n) l -> mget m ("sizeof:" ++ cls ++ "." ++ name) = None) ->
  (forall name t n, In (name, t, n) l -> is_prefix "sizeof:" (pfx ++ name) = false) ->
  alloc_objs cls pfx l m = alloc_plain pfx l m.
Proof.
  intros cls pfx l. induction l as [|[[name t] n] r IH]; intros m Hsz Hp; cbn [alloc_objs alloc_plain]; [reflexivity|].
  rewrite (Hsz name t n (or_introl eq_refl)). apply IH.
  - intros name' t' n' Hin. rewrite mget_mset_other; [apply (Hsz name' t' n'); right; exact Hin|].
    intro E. pose proof (Hp name t n (or_introl eq_refl)) as Hq. rewrite E in Hq. rewrite sizeof_prefix in Hq. discriminate.
  - intros name' t' n' Hin. apply (Hp name' t' n'). right. exact Hin.
Qed.

Lemma alloc_plain_other : forall pfx l m k, (forall name t n, In (name, t, n) l -> k <> pfx ++ name) ->
  mget (alloc_plain pfx l m) k = mget m k.
Proof.
  intros pfx l. induction l as [|[[name t] n] r IH]; intros m k Hk; cbn [alloc_plain]; [reflexivity|].
  rewrite IH by (intros; eapply Hk; right; eassumption).
  apply mget_mset_other. apply not_eq_sym. eapply Hk. left. reflexivity.
Qed.

Lemma alloc_plain_in : forall pfx l m name t n, NoDup (map (fun x => fst (fst x)) l) -> In (name, t, n) l ->
  mget (alloc_plain pfx l m) (pfx ++ name) = Some (mk_object t n).
Proof.
  intros pfx l. induction l as [|[[name0 t0] n0] r IH]; intros m name t n Hnd Hin; [destruct Hin|].
  cbn [alloc_plain]. cbn [map fst] in Hnd. apply NoDup_cons_iff in Hnd. destruct Hnd as [Hni Hnd].
  destruct Hin as [E|Hin].
  - injection E as -> -> ->. rewrite alloc_plain_other; [apply mget_mset_same|].
    intros name' t' n' Hin' E. apply Hni. apply in_map_iff. exists (name', t', n'). split; [|exact Hin'].
    cbn [fst]. clear - E. revert E. generalize pfx. induction pfx0 as [|c p IHp]; cbn; intro E; [congruence|]. injection E as E. auto.
  - apply IH; assumption.
Qed.

(* ------------------------------------------------------------------------------------ *)
(** * 4. A new hasher object: SNewObj at the root prefix, constructor = reset()          *)
(* ------------------------------------------------------------------------------------ *)
Definition zero_st (n : nat) : hstate := {| hs_h := repeat 0%N n; hs_total := 0%N |}.

Definition not_member (objs : list (string * ity * Z)) (k : string) : Prop :=
  forall name t n, In (name, t, n) objs -> k <> name.

Section NewHasher.
Variable cls : string.
Variable a : halg.
Variable objs : list (string * ity * Z).
Variable globs : memory.
Variable vt : list (string * string).
Variable F : nat.
Hypothesis H : class_spec cls a objs globs vt F.
Variable nh : nat.
Hypothesis Hnd : NoDup (map (fun x : string * ity * Z => fst (fst x)) objs).
Hypothesis Hh : In ("h", U32, Z.of_nat nh) objs.
Hypothesis Htot : In ("totalsize", U64, 1) objs.
Hypothesis Hnh : List.length (ha_init a) = nh.
Hypothesis Hnosz : forall name t n, In (name, t, n) objs -> is_prefix "sizeof:" name = false.
Hypothesis Hglob_names : forall k o, mget globs k = Some o -> not_member objs k.
Hypothesis Hpos : forall name t n, In (name, t, n) objs -> 0 <= n.
Hypothesis Hcls_fb : forall name, "sizeof:" ++ cls ++ "." ++ name <> "sizeof:filebuffer64.b".

Let hok := hasher_ok a objs globs.

Lemma alloc_hok : forall m,
  no_sizeof m -> globals_ok globs m ->
  hok (zero_st nh) (alloc_objs cls "" objs m) /\
  (forall k, not_member objs k -> mget (alloc_objs cls "" objs m) k = mget m k).
Proof.
  intros m Hsz Hgl.
  assert (E : alloc_objs cls "" objs m = alloc_plain "" objs m).
  { apply alloc_objs_plain.
    - intros name t n Hin. apply Hsz; [apply sizeof_prefix|].
      apply Hcls_fb.
    - intros name t n Hin. cbn [append]. apply (Hnosz name t n Hin). }
  rewrite E. split.
  - split; [split|split; [|split; [|split; [|split]]]].
    + change "h" with ("" ++ "h"). rewrite (alloc_plain_in "" objs m "h" U32 (Z.of_nat nh) Hnd Hh).
      unfold mk_object, u32_obj, zero_st. cbn [hs_h]. rewrite Nat2Z.id. f_equal. f_equal.
      clear. induction nh as [|k IH]; cbn [repeat map]; [reflexivity|]. rewrite <- IH. reflexivity.
    + change "totalsize" with ("" ++ "totalsize"). rewrite (alloc_plain_in "" objs m "totalsize" U64 1 Hnd Htot). reflexivity.
    + intros name t n Hin. exists (mk_object t n). split.
      * change name with ("" ++ name) at 1. apply alloc_plain_in; assumption.
      * split; [reflexivity|]. unfold mk_object. cbn [o_cells]. rewrite repeat_length. rewrite Z2Nat.id; [reflexivity|]. eapply Hpos, Hin.
    + intros k o Hk. rewrite alloc_plain_other; [apply Hgl, Hk|]. intros name t n Hin. cbn [append]. eapply Hglob_names; eassumption.
    + cbn [zero_st hs_h]. rewrite repeat_length. symmetry. exact Hnh.
    + cbn [zero_st hs_h]. clear. induction nh as [|k IH]; cbn [repeat]; constructor; [reflexivity|exact IH].
    + reflexivity.
  - intros k Hk. apply alloc_plain_other. intros name t n Hin. cbn [append]. eapply Hk, Hin.
Qed.

Lemma new_hasher : forall fuel s x ctor,
  (F + 1 <= fuel)%nat ->
  lget file_prog ctor = Some {| f_params := []; f_body := SCallVirt None "reset/0" None [] |} ->
  lget (ptrs s) ("alloc:" ++ cls) = Some (VPtr "" 0) ->
  no_sizeof (mem s) -> globals_ok globs (mem s) ->
  (forall name t n, In (name, t, n) objs -> mget (mem s) name = None) ->
  exists m' fr',
    exec file_prog vt (S fuel) (SNewObj x cls objs (Some ctor) []) s =
      Ok (Normal, {| mem := m'; loc := lset (loc s) x (VPtr "" 0); pre := pre s; files := files s;
                     ptrs := lset (ptrs s) (class_key "") (VPtr cls 0); fresh := fr' |}) /\
    hok (reset a) m' /\ (S (fresh s) <= fr')%nat /\
    (forall k, passable_at (fresh s) k -> not_member objs k -> mget m' k = mget (mem s) k).
Proof.
  intros fuel s x ctor Hfuel Hctor Halloc Hsz Hgl Habs.
  destruct (alloc_hok (mem s) Hsz Hgl) as [Hok0 Hoth0].
  destruct fuel as [|fuel]; [lia|].
  set (s0 := {| mem := alloc_objs cls "" objs (mem s); loc := []; pre := ""; files := files s;
                ptrs := lset (ptrs s) (class_key "") (VPtr cls 0); fresh := S (fresh s) |}).
  destruct (cs_reset _ _ _ _ _ _ H s0 (zero_st nh) fuel ltac:(lia) eq_refl Hok0) as (s' & Hc & Hok' & Hfr & Hhk & Hio).
  apply call_file_prog in Hc.
  destruct Hio as (Hl & Hp & Hf & Hpt & Hfresh). cbn [s0 loc pre files ptrs fresh] in Hl, Hp, Hf, Hpt, Hfresh.
  exists (mem s'), (fresh s'). split; [|split; [exact Hok'|split; [lia|]]].
  - assert (E : exec file_prog vt (S (S fuel)) (SNewObj x cls objs (Some ctor) []) s =
                Ok (Normal, {| mem := mem s'; loc := lset (loc s) x (VPtr "" 0); pre := pre s; files := files s';
                               ptrs := ptrs s'; fresh := fresh s' |})).
    { eapply x_newobj with (vs := []) (name := "") (l := []) (o1 := Normal).
      + reflexivity.
      + exact Halloc.
      + apply forallb_forall. intros [[name t] n] Hin. cbn [fst append]. rewrite (Habs name t n Hin). reflexivity.
      + exact Hctor.
      + reflexivity.
      + cbn [f_body]. fold s0.
        apply (exec_callvirt file_prog vt fuel None "reset/0" None [] s0 [] "" cls None s' s' eq_refl eq_refl (cs_vt _ _ _ _ _ _ H) Hc eq_refl). }
    rewrite E, Hf, Hpt. reflexivity.
  - intros k Hk Hnm. rewrite <- (Hoth0 k Hnm).
    destruct Hk as [Hk|(n & Hn & ->)].
    + apply Hfr, Hk.
    + apply (Hhk n). cbn [s0 fresh]. lia.
Qed.
End NewHasher.

(* ------------------------------------------------------------------------------------ *)
(** * 5. HashFactory::getType / getHasher and the two size getters, for the three classes *)
(* ------------------------------------------------------------------------------------ *)
Notation St m l p fs ps fr := {| mem := m; loc := l; pre := p; files := fs; ptrs := ps; fresh := fr |}.

Record factory_spec (cls : string) (a : halg) (objs : list (string * ity * Z)) (globs : memory)
       (vt : list (string * string)) (F : nat) (hmz : Z) : Prop := {
  fa_type : forall fuel m l p0 fs ps fr p, (6 <= fuel)%nat ->
     call file_prog vt fuel "HashFactory::getType/1" p [VInt hmz] (St m l p0 fs ps fr) = Ok (Some (VInt hmz), St m l p0 fs ps fr);
  fa_hasher : forall fuel m l p0 fs ps fr p, (F + 8 <= fuel)%nat ->
     lget ps ("alloc:" ++ cls) = Some (VPtr "" 0) -> no_sizeof m -> globals_ok globs m ->
     (forall name t n, In (name, t, n) objs -> mget m name = None) ->
     exists m' fr', call file_prog vt fuel "HashFactory::getHasher/1" p [VInt hmz] (St m l p0 fs ps fr) =
        Ok (Some (VPtr "" 0), St m' l p0 fs (lset ps (class_key "") (VPtr cls 0)) fr') /\
       hasher_ok a objs globs (reset a) m' /\ (S fr <= fr')%nat /\
       (forall k, passable_at fr k -> not_member objs k -> mget m' k = mget m k);
  fa_blen : forall fuel m l p0 fs ps fr, (2 <= fuel)%nat ->
     call file_prog vt fuel (cls ++ "::getblen/0") "" [] (St m l p0 fs ps fr) = Ok (Some (VInt 64), St m l p0 fs ps fr);
  fa_hlen : forall fuel m l p0 fs ps fr, (2 <= fuel)%nat ->
     call file_prog vt fuel (cls ++ "::gethlen/0") "" [] (St m l p0 fs ps fr) = Ok (Some (VInt (Z.of_nat (ha_hlen a))), St m l p0 fs ps fr) }.

Tactic Notation "fuel_S" integer(n) ident(fuel) := do n (destruct fuel as [|fuel]; [lia|]).
Ltac in_objs Hin := cbn [In] in Hin; repeat (destruct Hin as [Hin|Hin]; [inversion Hin; subst; clear Hin|]); [..|destruct Hin].

Lemma factory_sha1 : forall vt F, class_spec "sha1hash" alg_sha1 Src_sha1.objects_sha1hash Src_sha1.globals vt F ->
  factory_spec "sha1hash" alg_sha1 Src_sha1.objects_sha1hash Src_sha1.globals vt F 0.
Proof.
  intros vt F H. constructor.
  - intros fuel m l p0 fs ps fr p Hf. fuel_S 6 fuel. reflexivity.
  - intros fuel m l p0 fs ps fr p Hf Hal Hsz Hgl Habs. fuel_S 4 fuel.
    set (s1 := St m [("type", VInt 0); ("$t1", VInt 0)] p fs ps fr).
    destruct (new_hasher "sha1hash" alg_sha1 Src_sha1.objects_sha1hash Src_sha1.globals vt F H 5%nat) with (fuel := fuel) (s := s1) (x := "$t2") (ctor := "sha1hash::sha1hash/0")
      as (m' & fr' & E & Hok & Hfr & Hoth); try assumption; try reflexivity; try lia.
    + repeat constructor; cbn; intuition discriminate.
    + cbn; auto.
    + cbn; auto.
    + intros name t n Hin. in_objs Hin; reflexivity.
    + intros k o Hk. discriminate.
    + intros name t n Hin. in_objs Hin; lia.
    + intros name E. discriminate E.
    + exists m', fr'. split; [|auto].
      unfold call. change (lget file_prog "HashFactory::getHasher/1") with (Some Src_hashfactory.f_HashFactory_getHasher_1).
      cbn [f_params f_body Src_hashfactory.f_HashFactory_getHasher_1 bind_params bind mem loc pre files ptrs fresh].
      rewrite exec_seq. rewrite exec_set. cbn [eval bind lget loc String.eqb Ascii.eqb Bool.eqb as_int]. change (wrap I32 0) with 0.
      unfold with_loc. cbn [lset String.eqb Ascii.eqb Bool.eqb mem loc pre files ptrs fresh].
      rewrite exec_if. cbn [eval bind lget loc String.eqb Ascii.eqb Bool.eqb as_int eval_bin]. change (0 =? 0) with true. cbv iota. change (1 =? 0) with false. cbv iota.
      rewrite exec_seq. unfold Src_sha1.objects_sha1hash , s1 in E. rewrite E. cbn [bind].
      rewrite x_return. cbn [eval bind lget loc lset String.eqb Ascii.eqb Bool.eqb s1 mem pre files ptrs fresh]. reflexivity.
  - intros fuel m l p0 fs ps fr Hf. fuel_S 2 fuel. reflexivity.
  - intros fuel m l p0 fs ps fr Hf. fuel_S 2 fuel. reflexivity.
Qed.

Lemma factory_md5 : forall vt F, class_spec "md5hash" alg_md5 Src_md5.objects_md5hash Src_md5.globals vt F ->
  factory_spec "md5hash" alg_md5 Src_md5.objects_md5hash Src_md5.globals vt F 1.
Proof.
  intros vt F H. constructor.
  - intros fuel m l p0 fs ps fr p Hf. fuel_S 6 fuel. reflexivity.
  - intros fuel m l p0 fs ps fr p Hf Hal Hsz Hgl Habs. fuel_S 5 fuel.
    set (s1 := St m [("type", VInt 1); ("$t1", VInt 1)] p fs ps fr).
    destruct (new_hasher "md5hash" alg_md5 Src_md5.objects_md5hash Src_md5.globals vt F H 4%nat) with (fuel := fuel) (s := s1) (x := "$t3") (ctor := "md5hash::md5hash/0")
      as (m' & fr' & E & Hok & Hfr & Hoth); try assumption; try reflexivity; try lia.
    + repeat constructor; cbn; intuition discriminate.
    + cbn; auto.
    + cbn; auto.
    + intros name t n Hin. in_objs Hin; reflexivity.
    + intros k o Hk. discriminate.
    + intros name t n Hin. in_objs Hin; lia.
    + intros name E. discriminate E.
    + exists m', fr'. split; [|auto].
      unfold call. change (lget file_prog "HashFactory::getHasher/1") with (Some Src_hashfactory.f_HashFactory_getHasher_1).
      cbn [f_params f_body Src_hashfactory.f_HashFactory_getHasher_1 bind_params bind mem loc pre files ptrs fresh].
      rewrite exec_seq. rewrite exec_set. cbn [eval bind lget loc String.eqb Ascii.eqb Bool.eqb as_int]. change (wrap I32 1) with 1.
      unfold with_loc. cbn [lset String.eqb Ascii.eqb Bool.eqb mem loc pre files ptrs fresh].
      rewrite exec_if. cbn [eval bind lget loc String.eqb Ascii.eqb Bool.eqb as_int eval_bin]. change (1 =? 0) with false. cbv iota. change (0 =? 0) with true. cbv iota.
      rewrite exec_if. cbn [eval bind lget loc String.eqb Ascii.eqb Bool.eqb as_int eval_bin]. change (1 =? 1) with true. cbv iota. change (1 =? 0) with false. cbv iota.
      rewrite exec_seq. unfold Src_md5.objects_md5hash , s1 in E. rewrite E. cbn [bind].
      rewrite x_return. cbn [eval bind lget loc lset String.eqb Ascii.eqb Bool.eqb s1 mem pre files ptrs fresh]. reflexivity.
  - intros fuel m l p0 fs ps fr Hf. fuel_S 2 fuel. reflexivity.
  - intros fuel m l p0 fs ps fr Hf. fuel_S 2 fuel. reflexivity.
Qed.

Lemma factory_sha256 : forall vt F, class_spec "sha256hash" alg_sha256 Src_sha256.objects_sha256hash Src_sha256.globals vt F ->
  factory_spec "sha256hash" alg_sha256 Src_sha256.objects_sha256hash Src_sha256.globals vt F 2.
Proof.
  intros vt F H. constructor.
  - intros fuel m l p0 fs ps fr p Hf. fuel_S 6 fuel. reflexivity.
  - intros fuel m l p0 fs ps fr p Hf Hal Hsz Hgl Habs. fuel_S 6 fuel.
    set (s1 := St m [("type", VInt 2); ("$t1", VInt 2)] p fs ps fr).
    destruct (new_hasher "sha256hash" alg_sha256 Src_sha256.objects_sha256hash Src_sha256.globals vt F H 8%nat) with (fuel := fuel) (s := s1) (x := "$t4") (ctor := "sha256hash::sha256hash/0")
      as (m' & fr' & E & Hok & Hfr & Hoth); try assumption; try reflexivity; try lia.
    + repeat constructor; cbn; intuition discriminate.
    + cbn; auto.
    + cbn; auto.
    + intros name t n Hin. in_objs Hin; reflexivity.
    + intros k o Hk. unfold Src_sha256.globals in Hk. cbn [mget] in Hk.
      destruct (String.eqb_spec k "k") as [->|]; [|discriminate].
      intros name t n Hin. in_objs Hin; discriminate.
    + intros name t n Hin. in_objs Hin; lia.
    + intros name E. discriminate E.
    + exists m', fr'. split; [|auto].
      unfold call. change (lget file_prog "HashFactory::getHasher/1") with (Some Src_hashfactory.f_HashFactory_getHasher_1).
      cbn [f_params f_body Src_hashfactory.f_HashFactory_getHasher_1 bind_params bind mem loc pre files ptrs fresh].
      rewrite exec_seq. rewrite exec_set. cbn [eval bind lget loc String.eqb Ascii.eqb Bool.eqb as_int]. change (wrap I32 2) with 2.
      unfold with_loc. cbn [lset String.eqb Ascii.eqb Bool.eqb mem loc pre files ptrs fresh].
      rewrite exec_if. cbn [eval bind lget loc String.eqb Ascii.eqb Bool.eqb as_int eval_bin]. change (2 =? 0) with false. cbv iota. change (0 =? 0) with true. cbv iota.
      rewrite exec_if. cbn [eval bind lget loc String.eqb Ascii.eqb Bool.eqb as_int eval_bin]. change (2 =? 1) with false. cbv iota. change (0 =? 0) with true. cbv iota.
      rewrite exec_if. cbn [eval bind lget loc String.eqb Ascii.eqb Bool.eqb as_int eval_bin]. change (2 =? 2) with true. cbv iota. change (1 =? 0) with false. cbv iota.
      rewrite exec_seq. unfold Src_sha256.objects_sha256hash , s1 in E. rewrite E. cbn [bind].
      rewrite x_return. cbn [eval bind lget loc lset String.eqb Ascii.eqb Bool.eqb s1 mem pre files ptrs fresh]. reflexivity.
  - intros fuel m l p0 fs ps fr Hf. fuel_S 2 fuel. reflexivity.
  - intros fuel m l p0 fs ps fr Hf. fuel_S 2 fuel. reflexivity.
Qed.

(* ------------------------------------------------------------------------------------ *)
(** * 6. new filebuffer64(...) at "buf.", constructors given by a `call`                  *)
(* ------------------------------------------------------------------------------------ *)
Lemma call_inv : forall prog vt fuel f pfx vs s v s',
  call prog vt fuel f pfx vs s = Ok (v, s') ->
  exists fn l o s1, lget prog f = Some fn /\ bind_params (f_params fn) vs = Ok l /\
    exec prog vt fuel (f_body fn) {| mem := mem s; loc := l; pre := pfx; files := files s; ptrs := ptrs s; fresh := fresh s |} = Ok (o, s1) /\
    v = match o with Returned v => v | _ => None end /\
    s' = {| mem := mem s1; loc := loc s; pre := pre s; files := files s1; ptrs := ptrs s1; fresh := fresh s1 |}.
Proof.
  unfold call. intros prog vt fuel f pfx vs s v s' Hc. destruct (lget prog f) as [fn|]; [|discriminate].
  apply bind_Ok in Hc. destruct Hc as [l [Hl Hc]]. apply bind_Ok in Hc. destruct Hc as [[o s1] [H1 Hc]].
  injection Hc as <- <-. exists fn, l, o, s1. auto.
Qed.

Lemma x_newobj_call : forall prog vt fuel x cls objs ctor args s vs name v s' l0 p0,
  eval_list s args = Ok vs ->
  lget (ptrs s) ("alloc:" ++ cls) = Some (VPtr name 0) ->
  forallb (fun x : string * ity * Z => match mget (mem s) (name ++ fst (fst x)) with None => true | Some _ => false end) objs = true ->
  call prog vt fuel ctor name vs {| mem := alloc_objs cls name objs (mem s); loc := l0; pre := p0; files := files s;
                                   ptrs := lset (ptrs s) (class_key name) (VPtr cls 0); fresh := S (fresh s) |} = Ok (v, s') ->
  exec prog vt (S fuel) (SNewObj x cls objs (Some ctor) args) s =
  Ok (Normal, {| mem := mem s'; loc := lset (loc s) x (VPtr name 0); pre := pre s; files := files s'; ptrs := ptrs s'; fresh := fresh s' |}).
Proof.
  intros prog vt fuel x cls objs ctor args s vs name v s' l0 p0 Hv Ha Hfree Hc.
  apply call_inv in Hc. destruct Hc as (fn & l & o & s1 & Hf & Hl & He & _ & ->). cbn [mem loc pre files ptrs fresh] in He.
  rewrite (x_newobj prog vt fuel x cls objs ctor args s vs name fn l o s1 Hv Ha Hfree Hf Hl He). reflexivity.
Qed.

Definition fb_objs : list (string * ity * Z) :=
  [("percentage", I32, 1); ("b", U8, 33554432); ("extra_entry", U8, 64); ("has_extra", TBool, 1); ("total", U32, 1); ("now", U32, 1); ("tail", U8, 1)].

Lemma fb_alloc : forall hbuf m, no_sizeof m -> mget m "sizeof:filebuffer64.b" = Some (cell1 U32 (64 * Z.of_nat hbuf)) ->
  mget m "HBUF_SZ" = Some (cell1 U32 (Z.of_nat hbuf)) ->
  fb_shape hbuf (alloc_objs "filebuffer64" "buf." fb_objs m) /\
  (forall k, is_prefix "buf." k = false -> mget (alloc_objs "filebuffer64" "buf." fb_objs m) k = mget m k).
Proof.
  intros hbuf m Hsz Hb Hhb. unfold fb_objs. cbn [alloc_objs append].
  pose proof (Hsz "sizeof:filebuffer64.percentage" eq_refl ltac:(discriminate)) as Z1.
  pose proof (Hsz "sizeof:filebuffer64.extra_entry" eq_refl ltac:(discriminate)) as Z2.
  pose proof (Hsz "sizeof:filebuffer64.has_extra" eq_refl ltac:(discriminate)) as Z3.
  pose proof (Hsz "sizeof:filebuffer64.total" eq_refl ltac:(discriminate)) as Z4.
  pose proof (Hsz "sizeof:filebuffer64.now" eq_refl ltac:(discriminate)) as Z5.
  pose proof (Hsz "sizeof:filebuffer64.tail" eq_refl ltac:(discriminate)) as Z6.
  repeat first [ rewrite mget_mset_other by discriminate | rewrite Hb | rewrite Z1 | rewrite Z2 | rewrite Z3 | rewrite Z4 | rewrite Z5 | rewrite Z6 ].
  cbn [nth o_cells cell1].
  split.
  - constructor.
    + repeat rewrite mget_mset_other by discriminate. exact Hhb.
    + eexists. repeat rewrite mget_mset_other by discriminate. rewrite mget_mset_same. split; [reflexivity|].
      rewrite repeat_length. lia.
    + eexists. repeat rewrite mget_mset_other by discriminate. rewrite mget_mset_same. split; reflexivity.
    + eexists. repeat rewrite mget_mset_other by discriminate. rewrite mget_mset_same. reflexivity.
    + eexists. repeat rewrite mget_mset_other by discriminate. rewrite mget_mset_same. reflexivity.
    + eexists. repeat rewrite mget_mset_other by discriminate. rewrite mget_mset_same. reflexivity.
    + eexists. rewrite mget_mset_same. reflexivity.
  - intros k Hk. repeat rewrite mget_mset_other by (intro E; rewrite <- E in Hk; discriminate Hk). reflexivity.
Qed.

(* ------------------------------------------------------------------------------------ *)
(** * 7. The hasher is not disturbed by changes to objects that are not its own           *)
(* ------------------------------------------------------------------------------------ *)
Definition hasher_names (objs : list (string * ity * Z)) (globs : memory) : list string :=
  ("h" :: "totalsize" :: map (fun x : string * ity * Z => fst (fst x)) objs ++ map fst globs)%list.

Lemma mget_in : forall (m : memory) k o, mget m k = Some o -> In k (map fst m).
Proof.
  induction m as [|[k' o'] r IH]; intros k o Hk; cbn [mget] in Hk; [discriminate|].
  cbn [map fst]. destruct (String.eqb_spec k k') as [->|]; [left; reflexivity|right; eapply IH, Hk].
Qed.

Lemma hok_same : forall a objs globs st m m',
  hasher_ok a objs globs st m -> (forall k, In k (hasher_names objs globs) -> mget m' k = mget m k) ->
  hasher_ok a objs globs st m'.
Proof.
  intros a objs globs st m m' ((Hh & Ht) & Hsc & Hgl & Hrest) Hs. unfold hasher_names in Hs.
  split; [split|split; [|split]].
  - rewrite Hs by (left; reflexivity). exact Hh.
  - rewrite Hs by (right; left; reflexivity). exact Ht.
  - intros name t n Hin. destruct (Hsc name t n Hin) as (o & Ho & Hsh). exists o. split; [|exact Hsh].
    rewrite Hs; [exact Ho|]. right. right. apply in_or_app. left. apply in_map_iff. exists (name, t, n). auto.
  - intros k o Hk. rewrite Hs; [apply Hgl, Hk|]. right. right. apply in_or_app. right. eapply mget_in, Hk.
  - exact Hrest.
Qed.
