(* Symbolic-execution lemmas and tactics for the option front end *)
From Coq Require Import ZArith NArith List String Bool Lia.
From Wencry Require Import Bytes MiniC MiniCRun MiniCLemmas SrcRun SrcRun3 CliConc RefineB64Lib RefineCliLib.
Import ListNotations.
Local Open Scope Z_scope.
Local Open Scope string_scope.
Local Open Scope list_scope.

Section X2.
Variable prog : program.
Variable vt : list (string * string).
Lemma x_seq_gen fuel a b s o s1 r :
  exec prog vt fuel a s = Ok (o, s1) ->
  match o with Normal => exec prog vt fuel b s1 | _ => Ok (o, s1) end = r ->
  exec prog vt (S fuel) (SSeq a b) s = r.
Proof. intros H1 H2. rewrite exec_seq, H1. exact H2. Qed.
Lemma x_if_gen fuel c a b s x r :
  eval s c = Ok (VInt x) -> (if Z.eqb x 0 then exec prog vt fuel b s else exec prog vt fuel a s) = r ->
  exec prog vt (S fuel) (SIf c a b) s = r.
Proof. intros H1 H2. rewrite exec_if, H1. exact H2. Qed.
Lemma x_skip fuel s : exec prog vt (S fuel) SSkip s = Ok (Normal, s).
Proof. reflexivity. Qed.
Lemma x_break fuel s : exec prog vt (S fuel) SBreak s = Ok (Broke, s).
Proof. reflexivity. Qed.
Lemma x_setptrcell fuel p e s o off v s' :
  eval s p = Ok (VPtr o off) -> eval s e = Ok v -> s' = with_ptrs s (lset (ptrs s) (ptr_key o off) v) ->
  exec prog vt (S fuel) (SSetPtrCell p e) s = Ok (Normal, s').
Proof. intros H1 H2 ->. cbn [exec]. rewrite H1, H2. reflexivity. Qed.
Lemma x_new fuel x t n s k s' :
  eval s n = Ok (VInt k) -> 0 <= k ->
  s' = {| mem := mset (mem s) (heap_name (fresh s)) {| o_ty := t; o_cells := repeat 0 (Z.to_nat k) |};
          loc := lset (loc s) x (VPtr (heap_name (fresh s)) 0); pre := pre s; files := files s; ptrs := ptrs s; fresh := S (fresh s) |} ->
  exec prog vt (S fuel) (SNew x t n) s = Ok (Normal, s').
Proof.
  intros H1 H2 ->. cbn [exec]. rewrite H1. cbn [bind as_int]. destruct (Z.ltb_spec k 0); [lia|]. reflexivity.
Qed.
Lemma x_delete fuel p s v : eval s p = Ok v -> exec prog vt (S fuel) (SDelete p) s = Ok (Normal, s).
Proof. intros H. cbn [exec]. rewrite H. reflexivity. Qed.
Lemma x_return_none fuel s : exec prog vt (S fuel) (SReturn None) s = Ok (Returned None, s).
Proof. reflexivity. Qed.
Lemma x_loop_break fuel c body step s x s1 :
  eval s c = Ok (VInt x) -> x <> 0 -> exec prog vt fuel body s = Ok (Broke, s1) ->
  exec prog vt (S fuel) (SLoop c body step) s = Ok (Normal, s1).
Proof.
  intros H1 H2 H3. rewrite exec_loop, H1. cbn [bind as_int]. apply Z.eqb_neq in H2. rewrite H2. rewrite H3. reflexivity.
Qed.
Lemma x_prim_gen fuel ret name args s vs v s1 r :
  eval_list s args = Ok vs -> do_prim s name vs = Ok (v, s1) -> (do s2 <- set_ret s1 ret v; Ok (Normal, s2)) = r ->
  exec prog vt (S fuel) (SPrim ret name args) s = r.
Proof. intros H1 H2 H3. cbn [exec]. rewrite H1. cbn [bind]. rewrite H2. exact H3. Qed.
Lemma x_call_gen fuel ret fname args s vs f l o s1 r :
  eval_list s args = Ok vs -> lget prog fname = Some f -> bind_params (f_params f) vs = Ok l ->
  exec prog vt fuel (f_body f) {| mem := mem s; loc := l; pre := pre s; files := files s; ptrs := ptrs s; fresh := fresh s |} = Ok (o, s1) ->
  (do s2 <- set_ret {| mem := mem s1; loc := loc s; pre := pre s; files := files s1; ptrs := ptrs s1; fresh := fresh s1 |} ret
          (match o with Returned v => v | _ => None end); Ok (Normal, s2)) = r ->
  exec prog vt (S fuel) (SCall ret fname None args) s = r.
Proof.
  intros H1 H2 H3 H4 H5. cbn [exec]. rewrite H1. cbn [bind this_prefix]. rewrite H2, H3. cbn [bind].
  rewrite H4. exact H5.
Qed.
End X2.

(* pointer-valued cells (NULL or an address): what the null tests in front of the dropped fclose calls need *)
Definition pv (v : value) : Prop := match v with VInt _ => False | _ => True end.
Lemma x_fclose_skip : forall prog vt fuel e s v,
  eval s e = Ok v -> pv v ->
  exec prog vt (S (S fuel)) (SIf (EUn TBool LNot (EIsNull e)) SSkip SSkip) s = Ok (Normal, s).
Proof.
  intros prog vt fuel e s v He Hp. rewrite exec_if. cbn [eval]. rewrite He. cbn [bind].
  destruct v as [z|o off|]; [contradiction| |]; reflexivity.
Qed.

Definition streamname (fp : nat) : string := "@stream" ++ nat_string fp.
Arguments argname : simpl never.
Arguments streamname : simpl never.
Arguments res_obj : simpl never.
Arguments gfiles : simpl never.

Ltac is_plit p := lazymatch p with xH => idtac | xO ?q => is_plit q | xI ?q => is_plit q end.
Ltac is_zlit z := lazymatch z with Z0 => idtac | Zpos ?p => is_plit p | Zneg ?p => is_plit p end.
Ltac lits :=
  repeat match goal with
  | |- context [wrap ?t ?z] => is_zlit z; let v := eval vm_compute in (wrap t z) in change (wrap t z) with v
  | |- context [arith ?t ?z] => is_zlit z; let v := eval vm_compute in (arith t z) in change (arith t z) with v
  end.
Ltac ev2 := cbn -[arith wrap load_obj store_obj Z.modulo Z.pow Z.of_nat Z.to_nat mget mset heap_name argname streamname res_obj ptr_key gfiles
                  Z.shiftl Z.shiftr Z.land Z.lor repeat].
Lemma pk0 : forall o, ptr_key o 0 = o. Proof. reflexivity. Qed.
Lemma pk8 : ptr_key "#0" 8 = "#0@8". Proof. reflexivity. Qed.
Lemma pk16 : ptr_key "#0" 16 = "#0@16". Proof. reflexivity. Qed.
Ltac evr2 tac := repeat first [progress ev2 | progress lits | rewrite pk0 | rewrite pk8 | rewrite pk16 | rewrite mget_mset_same | tac].
Ltac stn := unfold with_loc, with_mem, with_ptrs, with_files, mk;
  cbn [lset mset loc mem pre files ptrs fresh String.eqb Ascii.eqb Bool.eqb andb app]; try reflexivity.

(* run a statement symbolically; tac rewrites the stuck memory lookups / loads / stores *)
Ltac xrun tac :=
  cbv iota;
  lazymatch goal with
  | |- exec _ _ _ (SSeq _ _) _ = _ => eapply x_seq_gen; [xrun tac | xrun tac]
  | |- exec _ _ _ (SSet _ _) _ = _ => eapply x_set; [evr2 tac; reflexivity | stn]
  | |- exec _ _ _ (SIf (EUn TBool LNot (EIsNull _)) SSkip SSkip) _ = _ => eapply x_fclose_skip; [evr2 tac; reflexivity | assumption]
  | |- exec _ _ _ (SIf _ _ _) _ = _ => eapply x_if_gen; [evr2 tac; reflexivity | cbn [Z.eqb Pos.eqb]; xrun tac]
  | |- exec _ _ _ SSkip _ = _ => apply x_skip
  | |- exec _ _ _ SBreak _ = _ => apply x_break
  | |- exec _ _ _ (SReturn (Some _)) _ = _ => eapply x_return; evr2 tac; reflexivity
  | |- exec _ _ _ (SDelete _) _ = _ => eapply x_delete; evr2 tac; reflexivity
  | |- exec _ _ _ (SStore _ _ _) _ = _ =>
      eapply x_store; [evr2 tac; reflexivity | evr2 tac; reflexivity | evr2 tac; reflexivity | evr2 tac; reflexivity | stn]
  | |- exec _ _ _ (SSetPtrCell _ _) _ = _ => eapply x_setptrcell; [evr2 tac; reflexivity | evr2 tac; reflexivity | evr2 tac; stn]
  | |- Ok _ = _ => reflexivity
  | _ => idtac
  end.

Lemma prim_fopen_null : forall m l D gp F fp ps fr fdone ftodo v,
  F = fdone ++ 0 :: ftodo -> fp = List.length fdone ->
  do_prim (mk m l (gfiles D gp F fp) ps fr) "fopen" [v] = Ok (Some VNull, mk m l (gfiles D gp F (S fp)) ps fr).
Proof. intros. erewrite prim_fopen by eauto. reflexivity. Qed.
Lemma prim_fopen_ok : forall m l D gp F fp ps fr fdone ftodo v,
  F = fdone ++ 1 :: ftodo -> fp = List.length fdone ->
  do_prim (mk m l (gfiles D gp F fp) ps fr) "fopen" [v] = Ok (Some (VPtr (streamname fp) 0), mk m l (gfiles D gp F (S fp)) ps fr).
Proof. intros. erewrite prim_fopen by eauto. reflexivity. Qed.
Ltac xprim L := eapply x_prim; [evr2 fail; reflexivity | eapply L; eauto | stn].
