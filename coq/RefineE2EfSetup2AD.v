(* Stage 5, execute_decrypt, second set-up step, first sequential stretch (RefineE2EfDecSpec.gi_if_spec_d): decrypt copy of RefineE2EfSetup2A. *)
From Coq Require Import ZArith NArith List String Bool Lia Ascii Arith.
From Wencry Require Import Bytes AesModel ModesModel HashModel FileSpec FileModel FileProps PipeConc MiniC MiniCLemmas MiniCRun MiniCConc SrcRun SrcRun2 SrcRun5 PipeLemmas RefineE2EWhole.
From Wencry Require RefineConcMem RefineE2ENames RefineAesLib.
From Wencry Require Import RefineE2EfLay RefineE2EfTac RefineE2EfWNames RefineE2EfWLay RefineE2EfTail RefineE2EfEncDefs RefineE2EfHashSpec RefineE2EfEnc2 RefineE2EfHashB3
     RefineE2EfSetup1 RefineE2EfSetup2Spec RefineE2EfSetup2A RefineE2EfDecSpec RefineE2EfDecInst.
From Wencry.Gen Require Src_conc Src_whole.
Import ListNotations.
Local Open Scope list_scope.
Local Open Scope string_scope.

Section AD.
Variables (c hbuf T : nat) (F key : list N) (h n : nat) (extra : memory) (pextra : locs) (kd : mkind).
Hypothesis HT : (1 <= T <= 16)%nat.
Hypothesis Hkey : block16 key.
Hypothesis Hiv : block16 (firstn 16 (skipn 48 F)).
Hypothesis Hn : (n < h)%nat.
Hypothesis Hext : ext_mem_ok h extra = true.
Hypothesis Hpext : ext_ptr_ok h pextra = true.
Hypothesis Hnsz : no_sizeof_names extra = true.
Hypothesis Hnal : no_alloc_keys pextra = true.
Notation PW := (PWd hbuf T F key h n extra pextra kd).
Let OKW : wpar_ok PW := PWdec_ok hbuf T F key HT Hkey Hiv h n extra pextra kd Hn Hext Hpext.
Notation A0 := (A0d c hbuf T F key extra).
Notation Pt0 := (Pt0d pextra).

Lemma A0_split : A0 = (wp_memA PW c T ++ [("live_num", RefineE2EfLay.cell U8 0)] ++ wp_memB PW c T)%list.
Proof. reflexivity. Qed.

Lemma A0_none : forall k m, hnum k = Some m -> (h <= m)%nat -> mget A0 k = None.
Proof.
  intros k m Hk Hm. rewrite A0_split, !RefineConcMem.mget_app.
  rewrite (frame_none PW _ _ _ (wo_memA PW OKW c T) Hk Hm). cbn [mget].
  rewrite (hnum_none_neq k "live_num" m Hk eq_refl).
  apply (frame_none PW _ _ _ (wo_memB PW OKW c T) Hk Hm).
Qed.
Definition M1d : memory := (memA_d hbuf F key c T ++ [("live_num", RefineE2EfLay.cell U8 0)] ++ [("#0", mk_object U8 32)])%list.
Lemma A0_M1d : A0 = (M1d ++ extra)%list.
Proof. unfold A0d, M1d. rewrite <- !app_assoc. reflexivity. Qed.
Lemma A0_sizeof : forall r, mget M1d ("sizeof:" ++ r) = None -> mget A0 ("sizeof:" ++ r) = None.
Proof.
  intros r Hr. rewrite A0_M1d. rewrite RefineConcMem.mget_app, Hr. apply (mget_nopfx "sizeof:" extra r Hnsz).
Qed.

Lemma PS1_split : PS1 = (wp_pA PW T ++ [("instance", VNull)] ++ [("rc.header.key", VPtr "key" 0); ("rc.header.fp", VPtr "fin" 0); ("rc.header.out", VPtr "fout" 0);
                     ("rc.aesfactory.key", VPtr "key" 0); ("rc.resultprint", VPtr "#0" 0)])%list.
Proof. reflexivity. Qed.
Lemma Pt0_split : Pt0 = (wp_pA PW T ++ [("instance", VNull)] ++ wp_pB PW T)%list.
Proof. unfold Pt0d. rewrite PS1_split. cbn [wp_pB PWd PWdec]. rewrite <- !app_assoc. reflexivity. Qed.
Lemma Pt0_num : forall k m, hnum k = Some m -> (h <= m)%nat -> lget Pt0 k = None.
Proof.
  intros k m Hk Hm. rewrite Pt0_split, !RefineConcMem.lget_app.
  rewrite (pframe_num PW _ _ _ (wo_pA PW OKW T) Hk Hm). cbn [lget]. rewrite (hnum_none_neq k "instance" m Hk eq_refl).
  apply (pframe_num PW _ _ _ (wo_pB PW OKW T) Hk Hm).
Qed.
Lemma Pt0_class : forall r m, hnum r = Some m -> (h <= m)%nat -> lget Pt0 (class_key r) = None.
Proof.
  intros r m Hk Hm. rewrite Pt0_split, !RefineConcMem.lget_app.
  rewrite (pframe_class PW _ _ _ (wo_pA PW OKW T) Hk Hm). cbn [lget]. change (String.eqb (class_key r) "instance") with false. cbv iota.
  apply (pframe_class PW _ _ _ (wo_pB PW OKW T) Hk Hm).
Qed.
Lemma Pt0_alloc : forall r, lget Pt0 ("alloc:" ++ r) = None.
Proof.
  intros r. unfold Pt0d. rewrite RefineConcMem.lget_app.
  replace (lget PS1 ("alloc:" ++ r)) with (@None value) by reflexivity. apply (lget_nopfx _ "alloc:" pextra r Hnal).
Qed.
Lemma Pt0_instance : lget Pt0 "instance" = Some VNull.
Proof. reflexivity. Qed.

Lemma x_newobj_fresh : forall prog vt fuel x cls objs fname args s vs fn l o s1,
  let name := ("#" ++ nat_string (fresh s) ++ ".")%string in
  eval_list s args = Ok vs ->
  lget (ptrs s) ("alloc:" ++ cls) = None ->
  forallb (fun x : string * ity * Z => match mget (mem s) (name ++ fst (fst x)) with None => true | Some _ => false end) objs = true ->
  lget prog fname = Some fn -> bind_params (f_params fn) vs = Ok l ->
  exec prog vt fuel (f_body fn)
       {| mem := alloc_objs cls name objs (mem s); loc := l; pre := name; files := files s;
          ptrs := lset (ptrs s) (class_key name) (VPtr cls 0); fresh := S (fresh s) |} = Ok (o, s1) ->
  exec prog vt (S fuel) (SNewObj x cls objs (Some fname) args) s =
  Ok (Normal, {| mem := mem s1; loc := lset (loc s) x (VPtr name 0); pre := pre s; files := files s1; ptrs := ptrs s1; fresh := fresh s1 |}).
Proof.
  intros until s1. intros name Hv Ha Hfr Hf Hb He. cbn [exec]. rewrite Hv. cbn [bind]. rewrite Ha. fold name. rewrite Hfr. cbn [negb].
  rewrite Hf, Hb. cbn [bind mem loc pre files ptrs fresh]. rewrite He. reflexivity.
Qed.
Lemma x_setptr : forall prog vt f p e s o off v, eval s p = Ok (VPtr o off) -> eval s e = Ok v ->
  exec prog vt (S f) (SSetPtr p e) s = Ok (Normal, with_ptrs s (lset (ptrs s) o v)).
Proof. intros prog vt f p e s o off v Hp He. cbn [exec]. rewrite Hp. cbn [bind]. rewrite He. reflexivity. Qed.

Lemma gi_if_ok_d : gi_if_spec_d c hbuf T F key h n extra pextra kd.
Proof.
  exists 12%nat. unfold gi_if2, gi_rest. cbv [s_fst s_snd s_then gi_body f_body Src_conc.f_buffergroup_get_instance_0].
  set (g := wGP PW).
  assert (Eg : ("#" ++ nat_string h ++ ".")%string = g) by reflexivity.
  eapply RefineAesLib.x_if with (x := 1%Z).
  { cbn [eval s_lockd ptrs bind]. rewrite Pt0_instance. reflexivity. }
  cbn [Z.eqb].
  eapply RefineAesLib.x_seq.
  - eapply (x_newobj_fresh whole_prog [] 9 "$t1" "buffergroup" _ "buffergroup::buffergroup/0" [] _ [] Src_conc.f_buffergroup_buffergroup_0 []).
    + reflexivity.
    + cbn [ptrs s_lockd]. apply Pt0_alloc.
    + cbn [fresh s_lockd mem]. rewrite Eg. cbn [forallb fst].
      rewrite !(A0_none _ h (hnum_GP PW _)) by lia. reflexivity.
    + reflexivity.
    + reflexivity.
    + cbn [fresh s_lockd mem ptrs files f_body Src_conc.f_buffergroup_buffergroup_0]. rewrite Eg.
      assert (Ealloc : alloc_objs "buffergroup" g [("turn", U32, 1%Z); ("size", U32, 1%Z); ("ispadding", TBool, 1%Z); ("over", TBool, 1%Z)] A0
                       = (A0 ++ seg3zd hbuf T F key h n extra pextra kd)%list).
      { rewrite (alloc_objs_app _ _ _ _ (fun _ => 1%Z)).
        - reflexivity.
        - intros x [<-|[<-|[<-|[<-|[]]]]]; cbn [fld fst snd append];
            match goal with |- context [mget A0 ?k] => replace (mget A0 k) with (@None object)
              by (symmetry; apply (A0_sizeof (substring 7 100 k)); reflexivity) end; reflexivity.
        - intros y r. reflexivity.
        - intros x [<-|[<-|[<-|[<-|[]]]]]; cbn [fld fst snd]; apply (A0_none _ h (hnum_GP PW _)); lia.
        - cbn [map fld fst]. repeat constructor; cbn [In]; intuition discriminate. }
      rewrite Ealloc.
      set (MG := (A0 ++ seg3zd hbuf T F key h n extra pextra kd)%list).
      assert (Gt : mget MG (g ++ "turn") = Some (RefineE2EfLay.cell U32 0)).
      { unfold MG. rewrite RefineConcMem.mget_app, (A0_none _ h (hnum_GP PW _)) by lia. unfold seg3zd. fold g. cbn [mget]. rewrite String.eqb_refl. reflexivity. }
      assert (Go : mget MG (g ++ "over") = Some (RefineE2EfLay.cell TBool 0)).
      { unfold MG. rewrite RefineConcMem.mget_app, (A0_none _ h (hnum_GP PW _)) by lia. unfold seg3zd. fold g. cbn [mget]. rewrite !append_eqb_l. reflexivity. }
      eapply RefineAesLib.x_seq; [eapply x_setptr; reflexivity|]. unfold with_ptrs. cbn [mem loc pre files ptrs fresh].
      eapply RefineAesLib.x_seq; [eapply x_setptr; reflexivity|]. unfold with_ptrs. cbn [mem loc pre files ptrs fresh].
      eapply RefineAesLib.x_seq.
      { eapply (RefineAesLib.x_store whole_prog [] _ U32 _ _ _ (g ++ "turn") 0%Z 0%Z (RefineE2EfLay.cell U32 0) (RefineE2EfLay.cell U32 0)); [reflexivity | reflexivity | exact Gt | reflexivity]. }
      unfold with_mem, with_ptrs. cbn [mem loc pre files ptrs fresh]. rewrite (mset_same _ _ _ Gt).
      eapply (RefineAesLib.x_store whole_prog [] _ TBool _ _ _ (g ++ "over") 0%Z 0%Z (RefineE2EfLay.cell TBool 0) (RefineE2EfLay.cell TBool 0)); [reflexivity | reflexivity | exact Go | reflexivity].
  - unfold with_mem, with_ptrs. cbn [mem loc pre files ptrs fresh s_lockd lset].
    assert (Go : mget (A0 ++ seg3zd hbuf T F key h n extra pextra kd)%list (g ++ "over") = Some (RefineE2EfLay.cell TBool 0)).
    { rewrite RefineConcMem.mget_app, (A0_none _ h (hnum_GP PW _)) by lia. unfold seg3zd. fold g. cbn [mget]. rewrite !append_eqb_l. reflexivity. }
    rewrite (mset_same _ _ _ Go).
    assert (Ep : lset (lset (lset Pt0 (class_key g) (VPtr "buffergroup" 0)) (g ++ "buflst") VNull) (g ++ "ctrl") VNull
                 = (Pt0 ++ [(class_key g, VPtr "buffergroup" 0); ((g ++ "buflst")%string, VNull); ((g ++ "ctrl")%string, VNull)])%list).
    { pose proof (hnum_GP PW "") as Hg0. rewrite RefineE2ENames.append_nil_r in Hg0. fold g in Hg0.
      rewrite (lset_absent _ Pt0) by (apply (Pt0_class g h Hg0); lia).
      rewrite (lset_absent _ (Pt0 ++ [(class_key g, VPtr "buffergroup" 0)])%list (g ++ "buflst")).
      2:{ rewrite RefineConcMem.lget_app, (Pt0_num _ h (hnum_GP PW _)) by lia. cbn [lget].
          rewrite (hnum_none_neq (g ++ "buflst") (class_key g) h (hnum_GP PW "buflst") (hnum_class g)). reflexivity. }
      rewrite (lset_absent _ _ (g ++ "ctrl")).
      2:{ rewrite !RefineConcMem.lget_app, (Pt0_num _ h (hnum_GP PW _)) by lia. cbn [lget].
          rewrite (hnum_none_neq (g ++ "ctrl") (class_key g) h (hnum_GP PW "ctrl") (hnum_class g)). rewrite append_eqb_l. reflexivity. }
      rewrite <- !app_assoc. reflexivity. }
    rewrite Ep.
    erewrite x_setptr; [ | reflexivity | reflexivity].
    unfold with_ptrs, s_newd, PtGd. cbn [mem loc pre files ptrs fresh]. reflexivity.
Qed.
End AD.

Check gi_if_ok_d.
Print Assumptions gi_if_ok_d.
