(* FIPS 180-4 (SHA-1 6.1, SHA-256 6.2, padding 5.1.1, parsing 5.2.1) and RFC 1321 (MD5),
   written from the standards.  Constants are the standards' (SHA-256: fractional parts of
   cube / square roots of the first primes; MD5: floor(2^32 |sin i|)); nothing from /repo. *)
From Wencry Require Import Bytes.
Local Open Scope N_scope.

(* ---- padding (5.1.1 / RFC 1321 3.1-3.2): 1 bit, k zero bits, 64-bit length ---- *)
Definition pad_zeros (len : nat) : nat := ((119 - len mod 64) mod 64)%nat.
Definition pad_with (lenbytes : N -> list N) (m : list N) : list N :=
  m ++ [128] ++ zeros (pad_zeros (length m)) ++ lenbytes (8 * N.of_nat (length m)).

(* ---- logical functions (4.1.1, 4.1.2) ---- *)
Definition Ch (x y z : N) : N := N.lxor (N.land x y) (N.land (not32 x) z).
Definition Parity (x y z : N) : N := N.lxor x (N.lxor y z).
Definition Maj (x y z : N) : N := N.lxor (N.land x y) (N.lxor (N.land x z) (N.land y z)).

Definition sum32 (l : list N) : N := fold_left add32 l 0.

(* ---------------- SHA-1 ---------------- *)
Definition sha1_H0 : list N := [0x67452301; 0xefcdab89; 0x98badcfe; 0x10325476; 0xc3d2e1f0].
Definition sha1_f (t : nat) : N -> N -> N -> N :=
  if (t <? 20)%nat then Ch else if (t <? 40)%nat then Parity else if (t <? 60)%nat then Maj else Parity.
Definition sha1_K (t : nat) : N :=
  if (t <? 20)%nat then 0x5a827999 else if (t <? 40)%nat then 0x6ed9eba1
  else if (t <? 60)%nat then 0x8f1bbcdc else 0xca62c1d6.

(* message schedule kept newest-first: W_t = ROTL1(W_(t-3) xor W_(t-8) xor W_(t-14) xor W_(t-16)) *)
Fixpoint sha1_sched (n : nat) (w : list N) : list N :=
  match n with
  | O => w
  | S n' => sha1_sched n' (rotl32 (N.lxor (nth 2 w 0) (N.lxor (nth 7 w 0) (N.lxor (nth 13 w 0) (nth 15 w 0)))) 1 :: w)
  end.
Definition sha1_W (M : list N) : list N := rev (sha1_sched 64 (rev M)).

Definition sha1_round (W : list N) (v : list N) (t : nat) : list N :=
  match v with
  | [a; b; c; d; e] =>
      let T := sum32 [rotl32 a 5; sha1_f t b c d; e; sha1_K t; nth t W 0] in
      [T; a; rotl32 b 30; c; d]
  | _ => []
  end.
Definition sha1_block (H : list N) (blk : list N) : list N :=
  let W := sha1_W (words_of be32 blk) in
  map2 add32 H (fold_left (sha1_round W) (seq 0 80) H).
Definition sha1 (m : list N) : list N :=
  flat_map be32_bytes (fold_left sha1_block (chunks 64 (pad_with be64_bytes m)) sha1_H0).

(* ---------------- SHA-256 ---------------- *)
Definition sha256_H0 : list N :=
  [1779033703; 3144134277; 1013904242; 2773480762; 1359893119; 2600822924; 528734635; 1541459225].
Definition sha256_K : list N :=
  [1116352408; 1899447441; 3049323471; 3921009573; 961987163; 1508970993; 2453635748; 2870763221;
   3624381080; 310598401; 607225278; 1426881987; 1925078388; 2162078206; 2614888103; 3248222580;
   3835390401; 4022224774; 264347078; 604807628; 770255983; 1249150122; 1555081692; 1996064986;
   2554220882; 2821834349; 2952996808; 3210313671; 3336571891; 3584528711; 113926993; 338241895;
   666307205; 773529912; 1294757372; 1396182291; 1695183700; 1986661051; 2177026350; 2456956037;
   2730485921; 2820302411; 3259730800; 3345764771; 3516065817; 3600352804; 4094571909; 275423344;
   430227734; 506948616; 659060556; 883997877; 958139571; 1322822218; 1537002063; 1747873779;
   1955562222; 2024104815; 2227730452; 2361852424; 2428436474; 2756734187; 3204031479; 3329325298].
Definition Sigma0 (x : N) : N := N.lxor (rotr32 x 2) (N.lxor (rotr32 x 13) (rotr32 x 22)).
Definition Sigma1 (x : N) : N := N.lxor (rotr32 x 6) (N.lxor (rotr32 x 11) (rotr32 x 25)).
Definition sigma0 (x : N) : N := N.lxor (rotr32 x 7) (N.lxor (rotr32 x 18) (N.shiftr x 3)).
Definition sigma1 (x : N) : N := N.lxor (rotr32 x 17) (N.lxor (rotr32 x 19) (N.shiftr x 10)).

(* W_t = sigma1(W_(t-2)) + W_(t-7) + sigma0(W_(t-15)) + W_(t-16) *)
Fixpoint sha256_sched (n : nat) (w : list N) : list N :=
  match n with
  | O => w
  | S n' => sha256_sched n' (sum32 [sigma1 (nth 1 w 0); nth 6 w 0; sigma0 (nth 14 w 0); nth 15 w 0] :: w)
  end.
Definition sha256_W (M : list N) : list N := rev (sha256_sched 48 (rev M)).
Definition sha256_round (W : list N) (v : list N) (t : nat) : list N :=
  match v with
  | [a; b; c; d; e; f; g; h] =>
      let T1 := sum32 [h; Sigma1 e; Ch e f g; nth t sha256_K 0; nth t W 0] in
      let T2 := add32 (Sigma0 a) (Maj a b c) in
      [add32 T1 T2; a; b; c; add32 d T1; e; f; g]
  | _ => []
  end.
Definition sha256_block (H : list N) (blk : list N) : list N :=
  let W := sha256_W (words_of be32 blk) in
  map2 add32 H (fold_left (sha256_round W) (seq 0 64) H).
Definition sha256 (m : list N) : list N :=
  flat_map be32_bytes (fold_left sha256_block (chunks 64 (pad_with be64_bytes m)) sha256_H0).

(* ---------------- MD5 (RFC 1321) ---------------- *)
Definition md5_H0 : list N := [0x67452301; 0xefcdab89; 0x98badcfe; 0x10325476].
Definition md5_T : list N :=
  [3614090360; 3905402710; 606105819; 3250441966; 4118548399; 1200080426; 2821735955; 4249261313;
   1770035416; 2336552879; 4294925233; 2304563134; 1804603682; 4254626195; 2792965006; 1236535329;
   4129170786; 3225465664; 643717713; 3921069994; 3593408605; 38016083; 3634488961; 3889429448;
   568446438; 3275163606; 4107603335; 1163531501; 2850285829; 4243563512; 1735328473; 2368359562;
   4294588738; 2272392833; 1839030562; 4259657740; 2763975236; 1272893353; 4139469664; 3200236656;
   681279174; 3936430074; 3572445317; 76029189; 3654602809; 3873151461; 530742520; 3299628645;
   4096336452; 1126891415; 2878612391; 4237533241; 1700485571; 2399980690; 4293915773; 2240044497;
   1873313359; 4264355552; 2734768916; 1309151649; 4149444226; 3174756917; 718787259; 3951481745].
(* 3.4 auxiliary functions *)
Definition md5_F (x y z : N) : N := N.lor (N.land x y) (N.land (not32 x) z).
Definition md5_G (x y z : N) : N := N.lor (N.land x z) (N.land y (not32 z)).
Definition md5_H (x y z : N) : N := N.lxor x (N.lxor y z).
Definition md5_I (x y z : N) : N := N.lxor y (N.lor x (not32 z)).
Definition md5_fn (f : N) : N -> N -> N -> N :=
  match f with 0 => md5_F | 1 => md5_G | 2 => md5_H | _ => md5_I end.

(* 3.4: step i (0-based) of round r = i/16 : [abcd k s i+1] with
   k = i, 1+5i, 5+3i, 7i (mod 16); s from the round's 4-cycle; registers rotate abcd, dabc, cdab, bcda *)
Definition md5_k (i : nat) : nat :=
  match (i / 16)%nat with
  | 0%nat => i | 1%nat => (1 + 5 * i) mod 16 | 2%nat => (5 + 3 * i) mod 16 | _ => (7 * i) mod 16
  end%nat.
Definition md5_s (i : nat) : N :=
  nth (i mod 4)
      (match (i / 16)%nat with
       | 0%nat => [7; 12; 17; 22] | 1%nat => [5; 9; 14; 20] | 2%nat => [4; 11; 16; 23] | _ => [6; 10; 15; 21]
       end) 0.
Definition md5_regs (i : nat) : list N :=
  nth (i mod 4) [[0;1;2;3]; [3;0;1;2]; [2;3;0;1]; [1;2;3;0]] [].
(* the 64 steps in the same tabular form the translator extracts from md5.cpp *)
Definition md5_rfc_steps : list (N * list N * N * N * N) :=
  map (fun i => (N.of_nat (i / 16), md5_regs i, N.of_nat (md5_k i), md5_s i, nth i md5_T 0)) (seq 0 64).

Fixpoint set_nth (n : nat) (x : N) (l : list N) : list N :=
  match n, l with
  | O, _ :: t => x :: t
  | S n', h :: t => h :: set_nth n' x t
  | _, [] => []
  end.
(* a = b + ((a + f(b,c,d) + X[k] + T[i]) <<< s) *)
Definition md5_step (X : list N) (v : list N) (st : N * list N * N * N * N) : list N :=
  match st with
  | (f, regs, k, s, ac) =>
      let r i := nth (N.to_nat (nth i regs 0)) v 0 in
      let a := sum32 [r 0%nat; md5_fn f (r 1%nat) (r 2%nat) (r 3%nat); nthN X k 0; ac] in
      set_nth (N.to_nat (nth 0 regs 0)) (add32 (rotl32 a s) (r 1%nat)) v
  end.
Definition md5_block_with (steps : list (N * list N * N * N * N)) (H blk : list N) : list N :=
  map2 add32 H (fold_left (md5_step (words_of le32 blk)) steps H).
Definition md5_block := md5_block_with md5_rfc_steps.
Definition md5 (m : list N) : list N :=
  flat_map le32_bytes (fold_left md5_block (chunks 64 (pad_with le64_bytes m)) md5_H0).

(* ---- RFC 2104 HMAC for a hash with 64-byte block ---- *)
Definition hmac_spec (H : list N -> list N) (key msg : list N) : list N :=
  let k0 := (if (64 <? length key)%nat then H key else key) in
  let k0 := k0 ++ zeros (64 - length k0) in
  H (map (N.lxor 0x5c) k0 ++ H (map (N.lxor 0x36) k0 ++ msg)).

Definition hash_spec (alg : N) : list N -> list N :=
  match alg with 0 => sha1 | 1 => md5 | _ => sha256 end.
