(* Model of kernel/multi_aes/aes/aes.cpp, written from the C++.
   State = the 16 bytes s[i][j] in row-major order (index 4*i+j); the u32 view g[i] of
   row i is the little-endian word of s[i][0..3] (union aliasing, x86-64) -- that
   aliasing is modelled, not verified; the correspondence check ties it.
   Tables, coefficient rows and round structure come from Gen (regenerated from /repo). *)
From Wencry Require Import Bytes.
From Wencry.Gen Require Import AesTab AesCoef.
Local Open Scope N_scope.

Definition sbox (b : N) : N := nthN tab_s_box b 0.
Definition rsbox (b : N) : N := nthN tab_rs_box b 0.
(* #define Gmul(u, v) ((v) ? Alogtable[(u) + Logtable[(v)]] : 0) *)
Definition Gmul (u v : N) : N :=
  if v =? 0 then 0 else nthN tab_Alogtable (u + nthN tab_Logtable v 0) 0.

Definition mperm (idx : list nat) (l : list N) : list N := map (fun i => nth i l 0) idx.

(* setbytes(w[i], w[4+i], w[8+i], w[12+i]) : s[i][j] = w[4j+i]; the store is the same map *)
Definition transpose (b : list N) : list N :=
  mperm [0;4;8;12; 1;5;9;13; 2;6;10;14; 3;7;11;15]%nat b.

Definition addroundkey (w k : list N) : list N := xorl w k.
Definition enc_subbytes (w : list N) : list N := map sbox w.
Definition dec_subbytes (w : list N) : list N := map rsbox w.
(* w.g[i] = rrot(t, i << 3): byte j of row i becomes byte (j+i) mod 4 *)
Definition enc_rowshift (w : list N) : list N :=
  mperm [0;1;2;3; 5;6;7;4; 10;11;8;9; 15;12;13;14]%nat w.
(* w.g[i] = lrot(t, i << 3) *)
Definition dec_rowshift (w : list N) : list N :=
  mperm [0;1;2;3; 7;4;5;6; 10;11;8;9; 13;14;15;12]%nat w.

(* GMumLine(n0,n1,n2,n3) on column i: Gmul(n0,g0) ^ Gmul(n1,g1) ^ Gmul(n2,g2) ^ Gmul(n3,g3) *)
Definition mumline (row : list N) (g0 g1 g2 g3 : N) : N :=
  N.lxor (N.lxor (N.lxor (Gmul (nth 0 row 0) g0) (Gmul (nth 1 row 0) g1))
                 (Gmul (nth 2 row 0) g2)) (Gmul (nth 3 row 0) g3).
Definition columnmix (rows : list (list N)) (w : list N) : list N :=
  map (fun p : nat * nat =>
         let (r, i) := p in
         mumline (nth r rows []) (nth i w 0) (nth (4 + i) w 0) (nth (8 + i) w 0) (nth (12 + i) w 0))
      [(0,0);(0,1);(0,2);(0,3); (1,0);(1,1);(1,2);(1,3);
       (2,0);(2,1);(2,2);(2,3); (3,0);(3,1);(3,2);(3,3)]%nat.

Definition enc_commonround (w k : list N) : list N :=
  columnmix enc_mix_rows (enc_rowshift (enc_subbytes (addroundkey w k))).
Definition enc_specround (w k1 k2 : list N) : list N :=
  addroundkey (enc_rowshift (enc_subbytes (addroundkey w k1))) k2.
Definition dec_commonround (w k : list N) : list N :=
  addroundkey (dec_subbytes (dec_rowshift (columnmix dec_mix_rows w))) k.
Definition dec_specround (w k1 k2 : list N) : list N :=
  addroundkey (dec_subbytes (dec_rowshift (addroundkey w k2))) k1.

(* keyhandle::genkey(round): prev and result in row-major s[i][j] *)
Definition genkey (round : nat) (p : list N) : list N :=
  let pv i j := nth (4 * i + j) p 0 in
  let c0 i := N.lxor (N.lxor (sbox (pv ((i + 1) mod 4)%nat 3%nat))
                             (if (i =? 0)%nat then nth round tab_RC 0 else 0)) (pv i 0%nat) in
  let c1 i := N.lxor (c0 i) (pv i 1%nat) in
  let c2 i := N.lxor (c1 i) (pv i 2%nat) in
  let c3 i := N.lxor (c2 i) (pv i 3%nat) in
  flat_map (fun i => [c0 i; c1 i; c2 i; c3 i]) [0;1;2;3]%nat.

Fixpoint genall_from (round n : nat) (k : list N) : list (list N) :=
  match n with
  | O => [k]
  | S n' => k :: genall_from (S round) n' (genkey round k)
  end.
(* keyhandle::genall: key[0] transposed from init_key, key[1..key_rounds-1] by genkey *)
Definition genall (init_key : list N) : list (list N) :=
  genall_from 1 (N.to_nat key_rounds - 1) (transpose (firstn 16 init_key)).
Definition getkey (ks : list (list N)) (i : N) : list N := nth (N.to_nat i) ks [].

Definition Nseq (n : N) : list N := map N.of_nat (seq 0 (N.to_nat n)).

(* encryaes::runaes_128bit *)
Definition aes_enc_with (ks : list (list N)) (blk : list N) : list N :=
  let w := transpose blk in
  let w := fold_left (fun w i => enc_commonround w (getkey ks i)) (Nseq (nth 0 enc_round_struct 0)) w in
  let w := enc_specround w (getkey ks (nth 1 enc_round_struct 0)) (getkey ks (nth 2 enc_round_struct 0)) in
  transpose w.
(* decryaes::runaes_128bit *)
Definition aes_dec_with (ks : list (list N)) (blk : list N) : list N :=
  let w := transpose blk in
  let w := dec_specround w (getkey ks (nth 0 dec_round_struct 0)) (getkey ks (nth 1 dec_round_struct 0)) in
  let w := fold_left (fun w i => dec_commonround w (getkey ks i)) (rev (Nseq (nth 2 dec_round_struct 0 + 1))) w in
  transpose w.

Definition aes_enc (key blk : list N) : list N := aes_enc_with (genall key) blk.
Definition aes_dec (key blk : list N) : list N := aes_dec_with (genall key) blk.
