(* The two semantics of MiniC agree on code that does not synchronise.

   [MiniC.exec] reads a statement in big steps (one thread); [MiniCConc] reads the same statements in small steps under a
   continuation, with scheduling points.  The whole-file and whole-program runs (SrcRun5, SrcRun6) use the second one for
   everything, including the long sequential stretches (header, IV chain, HMAC, AES rounds) whose refinement theorems (SRC_xxx)
   are stated for the first.  This file states that nothing is lost in between:

   [seq_machine_agrees]: a statement whose execution by [exec] terminates normally, and which (with everything it calls) contains
   no synchronisation primitive, run as the only thread of the machine from the same state, finishes (status TDone) with the
   same memory, files, pointer table, heap counter and local variables.

   [verify_file_is_sequential]: the instance for verification (runcrypt::execute_verify starts no thread): what SrcRun5.src_verify_file
   returns under ANY scheduler seed is what the sequential semantics computes for SrcRun5.whole_main WVer. *)
From Coq Require Import ZArith NArith List String Bool.
From Wencry Require Import Bytes MiniC MiniCRun MiniCConc SrcRun SrcRun2 SrcRun5 RefineSeq.
Import ListNotations.
Local Open Scope Z_scope.

(* [seq_ok prog fuel st]: neither st nor any function reachable from it through at most `fuel` nested calls names a synchronisation
   primitive (lock, unlock, cv_wait, notify_all, join, wv_yield, wv_ev, spawn:...) -- defined in RefineSeq.v as a boolean function *)
Theorem seq_machine_agrees : forall prog vt fuel st s out s',
  seq_ok prog fuel st = true ->
  exec prog vt fuel st s = Ok (out, s') ->
  normal_outcome out = true ->                      (* finished by falling through, not by break / return out of st *)
  exists n,
    forall big, (n <= big)%nat ->
    run_thread prog vt big 0 true
      {| ct_cur := st; ct_k := KStop; ct_loc := loc s; ct_pre := pre s; ct_st := TRun |}
      {| cs_sh := shared_of s;
         cs_thr := [{| ct_cur := st; ct_k := KStop; ct_loc := loc s; ct_pre := pre s; ct_st := TRun |}]; cs_mx := [] |} []
    = Ok ({| cs_sh := shared_of s';
             cs_thr := [{| ct_cur := SSkip; ct_k := KStop; ct_loc := loc s'; ct_pre := pre s; ct_st := TDone |}]; cs_mx := [] |}, []).
Proof. exact seq_machine_agrees_proof. Qed.
Print Assumptions seq_machine_agrees.

Theorem verify_file_is_sequential : forall c hbuf T F key rnd fuel out s',
  exec whole_prog [] fuel (whole_main WVer T (-1) (-1) true (Z.of_nat (List.length F))) (whole_state c hbuf T (-1) (-1) true F key []) = Ok (out, s') ->
  normal_outcome out = true ->
  (fuel <= 400000)%nat ->
  match src_verify_file c hbuf T F key rnd with
  | SOk (b, o, i, _) =>
      lget (loc s') "result" = Some (VInt (if b then 1 else 0)) /\
      o = match lget (files s') "fout" with Some f => map Z.to_N (cf_data f) | None => [] end /\
      i = match lget (files s') "fin" with Some f => map Z.to_N (cf_data f) | None => [] end
  | SErr _ => False
  end.
Proof. exact verify_file_is_sequential_proof. Qed.
Print Assumptions verify_file_is_sequential.
