(* The two semantics of MiniC agree on code that does not synchronise.

   [MiniC.exec] reads a statement in big steps (one thread); [MiniCConc] reads the same statements in small steps under a
   continuation, with scheduling points.  The whole-file and whole-program runs (SrcRun5, SrcRun6) use the second one for
   everything, including the long sequential stretches (header, IV chain, HMAC, AES rounds) whose refinement theorems (SRC_xxx)
   are stated for the first.  This file states that nothing is lost in between:

   [seq_machine_agrees]: a statement whose execution by [exec] terminates normally, and which (with everything it calls) contains
   no synchronisation primitive, run as the only thread of the machine from the same state, finishes (status TDone) with the
   same memory, files, pointer table, heap counter and local variables, having logged the thread-exit event (14,0,0) and nothing else.
   [seq_machine_agrees_any]: the same for any thread id, any other threads, held mutexes and event prefix, and for EVERY fuel of
   run_thread (NoFuel up to some n, the finished thread above it); it needs only the well-formedness half of [seq_ok]
   ([wf_ok]: breaks inside loops): a statement [exec] runs successfully executes no synchronisation primitive anyway, [do_prim] has
   no rule for them (RefineSeqA.sync_prim_no_exec).
   (The general form under an arbitrary continuation and for the outcomes Broke / Returned is RefineSeq.sim.)

   [verify_file_is_sequential]: the instance for verification (runcrypt::execute_verify starts no thread): what SrcRun5.src_verify_file
   returns under ANY scheduler seed is what the sequential semantics computes for SrcRun5.whole_main WVer -- the returned boolean is
   the value [exec] leaves in "result", the streams are those of [exec]'s final state, the run takes ONE scheduling step.
   The number of machine steps is not bounded by the (depth-counting) fuel of [exec]; the fixed fuel of SrcRun5.run_from may
   therefore be too small for some input, and the only other possible answer is SErr "out of fuel" (no UB, no deadlock,
   no "step bound reached", no "no result"). *)
From Coq Require Import ZArith NArith List String Bool.
From Wencry Require Import Bytes MiniC MiniCRun MiniCConc SrcRun SrcRun2 SrcRun5 RefineSeqDefs RefineSeq RefineSeqVerify.
Import ListNotations.
Local Open Scope Z_scope.

(* [seq_ok prog fuel st] (RefineSeqDefs.v, a boolean function): neither st nor any function reachable from it through at most
   `fuel` nested calls (a virtual call of m reaches every function of prog named <class>::m) names a synchronisation primitive
   (lock, unlock, cv_wait, notify_all, join, wv_yield, wv_ev, spawn:...), and every `break` of a reachable function body is inside
   a loop of that body.  The second condition holds for every C++ function; it is there because the two semantics differ on a
   stray break (RefineSeq.stray_break_exec / stray_break_machine: exec reads it as a void return, the machine as UB).
   [wf_ok] is [seq_ok] without the condition on primitives. *)
Theorem SRC_seq_machine_agrees : forall prog vt fuel st s out s',
  seq_ok prog fuel st = true ->
  exec prog vt fuel st s = Ok (out, s') ->
  normal_outcome out = true ->                      (* finished by falling through, not by break / return out of st *)
  exists n,
    forall big, (n <= big)%nat ->
    run_thread prog vt big 0 true
      {| ct_cur := st; ct_k := KStop; ct_loc := loc s; ct_pre := pre s; ct_st := TRun |}
      {| cs_sh := shared_of s;
         cs_thr := [{| ct_cur := st; ct_k := KStop; ct_loc := loc s; ct_pre := pre s; ct_st := TRun |}]; cs_mx := [] |} []
    = Ok ({| cs_sh := shared_of s';
             cs_thr := [{| ct_cur := SSkip; ct_k := KStop; ct_loc := loc s'; ct_pre := pre s; ct_st := TDone |}]; cs_mx := [] |}, [(14, 0, 0)]).
Proof. exact seq_machine_agrees_proof. Qed.
Print Assumptions SRC_seq_machine_agrees.

Theorem SRC_seq_machine_agrees_any : forall prog vt fuel sf st s out s',
  wf_ok prog sf st = true ->
  exec prog vt fuel st s = Ok (out, s') ->
  normal_outcome out = true ->
  forall stt, stt <> TDone ->
  exists n, forall big tid first thr mx evs,
    run_thread prog vt big tid first
      {| ct_cur := st; ct_k := KStop; ct_loc := loc s; ct_pre := pre s; ct_st := stt |}
      {| cs_sh := shared_of s; cs_thr := thr; cs_mx := mx |} evs
    = if (big <=? n)%nat then NoFuel
      else Ok ({| cs_sh := shared_of s';
                  cs_thr := set_nth_t tid {| ct_cur := SSkip; ct_k := KStop; ct_loc := loc s'; ct_pre := pre s; ct_st := TDone |} thr;
                  cs_mx := mx |}, evs ++ [(14, 0, 0)]).
Proof. exact seq_machine_agrees_gen. Qed.
Print Assumptions SRC_seq_machine_agrees_any.

(* the check holds for verification, for every thread count and file size (and fails for encryption and decryption, which
   start worker threads: RefineSeqVerify.decrypt_not_seq_ok, encrypt_not_seq_ok) *)
Theorem SRC_verify_is_seq_ok : forall T cm hm ne fsize, seq_ok whole_prog 40 (whole_main WVer T cm hm ne fsize) = true.
Proof. exact verify_seq_ok. Qed.
Print Assumptions SRC_verify_is_seq_ok.

Theorem SRC_verify_file_is_sequential : forall c hbuf T F key rnd fuel out s',
  exec whole_prog [] fuel (whole_main WVer T (-1) (-1) true (Z.of_nat (List.length F))) (whole_state c hbuf T (-1) (-1) true F key []) = Ok (out, s') ->
  match src_verify_file c hbuf T F key rnd with
  | SOk (b, o, i, steps) =>
      lget (loc s') "result" = Some (VInt (if b then 1 else 0)) /\
      o = match lget (files s') "fout" with Some f => map Z.to_N (cf_data f) | None => [] end /\
      i = match lget (files s') "fin" with Some f => map Z.to_N (cf_data f) | None => [] end /\
      steps = 1%nat
  | SErr w => w = "out of fuel"%string
  end.
Proof. exact verify_file_is_sequential_proof. Qed.
Print Assumptions SRC_verify_file_is_sequential.

(* in particular the scheduler seed does not matter *)
Theorem SRC_verify_file_seed_independent : forall c hbuf T F key fuel out s',
  exec whole_prog [] fuel (whole_main WVer T (-1) (-1) true (Z.of_nat (List.length F))) (whole_state c hbuf T (-1) (-1) true F key []) = Ok (out, s') ->
  forall rnd rnd', src_verify_file c hbuf T F key rnd = src_verify_file c hbuf T F key rnd'.
Proof. exact verify_file_seed_independent_proof. Qed.
Print Assumptions SRC_verify_file_seed_independent.
