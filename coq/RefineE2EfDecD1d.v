(* PARALLEL4 (H2), D1, step 4: runcrypt::verify/1 on the state after the constructors, with the final state of the accepting path
   (= the state after hmac::cmphmac, up to loc / pre).  Clone of RefineE2EWhole.verify_W with a predicate Qc on the state after cmphmac. *)
From Coq Require Import ZArith NArith List String Bool Lia PeanoNat.
From Wencry Require Import Bytes HashModel HashProofs HmacProofs FileModel MiniC MiniCRun MiniCLemmas SrcRun SrcRun2 SrcRun5
     RefineHashDefs RefineHashDriver RefineFileBase RefineFileHmac RefineFileHmac2 RefineFileVerify RefineE2ENames RefineE2EFrame RefineE2EWhole.
From Wencry.Gen Require Layout Src_sha256 Src_sha1 Src_md5 Src_hashmaster Src_hashbuffer Src_hashfactory Src_fheader Src_cry Src_whole Src_conc Src_aes Src_aesmode.
Import ListNotations.
Local Open Scope list_scope.
Local Open Scope string_scope.
Local Open Scope Z_scope.

Notation FS D pos e fo := [("fin", {| cf_data := D; cf_pos := pos; cf_eof := e |}); ("fout", fo)].
Ltac cfuel tac := match goal with |- context [exec whole_prog _ (S ?f) (SCall _ _ _ _) _] => tac f end.

Section VerifyW2.
Variables cc hbuf T : nat.
Variables F key : list N.
Variable fsize : Z.
Variable fo : cfile.
Hypothesis HFb : bytesb F = true.
Let D := map Z.of_N F.
Let m1 := M1 cc hbuf T key.
Let stored := firstn 64 (skipn 10 F).

Notation Mem4 := (Mem4 cc hbuf T F key).
Variable Qc : object -> state -> Prop.

Hypothesis Hcmp : (74 <= List.length F)%nat -> (nth 9 F 0 <= 2)%N -> forall fuel mn l0,
  (2800 + List.length F / 64 <= fuel)%nat ->
  exists tag s', hmac_model hbuf (nth 9 F 0%N) key (skipn 48 F) = Some tag /\
    call whole_prog [] fuel "hmac::cmphmac/5" "rc.hmachandle." [VInt (Z.of_N (nth 9 F 0%N)); VPtr "key" 0; VPtr "fin" 0; VPtr "rc.header.hash" 0; VInt fsize]
      (St (Mem4 mn) l0 "rc." (FS D 48 false fo) PS1 1%nat) = Ok (Some (VInt (if cmphmac tag stored then 1 else 0)), s') /\ Qc mn s'.

Lemma verify_W2 : forall fuel, (2900 + List.length F / 64 <= fuel)%nat ->
  exists code s', verify hbuf F key = FileModel.Ok code /\
    call whole_prog [] fuel "runcrypt::verify/1" "rc." [VInt fsize] (St m1 [] "" (FS D 0 false fo) PS1 1%nat) = Ok (Some (VInt (Z.of_N code)), s') /\
    (code = 0%N -> exists mn s6, Qc mn s6 /\ mem s' = mem s6 /\ ptrs s' = ptrs s6 /\ files s' = files s6 /\ fresh s' = fresh s6).
Proof.
  intros fuel Hfuel.
  assert (E : exists f, fuel = (40 + f)%nat) by (exists (fuel - 40)%nat; clear - Hfuel; lia).
  destruct E as [f0 ->].
  change (40 + f0)%nat with (S (S (S (S (S (S (S (S (S (S (S (S (S (S (S (S (S (S (S (S (S (S (S (S (S (S (S (S (S (S (S (S (S (S (S (S (S (S (S (S f0)))))))))))))))))))))))))))))))))))))))).
  unfold call. rewrite (lget_W _ _ (eq_refl : lget file_prog "runcrypt::verify/1" = Some Src_cry.f_runcrypt_verify_1)).
  cbn [f_params f_body Src_cry.f_runcrypt_verify_1 bind_params bind mem loc pre files ptrs fresh].
  (* 1. header.checkMn() *)
  rewrite exec_seq.
  cfuel ltac:(fun f =>
    destruct (checkMn_call [] f m1 [("fsize", VInt fsize)] "rc." F 0 false fo PS1 1%nat ltac:(clear - Hfuel; lia) eq_refl eq_refl HFb) as (mn & pos1 & e1 & E1);
    fold D in E1; apply call_W in E1;
    rewrite (x_scall whole_prog [] f (Some "$t1") "FileHeader::checkMn/0" (Some (EField "header.")) []
               (St m1 [("fsize", VInt fsize)] "rc." (FS D 0 false fo) PS1 1%nat) [] "rc.header." _ _ _ eq_refl eq_refl E1 eq_refl); clear E1).
  cbn [bind]. unfold with_loc. cbn [mem loc pre files ptrs fresh lset String.eqb Ascii.eqb Bool.eqb].
  rewrite exec_seq. rewrite exec_if. cbn [eval bind as_int loc lget String.eqb Ascii.eqb Bool.eqb eval_un].
  unfold verify. change hmac_mark with 10%nat. change iv_mark with 48%nat. cbn [Nat.add].
  destruct (magic_ok F) eqn:Emg.
  2:{ (* wrong magic number or too short: 4 *)
    change (1 =? 0) with false. change (0 =? 0) with true. cbv iota. change (1 =? 0) with false. cbv iota.
    rewrite x_return. cbn [eval bind as_int]. change (wrap U8 4) with (Z.of_N 4).
    exists 4%N. eexists. split; [|split; [reflexivity|intro X0; discriminate X0]].
    unfold magic_ok in Emg. destruct (Nat.leb_spec 8 (List.length F)) as [H8|H8].
    - destruct (Nat.ltb_spec (List.length F) 8); [lia|]. cbn [andb] in Emg. rewrite Emg. reflexivity.
    - destruct (Nat.ltb_spec (List.length F) 8); [reflexivity|lia]. }
  unfold magic_ok in Emg. apply andb_true_iff in Emg. destruct Emg as [Em1 Em2]. apply Nat.leb_le in Em1.
  destruct (Nat.ltb_spec (List.length F) 8) as [|_]; [lia|]. rewrite Em2. cbn [negb].
  change (1 =? 0) with false. cbv iota. change (0 =? 0) with true. cbv iota.
  rewrite exec_skip. cbn [bind].
  set (L1 := [("fsize", VInt fsize); ("$t1", VInt 1)]).
  (* 3. header.checkType() *)
  rewrite exec_seq.
  cfuel ltac:(fun f =>
    destruct (checkType_call [] f (mset m1 "%mn" mn) L1 "rc." F pos1 e1 fo PS1 1%nat 255 255 ltac:(clear - Hfuel; lia) eq_refl eq_refl eq_refl)
      as (c & h & pos2 & e2 & E2 & Hch); fold D in E2; apply call_W in E2;
    rewrite (x_scall whole_prog [] f None "FileHeader::checkType/0" (Some (EField "header.")) []
               (St (mset m1 "%mn" mn) L1 "rc." (FS D pos1 e1 fo) PS1 1%nat) [] "rc.header." _ _ _ eq_refl eq_refl E2 eq_refl); clear E2).
  cbn [bind].
  set (m3 := mset (mset (mset m1 "%mn" mn) "rc.header.ctype" {| o_ty := U8; o_cells := [c] |}) "rc.header.htype" {| o_ty := U8; o_cells := [h] |}).
  (* 4. hash = header.getHmac(64) *)
  rewrite exec_seq.
  cfuel ltac:(fun f =>
    destruct (getHmac_call [] f m3 L1 "rc." F pos2 e2 fo PS1 1%nat (repeat 0 64) ltac:(clear - Hfuel; lia) eq_refl eq_refl eq_refl)
      as (ho & pos3 & e3 & E3 & Hho); fold D in E3; apply call_W in E3;
    rewrite (x_scall whole_prog [] f (Some "$t2") "FileHeader::getHmac/1" (Some (EField "header.")) [ECast U8 (EConst 64)]
               (St m3 L1 "rc." (FS D pos2 e2 fo) PS1 1%nat) [VInt 64] "rc.header." _ _ _ eq_refl eq_refl E3 eq_refl); clear E3).
  cbn [bind]. unfold with_loc. cbn [mem loc pre files ptrs fresh L1 lset String.eqb Ascii.eqb Bool.eqb].
  rewrite exec_seq. rewrite exec_set. cbn [eval bind loc lget String.eqb Ascii.eqb Bool.eqb].
  unfold with_loc. cbn [mem loc pre files ptrs fresh lset String.eqb Ascii.eqb Bool.eqb].
  (* 5. if (hash == NULL) return 1 *)
  rewrite exec_seq. rewrite exec_if. cbn [eval bind as_int loc lget String.eqb Ascii.eqb Bool.eqb].
  destruct (Nat.leb_spec 74 (List.length F)) as [H74|H74].
  2:{ cbn [bind as_int]. change (1 =? 0) with false. cbv iota. rewrite x_return. cbn [eval bind as_int]. change (wrap U8 1) with (Z.of_N 1).
      destruct (Nat.ltb_spec (List.length F) 74); [|lia]. exists 1%N. eexists. split; [reflexivity|split; [reflexivity|intro X0; discriminate X0]]. }
  destruct (Nat.ltb_spec (List.length F) 74) as [|_]; [lia|].
  cbn [bind as_int]. change (0 =? 0) with true. cbv iota. rewrite exec_skip. cbn [bind].
  destruct (Hch ltac:(lia)) as [Ec Eh]. subst c h. rewrite (Hho H74). clear Hch Hho. fold stored.
  set (ct := nth 8 F 0%N) in *. set (ht := nth 9 F 0%N) in *.
  assert (Hct : (ct < 256)%N) by apply (bytesb_nth F 8 HFb). assert (Hht : (ht < 256)%N) by apply (bytesb_nth F 9 HFb).
  change (mset m3 "rc.header.hash" (bytes_object stored)) with (Mem4 mn). clear m3.
  (* 6. if (getctype() > 4 || gethtype() > 2) return 3 *)
  rewrite exec_seq.
  match goal with |- context [exec whole_prog [] (S ?f) (SCall (Some "$t3") "FileHeader::getctype/0" _ _) (St _ ?L _ ?fs _ _)] =>
    rewrite (x_scall whole_prog [] f (Some "$t3") "FileHeader::getctype/0" (Some (EField "header.")) []
               (St (Mem4 mn) L "rc." fs PS1 1%nat) [] "rc.header." _ _ _ eq_refl eq_refl
               (call_W _ _ _ _ _ _ _ (getctype_call [] f (Mem4 mn) L "rc." fs PS1 1%nat (Z.of_N ct) ltac:(clear - Hfuel; lia) eq_refl)) eq_refl)
  end.
  cbn [bind]. unfold with_loc. cbn [mem loc pre files ptrs fresh lset String.eqb Ascii.eqb Bool.eqb].
  rewrite (wrap_U8_small (Z.of_N ct)) by lia.
  rewrite exec_seq. rewrite exec_set. cbn [eval bind as_int loc lget String.eqb Ascii.eqb Bool.eqb eval_bin].
  rewrite (wrap_I32_small (Z.of_N ct)) by lia.
  unfold with_loc. cbn [mem loc pre files ptrs fresh lset String.eqb Ascii.eqb Bool.eqb].
  rewrite exec_seq. rewrite exec_if. cbn [eval bind as_int loc lget String.eqb Ascii.eqb Bool.eqb].
  assert (Hgh : forall f L fs, (2 <= f)%nat ->
            call whole_prog [] f "FileHeader::gethtype/0" "rc.header." [] (St (Mem4 mn) L "rc." fs PS1 1%nat) = Ok (Some (VInt (Z.of_N ht)), St (Mem4 mn) L "rc." fs PS1 1%nat)).
  { intros f L fs Hf. rewrite (call_W _ _ _ _ _ _ _ (gethtype_call [] f (Mem4 mn) L "rc." fs PS1 1%nat (Z.of_N ht) Hf eq_refl)). rewrite wrap_U8_small by lia. reflexivity. }
  destruct (N.ltb_spec 4 ct) as [Hc|Hc].
  - (* ctype > 4: 3 *)
    destruct (Z.ltb_spec 4 (Z.of_N ct)); [|lia]. change (wrap TBool 1) with 1. cbn [bind as_int]. change (1 =? 0) with false. cbv iota.
    rewrite exec_skip. cbn [bind]. rewrite exec_seq. rewrite exec_if. cbn [eval bind as_int loc lget String.eqb Ascii.eqb Bool.eqb].
    change (1 =? 0) with false. cbv iota. rewrite x_return. cbn [eval bind as_int orb]. change (wrap U8 3) with (Z.of_N 3).
    exists 3%N. eexists. split; [reflexivity|split; [reflexivity|intro X0; discriminate X0]].
  - destruct (Z.ltb_spec 4 (Z.of_N ct)); [lia|]. change (wrap TBool 0) with 0. cbn [bind as_int orb]. change (0 =? 0) with true. cbv iota.
    rewrite exec_seq.
    match goal with |- context [exec whole_prog [] (S ?f) (SCall (Some "$t4") "FileHeader::gethtype/0" _ _) (St _ ?L _ ?fs _ _)] =>
      rewrite (x_scall whole_prog [] f (Some "$t4") "FileHeader::gethtype/0" (Some (EField "header.")) []
                 (St (Mem4 mn) L "rc." fs PS1 1%nat) [] "rc.header." _ _ _ eq_refl eq_refl (Hgh f L fs ltac:(clear - Hfuel; lia)) eq_refl)
    end.
    cbn [bind]. unfold with_loc. cbn [mem loc pre files ptrs fresh lset String.eqb Ascii.eqb Bool.eqb].
    rewrite exec_set. cbn [eval bind as_int loc lget String.eqb Ascii.eqb Bool.eqb eval_bin]. rewrite (wrap_I32_small (Z.of_N ht)) by lia.
    unfold with_loc. cbn [bind mem loc pre files ptrs fresh lset String.eqb Ascii.eqb Bool.eqb].
    rewrite exec_seq. rewrite exec_if. cbn [eval bind as_int loc lget String.eqb Ascii.eqb Bool.eqb].
    destruct (N.ltb_spec 2 ht) as [Hh|Hh].
    + (* htype > 2: 3 *)
      destruct (Z.ltb_spec 2 (Z.of_N ht)); [|lia]. change (wrap TBool 1) with 1. cbn [bind as_int]. change (1 =? 0) with false. cbv iota.
      rewrite x_return. cbn [eval bind as_int]. change (wrap U8 3) with (Z.of_N 3). exists 3%N. eexists. split; [reflexivity|split; [reflexivity|intro X0; discriminate X0]].
    + destruct (Z.ltb_spec 2 (Z.of_N ht)); [lia|]. change (wrap TBool 0) with 0. cbn [bind as_int]. change (0 =? 0) with true. cbv iota.
      rewrite exec_skip. cbn [bind].
      (* 7. fseek(fin, 48) *)
      rewrite exec_seq. rewrite x_prim. cbn [eval_list eval bind pre ptrs append as_int].
      change (lget PS1 "rc.fin") with (Some (VPtr "fin" 0)). cbn [bind as_int]. change (wrap I64 48) with 48.
      rewrite fseek_fin by lia. cbn [bind set_ret]. change (Z.to_nat 48) with 48%nat.
      (* 8. $t7 = gethtype() *)
      rewrite exec_seq.
      match goal with |- context [exec whole_prog [] (S ?f) (SCall (Some "$t7") "FileHeader::gethtype/0" _ _) (St _ ?L _ ?fs _ _)] =>
        rewrite (x_scall whole_prog [] f (Some "$t7") "FileHeader::gethtype/0" (Some (EField "header.")) []
                   (St (Mem4 mn) L "rc." fs PS1 1%nat) [] "rc.header." _ _ _ eq_refl eq_refl (Hgh f L fs ltac:(clear - Hfuel; lia)) eq_refl)
      end.
      cbn [bind]. unfold with_loc. cbn [mem loc pre files ptrs fresh lset String.eqb Ascii.eqb Bool.eqb].
      (* 9. cmphmac *)
      rewrite exec_seq.
      match goal with |- context [exec whole_prog [] (S ?f) (SCall (Some "$t6") "hmac::cmphmac/5" ?th ?args) (St _ ?L _ ?fs _ _)] =>
        destruct (Hcmp H74 Hh f mn L ltac:(clear - Hfuel; lia)) as (tag & s6 & Hmodel & E6 & HQ6);
        rewrite (x_scall whole_prog [] f (Some "$t6") "hmac::cmphmac/5" th args (St (Mem4 mn) L "rc." fs PS1 1%nat)
                   [VInt (Z.of_N ht); VPtr "key" 0; VPtr "fin" 0; VPtr "rc.header.hash" 0; VInt fsize] "rc.hmachandle." _ _ _ eq_refl eq_refl E6 eq_refl)
      end.
      cbn [bind]. rewrite Hmodel. unfold with_loc.
      rewrite exec_if. cbn [eval bind as_int loc]. rewrite lget_lset_same. cbn [bind as_int eval_un].
      destruct (cmphmac tag stored).
      * change (1 =? 0) with false. cbv iota. change (0 =? 0) with true. cbv iota. rewrite x_return. cbn [eval bind as_int].
        change (wrap U8 0) with (Z.of_N 0). exists 0%N. eexists. split; [reflexivity|split; [reflexivity|intros _; exists mn, s6; cbn [mem ptrs files fresh]; split; [exact HQ6|repeat split; reflexivity]]].
      * change (0 =? 0) with true. cbv iota. change (1 =? 0) with false. cbv iota. rewrite x_return. cbn [eval bind as_int].
        change (wrap U8 2) with (Z.of_N 2). exists 2%N. eexists. split; [reflexivity|split; [reflexivity|intro X0; discriminate X0]].
Qed.
End VerifyW2.
Print Assumptions verify_W2.
