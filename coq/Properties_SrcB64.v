(* Refinement: the functions TRANSLATED FROM /repo's SOURCES (coq/Gen/Src_*.v, regenerated on
   every run by tools/cgen.py), run under the MiniC semantics (MiniC.v), compute exactly what the
   hand-written models compute -- for every input.  Together with the model = standard theorems
   (Properties_C07/C09/C10/C16) this gives "translated source = standard".
   A change to the C++ changes the left-hand sides; the proofs then have to be re-done (or fail). *)
From Coq Require Import ZArith NArith List String Bool.
From Wencry Require Import Bytes AesModel ModesModel HashModel Base64Model MiniC MiniCRun SrcRun RefineBase64.
Import ListNotations.
Local Open Scope N_scope.

(* base64.cpp *)
Theorem SRC_b64_encode : forall data,
  bytesb data = true -> N.of_nat (length data) < 2 ^ 28 ->
  src_b64_encode data = SOk (hex_to_base64 data).
Proof. exact SRC_b64_encode_proof. Qed.
Print Assumptions SRC_b64_encode.

Theorem SRC_b64_valid : forall text,
  bytesb text = true -> N.of_nat (length text) < 2 ^ 31 ->
  src_b64_valid text = SOk (is_valid_b64 text).
Proof. exact SRC_b64_valid_proof. Qed.
Print Assumptions SRC_b64_valid.

(* decoding into a buffer of cap bytes pre-filled with `fill`: the decoded bytes, the rest untouched *)
Theorem SRC_b64_decode : forall cap fill text out,
  forallb (fun c => c <? 128) text = true -> N.of_nat (length text) < 2 ^ 28 -> fill < 256 ->
  base64_to_hex text = DecOk out -> (length out <= cap)%nat ->
  src_b64_decode cap fill text = SOk (true, out ++ repeat fill (cap - length out)).
Proof. exact SRC_b64_decode_proof. Qed.
Print Assumptions SRC_b64_decode.

(* ---- composed with C16 (model = RFC 4648): what clang reads in base64.cpp IS RFC 4648 ---- *)
From Wencry Require Import Base64Spec Base64Proofs.

Theorem SRC_b64_encode_is_rfc4648 : forall data,
  bytesb data = true -> N.of_nat (length data) < 2 ^ 28 ->
  src_b64_encode data = SOk (encode data ++ [0]).
Proof.
  intros data Hb Hl. rewrite (SRC_b64_encode data Hb Hl). f_equal. apply C16_encode_is_rfc4648_proof. exact Hb.
Qed.
Print Assumptions SRC_b64_encode_is_rfc4648.

(* the translated validator accepts exactly the 24-character texts RFC 4648 decodes to 16 bytes *)
Theorem SRC_b64_validator_exact : forall s,
  bytesb s = true -> N.of_nat (length s) < 2 ^ 31 ->
  (src_b64_valid s = SOk true <-> (length s = 24%nat /\ exists k, decode s = Some k /\ length k = 16%nat)).
Proof.
  intros s Hb Hl. rewrite (SRC_b64_valid s Hb Hl). rewrite <- C16_validator_exact_proof.
  split; intro H; [injection H; auto | rewrite H; reflexivity].
Qed.
Print Assumptions SRC_b64_validator_exact.
