(* Stage 5: execute_encrypt end to end modulo ONE named premise, RefineE2EfFinal2.setup2_enc_spec: the second step of the main thread
   (from the explicit state cs1_enc at the lock of buffergroup::get_instance to the canonical state of the layout instance PWenc at the lock
   of wait_update: new buffergroup, set_buffergroup, mode array, loadiv, T x createCryMaster, the spawn loop of run_multicry).
   Everything else is proved: prepare_IV (RefineE2EfHashA3.prepare_IV_enc_ok2, agent proof-hash), the first step (RefineE2EfSetup1),
   the concurrent phase under every schedule, hmac::writeFileHmac (RefineE2EfHashB3), the tear-down, the file-level model. *)
From Coq Require Import ZArith NArith List String Bool.
From Wencry Require Import Bytes AesModel ModesModel HashModel FileModel FileProps MiniC MiniCRun MiniCConc SrcRun SrcRun2 SrcRun5.
From Wencry Require RefineE2EfSetup1 RefineE2EfFinal2 RefineE2EfHashA3.
Import ListNotations.

Lemma prepare_IV_ok : RefineE2EfSetup1.prepare_IV_enc_spec2.
Proof. exact RefineE2EfHashA3.prepare_IV_enc_ok2. Qed.

Theorem encrypt_modulo_second_step :
  forall (c hbuf T : nat) (P key seed : list N) (cm hm : N),
  enc_params c hbuf T P key seed cm hm ->
  forallb (fun b => (0 <? b)%N && (b <? 256)%N) seed = true -> (N.of_nat (List.length seed) < 2 ^ 32)%N ->
  (N.of_nat (16 * c) < 2 ^ 32)%N -> (N.of_nat (64 * hbuf) < 2 ^ 32)%N ->
  forall ke, create true cm = Some ke ->
  RefineE2EfFinal2.setup2_enc_spec c hbuf T P key seed cm hm ke ->
  forall rnd,
  match src_encrypt_file c hbuf T cm hm P key seed rnd with
  | SOk (b, o, i, _) => b = true /\ enc c hbuf T P key cm hm seed = FileModel.Ok o /\ i = P
  | SErr w => w = "out of fuel"%string \/ w = "step bound reached"%string
  end.
Proof.
  intros c hbuf T P key seed cm hm EP Hseed HsL Hc32 Hh32 ke Hke S2.
  exact (RefineE2EfFinal2.encrypt_modulo_prepare_IV_and_second_step c hbuf T P key seed cm hm EP Hseed HsL Hc32 Hh32 ke Hke prepare_IV_ok S2).
Qed.
Print Assumptions encrypt_modulo_second_step.
