(* C12 -- verify accepts exactly what decrypt accepts; verify writes nothing.
   [ver] returns only a flag (no write action exists in the model); inputs are never written
   (the model has no write action on the input stream; the harness compares the input bytes). *)
From Wencry Require Import Bytes FileModel FileSpec FileProps FileProofsSec FileProofsTotal.
Local Open Scope N_scope.

(* decrypt succeeds only if verify succeeds, and verify failing means decrypt fails -- every file, every key *)
Theorem C12_decrypt_accepts_only_what_verify_accepts : forall c hbuf T F key,
  (forall out, dec c hbuf T F key = Ok out -> ver hbuf F key = Ok true) /\
  (ver hbuf F key = Ok false -> exists code, dec c hbuf T F key = Fail code).
Proof. exact C12_decrypt_accepts_only_what_verify_accepts_proof. Qed.
Print Assumptions C12_decrypt_accepts_only_what_verify_accepts.

(* on the property's domain (no valid tag, or produced by encryption) the two verdicts coincide *)
Theorem C12_verdicts_coincide_on_domain : forall c hbuf T F key,
  (1 <= hbuf)%nat -> N.of_nat (length F) < 2 ^ 56 ->
  (verify hbuf F key <> Ok 0 \/
   exists P seed cm hm, enc_params c hbuf T P key seed cm hm /\ enc c hbuf T P key cm hm seed = Ok F) ->
  (ver hbuf F key = Ok true <-> exists out, dec c hbuf T F key = Ok out) /\
  (ver hbuf F key = Ok true \/ ver hbuf F key = Ok false).
Proof. exact C12_verdicts_coincide_on_domain_proof. Qed.
Print Assumptions C12_verdicts_coincide_on_domain.

(* since the repairs of iobuffer::export_buffer and load_buffer: the two verdicts coincide for EVERY file and key *)
Theorem C12_verdicts_coincide : forall c hbuf T F key,
  (1 <= c)%nat -> (1 <= hbuf)%nat -> (1 <= T)%nat -> N.of_nat (length F) < 2 ^ 56 ->
  (ver hbuf F key = Ok true <-> exists out, dec c hbuf T F key = Ok out) /\
  (ver hbuf F key = Ok true \/ ver hbuf F key = Ok false).
Proof. exact C12_verdicts_coincide_proof. Qed.
Print Assumptions C12_verdicts_coincide.

(* outside the earlier domain: authentic files whose last plaintext byte is not a pad length (200 > 32
   bytes of body: nothing is written; 20: the write stops inside the first block), produced by no encryption *)
Example C12_verdicts_coincide_beyond_enc :
  verify 4 tot_F_badpad tot_key = Ok 0 /\
  ver 4 tot_F_badpad tot_key = Ok true /\ dec 4 4 1 tot_F_badpad tot_key = Ok nil /\
  (~ exists P seed cm hm, enc_params 4 4 1 P tot_key seed cm hm /\ enc 4 4 1 P tot_key cm hm seed = Ok tot_F_badpad) /\
  ver 4 tot_F_pad20 tot_key = Ok true /\ dec 4 4 1 tot_F_pad20 tot_key = Ok (repeat 7 12) /\
  (~ exists P seed cm hm, enc_params 4 4 1 P tot_key seed cm hm /\ enc 4 4 1 P tot_key cm hm seed = Ok tot_F_pad20).
Proof. exact (proj2 (proj2 (proj2 (proj2 C12_verdicts_coincide_nonvacuous)))). Qed.
