(* C12 -- verify accepts exactly what decrypt accepts; verify writes nothing.
   [ver] returns only a flag (no write action exists in the model); inputs are never written
   (the model has no write action on the input stream; the harness compares the input bytes). *)
From Wencry Require Import Bytes FileModel FileSpec FileProps FileProofsSec.
Local Open Scope N_scope.

(* decrypt succeeds only if verify succeeds, and verify failing means decrypt fails -- every file, every key *)
Theorem C12_decrypt_accepts_only_what_verify_accepts : forall c hbuf T F key,
  (forall out, dec c hbuf T F key = Ok out -> ver hbuf F key = Ok true) /\
  (ver hbuf F key = Ok false -> exists code, dec c hbuf T F key = Fail code).
Proof. exact C12_decrypt_accepts_only_what_verify_accepts_proof. Qed.
Print Assumptions C12_decrypt_accepts_only_what_verify_accepts.

(* on the property's domain (no valid tag, or produced by encryption) the two verdicts coincide *)
Theorem C12_verdicts_coincide_on_domain : forall c hbuf T F key,
  (1 <= hbuf)%nat -> N.of_nat (length F) < 2 ^ 56 ->
  (verify hbuf F key <> Ok 0 \/
   exists P seed cm hm, enc_params c hbuf T P key seed cm hm /\ enc c hbuf T P key cm hm seed = Ok F) ->
  (ver hbuf F key = Ok true <-> exists out, dec c hbuf T F key = Ok out) /\
  (ver hbuf F key = Ok true \/ ver hbuf F key = Ok false).
Proof. exact C12_verdicts_coincide_on_domain_proof. Qed.
Print Assumptions C12_verdicts_coincide_on_domain.
