(* MiniC: the target language of the source translator tools/cgen.py, and its executable semantics.

   tools/cgen.py reads clang's JSON AST of /repo's C++ sources (macros expanded, every implicit
   conversion explicit, every expression typed) and emits, for each translated function, a term
   of type [func] below (coq/Gen/Src_*.v, regenerated on every run).  This file gives those terms
   a meaning: a fuelled big-step interpreter [exec] / [call].  The refinement lemmas (Refine*.v)
   prove, for every input, that running the translated function has the effect that the
   hand-written Gallina model of that function describes.

   Memory: named objects, each an array of cells of one integer type (width 1, 2, 4 or 8 bytes).
   A pointer is (object name, byte offset).  A load/store of width w on an object whose cells
   have width w is a cell access (offset must be aligned); on a byte array (width 1) it is a
   little-endian multi-byte access (this is how the unions of the source -- state_t, the s/i
   view of a hash block -- and the (u32_t* ) casts of getXor are given meaning; x86-64 is
   little-endian, see DESIGN Part D).  Any other combination is an error.
   Class members: the members of the object a method runs on are the objects named
   [prefix ++ member]; a sub-object's members are [prefix ++ "sub." ++ member].
   Integer arithmetic: every node carries its C type; the result is computed in Z and then
   reduced modulo 2^width for unsigned types; for signed types a result out of range is an
   error (undefined behaviour), conversions to a signed type wrap (implementation-defined in
   C++17, modular in GCC and Clang).  Shifts by a negative amount or by >= the width, division
   by zero, out-of-bounds or misaligned accesses, reads of unknown variables are errors. *)
From Coq Require Import ZArith List String Bool.
Import ListNotations.
Local Open Scope Z_scope.

Inductive ity := U8 | U16 | U32 | U64 | I8 | I16 | I32 | I64 | TBool.
Definition ity_bits (t : ity) : Z :=
  match t with U8 | I8 => 8 | U16 | I16 => 16 | U32 | I32 => 32 | U64 | I64 => 64 | TBool => 8 end.
Definition ity_bytes (t : ity) : Z := ity_bits t / 8.
Definition ity_signed (t : ity) : bool := match t with I8 | I16 | I32 | I64 => true | _ => false end.

(* conversion to type t (always defined) *)
Definition wrap (t : ity) (z : Z) : Z :=
  match t with
  | TBool => if z =? 0 then 0 else 1
  | _ => let m := 2 ^ ity_bits t in
         if ity_signed t then (z + m / 2) mod m - m / 2 else z mod m
  end.

Inductive res (A : Type) := Ok (a : A) | UB (why : string) | NoFuel.
Arguments Ok {A} a. Arguments UB {A} why. Arguments NoFuel {A}.
Definition bind {A B} (r : res A) (f : A -> res B) : res B :=
  match r with Ok a => f a | UB w => UB w | NoFuel => NoFuel end.
Notation "'do' x <- r ; k" := (bind r (fun x => k)) (at level 200, x pattern, r at level 100, k at level 200).

(* result of an arithmetic operation at type t *)
Definition arith (t : ity) (z : Z) : res Z :=
  match t with
  | TBool => Ok (if z =? 0 then 0 else 1)
  | _ => let m := 2 ^ ity_bits t in
         if ity_signed t then (if (- (m / 2) <=? z) && (z <? m / 2) then Ok z else UB "signed overflow")
         else Ok (z mod m)
  end.

Inductive value := VInt (z : Z) | VPtr (obj : string) (off : Z) | VNull.

Inductive binop := Add | Sub | Mul | Div | Rem | Shl | Shr | BAnd | BOr | BXor | Lt | Le | Gt | Ge | Eq | Ne.
Inductive unop := Neg | BNot | LNot.

Inductive expr :=
| EConst (z : Z)
| EVar (x : string)                          (* local scalar or pointer variable *)
| EGlobal (g : string)                       (* address of a global (constant table) *)
| EField (f : string)                        (* address of member f of the current object *)
| ELocalArr (x : string)                     (* address of a local array *)
| ELoad (t : ity) (p : expr)
| EPtrAdd (p : expr) (scale : Z) (i : expr)  (* p + i * scale bytes *)
| EUn (t : ity) (op : unop) (a : expr)
| EBin (t : ity) (op : binop) (a b : expr)   (* operands already converted by explicit casts; result of type t *)
| ECast (t : ity) (a : expr)
| ECond (c a b : expr)
| EAnd (a b : expr) | EOr (a b : expr)       (* short-circuit && and || *)
| EIsNull (p : expr)                         (* p == NULL *)
| ENull
| EPtrVar (p : expr)                         (* value of the pointer-valued member variable at address p *)
| EPtrEq (a b : expr)                        (* a == b for two pointers (same object and offset, or both null) *)
| EPtrCell (p : expr)                        (* value of the pointer stored at address p inside an object (key ptr_key) *)
| EElem (p i : expr).                        (* the i-th object of an array of class objects: prefix "<array>[<i>]." *)

Inductive stmt :=
| SSkip
| SSeq (a b : stmt)
| SSet (x : string) (e : expr)
| SStore (t : ity) (p : expr) (e : expr)
| SIf (c : expr) (a b : stmt)
| SLoop (c : expr) (body step : stmt)        (* for (; c; step) body  /  while (c) body *)
| SDoWhile (body : stmt) (c : expr)
| SBreak
| SReturn (e : option expr)
| SCall (ret : option string) (f : string) (this : option expr) (args : list expr)
| SCallVirt (ret : option string) (m : string) (this : option expr) (args : list expr)
| SMemcpy (d s n : expr)
| SMemset (d v n : expr)
| SLocalArr (x : string) (t : ity) (n : Z)
| SNew (x : string) (t : ity) (n : expr)
| SDelete (p : expr)
| SPrim (ret : option string) (name : string) (args : list expr)
| SSetPtr (p : expr) (e : expr)              (* pointer-valued member variable at address p := e *)
| SNewObj (x : string) (cls : string) (objs : list (string * ity * Z)) (ctor : option string) (args : list expr)
                                             (* x = new cls(args): a fresh object prefix with the members objs, its dynamic class, then the constructor *)
| SSetPtrCell (p : expr) (e : expr)          (* the pointer stored at address p inside an object := e *)
| SNewObjArr (x : string) (cls : string) (objs : list (string * ity * Z)) (n : expr).
                                             (* x = new cls[n]: n objects with prefixes "#<k>[i]." (the translator emits the loop
                                                that runs the default constructor on each element) *)

Record func := { f_params : list string; f_body : stmt }.
Definition program := list (string * func).

(* ---- memory ---- *)
Record object := { o_ty : ity; o_cells : list Z }.
Definition memory := list (string * object).

Fixpoint mget (m : memory) (k : string) : option object :=
  match m with
  | [] => None
  | (k', o) :: r => if String.eqb k k' then Some o else mget r k
  end.
Fixpoint mset (m : memory) (k : string) (o : object) : memory :=
  match m with
  | [] => [(k, o)]
  | (k', o') :: r => if String.eqb k k' then (k, o) :: r else (k', o') :: mset r k o
  end.

Fixpoint lget {A} (l : list (string * A)) (k : string) : option A :=
  match l with
  | [] => None
  | (k', v) :: r => if String.eqb k k' then Some v else lget r k
  end.
Fixpoint lset {A} (l : list (string * A)) (k : string) (v : A) : list (string * A) :=
  match l with
  | [] => [(k, v)]
  | (k', v') :: r => if String.eqb k k' then (k, v) :: r else (k', v') :: lset r k v
  end.

Fixpoint upd_nth (n : nat) (v : Z) (l : list Z) : list Z :=
  match l, n with
  | [], _ => []
  | _ :: r, O => v :: r
  | x :: r, S n' => x :: upd_nth n' v r
  end.

(* little-endian value of a list of bytes / bytes of a value *)
Fixpoint le_val (bs : list Z) : Z := match bs with [] => 0 | b :: r => b + 256 * le_val r end.
Fixpoint le_bytes (n : nat) (z : Z) : list Z :=
  match n with O => [] | S n' => (z mod 256) :: le_bytes n' (z / 256) end.
Fixpoint upd_range (n : nat) (vs : list Z) (l : list Z) : list Z :=
  match vs with
  | [] => l
  | v :: r => upd_range (S n) r (upd_nth n v l)
  end.

Definition load_obj (o : object) (t : ity) (off : Z) : res Z :=
  let w := ity_bytes t in
  let cw := ity_bytes (o_ty o) in
  if off <? 0 then UB "negative offset" else
  if cw =? w then
    if off mod w =? 0 then
      if off / w <? Z.of_nat (List.length (o_cells o))
      then Ok (wrap t (nth (Z.to_nat (off / w)) (o_cells o) 0))
      else UB "load out of bounds"
    else UB "misaligned load"
  else if cw =? 1 then
    if off + w <=? Z.of_nat (List.length (o_cells o))
    then Ok (wrap t (le_val (firstn (Z.to_nat w) (skipn (Z.to_nat off) (o_cells o)))))
    else UB "load out of bounds"
  else UB "load through a view of another width".

Definition store_obj (o : object) (t : ity) (off : Z) (v : Z) : res object :=
  let w := ity_bytes t in
  let cw := ity_bytes (o_ty o) in
  if off <? 0 then UB "negative offset" else
  if cw =? w then
    if off mod w =? 0 then
      if off / w <? Z.of_nat (List.length (o_cells o))
      then Ok {| o_ty := o_ty o; o_cells := upd_nth (Z.to_nat (off / w)) (wrap (o_ty o) v) (o_cells o) |}
      else UB "store out of bounds"
    else UB "misaligned store"
  else if cw =? 1 then
    if off + w <=? Z.of_nat (List.length (o_cells o))
    then Ok {| o_ty := o_ty o; o_cells := upd_range (Z.to_nat off) (le_bytes (Z.to_nat w) (wrap t v mod 2 ^ (8 * w))) (o_cells o) |}
    else UB "store out of bounds"
  else UB "store through a view of another width".

(* ---- files (stdio), for the translated I/O routines ---- *)
Record cfile := { cf_data : list Z; cf_pos : nat; cf_eof : bool }.

Record state := {
  mem : memory;
  loc : list (string * value);      (* scalar / pointer locals of the running function *)
  pre : string;                     (* prefix naming the members of the current object *)
  files : list (string * cfile);    (* open streams, by the name of the FILE* *)
  ptrs : list (string * value);     (* pointer-valued member variables (FILE *fp, ...), by object name *)
  fresh : nat }.                    (* counter naming heap objects *)

Definition with_mem (s : state) (m : memory) : state :=
  {| mem := m; loc := loc s; pre := pre s; files := files s; ptrs := ptrs s; fresh := fresh s |}.
Definition with_loc (s : state) (l : list (string * value)) : state :=
  {| mem := mem s; loc := l; pre := pre s; files := files s; ptrs := ptrs s; fresh := fresh s |}.
Definition with_ptrs (s : state) (p : list (string * value)) : state :=
  {| mem := mem s; loc := loc s; pre := pre s; files := files s; ptrs := p; fresh := fresh s |}.
Definition with_files (s : state) (f : list (string * cfile)) : state :=
  {| mem := mem s; loc := loc s; pre := pre s; files := f; ptrs := ptrs s; fresh := fresh s |}.

Definition nat_string (n : nat) : string :=
  (fix go (k : nat) (n : nat) (acc : string) {struct k} : string :=
     match k with
     | O => acc
     | S k' => let d := String (Ascii.ascii_of_nat (48 + Nat.modulo n 10)) acc in
               if Nat.eqb (Nat.div n 10) 0 then d else go k' (Nat.div n 10) d
     end) (S n) n EmptyString.

Definition class_key (pfx : string) : string := ("class:" ++ pfx)%string.
(* pointer-valued variables live in ptrs under the name of their object; at a non-zero offset inside an object (a pointer
   member of a POD struct on the heap, `res->fp`) under "<object>@<offset>" *)
Definition z_string (z : Z) : string := if z <? 0 then ("-" ++ nat_string (Z.to_nat (- z)))%string else nat_string (Z.to_nat z).
Definition ptr_key (o : string) (off : Z) : string := if off =? 0 then o else (o ++ "@" ++ z_string off)%string.

Definition as_int (v : value) : res Z := match v with VInt z => Ok z | _ => UB "integer expected" end.

Definition eval_bin (t : ity) (op : binop) (a b : Z) : res Z :=
  match op with
  | Add => arith t (a + b)
  | Sub => arith t (a - b)
  | Mul => arith t (a * b)
  | Div => if b =? 0 then UB "division by zero" else arith t (Z.quot a b)
  | Rem => if b =? 0 then UB "division by zero" else arith t (Z.rem a b)
  | Shl => if (b <? 0) || (ity_bits t <=? b) then UB "shift count" else
           if ity_signed t then (if a <? 0 then UB "shift of negative" else arith t (Z.shiftl a b))
           else Ok (Z.shiftl a b mod 2 ^ ity_bits t)
  | Shr => if (b <? 0) || (ity_bits t <=? b) then UB "shift count" else Ok (Z.shiftr a b)
  | BAnd => Ok (wrap t (Z.land a b))
  | BOr => Ok (wrap t (Z.lor a b))
  | BXor => Ok (wrap t (Z.lxor a b))
  | Lt => Ok (if a <? b then 1 else 0)
  | Le => Ok (if a <=? b then 1 else 0)
  | Gt => Ok (if b <? a then 1 else 0)
  | Ge => Ok (if b <=? a then 1 else 0)
  | Eq => Ok (if a =? b then 1 else 0)
  | Ne => Ok (if a =? b then 0 else 1)
  end.

Definition eval_un (t : ity) (op : unop) (a : Z) : res Z :=
  match op with
  | Neg => arith t (- a)
  | BNot => Ok (wrap t (Z.lnot a))
  | LNot => Ok (if a =? 0 then 1 else 0)
  end.

Fixpoint eval (s : state) (e : expr) : res value :=
  match e with
  | EConst z => Ok (VInt z)
  | EVar x => match lget (loc s) x with Some v => Ok v | None => UB ("unknown variable " ++ x)%string end
  | EGlobal g => Ok (VPtr g 0)
  | EField f => Ok (VPtr (pre s ++ f) 0)
  | ELocalArr x => Ok (VPtr ("%" ++ x) 0)
  | ELoad t p =>
      do v <- eval s p;
      match v with
      | VPtr o off => match mget (mem s) o with
                      | Some ob => do z <- load_obj ob t off; Ok (VInt z)
                      | None => UB ("no object " ++ o)%string
                      end
      | _ => UB "load through a non-pointer"
      end
  | EPtrAdd p sc i =>
      do v <- eval s p; do iv <- eval s i; do n <- as_int iv;
      match v with
      | VPtr o off => Ok (VPtr o (off + n * sc))
      | _ => UB "arithmetic on a non-pointer"
      end
  | EUn t op a => do av <- eval s a; do x <- as_int av; do z <- eval_un t op x; Ok (VInt z)
  | EBin t op a b =>
      do av <- eval s a; do x <- as_int av; do bv <- eval s b; do y <- as_int bv;
      do z <- eval_bin t op x y; Ok (VInt z)
  | ECast t a => do av <- eval s a; do x <- as_int av; Ok (VInt (wrap t x))
  | ECond c a b => do cv <- eval s c; do x <- as_int cv; if x =? 0 then eval s b else eval s a
  | EAnd a b => do av <- eval s a; do x <- as_int av;
                if x =? 0 then Ok (VInt 0) else do bv <- eval s b; do y <- as_int bv; Ok (VInt (if y =? 0 then 0 else 1))
  | EOr a b => do av <- eval s a; do x <- as_int av;
               if x =? 0 then do bv <- eval s b; do y <- as_int bv; Ok (VInt (if y =? 0 then 0 else 1)) else Ok (VInt 1)
  | EIsNull p => do v <- eval s p;
                 match v with VNull => Ok (VInt 1) | VPtr _ _ => Ok (VInt 0) | VInt _ => UB "null test of an integer" end
  | ENull => Ok VNull
  | EPtrEq a b =>
      do av <- eval s a; do bv <- eval s b;
      match av, bv with
      | VPtr o1 f1, VPtr o2 f2 => Ok (VInt (if String.eqb o1 o2 && (f1 =? f2) then 1 else 0))
      | VNull, VNull => Ok (VInt 1)
      | VNull, VPtr _ _ | VPtr _ _, VNull => Ok (VInt 0)
      | _, _ => UB "comparison of a pointer with an integer"
      end
  | EElem p i =>
      do v <- eval s p; do iv <- eval s i; do n <- as_int iv;
      match v with
      | VPtr o _ => Ok (VPtr (o ++ "[" ++ z_string n ++ "].")%string 0)
      | _ => UB "element of a non-array"
      end
  | EPtrCell p => do v <- eval s p;
                  match v with
                  | VPtr o off => match lget (ptrs s) (ptr_key o off) with Some pv => Ok pv | None => UB ("unset pointer cell " ++ o)%string end
                  | _ => UB "pointer cell of a non-object"
                  end
  | EPtrVar p => do v <- eval s p;
                 match v with
                 | VPtr o _ => match lget (ptrs s) o with Some pv => Ok pv | None => UB ("unset pointer member " ++ o)%string end
                 | _ => UB "pointer member of a non-object"
                 end
  end.

Fixpoint eval_list (s : state) (es : list expr) : res (list value) :=
  match es with
  | [] => Ok []
  | e :: r => do v <- eval s e; do vs <- eval_list s r; Ok (v :: vs)
  end.

Inductive outcome := Normal | Broke | Returned (v : option value).

Definition set_ret (s : state) (ret : option string) (v : option value) : res state :=
  match ret with
  | None => Ok s
  | Some x => match v with
              | Some v' => Ok (with_loc s (lset (loc s) x v'))
              | None => UB "value of a void call used"
              end
  end.

(* copy n bytes; both objects must have the same cell width (or be byte arrays) *)
Definition do_memcpy (s : state) (d sr : value) (n : Z) : res state :=
  match d, sr with
  | VPtr od offd, VPtr os offs =>
      match mget (mem s) od, mget (mem s) os with
      | Some bd, Some bs =>
          let w := ity_bytes (o_ty bd) in
          if negb (ity_bytes (o_ty bs) =? w) then UB "memcpy between views of different width" else
          if (n <? 0) || negb (n mod w =? 0) || negb (offd mod w =? 0) || negb (offs mod w =? 0) || (offd <? 0) || (offs <? 0)
          then UB "memcpy misaligned" else
          if Z.of_nat (List.length (o_cells bs)) <? offs / w + n / w then UB "memcpy source out of bounds" else
          if Z.of_nat (List.length (o_cells bd)) <? offd / w + n / w then UB "memcpy destination out of bounds" else
          let k := Z.to_nat (n / w) in
          let src := firstn k (skipn (Z.to_nat (offs / w)) (o_cells bs)) in
          Ok (with_mem s (mset (mem s) od {| o_ty := o_ty bd; o_cells := upd_range (Z.to_nat (offd / w)) src (o_cells bd) |}))
      | _, _ => UB "memcpy: no such object"
      end
  | _, _ => UB "memcpy: non-pointer"
  end.

Definition do_memset (s : state) (d : value) (v n : Z) : res state :=
  match d with
  | VPtr od offd =>
      match mget (mem s) od with
      | Some bd =>
          let w := ity_bytes (o_ty bd) in
          if (n <? 0) || negb (n mod w =? 0) || negb (offd mod w =? 0) || (offd <? 0) then UB "memset misaligned" else
          if negb ((w =? 1) || (v mod 256 =? 0)) then UB "memset of a wide view with a non-zero byte" else
          if Z.of_nat (List.length (o_cells bd)) <? offd / w + n / w then UB "memset out of bounds" else
          Ok (with_mem s (mset (mem s) od {| o_ty := o_ty bd;
                o_cells := upd_range (Z.to_nat (offd / w)) (repeat (v mod 256) (Z.to_nat (n / w))) (o_cells bd) |}))
      | None => UB "memset: no such object"
      end
  | _ => UB "memset: non-pointer"
  end.

Fixpoint bind_params (ps : list string) (vs : list value) : res (list (string * value)) :=
  match ps, vs with
  | [], [] => Ok []
  | p :: pr, v :: vr => do r <- bind_params pr vr; Ok ((p, v) :: r)
  | _, _ => UB "arity"
  end.

(* name of a stream argument: FILE* values are pointers to a pseudo-object named after the stream *)
Definition stream_of (v : value) : res string :=
  match v with VPtr o _ => Ok o | _ => UB "stream expected" end.


(* bytes of a list of cells of width w (little-endian) and back *)
Definition cells_bytes (w : nat) (cells : list Z) : list Z := flat_map (fun c => le_bytes w (c mod 2 ^ (8 * Z.of_nat w))) cells.
Fixpoint bytes_cells (w : nat) (k : nat) (bs : list Z) : list Z :=
  match k with
  | O => []
  | S k' => le_val (firstn w bs) :: bytes_cells w k' (skipn w bs)
  end.
(* members of a new object; the element count of a member whose dimension is a compile-time constant of the source
   (BUF_SZ, HBUF_SZ: overridden in the verification builds) is taken from the one-cell global "sizeof:<class>.<member>"
   when the harness supplies one *)
Fixpoint alloc_objs (cls pfx : string) (l : list (string * ity * Z)) (m : memory) : memory :=
  match l with
  | [] => m
  | (name, t, n) :: r =>
      let n' := match mget m ("sizeof:" ++ cls ++ "." ++ name)%string with
                | Some o => nth 0 (o_cells o) n
                | None => n
                end in
      alloc_objs cls pfx r (mset m (pfx ++ name) {| o_ty := t; o_cells := repeat 0 (Z.to_nat n') |})
  end.
Fixpoint strlen_from (fuel : nat) (l : list Z) : option nat :=
  match l with
  | [] => None
  | x :: r => if x =? 0 then Some O else match fuel with O => None | S f => option_map S (strlen_from f r) end
  end.

(* ---- the environment of the option front end (valget/getopts.cpp), read by the primitives below ----
   "@getopt": what getopt_long delivers, one record per call: [code; 0] (no argument) or [code; n+1; n bytes] (argument);
              at the end of the stream it returns -1.  Each argument becomes a NUL-terminated object "@arg<pos>".
   "@fopen":  one byte per fopen call: 0 = NULL, otherwise a stream "@stream<pos>". *)
Fixpoint strtol_digits (fuel : nat) (l : list Z) (acc : Z) (n : nat) : Z * nat :=
  match fuel, l with
  | S f, c :: r => if (48 <=? c) && (c <=? 57) then strtol_digits f r (Z.min (acc * 10 + (c - 48)) (2 ^ 63)) (S n) else (acc, n)
  | _, _ => (acc, n)
  end.
Fixpoint skip_spaces (fuel : nat) (l : list Z) (n : nat) : list Z * nat :=
  match fuel, l with
  | S f, c :: r => if (c =? 32) || ((9 <=? c) && (c <=? 13)) then skip_spaces f r (S n) else (l, n)
  | _, _ => (l, n)
  end.

(* primitives: the C library calls the translated routines make *)
Definition do_prim (s : state) (name : string) (vs : list value) : res (option value * state) :=
  if String.eqb name "fread" then
    (* fread(dst, 1, n, fp) -> number of bytes read; sets the end-of-file flag when fewer than n were available *)
    match vs with
    | [VPtr od offd; VInt 1; VInt n; fp] =>
        do fname <- stream_of fp;
        match lget (files s) fname, mget (mem s) od with
        | Some f, Some bd =>
            if negb (ity_bytes (o_ty bd) =? 1) then
              (* whole cells of a wider object (fread(&mn, 1, 8, fp) on a u64): all n bytes must be available *)
              let w := ity_bytes (o_ty bd) in
              if (n <? 0) || (offd <? 0) || negb (n mod w =? 0) || negb (offd mod w =? 0) then UB "fread into a wide view: alignment" else
              if Z.of_nat (List.length (o_cells bd)) <? offd / w + n / w then UB "fread out of bounds" else
              let avail := Z.of_nat (List.length (cf_data f)) - Z.of_nat (cf_pos f) in
              let got := firstn (Z.to_nat (Z.min n avail)) (skipn (cf_pos f) (cf_data f)) in
              let k := List.length got in
              let f' := {| cf_data := cf_data f; cf_pos := cf_pos f + k; cf_eof := cf_eof f || (Z.of_nat k <? n) |} in
              (* the bytes that arrived overlay the object representation of the cells (little-endian); the rest keeps its value *)
              let wn := Z.to_nat w in
              let oldcells := firstn (Z.to_nat (n / w)) (skipn (Z.to_nat (offd / w)) (o_cells bd)) in
              let oldbytes := cells_bytes wn oldcells in
              let newbytes := got ++ skipn k oldbytes in
              let cells := bytes_cells wn (Z.to_nat (n / w)) newbytes in
              let s1 := with_mem s (mset (mem s) od {| o_ty := o_ty bd; o_cells := upd_range (Z.to_nat (offd / w)) cells (o_cells bd) |}) in
              Ok (Some (VInt (Z.of_nat k)), with_files s1 (lset (files s) fname f'))
            else
            if (n <? 0) || (offd <? 0) then UB "fread size" else
            let avail := Z.of_nat (List.length (cf_data f)) - Z.of_nat (cf_pos f) in
            let got := firstn (Z.to_nat (Z.min n avail)) (skipn (cf_pos f) (cf_data f)) in
            let k := List.length got in
            if Z.of_nat (List.length (o_cells bd)) <? offd + Z.of_nat k then UB "fread out of bounds" else
            let f' := {| cf_data := cf_data f; cf_pos := cf_pos f + k; cf_eof := cf_eof f || (Z.of_nat k <? n) |} in
            let s1 := with_mem s (mset (mem s) od {| o_ty := o_ty bd; o_cells := upd_range (Z.to_nat offd) got (o_cells bd) |}) in
            Ok (Some (VInt (Z.of_nat k)), with_files s1 (lset (files s) fname f'))
        | _, _ => UB "fread: no such stream / object"
        end
    | _ => UB "fread: arguments"
    end
  else if String.eqb name "feof" then
    match vs with
    | [fp] => do fname <- stream_of fp;
              match lget (files s) fname with
              | Some f => Ok (Some (VInt (if cf_eof f then 1 else 0)), s)
              | None => UB "feof: no such stream"
              end
    | _ => UB "feof: arguments"
    end
  else if String.eqb name "fgetc" then
    match vs with
    | [fp] => do fname <- stream_of fp;
              match lget (files s) fname with
              | Some f => match nth_error (cf_data f) (cf_pos f) with
                          | Some b => Ok (Some (VInt b), with_files s (lset (files s) fname {| cf_data := cf_data f; cf_pos := S (cf_pos f); cf_eof := cf_eof f |}))
                          | None => Ok (Some (VInt (-1)), with_files s (lset (files s) fname {| cf_data := cf_data f; cf_pos := cf_pos f; cf_eof := true |}))
                          end
              | None => UB "fgetc: no such stream"
              end
    | _ => UB "fgetc: arguments"
    end
  else if String.eqb name "ungetc" then
    (* only the use the source makes of it: pushing back the byte just read *)
    match vs with
    | [VInt c; fp] => do fname <- stream_of fp;
              match lget (files s) fname with
              | Some f => match cf_pos f with
                          | S p => if match nth_error (cf_data f) p with Some b => b =? c | None => false end
                                   then Ok (Some (VInt c), with_files s (lset (files s) fname {| cf_data := cf_data f; cf_pos := p; cf_eof := false |}))
                                   else UB "ungetc of a different byte"
                          | O => UB "ungetc at the start"
                          end
              | None => UB "ungetc: no such stream"
              end
    | _ => UB "ungetc: arguments"
    end
  else if String.eqb name "fwrite" then
    (* fwrite(src, 1, n, fp): appends (the output streams of the translated routines are written sequentially) *)
    match vs with
    | [VPtr os offs; VInt 1; VInt n; fp] =>
        do fname <- stream_of fp;
        match lget (files s) fname, mget (mem s) os with
        | Some f, Some bs =>
            let w := ity_bytes (o_ty bs) in
            if (n <? 0) || (offs <? 0) || negb (n mod w =? 0) || negb (offs mod w =? 0) then UB "fwrite size" else
            if Z.of_nat (List.length (o_cells bs)) <? offs / w + n / w then UB "fwrite out of bounds" else
            let cells := firstn (Z.to_nat (n / w)) (skipn (Z.to_nat (offs / w)) (o_cells bs)) in
            let src := if w =? 1 then cells else cells_bytes (Z.to_nat w) cells in
            let d := cf_data f in
            (* at the end of the stream: append; elsewhere (after fseek): overwrite in place, zero-filling a gap *)
            let d' := if Nat.eqb (cf_pos f) (List.length d) then d ++ src
                      else let d0 := d ++ repeat 0 (cf_pos f - List.length d) in
                           firstn (cf_pos f) d0 ++ src ++ skipn (cf_pos f + List.length src) d0 in
            Ok (Some (VInt n), with_files s (lset (files s) fname {| cf_data := d'; cf_pos := cf_pos f + List.length src; cf_eof := cf_eof f |}))
        | _, _ => UB "fwrite: no such stream / object"
        end
    | _ => UB "fwrite: arguments"
    end
  else if String.eqb name "isalnum" then
    match vs with
    | [VInt c] => Ok (Some (VInt (if ((48 <=? c) && (c <=? 57)) || ((65 <=? c) && (c <=? 90)) || ((97 <=? c) && (c <=? 122)) then 1 else 0)), s)
    | _ => UB "isalnum: arguments"
    end
  else if String.eqb name "fseek" then
    (* fseek(fp, off, SEEK_SET) *)
    match vs with
    | [fp; VInt off; VInt 0] => do fname <- stream_of fp;
        match lget (files s) fname with
        | Some f => if (off <? 0) || (2 ^ 40 <? off) then UB "fseek offset" else
                    Ok (Some (VInt 0), with_files s (lset (files s) fname {| cf_data := cf_data f; cf_pos := Z.to_nat off; cf_eof := false |}))
        | None => UB "fseek: no such stream"
        end
    | _ => UB "fseek: arguments"
    end
  else if String.eqb name "strlen" then
    match vs with
    | [VPtr o off] =>
        match mget (mem s) o with
        | Some ob => if negb (ity_bytes (o_ty ob) =? 1) || (off <? 0) || (Z.of_nat (List.length (o_cells ob)) <? off) then UB "strlen: object" else
                     match strlen_from (List.length (o_cells ob)) (skipn (Z.to_nat off) (o_cells ob)) with
                     | Some k => Ok (Some (VInt (Z.of_nat k)), s)
                     | None => UB "strlen: no terminating NUL inside the object"
                     end
        | None => UB "strlen: no such object"
        end
    | _ => UB "strlen: arguments"
    end
  else if String.eqb name "getopt_long" then
    match vs with
    | [] =>
        match lget (files s) "@getopt" with
        | Some f =>
            match nth_error (cf_data f) (cf_pos f), nth_error (cf_data f) (S (cf_pos f)) with
            | Some code, Some len =>
                let f' := {| cf_data := cf_data f; cf_pos := cf_pos f + 2 + Z.to_nat (Z.max 0 (len - 1)); cf_eof := cf_eof f |} in
                let s1 := with_files s (lset (files s) "@getopt" f') in
                if len =? 0 then Ok (Some (VInt code), with_ptrs s1 (lset (ptrs s1) "optarg" VNull))
                else
                  let arg := firstn (Z.to_nat (len - 1)) (skipn (cf_pos f + 2) (cf_data f)) in
                  if negb (Z.of_nat (List.length arg) =? len - 1) then UB "getopt_long: truncated record" else
                  let name := ("@arg" ++ nat_string (cf_pos f))%string in
                  let s2 := with_mem s1 (mset (mem s1) name {| o_ty := U8; o_cells := arg ++ [0] |}) in
                  Ok (Some (VInt code), with_ptrs s2 (lset (ptrs s2) "optarg" (VPtr name 0)))
            | _, _ => Ok (Some (VInt (-1)), s)
            end
        | None => UB "getopt_long: no option stream"
        end
    | _ => UB "getopt_long: arguments"
    end
  else if String.eqb name "fopen" then
    match vs with
    | [_] =>
        match lget (files s) "@fopen" with
        | Some f =>
            match nth_error (cf_data f) (cf_pos f) with
            | Some b =>
                let s1 := with_files s (lset (files s) "@fopen" {| cf_data := cf_data f; cf_pos := S (cf_pos f); cf_eof := cf_eof f |}) in
                Ok (Some (if b =? 0 then VNull else VPtr ("@stream" ++ nat_string (cf_pos f))%string 0), s1)
            | None => UB "fopen: the environment has no answer left"
            end
        | None => UB "fopen: no environment"
        end
    | _ => UB "fopen: arguments"
    end
  else if String.eqb name "snprintf" then
    (* snprintf(dst, n, "%s.wenc", src): at most n-1 characters and a NUL are written; returns strlen(src) + 5 *)
    match vs with
    | [VPtr od offd; VInt n; VPtr os offs] =>
        match mget (mem s) od, mget (mem s) os with
        | Some bd, Some bs =>
            if negb (ity_bytes (o_ty bd) =? 1) || negb (ity_bytes (o_ty bs) =? 1) || (offd <? 0) || (offs <? 0) || (n <? 1)
               || (Z.of_nat (List.length (o_cells bs)) <? offs) || (Z.of_nat (List.length (o_cells bd)) <? offd + n)
            then UB "snprintf: objects" else
            match strlen_from (List.length (o_cells bs)) (skipn (Z.to_nat offs) (o_cells bs)) with
            | Some k =>
                let full := firstn k (skipn (Z.to_nat offs) (o_cells bs)) ++ [46; 119; 101; 110; 99] in
                let out := firstn (Z.to_nat (n - 1)) full ++ [0] in
                Ok (Some (VInt (Z.of_nat (List.length full))),
                    with_mem s (mset (mem s) od {| o_ty := o_ty bd; o_cells := upd_range (Z.to_nat offd) out (o_cells bd) |}))
            | None => UB "snprintf: source not terminated"
            end
        | _, _ => UB "snprintf: no such object"
        end
    | _ => UB "snprintf: arguments"
    end
  else if String.eqb name "strtol" then
    (* strtol(text, &end, 10): white space, optional sign, decimal digits; *end = first unparsed character (= text when no digit);
       saturating at 2^63 *)
    match vs with
    | [VPtr o off; VPtr oe offe; VInt 10] =>
        match mget (mem s) o with
        | Some ob =>
            if negb (ity_bytes (o_ty ob) =? 1) || (off <? 0) || (Z.of_nat (List.length (o_cells ob)) <? off) then UB "strtol: object" else
            let l0 := skipn (Z.to_nat off) (o_cells ob) in
            let '(l1, nsp) := skip_spaces (List.length l0) l0 0 in
            let '(neg, l2, nsg) := match l1 with
                                   | c :: r => if c =? 45 then (true, r, 1%nat) else if c =? 43 then (false, r, 1%nat) else (false, l1, 0%nat)
                                   | [] => (false, l1, 0%nat)
                                   end in
            let '(v, nd) := strtol_digits (List.length l2) l2 0 0 in
            let consumed := if Nat.eqb nd 0 then 0%nat else (nsp + nsg + nd)%nat in
            let value := if Nat.eqb nd 0 then 0 else if neg then - v else Z.min v (2 ^ 63 - 1) in
            Ok (Some (VInt value), with_ptrs s (lset (ptrs s) (ptr_key oe offe) (VPtr o (off + Z.of_nat consumed))))
        | None => UB "strtol: no such object"
        end
    | _ => UB "strtol: arguments"
    end
  else if String.eqb name "file_size" then Ok (Some (VInt 0), s)
  else if String.eqb name "rand" then Ok (Some (VInt 0), s)
  else if String.eqb name "time" then Ok (Some (VInt 0), s)
  else if String.eqb name "exit" then
    match vs with
    | [VInt c] => UB ("exit:" ++ z_string c)%string
    | _ => UB "exit: arguments"
    end
  else UB ("unknown primitive " ++ name)%string.

Section Exec.
Variable prog : program.
Variable vtab : list (string * string).     (* object prefix -> dynamic class, for virtual calls *)

Definition this_prefix (s : state) (this : option expr) : res string :=
  match this with
  | None => Ok (pre s)
  | Some e => do v <- eval s e;
              match v with VPtr o _ => Ok o | _ => UB "method call on a non-object" end
  end.

Fixpoint exec (fuel : nat) (st : stmt) (s : state) {struct fuel} : res (outcome * state) :=
  match fuel with
  | O => NoFuel
  | S fuel' =>
      let call_fn (ret : option string) (fname : string) (pfx : string) (vs : list value) : res (outcome * state) :=
        match lget prog fname with
        | None => UB ("no function " ++ fname)%string
        | Some f =>
            do l <- bind_params (f_params f) vs;
            let callee := {| mem := mem s; loc := l; pre := pfx; files := files s; ptrs := ptrs s; fresh := fresh s |} in
            do r <- exec fuel' (f_body f) callee;
            let '(o, s1) := r in
            let back := {| mem := mem s1; loc := loc s; pre := pre s; files := files s1; ptrs := ptrs s1; fresh := fresh s1 |} in
            do s2 <- set_ret back ret (match o with Returned v => v | _ => None end);
            Ok (Normal, s2)
        end in
      match st with
      | SSkip => Ok (Normal, s)
      | SSeq a b =>
          do r <- exec fuel' a s;
          let '(o, s1) := r in
          match o with Normal => exec fuel' b s1 | _ => Ok (o, s1) end
      | SSet x e => do v <- eval s e; Ok (Normal, with_loc s (lset (loc s) x v))
      | SStore t p e =>
          do pv <- eval s p; do ev <- eval s e; do z <- as_int ev;
          match pv with
          | VPtr o off => match mget (mem s) o with
                          | Some ob => do ob' <- store_obj ob t off z; Ok (Normal, with_mem s (mset (mem s) o ob'))
                          | None => UB ("no object " ++ o)%string
                          end
          | _ => UB "store through a non-pointer"
          end
      | SIf c a b => do cv <- eval s c; do x <- as_int cv; if x =? 0 then exec fuel' b s else exec fuel' a s
      | SLoop c body step =>
          do cv <- eval s c; do x <- as_int cv;
          if x =? 0 then Ok (Normal, s) else
          do r <- exec fuel' body s;
          let '(o, s1) := r in
          match o with
          | Normal => do r2 <- exec fuel' step s1;
                      let '(o2, s2) := r2 in
                      match o2 with Normal => exec fuel' (SLoop c body step) s2 | _ => UB "control flow out of a loop step" end
          | Broke => Ok (Normal, s1)
          | Returned v => Ok (Returned v, s1)
          end
      | SDoWhile body c =>
          do r <- exec fuel' body s;
          let '(o, s1) := r in
          match o with
          | Normal => do cv <- eval s1 c; do x <- as_int cv;
                      if x =? 0 then Ok (Normal, s1) else exec fuel' (SDoWhile body c) s1
          | Broke => Ok (Normal, s1)
          | Returned v => Ok (Returned v, s1)
          end
      | SBreak => Ok (Broke, s)
      | SReturn None => Ok (Returned None, s)
      | SReturn (Some e) => do v <- eval s e; Ok (Returned (Some v), s)
      | SCall ret fname this args =>
          do vs <- eval_list s args; do pfx <- this_prefix s this; call_fn ret fname pfx vs
      | SCallVirt ret m this args =>
          do vs <- eval_list s args; do pfx <- this_prefix s this;
          match lget vtab pfx with
          | Some cls => call_fn ret (cls ++ "::" ++ m)%string pfx vs
          | None =>
              (* objects created by SNewObj carry their class in the state *)
              match lget (ptrs s) (class_key pfx) with
              | Some (VPtr cls _) => call_fn ret (cls ++ "::" ++ m)%string pfx vs
              | _ => UB ("no dynamic class for " ++ pfx)%string
              end
          end
      | SMemcpy d sr n => do dv <- eval s d; do sv <- eval s sr; do nv <- eval s n; do k <- as_int nv;
                          do s' <- do_memcpy s dv sv k; Ok (Normal, s')
      | SMemset d v n => do dv <- eval s d; do vv <- eval s v; do x <- as_int vv; do nv <- eval s n; do k <- as_int nv;
                         do s' <- do_memset s dv x k; Ok (Normal, s')
      | SLocalArr x t n =>
          Ok (Normal, with_mem s (mset (mem s) ("%" ++ x) {| o_ty := t; o_cells := repeat 0 (Z.to_nat n) |}))
      | SNew x t n =>
          do nv <- eval s n; do k <- as_int nv;
          if k <? 0 then UB "new[] of negative size" else
          let name := ("#" ++ nat_string (fresh s))%string in
          Ok (Normal, {| mem := mset (mem s) name {| o_ty := t; o_cells := repeat 0 (Z.to_nat k) |};
                         loc := lset (loc s) x (VPtr name 0); pre := pre s; files := files s; ptrs := ptrs s; fresh := S (fresh s) |})
      | SDelete p => do _ <- eval s p; Ok (Normal, s)
      | SPrim ret name args =>
          do vs <- eval_list s args; do r <- do_prim s name vs;
          let '(v, s1) := r in
          do s2 <- set_ret s1 ret v; Ok (Normal, s2)
      | SNewObj x cls objs ctor args =>
          do vs <- eval_list s args;
          (* the new object's prefix: "#<n>." by default; the harness may reserve a prefix for (the next) object of a class
             with the entry "alloc:<class>" of ptrs -- names are labels, the only requirement is that they are unused, which is checked *)
          let name := match lget (ptrs s) ("alloc:" ++ cls)%string with
                      | Some (VPtr p _) => p
                      | _ => ("#" ++ nat_string (fresh s) ++ ".")%string
                      end in
          if negb (forallb (fun x : string * ity * Z => match mget (mem s) (name ++ fst (fst x))%string with None => true | Some _ => false end) objs)
          then UB "new: the object's names are in use" else
          let s0 := {| mem := alloc_objs cls name objs (mem s); loc := lset (loc s) x (VPtr name 0); pre := pre s; files := files s;
                       ptrs := lset (ptrs s) (class_key name) (VPtr cls 0); fresh := S (fresh s) |} in
          match ctor with
          | None => Ok (Normal, s0)
          | Some fname =>
              match lget prog fname with
              | None => UB ("no function " ++ fname)%string
              | Some f =>
                  do l <- bind_params (f_params f) vs;
                  do r <- exec fuel' (f_body f) {| mem := mem s0; loc := l; pre := name; files := files s0; ptrs := ptrs s0; fresh := fresh s0 |};
                  let '(_, s1) := r in
                  Ok (Normal, {| mem := mem s1; loc := loc s0; pre := pre s0; files := files s1; ptrs := ptrs s1; fresh := fresh s1 |})
              end
          end
      | SSetPtr p e =>
          do pv <- eval s p; do ev <- eval s e;
          match pv with
          | VPtr o _ => Ok (Normal, with_ptrs s (lset (ptrs s) o ev))
          | _ => UB "pointer member of a non-object"
          end
      | SSetPtrCell p e =>
          do pv <- eval s p; do ev <- eval s e;
          match pv with
          | VPtr o off => Ok (Normal, with_ptrs s (lset (ptrs s) (ptr_key o off) ev))
          | _ => UB "pointer cell of a non-object"
          end
      | SNewObjArr x cls objs n =>
          do nv <- eval s n; do cnt <- as_int nv;
          if (cnt <? 0) || (4096 <? cnt) then UB "new[]: element count" else
          let base := ("#" ++ nat_string (fresh s))%string in
          let fix build (k : nat) (i : Z) (m : memory) (ps : list (string * value)) {struct k} : memory * list (string * value) :=
            match k with
            | O => (m, ps)
            | S k' =>
                let name := (base ++ "[" ++ z_string i ++ "].")%string in
                build k' (i + 1) (alloc_objs cls name objs m) (lset ps (class_key name) (VPtr cls 0))
            end in
          let '(m', ps') := build (Z.to_nat cnt) 0 (mem s) (ptrs s) in
          Ok (Normal, {| mem := m'; loc := lset (loc s) x (VPtr base 0); pre := pre s; files := files s; ptrs := ps'; fresh := S (fresh s) |})
      end
  end.

(* run function fname on object prefix pfx with the given arguments *)
Definition call (fuel : nat) (fname pfx : string) (vs : list value) (s : state) : res (option value * state) :=
  match lget prog fname with
  | None => UB ("no function " ++ fname)%string
  | Some f =>
      do l <- bind_params (f_params f) vs;
      do r <- exec fuel (f_body f) {| mem := mem s; loc := l; pre := pfx; files := files s; ptrs := ptrs s; fresh := fresh s |};
      let '(o, s1) := r in
      Ok (match o with Returned v => v | _ => None end,
          {| mem := mem s1; loc := loc s; pre := pre s; files := files s1; ptrs := ptrs s1; fresh := fresh s1 |})
  end.
End Exec.
