(* Layer M, the I/O thread (2): export_buffer and load_buffer -- the stream operations. *)
From Coq Require Import ZArith NArith List String Bool Lia Arith.
From Wencry Require Import Bytes FileModel PipeConc PipeLemmas MiniC MiniCLemmas MiniCConc SrcRun RefineSeqDefs RefineSeqA RefineSeqB.
From Wencry Require RefineIobuffer.
From Wencry Require Import RefineE2EfLay RefineE2EfMach RefineE2EfMem RefineE2EfTac RefineE2EfStepW RefineE2EfStepW2 RefineE2EfStepI.
From Wencry.Gen Require Src_conc.
Import ListNotations.
Local Open Scope string_scope.
Local Open Scope list_scope.

(* a primitive call through exec *)
Lemma exec_prim_none : forall pr s name args vs v s1, eval_list s args = Ok vs -> do_prim s name vs = Ok (v, s1) ->
  exec pr vt 1 (SPrim None name args) s = Ok (Normal, s1).
Proof. intros pr s name args vs v s1 H1 H2. cbn [exec]. rewrite H1. cbn [bind]. rewrite H2. reflexivity. Qed.
Lemma exec_prim_some : forall pr s x name args vs v s1, eval_list s args = Ok vs -> do_prim s name vs = Ok (Some v, s1) ->
  exec pr vt 1 (SPrim (Some x) name args) s = Ok (Normal, with_loc s1 (lset (loc s1) x v)).
Proof. intros pr s x name args vs v s1 H1 H2. cbn [exec]. rewrite H1. cbn [bind]. rewrite H2. reflexivity. Qed.

Section I2.
Context {LY : Layout} {LO : LayoutOk}.
Variables (c T : nat) (input0 : list N).
Notation cst pad := (cstate_md c T pad input0).
Notation sho pad := (sh_of c T pad input0).

(* number of bytes export_buffer writes *)
Definition mexport_len (pad : bool) (b : mbuf) : Z :=
  if mb_fin b then
    let size := (16 * mb_now b)%Z in
    let padding := if pad || (mb_now b =? 0)%Z then 0%Z else nth (Z.to_nat (16 * (mb_now b - 1) + 15)) (mb_cells b) 0%Z in
    if (size <? padding)%Z then 0%Z else (size - padding)%Z
  else (16 * Z.of_nat c)%Z.

Lemma rd_sum : forall pad d l p, (16 * Z.of_nat c < 2 ^ 32)%Z ->
  eval (tst (sho pad d) l p) (ELoad U32 (EGlobal "sum")) = Ok (VInt (16 * Z.of_nat c)).
Proof. intros pad d l p H. evs. rewrite mget_sum. rewrite load_cell. rewrite wrap_U32_small by lia. reflexivity. Qed.
Lemma rd_fin : forall pad d i l, (i < T)%nat ->
  eval (tst (sho pad d) l (bpfx i)) (ELoad TBool (EField "isfinal")) = Ok (VInt (b2z (mb_fin (nth i (d_bufs d) mb0)))).
Proof. intros pad d i l Hi. evs. rewrite mget_fin by exact Hi. rewrite load_cell. rewrite wrap_TBool_b2z. reflexivity. Qed.

(* the effect of fwrite on the canonical shared state *)
Lemma sho_fwrite : forall pad d l p n cells, 
  with_files (tst (sho pad d) l p) (lset (files (tst (sho pad d) l p)) "fout"
     {| cf_data := d_out d ++ firstn n cells; cf_pos := List.length (d_out d) + List.length (firstn n cells); cf_eof := false |})
  = tst (sho pad (with_out d (d_out d ++ firstn n cells))) l p.
Proof. intros. unfold with_files, tst, sh_of, files_of. cbn [mem loc pre files ptrs fresh lset String.eqb Ascii.eqb Bool.eqb with_out d_out d_pos d_eof]. rewrite app_length, mem_out. reflexivity. Qed.

Lemma M_io_export : forall pad ws d g,
  dwf c T d -> List.length ws = T -> g_bu g = [("loadstate", VInt 2); ("$t1", VInt 1); ("$t2", VInt 1)] ->
  let t := d_turn d in
  let b := nth t (d_bufs d) mb0 in
  (mb_now b <= Z.of_nat c)%Z ->
  exists n, (n <= 100)%nat /\ cstep prog vt n (cst pad I_Export ws d g) 0 =
     Ok (cst pad I_Load ws (with_out d (d_out d ++ firstn (Z.to_nat (mexport_len pad b)) (mb_cells b))) g,
         [(5, Z.of_nat t, 0); (6, Z.of_nat t, b2z (d_over d))]%Z).
Proof.
  intros pad ws d g Hd Lw Hg t b Hnowc.
  destruct Hd as (Lb & Ln & Ht & Hlv & HT & Hc1 & Hc & Hb & Hn). destruct (Hb _ Ht) as (Hst & Htot & Hnow & Hlen & Hbytes). fold t b in Hst, Htot, Hnow, Hlen, Hbytes, Ht.
  pose proof (fun l => rd_turn c T pad input0 d l Ht ltac:(lia)) as RTu. pose proof (rd_over c T pad input0 d) as RO. pose proof (rd_pad c T pad input0 d) as RP. fold t in RTu.
  pose proof (fun l => rd_fin pad d t l Ht) as RF. pose proof (fun l => rd_sum pad d l (bpfx t) Hc) as RS. fold b in RF.
  pose proof (fun l => rd_now c T pad input0 d t l Ht Hnow) as RN. fold b in RN.
  start_io 100. rewrite Hg. msteps. change (elem_pfx BL t) with (bpfx t). msteps.
  unfold mexport_len. destruct (mb_fin b) eqn:Efin; cbn [b2z]; evs.
  2:{ eapply r_none; [discriminate | fo | eapply m_prim; [reflexivity | eapply exec_prim_none; [ev | ]] | ].
      { change (wrap U64 1) with 1%Z. rewrite (wrap_U64_small (16 * Z.of_nat c)) by lia.
        eapply RefineIobuffer.prim_fwrite; [reflexivity | evs; rewrite mget_b by exact Ht; reflexivity | fold b; rewrite Hlen; lia | reflexivity]. }
      cbn [cf_data cf_pos cf_eof]. rewrite sho_fwrite. cbn [shared_of loc tst mem files ptrs fresh cont_conf next_of].
      match goal with |- context [sh_of _ _ _ _ (with_out ?a ?bb)] => set (d' := with_out a bb) end.
      clear RTu RO. pose proof (fun l => rd_turn c T pad input0 d' l Ht ltac:(lia)) as RTu. pose proof (rd_over c T pad input0 d') as RO.
      cbn [d' with_out d_turn d_over] in RTu, RO. fold t in RTu.
      msteps. rewrite ?(wrap_I64_nat (Z.of_nat t)) by lia; rewrite ?wrap_I64_b2z.
      stop_io I_Load g; [rewrite Hg; reflexivity | reflexivity]. }
  assert (Hsz : (Z.shiftl (mb_now b) 4 mod 2 ^ 32 = 16 * mb_now b)%Z).
  { rewrite Z.shiftl_mul_pow2 by lia. change (2 ^ 4)%Z with 16%Z. rewrite Z.mod_small; lia. }
  mstep. mstep. rewrite Hsz. mstep.
  set (byte := nth (Z.to_nat (16 * (mb_now b - 1) + 15)) (mb_cells b) 0%Z).
  set (padv := if pad || (mb_now b =? 0)%Z then 0%Z else byte).
  assert (Hpv : (0 <= padv < 256)%Z).
  { unfold padv. destruct (pad || (mb_now b =? 0)%Z); [lia|]. unfold byte.
    destruct (Nat.lt_ge_cases (Z.to_nat (16 * (mb_now b - 1) + 15)) (List.length (mb_cells b))) as [L|L].
    - apply (proj1 (Forall_forall _ _) Hbytes). apply nth_In. exact L.
    - rewrite nth_overflow by exact L. lia. }
  assert (EVp : forall l sz, eval (tst (sho pad d) (("fout", VPtr "fout" 0) :: ("ispadding", VInt (b2z pad)) :: ("size", sz) :: l) (bpfx t))
            (ECast U8 (ECond (EOr (EVar "ispadding") (EBin TBool Eq (ELoad U32 (EField "now")) (ECast U32 (EConst 0)))) (EConst 0)
                (ECast I32 (ELoad U8 (EPtrAdd (EPtrAdd (EField "b") 16 (EBin U32 Sub (ELoad U32 (EField "now")) (ECast U32 (EConst 1)))) 1 (EConst 15))))))
            = Ok (VInt padv)).
  { intros l sz. unfold padv. destruct pad; cbn [orb b2z].
    - match goal with |- ?lhs = _ => eassert (EE : lhs = Ok (VInt _)) by ev; rewrite EE; reflexivity end.
    - destruct (Z.eqb_spec (mb_now b) 0) as [E0|E0].
      + rewrite E0 in RN. match goal with |- ?lhs = _ => eassert (EE : lhs = Ok (VInt _)) by ev; rewrite EE; reflexivity end.
      + assert (RNZ : forall l, eval (tst (sho false d) l (bpfx t)) (EBin TBool Eq (ELoad U32 (EField "now")) (ECast U32 (EConst 0))) = Ok (VInt 0)).
        { intros l0. erewrite ev_bin; [ | apply RN | ev | evs; reflexivity]. replace (mb_now b =? 0)%Z with false by (symmetry; apply Z.eqb_neq; exact E0). reflexivity. }
        assert (RB : forall l, eval (tst (sho false d) l (bpfx t))
                  (ELoad U8 (EPtrAdd (EPtrAdd (EField "b") 16 (EBin U32 Sub (ELoad U32 (EField "now")) (ECast U32 (EConst 1)))) 1 (EConst 15))) = Ok (VInt byte)).
        { intros l0. eapply ev_load; [ev | evs; rewrite mget_b by exact Ht; reflexivity | ].
          fold b. change (wrap U32 1) with 1%Z. cbn [ity_bits]. rewrite (Z.mod_small (mb_now b - 1)) by lia.
          replace (0 + (mb_now b - 1) * 16 + 15 * 1)%Z with (16 * (mb_now b - 1) + 15)%Z by lia.
          rewrite load_byte by (rewrite Hlen; lia). fold byte. rewrite wrap_U8_small; [reflexivity|].
          unfold padv in Hpv. cbn [orb] in Hpv. replace (mb_now b =? 0)%Z with false in Hpv by (symmetry; apply Z.eqb_neq; exact E0). exact Hpv. }
        match goal with |- ?lhs = _ => eassert (EE : lhs = Ok (VInt _)) by ev; rewrite EE end. f_equal. f_equal. rewrite wrap_I32_small by (change (2 ^ 31)%Z with 2147483648%Z; unfold padv in Hpv; cbn [orb] in Hpv; replace (mb_now b =? 0)%Z with false in Hpv by (symmetry; apply Z.eqb_neq; exact E0); lia).
        apply wrap_U8_small. unfold padv in Hpv. cbn [orb] in Hpv. replace (mb_now b =? 0)%Z with false in Hpv by (symmetry; apply Z.eqb_neq; exact E0). exact Hpv. }
  eapply r_none; [discriminate | fo | eapply m_set; [apply sh_of_shared | apply EVp] | cbn [cont_conf next_of]; evs].
  set (len := (if (16 * mb_now b <? padv)%Z then 0 else 16 * mb_now b - padv)%Z).
  assert (Hlenr : (0 <= len <= 16 * Z.of_nat c)%Z).
  { unfold len. clearbody padv. clear -Hpv Hnow Hnowc. destruct (Z.ltb_spec (16 * mb_now b) padv); lia. }
  match goal with |- exr _ _ _ (Build_cthread (SPrim None "fwrite" ?args) _ ?L ?P _) _ _ _ =>
    assert (EVn : eval_list (tst (sho pad d) L P) args = Ok [VPtr (bpfx t ++ "b") 0; VInt 1; VInt len; VPtr "fout" 0]) end.
  { match goal with |- eval_list ?s _ = _ =>
      eassert (RG : eval s (EBin TBool Gt (ECast U32 (EVar "padding")) (EVar "size")) = Ok (VInt _)) by ev end.
    rewrite (wrap_U32_small padv) in RG by lia. cbn [eval_bin] in RG.
    unfold len. destruct (Z.ltb_spec (16 * mb_now b) padv) as [L|L].
    - match goal with |- ?lhs = _ => eassert (EE : lhs = Ok _) by ev; rewrite EE; reflexivity end.
    - match goal with |- ?lhs = _ => eassert (EE : lhs = Ok _) by ev; rewrite EE end.
      rewrite (wrap_U32_small padv) by lia. cbn [ity_bits]. rewrite Z.mod_small by lia. rewrite !wrap_U64_small by lia. reflexivity. }
  eapply r_none; [discriminate | fo | eapply m_prim; [reflexivity | eapply exec_prim_none; [exact EVn | ]] | ].
  { eapply RefineIobuffer.prim_fwrite; [reflexivity | evs; rewrite mget_b by exact Ht; reflexivity | fold b; rewrite Hlen; lia | reflexivity]. }
  cbn [cf_data cf_pos cf_eof]. rewrite sho_fwrite. cbn [shared_of loc tst mem files ptrs fresh cont_conf next_of].
  match goal with |- context [sh_of _ _ _ _ (with_out ?a ?bb)] => set (d' := with_out a bb) end.
  clear RTu RO. pose proof (fun l => rd_turn c T pad input0 d' l Ht ltac:(lia)) as RTu. pose proof (rd_over c T pad input0 d') as RO.
  cbn [d' with_out d_turn d_over] in RTu, RO. fold t in RTu.
  msteps. rewrite ?(wrap_I64_nat (Z.of_nat t)) by lia; rewrite ?wrap_I64_b2z.
  stop_io I_Load g; [rewrite Hg; reflexivity | reflexivity].
Qed.

End I2.
