(* C09 -- single-block AES-128 equals FIPS-197 for every key/block; decryption inverts it.
   Only statements; every proof is one [exact] of a lemma of AesProofs. *)
From Wencry Require Import Bytes AesSpec AesModel AesProofs.
From Wencry.Gen Require Import AesTab.

Theorem C09_encrypt_is_fips197 : forall k b,
  block16 k -> block16 b -> aes_enc k b = Cipher k b.
Proof. exact C09_encrypt_is_fips197_proof. Qed.
Print Assumptions C09_encrypt_is_fips197.

Theorem C09_decrypt_is_fips197 : forall k b,
  block16 k -> block16 b -> aes_dec k b = InvCipher k b.
Proof. exact C09_decrypt_is_fips197_proof. Qed.
Print Assumptions C09_decrypt_is_fips197.

Theorem C09_decrypt_inverts_encrypt : forall k b,
  block16 k -> block16 b -> aes_dec k (aes_enc k b) = b.
Proof. exact C09_decrypt_inverts_encrypt_proof. Qed.
Print Assumptions C09_decrypt_inverts_encrypt.

Theorem C09_encrypt_inverts_decrypt : forall k b,
  block16 k -> block16 b -> aes_enc k (aes_dec k b) = b.
Proof. exact C09_encrypt_inverts_decrypt_proof. Qed.
Print Assumptions C09_encrypt_inverts_decrypt.

(* outputs are again well-formed blocks (so that streams of blocks stay in the domain) *)
Theorem C09_outputs_are_blocks : forall k b,
  block16 k -> block16 b -> block16 (aes_enc k b) /\ block16 (aes_dec k b).
Proof. exact C09_outputs_are_blocks_proof. Qed.
Print Assumptions C09_outputs_are_blocks.

(* the lookup tables of the current source tree (regenerated into Gen.AesTab) are the FIPS-197
   S-boxes, and the log/antilog tables implement multiplication in GF(2^8) for the exponents
   the code uses *)
Theorem C09_tables_are_fips197 :
  tab_s_box = fips_sbox /\ tab_rs_box = fips_inv_sbox /\
  (forall v, (v < 256)%N ->
     Gmul 25 v = gmul 2 v /\ Gmul 1 v = gmul 3 v /\ Gmul 0 v = v /\
     Gmul 223 v = gmul 14 v /\ Gmul 104 v = gmul 11 v /\ Gmul 238 v = gmul 13 v /\ Gmul 199 v = gmul 9 v).
Proof. exact C09_tables_are_fips197_proof. Qed.
Print Assumptions C09_tables_are_fips197.
