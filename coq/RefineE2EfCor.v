(* Corollaries of the end-to-end theorem for encryption, composed with the theorems about the hand model:
   C02 (FileModel.enc = the documented format wenc_spec) and C01 (dec (enc P) = P, ver accepts). *)
From Coq Require Import ZArith NArith List String Bool.
From Wencry Require Import Bytes HashModel FileModel FileSpec FileProps FileProofsEnc FileProofsDec MiniC MiniCRun MiniCConc SrcRun SrcRun2 SrcRun5 RefineE2Ef.
Import ListNotations.
Local Open Scope N_scope.

Lemma SRC_encrypted_file_is_documented_format_proof : forall c hbuf T P key seed cm hm rnd,
  enc_params c hbuf T P key seed cm hm ->
  forallb (fun b => (0 <? b) && (b <? 256)) seed = true ->
  N.of_nat (length seed) < 2 ^ 32 ->
  N.of_nat (16 * c) < 2 ^ 32 -> N.of_nat (64 * hbuf) < 2 ^ 32 ->
  match src_encrypt_file c hbuf T cm hm P key seed rnd with
  | SOk (b, o, i, _) => b = true /\ wenc_spec c T P key cm hm seed = Some o /\ length o = wenc_length T (length P) /\ i = P
  | SErr w => w = "out of fuel"%string \/ w = "step bound reached"%string
  end.
Proof.
  intros c hbuf T P key seed cm hm rnd Hp Hs Hl Hc Hh.
  pose proof (SRC_execute_encrypt_is_model_proof c hbuf T P key seed cm hm rnd Hp Hs Hl Hc Hh) as H.
  destruct (src_encrypt_file c hbuf T cm hm P key seed rnd) as [[[[b o] i] k]|w]; [|exact H].
  destruct H as [Hb [He Hi]].
  destruct (C02_encrypted_file_is_documented_format_proof c hbuf T P key seed cm hm Hp) as [F [HF [HW HL]]].
  rewrite HF in He. injection He as He. subst o.
  repeat split; assumption.
Qed.

Lemma SRC_encrypted_file_decrypts_to_the_plaintext_proof : forall c hbuf T P key seed cm hm rnd,
  enc_params c hbuf T P key seed cm hm ->
  forallb (fun b => (0 <? b) && (b <? 256)) seed = true ->
  N.of_nat (length seed) < 2 ^ 32 ->
  N.of_nat (16 * c) < 2 ^ 32 -> N.of_nat (64 * hbuf) < 2 ^ 32 ->
  match src_encrypt_file c hbuf T cm hm P key seed rnd with
  | SOk (b, o, i, _) => b = true /\ dec c hbuf T o key = FileModel.Ok P /\ ver hbuf o key = FileModel.Ok true
  | SErr w => w = "out of fuel"%string \/ w = "step bound reached"%string
  end.
Proof.
  intros c hbuf T P key seed cm hm rnd Hp Hs Hl Hc Hh.
  pose proof (SRC_execute_encrypt_is_model_proof c hbuf T P key seed cm hm rnd Hp Hs Hl Hc Hh) as H.
  destruct (src_encrypt_file c hbuf T cm hm P key seed rnd) as [[[[b o] i] k]|w]; [|exact H].
  destruct H as [Hb [He Hi]].
  destruct (C01_roundtrip_proof c hbuf T P key seed cm hm Hp) as [F [HF [HD HV]]].
  rewrite HF in He. injection He as He. subst o.
  repeat split; assumption.
Qed.
