(* Corollaries of the end-to-end theorem for encryption, composed with the theorems about the hand model:
   C02 (FileModel.enc = the documented format wenc_spec) and C01 (dec (enc P) = P, ver accepts). *)
From Coq Require Import ZArith NArith List String Bool.
From Wencry Require Import Bytes HashModel FileModel FileSpec FileProps FileProofsEnc FileProofsDec MiniC MiniCRun MiniCConc SrcRun SrcRun2 SrcRun5 RefineE2Ef.
Import ListNotations.
Local Open Scope N_scope.

Lemma SRC_encrypted_file_is_documented_format_proof : forall c hbuf T P key seed cm hm rnd,
  enc_params c hbuf T P key seed cm hm ->
  forallb (fun b => (0 <? b) && (b <? 256)) seed = true ->
  N.of_nat (length seed) < 2 ^ 32 ->
  N.of_nat (16 * c) < 2 ^ 32 -> N.of_nat (64 * hbuf) < 2 ^ 32 ->
  match src_encrypt_file c hbuf T cm hm P key seed rnd with
  | SOk (b, o, i, _) => b = true /\ wenc_spec c T P key cm hm seed = Some o /\ length o = wenc_length T (length P) /\ i = P
  | SErr w => w = "out of fuel"%string \/ w = "step bound reached"%string
  end.
Proof.
  intros c hbuf T P key seed cm hm rnd Hp Hs Hl Hc Hh.
  pose proof (SRC_execute_encrypt_is_model_proof c hbuf T P key seed cm hm rnd Hp Hs Hl Hc Hh) as H.
  destruct (src_encrypt_file c hbuf T cm hm P key seed rnd) as [[[[b o] i] k]|w]; [|exact H].
  destruct H as [Hb [He Hi]].
  destruct (C02_encrypted_file_is_documented_format_proof c hbuf T P key seed cm hm Hp) as [F [HF [HW HL]]].
  rewrite HF in He. injection He as He. subst o.
  repeat split; assumption.
Qed.

Lemma SRC_encrypted_file_decrypts_to_the_plaintext_proof : forall c hbuf T P key seed cm hm rnd,
  enc_params c hbuf T P key seed cm hm ->
  forallb (fun b => (0 <? b) && (b <? 256)) seed = true ->
  N.of_nat (length seed) < 2 ^ 32 ->
  N.of_nat (16 * c) < 2 ^ 32 -> N.of_nat (64 * hbuf) < 2 ^ 32 ->
  match src_encrypt_file c hbuf T cm hm P key seed rnd with
  | SOk (b, o, i, _) => b = true /\ dec c hbuf T o key = FileModel.Ok P /\ ver hbuf o key = FileModel.Ok true
  | SErr w => w = "out of fuel"%string \/ w = "step bound reached"%string
  end.
Proof.
  intros c hbuf T P key seed cm hm rnd Hp Hs Hl Hc Hh.
  pose proof (SRC_execute_encrypt_is_model_proof c hbuf T P key seed cm hm rnd Hp Hs Hl Hc Hh) as H.
  destruct (src_encrypt_file c hbuf T cm hm P key seed rnd) as [[[[b o] i] k]|w]; [|exact H].
  destruct H as [Hb [He Hi]].
  destruct (C01_roundtrip_proof c hbuf T P key seed cm hm Hp) as [F [HF [HD HV]]].
  rewrite HF in He. injection He as He. subst o.
  repeat split; assumption.
Qed.

(* C12 for the source: on EVERY byte string and key, whatever the two scheduler seeds, the translated execute_verify and the translated
   execute_decrypt return the same verdict (whenever both runs fit their step budgets); a rejected file is not decrypted, not even partly. *)
From Wencry Require Import FileProofsSec FileProofsTotal RefineE2E RefineE2Ed.

Lemma SRC_verdicts_coincide_proof : forall c hbuf T F key rnd rnd',
  (1 <= c)%nat -> (1 <= hbuf)%nat -> N.of_nat (16 * c) < 2 ^ 32 -> N.of_nat (64 * hbuf) < 2 ^ 32 -> (1 <= T <= 16)%nat ->
  block16 key -> bytesb F = true -> N.of_nat (length F) < 2 ^ 36 ->
  match src_verify_file c hbuf T F key rnd, src_decrypt_file c hbuf T F key rnd' with
  | SOk (bv, ov, iv, _), SOk (bd, od, id, _) =>
      bv = bd /\ ov = [] /\ iv = F /\ id = F /\ (bd = false -> od = []) /\ (bd = true -> dec c hbuf T F key = FileModel.Ok od)
  | _, _ => True
  end.
Proof.
  intros c hbuf T F key rnd rnd' Hc Hh Hc32 Hh32 HT Hk HF HL.
  assert (HL56 : N.of_nat (length F) < 2 ^ 56).
  { eapply N.lt_trans; [exact HL|]. reflexivity. }
  assert (HT256 : (1 <= T < 256)%nat) by (destruct HT; split; [assumption|]; apply Nat.le_lt_trans with 16%nat; [assumption|repeat constructor]).
  pose proof (SRC_execute_verify_is_model_proof c hbuf T F key rnd Hc Hh Hh32 HT256 Hk HF HL56) as HV.
  destruct (src_verify_file c hbuf T F key rnd) as [[[[bv ov] iv] kv]|wv]; [|exact I].
  destruct HV as [code [Hver [Hbv [Hov Hiv]]]].
  destruct (N.eq_dec code 0) as [E0|N0].
  - subst code.
    destruct (C12_verdicts_coincide_proof c hbuf T F key Hc Hh (proj1 HT) HL56) as [[Hfw _] _].
    assert (Hv : ver hbuf F key = FileModel.Ok true) by (unfold ver; rewrite Hver; reflexivity).
    destruct (Hfw Hv) as [out Hdec].
    pose proof (SRC_execute_decrypt_is_model_on_accepted_files_proof c hbuf T F key rnd' out Hc Hh Hc32 Hh32 HT Hk HF HL Hdec) as HD.
    destruct (src_decrypt_file c hbuf T F key rnd') as [[[[bd od] id] kd]|wd]; [|exact I].
    destruct HD as [Hbd [Hod Hid]]. subst.
    repeat split; try reflexivity; try assumption.
    + intro Hf; discriminate Hf.
    + intros _; exact Hdec.
  - pose proof (SRC_execute_decrypt_rejects_proof c hbuf T F key rnd' code Hc Hh Hh32 HT256 Hk HF HL56 Hver N0) as HD.
    destruct (src_decrypt_file c hbuf T F key rnd') as [[[[bd od] id] kd]|wd]; [|exact I].
    destruct HD as [Hbd [Hod Hid]]. subst.
    assert (Hz : (code =? 0) = false) by (apply N.eqb_neq; exact N0).
    rewrite Hz.
    repeat split; try reflexivity.
    intro Hf; discriminate Hf.
Qed.
