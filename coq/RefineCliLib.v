(* Helpers for the refinement proof of the translated option front end (Gen/Src_cli.v):
   the C-library primitives on the explicit environment, decimal texts under strtol, the parameter pack object. *)
From Coq Require Import ZArith NArith List String Bool Lia Ascii Arith.
From Wencry Require Import Bytes MiniC MiniCRun MiniCLemmas SrcRun SrcRun3 CliConc.
Import ListNotations.
Local Open Scope Z_scope.
Local Open Scope string_scope.
Local Open Scope list_scope.

(* ---------------- lists ---------------- *)
Lemma nth_error_mid : forall A (l : list A) x r, nth_error (l ++ x :: r) (List.length l) = Some x.
Proof. induction l as [|y l IH]; intros x r; cbn; auto. Qed.
Lemma nth_error_mid1 : forall A (l : list A) x y r, nth_error (l ++ x :: y :: r) (S (List.length l)) = Some y.
Proof. induction l as [|z l IH]; intros x y r; cbn [app List.length nth_error]; [reflexivity|apply IH]. Qed.
Lemma nth_error_end : forall A (l : list A), nth_error l (List.length l) = None.
Proof. intros. apply nth_error_None. lia. Qed.
Lemma skipn_mid : forall A (l r : list A) k, skipn (List.length l + k) (l ++ r) = skipn k r.
Proof. induction l as [|y l IH]; intros r k; cbn; auto. Qed.
Lemma firstn_pre : forall A (l r : list A), firstn (List.length l) (l ++ r) = l.
Proof. induction l as [|y l IH]; intros r; cbn; [reflexivity|]. now rewrite IH. Qed.

(* ---------------- names ---------------- *)
Definition argname (gp : nat) : string := "@arg" ++ nat_string gp.
Lemma argname_not_heap : forall gp j, argname gp <> heap_name j.
Proof. intros gp j H. discriminate H. Qed.
Lemma heap0 : heap_name 0 = "#0". Proof. reflexivity. Qed.
Lemma heap_ne0 : forall j, (1 <= j)%nat -> heap_name j <> "#0".
Proof. intros j Hj E. rewrite <- heap0 in E. apply heap_name_inj in E. lia. Qed.
Lemma heap_ne : forall i j, i <> j -> heap_name i <> heap_name j.
Proof. intros i j H E. apply heap_name_inj in E. contradiction. Qed.

(* ---------------- the state of the front end ---------------- *)
Definition gfiles (D : list Z) (gp : nat) (F : list Z) (fp : nat) : list (string * cfile) :=
  [("@getopt", {| cf_data := D; cf_pos := gp; cf_eof := false |}); ("@fopen", {| cf_data := F; cf_pos := fp; cf_eof := false |})].
Definition mk (m : memory) (l : list (string * value)) (fs : list (string * cfile)) (ps : list (string * value)) (fr : nat) : state :=
  {| mem := m; loc := l; pre := ""; files := fs; ptrs := ps; fresh := fr |}.

(* ---------------- getopt_long ---------------- *)
Lemma prim_getopt_arg : forall m l D gp F fp oa ps fr done code arg todo,
  D = done ++ code :: (Z.of_nat (List.length arg) + 1) :: arg ++ todo -> gp = List.length done ->
  do_prim (mk m l (gfiles D gp F fp) (("optarg", oa) :: ps) fr) "getopt_long" [] =
  Ok (Some (VInt code),
      mk (mset m (argname gp) {| o_ty := U8; o_cells := arg ++ [0] |}) l (gfiles D (gp + 2 + List.length arg) F fp)
         (("optarg", VPtr (argname gp) 0) :: ps) fr).
Proof.
  intros m l D gp F fp oa ps fr done code arg todo HD Hgp.
  unfold do_prim. cbn [String.eqb Ascii.eqb Bool.eqb]. unfold mk, gfiles. cbn [files lget String.eqb Ascii.eqb Bool.eqb cf_data cf_pos cf_eof].
  rewrite HD, Hgp, nth_error_mid, nth_error_mid1.
  assert (E0 : (Z.of_nat (List.length arg) + 1 =? 0)%Z = false) by (apply Z.eqb_neq; lia). rewrite E0.
  replace (Z.of_nat (List.length arg) + 1 - 1) with (Z.of_nat (List.length arg)) by lia.
  rewrite Nat2Z.id.
  replace (done ++ code :: Z.of_nat (List.length arg) + 1 :: arg ++ todo) with (done ++ [code; Z.of_nat (List.length arg) + 1] ++ arg ++ todo) by reflexivity.
  rewrite skipn_mid. cbn [skipn app]. rewrite firstn_pre, Z.eqb_refl. cbn [negb].
  rewrite Z.max_r by lia. rewrite Nat2Z.id.
  unfold with_files, with_mem, with_ptrs. cbn [mem loc pre files ptrs fresh lset String.eqb Ascii.eqb Bool.eqb].
  reflexivity.
Qed.

Lemma prim_getopt_noarg : forall m l D gp F fp oa ps fr done code todo,
  D = done ++ code :: 0 :: todo -> gp = List.length done ->
  do_prim (mk m l (gfiles D gp F fp) (("optarg", oa) :: ps) fr) "getopt_long" [] =
  Ok (Some (VInt code), mk m l (gfiles D (gp + 2) F fp) (("optarg", VNull) :: ps) fr).
Proof.
  intros m l D gp F fp oa ps fr done code todo HD Hgp.
  unfold do_prim. cbn [String.eqb Ascii.eqb Bool.eqb]. unfold mk, gfiles. cbn [files lget String.eqb Ascii.eqb Bool.eqb cf_data cf_pos cf_eof].
  rewrite HD, Hgp, nth_error_mid, nth_error_mid1. cbn [Z.eqb Z.sub Z.opp Z.add Z.max Z.compare Z.to_nat Z.pos_sub].
  unfold with_files, with_mem, with_ptrs. cbn [mem loc pre files ptrs fresh lset String.eqb Ascii.eqb Bool.eqb].
  rewrite Nat.add_0_r. reflexivity.
Qed.

Lemma prim_getopt_end : forall m l D F fp ps fr,
  do_prim (mk m l (gfiles D (List.length D) F fp) ps fr) "getopt_long" [] =
  Ok (Some (VInt (-1)), mk m l (gfiles D (List.length D) F fp) ps fr).
Proof.
  intros. unfold do_prim. cbn [String.eqb Ascii.eqb Bool.eqb]. unfold mk, gfiles. cbn [files lget String.eqb Ascii.eqb Bool.eqb cf_data cf_pos cf_eof].
  rewrite nth_error_end. reflexivity.
Qed.

(* ---------------- fopen ---------------- *)
Lemma prim_fopen : forall m l D gp F fp ps fr fdone b ftodo v,
  F = fdone ++ b :: ftodo -> fp = List.length fdone ->
  do_prim (mk m l (gfiles D gp F fp) ps fr) "fopen" [v] =
  Ok (Some (if (b =? 0)%Z then VNull else VPtr ("@stream" ++ nat_string fp) 0), mk m l (gfiles D gp F (S fp)) ps fr).
Proof.
  intros m l D gp F fp ps fr fdone b ftodo v HF Hfp.
  unfold do_prim. cbn [String.eqb Ascii.eqb Bool.eqb]. unfold mk, gfiles. cbn [files lget String.eqb Ascii.eqb Bool.eqb cf_data cf_pos cf_eof].
  rewrite HF, Hfp, nth_error_mid. reflexivity.
Qed.

(* ---------------- strlen / snprintf ---------------- *)
Lemma strlen_from_ok : forall l r fuel, Forall (fun c => c <> 0) l -> (List.length l <= fuel)%nat ->
  strlen_from fuel (l ++ 0 :: r) = Some (List.length l).
Proof.
  induction l as [|c l IH]; intros r fuel Hl Hf.
  - destruct fuel; reflexivity.
  - inversion Hl; subst. destruct fuel as [|fuel]; [cbn in Hf; lia|].
    cbn [app strlen_from List.length]. destruct (Z.eqb_spec c 0); [contradiction|].
    rewrite IH by (auto; cbn in Hf; lia). reflexivity.
Qed.

Lemma prim_strlen : forall s o text,
  mget (mem s) o = Some {| o_ty := U8; o_cells := text ++ [0] |} -> Forall (fun c => c <> 0) text ->
  do_prim s "strlen" [VPtr o 0] = Ok (Some (VInt (Z.of_nat (List.length text))), s).
Proof.
  intros s o text Hm Hnz. unfold do_prim. cbn [String.eqb Ascii.eqb Bool.eqb]. rewrite Hm. cbn [o_ty o_cells].
  change (ity_bytes U8 =? 1)%Z with true. cbn [negb orb Z.ltb Z.compare Z.to_nat skipn].
  destruct (Z.ltb_spec (Z.of_nat (List.length (text ++ [0]))) 0); [lia|].
  rewrite strlen_from_ok by (auto; rewrite app_length; lia). reflexivity.
Qed.

Lemma prim_snprintf : forall s o text fc,
  mget (mem s) o = Some {| o_ty := U8; o_cells := text ++ [0] |} -> Forall (fun c => c <> 0) text ->
  mget (mem s) "fout" = Some {| o_ty := U8; o_cells := fc |} -> List.length fc = 128%nat ->
  exists fc', List.length fc' = 128%nat /\
  do_prim s "snprintf" [VPtr "fout" 0; VInt 128; VPtr o 0] =
  Ok (Some (VInt (Z.of_nat (List.length text) + 5)), with_mem s (mset (mem s) "fout" {| o_ty := U8; o_cells := fc' |})).
Proof.
  intros s o text fc Hm Hnz Hf Hl. unfold do_prim. cbn [String.eqb Ascii.eqb Bool.eqb]. rewrite Hf, Hm. cbn [o_ty o_cells].
  change (ity_bytes U8 =? 1)%Z with true. cbn [negb orb Z.ltb Z.compare Z.to_nat skipn].
  destruct (Z.ltb_spec (Z.of_nat (List.length (text ++ [0]))) 0); [lia|].
  rewrite Hl. change (Z.of_nat 128 <? 0 + 128)%Z with false. cbn [orb].
  rewrite strlen_from_ok by (auto; rewrite app_length; lia).
  change ((128 <? 1)%Z || false || false) with false. cbv iota.
  replace (Z.of_nat (List.length (firstn (List.length text) (text ++ [0]) ++ [46; 119; 101; 110; 99]))) with (Z.of_nat (List.length text) + 5)
    by (rewrite firstn_pre, app_length; cbn [List.length]; lia).
  eexists. split; [|reflexivity]. rewrite upd_range_length. exact Hl.
Qed.

(* ---------------- decimal texts ---------------- *)
Definition codes (s : string) : list Z := map Z.of_N (str s).
Lemma codes_app : forall a b, codes (a ++ b) = codes a ++ codes b.
Proof.
  unfold codes, str. induction a as [|c a IH]; intros b; cbn [append list_ascii_of_string map app]; [reflexivity|].
  f_equal. apply IH.
Qed.

Lemma go_acc : forall k n acc, MiniCLemmas.go k n acc = (MiniCLemmas.go k n EmptyString ++ acc)%string.
Proof.
  induction k as [|k IH]; intros n acc; cbn [MiniCLemmas.go]; [reflexivity|].
  destruct (Nat.eqb (n / 10) 0); [reflexivity|].
  rewrite IH. rewrite (IH _ (String _ EmptyString)).
  set (x := MiniCLemmas.go k (n / 10) ""). clearbody x. induction x as [|c x IHx]; cbn [append]; [reflexivity|]. now rewrite IHx.
Qed.
Lemma go_fuel : forall k k' n acc, (n < k)%nat -> (n < k')%nat -> MiniCLemmas.go k n acc = MiniCLemmas.go k' n acc.
Proof.
  induction k as [|k IH]; intros k' n acc H1 H2; [lia|]. destruct k' as [|k']; [lia|].
  cbn [MiniCLemmas.go]. destruct (Nat.eqb (n / 10) 0) eqn:E; [reflexivity|].
  apply Nat.eqb_neq in E.
  assert (0 < n)%nat by (destruct n; [cbn in E; congruence|lia]).
  assert (n / 10 < n)%nat by (apply Nat.div_lt; lia).
  apply IH; lia.
Qed.
Lemma go_S : forall k n acc, MiniCLemmas.go (S k) n acc =
  if Nat.eqb (n / 10) 0 then String (ascii_of_nat (48 + n mod 10)) acc else MiniCLemmas.go k (n / 10) (String (ascii_of_nat (48 + n mod 10)) acc).
Proof. reflexivity. Qed.
Definition dig (d : nat) : string := String (ascii_of_nat (48 + d)) EmptyString.
Lemma ns_small : forall n, (n < 10)%nat -> nat_string n = dig n.
Proof.
  intros n H. rewrite nat_string_go, go_S. rewrite (Nat.div_small n 10 H). cbn [Nat.eqb].
  rewrite Nat.mod_small by exact H. reflexivity.
Qed.
Lemma ns_big : forall n, (10 <= n)%nat -> nat_string n = (nat_string (n / 10) ++ dig (n mod 10))%string.
Proof.
  intros n H. rewrite (nat_string_go n), go_S.
  destruct (Nat.eqb (n / 10) 0) eqn:E.
  { apply Nat.eqb_eq in E. apply Nat.div_small_iff in E; lia. }
  rewrite go_acc. rewrite (nat_string_go (n / 10)). unfold dig. f_equal. apply go_fuel.
  - assert (n / 10 < n)%nat by (apply Nat.div_lt; lia). lia.
  - lia.
Qed.

Definition isdig (c : Z) : Prop := 48 <= c <= 57.
Definition dfold (l : list Z) (v : Z) : Z := fold_left (fun acc ch => Z.min (acc * 10 + (ch - 48)) (2 ^ 63)) l v.
Lemma codes_dig : forall d, (d < 10)%nat -> codes (dig d) = [48 + Z.of_nat d].
Proof.
  intros d H. unfold codes, str, dig. cbn [list_ascii_of_string map]. rewrite nat_ascii_embedding by lia.
  f_equal. lia.
Qed.
Lemma ns_codes : forall n, (Z.of_nat n < 2 ^ 62) ->
  Forall isdig (codes (nat_string n)) /\ dfold (codes (nat_string n)) 0 = Z.of_nat n /\ (1 <= List.length (codes (nat_string n)))%nat.
Proof.
  intros n. induction n as [n IH] using lt_wf_ind. intros Hn.
  destruct (le_lt_dec 10 n) as [Hb|Hs].
  - rewrite ns_big by exact Hb. rewrite codes_app.
    assert (Hq : (n / 10 < n)%nat) by (apply Nat.div_lt; lia).
    pose proof (Nat.div_mod n 10 ltac:(lia)) as Hdm.
    pose proof (Nat.mod_upper_bound n 10 ltac:(lia)) as Hr.
    destruct (IH (n / 10)%nat Hq ltac:(lia)) as (A & B & C).
    rewrite codes_dig by exact Hr. split; [|split].
    + apply Forall_app. split; [exact A|]. constructor; [unfold isdig; lia|constructor].
    + unfold dfold in *. rewrite fold_left_app, B. cbn [fold_left]. rewrite Z.min_l by lia. lia.
    + rewrite app_length. lia.
  - rewrite ns_small by exact Hs. rewrite codes_dig by exact Hs. split; [|split].
    + constructor; [unfold isdig; lia|constructor].
    + unfold dfold. cbn [fold_left]. rewrite Z.min_l by lia. lia.
    + cbn. lia.
Qed.

Lemma sd_app : forall A B f v c, Forall isdig A ->
  strtol_digits (List.length A + f) (A ++ B) v c = strtol_digits f B (dfold A v) (c + List.length A).
Proof.
  induction A as [|a A IH]; intros B f v c HA; cbn [List.length app Nat.add].
  - unfold dfold. cbn [fold_left]. now rewrite Nat.add_0_r.
  - inversion HA as [|? ? Ha HA']; subst. cbn [strtol_digits]. unfold isdig in Ha.
    destruct (Z.leb_spec 48 a); [|lia]. destruct (Z.leb_spec a 57); [|lia]. cbn [andb].
    rewrite IH by exact HA'. unfold dfold. cbn [fold_left]. f_equal. lia.
Qed.

Lemma skip_spaces_none : forall fuel c r, c <> 32 -> ~ (9 <= c <= 13) -> skip_spaces fuel (c :: r) 0 = (c :: r, 0%nat).
Proof.
  intros [|fuel] c r H1 H2; cbn [skip_spaces]; [reflexivity|].
  destruct (Z.eqb_spec c 32); [contradiction|]. cbn [orb].
  destruct (Z.leb_spec 9 c); destruct (Z.leb_spec c 13); cbn [andb]; try reflexivity. lia.
Qed.

Definition dcells (n : Z) : list Z := map Z.of_N (decimal n).
Lemma dcells_nonzero : forall n, - 2 ^ 31 < n < 2 ^ 31 -> Forall (fun c => c <> 0) (dcells n).
Proof.
  intros n Hn. unfold dcells, decimal. change (map Z.of_N (str (z_string n))) with (codes (z_string n)).
  unfold z_string. destruct (Z.ltb_spec n 0).
  - rewrite codes_app. apply Forall_app. split.
    + constructor; [discriminate|constructor].
    + destruct (ns_codes (Z.to_nat (- n)) ltac:(lia)) as (A & _). eapply Forall_impl; [|exact A]. unfold isdig. intros; lia.
  - destruct (ns_codes (Z.to_nat n) ltac:(lia)) as (A & _). eapply Forall_impl; [|exact A]. unfold isdig. intros; lia.
Qed.

Lemma prim_strtol : forall s o n,
  - 2 ^ 31 < n < 2 ^ 31 ->
  mget (mem s) o = Some {| o_ty := U8; o_cells := dcells n ++ [0] |} ->
  do_prim s "strtol" [VPtr o 0; VPtr "%end" 0; VInt 10] =
  Ok (Some (VInt n), with_ptrs s (lset (ptrs s) "%end" (VPtr o (Z.of_nat (List.length (dcells n)))))) /\ (1 <= List.length (dcells n))%nat.
Proof.
  intros s o n Hn Hm. unfold do_prim. cbn [String.eqb Ascii.eqb Bool.eqb]. rewrite Hm. cbn [o_ty o_cells].
  change (ity_bytes U8 =? 1)%Z with true. cbn [negb orb Z.ltb Z.compare Z.to_nat skipn].
  destruct (Z.ltb_spec (Z.of_nat (List.length (dcells n ++ [0]))) 0); [lia|].
  change (ptr_key "%end" 0) with "%end".
  unfold dcells, decimal. change (map Z.of_N (str (z_string n))) with (codes (z_string n)).
  unfold z_string. destruct (Z.ltb_spec n 0) as [Hneg|Hpos].
  - rewrite codes_app. change (codes "-") with [45]. cbn [app].
    destruct (ns_codes (Z.to_nat (- n)) ltac:(lia)) as (A & B & C).
    set (ds := codes (nat_string (Z.to_nat (- n)))) in *.
    rewrite skip_spaces_none by lia. cbn [Z.eqb Pos.eqb].
    replace (List.length (ds ++ [0])) with (List.length ds + 1)%nat by (rewrite app_length; reflexivity).
    rewrite sd_app by exact A. cbn [strtol_digits Z.leb Z.compare andb]. rewrite B.
    destruct (Nat.eqb_spec (0 + List.length ds) 0); [lia|].
    split; [|cbn [List.length]; lia].
    replace (- Z.of_nat (Z.to_nat (- n))) with n by lia.
    replace (0 + Z.of_nat (0 + 1 + (0 + List.length ds))) with (Z.of_nat (List.length (45 :: ds))) by (cbn [List.length]; lia).
    reflexivity.
  - destruct (ns_codes (Z.to_nat n) ltac:(lia)) as (A & B & C).
    set (ds := codes (nat_string (Z.to_nat n))) in *.
    destruct ds as [|d0 ds'] eqn:Eds; [cbn in C; lia|].
    assert (Hd0 : isdig d0) by (inversion A; assumption). unfold isdig in Hd0.
    cbn [app]. rewrite skip_spaces_none by lia.
    destruct (Z.eqb_spec d0 45); [lia|]. destruct (Z.eqb_spec d0 43); [lia|].
    change (d0 :: ds' ++ [0]) with ((d0 :: ds') ++ [0]).
    replace (List.length ((d0 :: ds') ++ [0])) with (List.length (d0 :: ds') + 1)%nat by (rewrite app_length; reflexivity).
    rewrite sd_app by exact A. cbn [strtol_digits Z.leb Z.compare andb]. rewrite B.
    destruct (Nat.eqb_spec (0 + List.length (d0 :: ds')) 0); [cbn in *; lia|].
    split; [|exact C].
    replace (Z.min (Z.of_nat (Z.to_nat n)) (2 ^ 63 - 1)) with n by lia.
    replace (0 + Z.of_nat (0 + 0 + (0 + List.length (d0 :: ds')))) with (Z.of_nat (List.length (d0 :: ds'))) by lia.
    reflexivity.
Qed.

(* ---------------- the parameter pack object (vpak_t, 512 bytes) ---------------- *)
Definition b2z (b : bool) : Z := if b then 1 else 0.
Definition res_cells (md ct ht ne : Z) : list Z := repeat 0 288 ++ [md; ct; ht; ne] ++ repeat 0 220.
Definition res_obj (md ct ht ne : Z) : object := {| o_ty := U8; o_cells := res_cells md ct ht ne |}.

Lemma res_load_mode : forall md ct ht ne, load_obj (res_obj md ct ht ne) I8 288 = Ok (wrap I8 md).
Proof. intros. vm_compute. reflexivity. Qed.
Lemma res_load_ctype : forall md ct ht ne, load_obj (res_obj md ct ht ne) I8 289 = Ok (wrap I8 ct).
Proof. intros. vm_compute. reflexivity. Qed.
Lemma res_load_htype : forall md ct ht ne, load_obj (res_obj md ct ht ne) I8 290 = Ok (wrap I8 ht).
Proof. intros. vm_compute. reflexivity. Qed.
Lemma res_store_mode : forall md ct ht ne v, store_obj (res_obj md ct ht ne) I8 288 v = Ok (res_obj (wrap U8 v) ct ht ne).
Proof. intros. vm_compute. reflexivity. Qed.
Lemma res_store_ctype : forall md ct ht ne v, store_obj (res_obj md ct ht ne) I8 289 v = Ok (res_obj md (wrap U8 v) ht ne).
Proof. intros. vm_compute. reflexivity. Qed.
Lemma res_store_htype : forall md ct ht ne v, store_obj (res_obj md ct ht ne) I8 290 v = Ok (res_obj md ct (wrap U8 v) ne).
Proof. intros. vm_compute. reflexivity. Qed.
Lemma res_store_ne : forall md ct ht ne v, store_obj (res_obj md ct ht ne) TBool 291 v = Ok (res_obj md ct ht (wrap U8 v)).
Proof. intros. vm_compute. reflexivity. Qed.
Lemma res_store_size : forall md ct ht ne, store_obj (res_obj md ct ht ne) U64 280 0 = Ok (res_obj md ct ht ne).
Proof. intros. vm_compute. reflexivity. Qed.
Lemma res_new : {| o_ty := U8; o_cells := repeat 0 (Z.to_nat 512) |} = res_obj 0 0 0 0.
Proof. vm_compute. reflexivity. Qed.

Lemma upd_nth_zero : forall n k X, (k < n)%nat -> upd_nth k 0 (repeat 0 n ++ X) = repeat 0 n ++ X.
Proof.
  induction n as [|n IH]; intros k X H; [lia|]. destruct k as [|k]; cbn [repeat app upd_nth]; [reflexivity|].
  rewrite IH by lia. reflexivity.
Qed.
Lemma res_store_rbuf : forall md ct ht ne i, 0 <= i < 256 ->
  store_obj (res_obj md ct ht ne) U8 (24 + i) 0 = Ok (res_obj md ct ht ne).
Proof.
  intros md ct ht ne i Hi. unfold store_obj, res_obj. cbn [o_ty o_cells]. change (ity_bytes U8) with 1.
  rewrite Z.div_1_r, Z.mod_1_r. cbn [Z.eqb].
  destruct (Z.ltb_spec (24 + i) 0); [lia|].
  assert (L : List.length (res_cells md ct ht ne) = 512%nat) by reflexivity. rewrite L.
  destruct (Z.ltb_spec (24 + i) (Z.of_nat 512)); [|lia].
  change (wrap U8 0) with 0. unfold res_cells. rewrite upd_nth_zero by lia. reflexivity.
Qed.

Lemma key_store : forall i, 0 <= i < 16 ->
  store_obj {| o_ty := U8; o_cells := repeat 0 16 |} U8 i 0 = Ok {| o_ty := U8; o_cells := repeat 0 16 |}.
Proof.
  intros i Hi. unfold store_obj. cbn [o_ty o_cells]. change (ity_bytes U8) with 1.
  rewrite Z.div_1_r, Z.mod_1_r. cbn [Z.eqb].
  destruct (Z.ltb_spec i 0); [lia|]. rewrite repeat_length.
  destruct (Z.ltb_spec i (Z.of_nat 16)); [|lia].
  change (wrap U8 0) with 0. rewrite <- (app_nil_r (repeat 0 16)). rewrite upd_nth_zero by lia. reflexivity.
Qed.

(* the end pointer of strtol points at the terminating NUL *)
Lemma load_nul : forall text, load_obj {| o_ty := U8; o_cells := text ++ [0] |} I8 (Z.of_nat (List.length text)) = Ok 0.
Proof.
  intros text. unfold load_obj. cbn [o_ty o_cells]. change (ity_bytes I8) with 1. change (ity_bytes U8) with 1.
  rewrite Z.div_1_r, Z.mod_1_r. cbn [Z.eqb].
  destruct (Z.ltb_spec (Z.of_nat (List.length text)) 0); [lia|].
  rewrite app_length. cbn [List.length].
  destruct (Z.ltb_spec (Z.of_nat (List.length text)) (Z.of_nat (List.length text + 1))); [|lia].
  rewrite Nat2Z.id, nth_middle. reflexivity.
Qed.

Lemma wrap_I8_byte : forall z, -128 <= z < 128 -> wrap I8 (z mod 256) = z.
Proof.
  intros z H. unfold wrap. cbn [ity_bits ity_signed]. change (2 ^ 8) with 256. change (256 / 2) with 128.
  Local Ltac Zify.zify_post_hook ::= Z.to_euclidean_division_equations.
  lia.
Qed.
