(* Refinement, second tier: hmac (fheader.cpp), FileHeader (fheader.cpp), HashFactory (hashmaster.cpp),
   runcrypt::verify / prepare_IV (cry.cpp) as translated into MiniC (Gen/Src_fheader.v, Src_hashfactory.v, Src_cry.v)
   vs the hand models hmac_model / cmphmac / verify / file_header / iv_chain (HashModel.v, FileModel.v). *)
From Coq Require Import ZArith NArith List String Bool.
From Wencry Require Import Bytes HashModel FileModel MiniC MiniCRun SrcRun SrcRun2 RefineFile.
Import ListNotations.
Local Open Scope N_scope.

(* hmac::gethmac over the stream from position pos: the RFC 2104 construction as the model describes it *)
Theorem SRC_hmac : forall hbuf hm a key data pos,
  get_hasher hm = Some a -> (1 <= hbuf)%nat -> N.of_nat (64 * hbuf) < 2 ^ 32 ->
  block16 key -> bytesb data = true -> (pos <= length data)%nat -> N.of_nat (length data) < 2 ^ 56 ->
  exists tag, hmac_model hbuf hm key (skipn pos data) = Some tag /\ src_hmac hbuf hm key data pos = SOk tag.
Proof. exact SRC_hmac_proof. Qed.
Print Assumptions SRC_hmac.

(* hmac::cmphmac against a stored 64-byte field: accepts iff every tag byte matches *)
Theorem SRC_cmphmac : forall hbuf hm a key data pos stored,
  get_hasher hm = Some a -> (1 <= hbuf)%nat -> N.of_nat (64 * hbuf) < 2 ^ 32 ->
  block16 key -> bytesb data = true -> (pos <= length data)%nat -> N.of_nat (length data) < 2 ^ 56 ->
  length stored = 64%nat -> bytesb stored = true ->
  exists tag, hmac_model hbuf hm key (skipn pos data) = Some tag /\
              src_cmphmac hbuf hm key data pos stored = SOk (cmphmac tag stored).
Proof. exact SRC_cmphmac_proof. Qed.
Print Assumptions SRC_cmphmac.

(* runcrypt::verify on ANY byte string as input file: the result code of the model *)
Theorem SRC_verify : forall hbuf T F key,
  (1 <= hbuf)%nat -> N.of_nat (64 * hbuf) < 2 ^ 32 -> (T < 256)%nat ->
  block16 key -> bytesb F = true -> N.of_nat (length F) < 2 ^ 56 ->
  exists code, verify hbuf F key = FileModel.Ok code /\ src_verify hbuf T F key = SOk code.
Proof. exact SRC_verify_proof. Qed.
Print Assumptions SRC_verify.

(* FileHeader(...) + runcrypt::prepare_IV(seed): the header with a zero tag field followed by the T chained SHA-1 IVs *)
Theorem SRC_header : forall hbuf T cm hm key seed,
  (1 <= hbuf)%nat -> N.of_nat (64 * hbuf) < 2 ^ 32 -> (1 <= T <= 16)%nat -> cm < 256 -> hm < 256 ->
  block16 key -> forallb (fun b => (0 <? b) && (b <? 256)) seed = true -> N.of_nat (length seed) < 2 ^ 32 ->
  src_header hbuf T cm hm key seed = SOk (file_header cm hm (iv_chain seed T) T).
Proof. exact SRC_header_proof. Qed.
Print Assumptions SRC_header.
