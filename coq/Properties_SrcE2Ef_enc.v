(* End to end for runcrypt::execute_encrypt AS TRANSLATED - constructors, header and IV chain, the factory and the cipher-mode objects, the buffer
   hand-over protocol with its T worker threads, the chunk buffers, the HMAC pass, the hash classes - run on the thread machine MiniCConc under ANY
   scheduler seed: it produces exactly what the hand model FileModel.enc computes, reports success and leaves its input as it was.
   (Theorem 1 of Properties_SrcE2Ef.v with the two extra hypotheses on the seed that the C code needs: no 0x00 byte - it takes strlen of the seed -
   and fewer than 2^32 bytes - it casts that strlen to u32.  Theorem 2, execute_decrypt, is closed modulo its set-up premise only:
   Properties_SrcE2Ef_parts.SRC_execute_decrypt_is_model_modulo_setup.) *)
From Coq Require Import ZArith NArith List String Bool.
From Wencry Require Import Bytes HashModel FileModel FileProps MiniC MiniCRun MiniCConc SrcRun SrcRun2 SrcRun5 RefineE2Ef.
Import ListNotations.
Local Open Scope N_scope.

Theorem SRC_execute_encrypt_is_model : forall c hbuf T P key seed cm hm rnd,
  enc_params c hbuf T P key seed cm hm ->
  forallb (fun b => (0 <? b) && (b <? 256)) seed = true ->           (* = RefineFileHeader.seed_ok: the C code takes strlen of the seed *)
  N.of_nat (length seed) < 2 ^ 32 ->                                 (* the C code casts that strlen to u32 (as in Properties_Src2's header theorem) *)
  N.of_nat (16 * c) < 2 ^ 32 -> N.of_nat (64 * hbuf) < 2 ^ 32 ->
  match src_encrypt_file c hbuf T cm hm P key seed rnd with
  | SOk (b, o, i, _) => b = true /\ enc c hbuf T P key cm hm seed = FileModel.Ok o /\ i = P
  | SErr w => w = "out of fuel"%string \/ w = "step bound reached"%string     (* the budgets of SrcRun5.run_from were too small *)
  end.
Proof. exact SRC_execute_encrypt_is_model_proof. Qed.
Print Assumptions SRC_execute_encrypt_is_model.
