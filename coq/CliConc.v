(* Concretisation of CliModel's abstract option tokens into the environment the translated front end runs in (what getopt_long
   delivers, what fopen answers), and the abstraction of its result: used by the correspondence run (mdrv "clip") and by the
   refinement theorem SRC_cli_parse. *)
From Coq Require Import ZArith NArith List String Bool Ascii.
From Wencry Require Import Bytes Base64Spec CliModel MiniC SrcRun SrcRun3.
Import ListNotations.
Local Open Scope Z_scope.

Definition str (s : string) : list N := map (fun a => N.of_nat (nat_of_ascii a)) (list_ascii_of_string s).
(* the 16 key bytes with identity kid; identity 0 (CliModel.RANDOM_KEY) is what getRandomKey yields when rand() returns 0 *)
Definition key_of (kid : nat) : list N :=
  map (fun i => N.of_nat ((kid * 16 + (if Nat.eqb kid 0 then 0 else i)) mod 256)) (seq 0 16).
Definition decimal (n : Z) : list N := str (z_string n).

Definition conc_tok (t : tok) : opt * list bool :=
  match t with
  | T_e => ((101, None), []) | T_d => ((100, None), []) | T_v => ((118, None), [])
  | T_V => ((86, None), []) | T_h => ((104, None), []) | T_n => ((110, None), [])
  | T_i long _ f => ((105, Some (if long then repeat 97%N 123 else str "in")), [match f with FMissing => false | _ => true end])
  | T_o b => ((111, Some (str "o")), [b])
  | T_k KInvalid => ((107, Some (str "notakey")), [])
  | T_k (KValid kid) => ((107, Some (encode (key_of kid))), [])
  | T_cmode n => ((1, Some (decimal n)), [])
  | T_hmode n => ((2, Some (decimal n)), [])
  | T_other => ((63, None), [])
  end.
(* the answer of the fopen of the default output name (asked after the option loop): that of the last -i *)
Definition last_dflt (ts : list tok) : bool :=
  fold_left (fun acc t => match t with T_i _ d _ => d | _ => acc end) ts false.
Definition conc (ts : list tok) : list opt * list bool :=
  (map (fun t => fst (conc_tok t)) ts, flat_map (fun t => snd (conc_tok t)) ts ++ [last_dflt ts]).

(* get_v_opt as CliModel describes it: the option loop, then the checks after it *)
Definition cli_parse (ts : list tok) : option pak :=
  match parse_all pak0 ts with None => None | Some p => post_checks p end.
Definition abs_pak (p : pak) : cpak :=
  {| c_mode := mode p; c_ctype := ctype p; c_htype := htype p;
     c_fp := match fp p with Some _ => true | None => false end; c_out := out p;
     c_key := option_map key_of (key p); c_no_echo := no_echo p |}.
Definition src_cli_parse (ts : list tok) : sres (option cpak) := src_get_v_opt (fst (conc ts)) (snd (conc ts)).
