(* Stepping the thread machine symbolically: one-step equations of [micro] for every statement form the protocol code
   uses, what [run_thread] does with each request, and [cstep] on the three kinds of thread status. *)
From Coq Require Import ZArith NArith List String Bool Lia Arith.
From Wencry Require Import RefineE2EfLay.
From Wencry Require Import Bytes FileModel PipeConc MiniC MiniCLemmas MiniCConc RefineSeqDefs RefineSeqA RefineSeqB.
Import ListNotations.
Local Open Scope string_scope.
Local Open Scope list_scope.

Notation vt := (@nil (string * string)).

Section Mach.
Context {LY : Layout}.
Notation prog := Lprog.

(* the sequential state a thread with locals l and prefix p sees *)
Definition tst (sh : state) (l : list (string * value)) (p : string) : state :=
  {| mem := mem sh; loc := l; pre := p; files := files sh; ptrs := ptrs sh; fresh := fresh sh |}.
Definition C (sh : state) (thr : list cthread) (mx : list (string * nat)) : cstate := {| cs_sh := sh; cs_thr := thr; cs_mx := mx |}.
Definition put (tid : nat) (t : cthread) (cs : cstate) : cstate :=
  {| cs_sh := cs_sh cs; cs_thr := set_nth_t tid t (cs_thr cs); cs_mx := cs_mx cs |}.

Lemma thread_state_tst : forall sh st k l p stt, thread_state sh (mk st k l p stt) = tst sh l p.
Proof. reflexivity. Qed.

(* ================= micro, statement by statement ================= *)
Section Micro.
Variables (k : kont) (l : list (string * value)) (p : string) (stt : tstatus) (sh : state).

Lemma m_skip : micro prog vt (mk SSkip k l p stt) sh = Ok (cont_conf k l p stt, sh, RNone).
Proof. apply micro_skip. Qed.
Lemma m_seq : forall a b, micro prog vt (mk (SSeq a b) k l p stt) sh = Ok (mk a (KSeq b k) l p stt, sh, RNone).
Proof. reflexivity. Qed.
Lemma m_if : forall c a b x, eval (tst sh l p) c = Ok (VInt x) ->
  micro prog vt (mk (SIf c a b) k l p stt) sh = Ok (mk (if Z.eqb x 0 then b else a) k l p stt, sh, RNone).
Proof. intros c a b x H. unfold micro. cbn [ct_cur ct_k ct_loc ct_pre ct_st]. rewrite thread_state_tst, H. reflexivity. Qed.
Lemma m_loop_exit : forall c body step, eval (tst sh l p) c = Ok (VInt 0) ->
  micro prog vt (mk (SLoop c body step) k l p stt) sh = Ok (cont_conf k l p stt, sh, RNone).
Proof.
  intros c body step H. unfold micro, cont_conf. cbn [ct_cur ct_k ct_loc ct_pre ct_st]. rewrite thread_state_tst, H.
  cbn [bind as_int Z.eqb]. destruct (next_of k l p) as [[[[st' k'] l'] p']|]; reflexivity.
Qed.
Lemma m_loop_enter : forall c body step x, eval (tst sh l p) c = Ok (VInt x) -> Z.eqb x 0 = false ->
  micro prog vt (mk (SLoop c body step) k l p stt) sh = Ok (mk body (KLoopBody c body step k) l p stt, sh, RNone).
Proof.
  intros c body step x H N. unfold micro. cbn [ct_cur ct_k ct_loc ct_pre ct_st]. rewrite thread_state_tst, H.
  cbn [bind as_int]. rewrite N. reflexivity.
Qed.
Lemma m_loop : forall c body step x, eval (tst sh l p) c = Ok (VInt x) ->
  micro prog vt (mk (SLoop c body step) k l p stt) sh =
  Ok (if Z.eqb x 0 then cont_conf k l p stt else mk body (KLoopBody c body step k) l p stt, sh, RNone).
Proof.
  intros c body step x H. destruct (Z.eqb x 0) eqn:E.
  - apply Z.eqb_eq in E. subst x. apply m_loop_exit. exact H.
  - eapply m_loop_enter; eassumption.
Qed.
Lemma m_dowhile : forall body c, micro prog vt (mk (SDoWhile body c) k l p stt) sh = Ok (mk body (KDoBody body c k) l p stt, sh, RNone).
Proof. reflexivity. Qed.
Lemma m_return : forall e v ret sl sp k' back, eval (tst sh l p) e = Ok v -> unwind_return k = Some (ret, sl, sp, k') ->
  set_ret (tst sh sl sp) ret (Some v) = Ok back ->
  micro prog vt (mk (SReturn (Some e)) k l p stt) sh = Ok (mk SSkip k' (loc back) sp stt, sh, RNone).
Proof.
  intros e v ret sl sp k' back H U S. unfold micro. cbn [ct_cur ct_k ct_loc ct_pre ct_st]. rewrite thread_state_tst, H.
  cbn [bind]. rewrite U. unfold tst in S. rewrite S. reflexivity.
Qed.
Lemma m_return_top : forall e v, eval (tst sh l p) e = Ok v -> unwind_return k = None ->
  micro prog vt (mk (SReturn (Some e)) k l p stt) sh = Ok (mk SSkip KStop l p TDone, sh, RNone).
Proof. intros e v H U. unfold micro. cbn [ct_cur ct_k ct_loc ct_pre ct_st]. rewrite thread_state_tst, H. cbn [bind]. rewrite U. reflexivity. Qed.
Lemma m_call : forall ret fname this args vs pfx f l', eval_list (tst sh l p) args = Ok vs -> this_prefix (tst sh l p) this = Ok pfx ->
  lget prog fname = Some f -> bind_params (f_params f) vs = Ok l' ->
  micro prog vt (mk (SCall ret fname this args) k l p stt) sh = Ok (mk (f_body f) (KCall ret l p k) l' pfx stt, sh, RNone).
Proof.
  intros ret fname this args vs pfx f l' H1 H2 H3 H4. unfold micro. cbn [ct_cur ct_k ct_loc ct_pre ct_st].
  rewrite thread_state_tst, H1. cbn [bind]. rewrite H2. cbn [bind]. rewrite H3, H4. reflexivity.
Qed.
Lemma m_callvirt : forall ret m this args vs pfx cls f l', eval_list (tst sh l p) args = Ok vs -> this_prefix (tst sh l p) this = Ok pfx ->
  lget (ptrs sh) (class_key pfx) = Some (VPtr cls 0) -> lget prog (cls ++ "::" ++ m) = Some f -> bind_params (f_params f) vs = Ok l' ->
  micro prog vt (mk (SCallVirt ret m this args) k l p stt) sh = Ok (mk (f_body f) (KCall ret l p k) l' pfx stt, sh, RNone).
Proof.
  intros ret m this args vs pfx cls f l' H1 H2 H3 H4 H5. unfold micro. cbn [ct_cur ct_k ct_loc ct_pre ct_st].
  rewrite thread_state_tst, H1. cbn [bind]. rewrite H2. cbn [bind lget tst ptrs]. rewrite H3, H4, H5. reflexivity.
Qed.
Lemma m_set : forall x e v, shared_of sh = sh -> eval (tst sh l p) e = Ok v ->
  micro prog vt (mk (SSet x e) k l p stt) sh = Ok (cont_conf k (lset l x v) p stt, sh, RNone).
Proof.
  intros x e v Hsh H. unfold micro, cont_conf. cbn [ct_cur ct_k ct_loc ct_pre ct_st is_atomic exec]. rewrite thread_state_tst, H.
  cbn [bind with_loc loc tst shared_of mem files ptrs fresh].
  change (shared_of (with_loc (tst sh l p) (lset l x v))) with (shared_of sh). rewrite Hsh.
  destruct (next_of k (lset l x v) p) as [[[[st' k'] l'] p']|]; reflexivity.
Qed.
Lemma shared_of_with_mem : forall m, shared_of (with_mem (tst sh l p) m) = {| mem := m; loc := []; pre := ""; files := files sh; ptrs := ptrs sh; fresh := fresh sh |}.
Proof. reflexivity. Qed.
Lemma m_store : forall t pe e o off z ob ob', eval (tst sh l p) pe = Ok (VPtr o off) -> eval (tst sh l p) e = Ok (VInt z) ->
  mget (mem sh) o = Some ob -> store_obj ob t off z = Ok ob' ->
  micro prog vt (mk (SStore t pe e) k l p stt) sh =
  Ok (cont_conf k l p stt, {| mem := mset (mem sh) o ob'; loc := []; pre := ""; files := files sh; ptrs := ptrs sh; fresh := fresh sh |}, RNone).
Proof.
  intros t pe e o off z ob ob' H1 H2 H3 H4. unfold micro, cont_conf. cbn [ct_cur ct_k ct_loc ct_pre ct_st is_atomic exec].
  rewrite thread_state_tst, H1. cbn [bind]. rewrite H2. cbn [bind as_int tst mem]. rewrite H3, H4. cbn [bind].
  rewrite shared_of_with_mem. cbn [with_mem loc tst].
  destruct (next_of k l p) as [[[[st' k'] l'] p']|]; reflexivity.
Qed.
(* any non-synchronising primitive / atomic statement: through exec *)
Lemma m_prim : forall ret name args o s1, is_sync_prim name = false -> exec prog vt 1 (SPrim ret name args) (tst sh l p) = Ok (o, s1) ->
  micro prog vt (mk (SPrim ret name args) k l p stt) sh = Ok (cont_conf k (loc s1) p stt, shared_of s1, RNone).
Proof.
  intros ret name args o s1 N H. unfold micro, cont_conf. cbn [ct_cur ct_k ct_loc ct_pre ct_st]. rewrite N, thread_state_tst, H.
  cbn [bind]. destruct (next_of k (loc s1) p) as [[[[st' k'] l'] p']|]; reflexivity.
Qed.
Lemma m_atomic : forall st o s1, is_atomic st = true -> exec prog vt 1 st (tst sh l p) = Ok (o, s1) ->
  micro prog vt (mk st k l p stt) sh = Ok (cont_conf k (loc s1) p stt, shared_of s1, RNone).
Proof.
  intros st o s1 A H. unfold micro, cont_conf. cbn [ct_cur ct_k ct_loc ct_pre ct_st]. rewrite thread_state_tst.
  destruct st; try discriminate A; cbn [is_atomic]; rewrite H; cbn [bind];
    destruct (next_of k (loc s1) p) as [[[[st' k'] l'] p']|]; reflexivity.
Qed.

(* the synchronisation primitives *)
Lemma m_lock : forall a m off, eval (tst sh l p) a = Ok (VPtr m off) ->
  micro prog vt (mk (SPrim None "lock" [a]) k l p stt) sh = Ok (cont_conf k l p stt, sh, RLock m).
Proof.
  intros a m off H. unfold micro, cont_conf. cbn [ct_cur ct_k ct_loc ct_pre ct_st]. rewrite thread_state_tst.
  change (is_sync_prim "lock") with true. cbv iota. cbn [eval_list]. rewrite H. cbn [bind sync_name String.eqb Ascii.eqb Bool.eqb].
  destruct (next_of k l p) as [[[[st' k'] l'] p']|]; reflexivity.
Qed.
Lemma m_unlock : forall a m off, eval (tst sh l p) a = Ok (VPtr m off) ->
  micro prog vt (mk (SPrim None "unlock" [a]) k l p stt) sh = Ok (cont_conf k l p stt, sh, RUnlock m).
Proof.
  intros a m off H. unfold micro, cont_conf. cbn [ct_cur ct_k ct_loc ct_pre ct_st]. rewrite thread_state_tst.
  change (is_sync_prim "unlock") with true. cbv iota. cbn [eval_list]. rewrite H. cbn [bind sync_name String.eqb Ascii.eqb Bool.eqb].
  destruct (next_of k l p) as [[[[st' k'] l'] p']|]; reflexivity.
Qed.
Lemma m_wait : forall a b cv off m off', eval (tst sh l p) a = Ok (VPtr cv off) -> eval (tst sh l p) b = Ok (VPtr m off') ->
  micro prog vt (mk (SPrim None "cv_wait" [a; b]) k l p stt) sh = Ok (cont_conf k l p stt, sh, RWait cv m).
Proof.
  intros a b cv off m off' H1 H2. unfold micro, cont_conf. cbn [ct_cur ct_k ct_loc ct_pre ct_st]. rewrite thread_state_tst.
  change (is_sync_prim "cv_wait") with true. cbv iota. cbn [eval_list]. rewrite H1. cbn [bind]. rewrite H2.
  cbn [bind sync_name String.eqb Ascii.eqb Bool.eqb].
  destruct (next_of k l p) as [[[[st' k'] l'] p']|]; reflexivity.
Qed.
Lemma m_notify : forall a cv off, eval (tst sh l p) a = Ok (VPtr cv off) ->
  micro prog vt (mk (SPrim None "notify_all" [a]) k l p stt) sh = Ok (cont_conf k l p stt, sh, RNotify cv).
Proof.
  intros a cv off H. unfold micro, cont_conf. cbn [ct_cur ct_k ct_loc ct_pre ct_st]. rewrite thread_state_tst.
  change (is_sync_prim "notify_all") with true. cbv iota. cbn [eval_list]. rewrite H. cbn [bind sync_name String.eqb Ascii.eqb Bool.eqb].
  destruct (next_of k l p) as [[[[st' k'] l'] p']|]; reflexivity.
Qed.
Lemma m_join : forall a tid, eval (tst sh l p) a = Ok (VInt tid) ->
  micro prog vt (mk (SPrim None "join" [a]) k l p stt) sh = Ok (cont_conf k l p stt, sh, RJoin (Z.to_nat tid)).
Proof.
  intros a tid H. unfold micro, cont_conf. cbn [ct_cur ct_k ct_loc ct_pre ct_st]. rewrite thread_state_tst.
  change (is_sync_prim "join") with true. cbv iota. cbn [eval_list]. rewrite H. cbn [bind String.eqb Ascii.eqb Bool.eqb].
  destruct (next_of k l p) as [[[[st' k'] l'] p']|]; reflexivity.
Qed.
Lemma m_yield : forall a b x y, eval (tst sh l p) a = Ok x -> eval (tst sh l p) b = Ok y ->
  micro prog vt (mk (SPrim None "wv_yield" [a; b]) k l p stt) sh = Ok (cont_conf k l p stt, sh, RNone).
Proof.
  intros a b x y H1 H2. unfold micro, cont_conf. cbn [ct_cur ct_k ct_loc ct_pre ct_st]. rewrite thread_state_tst.
  change (is_sync_prim "wv_yield") with true. cbv iota. cbn [eval_list]. rewrite H1. cbn [bind]. rewrite H2.
  cbn [bind String.eqb Ascii.eqb Bool.eqb].
  destruct (next_of k l p) as [[[[st' k'] l'] p']|]; reflexivity.
Qed.
Lemma m_ev : forall a b c x y z, eval (tst sh l p) a = Ok (VInt x) -> eval (tst sh l p) b = Ok (VInt y) -> eval (tst sh l p) c = Ok (VInt z) ->
  micro prog vt (mk (SPrim None "wv_ev" [a; b; c]) k l p stt) sh = Ok (cont_conf k l p stt, sh, REvent (x, y, z)).
Proof.
  intros a b c x y z H1 H2 H3. unfold micro, cont_conf. cbn [ct_cur ct_k ct_loc ct_pre ct_st]. rewrite thread_state_tst.
  change (is_sync_prim "wv_ev") with true. cbv iota. cbn [eval_list]. rewrite H1. cbn [bind]. rewrite H2. cbn [bind]. rewrite H3.
  cbn [bind String.eqb Ascii.eqb Bool.eqb].
  destruct (next_of k l p) as [[[[st' k'] l'] p']|]; reflexivity.
Qed.
End Micro.

(* ================= run_thread, request by request ================= *)
(* [exr tid B first t cs evs R]: within B units of fuel thread tid, continuing from (t, cs, evs), completes its step with result R *)
Definition exr (tid B : nat) (first : bool) (t : cthread) (cs : cstate) (evs : list event) (R : cstate * list event) : Prop :=
  exists F, (F <= B)%nat /\ run_thread prog vt F tid first t cs evs = Ok R.
Definition first_ok (first : bool) (t : cthread) : Prop := first = true \/ is_sched_point (ct_cur t) = false.

Lemma exr_weaken : forall tid B B' first t cs evs R, exr tid B first t cs evs R -> (B <= B')%nat -> exr tid B' first t cs evs R.
Proof. intros tid B B' first t cs evs R (F & L & H) L'. exists F. split; [lia|exact H]. Qed.

Section Run.
Variables (tid : nat) (R : cstate * list event).

Ltac open_step H F L n :=
  destruct H as (F & L & H); exists (S F); split; [lia|]; rewrite run_thread_S; cbv zeta.
Ltac not_sp FO := match goal with |- context [negb ?first && is_sched_point (ct_cur ?t)] =>
  replace (negb first && is_sched_point (ct_cur t)) with false by (destruct FO as [->| ->]; [reflexivity|now rewrite andb_false_r]) end.

Lemma r_none : forall n first t sh thr mx evs t1 sh1, ct_st t <> TDone -> first_ok first t ->
  micro prog vt t sh = Ok (t1, sh1, RNone) ->
  exr tid n false t1 (C sh1 thr mx) evs R -> exr tid (S n) first t (C sh thr mx) evs R.
Proof.
  intros n first t sh thr mx evs t1 sh1 ND FO M H. open_step H F L n. not_sp FO.
  cbn [cs_sh C]. rewrite M. cbn [bind cs_thr cs_mx C]. destruct (ct_st t); try exact H. now elim ND.
Qed.
Lemma r_event : forall n first t sh thr mx evs t1 sh1 e, ct_st t <> TDone -> first_ok first t ->
  micro prog vt t sh = Ok (t1, sh1, REvent e) ->
  exr tid n false t1 (C sh1 thr mx) (evs ++ [e]) R -> exr tid (S n) first t (C sh thr mx) evs R.
Proof.
  intros n first t sh thr mx evs t1 sh1 e ND FO M H. open_step H F L n. not_sp FO.
  cbn [cs_sh C]. rewrite M. cbn [bind cs_thr cs_mx C]. destruct (ct_st t); try exact H. now elim ND.
Qed.
Lemma r_lock : forall n first t sh thr mx evs t1 sh1 m, ct_st t <> TDone -> first_ok first t ->
  micro prog vt t sh = Ok (t1, sh1, RLock m) -> mx_free mx m = true ->
  exr tid n false t1 (C sh1 thr ((m, tid) :: mx)) evs R -> exr tid (S n) first t (C sh thr mx) evs R.
Proof.
  intros n first t sh thr mx evs t1 sh1 m ND FO M FR H. open_step H F L n. not_sp FO.
  cbn [cs_sh C]. rewrite M. cbn [bind cs_thr cs_mx C]. rewrite FR. destruct (ct_st t); try exact H. now elim ND.
Qed.
Lemma r_unlock : forall n first t sh thr mx evs t1 sh1 m, ct_st t <> TDone -> first_ok first t ->
  micro prog vt t sh = Ok (t1, sh1, RUnlock m) ->
  exr tid n false t1 (C sh1 thr (mx_release mx m)) evs R -> exr tid (S n) first t (C sh thr mx) evs R.
Proof.
  intros n first t sh thr mx evs t1 sh1 m ND FO M H. open_step H F L n. not_sp FO.
  cbn [cs_sh C]. rewrite M. cbn [bind cs_thr cs_mx C]. destruct (ct_st t); try exact H. now elim ND.
Qed.
Lemma r_notify : forall n first t sh thr mx evs t1 sh1 cv, ct_st t <> TDone -> first_ok first t ->
  micro prog vt t sh = Ok (t1, sh1, RNotify cv) ->
  exr tid n false t1 (C sh1 (wake_all cv thr) mx) evs R -> exr tid (S n) first t (C sh thr mx) evs R.
Proof.
  intros n first t sh thr mx evs t1 sh1 cv ND FO M H. open_step H F L n. not_sp FO.
  cbn [cs_sh C]. rewrite M. cbn [bind cs_thr cs_mx C]. destruct (ct_st t); try exact H. now elim ND.
Qed.
Lemma r_join_pass : forall n first t sh thr mx evs t1 sh1 target, ct_st t <> TDone -> first_ok first t ->
  micro prog vt t sh = Ok (t1, sh1, RJoin target) -> thread_done (C sh1 thr mx) target = true ->
  exr tid n false t1 (C sh1 thr mx) evs R -> exr tid (S n) first t (C sh thr mx) evs R.
Proof.
  intros n first t sh thr mx evs t1 sh1 target ND FO M D H. open_step H F L n. not_sp FO.
  cbn [cs_sh C]. rewrite M. cbn [bind cs_thr cs_mx C]. fold (C sh1 thr mx). rewrite D. destruct (ct_st t); try exact H. now elim ND.
Qed.

(* ---- the ends of a step ---- *)
Lemma r_stop : forall t cs evs, ct_st t <> TDone -> is_sched_point (ct_cur t) = true -> (put tid t cs, evs) = R ->
  forall n, exr tid (S n) false t cs evs R.
Proof.
  intros t cs evs ND SP E n. exists 1%nat. split; [lia|]. rewrite run_thread_S. cbv zeta. rewrite SP. cbn [negb andb].
  rewrite <- E. unfold put. destruct (ct_st t); try reflexivity. now elim ND.
Qed.
Lemma r_done : forall first t cs evs, ct_st t = TDone -> (put tid t cs, evs ++ [(14, 0, 0)]%Z) = R ->
  forall n, exr tid (S n) first t cs evs R.
Proof. intros first t cs evs D E n. exists 1%nat. split; [lia|]. rewrite run_thread_S. cbv zeta. rewrite D, <- E. reflexivity. Qed.
Lemma r_wait : forall first t sh thr mx evs t1 sh1 cv m, ct_st t <> TDone -> first_ok first t ->
  micro prog vt t sh = Ok (t1, sh1, RWait cv m) ->
  (put tid (with_status t1 (TSleep cv m)) (C sh1 thr (mx_release mx m)), evs ++ [(11, 0, 0)]%Z) = R ->
  forall n, exr tid (S n) first t (C sh thr mx) evs R.
Proof.
  intros first t sh thr mx evs t1 sh1 cv m ND FO M E n. exists 1%nat. split; [lia|]. rewrite run_thread_S. cbv zeta. not_sp FO.
  cbn [cs_sh C]. rewrite M. cbn [bind cs_thr cs_mx C]. rewrite <- E. unfold put, C. cbn [cs_sh cs_thr cs_mx].
  destruct (ct_st t); try reflexivity. now elim ND.
Qed.
Lemma r_join_block : forall first t sh thr mx evs t1 sh1 target, ct_st t <> TDone -> first_ok first t ->
  micro prog vt t sh = Ok (t1, sh1, RJoin target) -> thread_done (C sh1 thr mx) target = false ->
  (put tid (with_status t1 (TJoin target)) (C sh1 thr mx), evs) = R ->
  forall n, exr tid (S n) first t (C sh thr mx) evs R.
Proof.
  intros first t sh thr mx evs t1 sh1 target ND FO M D E n. exists 1%nat. split; [lia|]. rewrite run_thread_S. cbv zeta. not_sp FO.
  cbn [cs_sh C]. rewrite M. cbn [bind cs_thr cs_mx C]. fold (C sh1 thr mx). rewrite D, <- E.
  destruct (ct_st t); try reflexivity. now elim ND.
Qed.
End Run.

(* ================= composable segments ================= *)
(* [leads tid N t cs evs t' cs' evs']: at most N micro steps of thread tid (not the first of its step) lead from (t, cs, evs) to (t', cs', evs') *)
Definition leads (tid N : nat) (t : cthread) (cs : cstate) (evs : list event) (t' : cthread) (cs' : cstate) (evs' : list event) : Prop :=
  forall B R, exr tid B false t' cs' evs' R -> exr tid (N + B) false t cs evs R.
Lemma leads_trans : forall tid N1 N2 t cs evs t1 cs1 evs1 t2 cs2 evs2,
  leads tid N1 t cs evs t1 cs1 evs1 -> leads tid N2 t1 cs1 evs1 t2 cs2 evs2 -> leads tid (N1 + N2) t cs evs t2 cs2 evs2.
Proof.
  intros tid N1 N2 t cs evs t1 cs1 evs1 t2 cs2 evs2 H1 H2 B R H.
  replace (N1 + N2 + B)%nat with (N1 + (N2 + B))%nat by lia. apply H1. apply H2. exact H.
Qed.
Lemma leads_weaken : forall tid N N' t cs evs t' cs' evs', leads tid N t cs evs t' cs' evs' -> (N <= N')%nat -> leads tid N' t cs evs t' cs' evs'.
Proof. intros tid N N' t cs evs t' cs' evs' H L B R E. eapply exr_weaken; [apply H; exact E|lia]. Qed.

(* ================= fuel monotonicity of the scheduler ================= *)
Lemma run_thread_mono : forall F tid first t cs evs R, run_thread prog vt F tid first t cs evs = Ok R ->
  forall F', (F <= F')%nat -> run_thread prog vt F' tid first t cs evs = Ok R.
Proof.
  induction F as [|F IH]; intros tid first t cs evs R H F' L; [discriminate H|].
  destruct F' as [|F']; [lia|]. rewrite run_thread_S in *. cbv zeta in *.
  assert (K : forall tid first t cs evs, run_thread prog vt F tid first t cs evs = Ok R -> run_thread prog vt F' tid first t cs evs = Ok R)
    by (intros; eapply IH; [eassumption|lia]).
  destruct (ct_st t); try exact H;
  (destruct (negb first && is_sched_point (ct_cur t)); [exact H|];
   destruct (micro prog vt t (cs_sh cs)) as [[[t1 sh1] req]|w|]; cbn [bind] in *; try discriminate H;
   destruct req; try exact H; try (apply K; exact H)).
  all: try (match goal with |- context [mx_free ?a ?b] => destruct (mx_free a b) end; [apply K; exact H|exact H]).
  all: try (destruct (lget prog f) as [fn|]; [|exact H]; destruct (bind_params (f_params fn) args); cbn [bind] in *; try exact H; apply K; exact H).
  all: try (match goal with |- context [thread_done ?a ?b] => destruct (thread_done a b) end; [apply K; exact H|exact H]).
Qed.
Lemma cstep_mono : forall F cs tid R, cstep prog vt F cs tid = Ok R -> forall F', (F <= F')%nat -> cstep prog vt F' cs tid = Ok R.
Proof.
  intros F cs tid R H F' L. unfold cstep in *. destruct (tid <? List.length (cs_thr cs))%nat; [|exact H].
  destruct (negb (enabled cs tid)); [exact H|]. destruct (nth_thread cs tid) as [t|]; [|exact H].
  destruct (ct_st t); eapply run_thread_mono; eauto.
Qed.

(* ================= cstep ================= *)
Lemma cstep_run : forall B sh thr tid t R, nth_error thr tid = Some t -> ct_st t = TRun ->
  match first_is_lock t sh with Some m => mx_free [] m | None => true end = true ->
  exr tid B true t (C sh thr []) [] R ->
  exists n, (n <= B)%nat /\ cstep prog vt n (C sh thr []) tid = Ok R.
Proof.
  intros B sh thr tid t R N S E (F & L & H). exists F. split; [exact L|]. unfold cstep. cbn [cs_thr C].
  assert (L' : (tid < List.length thr)%nat) by (apply nth_error_Some; congruence).
  apply Nat.ltb_lt in L'. rewrite L'. unfold enabled, nth_thread. cbn [cs_thr cs_sh cs_mx C]. rewrite N, S, E. exact H.
Qed.
Lemma cstep_awake : forall B sh thr tid t m R, nth_error thr tid = Some t -> ct_st t = TAwake m ->
  exr tid B false (with_status t TRun) (C sh thr [(m, tid)]) [(12, 0, 0)%Z] R ->
  exists n, (n <= B)%nat /\ cstep prog vt n (C sh thr []) tid = Ok R.
Proof.
  intros B sh thr tid t m R N S (F & L & H). exists F. split; [exact L|]. unfold cstep. cbn [cs_thr C].
  assert (L' : (tid < List.length thr)%nat) by (apply nth_error_Some; congruence).
  apply Nat.ltb_lt in L'. rewrite L'. unfold enabled, nth_thread. cbn [cs_thr cs_sh cs_mx C]. rewrite N, S. exact H.
Qed.
Lemma cstep_join : forall B sh thr tid t target R, nth_error thr tid = Some t -> ct_st t = TJoin target ->
  thread_done (C sh thr []) target = true ->
  exr tid B false (with_status t TRun) (C sh thr []) [] R ->
  exists n, (n <= B)%nat /\ cstep prog vt n (C sh thr []) tid = Ok R.
Proof.
  intros B sh thr tid t target R N S D (F & L & H). exists F. split; [exact L|]. unfold cstep. cbn [cs_thr C].
  assert (L' : (tid < List.length thr)%nat) by (apply nth_error_Some; congruence).
  apply Nat.ltb_lt in L'. rewrite L'. unfold enabled, nth_thread. cbn [cs_thr cs_sh cs_mx C]. rewrite N, S, D. exact H.
Qed.
Lemma cstep_spurious : forall fuel sh thr mx tid j t cv m, tid = (List.length thr + j)%nat -> nth_error thr j = Some t -> ct_st t = TSleep cv m ->
  cstep prog vt fuel (C sh thr mx) tid = Ok (C sh (set_nth_t j (with_status t (TAwake m)) thr) mx, []).
Proof.
  intros fuel sh thr mx tid j t cv m -> N S. unfold cstep. cbn [cs_thr C].
  replace (List.length thr + j <? List.length thr)%nat with false by (symmetry; apply Nat.ltb_ge; lia).
  replace (List.length thr + j - List.length thr)%nat with j by lia. unfold nth_thread. cbn [cs_thr C]. rewrite N, S. reflexivity.
Qed.

(* ================= additions for the whole-program runs ================= *)
(* silent machine steps of the sequential refinement (RefineSeqB.mstar) as a segment *)
Lemma leads_mstar : forall tid t sh n t2 sh2 thr mx evs, mstar prog vt t sh n t2 sh2 ->
  leads tid n t (C sh thr mx) evs t2 (C sh2 thr mx) evs.
Proof.
  intros tid t sh n t2 sh2 thr mx evs MS B R (F & LF & H). exists (n + F)%nat. split; [lia|].
  unfold C in *. rewrite (run_thread_mstar prog vt _ _ _ _ _ MS).
  destruct F as [|F]; [discriminate H|].
  replace (n + S F <=? n)%nat with false by (symmetry; apply Nat.leb_gt; lia).
  replace (n + S F - n)%nat with (S F) by lia. destruct n; exact H.
Qed.

(* a result other than "out of fuel" does not depend on the fuel *)
Lemma run_thread_stable : forall F tid first t cs evs r, run_thread prog vt F tid first t cs evs = r -> r <> NoFuel ->
  forall F', (F <= F')%nat -> run_thread prog vt F' tid first t cs evs = r.
Proof.
  induction F as [|F IH]; intros tid first t cs evs r H NF F' L; [cbn in H; congruence|].
  destruct F' as [|F']; [lia|]. rewrite run_thread_S in *. cbv zeta in *.
  assert (K : forall tid first t cs evs, run_thread prog vt F tid first t cs evs = r -> run_thread prog vt F' tid first t cs evs = r)
    by (intros; eapply IH; [eassumption|exact NF|lia]).
  destruct (ct_st t); try exact H;
  (destruct (negb first && is_sched_point (ct_cur t)); [exact H|];
   destruct (micro prog vt t (cs_sh cs)) as [[[t1 sh1] req]|w|]; cbn [bind] in *; try exact H;
   destruct req; try exact H; try (apply K; exact H)).
  all: try (match goal with |- context [mx_free ?a ?b] => destruct (mx_free a b) end; [apply K; exact H|exact H]).
  all: try (destruct (lget prog f) as [fn|]; [|exact H]; destruct (bind_params (f_params fn) args); cbn [bind] in *; try exact H; apply K; exact H).
  all: try (match goal with |- context [thread_done ?a ?b] => destruct (thread_done a b) end; [apply K; exact H|exact H]).
Qed.
Lemma cstep_stable : forall F cs tid r, cstep prog vt F cs tid = r -> r <> NoFuel -> forall F', (F <= F')%nat -> cstep prog vt F' cs tid = r.
Proof.
  intros F cs tid r H NF F' LE. unfold cstep in *. destruct (tid <? List.length (cs_thr cs))%nat; [|exact H].
  destruct (negb (enabled cs tid)); [exact H|]. destruct (nth_thread cs tid) as [t|]; [|exact H].
  destruct (ct_st t); eapply run_thread_stable; eauto.
Qed.
(* for every fuel: out of fuel, or THE result *)
Lemma cstep_total : forall F cs tid R, cstep prog vt F cs tid = Ok R -> forall F', cstep prog vt F' cs tid = NoFuel \/ cstep prog vt F' cs tid = Ok R.
Proof.
  intros F cs tid R H F'. destruct (Nat.le_ge_cases F F') as [LE|LE].
  - right. eapply cstep_stable; [exact H|discriminate|exact LE].
  - destruct (cstep prog vt F' cs tid) as [R'|w|] eqn:E; [|exfalso|left; reflexivity].
    + right. rewrite (cstep_stable _ _ _ _ E ltac:(discriminate) F LE) in H. exact H.
    + rewrite (cstep_stable _ _ _ _ E ltac:(discriminate) F LE) in H. discriminate H.
Qed.
End Mach.
