(* PARALLEL4 (H1): decrypt copy (layout instance PWd, pad = false) of the instance part (Section B1Mid) of RefineE2EfSetup2B1m.v;
   the generic parts (iob_loop_w, sb_from7 ...) are imported from there. *)
From Coq Require Import ZArith NArith List String Bool Lia PeanoNat Ascii.
From Wencry Require Import Bytes ModesModel HashModel FileModel FileProps MiniC MiniCRun MiniCLemmas SrcRun SrcRun2 SrcRun5 RefineE2EWhole RefineE2ENames
     RefineE2EfLay RefineE2EfWNames RefineE2EfWLay RefineE2EfWStream RefineE2EfGen RefineE2EfEncDefs RefineE2EfHashSpec RefineE2EfEnc2
     RefineE2EfHashB2 RefineE2EfHashB3 RefineE2EfSetup1 RefineE2EfSetup2Spec RefineE2EfDecSpec RefineE2EfDecInst RefineE2EfSetup2B3 RefineE2EfSetup2B1e RefineE2EfSetup2B1m
     RefineE2EfSetup2TailD RefineE2EfSetup2B1eD.
From Wencry Require RefineFileBase RefineConcMem RefineConcSim.
From Wencry.Gen Require Src_conc.
Import ListNotations.
Local Open Scope list_scope.
Local Open Scope string_scope.
Local Open Scope Z_scope.

Section B1Mid.
Variables (c hbuf T : nat) (F key : list N) (h n : nat) (extra : memory) (pextra : locs) (ke : mkind).
Hypothesis HT : (1 <= T <= 16)%nat.
Hypothesis Hkey : block16 key.
Hypothesis Hivb : block16 (firstn 16 (skipn 48 F)).
Hypothesis Hn : (n < h)%nat.
Hypothesis Hext : ext_mem_ok h extra = true.
Hypothesis Hpext : ext_ptr_ok h pextra = true.
Hypothesis Hnosz : no_sizeof_names extra = true.
Notation PW := (PWd hbuf T F key h n extra pextra ke).
Let OKW : wpar_ok PW := PWdec_ok hbuf T F key HT Hkey Hivb h n extra pextra ke Hn Hext Hpext.
Notation d0 := (dz c hbuf T F key h n extra pextra ke []).
Notation bufs0 := (repeat (mb_init c) T).
Notation MC0 := (MC0 c hbuf T F key h n extra pextra ke).
Notation PtC0 := (PtC0 hbuf T F key h n extra pextra ke).

(* the pointer table after `new iobuffer[T]`: the member buflst is still null *)
Definition core5m : locs :=
  [(class_key (wGP PW), VPtr "buffergroup" 0); ((wGP PW ++ "buflst")%string, VNull); ((wGP PW ++ "ctrl")%string, VNull);
   ((wGP PW ++ "fin")%string, VPtr "fin" 0); ((wGP PW ++ "fout")%string, VPtr "fout" 0)].
Definition PtM6 : locs :=
  (wp_pA PW T ++ [("instance", VPtr (wGP PW) 0)] ++ wp_pB PW T ++ core5m ++ map (fun i => (class_key (wbp PW i), VPtr "iobuffer" 0)) (seq 0 T))%list.

Lemma MC0_iob : forall i x, (i < T)%nat -> mget MC0 (wbp PW i ++ x) = mget (w_iob PW bufs0 i) (wbp PW i ++ x).
Proof.
  intros i x Hi. pose proof (hnum_bp PW i x) as E. unfold RefineE2EfSetup2B1eD.MC0, MRc. rewrite !RefineConcMem.mget_app.
  rewrite (frame_none PW _ _ _ (wo_memA PW OKW c T) E) by (cbn [wp_h PWd PWdec]; lia). cbn [mget].
  rewrite (hnum_none_neq _ "live_num" _ E eq_refl).
  rewrite (frame_none PW _ _ _ (wo_memB PW OKW c T) E) by (cbn [wp_h PWd PWdec]; lia).
  rewrite (allnum_none (wp_h PW) _ _ _ (allnum_seg3 PW T false d0) E) by (cbn [wp_h PWd PWdec]; lia).
  apply RefineConcMem.mget_flat_at; [|lia]. intros j Nj. apply iob_other. exact Nj.
Qed.
Lemma MC0_cells : forall i, (i < T)%nat ->
  mget MC0 (bp (h + 1) i ++ "total") = Some (cell U32 0) /\ mget MC0 (bp (h + 1) i ++ "now") = Some (cell U32 0) /\
  mget MC0 (bp (h + 1) i ++ "tail") = Some (cell U32 0) /\ mget MC0 (bp (h + 1) i ++ "isfinal") = Some (cell TBool 0).
Proof.
  intros i Hi. change (bp (h + 1) i) with (wbp PW i). rewrite !MC0_iob by exact Hi. unfold w_iob. rewrite nth_repeat_lt by lia.
  cbn [mget mb_init mb_tot mb_now mb_tail mb_fin b2z]. unfold wbp. rewrite !RefineConcMem.elem_pfx_eqb_same. cbn [String.eqb Ascii.eqb Bool.eqb andb]. auto.
Qed.

Theorem sb_from7_ok : forall l fs, lget l "$t1" = Some (VPtr (wBL PW) 0) -> lget l "$t3" = Some (VInt (Z.of_nat T)) -> lget l "size" = Some (VInt (Z.of_nat T)) ->
  exists l', exec whole_prog [] (80 + 2 * T) sb_from7 {| mem := MC0; loc := l; pre := wGP PW; files := fs; ptrs := PtM6; fresh := (h + 2)%nat |} =
    MiniC.Ok (Normal, {| mem := MB1 c hbuf T F key h n extra pextra ke; loc := l'; pre := wGP PW; files := fs;
                         ptrs := PtB1 hbuf T F key h n extra pextra ke; fresh := (h + 3)%nat |}).
Proof.
  intros l fs L1 L3 Ls.
  set (l2 := lset l "$t2" (VInt 0)).
  destruct (iob_loop_w (h + 1) MC0 T ltac:(lia) MC0_cells T 0 l2 (wGP PW) fs PtM6 (h + 2)%nat eq_refl) as (l3 & EL & Lk).
  { unfold l2. apply lget_lset_same. }
  { unfold l2. rewrite lget_lset_other by discriminate. exact L3. }
  { unfold l2. rewrite lget_lset_other by discriminate. exact L1. }
  assert (Ls3 : lget l3 "size" = Some (VInt (Z.of_nat T))).
  { rewrite Lk by discriminate. unfold l2. rewrite lget_lset_other by discriminate. exact Ls. }
  assert (L1' : lget l3 "$t1" = Some (VPtr (wBL PW) 0)).
  { rewrite Lk by discriminate. unfold l2. rewrite lget_lset_other by discriminate. exact L1. }
  destruct (RefineE2EfSetup2B1eD.sb_end_ok c hbuf T F key h n extra pextra ke HT Hkey Hivb Hn Hext Hpext Hnosz l3 fs Ls3) as (l' & EE).
  exists l'.
  replace (80 + 2 * T)%nat with (S (S (S (S (S (75 + 2 * T)))))) by lia.
  unfold sb_from7, s_snd. cbn [f_body Src_conc.f_buffergroup_set_buffergroup_4].
  rewrite exec_seq, exec_set. cbn [eval bind]. unfold with_loc. cbn [mem loc pre files ptrs fresh]. fold l2.
  rewrite exec_seq. fold iob_loop. rewrite (exec_mono _ _ _ _ _ _ EL) by lia. cbn [bind].
  rewrite exec_seq. rewrite (RefineFileBase.x_setptr whole_prog []). cbn [eval bind loc pre]. rewrite L1'. cbn [bind]. unfold with_ptrs. cbn [mem loc pre files ptrs fresh].
  assert (EP2 : lset PtM6 (wGP PW ++ "buflst") (VPtr (wBL PW) 0) = PtC0).
  { pose proof (hnum_GP PW "buflst") as E. unfold PtM6, RefineE2EfSetup2B1eD.PtC0.
    rewrite lset_app_r by (apply (pframe_num PW _ _ _ (wo_pA PW OKW T) E); cbn [wp_h PWd PWdec]; lia).
    rewrite (lset_app_r _ [("instance", VPtr (wGP PW) 0)]) by (cbn [lget]; rewrite (hnum_none_neq _ "instance" _ E eq_refl); reflexivity).
    rewrite lset_app_r by (apply (pframe_num PW _ _ _ (wo_pB PW OKW T) E); cbn [wp_h PWd PWdec]; lia).
    do 3 f_equal. unfold core5m, core5c. cbn [app lset].
    rewrite (hnum_none_neq _ _ _ E (hnum_class (wGP PW))). rewrite !append_eqb_l. cbn [String.eqb Ascii.eqb Bool.eqb andb]. reflexivity. }
  rewrite EP2. fold sb_end. rewrite (exec_mono _ _ _ _ _ _ EE) by lia. reflexivity.
Qed.
End B1Mid.
Print Assumptions sb_from7_ok.
