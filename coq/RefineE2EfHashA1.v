(* (A) of PARALLEL2, part 1: runcrypt::prepare_IV(r_buf) in the plan world, on any memory with the needed objects, WITH what it
   leaves alone (RefineFileHeader.getFileHeader_call hides the final memory and the final position: re-proved here with both). *)
From Coq Require Import ZArith NArith List String Bool Lia PeanoNat.
From Wencry Require Import Bytes HashModel HashProofs HmacProofs FileModel MiniC MiniCRun MiniCLemmas SrcRun SrcRun2 RefineHashDefs RefineHashDriver
     RefineSha256 RefineSha1 RefineMd5 RefineHash RefineFileBase RefineFileHmac RefineFileHmac2 RefineFileHmac3 RefineFileVerify RefineFileVerifyCall RefineFileVerify2
     RefineFileHeader.
From Wencry.Gen Require Layout Src_sha256 Src_sha1 Src_md5 Src_hashmaster Src_hashbuffer Src_hashfactory Src_fheader Src_cry.
Import ListNotations.
Local Open Scope list_scope.
Local Open Scope string_scope.
Local Open Scope Z_scope.

Notation FSO fi d pos e := [("fin", fi); ("fout", {| cf_data := d; cf_pos := pos; cf_eof := e |})].

Section PlanA.
Variable vt : list (string * string).
Hypothesis Hvt : lget vt "" = Some "sha1hash".

Lemma getFileHeader_call' : forall fuel M l p fi e ps fr seed T ivn (cm hm : N),
  (100 <= fuel)%nat -> (1 <= T <= 16)%nat -> (cm < 256)%N -> (hm < 256)%N ->
  lget ps "rc.header.out" = Some (VPtr "fout" 0) -> mget M "Magic_Num" = Some (cell1 U64 MAGIC) ->
  mget M "rc.header.ctype" = Some (u8cell (Z.of_N cm)) -> mget M "rc.header.htype" = Some (u8cell (Z.of_N hm)) ->
  mget M "rc.header.num" = Some (u8cell (Z.of_nat T)) -> mget M ivn = Some (ivobj seed T) -> is_prefix "%" ivn = false ->
  exists M',
    call file_prog vt fuel "FileHeader::getFileHeader/1" "rc.header." [VPtr ivn 0] (St M l p (FSO fi [] 0%nat e) ps fr)
    = Ok (None, St M' l p (FSO fi (map Z.of_N (file_header cm hm (chain seed T) T)) (48 + 20 * T)%nat e) ps fr) /\
    (forall k, k <> "%padding" -> k <> "%mn" -> mget M' k = mget M k).
Proof.
  intros fuel M l p fi e ps fr seed T ivn cm hm Hfuel HT Hcm Hhm Hout Hmg Hct Hht Hnum Hiv Hivn. fuel_S 40 fuel.
  unfold call. change (lget file_prog "FileHeader::getFileHeader/1") with (Some Src_fheader.f_FileHeader_getFileHeader_1).
  cbn [f_params f_body Src_fheader.f_FileHeader_getFileHeader_1 bind_params bind mem loc pre files ptrs fresh].
  assert (Hne1 : "%padding" <> ivn) by (intro E; rewrite <- E in Hivn; discriminate).
  assert (Hne2 : "%mn" <> ivn) by (intro E; rewrite <- E in Hivn; discriminate).
  (* u8_t padding[38] = {0} *)
  rewrite exec_seq, x_localarr. unfold with_mem. cbn [bind mem loc pre files ptrs fresh append]. change (repeat 0 (Z.to_nat 38)) with (repeat 0 38).
  rewrite exec_seq, x_memset. cbn [eval bind as_int append].
  match goal with |- context [do_memset ?s _ _ _] =>
    rewrite (memset_u8 s "%padding" 0 0 38 _ (mget_mset_same _ _ _) eq_refl ltac:(lia) ltac:(lia) ltac:(cbn; lia)) end.
  cbn [bind o_cells]. change (upd_range (Z.to_nat 0) (repeat (0 mod 256) (Z.to_nat 38)) (repeat 0 38)) with (repeat 0 38).
  unfold with_mem. cbn [mem loc pre files ptrs fresh]. rewrite mset_mset.
  (* u64_t mn = Magic_Num *)
  rewrite exec_seq, x_localarr. unfold with_mem. cbn [bind mem loc pre files ptrs fresh append]. change (repeat 0 (Z.to_nat 1)) with [0].
  rewrite exec_seq, x_store. cbn [eval bind as_int mem append]. rewrite mget_mset_same. rewrite !mget_mset_other by discriminate. rewrite Hmg.
  change (load_obj (cell1 U64 MAGIC) U64 0) with (Ok MAGIC : res Z). cbn [bind as_int].
  change (store_obj {| o_ty := U64; o_cells := [0] |} U64 0 MAGIC) with (Ok {| o_ty := U64; o_cells := [MAGIC] |} : res object).
  unfold with_mem. cbn [bind mem loc pre files ptrs fresh]. rewrite mset_mset.
  set (M2 := mset (mset M "%padding" {| o_ty := U8; o_cells := repeat 0 38 |}) "%mn" {| o_ty := U64; o_cells := [MAGIC] |}).
  assert (HM2 : forall k, k <> "%padding" -> k <> "%mn" -> mget M2 k = mget M k).
  { intros k A1 A2. unfold M2. rewrite !mget_mset_other by congruence. reflexivity. }
  (* fwrite(&mn, 1, 8, out) *)
  rewrite exec_seq, x_prim. cbn [eval_list eval bind pre ptrs append as_int]. rewrite Hout. cbn [bind as_int].
  change (wrap U64 1) with 1. change (wrap U64 8) with 8.
  rewrite (fwrite_mn M2 _ _ fi [] 0%nat e ps fr MAGIC (mget_mset_same _ _ _) eq_refl). cbn [bind set_ret app Nat.add].
  change (le_bytes 8 (MAGIC mod 2 ^ 64)) with (map Z.of_N magic_bytes).
  (* fwrite(&ctype, 1, 1, out) *)
  rewrite exec_seq, x_prim. cbn [eval_list eval bind pre ptrs append as_int]. rewrite Hout. cbn [bind as_int]. change (wrap U64 1) with 1.
  rewrite (fwrite_bytes M2 _ _ fi _ 8%nat e ps fr "rc.header.ctype" 0 1 [Z.of_N cm]) by
    (first [rewrite HM2 by discriminate; exact Hct|lia|cbn; lia|reflexivity]).
  cbn [bind set_ret]. change (firstn (Z.to_nat 1) (skipn (Z.to_nat 0) [Z.of_N cm])) with [Z.of_N cm]. cbn [List.length Nat.add].
  (* fwrite(&htype, 1, 1, out) *)
  rewrite exec_seq, x_prim. cbn [eval_list eval bind pre ptrs append as_int]. rewrite Hout. cbn [bind as_int]. change (wrap U64 1) with 1.
  rewrite (fwrite_bytes M2 _ _ fi _ 9%nat e ps fr "rc.header.htype" 0 1 [Z.of_N hm]) by
    (first [rewrite HM2 by discriminate; exact Hht|lia|cbn; lia|rewrite app_length, map_length; reflexivity]).
  cbn [bind set_ret]. change (firstn (Z.to_nat 1) (skipn (Z.to_nat 0) [Z.of_N hm])) with [Z.of_N hm]. cbn [List.length Nat.add].
  (* fwrite(padding, 1, 38, out) *)
  rewrite exec_seq, x_prim. cbn [eval_list eval bind pre ptrs append as_int]. rewrite Hout. cbn [bind as_int]. change (wrap U64 1) with 1. change (wrap U64 38) with 38.
  rewrite (fwrite_bytes M2 _ _ fi _ 10%nat e ps fr "%padding" 0 38 (repeat 0 38)) by
    (first [unfold M2; rewrite mget_mset_other by discriminate; apply mget_mset_same|lia|cbn; lia|rewrite !app_length, map_length; reflexivity]).
  cbn [bind set_ret]. change (firstn (Z.to_nat 38) (skipn (Z.to_nat 0) (repeat 0 38))) with (repeat 0 38). change (10 + List.length (repeat 0 38))%nat with 48%nat.
  set (d0 := (((map Z.of_N magic_bytes ++ [Z.of_N cm]) ++ [Z.of_N hm]) ++ repeat 0 38)%list).
  assert (Hd0 : List.length d0 = 48%nat) by (unfold d0; rewrite !app_length, map_length; reflexivity).
  (* the loop *)
  rewrite exec_seq, exec_set. cbn [eval bind]. unfold with_loc. cbn [mem loc pre files ptrs fresh].
  set (L := [("iv", VPtr ivn 0)]).
  pose (Inv := fun (q : nat) (s : state) =>
     s = St M2 (lset L "i" (VInt (Z.of_nat q))) "rc.header." (FSO fi (d0 ++ map Z.of_N (chain seed q)) (48 + 20 * q)%nat e) ps fr).
  match goal with |- context [exec file_prog vt ?f0 (SLoop ?c ?b ?st) ?s0] =>
    destruct (loop_inv file_prog vt c b st Inv T 5) with (k := 0%nat) (s := s0) as (sL & EL & ->)
  end.
  - intros q s Hq ->. exists 1. split; [|split; [lia|]].
    { cbn [eval bind as_int loc pre mem append]. rewrite lget_lset_same. cbn [bind as_int]. rewrite HM2 by discriminate. rewrite Hnum.
      unfold u8cell. rewrite load_u8 by (cbn; lia). cbn [bind as_int nth Z.to_nat eval_bin]. rewrite (wrap_U8_small (Z.of_nat T)) by lia.
      rewrite (wrap_I32_small (Z.of_nat T)) by lia. destruct (Z.ltb_spec (Z.of_nat q) (Z.of_nat T)); [reflexivity|lia]. }
    eexists. eexists. split; [|split].
    + rewrite x_prim. cbn [eval_list eval bind pre ptrs loc append as_int]. rewrite Hout. rewrite lget_lset_same. rewrite lget_lset_other by discriminate.
      cbn [L lget String.eqb Ascii.eqb Bool.eqb bind as_int eval_bin]. rewrite (arith_I32_small (20 * Z.of_nat q)) by lia. cbn [bind as_int].
      change (wrap U64 1) with 1. change (wrap U64 20) with 20.
      rewrite (fwrite_bytes M2 _ _ fi _ (48 + 20 * q)%nat e ps fr ivn (0 + 20 * Z.of_nat q * 1) 20 _)
        by (first [rewrite HM2 by congruence; exact Hiv | lia | cbn [o_cells]; rewrite app_length, map_length, chain_len, repeat_length; lia
                  | rewrite app_length, map_length, chain_len, Hd0; reflexivity]).
      cbn [bind set_ret]. reflexivity.
    + rewrite exec_set. cbn [eval bind as_int loc]. rewrite lget_lset_same. cbn [bind as_int eval_bin].
      rewrite arith_I32_small by lia. cbn [bind]. unfold with_loc. cbn [mem loc pre files ptrs fresh]. rewrite lset_lset. reflexivity.
    + unfold Inv. f_equal; [do 2 f_equal; lia|].
      destruct (chain_split seed T q Hq) as [rest Ers].
      replace (Z.to_nat (0 + 20 * Z.of_nat q * 1)) with (20 * q)%nat by lia. change (Z.to_nat 20) with 20%nat.
      rewrite Ers. rewrite !map_app, <- !app_assoc. rewrite skipn_app_exact by (rewrite map_length; apply chain_len).
      rewrite firstn_app_exact by (rewrite map_length; apply hj_len). rewrite map_length, hj_len.
      cbn [chain]. rewrite map_app. replace (48 + 20 * q + 20)%nat with (48 + 20 * S q)%nat by lia. reflexivity.
  - intros s ->. cbn [eval bind as_int loc pre mem append]. rewrite lget_lset_same. cbn [bind as_int]. rewrite HM2 by discriminate. rewrite Hnum.
    unfold u8cell. rewrite load_u8 by (cbn; lia). cbn [bind as_int nth Z.to_nat eval_bin]. rewrite (wrap_U8_small (Z.of_nat T)) by lia.
    rewrite (wrap_I32_small (Z.of_nat T)) by lia. destruct (Z.ltb_spec (Z.of_nat T) (Z.of_nat T)); [lia|reflexivity].
  - lia.
  - unfold Inv. cbn [chain map]. rewrite app_nil_r. reflexivity.
  - rewrite (exec_mono _ _ _ _ _ _ EL) by lia. cbn [bind]. exists M2. split; [|exact HM2]. f_equal. f_equal. f_equal. f_equal. f_equal. f_equal.
    unfold file_header, d0. change (N.to_nat Layout.PADDING) with 38%nat.
    rewrite firstn_all2 by (rewrite chain_len; lia). rewrite !map_app, <- !app_assoc. cbn [map app]. rewrite map_of_N_zeros. reflexivity.
Qed.

Lemma prepIV_plan : forall fuel M l p fi e ps fr seed T (cm hm : N),
  (3000 + List.length seed / 64 <= fuel)%nat -> (1 <= T <= 16)%nat -> (cm < 256)%N -> (hm < 256)%N ->
  seed_ok seed -> Z.of_nat (List.length seed) < 2 ^ 32 ->
  mget M "THREAD_MAX" = Some (cell1 U8 16) -> mget M "seed" = Some (bytes_object (seed ++ [0%N])) ->
  mget M "rc.header.num" = Some (u8cell (Z.of_nat T)) -> mget M "Magic_Num" = Some (cell1 U64 MAGIC) ->
  mget M "rc.header.ctype" = Some (u8cell (Z.of_N cm)) -> mget M "rc.header.htype" = Some (u8cell (Z.of_N hm)) ->
  lget ps "alloc:sha1hash" = Some (VPtr "" 0) -> lget ps "rc.header.out" = Some (VPtr "fout" 0) ->
  no_sizeof M -> (forall name, In name five -> mget M name = None) ->
  exists M' fr',
    call file_prog vt fuel "runcrypt::prepare_IV/1" "rc." [VPtr "seed" 0] (St M l p (FSO fi [] 0%nat e) ps fr)
      = Ok (Some (VPtr (heap_name fr) 0),
            St M' l p (FSO fi (map Z.of_N (file_header cm hm (iv_chain seed T) T)) (48 + 20 * T)%nat e) (lset ps (class_key "") (VPtr "sha1hash" 0)) fr') /\
    mget M' (heap_name fr) = Some (ivobj seed T) /\ (forall k, file_owned k = false -> mget M' k = mget M k) /\ (S fr <= fr')%nat.
Proof.
  intros fuel M l p fi e ps fr seed T cm hm Hfuel HT Hcm Hhm Hs Hsl Htm Hseed Hnum Hmg Hct Hht Hal Hout Hsz Habs.
  assert (Hgen : forall l0 p0, exists M' fr',
    call file_prog vt fuel "runcrypt::prepare_IV/1" "rc." [VPtr "seed" 0] (St M l0 p0 (FSO fi [] 0%nat e) ps fr)
      = Ok (Some (VPtr (heap_name fr) 0),
            St M' l0 p0 (FSO fi (map Z.of_N (file_header cm hm (chain seed T) T)) (48 + 20 * T)%nat e) (lset ps (class_key "") (VPtr "sha1hash" 0)) fr') /\
    mget M' (heap_name fr) = Some (ivobj seed T) /\ (forall k, file_owned k = false -> mget M' k = mget M k) /\ (S fr <= fr')%nat).
  { intros l0 p0.
    unfold call. change (lget file_prog "runcrypt::prepare_IV/1") with (Some Src_cry.f_runcrypt_prepare_IV_1).
    cbn [f_params f_body Src_cry.f_runcrypt_prepare_IV_1 bind_params bind mem loc pre files ptrs fresh].
    fuel_S 10 fuel.
    (* iv = new u8_t[THREAD_MAX * 20] *)
    rewrite exec_seq, x_new. cbn [eval bind as_int mem]. rewrite Htm.
    unfold cell1. rewrite load_u8 by (cbn; lia). cbn [bind as_int nth Z.to_nat eval_bin].
    change (wrap I32 (wrap U8 16)) with 16. rewrite arith_I32_small by lia. cbn [bind as_int]. change (wrap U64 (16 * 20)) with 320.
    change (320 <? 0) with false. cbv iota. cbn [bind mem loc pre files ptrs fresh lset String.eqb Ascii.eqb Bool.eqb].
    set (ivn := heap_name fr).
    set (M0 := mset M ivn {| o_ty := U8; o_cells := repeat 0 (Z.to_nat 320) |}).
    assert (Hivo : file_owned ivn = true) by (unfold file_owned, ivn; rewrite hash_owned_heap; reflexivity).
    assert (HM0 : forall k, file_owned k = false -> mget M0 k = mget M k).
    { intros k Hk. unfold M0. apply mget_mset_other. intro E0. subst k. rewrite Hivo in Hk. discriminate. }
    (* header.getIV(r_buf, iv) *)
    rewrite exec_seq.
    cfuel ltac:(fun f =>
      destruct (getIV_call vt Hvt f M0 [("r_buf", VPtr "seed" 0); ("iv", VPtr ivn 0)] "rc." (FSO fi [] 0%nat e) ps (S fr) seed T ivn fr)
        as (M1 & fr1 & Ec & Hiv1 & Hoth1 & Hfr1);
      [ pose proof F_sha1hash_bound; lia | exact HT | exact Hs | exact Hsl | reflexivity | lia | apply mget_mset_same
      | rewrite HM0 by reflexivity; exact Hseed | rewrite HM0 by reflexivity; exact Hnum | exact Hal
      | unfold M0; apply nosz_mset; [exact Hsz|reflexivity]
      | intros name Hin; unfold M0; rewrite mget_mset_other; [apply Habs, Hin|intro E0; subst name; unfold ivn, heap_name in Hin; cbn [five In] in Hin; repeat (destruct Hin as [Hin|Hin]; [discriminate Hin|]); destruct Hin]
      | rewrite (x_scall file_prog vt f None "FileHeader::getIV/2@u8_t" (Some (EField "header.")) [EVar "r_buf"; EVar "iv"]
                   (St M0 [("r_buf", VPtr "seed" 0); ("iv", VPtr ivn 0)] "rc." (FSO fi [] 0%nat e) ps (S fr))
                   [VPtr "seed" 0; VPtr ivn 0] "rc.header." _ _ _ eq_refl eq_refl Ec eq_refl); clear Ec ]).
    cbn [bind].
    (* header.getFileHeader(iv) *)
    rewrite exec_seq.
    set (ps2 := lset ps (class_key "") (VPtr "sha1hash" 0)).
    cfuel ltac:(fun f =>
      destruct (getFileHeader_call' f M1 [("r_buf", VPtr "seed" 0); ("iv", VPtr ivn 0)] "rc." fi e ps2 fr1 seed T ivn cm hm)
        as (M2 & Ec2 & HM2);
      [ lia | exact HT | exact Hcm | exact Hhm | unfold ps2; rewrite lget_lset_other by discriminate; exact Hout
      | rewrite Hoth1, HM0 by reflexivity; exact Hmg | rewrite Hoth1, HM0 by reflexivity; exact Hct | rewrite Hoth1, HM0 by reflexivity; exact Hht
      | rewrite Hoth1, HM0 by reflexivity; exact Hnum | exact Hiv1 | reflexivity
      | rewrite (x_scall file_prog vt f None "FileHeader::getFileHeader/1" (Some (EField "header.")) [EVar "iv"]
                   (St M1 [("r_buf", VPtr "seed" 0); ("iv", VPtr ivn 0)] "rc." (FSO fi [] 0%nat e) ps2 fr1)
                   [VPtr ivn 0] "rc.header." _ _ _ eq_refl eq_refl Ec2 eq_refl); clear Ec2 ]).
    cbn [bind]. rewrite x_return. cbn [eval bind loc lget String.eqb Ascii.eqb Bool.eqb].
    exists M2, fr1. split; [reflexivity|]. split; [|split; [|lia]].
    - rewrite HM2 by (unfold ivn, heap_name; discriminate). exact Hiv1.
    - intros k Hk. rewrite HM2 by (intro E0; subst k; discriminate Hk). rewrite Hoth1 by exact Hk. apply HM0, Hk. }
  destruct (Hgen l p) as (M' & fr' & Ec & H1 & H2 & H3). exists M', fr'. rewrite iv_chain_chain by lia. auto.
Qed.
End PlanA.
