From Wencry Require Import Bytes FileModel ProcModel.
From Wencry Require Export CliGlueText.
From Wencry.Gen Require Import Opts.
From Coq Require Import ZArith Lia ZifyBool ZifyN Zify.
Local Open Scope N_scope.
Local Ltac Zify.zify_post_hook ::= Z.to_euclidean_division_equations.

Lemma optind_reset_is_0 : optind_reset = 0.
Proof. reflexivity. Qed.

Definition op_ok (o : op) : Prop :=
  match o with OpEncrypt T | OpDecrypt T _ => 1 <= T <= 16 | _ => True end.

Lemma run_pipeline_fresh : forall p T, p_live p = 0 -> 1 <= T <= 16 ->
  exists p', run_pipeline p T = Some p' /\ p_live p' = 0 /\ p_instance p' = false /\ p_scanner p' = p_scanner p.
Proof.
  intros p T Hl HT. unfold run_pipeline. rewrite Hl.
  replace ((((0 + T) mod 256 + 256 - T mod 256) mod 256 =? 0)) with true.
  - eexists; repeat split; reflexivity.
  - symmetry. apply N.eqb_eq. rewrite N.add_0_l. rewrite !(N.mod_small T 256) by lia.
    replace (T + 256 - T) with 256 by lia. reflexivity.
Qed.

Lemma step_restores : forall p o, observably_fresh p -> op_ok o ->
  observably_fresh (fst (step_op p o)) /\ snd (step_op p o) = Some true.
Proof.
  intros p o [Hl [Hi Hs]] Hok. destruct o as [T | T acc | | ab]; cbn [step_op].
  - destruct (run_pipeline_fresh p T Hl Hok) as [p' [E [A [B C]]]]. rewrite E. cbn.
    split; [|reflexivity]. repeat split; auto; try (intros _; apply optind_reset_is_0).
  - destruct acc.
    + destruct (run_pipeline_fresh p T Hl Hok) as [p' [E [A [B C]]]]. rewrite E. cbn.
      split; [|reflexivity]. repeat split; auto; try (intros _; apply optind_reset_is_0).
    + cbn. split; [|reflexivity]. repeat split; auto.
  - cbn. split; [|reflexivity]. repeat split; auto.
  - split.
    + repeat split; auto; try (intros _; apply optind_reset_is_0).
    + unfold step_op. cbn [snd]. change (optind_reset =? 0) with true. cbn. rewrite Bool.andb_false_r. reflexivity.
Qed.

Lemma C15_every_operation_restores_the_process_state_proof : forall p o,
  observably_fresh p -> op_ok o ->
  observably_fresh (fst (step_op p o)) /\ snd (step_op p o) = Some true.
Proof. exact step_restores. Qed.

Lemma history_fresh : forall h p, observably_fresh p -> Forall op_ok h -> observably_fresh (run_history p h).
Proof.
  induction h as [|o r IH]; intros p Hp Hh; cbn [run_history]; [exact Hp|].
  inversion Hh; subst. apply IH; [|assumption]. apply step_restores; assumption.
Qed.

(* after any history every operation behaves as in a fresh process *)
Lemma C15_history_independence_proof : forall h o,
  Forall op_ok h -> op_ok o ->
  snd (step_op (run_history proc0 h) o) = Some true /\ snd (step_op proc0 o) = Some true.
Proof.
  intros h o Hh Ho.
  assert (F0 : observably_fresh proc0) by (repeat split; intros; discriminate).
  split.
  - apply step_restores; [apply history_fresh; assumption | assumption].
  - apply step_restores; assumption.
Qed.

Lemma C15_scanner_is_reinitialised_proof : optind_reset = 0.
Proof. exact optind_reset_is_0. Qed.

(* what would happen with a leftover live counter, or with optind reset to 1: history matters *)
Example leftover_counter_hangs :
  run_pipeline {| p_live := 1; p_instance := false; p_scanner := false; p_fout := false |} 4 = None.
Proof. reflexivity. Qed.
Example nonvacuous : observably_fresh proc0 /\ op_ok (OpEncrypt 4) /\ op_ok (OpDecrypt 16 true) /\ op_ok (OpParse true).
Proof. repeat split; intros; try discriminate; cbn; lia. Qed.
