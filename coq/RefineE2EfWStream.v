(* Stage 5: LayoutOk.stream_call for the layout of the whole program: one call `mode->runcry(block)` of a real mode object
   (the eight classes of aesmode.cpp) on a block of the worker's buffer, as a segment of the thread machine. *)
From Coq Require Import ZArith NArith List String Bool Lia Ascii Arith.
From Wencry Require Import Bytes AesModel ModesModel FileModel PipeConc MiniC MiniCLemmas MiniCRun MiniCConc SrcRun SrcRun2 SrcRun5 PipeLemmas.
From Wencry Require Import RefineSeqDefs RefineSeqA RefineSeqB RefineSeq RefineSeqVerify.
From Wencry Require Import RefineAesLib RefineAesOps RefineModes RefineE2EfModesWin.
From Wencry Require ModesProofs RefineConcMem RefineConcSim RefineE2ENames.
From Wencry Require Import RefineE2EfLay RefineE2EfMach RefineE2EfMem RefineE2EfWNames RefineE2EfWLay.
From Wencry Require RefineE2EfBlock.
From Wencry.Gen Require Src_whole Src_conc Src_aes Src_aesmode.
Import ListNotations.
Local Open Scope list_scope.
Local Open Scope string_scope.

(* ---------------- a program that contains another one ---------------- *)
Section Sub.
Variable prog big : program.
Variable vtab : list (string * string).
Hypothesis Hsub : forall g fn, lget prog g = Some fn -> lget big g = Some fn.

Lemma exec_prog_sub : forall fuel st s r, exec prog vtab fuel st s = Ok r -> exec big vtab fuel st s = Ok r.
Proof.
  induction fuel as [|fuel IH]; intros st s r H; [discriminate|].
  assert (CALL : forall ret fname pfx vs r0,
    match lget prog fname with
    | None => UB ("no function " ++ fname)%string
    | Some f => do l <- bind_params (f_params f) vs;
                do r1 <- exec prog vtab fuel (f_body f) {| mem := mem s; loc := l; pre := pfx; files := files s; ptrs := ptrs s; fresh := fresh s |};
                let '(o, s1) := r1 in
                do s2 <- set_ret {| mem := mem s1; loc := loc s; pre := pre s; files := files s1; ptrs := ptrs s1; fresh := fresh s1 |} ret
                                 (match o with Returned v => v | _ => None end);
                Ok (Normal, s2)
    end = Ok r0 ->
    match lget big fname with
    | None => UB ("no function " ++ fname)%string
    | Some f => do l <- bind_params (f_params f) vs;
                do r1 <- exec big vtab fuel (f_body f) {| mem := mem s; loc := l; pre := pfx; files := files s; ptrs := ptrs s; fresh := fresh s |};
                let '(o, s1) := r1 in
                do s2 <- set_ret {| mem := mem s1; loc := loc s; pre := pre s; files := files s1; ptrs := ptrs s1; fresh := fresh s1 |} ret
                                 (match o with Returned v => v | _ => None end);
                Ok (Normal, s2)
    end = Ok r0).
  { intros ret fname pfx vs r0 Hc. destruct (lget prog fname) as [f|] eqn:L; [|discriminate]. rewrite (Hsub _ _ L).
    apply bind_Ok in Hc. destruct Hc as [l [Hl Hc]]. rewrite Hl. cbn [bind].
    apply bind_Ok in Hc. destruct Hc as [r1 [Hr1 Hc]]. rewrite (IH _ _ _ Hr1). cbn [bind]. exact Hc. }
  destruct st; cbn [exec] in H |- *; try exact H.
  - apply bind_Ok in H. destruct H as [[o s1] [H1 H2]]. rewrite (IH _ _ _ H1). cbn [bind]. destruct o; auto.
  - apply bind_Ok in H. destruct H as [cv [Hc H]]. rewrite Hc. cbn [bind].
    apply bind_Ok in H. destruct H as [x [Hx H]]. rewrite Hx. cbn [bind]. destruct (x =? 0)%Z; auto.
  - apply bind_Ok in H. destruct H as [cv [Hc H]]. rewrite Hc. cbn [bind].
    apply bind_Ok in H. destruct H as [x [Hx H]]. rewrite Hx. cbn [bind]. destruct (x =? 0)%Z; auto.
    apply bind_Ok in H. destruct H as [[o s1] [H1 H]]. rewrite (IH _ _ _ H1). cbn [bind].
    destruct o; auto.
    apply bind_Ok in H. destruct H as [[o2 s2] [H2 H]]. rewrite (IH _ _ _ H2). cbn [bind].
    destruct o2; auto.
  - apply bind_Ok in H. destruct H as [[o s1] [H1 H]]. rewrite (IH _ _ _ H1). cbn [bind].
    destruct o; auto.
    apply bind_Ok in H. destruct H as [cv [Hc H]]. rewrite Hc. cbn [bind].
    apply bind_Ok in H. destruct H as [x [Hx H]]. rewrite Hx. cbn [bind]. destruct (x =? 0)%Z; auto.
  - apply bind_Ok in H. destruct H as [vs [Hv H]]. rewrite Hv. cbn [bind].
    apply bind_Ok in H. destruct H as [pfx [Hp H]]. rewrite Hp. cbn [bind]. apply CALL. exact H.
  - apply bind_Ok in H. destruct H as [vs [Hv H]]. rewrite Hv. cbn [bind].
    apply bind_Ok in H. destruct H as [pfx [Hp H]]. rewrite Hp. cbn [bind].
    destruct (lget vtab pfx); [apply CALL; exact H|].
    destruct (lget (ptrs s) (class_key pfx)) as [[z|cls off|]|]; try discriminate. apply CALL. exact H.
  - apply bind_Ok in H. destruct H as [vs [Hv H]]. rewrite Hv. cbn [bind].
    match goal with |- context [negb ?b] => destruct (negb b) end; [exact H|].
    destruct ctor as [fname|]; [|exact H].
    destruct (lget prog fname) as [f|] eqn:L; [|discriminate]. rewrite (Hsub _ _ L).
    apply bind_Ok in H. destruct H as [l [Hl H]]. rewrite Hl. cbn [bind].
    apply bind_Ok in H. destruct H as [r1 [Hr1 H]]. rewrite (IH _ _ _ Hr1). cbn [bind]. exact H.
Qed.
End Sub.

(* aes_prog inside whole_prog *)
Definition front2 : program := (Src_whole.functions ++ Src_conc.functions)%list.
Lemma whole_prog_eq2 : whole_prog = (front2 ++ aes_prog ++ file_prog)%list.
Proof. unfold whole_prog, front2, aes_prog. repeat rewrite <- app_assoc. reflexivity. Qed.
Lemma aes_in_whole : forall g fn, lget aes_prog g = Some fn -> lget whole_prog g = Some fn.
Proof.
  assert (C : forallb (fun nf : string * func => match lget front2 (fst nf) with None => true | Some _ => false end) aes_prog = true)
    by (vm_compute; reflexivity).
  intros g fn H. rewrite whole_prog_eq2. rewrite !RefineConcMem.lget_app.
  rewrite forallb_forall in C. specialize (C _ (RefineSeq.lget_In _ _ _ _ H)). cbn [fst] in C.
  destruct (lget front2 g); [discriminate|]. rewrite H. reflexivity.
Qed.
Lemma conc_in_whole : forall g fn, lget Src_conc.functions g = Some fn -> lget whole_prog g = Some fn.
Proof.
  assert (C : forallb (fun nf : string * func => match lget Src_whole.functions (fst nf) with None => true | Some _ => false end) Src_conc.functions = true)
    by (vm_compute; reflexivity).
  intros g fn H. unfold whole_prog. rewrite !RefineConcMem.lget_app.
  rewrite forallb_forall in C. specialize (C _ (RefineSeq.lget_In _ _ _ _ H)). cbn [fst] in C.
  destruct (lget Src_whole.functions g); [discriminate|]. rewrite H. reflexivity.
Qed.

Lemma call_inv : forall prog vt fuel f pfx vs s rv s' fn l,
  call prog vt fuel f pfx vs s = Ok (rv, s') -> lget prog f = Some fn -> bind_params (f_params fn) vs = Ok l ->
  exists o s1, exec prog vt fuel (f_body fn) {| mem := mem s; loc := l; pre := pfx; files := files s; ptrs := ptrs s; fresh := fresh s |} = Ok (o, s1) /\
    rv = match o with Returned v => v | _ => None end /\
    s' = {| mem := mem s1; loc := loc s; pre := pre s; files := files s1; ptrs := ptrs s1; fresh := fresh s1 |}.
Proof.
  intros prog vt fuel f pfx vs s rv s' fn l H L B. unfold call in H. rewrite L, B in H. cbn [bind] in H.
  destruct (exec prog vt fuel (f_body fn) _) as [[o s1]|w|]; cbn [bind] in H; try discriminate H.
  exists o, s1. injection H as <- <-. auto.
Qed.

(* the eight runcry methods *)
Definition runcry_fn (k : mkind) : func :=
  match k with
  | ECB_Enc => Src_aesmode.f_AesECB_Enc_runcry_1 | ECB_Dec => Src_aesmode.f_AesECB_Dec_runcry_1
  | CBC_Enc => Src_aesmode.f_AesCBC_Enc_runcry_1 | CBC_Dec => Src_aesmode.f_AesCBC_Dec_runcry_1
  | CTRm => Src_aesmode.f_AesCTR_runcry_1 | CFB_Enc => Src_aesmode.f_AesCFB_Enc_runcry_1
  | CFB_Dec => Src_aesmode.f_AesCFB_Dec_runcry_1 | OFBm => Src_aesmode.f_AesOFB_runcry_1
  end.
Lemma runcry_lget : forall k, lget aes_prog (cls_of k ++ "::runcry/1") = Some (runcry_fn k).
Proof. intros []; reflexivity. Qed.
Lemma runcry_params : forall k, f_params (runcry_fn k) = ["block"].
Proof. intros []; reflexivity. Qed.
Lemma runcry_wf : forall k, wf_ok whole_prog 10 (f_body (runcry_fn k)) = true.
Proof. intros []; vm_compute; reflexivity. Qed.
Lemma runcry_straight : forall k, straight (f_body (runcry_fn k)) = true.
Proof. intros []; reflexivity. Qed.

Lemma set_nth_same : forall (A : Type) (l : list A) i d, (i < List.length l)%nat -> set_nth i (nth i l d) l = l.
Proof. intros A l. induction l as [|a l IH]; intros [|i] d H; cbn [set_nth nth List.length] in *; try lia; try reflexivity. f_equal. apply IH. lia. Qed.
Lemma set_nth_set_nth : forall A (x y : A) i l, set_nth i y (set_nth i x l) = set_nth i y l.
Proof. induction i as [|i IH]; intros [|h l]; cbn [set_nth]; try reflexivity. now rewrite IH. Qed.

Section WS.
Variable P : wpar.
Hypothesis OK : wpar_ok P.
Notation h := (wp_h P).
Notation ks := (wp_ks P).
Notation kind := (wp_kind P).

Lemma mp_not_tab : forall i x, ~ RefineAesOps.is_tab (wmp P i ++ x).
Proof. intros i x H. unfold wmp in H. rewrite heap_dot in H. unfold HN, RefineAesOps.is_tab in H. intuition discriminate. Qed.
Lemma bp_not_tab : forall i x, ~ RefineAesOps.is_tab (wbp P i ++ x).
Proof. intros i x H. unfold wbp, wBL in H. rewrite heap_elem in H. unfold HN, RefineAesOps.is_tab in H. intuition discriminate. Qed.
Lemma mp_not_bp : forall i j x y, wmp P i ++ x <> wbp P j ++ y.
Proof. intros i j x y E. pose proof (hnum_mp P i x) as H1. rewrite E, hnum_bp in H1. injection H1. lia. Qed.
Lemma mp_not_loc : forall i x y, wmp P i ++ x <> "%" ++ y.
Proof. intros i x y E. unfold wmp in E. rewrite heap_dot in E. discriminate E. Qed.
Lemma bp_not_loc : forall i x y, wbp P i ++ x <> "%" ++ y.
Proof. intros i x y E. unfold wbp, wBL in E. rewrite heap_elem in E. discriminate E. Qed.
Lemma mp_inj : forall i j x y, wmp P i ++ x = wmp P j ++ y -> i = j.
Proof. intros i j x y E. pose proof (hnum_mp P i x) as H1. rewrite E, hnum_mp in H1. injection H1. lia. Qed.

(* the memory after a chain of writes of the call *)
Lemma chain_mem : forall c T pad d0 i m', (i < T)%nat -> List.length (d_bufs d0) = T ->
  chain (wmp P i) (wbp P i ++ "b") (w_mem_of P c T pad d0) m' ->
  exists cells' sm', m' = w_mem_of P c T pad (with_sm (dset d0 i (mb_with_cells cells' (nth i (d_bufs d0) mb0))) sm') /\
    (forall k, (forall x, k <> wmp P i ++ x) -> k <> "%mask" -> k <> "%nxt_iv" -> mget sm' k = mget (d_sm d0) k).
Proof.
  intros c T pad d0 i m' Hi Lb Hch. induction Hch as [|m1 k v Hch IH Hk].
  - exists (mb_cells (nth i (d_bufs d0) mb0)), (d_sm d0). split; [|reflexivity].
    f_equal. unfold dset. replace (mb_with_cells (mb_cells (nth i (d_bufs d0) mb0)) (nth i (d_bufs d0) mb0)) with (nth i (d_bufs d0) mb0)
      by (destruct (nth i (d_bufs d0) mb0); reflexivity).
    rewrite set_nth_same by lia. destruct d0; reflexivity.
  - destruct IH as (cells1 & sm1 & -> & Hfr).
    set (B0 := nth i (d_bufs d0) mb0) in *.
    set (d1 := with_sm (dset d0 i (mb_with_cells cells1 B0)) sm1).
    assert (L1 : List.length (d_bufs d1) = T) by (unfold d1, dset; cbn [with_sm with_bufs d_bufs]; rewrite set_nth_length; exact Lb).
    destruct Hk as [[-> (cells & ->)]|[(x & ->)|Hloc]].
    + exists cells, sm1. split; [|exact Hfr].
      change (bobj cells) with {| o_ty := U8; o_cells := cells |}. rewrite (w_mset_b P OK c T pad d1 i cells Hi L1). f_equal.
      unfold d1, dset, upd_buf. cbn [with_sm with_bufs d_bufs d_turn d_over d_live d_sm d_pos d_eof d_out].
      rewrite nth_set_nth_eq by lia. rewrite set_nth_set_nth. reflexivity.
    + exists cells1, (mset sm1 (wmp P i ++ x) v). split.
      * rewrite (mset_sm P OK). reflexivity.
      * intros k Hk1 Hk2 Hk3. rewrite mget_mset_other by (intros E; apply (Hk1 x); symmetry; exact E). apply Hfr; assumption.
    + exists cells1, (mset sm1 k v). split.
      * rewrite (mset_loc P OK) by exact Hloc. reflexivity.
      * intros k' Hk1 Hk2 Hk3. rewrite mget_mset_other by (destruct Hloc as [-> | ->]; congruence). apply Hfr; assumption.
Qed.

Lemma bytes_object_inj : forall a b, bytes_object a = bytes_object b -> a = b.
Proof.
  intros a b H. unfold bytes_object in H. injection H as H. revert b H. induction a as [|x a IH]; intros [|y b] H; cbn [map] in H; try discriminate; [reflexivity|].
  injection H as H1 H2. apply N2Z.inj in H1. subst y. f_equal. apply IH. exact H2.
Qed.

Lemma Forall_firstn' : forall (Q : Z -> Prop) n l, Forall Q l -> Forall Q (firstn n l).
Proof. intros Q n. induction n as [|n IH]; intros [|x l] H; cbn [firstn]; try constructor; inversion H; subst; auto. Qed.
Lemma Forall_skipn' : forall (Q : Z -> Prop) n l, Forall Q l -> Forall Q (skipn n l).
Proof. intros Q n. induction n as [|n IH]; intros [|x l] H; cbn [skipn]; auto. inversion H; subst; auto. Qed.
Lemma byte_list_split : forall (cells : list Z) n, (n + 16 <= List.length cells)%nat -> Forall (fun z => 0 <= z < 256)%Z cells ->
  let A := firstn n cells in let blk := map Z.to_N (firstn 16 (skipn n cells)) in let Zt := skipn (n + 16) cells in
  cells = (A ++ map Z.of_N blk ++ Zt)%list /\ block16 blk /\ List.length A = n.
Proof.
  intros cells n Hn Hb A blk Zt.
  assert (Hb16 : Forall (fun z => 0 <= z < 256)%Z (firstn 16 (skipn n cells))) by (apply Forall_firstn', Forall_skipn'; exact Hb).
  split; [|split].
  - unfold A, blk, Zt. rewrite map_map. rewrite (map_ext_in _ (fun z => z)).
    + rewrite map_id. rewrite <- (firstn_skipn n cells) at 1. f_equal. rewrite <- (firstn_skipn 16 (skipn n cells)) at 1. f_equal.
      rewrite RefineE2EfBlock.skipn_skipn_l. reflexivity.
    + intros z Hz. apply Z2N.id. apply (proj1 (Forall_forall _ _) Hb16 z Hz).
  - apply ModesProofs.block16_iff. split.
    + unfold blk. rewrite map_length, firstn_length, skipn_length. lia.
    + unfold blk. unfold ModesProofs.bytes. apply Forall_forall. intros x Hx. apply in_map_iff in Hx. destruct Hx as (z & <- & Hz).
      pose proof (proj1 (Forall_forall _ _) Hb16 z Hz). cbv beta in H. change 256%N with (Z.to_N 256). apply Z2N.inj_lt; lia.
  - unfold A. rewrite firstn_length. lia.
Qed.

Lemma names_frame : forall T i sm sm',
  (forall k, (forall x, k <> wmp P i ++ x) -> k <> "%mask" -> k <> "%nxt_iv" -> mget sm' k = mget sm k) -> (i < T)%nat ->
  sm_names_ok P T sm -> sm_names_ok P T sm'.
Proof.
  intros T i sm sm' Hfr Hi [N1 N2]. split.
  - intros n y Hn. rewrite Hfr; [apply N1; exact Hn| | |].
    + intros x E. unfold wmp in E. change (heap_name (wp_h P + 4 + i) ++ ".")%string with (RefineE2ENames.hobj (wp_h P + 4 + i)) in E.
      apply RefineE2ENames.hobj_inj in E. lia.
    + rewrite RefineE2ENames.hobj_app. discriminate.
    + rewrite RefineE2ENames.hobj_app. discriminate.
  - intros r. rewrite Hfr; [apply N2| | |].
    + intros x E. unfold wmp, heap_name in E. cbn [append] in E. discriminate E.
    + cbn [append]. discriminate.
    + cbn [append]. discriminate.
Qed.

Lemma srep_frame : forall T j y sm sm', (forall a, mget sm' (wmp P j ++ a) = mget sm (wmp P j ++ a)) -> sm_names_ok P T sm' ->
  w_srep P T j y sm -> w_srep P T j y sm'.
Proof.
  intros T j y sm sm' G HN (Hy1 & Hy2 & (wcj & Hy3 & Hy4) & Hy5 & _). unfold w_srep. rewrite !G.
  split; [exact Hy1|]. split; [exact Hy2|]. split; [exists wcj; split; assumption|]. split; [exact Hy5|exact HN].
Qed.

Local Instance LYW : Layout := wlayout P.

Lemma shared_eq : forall c T pad input0 d l p, shared_of (tst (sh_of c T pad input0 d) l p) = sh_of c T pad input0 d.
Proof. reflexivity. Qed.

Lemma w_stream_call : forall c T pad input0 d i B now K wl thr mx evs,
  (i < T)%nat -> (1 <= T <= 255)%nat -> (1 <= c)%nat -> (16 * Z.of_nat c < 2 ^ 32)%Z -> List.length (d_bufs d) = T ->
  (16 * now + 16 <= List.length (mb_cells B))%nat -> List.length (mb_cells B) = (16 * c)%nat -> Forall (fun z => 0 <= z < 256)%Z (mb_cells B) ->
  lget wl "mode" = Some (VPtr (mp i) 0) -> lget wl "block" = Some (VPtr (bpfx i ++ "b") (Z.of_nat (16 * now))) ->
  (exists x, srep T i x (d_sm d)) ->
  exists sm' cells' sevs N,
    leads (S i) N
      (RefineE2EfLay.mk (SCallVirt None "runcry/1" (Some (EVar "mode")) [EVar "block"]) K wl "" TRun)
      (C (sh_of c T pad input0 (dset d i B)) thr mx) evs
      (RefineE2EfLay.mk SSkip K wl "" TRun)
      (C (sh_of c T pad input0 (with_sm (dset d i (mb_with_cells cells' B)) sm')) thr mx) (evs ++ sevs)%list /\
    stream_post T i (d_sm d) (mb_cells B) (16 * now) sm' cells' sevs.
Proof.
  intros c T pad input0 d i B now K wl thr mx evs Hi HT Hc1 Hc Lb Hoff Hlen Hbytes Hmode Hblock [x Hx].
  change (mp i) with (wmp P i) in *. change (bpfx i) with (wbp P i) in *.
  set (cells := mb_cells B) in *. set (o := wbp P i ++ "b") in *. set (q := wmp P i) in *.
  destruct (byte_list_split cells (16 * now) Hoff Hbytes) as (Ecells & Bblk & LA).
  set (A := firstn (16 * now) cells) in *. set (blk := map Z.to_N (firstn 16 (skipn (16 * now) cells))) in *. set (Zt := skipn (16 * now + 16) cells) in *.
  set (r := (Z.of_nat now + 1)%Z).
  assert (HA : Z.of_nat (List.length A) = (16 * (r - 1))%Z) by (unfold r; lia).
  assert (Eoff : Z.of_nat (16 * now) = (16 * (r - 1))%Z) by (unfold r; lia).
  set (d0 := dset d i B).
  assert (Lb0 : List.length (d_bufs d0) = T) by (unfold d0, dset; cbn [with_bufs d_bufs]; rewrite set_nth_length; exact Lb).
  assert (NB : nth i (d_bufs d0) mb0 = B) by (unfold d0; apply nth_set_nth_eq; lia).
  rewrite Eoff in Hblock.
  set (l1 := [("block", VPtr o (16 * (r - 1))%Z)]).
  set (s0 := tst (sh_of c T pad input0 d0) l1 q).
  (* the stream object *)
  destruct Hx as (Hiv & Biv & (wc & Hw & Hlw) & Hkk & HN).
  assert (Hrep : mode_rep_q ks q x (mem s0)).
  { unfold mode_rep_q, s0. cbn [mem tst sh_of]. change (mem_of c T pad d0) with (w_mem_of P c T pad d0).
    split; [apply (w_tabs_ok P OK)|]. unfold q. rewrite !(mget_sm P OK). unfold d0. cbn [dset with_bufs d_sm].
    split; [exact Hiv|]. split; [exact Biv|]. split; [exists wc; split; assumption|exact Hkk]. }
  assert (Ho : mget (mem s0) o = Some (bobj (A ++ map Z.of_N blk ++ Zt)%list)).
  { unfold s0. cbn [mem tst sh_of]. change (mem_of c T pad d0) with (w_mem_of P c T pad d0). unfold o.
    rewrite (w_mget_b P OK) by exact Hi. rewrite NB. fold cells. rewrite Ecells at 1. reflexivity. }
  destruct (runcry_win_all ks (wo_ks_len P OK) (wo_ks_blocks P OK) q o (mp_not_tab i) (fun x0 => mp_not_bp i i x0 "b")
              (mp_not_loc i) (bp_not_tab i "b") (bp_not_loc i "b") kind s0 300 x blk A Zt r ltac:(lia) Hrep HA Ho Bblk)
    as (m' & Hcall & Hrep' & Hblk' & Hchain & Hout).
  (* the memory after the call *)
  unfold s0 in Hchain. cbn [mem tst sh_of] in Hchain. change (mem_of c T pad d0) with (w_mem_of P c T pad d0) in Hchain.
  destruct (chain_mem c T pad d0 i m' Hi Lb0 Hchain) as (cells' & sm' & Em & Hfr).
  rewrite NB in Em.
  assert (HN' : sm_names_ok P T sm') by (apply (names_frame T i (d_sm d) sm' Hfr Hi HN)).
  assert (Ed' : dset d0 i (mb_with_cells cells' B) = dset d i (mb_with_cells cells' B)).
  { unfold d0, dset. cbn [with_bufs d_bufs d_turn d_over d_live d_sm d_pos d_eof d_out]. rewrite set_nth_set_nth. reflexivity. }
  rewrite Ed' in Em. set (d' := with_sm (dset d i (mb_with_cells cells' B)) sm') in *.
  assert (Lb' : List.length (d_bufs d') = T) by (unfold d', dset; cbn [with_sm with_bufs d_bufs]; rewrite set_nth_length; exact Lb).
  assert (Ec' : cells' = (A ++ map Z.of_N (snd (runcry (aes_enc_with ks) (aes_dec_with ks) kind x blk)) ++ Zt)%list).
  { rewrite Em in Hblk'. unfold o in Hblk'. rewrite (w_mget_b P OK) in Hblk' by exact Hi. unfold d', dset in Hblk'.
    cbn [with_sm with_bufs d_bufs] in Hblk'. rewrite nth_set_nth_eq in Hblk' by lia. cbn [mb_with_cells mb_cells] in Hblk'.
    injection Hblk' as E. exact E. }
  (* the big step as machine steps *)
  destruct (call_inv _ _ _ _ _ _ _ _ _ _ l1 Hcall (runcry_lget kind) ltac:(rewrite runcry_params; reflexivity)) as (o1 & s1 & Eex & _ & Es1).
  pose proof (straight_normal aes_prog [] _ _ _ _ _ (runcry_straight kind) Eex) as ->.
  unfold with_mem in Es1. injection Es1 as Emem Efiles Eptrs Efresh.
  pose proof (exec_prog_sub aes_prog whole_prog [] aes_in_whole _ _ _ _ Eex) as Eexw.
  destruct (RefineSeq.sim whole_prog [] _ _ _ _ _ _ (runcry_wf kind) Eexw (KCall None wl "" K) TRun ltac:(discriminate)) as [n1 MS].
  cbn [loc pre mem files ptrs fresh s0 tst] in MS.
  exists sm', cells', [], (S n1). split.
  - intros Bd R HR. rewrite app_nil_r in HR.
    eapply r_none; [discriminate | right; reflexivity | | ].
    + eapply m_callvirt with (vs := [VPtr o (16 * (r - 1))%Z]) (pfx := q) (cls := cls_of kind) (f := runcry_fn kind) (l' := l1).
      * cbn [eval_list eval tst loc]. rewrite Hblock. reflexivity.
      * unfold this_prefix. cbn [eval tst loc]. rewrite Hmode. reflexivity.
      * cbn [ptrs sh_of]. apply (w_lget_class_mode P OK). exact Hi.
      * apply aes_in_whole. apply runcry_lget.
      * rewrite runcry_params. reflexivity.
    + apply (@leads_mstar LYW (S i) _ _ _ _ _ thr mx evs MS Bd R).
      replace (shared_of s1) with (sh_of c T pad input0 d'); [exact HR|].
      unfold shared_of. rewrite <- Emem, <- Efiles, <- Eptrs, <- Efresh, Em. reflexivity.
  - (* the relation to the model *)
    assert (Lout : List.length (snd (runcry (aes_enc_with ks) (aes_dec_with ks) kind x blk)) = 16%nat) by (apply AesProofs.block16_length; exact Hout).
    split; [|split; [|split]].
    + rewrite Ec'. fold cells. transitivity (List.length (A ++ map Z.of_N blk ++ Zt)%list); [|f_equal; symmetry; exact Ecells].
      rewrite !app_length, !map_length, Lout. rewrite (AesProofs.block16_length _ Bblk). reflexivity.
    + rewrite Ec'. rewrite Ecells in Hbytes. apply Forall_app in Hbytes. destruct Hbytes as [HbA HbR]. apply Forall_app in HbR. destruct HbR as [_ HbZ].
      apply Forall_app. split; [exact HbA|]. apply Forall_app. split; [|exact HbZ].
      apply Forall_forall. intros z Hz. apply in_map_iff in Hz. destruct Hz as (y & <- & Hy).
      destruct Hout as [_ Hby]. unfold bytesb in Hby. rewrite forallb_forall in Hby. specialize (Hby y Hy). unfold byte_ok in Hby.
      apply N.ltb_lt in Hby. lia.
    + intros j Nj [y Hy]. exists y. change (w_srep P T j y sm'). change (w_srep P T j y (d_sm d)) in Hy.
      apply (srep_frame T j y (d_sm d) sm'); [|exact HN'|exact Hy].
      intros a. rewrite Hfr; [reflexivity| | |].
      * intros x0 E. apply Nj. apply (mp_inj j i a x0 E).
      * intros E. pose proof (hnum_mp P j a) as Hh. rewrite E in Hh. discriminate Hh.
      * intros E. pose proof (hnum_mp P j a) as Hh. rewrite E in Hh. discriminate Hh.
    + intros x0 Hx0. change (w_srep P T i x0 (d_sm d)) in Hx0. destruct Hx0 as (Hiv0 & _). assert (x0 = x) by (apply bytes_object_inj; congruence). subst x0. cbv zeta. fold cells. fold blk.
      split; [|split; [|split]].
      * destruct Hrep' as (_ & R1 & R2 & (wc' & R3 & R4) & R5). rewrite Em in R1, R3, R5. unfold q in R1, R3, R5. rewrite !(mget_sm P OK) in R1, R3, R5.
        unfold d' in R1, R3, R5. cbn [with_sm d_sm] in R1, R3, R5.
        change (w_srep P T i (fst (runcry (aes_enc_with ks) (aes_dec_with ks) kind x blk)) sm').
        split; [exact R1|]. split; [exact R2|]. split; [exists wc'; split; assumption|]. split; [exact R5|exact HN'].
      * exact Ec'.
      * reflexivity.
      * intros j y Nj Hy. change (w_srep P T j y sm'). change (w_srep P T j y (d_sm d)) in Hy.
        apply (srep_frame T j y (d_sm d) sm'); [|exact HN'|exact Hy].
        intros a. rewrite Hfr; [reflexivity| | |].
        -- intros x1 E. apply Nj. apply (mp_inj j i a x1 E).
        -- intros E. pose proof (hnum_mp P j a) as Hh. rewrite E in Hh. discriminate Hh.
        -- intros E. pose proof (hnum_mp P j a) as Hh. rewrite E in Hh. discriminate Hh.
Qed.
End WS.
