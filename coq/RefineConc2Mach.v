(* Machine side of the converse direction: (1) the last step of the main thread -- from the state of PipeConc's I_Done the
   translated op_pipe still runs buffergroup::del_instance (lock mtx; delete; unlock) and returns: one more step of thread 0
   that PipeConc does not have; it changes neither the files nor the worker threads; (2) after it every schedule entry is refused. *)
From Coq Require Import ZArith NArith List String Bool Lia Arith.
From Wencry Require Import Bytes FileModel PipeConc PipeLemmas MiniC MiniCLemmas MiniCConc SrcRun SrcRun4 RefineSeqDefs RefineSeqA RefineSeqB.
From Wencry Require Import RefineConcSim RefineConcMem RefineConcMach RefineConcTac RefineConcStepW RefineConcStepI.
From Wencry.Gen Require Src_conc.
Import ListNotations.
Local Open Scope string_scope.
Local Open Scope list_scope.

Section Fin.
Variables (c T : nat) (pad : bool) (input0 : list N).
Notation cst := (cstate_md c T pad input0).
Notation sho := (sh_of c T pad input0).

(* the shared state after del_instance: instance = NULL *)
Definition sh_fin (d : mdata) : state :=
  {| mem := mem_of c T pad d; loc := []; pre := ""; files := files_of input0 d;
     ptrs := lset (ptrs_of T) "instance" VNull; fresh := 3 |}.
Definition t_fin : cthread := RefineConcSim.mk SSkip KStop main_locs "" TDone.
Definition cs_fin (ws : list wpc) (d : mdata) (g : tghost) : cstate :=
  {| cs_sh := sh_fin d; cs_thr := set_nth_t 0 t_fin (threads_of T pad I_Done ws (d_turn d) g); cs_mx := [] |}.

Lemma M_io_done : forall ws d g,
  exists n, (n <= 40)%nat /\ cstep prog vt n (cst I_Done ws d g) 0 = Ok (cs_fin ws d g, [(14, 0, 0)]%Z).
Proof.
  intros ws d g.
  start_io 40.
  mstep. mstep. mstep. mstep.
  eapply r_none; [discriminate | fo | eapply m_atomic; [reflexivity | cbn [exec]; evs; rewrite lget_instance; cbn [bind]; reflexivity] | cbn [cont_conf next_of]; evs].
  change (shared_of (tst (sho d) [] "")) with (sho d).
  eapply r_none; [discriminate | fo | eapply m_atomic; [reflexivity | cbn [exec]; evs; reflexivity] | cbn [cont_conf next_of]; evs].
  change (shared_of (with_ptrs (tst (sho d) [] "") (lset (ptrs_of T) "instance" VNull))) with (sh_fin d).
  change (loc (with_ptrs (tst (sho d) [] "") (lset (ptrs_of T) "instance" VNull))) with (@nil (string * value)).
  eapply r_unlock; [discriminate | fo | eapply m_unlock; reflexivity | cbn [cont_conf next_of mx_release]; rewrite ?String.eqb_refl].
  mstep.
  eapply r_done; [reflexivity|]. reflexivity.
Qed.

Lemma cs_fin_output : forall p ws d g, conc_output (cs_fin ws d g) = conc_output (cst p ws d g).
Proof. reflexivity. Qed.
Lemma cs_fin_all_done : forall p ws d g, all_done (cs_fin ws d g) = all_done (cst p ws d g).
Proof. reflexivity. Qed.
Lemma cs_fin_main_done : forall ws d g, thread_done (cs_fin ws d g) 0 = true.
Proof. reflexivity. Qed.
Lemma cst_main_not_done : forall p ws d g, thread_done (cst p ws d g) 0 = false.
Proof. intros. unfold thread_done, nth_thread. cbn [cstate_md cs_thr]. rewrite nth_thread_io. destruct p; reflexivity. Qed.

Lemma cs_fin_threads_done : forall ws d g j t, (forall i, (i < T)%nat -> nth i ws W_Done = W_Done) ->
  nth_error (cs_thr (cs_fin ws d g)) j = Some t -> ct_st t = TDone.
Proof.
  intros ws d g j t Hws H. unfold cs_fin, threads_of in H. cbn [cs_thr set_nth_t] in H.
  destruct j as [|j]; cbn [nth_error] in H.
  - injection H as <-. reflexivity.
  - assert (Hj : (j < T)%nat).
    { assert (L : (j < List.length (map (fun i => worker_thread i (nth i ws W_Done) (nth i (g_wl g) [])) (seq 0 T)))%nat)
        by (apply nth_error_Some; congruence).
      rewrite map_length, seq_length in L. exact L. }
    rewrite nth_error_map_seq in H by exact Hj. injection H as <-. cbn [Nat.add]. rewrite Hws by exact Hj. reflexivity.
Qed.

(* after the last step of the main thread every schedule entry is refused *)
Lemma cs_fin_refuses : forall F ws d g tid, (forall i, (i < T)%nat -> nth i ws W_Done = W_Done) ->
  exists w, cstep prog vt F (cs_fin ws d g) tid = UB w.
Proof.
  intros F ws d g tid Hws. unfold cstep.
  destruct (tid <? List.length (cs_thr (cs_fin ws d g)))%nat eqn:E.
  - unfold enabled. destruct (nth_thread (cs_fin ws d g) tid) as [t|] eqn:Et.
    + unfold nth_thread in Et. rewrite (cs_fin_threads_done ws d g tid t Hws Et). cbn [negb]. eexists; reflexivity.
    + cbn [negb]. eexists; reflexivity.
  - destruct (nth_thread (cs_fin ws d g) (tid - List.length (cs_thr (cs_fin ws d g)))) as [t|] eqn:Et.
    + unfold nth_thread in Et. rewrite (cs_fin_threads_done ws d g _ t Hws Et). eexists; reflexivity.
    + eexists; reflexivity.
Qed.
End Fin.

(* ---- generic refusals of the scheduler ---- *)
Lemma cstep_not_enabled : forall F cs tid, (tid < List.length (cs_thr cs))%nat -> enabled cs tid = false ->
  cstep prog vt F cs tid = UB "thread not enabled".
Proof. intros F cs tid L E. unfold cstep. apply Nat.ltb_lt in L. rewrite L, E. reflexivity. Qed.

Lemma cstep_spurious_refused : forall F cs tid, (List.length (cs_thr cs) <= tid)%nat ->
  match nth_thread cs (tid - List.length (cs_thr cs)) with
  | Some t => match ct_st t with TSleep _ _ => False | _ => True end
  | None => True
  end -> exists w, cstep prog vt F cs tid = UB w.
Proof.
  intros F cs tid L H. unfold cstep. apply Nat.ltb_ge in L. rewrite L.
  destruct (nth_thread cs (tid - List.length (cs_thr cs))) as [t|]; [|eexists; reflexivity].
  destruct (ct_st t); try (eexists; reflexivity). contradiction.
Qed.

Lemma crun_length : forall F sched cs cs' l, crun prog vt F cs sched = Ok (cs', l) -> List.length l = List.length sched.
Proof.
  intros F. induction sched as [|tid r IH]; intros cs cs' l H; cbn [crun] in H.
  - injection H as _ <-. reflexivity.
  - destruct (cstep prog vt F cs tid) as [[cs1 evs]| |]; try discriminate H. cbn [bind] in H.
    destruct (crun prog vt F cs1 r) as [[cs2 l2]| |] eqn:E; try discriminate H. cbn [bind] in H. injection H as _ <-.
    cbn [List.length]. f_equal. eapply IH. exact E.
Qed.
