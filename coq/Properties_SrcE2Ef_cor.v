(* What the end-to-end theorem for encryption gives when composed with the theorems about the hand model: the file the TRANSLATED
   runcrypt::execute_encrypt writes - under the thread machine, for any scheduler seed - IS the documented .wenc format (the independent
   executable specification FileSpec.wenc_spec, written from FIPS-197 / SP 800-38A / FIPS 180-4 / RFC 2104 and the format description)
   with the documented length (C02 for the source), and the model's decryption of that file restores the plaintext while verification
   accepts it (the encrypting half of C01 for the source). *)
From Coq Require Import ZArith NArith List String Bool.
From Wencry Require Import Bytes HashModel FileModel FileSpec FileProps MiniC MiniCRun MiniCConc SrcRun SrcRun2 SrcRun5 RefineE2EfCor.
Import ListNotations.
Local Open Scope N_scope.

Theorem SRC_encrypted_file_is_documented_format : forall c hbuf T P key seed cm hm rnd,
  enc_params c hbuf T P key seed cm hm ->
  forallb (fun b => (0 <? b) && (b <? 256)) seed = true ->
  N.of_nat (length seed) < 2 ^ 32 ->
  N.of_nat (16 * c) < 2 ^ 32 -> N.of_nat (64 * hbuf) < 2 ^ 32 ->
  match src_encrypt_file c hbuf T cm hm P key seed rnd with
  | SOk (b, o, i, _) => b = true /\ wenc_spec c T P key cm hm seed = Some o /\ length o = wenc_length T (length P) /\ i = P
  | SErr w => w = "out of fuel"%string \/ w = "step bound reached"%string
  end.
Proof. exact SRC_encrypted_file_is_documented_format_proof. Qed.
Print Assumptions SRC_encrypted_file_is_documented_format.

Theorem SRC_encrypted_file_decrypts_to_the_plaintext : forall c hbuf T P key seed cm hm rnd,
  enc_params c hbuf T P key seed cm hm ->
  forallb (fun b => (0 <? b) && (b <? 256)) seed = true ->
  N.of_nat (length seed) < 2 ^ 32 ->
  N.of_nat (16 * c) < 2 ^ 32 -> N.of_nat (64 * hbuf) < 2 ^ 32 ->
  match src_encrypt_file c hbuf T cm hm P key seed rnd with
  | SOk (b, o, i, _) => b = true /\ dec c hbuf T o key = FileModel.Ok P /\ ver hbuf o key = FileModel.Ok true
  | SErr w => w = "out of fuel"%string \/ w = "step bound reached"%string
  end.
Proof. exact SRC_encrypted_file_decrypts_to_the_plaintext_proof. Qed.
Print Assumptions SRC_encrypted_file_decrypts_to_the_plaintext.

(* C12 for the source: verify and decrypt AS TRANSLATED, each on the thread machine under its own scheduler seed, return the same verdict
   on every byte string and key (whenever both runs fit their step budgets); verification writes nothing; both leave the input as it was;
   a rejected file is not decrypted, not even partly; an accepted one is decrypted to exactly what the model's dec computes. *)
Theorem SRC_verdicts_coincide : forall c hbuf T F key rnd rnd',
  (1 <= c)%nat -> (1 <= hbuf)%nat -> N.of_nat (16 * c) < 2 ^ 32 -> N.of_nat (64 * hbuf) < 2 ^ 32 -> (1 <= T <= 16)%nat ->
  block16 key -> bytesb F = true -> N.of_nat (length F) < 2 ^ 36 ->
  match src_verify_file c hbuf T F key rnd, src_decrypt_file c hbuf T F key rnd' with
  | SOk (bv, ov, iv, _), SOk (bd, od, id, _) =>
      bv = bd /\ ov = [] /\ iv = F /\ id = F /\ (bd = false -> od = []) /\ (bd = true -> dec c hbuf T F key = FileModel.Ok od)
  | _, _ => True
  end.
Proof. exact SRC_verdicts_coincide_proof. Qed.
Print Assumptions SRC_verdicts_coincide.
