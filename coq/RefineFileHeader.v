(* FileHeader::getIV(r_buf, iv), FileHeader::getFileHeader(iv) (fheader.cpp) and runcrypt::prepare_IV(r_buf) (cry.cpp):
   SRC_header: the bytes written to the output are FileModel.file_header with the chained SHA-1 IVs. *)
From Coq Require Import ZArith NArith List String Bool Lia PeanoNat.
From Wencry Require Import Bytes HashModel HashProofs HmacProofs FileModel MiniC MiniCRun MiniCLemmas SrcRun SrcRun2 RefineHashDefs RefineHashDriver
     RefineSha256 RefineSha1 RefineMd5 RefineHash RefineFileBase RefineFileHmac RefineFileHmac2 RefineFileHmac3 RefineFileVerify RefineFileVerifyCall RefineFileVerify2.
From Wencry.Gen Require Layout Src_sha256 Src_sha1 Src_md5 Src_hashmaster Src_hashbuffer Src_hashfactory Src_fheader Src_cry.
Import ListNotations.
Local Open Scope list_scope.
Local Open Scope string_scope.
Local Open Scope Z_scope.

(* ------------------------------------------------------------------------------------ *)
(** * 1. The chain of hashes                                                             *)
(* ------------------------------------------------------------------------------------ *)
Definition sha1s (m : list N) : list N := getStringHash alg_sha1 m.
Fixpoint hj (seed : list N) (j : nat) : list N :=
  match j with O => sha1s seed | S j' => sha1s (hj seed j') end.
Fixpoint chain (seed : list N) (n : nat) : list N :=
  match n with O => [] | S n' => (chain seed n' ++ hj seed n')%list end.

Lemma sha1s_len : forall m, List.length (sha1s m) = 20%nat.
Proof. intro m. apply (proj1 (getStringHash_length 0%N alg_sha1 m eq_refl)). Qed.
Lemma hj_len : forall seed j, List.length (hj seed j) = 20%nat.
Proof. intros seed [|j]; apply sha1s_len. Qed.
Lemma chain_len : forall seed n, List.length (chain seed n) = (20 * n)%nat.
Proof. induction n as [|n IH]; [reflexivity|]. cbn [chain]. rewrite app_length, IH, hj_len. lia. Qed.

Lemma iv_chain_from_hj : forall seed n j, iv_chain_from (hj seed j) n = concat (map (hj seed) (seq (S j) n)).
Proof.
  induction n as [|n IH]; intro j; [reflexivity|]. cbn [iv_chain_from seq map concat]. cbv zeta.
  change (getStringHash alg_sha1 (hj seed j)) with (hj seed (S j)). rewrite (IH (S j)). reflexivity.
Qed.
Lemma chain_concat : forall seed n, chain seed n = concat (map (hj seed) (seq 0 n)).
Proof.
  induction n as [|n IH]; [reflexivity|]. cbn [chain]. rewrite IH. rewrite seq_S, map_app, concat_app. cbn [map concat Nat.add]. rewrite app_nil_r. reflexivity.
Qed.
Lemma iv_chain_chain : forall seed T, (1 <= T)%nat -> iv_chain seed T = chain seed T.
Proof.
  intros seed [|n] HT; [lia|]. cbn [iv_chain]. change (getStringHash alg_sha1 seed) with (hj seed 0).
  rewrite iv_chain_from_hj, chain_concat. reflexivity.
Qed.

Lemma sha1s_bytes : forall m, bytesb (sha1s m) = true.
Proof. intro m. unfold sha1s, getStringHash. apply out_bytes_be. Qed.
Lemma hj_bytes : forall seed j, bytesb (hj seed j) = true.
Proof. intros seed [|j]; apply sha1s_bytes. Qed.

(* an object whose cells changed only inside [off, off+n) *)
Lemma rebuild : forall (c c' : list Z) (off n : nat) (B : list Z),
  List.length c' = List.length c ->
  (forall i, (i < off \/ off + n <= i)%nat -> nth i c' 0 = nth i c 0) ->
  firstn n (skipn off c') = B -> List.length B = n -> (off + n <= List.length c)%nat ->
  c' = (firstn off c ++ B ++ skipn (off + n) c)%list.
Proof.
  intros c c' off n B Hl Hn HB HBl Hle.
  apply (nth_ext _ _ 0 0).
  - rewrite !app_length, firstn_length, skipn_length, HBl. lia.
  - intros i Hi.
    destruct (Nat.lt_ge_cases i off) as [H1|H1].
    + rewrite app_nth1 by (rewrite firstn_length; lia). rewrite Hn by lia.
      rewrite <- (firstn_skipn off c) at 1. rewrite app_nth1 by (rewrite firstn_length; lia). reflexivity.
    + rewrite app_nth2 by (rewrite firstn_length; lia). rewrite firstn_length, Nat.min_l by lia.
      destruct (Nat.lt_ge_cases i (off + n)) as [H2|H2].
      * rewrite app_nth1 by lia. rewrite <- HB.
        rewrite <- (firstn_skipn off c') at 1. rewrite app_nth2 by (rewrite firstn_length; lia). rewrite firstn_length, Nat.min_l by lia.
        rewrite <- (firstn_skipn n (skipn off c')) at 1. rewrite app_nth1 by (rewrite firstn_length, skipn_length; lia). reflexivity.
      * rewrite app_nth2 by lia. rewrite HBl. rewrite Hn by lia.
        rewrite <- (firstn_skipn (off + n) c) at 1. rewrite app_nth2 by (rewrite firstn_length; lia). rewrite firstn_length, Nat.min_l by lia.
        f_equal. lia.
Qed.

(* ------------------------------------------------------------------------------------ *)
(** * 2. One getStringHash call on the iv array                                          *)
(* ------------------------------------------------------------------------------------ *)
Definition ivobj (seed : list N) (n : nat) : object :=
  {| o_ty := U8; o_cells := (map Z.of_N (chain seed n) ++ repeat 0 (320 - 20 * n))%list |}.

Lemma bytes_at_cells : forall m o c (off : nat) bs,
  mget m o = Some {| o_ty := U8; o_cells := c |} -> firstn (List.length bs) (skipn off c) = map Z.of_N bs ->
  (off + List.length bs <= List.length c)%nat -> bytes_at m o (Z.of_nat off) bs.
Proof.
  intros m o c off bs Hm Hc Hl. exists {| o_ty := U8; o_cells := c |}. split; [exact Hm|]. split; [reflexivity|]. split; [lia|].
  cbn [o_cells]. rewrite Nat2Z.id. auto.
Qed.

Lemma skipn_app_exact : forall (A : Type) (a b : list A) n, List.length a = n -> skipn n (a ++ b) = b.
Proof. intros A a b n <-. rewrite skipn_app, skipn_all, Nat.sub_diag. reflexivity. Qed.
Lemma firstn_app_exact : forall (A : Type) (a b : list A) n, List.length a = n -> firstn n (a ++ b) = a.
Proof. intros A a b n <-. rewrite firstn_app, firstn_all, Nat.sub_diag. cbn [firstn]. apply app_nil_r. Qed.
Lemma firstn_repeat : forall (x : Z) k n, (k <= n)%nat -> firstn k (repeat x n) = repeat x k.
Proof. induction k as [|k IH]; intros [|n] Hk; cbn [firstn repeat]; try lia; [reflexivity|reflexivity|]. rewrite IH by lia. reflexivity. Qed.

Section IvStep.
Variable vt : list (string * string).
Hypothesis Hvt : lget vt "" = Some "sha1hash".
Let F := F_sha1hash.
Let hok := hasher_ok alg_sha1 Src_sha1.objects_sha1hash Src_sha1.globals.
Let Hspec := sha1hash_class_spec vt Hvt.

(* output into the iv array at slot n (bytes 20n .. 20n+19), input msg given by bytes_at *)
Lemma iv_hash : forall fuel M st l p fs ps fr seed n ivn j o off msg,
  (F + List.length msg / 64 + 10 <= fuel)%nat -> (n < 16)%nat -> ivn = heap_name j -> (j < fr)%nat ->
  hok st M -> mget M ivn = Some (ivobj seed n) ->
  (hash_owned o = false \/ o = ivn) -> bytes_at M o off msg -> bytesb msg = true -> Z.of_nat (List.length msg) < 2 ^ 32 ->
  exists M' st' fr',
    call file_prog vt fuel "Hashmaster::getStringHash/3" "" [VPtr o off; VInt (Z.of_nat (List.length msg)); VPtr ivn (Z.of_nat (20 * n))] (St M l p fs ps fr)
      = Ok (None, St M' l p fs ps fr') /\
    hok st' M' /\
    mget M' ivn = Some {| o_ty := U8; o_cells := (map Z.of_N (chain seed n) ++ map Z.of_N (sha1s msg) ++ repeat 0 (320 - 20 * S n))%list |} /\
    (forall k, hash_owned k = false -> mget M' k = mget M k) /\ (fr <= fr')%nat.
Proof.
  intros fuel M st l p fs ps fr seed n ivn j o off msg Hfuel Hn Hivn Hj Hok Hiv Ho Hmsg Hmb Hml.
  set (sc := St M [] "" fs ps fr).
  assert (Hpiv : passable sc ivn) by (right; exists j; auto).
  assert (Hold : bytes_at M ivn (Z.of_nat (20 * n)) (repeat 0%N 20)).
  { apply (bytes_at_cells M ivn _ (20 * n) (repeat 0%N 20) Hiv).
    - rewrite repeat_length. rewrite skipn_app_exact by (rewrite map_length; apply chain_len).
      rewrite firstn_repeat by lia. symmetry. apply (map_of_N_zeros 20).
    - rewrite repeat_length, app_length, map_length, chain_len, repeat_length. lia. }
  destruct (getStringHash_refines "sha1hash" alg_sha1 _ _ vt F Hspec sc st fuel o off msg ivn (Z.of_nat (20 * n)) (repeat 0%N 20))
    as (s' & stf & Ec & _ & Hokf & Hby & Hoth & _ & Hkept & Hio); try assumption; try reflexivity.
  { lia. }
  { destruct Ho as [Ho| ->]; [left; exact Ho|exact Hpiv]. }
  apply call_file_prog in Ec.
  apply (call_any_caller file_prog vt fuel "Hashmaster::getStringHash/3" "" _ M l p fs ps fr None s') in Ec.
  destruct Hio as (_ & _ & Hf & Hp & Hfr). cbn [sc files ptrs fresh] in Hf, Hp, Hfr.
  exists (mem s'), stf, (fresh s'). rewrite Ec, Hf, Hp. split; [reflexivity|]. split; [exact Hokf|]. split; [|split; [|exact Hfr]].
  - destruct Hby as (ob' & Hg' & Hty' & _ & Hc' & Hl'). destruct ob' as [ty' c']. cbn [o_ty o_cells] in Hty', Hc', Hl'. subst ty'.
    rewrite Nat2Z.id in Hc', Hl'. rewrite sha1s_len in Hc', Hl'. fold (sha1s msg) in Hc'.
    destruct (Hkept _ _ Hiv Hg') as (_ & Hlen' & Hnth'). cbn [o_cells ivobj] in Hlen', Hnth'. rewrite Nat2Z.id in Hnth'.
    rewrite Hg'. do 2 f_equal.
    set (c := (map Z.of_N (chain seed n) ++ repeat 0 (320 - 20 * n))%list) in *.
    assert (Hcl : List.length c = 320%nat) by (unfold c; rewrite app_length, map_length, chain_len, repeat_length; lia).
    rewrite (rebuild c c' (20 * n) 20 (map Z.of_N (sha1s msg)) Hlen' Hnth' Hc') by (first [rewrite map_length; apply sha1s_len|lia]).
    unfold c. rewrite firstn_app_exact by (rewrite map_length; apply chain_len). f_equal. f_equal.
    replace (20 * n + 20)%nat with (20 * n + 20)%nat by reflexivity.
    rewrite skipn_app, map_length, chain_len. rewrite skipn_all2 by (rewrite map_length, chain_len; lia). cbn [app].
    replace (20 * n + 20 - 20 * n)%nat with 20%nat by lia.
    replace (320 - 20 * n)%nat with (20 + (320 - 20 * S n))%nat by lia. apply skipn_repeat.
  - intros k Hk. apply Hoth; [exact Hk|]. intro E. subst k. rewrite Hivn, hash_owned_heap in Hk. discriminate.
Qed.
End IvStep.

(* ------------------------------------------------------------------------------------ *)
(** * 3. strlen, FileHeader::getIV(r_buf, iv)                                            *)
(* ------------------------------------------------------------------------------------ *)
Definition seed_ok (seed : list N) : Prop := forallb (fun b => (0 <? b)%N && (b <? 256)%N) seed = true.
Lemma seed_bytes : forall seed, seed_ok seed -> bytesb seed = true.
Proof.
  unfold seed_ok, bytesb. induction seed as [|x r IH]; cbn [forallb]; intro H; [reflexivity|].
  apply andb_true_iff in H. destruct H as [Hx Hr]. apply andb_true_iff in Hx. destruct Hx as [_ Hx].
  rewrite (IH Hr). unfold byte_ok. rewrite Hx. reflexivity.
Qed.
Lemma strlen_seed : forall seed rest fuel, seed_ok seed -> (List.length seed <= fuel)%nat ->
  strlen_from fuel (map Z.of_N seed ++ 0 :: rest) = Some (List.length seed).
Proof.
  unfold seed_ok. induction seed as [|x r IH]; intros rest fuel H Hf; cbn [map app List.length forallb] in *.
  - destruct fuel; reflexivity.
  - apply andb_true_iff in H. destruct H as [Hx Hr]. apply andb_true_iff in Hx. destruct Hx as [Hx _]. apply N.ltb_lt in Hx.
    destruct fuel as [|fuel]; [lia|]. cbn [strlen_from].
    destruct (Z.eqb_spec (Z.of_N x) 0) as [E|_]; [lia|].
    rewrite IH by (first [exact Hr|lia]). reflexivity.
Qed.

Lemma strlen_prim : forall s o seed, mget (mem s) o = Some (bytes_object (seed ++ [0%N])) -> seed_ok seed ->
  do_prim s "strlen" [VPtr o 0] = Ok (Some (VInt (Z.of_nat (List.length seed))), s).
Proof.
  intros s o seed Hm Hs. unfold do_prim.
  change (String.eqb "strlen" "fread") with false. change (String.eqb "strlen" "feof") with false. change (String.eqb "strlen" "fgetc") with false.
  change (String.eqb "strlen" "ungetc") with false. change (String.eqb "strlen" "fwrite") with false. change (String.eqb "strlen" "isalnum") with false.
  change (String.eqb "strlen" "fseek") with false. change (String.eqb "strlen" "strlen") with true. cbv iota.
  rewrite Hm. unfold bytes_object. cbn [o_ty o_cells]. change (negb (ity_bytes U8 =? 1)) with false. change (0 <? 0) with false.
  cbn [orb]. destruct (Z.of_nat (List.length (map Z.of_N (seed ++ [0%N]))) <? 0) eqn:E; [apply Z.ltb_lt in E; lia|].
  change (Z.to_nat 0) with 0%nat. change (skipn 0 (map Z.of_N (seed ++ [0%N]))) with (map Z.of_N (seed ++ [0%N])).
  rewrite map_app. cbn [map]. rewrite strlen_seed; [reflexivity|exact Hs|]. rewrite app_length, map_length. cbn. lia.
Qed.

Section GetIV.
Variable vt : list (string * string).
Hypothesis Hvt : lget vt "" = Some "sha1hash".
Let F := F_sha1hash.
Let hok := hasher_ok alg_sha1 Src_sha1.objects_sha1hash Src_sha1.globals.

Lemma getIV_call : forall fuel M l p fs ps fr seed T ivn j,
  (F + List.length seed / 64 + 200 <= fuel)%nat -> (1 <= T <= 16)%nat -> seed_ok seed -> Z.of_nat (List.length seed) < 2 ^ 32 ->
  ivn = heap_name j -> (j < fr)%nat ->
  mget M ivn = Some (ivobj seed 0) -> mget M "seed" = Some (bytes_object (seed ++ [0%N])) -> mget M "rc.header.num" = Some (u8cell (Z.of_nat T)) ->
  lget ps "alloc:sha1hash" = Some (VPtr "" 0) -> no_sizeof M -> (forall name, In name five -> mget M name = None) ->
  exists M' fr',
    call file_prog vt fuel "FileHeader::getIV/2@u8_t" "rc.header." [VPtr "seed" 0; VPtr ivn 0] (St M l p fs ps fr)
      = Ok (None, St M' l p fs (lset ps (class_key "") (VPtr "sha1hash" 0)) fr') /\
    mget M' ivn = Some (ivobj seed T) /\ (forall k, file_owned k = false -> mget M' k = mget M k) /\ (fr <= fr')%nat.
Proof.
  intros fuel M l p fs ps fr seed T ivn j Hfuel HT Hs Hsl Hivn Hj Hiv Hseed Hnum Hal Hsz Habs. fuel_S 30 fuel.
  unfold call. change (lget file_prog "FileHeader::getIV/2@u8_t") with (Some Src_fheader.f_FileHeader_getIV_2_u8_t).
  cbn [f_params f_body Src_fheader.f_FileHeader_getIV_2_u8_t bind_params bind mem loc pre files ptrs fresh].
  set (L0 := [("r_buf", VPtr "seed" 0); ("iv", VPtr ivn 0)]).
  (* hm = hf.getHasher(SHA1) *)
  rewrite exec_seq.
  cfuel ltac:(fun f =>
    destruct (fa_hasher _ _ _ _ _ _ _ (factory_sha1 vt F (sha1hash_class_spec vt Hvt)) f M L0 "rc.header." fs ps fr "rc.header.hf." ltac:(unfold F in *; lia) Hal Hsz)
      as (m1 & fr1 & Ec1 & Hok1 & Hfr1 & Hoth1);
    [ intros k o Hk; discriminate Hk
    | intros name t n Hin; apply Habs; apply (five_sha1 name t n Hin)
    | rewrite (x_scall file_prog vt f (Some "$t1") "HashFactory::getHasher/1" (Some (EField "hf.")) [EConst 0]
                 (St M L0 "rc.header." fs ps fr) [VInt 0] "rc.header.hf." _ _ _ eq_refl eq_refl Ec1 eq_refl); clear Ec1 ]).
  cbn [bind]. unfold with_loc. cbn [mem loc pre files ptrs fresh L0 lset String.eqb Ascii.eqb Bool.eqb].
  set (ps1 := lset ps (class_key "") (VPtr "sha1hash" 0)).
  assert (Hm1 : forall k, file_owned k = false -> mget m1 k = mget M k).
  { intros k Hk. apply Hoth1; [left; apply file_owned_hash_owned, Hk|]. intros name t n Hin E. subst k.
    apply five_sha1 in Hin. cbn [five In] in Hin. repeat (destruct Hin as [<-|Hin]; [discriminate Hk|]). destruct Hin. }
  assert (Hiv1 : mget m1 ivn = Some (ivobj seed 0)).
  { rewrite Hoth1; [exact Hiv|right; exists j; auto|]. intros name t n Hin E. apply five_sha1 in Hin. rewrite Hivn in E. subst name.
    cbn [five In] in Hin. repeat (destruct Hin as [Hin|Hin]; [discriminate Hin|]). destruct Hin. }
  rewrite exec_seq. rewrite exec_set. cbn [eval bind loc lget String.eqb Ascii.eqb Bool.eqb].
  unfold with_loc. cbn [mem loc pre files ptrs fresh lset String.eqb Ascii.eqb Bool.eqb].
  (* $t2 = strlen(r_buf) *)
  rewrite exec_seq. rewrite x_prim. cbn [eval_list eval bind loc lget String.eqb Ascii.eqb Bool.eqb].
  rewrite (strlen_prim _ "seed" seed) by (first [cbn [mem]; rewrite Hm1 by reflexivity; exact Hseed|exact Hs]).
  cbn [bind set_ret]. unfold with_loc. cbn [mem loc pre files ptrs fresh lset String.eqb Ascii.eqb Bool.eqb].
  (* hm->getStringHash(r_buf, strlen, iv) *)
  rewrite exec_seq.
  match goal with |- context [exec file_prog vt (S ?f) (SCall None "Hashmaster::getStringHash/3" ?th ?args) (St _ ?L _ _ _ _)] =>
    destruct (iv_hash vt Hvt f m1 (reset alg_sha1) L "rc.header." fs ps1 fr1 seed 0%nat ivn j "seed" 0 seed) as (m2 & st2 & fr2 & Ec2 & Hok2 & Hiv2 & Hoth2 & Hfr2);
    [ unfold F in *; lia | lia | exact Hivn | lia | exact Hok1 | exact Hiv1 | left; reflexivity
    | change 0 with (Z.of_nat 0) at 1; apply (bytes_at_cells m1 "seed" (map Z.of_N (seed ++ [0%N])) 0 seed);
      [rewrite Hm1 by reflexivity; exact Hseed | cbn [skipn]; rewrite map_app; apply firstn_app_exact, map_length | rewrite map_length, app_length; cbn; lia]
    | apply seed_bytes, Hs | exact Hsl
    | rewrite (x_scall file_prog vt f None "Hashmaster::getStringHash/3" th args (St m1 L "rc.header." fs ps1 fr1)
                 [VPtr "seed" 0; VInt (Z.of_nat (List.length seed)); VPtr ivn (Z.of_nat (20 * 0))] "" None _ _
                 ltac:(cbn [eval_list eval bind loc as_int lget String.eqb Ascii.eqb Bool.eqb]; rewrite wrap_U32_small by lia; reflexivity)
                 eq_refl Ec2 eq_refl); clear Ec2 ]
  end.
  cbn [bind].
  assert (Hiv2' : mget m2 ivn = Some (ivobj seed 1)).
  { rewrite Hiv2. unfold ivobj. cbn [chain map app]. reflexivity. }
  clear Hiv2.
  rewrite exec_seq. rewrite exec_set. cbn [eval bind]. unfold with_loc. cbn [mem loc pre files ptrs fresh].
  set (L := [("r_buf", VPtr "seed" 0); ("iv", VPtr ivn 0); ("$t1", VPtr "" 0); ("hm", VPtr "" 0); ("$t2", VInt (Z.of_nat (List.length seed)))]).
  assert (Hnum2 : forall Mq, (forall k, hash_owned k = false -> mget Mq k = mget m2 k) -> mget Mq "rc.header.num" = Some (u8cell (Z.of_nat T))).
  { intros Mq Hq. rewrite Hq by reflexivity. rewrite Hoth2 by reflexivity. rewrite Hm1 by reflexivity. exact Hnum. }
  pose (Inv := fun (q : nat) (s : state) => exists Mq stq frq,
      s = St Mq (lset L "i" (VInt (Z.of_nat (S q)))) "rc.header." fs ps1 frq /\ hok stq Mq /\ mget Mq ivn = Some (ivobj seed (S q)) /\
      (forall k, hash_owned k = false -> mget Mq k = mget m2 k) /\ (fr2 <= frq)%nat).
  rewrite exec_seq.
  match goal with |- context [exec file_prog vt ?f0 (SLoop ?c ?b ?st) ?s0] =>
    destruct (loop_inv file_prog vt c b st Inv (T - 1) (S (F + 13))) with (k := 0%nat) (s := s0) as (sL & EL & (ML & stL & frL & -> & HokL & HivL & HothL & HfrL))
  end.
  - (* one iteration *)
    intros q s Hq (Mq & stq & frq & -> & Hokq & Hivq & Hothq & Hfrq).
    exists 1. split; [|split; [lia|]].
    { cbn [eval bind as_int loc pre mem append]. rewrite lget_lset_same. cbn [bind as_int]. rewrite (Hnum2 Mq Hothq).
      unfold u8cell. rewrite load_u8 by (cbn; lia). cbn [bind as_int nth Z.to_nat eval_bin]. rewrite (wrap_U8_small (Z.of_nat T)) by lia.
      rewrite (wrap_I32_small (Z.of_nat T)) by lia. destruct (Z.ltb_spec (Z.of_nat (S q)) (Z.of_nat T)); [reflexivity|lia]. }
    destruct (iv_hash vt Hvt (F + 13) Mq stq (lset L "i" (VInt (Z.of_nat (S q)))) "rc.header." fs ps1 frq seed (S q) ivn j ivn (Z.of_nat (20 * q)) (hj seed q))
      as (Mq' & stq' & frq' & Ecq & Hokq' & Hivq' & Hothq' & Hfrq'); try assumption.
    { rewrite hj_len. cbn. unfold F. lia. }
    { lia. }
    { lia. }
    { right. reflexivity. }
    { apply (bytes_at_cells Mq ivn _ (20 * q) (hj seed q) Hivq).
      - rewrite hj_len. cbn [chain]. rewrite map_app, <- app_assoc. rewrite skipn_app_exact by (rewrite map_length; apply chain_len).
        apply firstn_app_exact. rewrite map_length. apply hj_len.
      - rewrite hj_len, app_length, map_length, chain_len, repeat_length. lia. }
    { apply hj_bytes. }
    { rewrite hj_len. cbn. lia. }
    eexists. eexists. split; [|split].
    + rewrite hj_len in Ecq.
      rewrite (x_scall file_prog vt (F + 13) None "Hashmaster::getStringHash/3" (Some (EVar "hm")) _ (St Mq (lset L "i" (VInt (Z.of_nat (S q)))) "rc.header." fs ps1 frq)
                 [VPtr ivn (Z.of_nat (20 * q)); VInt (Z.of_nat 20); VPtr ivn (Z.of_nat (20 * S q))] "" None
                 (St Mq' (lset L "i" (VInt (Z.of_nat (S q)))) "rc.header." fs ps1 frq') (St Mq' (lset L "i" (VInt (Z.of_nat (S q)))) "rc.header." fs ps1 frq'));
        [reflexivity| |reflexivity|exact Ecq|reflexivity].
      cbn [eval_list eval bind as_int loc]. rewrite lget_lset_same. rewrite lget_lset_other by discriminate.
      cbn [L lget String.eqb Ascii.eqb Bool.eqb bind as_int eval_bin].
      rewrite (arith_I32_small (Z.of_nat (S q) - 1)) by lia. cbn [bind as_int]. rewrite (arith_I32_small (20 * (Z.of_nat (S q) - 1))) by lia.
      rewrite (arith_I32_small (20 * Z.of_nat (S q))) by lia. cbn [bind as_int]. change (wrap U32 20) with (Z.of_nat 20).
      do 2 f_equal; [f_equal; lia|]. do 3 f_equal. lia.
    + rewrite exec_set. cbn [eval bind as_int loc]. rewrite lget_lset_same. cbn [bind as_int eval_bin].
      rewrite arith_I32_small by lia. cbn [bind]. unfold with_loc. cbn [mem loc pre files ptrs fresh]. rewrite lset_lset. reflexivity.
    + exists Mq', stq', frq'. split; [do 2 f_equal; f_equal; lia|]. split; [exact Hokq'|]. split; [|split; [|lia]].
      * rewrite Hivq'. unfold ivobj. cbn [chain]. rewrite !map_app, <- !app_assoc. reflexivity.
      * intros k Hk. rewrite Hothq' by exact Hk. apply Hothq, Hk.
  - (* exit *)
    intros s (Mq & stq & frq & -> & Hokq & Hivq & Hothq & Hfrq).
    cbn [eval bind as_int loc pre mem append]. rewrite lget_lset_same. cbn [bind as_int]. rewrite (Hnum2 Mq Hothq).
    unfold u8cell. rewrite load_u8 by (cbn; lia). cbn [bind as_int nth Z.to_nat eval_bin]. rewrite (wrap_U8_small (Z.of_nat T)) by lia.
    rewrite (wrap_I32_small (Z.of_nat T)) by lia. destruct (Z.ltb_spec (Z.of_nat (S (T - 1))) (Z.of_nat T)); [lia|reflexivity].
  - lia.
  - exists m2, st2, fr2. split; [reflexivity|]. split; [exact Hok2|]. split; [exact Hiv2'|]. split; [auto|lia].
  - rewrite (exec_mono _ _ _ _ _ _ EL) by (unfold F in *; lia). cbn [bind].
    rewrite x_delete. cbn [eval bind loc]. rewrite lget_lset_other by discriminate. cbn [L lget String.eqb Ascii.eqb Bool.eqb bind].
    exists ML, frL. split; [reflexivity|]. split; [|split; [|lia]].
    + rewrite HivL. do 2 f_equal. lia.
    + intros k Hk. rewrite HothL by (apply file_owned_hash_owned, Hk). rewrite Hoth2 by (apply file_owned_hash_owned, Hk). apply Hm1, Hk.
Qed.
End GetIV.

(* ------------------------------------------------------------------------------------ *)
(** * 4. fwrite on the output stream, FileHeader::getFileHeader(iv)                       *)
(* ------------------------------------------------------------------------------------ *)
Notation FSO fi d pos e := [("fin", fi); ("fout", {| cf_data := d; cf_pos := pos; cf_eof := e |})].

Lemma fwrite_bytes : forall M l p fi d pos e ps fr os offs n cells,
  mget M os = Some {| o_ty := U8; o_cells := cells |} -> 0 <= n -> 0 <= offs -> offs + n <= Z.of_nat (List.length cells) -> pos = List.length d ->
  let src := firstn (Z.to_nat n) (skipn (Z.to_nat offs) cells) in
  do_prim (St M l p (FSO fi d pos e) ps fr) "fwrite" [VPtr os offs; VInt 1; VInt n; VPtr "fout" 0] =
  Ok (Some (VInt n), St M l p (FSO fi (d ++ src) (pos + List.length src)%nat e) ps fr).
Proof.
  intros M l p fi d pos e ps fr os offs n cells Hm Hn Ho Hb Hp src. unfold do_prim.
  change (String.eqb "fwrite" "fread") with false. change (String.eqb "fwrite" "feof") with false. change (String.eqb "fwrite" "fgetc") with false.
  change (String.eqb "fwrite" "ungetc") with false. change (String.eqb "fwrite" "fwrite") with true. cbv iota.
  cbn [stream_of bind files mem lget String.eqb Ascii.eqb Bool.eqb]. rewrite Hm. cbn [o_ty o_cells cf_data cf_pos cf_eof].
  change (ity_bytes U8) with 1. rewrite !Z.mod_1_r, !Z.div_1_r. change (negb (0 =? 0)) with false. change (1 =? 1) with true. cbv iota.
  destruct (n <? 0) eqn:E1; [apply Z.ltb_lt in E1; lia|]. destruct (offs <? 0) eqn:E2; [apply Z.ltb_lt in E2; lia|]. cbn [orb].
  destruct (Z.of_nat (List.length cells) <? offs + n) eqn:E3; [apply Z.ltb_lt in E3; lia|].
  subst pos. rewrite Nat.eqb_refl. unfold with_files. cbn [mem loc pre files ptrs fresh lset String.eqb Ascii.eqb Bool.eqb]. reflexivity.
Qed.

Lemma fwrite_mn : forall M l p fi d pos e ps fr v, mget M "%mn" = Some {| o_ty := U64; o_cells := [v] |} -> pos = List.length d ->
  do_prim (St M l p (FSO fi d pos e) ps fr) "fwrite" [VPtr "%mn" 0; VInt 1; VInt 8; VPtr "fout" 0] =
  Ok (Some (VInt 8), St M l p (FSO fi (d ++ le_bytes 8 (v mod 2 ^ 64)) (pos + 8)%nat e) ps fr).
Proof.
  intros M l p fi d pos e ps fr v Hm Hp. unfold do_prim.
  change (String.eqb "fwrite" "fread") with false. change (String.eqb "fwrite" "feof") with false. change (String.eqb "fwrite" "fgetc") with false.
  change (String.eqb "fwrite" "ungetc") with false. change (String.eqb "fwrite" "fwrite") with true. cbv iota.
  cbn [stream_of bind files mem lget String.eqb Ascii.eqb Bool.eqb]. rewrite Hm. cbn [o_ty o_cells cf_data cf_pos cf_eof].
  change (ity_bytes U64) with 8.
  change ((8 <? 0) || (0 <? 0) || negb (8 mod 8 =? 0) || negb (0 mod 8 =? 0)) with false. cbv iota.
  change (Z.of_nat (List.length [v]) <? 0 / 8 + 8 / 8) with false. cbv iota. change (8 =? 1) with false. cbv iota.
  change (Z.to_nat (8 / 8)) with 1%nat. change (Z.to_nat (0 / 8)) with 0%nat. change (firstn 1 (skipn 0 [v])) with [v].
  change (Z.to_nat 8) with 8%nat. unfold cells_bytes. cbn [flat_map]. rewrite app_nil_r. change (8 * Z.of_nat 8) with 64.
  subst pos. rewrite Nat.eqb_refl. rewrite le_bytes_length. unfold with_files. cbn [mem loc pre files ptrs fresh lset String.eqb Ascii.eqb Bool.eqb]. reflexivity.
Qed.

Lemma chain_split : forall seed T q, (q < T)%nat -> exists rest, chain seed T = (chain seed q ++ hj seed q ++ rest)%list.
Proof.
  induction T as [|T IH]; intros q Hq; [lia|]. cbn [chain].
  destruct (Nat.eq_dec q T) as [->|Hne].
  - exists []. rewrite app_nil_r. reflexivity.
  - destruct (IH q ltac:(lia)) as [rest E]. exists (rest ++ hj seed T)%list. rewrite E, <- !app_assoc. reflexivity.
Qed.

Section FileHdr.
Variable vt : list (string * string).

Lemma getFileHeader_call : forall fuel M l p fi e ps fr seed T ivn (cm hm : N),
  (100 <= fuel)%nat -> (1 <= T <= 16)%nat -> (cm < 256)%N -> (hm < 256)%N ->
  lget ps "rc.header.out" = Some (VPtr "fout" 0) -> mget M "Magic_Num" = Some (cell1 U64 MAGIC) ->
  mget M "rc.header.ctype" = Some (u8cell (Z.of_N cm)) -> mget M "rc.header.htype" = Some (u8cell (Z.of_N hm)) ->
  mget M "rc.header.num" = Some (u8cell (Z.of_nat T)) -> mget M ivn = Some (ivobj seed T) -> is_prefix "%" ivn = false ->
  exists M' pos',
    call file_prog vt fuel "FileHeader::getFileHeader/1" "rc.header." [VPtr ivn 0] (St M l p (FSO fi [] 0%nat e) ps fr)
    = Ok (None, St M' l p (FSO fi (map Z.of_N (file_header cm hm (chain seed T) T)) pos' e) ps fr).
Proof.
  intros fuel M l p fi e ps fr seed T ivn cm hm Hfuel HT Hcm Hhm Hout Hmg Hct Hht Hnum Hiv Hivn. fuel_S 40 fuel.
  unfold call. change (lget file_prog "FileHeader::getFileHeader/1") with (Some Src_fheader.f_FileHeader_getFileHeader_1).
  cbn [f_params f_body Src_fheader.f_FileHeader_getFileHeader_1 bind_params bind mem loc pre files ptrs fresh].
  assert (Hne1 : "%padding" <> ivn) by (intro E; rewrite <- E in Hivn; discriminate).
  assert (Hne2 : "%mn" <> ivn) by (intro E; rewrite <- E in Hivn; discriminate).
  (* u8_t padding[38] = {0} *)
  rewrite exec_seq, x_localarr. unfold with_mem. cbn [bind mem loc pre files ptrs fresh append]. change (repeat 0 (Z.to_nat 38)) with (repeat 0 38).
  rewrite exec_seq, x_memset. cbn [eval bind as_int append].
  match goal with |- context [do_memset ?s _ _ _] =>
    rewrite (memset_u8 s "%padding" 0 0 38 _ (mget_mset_same _ _ _) eq_refl ltac:(lia) ltac:(lia) ltac:(cbn; lia)) end.
  cbn [bind o_cells]. change (upd_range (Z.to_nat 0) (repeat (0 mod 256) (Z.to_nat 38)) (repeat 0 38)) with (repeat 0 38).
  unfold with_mem. cbn [mem loc pre files ptrs fresh]. rewrite mset_mset.
  (* u64_t mn = Magic_Num *)
  rewrite exec_seq, x_localarr. unfold with_mem. cbn [bind mem loc pre files ptrs fresh append]. change (repeat 0 (Z.to_nat 1)) with [0].
  rewrite exec_seq, x_store. cbn [eval bind as_int mem append]. rewrite mget_mset_same. rewrite !mget_mset_other by discriminate. rewrite Hmg.
  change (load_obj (cell1 U64 MAGIC) U64 0) with (Ok MAGIC : res Z). cbn [bind as_int].
  change (store_obj {| o_ty := U64; o_cells := [0] |} U64 0 MAGIC) with (Ok {| o_ty := U64; o_cells := [MAGIC] |} : res object).
  unfold with_mem. cbn [bind mem loc pre files ptrs fresh]. rewrite mset_mset.
  set (M2 := mset (mset M "%padding" {| o_ty := U8; o_cells := repeat 0 38 |}) "%mn" {| o_ty := U64; o_cells := [MAGIC] |}).
  assert (HM2 : forall k, k <> "%padding" -> k <> "%mn" -> mget M2 k = mget M k).
  { intros k A1 A2. unfold M2. rewrite !mget_mset_other by congruence. reflexivity. }
  (* fwrite(&mn, 1, 8, out) *)
  rewrite exec_seq, x_prim. cbn [eval_list eval bind pre ptrs append as_int]. rewrite Hout. cbn [bind as_int].
  change (wrap U64 1) with 1. change (wrap U64 8) with 8.
  rewrite (fwrite_mn M2 _ _ fi [] 0%nat e ps fr MAGIC (mget_mset_same _ _ _) eq_refl). cbn [bind set_ret app Nat.add].
  change (le_bytes 8 (MAGIC mod 2 ^ 64)) with (map Z.of_N magic_bytes).
  (* fwrite(&ctype, 1, 1, out) *)
  rewrite exec_seq, x_prim. cbn [eval_list eval bind pre ptrs append as_int]. rewrite Hout. cbn [bind as_int]. change (wrap U64 1) with 1.
  rewrite (fwrite_bytes M2 _ _ fi _ 8%nat e ps fr "rc.header.ctype" 0 1 [Z.of_N cm]) by
    (first [rewrite HM2 by discriminate; exact Hct|lia|cbn; lia|reflexivity]).
  cbn [bind set_ret]. change (firstn (Z.to_nat 1) (skipn (Z.to_nat 0) [Z.of_N cm])) with [Z.of_N cm]. cbn [List.length Nat.add].
  (* fwrite(&htype, 1, 1, out) *)
  rewrite exec_seq, x_prim. cbn [eval_list eval bind pre ptrs append as_int]. rewrite Hout. cbn [bind as_int]. change (wrap U64 1) with 1.
  rewrite (fwrite_bytes M2 _ _ fi _ 9%nat e ps fr "rc.header.htype" 0 1 [Z.of_N hm]) by
    (first [rewrite HM2 by discriminate; exact Hht|lia|cbn; lia|rewrite app_length, map_length; reflexivity]).
  cbn [bind set_ret]. change (firstn (Z.to_nat 1) (skipn (Z.to_nat 0) [Z.of_N hm])) with [Z.of_N hm]. cbn [List.length Nat.add].
  (* fwrite(padding, 1, 38, out) *)
  rewrite exec_seq, x_prim. cbn [eval_list eval bind pre ptrs append as_int]. rewrite Hout. cbn [bind as_int]. change (wrap U64 1) with 1. change (wrap U64 38) with 38.
  rewrite (fwrite_bytes M2 _ _ fi _ 10%nat e ps fr "%padding" 0 38 (repeat 0 38)) by
    (first [unfold M2; rewrite mget_mset_other by discriminate; apply mget_mset_same|lia|cbn; lia|rewrite !app_length, map_length; reflexivity]).
  cbn [bind set_ret]. change (firstn (Z.to_nat 38) (skipn (Z.to_nat 0) (repeat 0 38))) with (repeat 0 38). change (10 + List.length (repeat 0 38))%nat with 48%nat.
  set (d0 := (((map Z.of_N magic_bytes ++ [Z.of_N cm]) ++ [Z.of_N hm]) ++ repeat 0 38)%list).
  assert (Hd0 : List.length d0 = 48%nat) by (unfold d0; rewrite !app_length, map_length; reflexivity).
  (* the loop *)
  rewrite exec_seq, exec_set. cbn [eval bind]. unfold with_loc. cbn [mem loc pre files ptrs fresh].
  set (L := [("iv", VPtr ivn 0)]).
  pose (Inv := fun (q : nat) (s : state) =>
     s = St M2 (lset L "i" (VInt (Z.of_nat q))) "rc.header." (FSO fi (d0 ++ map Z.of_N (chain seed q)) (48 + 20 * q)%nat e) ps fr).
  match goal with |- context [exec file_prog vt ?f0 (SLoop ?c ?b ?st) ?s0] =>
    destruct (loop_inv file_prog vt c b st Inv T 5) with (k := 0%nat) (s := s0) as (sL & EL & ->)
  end.
  - intros q s Hq ->. exists 1. split; [|split; [lia|]].
    { cbn [eval bind as_int loc pre mem append]. rewrite lget_lset_same. cbn [bind as_int]. rewrite HM2 by discriminate. rewrite Hnum.
      unfold u8cell. rewrite load_u8 by (cbn; lia). cbn [bind as_int nth Z.to_nat eval_bin]. rewrite (wrap_U8_small (Z.of_nat T)) by lia.
      rewrite (wrap_I32_small (Z.of_nat T)) by lia. destruct (Z.ltb_spec (Z.of_nat q) (Z.of_nat T)); [reflexivity|lia]. }
    eexists. eexists. split; [|split].
    + rewrite x_prim. cbn [eval_list eval bind pre ptrs loc append as_int]. rewrite Hout. rewrite lget_lset_same. rewrite lget_lset_other by discriminate.
      cbn [L lget String.eqb Ascii.eqb Bool.eqb bind as_int eval_bin]. rewrite (arith_I32_small (20 * Z.of_nat q)) by lia. cbn [bind as_int].
      change (wrap U64 1) with 1. change (wrap U64 20) with 20.
      rewrite (fwrite_bytes M2 _ _ fi _ (48 + 20 * q)%nat e ps fr ivn (0 + 20 * Z.of_nat q * 1) 20 _)
        by (first [rewrite HM2 by congruence; exact Hiv | lia | cbn [o_cells]; rewrite app_length, map_length, chain_len, repeat_length; lia
                  | rewrite app_length, map_length, chain_len, Hd0; reflexivity]).
      cbn [bind set_ret]. reflexivity.
    + rewrite exec_set. cbn [eval bind as_int loc]. rewrite lget_lset_same. cbn [bind as_int eval_bin].
      rewrite arith_I32_small by lia. cbn [bind]. unfold with_loc. cbn [mem loc pre files ptrs fresh]. rewrite lset_lset. reflexivity.
    + unfold Inv. f_equal; [do 2 f_equal; lia|].
      destruct (chain_split seed T q Hq) as [rest Ers].
      replace (Z.to_nat (0 + 20 * Z.of_nat q * 1)) with (20 * q)%nat by lia. change (Z.to_nat 20) with 20%nat.
      rewrite Ers. rewrite !map_app, <- !app_assoc. rewrite skipn_app_exact by (rewrite map_length; apply chain_len).
      rewrite firstn_app_exact by (rewrite map_length; apply hj_len). rewrite map_length, hj_len.
      cbn [chain]. rewrite map_app. replace (48 + 20 * q + 20)%nat with (48 + 20 * S q)%nat by lia. reflexivity.
  - intros s ->. cbn [eval bind as_int loc pre mem append]. rewrite lget_lset_same. cbn [bind as_int]. rewrite HM2 by discriminate. rewrite Hnum.
    unfold u8cell. rewrite load_u8 by (cbn; lia). cbn [bind as_int nth Z.to_nat eval_bin]. rewrite (wrap_U8_small (Z.of_nat T)) by lia.
    rewrite (wrap_I32_small (Z.of_nat T)) by lia. destruct (Z.ltb_spec (Z.of_nat T) (Z.of_nat T)); [lia|reflexivity].
  - lia.
  - unfold Inv. cbn [chain map]. rewrite app_nil_r. reflexivity.
  - rewrite (exec_mono _ _ _ _ _ _ EL) by lia. cbn [bind]. eexists. eexists. f_equal. f_equal. f_equal. f_equal. f_equal. f_equal.
    unfold file_header, d0. change (N.to_nat Layout.PADDING) with 38%nat.
    rewrite firstn_all2 by (rewrite chain_len; lia). rewrite !map_app, <- !app_assoc. cbn [map app]. rewrite map_of_N_zeros. reflexivity.
Qed.
End FileHdr.

(* ------------------------------------------------------------------------------------ *)
(** * 5. runcrypt::prepare_IV(r_buf) and SRC_header                                      *)
(* ------------------------------------------------------------------------------------ *)
Definition hd_mem0 (hbuf : nat) (key seed : list N) : memory := (rc_mem0 hbuf key ++ [("seed", bytes_object (seed ++ [0%N]))])%list.

Lemma hd_mem0_nosz : forall hbuf key seed, no_sizeof (hd_mem0 hbuf key seed).
Proof.
  intros hbuf key seed k Hk Hne. unfold hd_mem0, rc_mem0.
  cbn [file_globals Src_sha1.globals Src_md5.globals Src_sha256.globals app mk_objects map Src_cry.objects_runcrypt mget append].
  repeat match goal with
         | |- context [String.eqb k ?x] => destruct (String.eqb_spec k x) as [->|_]; [first [discriminate Hk | exfalso; apply Hne; reflexivity]|]
         end. reflexivity.
Qed.

Lemma SRC_header_proof : forall hbuf T cm hm key seed,
  (1 <= hbuf)%nat -> (N.of_nat (64 * hbuf) < 2 ^ 32)%N -> (1 <= T <= 16)%nat -> (cm < 256)%N -> (hm < 256)%N ->
  block16 key -> forallb (fun b => (0 <? b)%N && (b <? 256)%N) seed = true -> (N.of_nat (List.length seed) < 2 ^ 32)%N ->
  src_header hbuf T cm hm key seed = SOk (file_header cm hm (iv_chain seed T) T).
Proof.
  intros hbuf T cm hm key seed Hh1 Hh2 HT Hcm Hhm Hk Hs Hsl.
  unfold src_header. cbv zeta.
  set (vt := file_vt 0%N). set (fuel := (List.length seed / 64 + 3000)%nat).
  change (with_mem (runcrypt_state hbuf T [] key) (mem (runcrypt_state hbuf T [] key) ++ [("seed", bytes_object (seed ++ [0%N]))])%list)
    with (St (hd_mem0 hbuf key seed) [] "" (FSO (stream [] 0) [] 0%nat false) rc_ptrs0 0%nat).
  rewrite (ctor_call vt fuel (hd_mem0 hbuf key seed) [] "" _ 0%nat T (Z.of_N cm) (Z.of_N hm) ltac:(unfold fuel; lia)
             ltac:(eexists; reflexivity) ltac:(eexists; reflexivity) ltac:(eexists; reflexivity)).
  cbn [of_res snd]. rewrite (wrap_U8_small (Z.of_nat T)), (wrap_U8_small (Z.of_N cm)), (wrap_U8_small (Z.of_N hm)) by lia.
  set (m1 := mset (mset (mset (hd_mem0 hbuf key seed) "rc.header.num" (u8cell (Z.of_nat T))) "rc.header.ctype" (u8cell (Z.of_N cm))) "rc.header.htype" (u8cell (Z.of_N hm))).
  (* prepare_IV *)
  unfold call. change (lget file_prog "runcrypt::prepare_IV/1") with (Some Src_cry.f_runcrypt_prepare_IV_1).
  cbn [f_params f_body Src_cry.f_runcrypt_prepare_IV_1 bind_params bind mem loc pre files ptrs fresh].
  assert (Hfuel : (2900 + List.length seed / 64 <= fuel)%nat) by (unfold fuel; lia).
  clearbody fuel. fuel_S 10 fuel.
  (* iv = new u8_t[THREAD_MAX * 20] *)
  rewrite exec_seq, x_new. cbn [eval bind as_int mem].
  change (mget m1 "THREAD_MAX") with (Some (cell1 U8 16)). unfold cell1. rewrite load_u8 by (cbn; lia). cbn [bind as_int nth Z.to_nat eval_bin].
  change (wrap I32 (wrap U8 16)) with 16. rewrite arith_I32_small by lia. cbn [bind as_int]. change (wrap U64 (16 * 20)) with 320.
  change (320 <? 0) with false. cbv iota. cbn [bind mem loc pre files ptrs fresh lset String.eqb Ascii.eqb Bool.eqb].
  set (ivn := heap_name 0).
  set (M := mset m1 ivn {| o_ty := U8; o_cells := repeat 0 (Z.to_nat 320) |}).
  (* header.getIV(r_buf, iv) *)
  rewrite exec_seq.
  cfuel ltac:(fun f =>
    destruct (getIV_call vt eq_refl f M [("r_buf", VPtr "seed" 0); ("iv", VPtr ivn 0)] "rc." (FSO (stream [] 0) [] 0%nat false) rc_ptrs1 1%nat seed T ivn 0%nat)
      as (M' & fr' & Ec & Hiv' & Hoth' & Hfr');
    [ pose proof F_sha1hash_bound; lia | exact HT | exact Hs | lia | reflexivity | lia | apply mget_mset_same | reflexivity | reflexivity | reflexivity
    | unfold M, m1; repeat (apply nosz_mset; [|reflexivity]); apply hd_mem0_nosz
    | intros name Hin; cbn [five In] in Hin; repeat (destruct Hin as [<-|Hin]; [reflexivity|]); destruct Hin
    | rewrite (x_scall file_prog vt f None "FileHeader::getIV/2@u8_t" (Some (EField "header.")) [EVar "r_buf"; EVar "iv"]
                 (St M [("r_buf", VPtr "seed" 0); ("iv", VPtr ivn 0)] "rc." (FSO (stream [] 0) [] 0%nat false) rc_ptrs1 1%nat)
                 [VPtr "seed" 0; VPtr ivn 0] "rc.header." _ _ _ eq_refl eq_refl Ec eq_refl); clear Ec ]).
  cbn [bind].
  (* header.getFileHeader(iv) *)
  rewrite exec_seq.
  set (ps2 := lset rc_ptrs1 (class_key "") (VPtr "sha1hash" 0)).
  cfuel ltac:(fun f =>
    destruct (getFileHeader_call vt f M' [("r_buf", VPtr "seed" 0); ("iv", VPtr ivn 0)] "rc." (stream [] 0) false ps2 fr' seed T ivn cm hm)
      as (M'' & pos' & Ec2);
    [ lia | exact HT | exact Hcm | exact Hhm | reflexivity
    | rewrite Hoth' by reflexivity; reflexivity | rewrite Hoth' by reflexivity; reflexivity | rewrite Hoth' by reflexivity; reflexivity
    | rewrite Hoth' by reflexivity; reflexivity | exact Hiv' | reflexivity
    | rewrite (x_scall file_prog vt f None "FileHeader::getFileHeader/1" (Some (EField "header.")) [EVar "iv"]
                 (St M' [("r_buf", VPtr "seed" 0); ("iv", VPtr ivn 0)] "rc." (FSO (stream [] 0) [] 0%nat false) ps2 fr')
                 [VPtr ivn 0] "rc.header." _ _ _ eq_refl eq_refl Ec2 eq_refl); clear Ec2 ]).
  cbn [bind]. rewrite x_return. cbn [eval bind loc lget String.eqb Ascii.eqb Bool.eqb of_res snd files].
  cbn [cf_data]. rewrite map_to_of_N'. rewrite iv_chain_chain by lia. reflexivity.
Qed.
Print Assumptions SRC_header_proof.
