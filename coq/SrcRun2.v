(* Entry points for the second tier of translated sources: hmac (fheader.cpp), FileHeader (fheader.cpp), HashFactory
   (hashmaster.cpp), runcrypt::verify / prepare_IV (cry.cpp).  These create objects at run time (SNewObj: the hasher
   returned by the factory, the filebuffer64), seek in streams and read/write the header fields. *)
From Coq Require Import ZArith NArith List String Bool.
From Wencry Require Import Bytes FileModel MiniC MiniCRun SrcRun.
From Wencry.Gen Require Src_sha256 Src_sha1 Src_md5 Src_hashmaster Src_hashbuffer Src_hashfactory Src_fheader Src_cry.
Import ListNotations.
Local Open Scope Z_scope.
Local Open Scope string_scope.
Local Open Scope list_scope.

Definition file_prog : program :=
  Src_sha1.functions ++ Src_md5.functions ++ Src_sha256.functions ++ Src_hashmaster.functions ++ Src_hashbuffer.functions
  ++ Src_hashfactory.functions ++ Src_fheader.functions ++ Src_cry.functions.

Definition cell (t : ity) (v : Z) : object := {| o_ty := t; o_cells := [v] |}.
(* constants of the source that the translated functions read as one-cell globals; hbuf = HBUF_SZ *)
Definition file_globals (hbuf : nat) : memory :=
  Src_sha1.globals ++ Src_md5.globals ++ Src_sha256.globals ++
  [("HBUF_SZ", cell U32 (Z.of_nat hbuf)); ("sizeof:filebuffer64.b", cell U32 (64 * Z.of_nat hbuf));
   ("ipad", cell U8 (Z.of_N Wencry.Gen.Layout.hmac_ipad)); ("opad", cell U8 (Z.of_N Wencry.Gen.Layout.hmac_opad));
   ("Magic_Num", cell U64 (Z.of_N Wencry.Gen.Layout.Magic_Num)); ("THREAD_MAX", cell U8 (Z.of_N Wencry.Gen.Layout.THREAD_MAX))].

(* where the objects created at run time are placed: the hasher returned by HashFactory::getHasher at the root prefix "",
   the filebuffer64 at "buf." -- the prefixes for which the class and driver refinement lemmas are stated *)
Definition hash_class_name (hm : N) : string :=
  match hm with 0%N => "sha1hash" | 1%N => "md5hash" | 2%N => "sha256hash" | _ => "?" end.
Definition alloc_plan : list (string * value) :=
  [("alloc:sha1hash", VPtr "" 0); ("alloc:md5hash", VPtr "" 0); ("alloc:sha256hash", VPtr "" 0); ("alloc:filebuffer64", VPtr "buf." 0)].
Definition file_vt (hm : N) : list (string * string) := [("", hash_class_name hm); ("buf.", "filebuffer64")].

Definition stream (data : list N) (pos : nat) : cfile := {| cf_data := map Z.of_N data; cf_pos := pos; cf_eof := false |}.

(* hmac h; h.gethmac(hashtype, key, fp, out, 0) with fp positioned at `pos` of `data`: the tag bytes (length = h.length) *)
Definition src_hmac (hbuf : nat) (hashtype : N) (key : list N) (data : list N) (pos : nat) : sres (list N) :=
  let m := file_globals hbuf ++ mk_objects "hm." Src_fheader.objects_hmac ++ [("key", bytes_object key); ("out", mk_object U8 64)] in
  let st := {| mem := m; loc := []; pre := ""; files := [("fp", stream data pos)]; ptrs := alloc_plan; fresh := 0 |} in
  of_res (call file_prog (file_vt hashtype) (List.length data / 64 + 3000) "hmac::gethmac/5" "hm."
               [VInt (Z.of_N hashtype); VPtr "key" 0; VPtr "fp" 0; VPtr "out" 0; VInt 0] st)
    (fun r => match get_bytes (snd r) "out", mget (mem (snd r)) "hm.length" with
              | Some o, Some l => SOk (firstn (Z.to_nat (nth 0 (o_cells l) 0)) o)
              | _, _ => SErr "no result"
              end).

(* h.cmphmac(hashtype, key, fp, stored, 0) *)
Definition src_cmphmac (hbuf : nat) (hashtype : N) (key : list N) (data : list N) (pos : nat) (stored : list N) : sres bool :=
  let m := file_globals hbuf ++ mk_objects "hm." Src_fheader.objects_hmac ++ [("key", bytes_object key); ("stored", bytes_object stored)] in
  let st := {| mem := m; loc := []; pre := ""; files := [("fp", stream data pos)]; ptrs := alloc_plan; fresh := 0 |} in
  of_res (call file_prog (file_vt hashtype) (List.length data / 64 + 3000) "hmac::cmphmac/5" "hm."
               [VInt (Z.of_N hashtype); VPtr "key" 0; VPtr "fp" 0; VPtr "stored" 0; VInt 0] st)
    (fun r => match fst r with Some (VInt z) => SOk (negb (Z.eqb z 0)) | _ => SErr "no result" end).

(* a runcrypt object over the input stream F (as the constructor leaves it: header(fin, out, key, ctype, htype, T)),
   then verify(fsize): the result code *)
Definition runcrypt_state (hbuf T : nat) (F key : list N) : state :=
  {| mem := file_globals hbuf ++ mk_objects "rc." Src_cry.objects_runcrypt ++ [("key", bytes_object key)];
     loc := []; pre := "";
     files := [("fin", stream F 0); ("fout", stream [] 0)];
     ptrs := alloc_plan ++ [("rc.fin", VPtr "fin" 0); ("rc.out", VPtr "fout" 0); ("rc.key", VPtr "key" 0)]; fresh := 0 |}.
Definition src_verify (hbuf T : nat) (F key : list N) : sres N :=
  let fuel := (List.length F / 64 + 3000)%nat in
  (* the hash mode byte of the file decides which hasher class the factory creates; out of range: none is created *)
  let vt := file_vt (nth 9 F 0%N) in
  of_res (call file_prog vt fuel "FileHeader::FileHeader/6" "rc.header."
               [VPtr "fin" 0; VPtr "fout" 0; VPtr "key" 0; VInt 255; VInt 255; VInt (Z.of_nat T)] (runcrypt_state hbuf T F key))
    (fun r0 => of_res (call file_prog vt fuel "runcrypt::verify/1" "rc." [VInt (Z.of_nat (List.length F))] (snd r0))
    (fun r => match fst r with Some (VInt z) => SOk (Z.to_N z) | _ => SErr "no result" end)).

(* encryption side: header(fin, out, key, cm, hm, T); prepare_IV(seed): the bytes written to the output (the header with
   a zero tag field and the T chained IVs) *)
Definition src_header (hbuf T : nat) (cm hm : N) (key seed : list N) : sres (list N) :=
  let s0 := runcrypt_state hbuf T [] key in
  let s1 := with_mem s0 (mem s0 ++ [("seed", bytes_object (seed ++ [0%N]))]) in
  let fuel := (List.length seed / 64 + 3000)%nat in
  of_res (call file_prog (file_vt 0%N) fuel "FileHeader::FileHeader/6" "rc.header."
               [VPtr "fin" 0; VPtr "fout" 0; VPtr "key" 0; VInt (Z.of_N cm); VInt (Z.of_N hm); VInt (Z.of_nat T)] s1)
    (fun r0 => of_res (call file_prog (file_vt 0%N) fuel "runcrypt::prepare_IV/1" "rc." [VPtr "seed" 0] (snd r0))
    (fun r => match lget (files (snd r)) "fout" with
              | Some f => SOk (map Z.to_N (cf_data f))
              | None => SErr "no stream"
              end)).

(* ---------------- AesFactory::createCryMaster: the factory switch and the constructor chain ----------------
   AesFactory f(key); f.loadiv(iv); Aesmode *m = f.createCryMaster(isenc, type); then m->runcry(block) for each block.
   The factory object lives at "af." (pointer members af.key, af.iv); the created stream object at the root prefix ""
   (alloc plan), its class is recorded by SNewObj and used for the virtual runcry calls. *)
Definition mode_prog : program := Src_aes.functions ++ Src_aesmode.functions.
Definition mode_alloc_plan : list (string * value) :=
  map (fun c => (("alloc:" ++ c)%string, VPtr "" 0))
      ["AesECB_Enc"; "AesECB_Dec"; "AesCBC_Enc"; "AesCBC_Dec"; "AesCTR"; "AesCFB_Enc"; "AesCFB_Dec"; "AesOFB"].
Fixpoint run_blocks_virt (blks : list (list N)) (s : state) (acc : list (list N)) : sres (list (list N)) :=
  match blks with
  | [] => SOk (rev acc)
  | b :: r =>
      let s1 := with_mem s (mset (mem s) "blk" (bytes_object b)) in
      match lget (ptrs s1) (class_key "") with
      | Some (VPtr cls _) =>
          of_res (call mode_prog [] 300 (cls ++ "::runcry/1") "" [VPtr "blk" 0] s1)
            (fun r1 => match get_bytes (snd r1) "blk" with
                       | Some ob => run_blocks_virt r (snd r1) (ob :: acc)
                       | None => SErr "no block"
                       end)
      | _ => SErr "no dynamic class"
      end
  end.
Definition src_mode_factory (isenc : bool) (type : N) (key iv : list N) (blks : list (list N)) : sres (list (list N)) :=
  let m := Src_aes.globals ++ [("k", bytes_object key); ("iv0", bytes_object iv); ("blk", mk_object U8 16)] in
  let st := {| mem := m; loc := []; pre := ""; files := [];
               ptrs := mode_alloc_plan ++ [("af.key", VPtr "k" 0); ("af.iv", VPtr "iv0" 0)]; fresh := 0 |} in
  of_res (call mode_prog [] 300 "AesFactory::createCryMaster/2" "af." [VInt (if isenc then 1 else 0); VInt (Z.of_N type)] st)
    (fun r => match fst r with
              | Some VNull => SErr "NULL"
              | Some (VPtr _ _) => run_blocks_virt blks (snd r) []
              | _ => SErr "no result"
              end).
