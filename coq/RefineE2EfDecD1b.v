(* PARALLEL4 (H2), D1, step 2: hmac::cmphmac of runcrypt::verify in the whole-program world on the SMALL state whose memory is
   msrc2 (Mem4 ..) (the names the simulation knows, minus "#0" and "%mn"), with what the final state contains:
   plan world (RefineE2EfDecD1a.cmphmac_refines') --RefineE2ESim (call_simR)--> here.  Clone of RefineE2EBridge.rel0 / cmp_W. *)
From Coq Require Import ZArith NArith List String Bool Lia PeanoNat Ascii.
From Wencry Require Import Bytes HashModel HashProofs HmacProofs FileModel MiniC MiniCRun MiniCLemmas SrcRun SrcRun2 SrcRun5
     RefineHashDefs RefineHashDriver RefineFileBase RefineFileHmac RefineFileHmac2 RefineFileHmac3 RefineFileVerify
     RefineE2ENames RefineE2ERel RefineE2EEval RefineE2EAlloc RefineE2ESim RefineE2EFrame RefineE2EWhole RefineE2EBridge.
From Wencry Require Import RefineE2EfHashMono RefineE2EfHashB1 RefineE2EfDecD1a.
From Wencry.Gen Require Layout Src_sha256 Src_sha1 Src_md5 Src_hashmaster Src_hashbuffer Src_hashfactory Src_fheader Src_cry.
Import ListNotations.
Local Open Scope list_scope.
Local Open Scope string_scope.
Local Open Scope Z_scope.

(* the names of the small state: those the simulation knows, minus the two heap-owned ones ("#0", the local "%mn" of checkMn) *)
Definition keep2 (k : string) : bool := keepb k && negb (String.eqb k "#0") && negb (String.eqb k "%mn").
Definition msrc2 (m : memory) : memory := filter (fun kv : string * object => keep2 (fst kv)) m.
Lemma mget_msrc2 : forall m k, mget (msrc2 m) k = if keep2 k then mget m k else None.
Proof.
  induction m as [|[k' o] r IH]; intro k; cbn [msrc2 filter fst mget]; [destruct (keep2 k); reflexivity|].
  fold (msrc2 r). destruct (keep2 k') eqn:Ek'.
  - cbn [mget]. destruct (String.eqb_spec k k') as [->|Hne]; [rewrite Ek'; reflexivity|apply IH].
  - rewrite IH. destruct (String.eqb_spec k k') as [->|Hne]; [rewrite Ek'; reflexivity|reflexivity].
Qed.
Lemma keep2_keepb : forall k, keep2 k = true -> keepb k = true.
Proof. intros k H. unfold keep2 in H. apply andb_prop in H. destruct H as [H _]. apply andb_prop in H. apply H. Qed.
Lemma msrc2_pos : forall m k, k <> "#0" -> k <> "%mn" -> mget (msrc2 m) k = mget (msrc m) k.
Proof.
  intros m k H1 H2. rewrite mget_msrc2, mget_msrc. unfold keep2.
  destruct (String.eqb_spec k "#0"); [contradiction|]. destruct (String.eqb_spec k "%mn"); [contradiction|]. cbn [negb]. rewrite !andb_true_r. reflexivity.
Qed.
Lemma msrc2_none : forall m k, mget (msrc m) k = None -> mget (msrc2 m) k = None.
Proof.
  intros m k H. rewrite mget_msrc2. rewrite mget_msrc in H. destruct (keep2 k) eqn:E; [|reflexivity]. rewrite (keep2_keepb _ E) in H. exact H.
Qed.

Section KeysS.
Variables c hbuf T : nat.
Variables Fl key : list N.
Variable mn : object.
Let M4 := Mem4 c hbuf T Fl key mn.
Lemma rel0s : forall cls l pfx fs, In cls hashcls -> ordb pfx = true -> gl W0 l -> (forall k f, lget fs k = Some f -> ordb k = true) ->
  Rel cls E0 W0 (St (msrc2 M4) l pfx fs ([("alloc:" ++ cls, VPtr "" 0); ("alloc:filebuffer64", VPtr "buf." 0)] ++ PS1) 1%nat)
                 (St (msrc2 M4) l pfx fs PS1 1%nat).
Proof.
  intros cls l pfx fs Hcls Hp Hl Hfs. constructor; cbn [mem loc pre files ptrs fresh].
  - reflexivity.
  - reflexivity.
  - exact wf_W0.
  - now rewrite tau_W0.
  - left. exact Hp.
  - now rewrite lmap_W0.
  - exact Hl.
  - reflexivity.
  - exact Hfs.
  - intros k Hn HnE. rewrite tau_W0. reflexivity.
  - intros e [<-|[]]. rewrite mget_msrc2. reflexivity.
  - intros k o H. rewrite mget_msrc2 in H. destruct (keep2 k) eqn:Ek2; [|discriminate H]. pose proof (keep2_keepb _ Ek2) as Ek. unfold keepb in Ek. apply andb_prop in Ek. apply nmb_nm, Ek.
  - intros n y Hn. rewrite mget_msrc2. destruct (keep2 (hobj n ++ y)); [|reflexivity]. destruct (mget M4 (hobj n ++ y)) as [o|] eqn:Eo; [|reflexivity]. exfalso.
    rewrite hobj_app in Eo. apply keys4_hash in Eo. apply (heap_not_hobj 0 n y). rewrite hobj_app. unfold heap_name. f_equal. symmetry. exact Eo.
  - intros k Hn. rewrite tau_W0.
    assert (E1 : lget ([("alloc:" ++ cls, VPtr "" 0); ("alloc:filebuffer64", VPtr "buf." 0)] ++ PS1) k = lget PS1 k).
    { cbn [app lget]. destruct (String.eqb_spec k ("alloc:" ++ cls)) as [->|_]; [exfalso; eapply nm_not_alloc; [exact Hn|reflexivity]|].
      destruct (String.eqb_spec k "alloc:filebuffer64") as [->|_]; [exfalso; eapply (nm_not_alloc W0 _ "filebuffer64"); [exact Hn|reflexivity]|]. reflexivity. }
    rewrite E1. destruct (lget PS1 k) as [v|]; [cbn [option_map]; now rewrite rv_W0|reflexivity].
  - intros r [[Ha _]|[[Hb _]|(n & -> & (Hn & _))]]; [exfalso; apply Ha; reflexivity|exfalso; apply Hb; reflexivity|].
    cbn [wf W0] in Hn. assert (n = 0%nat) by lia. subst n. reflexivity.
  - intros k v H. apply lget_In in H. cbn [app In PS1] in H.
    repeat (destruct H as [H|H]; [injection H as <- <-|]); try (left; split; [left; reflexivity|]; cbn [gv]; try exact I; left; reflexivity).
    + right. right. left. auto.
    + right. right. right. auto.
    + left. split; [left; reflexivity|]. cbn [gv]. right. right. left. exists 0%nat. reflexivity.
    + destruct H.
  - intro c0. reflexivity.
  - intros n y Hn. rewrite hobj_app. split; reflexivity.
  - intro Ha. exfalso. apply Ha. reflexivity.
  - intro Hb. exfalso. apply Hb. reflexivity.
Qed.
End KeysS.

Section AnyClassS.
Variable cls : string.
Variable a : halg.
Variable objs : list (string * ity * Z).
Variable globs : memory.
Variable F : nat.
Variable hm : N.
Variable hbuf : nat.
Hypothesis C : hctx cls a objs globs (file_vt hm) F (Z.of_N hm) hbuf "rc.hmachandle.".
Hypothesis Hgh : get_hasher hm = Some a.
Hypothesis HF : (F + 26 <= 2000)%nat.
Hypothesis Hfive : forall name t n, In (name, t, n) objs -> In name RefineFileHmac3.five.
Hypothesis Hcls : In cls hashcls.
Hypothesis Hvt : file_vt hm = vt0 cls.
Hypothesis Hgl : forall c T Fl key mn, globals_ok globs (msrc (Mem4 c hbuf T Fl key mn)).
Hypothesis Hgl2 : forall c T Fl key mn, globals_ok globs (msrc2 (Mem4 c hbuf T Fl key mn)).

Lemma cmp_small : forall c T Fl key fsize fo, block16 key -> bytesb Fl = true -> (74 <= List.length Fl)%nat -> nth 9 Fl 0%N = hm ->
  forall fuel mn, (2800 + List.length Fl / 64 <= fuel)%nat ->
  exists tag S', hmac_model hbuf hm key (skipn 48 Fl) = Some tag /\
    call whole_prog [] fuel "hmac::cmphmac/5" "rc.hmachandle." [VInt (Z.of_N hm); VPtr "key" 0; VPtr "fin" 0; VPtr "rc.header.hash" 0; VInt fsize]
      (St (msrc2 (Mem4 c hbuf T Fl key mn)) [] "rc." (FS (map Z.of_N Fl) 48%nat false fo) PS1 1%nat) =
    Ok (Some (VInt (if cmphmac tag (firstn 64 (skipn 10 Fl)) then 1 else 0)), S') /\
    NA S' /\
    mget (mem S') "rc.hmachandle.length" = Some (cell1 U8 (Z.of_nat (ha_hlen a))) /\
    (forall k o, mget (msrc2 (Mem4 c hbuf T Fl key mn)) k = Some o -> k <> "rc.hmachandle.length" -> mget (mem S') k = Some o) /\
    lget (files S') "fout" = Some fo.
Proof.
  intros c T Fl key fsize fo Hk HFb H74 Hhm fuel mn Hfuel.
  destruct (loop_total_g hbuf hm a key (skipn 48 Fl) (hc_h1 _ _ _ _ _ _ _ _ _ C) Hgh Hk) as (st' & Hfl & Hmodel).
  exists (tag_of a key st').
  assert (Hdiv : (List.length (skipn 48 Fl) / 64 <= List.length Fl / 64)%nat).
  { apply Nat.div_le_mono; [lia|]. rewrite skipn_length. lia. }
  destruct (cmphmac_refines' cls a objs globs (file_vt hm) F (Z.of_N hm) hbuf "rc.hmachandle." C "fin" fuel
              (msrc2 (Mem4 c hbuf T Fl key mn)) [] "rc." (FS (map Z.of_N Fl) 48%nat false fo) (pssrc cls) 1%nat "key" key fsize
              {| cf_data := map Z.of_N Fl; cf_pos := 48; cf_eof := false |} (skipn 48 Fl)
              (List.length (skipn 48 Fl) / 64 + 3)%nat st' "rc.header.hash" (firstn 64 (skipn 10 Fl)))
    as (sp & Ec & _ & _ & Hlen & Hoth & Hfiles).
  - lia.
  - destruct (gpre_W cls a objs globs F hm hbuf C HF Hfive Hcls Hvt Hgl c T Fl key mn fo Hk HFb)
      as [g1 g2 g3 g4 g5 g6 g7 g8 g9 g10 g11 g12 g13 g14 g15 g16 g17 g18 g19].
    constructor.
    + exact g1.
    + exact g2.
    + intros k Hk1 Hne. apply msrc2_none, g3; assumption.
    + rewrite msrc2_pos by discriminate. exact g4.
    + rewrite msrc2_pos by discriminate. exact g5.
    + rewrite msrc2_pos by discriminate. exact g6.
    + rewrite msrc2_pos by discriminate. exact g7.
    + apply Hgl2.
    + intros name t n Hin. apply msrc2_none, (g9 name t n Hin).
    + intros k Hk1. apply msrc2_none, g10, Hk1.
    + destruct g11 as [x g11]. exists x. rewrite msrc2_pos by discriminate. exact g11.
    + rewrite msrc2_pos by discriminate. exact g12.
    + exact g13.
    + exact g14.
    + exact g15.
    + exact g16.
    + exact g17.
    + exact g18.
    + exact g19.
  - exact Hfl.
  - reflexivity.
  - rewrite firstn_length, skipn_length. pose proof (hc_hlen _ _ _ _ _ _ _ _ _ C). lia.
  - apply bytesb_firstn, bytesb_skipn, HFb.
  - reflexivity.
  - discriminate.
  - rewrite Hvt in Ec.
    assert (R : Rel cls E0 W0 (St (msrc2 (Mem4 c hbuf T Fl key mn)) [] "rc." (FS (map Z.of_N Fl) 48%nat false fo) (pssrc cls) 1%nat)
                              (St (msrc2 (Mem4 c hbuf T Fl key mn)) [] "rc." (FS (map Z.of_N Fl) 48%nat false fo) PS1 1%nat)).
    { apply rel0s; [exact Hcls|reflexivity|constructor|].
      intros k f H. cbn [lget] in H. destruct (String.eqb_spec k "fin") as [->|_]; [reflexivity|].
      destruct (String.eqb_spec k "fout") as [->|_]; [reflexivity|discriminate]. }
    assert (Hg : In "hmac::cmphmac/5" OKL0).
    { unfold OKL0. apply in_or_app. right. apply in_or_app. right. apply in_or_app. right. right. left. reflexivity. }
    assert (Hp : preok W0 "rc.hmachandle.") by (left; reflexivity).
    assert (Hpu : "rc.hmachandle." = "" -> inb "hmac::cmphmac/5" UL0 = true) by discriminate.
    assert (Gvs : Forall (gv W0) [VInt (Z.of_N hm); VPtr "key" 0; VPtr "fin" 0; VPtr "rc.header.hash" 0; VInt fsize]).
    { repeat constructor; cbn [gv]; left; reflexivity. }
    destruct (call_simR file_prog whole_prog cls E0 OKL0 UL0 HE0 Hcls HOK0 fuel "hmac::cmphmac/5" "rc.hmachandle."
                _ _ _ W0 _ sp Hg Hp Hpu Gvs R Ec) as (W' & S' & s1 & S1 & X1 & EcW & R1 & M1 & P1 & F1 & FR1 & M2 & P2 & F2 & FR2).
    rewrite tau_W0 in EcW. cbn [map rv] in EcW. rewrite !tau_W0 in EcW. cbn [option_map rv] in EcW.
    exists S'. split; [exact Hmodel|]. split; [exact EcW|].
    split; [intro c0; rewrite <- P2; apply (r_noalloc _ _ _ _ _ R1)|].
    assert (KEY : forall k o, mget (mem sp) k = Some o -> keepb k = true -> mget (mem S') k = Some o).
    { intros k o Hm Hkb. rewrite <- M2. rewrite <- M1 in Hm. destruct (rel_mget cls E0 W' s1 S1 _ _ R1 Hm) as [_ Q].
      assert (Et : tau W' k = k).
      { unfold keepb in Hkb. apply andb_prop in Hkb. destruct Hkb as [Hkb _]. unfold nmb in Hkb.
        apply orb_prop in Hkb. destruct Hkb as [Hkb|Hkb]; [apply orb_prop in Hkb; destruct Hkb as [Hkb|Hkb]|].
        - apply tau_ord, Hkb.
        - destruct (prefix_sz _ Hkb) as [r ->]. apply tau_sz.
        - apply String.eqb_eq in Hkb. subst k. apply tau_hashc. }
      rewrite Et in Q. exact Q. }
    split.
    { apply KEY; [exact Hlen|reflexivity]. }
    split.
    { intros k o Hm Hne. rewrite mget_msrc2 in Hm. destruct (keep2 k) eqn:Ekb; [|discriminate Hm].
      apply KEY; [|apply keep2_keepb, Ekb]. rewrite Hoth; [rewrite mget_msrc2, Ekb; exact Hm| |exact Hne].
      pose proof (keys4_all c hbuf T Fl key mn (fun k => negb (keep2 k) || negb (file_owned k)) k o eq_refl Hm) as X. cbn beta in X.
      rewrite Ekb in X. cbn [negb orb] in X. apply negb_true_iff in X. exact X. }
    rewrite <- F2, (r_files _ _ _ _ _ R1), F1. rewrite Hfiles by discriminate. reflexivity.
Qed.
End AnyClassS.
Print Assumptions cmp_small.
