(* Definitions used only to STATE the file-level properties (C01, C02, C05, C06, C08, C11, C12, C13, C18). *)
From Wencry Require Import Bytes AesSpec AesModel ModesSpec ModesModel HashSpec HashModel FileModel FileSpec.
Local Open Scope N_scope.

(* well-formed parameters of an encryption *)
Record enc_params (c hbuf T : nat) (P key seed : list N) (cm hm : N) : Prop := {
  ep_c : (1 <= c)%nat; ep_hbuf : (1 <= hbuf)%nat; ep_T : (1 <= T)%nat;
  ep_P : bytesb P = true; ep_key : block16 key; ep_seed : bytesb seed = true;
  ep_cm : cm <= 4; ep_hm : hm <= 2;
  ep_sizeP : N.of_nat (length P) < 2 ^ 56; ep_sizeT : (T <= 16)%nat; ep_sizeS : N.of_nat (length seed) < 2 ^ 56 }.

(* what a stored tag authenticates: the hash number (byte 9) and every byte from offset 48 *)
Definition authenticated (F : list N) : N * list N := (nth 9 F 0, skipn 48 F).
(* F' carries a tag that is valid under key for an authenticated content different from F's:
   an existential forgery against HMAC (RFC 2104) -- an explicit event, not an axiom *)
Definition Forgery (key F F' : list N) : Prop :=
  authenticated F' <> authenticated F /\ nth 9 F' 0 <= 2 /\
  firstn (hlen (nth 9 F' 0)) (skipn 10 F') = hmac_spec (hash_spec (nth 9 F' 0)) key (skipn 48 F').

(* the states an interrupted encryption can leave behind: the output is written as the
   sequential byte stream hdr ++ body followed by the tag bytes patched in at offset 10;
   the OS may have applied any prefix of that stream (any split of the writes, any byte
   prefix inside a write) *)
Definition crash_state (ws : list (nat * list N)) (k : nat) : list N :=
  match ws with
  | [(_, stream); (off, tag)] =>
      if (k <=? length stream)%nat then firstn k stream
      else patch stream off (firstn (k - length stream) tag)
  | _ => []
  end.
Definition total_written (ws : list (nat * list N)) : nat :=
  fold_left (fun a w => (a + length (snd w))%nat) ws 0%nat.

(* two files differ at most in the byte range [lo, hi) *)
Definition same_outside (lo hi : nat) (F F' : list N) : Prop :=
  length F = length F' /\ forall i, (i < lo \/ hi <= i)%nat -> nth i F 0 = nth i F' 0.

(* xor of two equally long byte strings *)
Definition xorb_bytes (a b : list N) : list N := map2 N.lxor a b.
