(* Contract between the per-class refinement proofs (sha256.cpp / sha1.cpp / md5.cpp) and the
   generic driver proof (hashmaster.cpp, hashbuffer.cpp): how a hasher object in MiniC memory
   represents the model's [hstate], which objects a method may change, and the four method
   specifications every class has to satisfy.  The hasher object is the root object (prefix ""). *)
From Coq Require Import ZArith NArith List String Bool.
From Wencry Require Import Bytes HashModel MiniC MiniCRun MiniCLemmas SrcRun.
From Wencry.Gen Require Src_sha256 Src_sha1 Src_md5 Src_hashmaster Src_hashbuffer.
Import ListNotations.
Local Open Scope string_scope.

Definition u32_obj (ws : list N) : object := {| o_ty := U32; o_cells := map Z.of_N ws |}.
Definition u64_cell (x : N) : object := {| o_ty := U64; o_cells := [Z.of_N x] |}.

(* the program every hash entry point of SrcRun runs *)
Definition hash_prog : program := SrcRun.hash_prog.

(* memory m holds a hasher in abstract state st: the chaining words and the bit counter *)
Definition hasher_rep (st : hstate) (m : memory) : Prop :=
  mget m "h" = Some (u32_obj (hs_h st)) /\ mget m "totalsize" = Some (u64_cell (hs_total st)).

(* the scratch members exist with the declared shapes (contents arbitrary): the object list the
   translator emitted for the class, minus h and totalsize *)
Definition shaped (t : ity) (n : Z) (o : object) : Prop := o_ty o = t /\ Z.of_nat (List.length (o_cells o)) = n.
Definition scratch_ok (objs : list (string * ity * Z)) (m : memory) : Prop :=
  forall name t n, In (name, t, n) objs -> exists o, mget m name = Some o /\ shaped t n o.

(* VERSION 2 of the contract (heap objects).  Names a hasher method may create or change: its own members, local arrays
   (%...), and NEW heap temporaries: `new u8_t[n]` creates the object heap_name (fresh s) = "#<fresh s>" and increments
   fresh.  Heap objects that exist when the method is called (heap_name n with n < fresh s) are NOT touched, and may be the
   input / output buffers (hmac::getres keeps key1, h1, h2, hmac_res in such objects). *)
Definition is_prefix (p s : string) : bool := String.prefix p s.
Local Open Scope list_scope.
Definition hash_owned (k : string) : bool :=
  existsb (String.eqb k) ["h"; "totalsize"; "s"; "w"]%list || is_prefix "%" k || is_prefix "#" k.
Definition frame (owned : string -> bool) (m m' : memory) : Prop :=
  forall k, owned k = false -> mget m' k = mget m k.
(* an object a caller may pass: not one of the hasher's, or a heap object allocated before the call *)
Definition old_heap (s : state) (k : string) : Prop := exists n, (n < fresh s)%nat /\ k = heap_name n.
Definition passable (s : state) (k : string) : Prop := hash_owned k = false \/ old_heap s k.
(* heap objects allocated before the call keep their contents *)
Definition heap_kept (s s' : state) : Prop :=
  forall n, (n < fresh s)%nat -> mget (mem s') (heap_name n) = mget (mem s) (heap_name n).

(* everything of the state a call leaves alone besides memory (call restores loc and pre itself) *)
Definition same_io (s s' : state) : Prop :=
  loc s' = loc s /\ pre s' = pre s /\ files s' = files s /\ ptrs s' = ptrs s /\ (fresh s <= fresh s')%nat.

(* n bytes (each < 256) of object o starting at byte offset off, as model bytes *)
Definition bytes_at (m : memory) (o : string) (off : Z) (bs : list N) : Prop :=
  exists ob, mget m o = Some ob /\ o_ty ob = U8 /\ (0 <= off)%Z /\
             firstn (List.length bs) (skipn (Z.to_nat off) (o_cells ob)) = map Z.of_N bs /\
             (Z.to_nat off + List.length bs <= List.length (o_cells ob))%nat.

Section ClassSpec.
Variable cls : string.                       (* "sha256hash" | "sha1hash" | "md5hash" *)
Variable a : halg.                           (* its model *)
Variable objs : list (string * ity * Z).     (* Src_<cls>.objects_<cls> *)
Variable globs : memory.                     (* Src_<cls>.globals (constant tables) *)
Variable vt : list (string * string).        (* any vtab mapping "" to cls *)

Definition globals_ok (m : memory) : Prop := forall k o, mget globs k = Some o -> mget m k = Some o.
Definition hasher_ok (st : hstate) (m : memory) : Prop :=
  hasher_rep st m /\ scratch_ok objs m /\ globals_ok m /\ List.length (hs_h st) = List.length (ha_init a) /\
  Forall (fun x => (x < 2 ^ 32)%N) (hs_h st) /\ (hs_total st < 2 ^ 64)%N.

(* F: fuel that suffices for any single method call of this class *)
Variable F : nat.

(* reset(): from any well-shaped hasher to the initial state *)
Definition spec_reset : Prop := forall s st fuel, (F <= fuel)%nat -> pre s = "" -> hasher_ok st (mem s) ->
  exists s', call hash_prog vt fuel (cls ++ "::reset/0") "" [] s = Ok (None, s') /\
             hasher_ok (reset a) (mem s') /\ frame hash_owned (mem s) (mem s') /\ heap_kept s s' /\ same_io s s'.

(* getHash(input): one 64-byte block read from object o at offset off (o is not one of the hasher's own objects) *)
Definition spec_block : Prop := forall s st fuel o off blk, (F <= fuel)%nat -> pre s = "" -> hasher_ok st (mem s) ->
  passable s o -> bytes_at (mem s) o off blk -> List.length blk = 64%nat -> bytesb blk = true ->
  exists s', call hash_prog vt fuel (cls ++ "::getHash/1") "" [VPtr o off] s = Ok (None, s') /\
             hasher_ok (getHash_block a st blk) (mem s') /\ frame hash_owned (mem s) (mem s') /\ heap_kept s s' /\ same_io s s'.

(* getHash(input, n): the final n < 64 bytes *)
Definition spec_final : Prop := forall s st fuel o off inp, (F <= fuel)%nat -> pre s = "" -> hasher_ok st (mem s) ->
  passable s o -> bytes_at (mem s) o off inp -> (List.length inp < 64)%nat -> bytesb inp = true ->
  exists s', call hash_prog vt fuel (cls ++ "::getHash/2") "" [VPtr o off; VInt (Z.of_nat (List.length inp))] s = Ok (None, s') /\
             hasher_ok (getHash_final a st inp) (mem s') /\ frame hash_owned (mem s) (mem s') /\ heap_kept s s' /\ same_io s s'.

(* getres(out): the digest is written to the first ha_hlen bytes of object out at offset off; nothing else changes *)
Definition spec_getres : Prop := forall s st fuel o off old, (F <= fuel)%nat -> pre s = "" -> hasher_ok st (mem s) ->
  passable s o -> bytes_at (mem s) o off old -> List.length old = ha_hlen a ->
  exists s', call hash_prog vt fuel (cls ++ "::getres/1") "" [VPtr o off] s = Ok (None, s') /\
             bytes_at (mem s') o off (ha_out a (hs_h st)) /\ hasher_ok st (mem s') /\
             (forall k, k <> o -> mget (mem s') k = mget (mem s) k) /\
             (forall ob ob', mget (mem s) o = Some ob -> mget (mem s') o = Some ob' ->
                o_ty ob' = o_ty ob /\ List.length (o_cells ob') = List.length (o_cells ob) /\
                forall i, (i < Z.to_nat off \/ Z.to_nat off + ha_hlen a <= i)%nat -> nth i (o_cells ob') 0%Z = nth i (o_cells ob) 0%Z) /\
             same_io s s'.

Record class_spec : Prop := {
  cs_reset : spec_reset; cs_block : spec_block; cs_final : spec_final; cs_getres : spec_getres;
  cs_vt : lget vt "" = Some cls }.
End ClassSpec.
