(* C04 -- the pipeline terminates under every schedule and input: no lost wake-up, no deadlock,
   and a bound on the number of steps of any execution.
   Spurious wake-ups of cv.wait (allowed by the C++ standard) are part of the model: a schedule is a list of
   thread ids where 0..T are the real threads and T+1+j means "thread j returns from cv.wait without a
   notification" (PipeConc.spurious); it may contain such actions at any point.  The former
   assumption "condition variables have no spurious wake-ups" is gone.  The woken thread re-tests its predicate (the `while` around cv.wait) and
   goes back to sleep if it is false, so a schedule can be arbitrarily long (wake, re-test, sleep, wake, ...);
   what is bounded is everything else: every spurious wake-up costs itself plus at most one more step,
       length sched <= B + 2 * spurious_count T sched
   with the same explicit B as for schedules without spurious wake-ups (C04_bounded_steps_explicit_proof:
   B = 8(m+T) + (T+9) + 6*blocks + 10T).  Fairness reading: a schedule that performs only finitely many
   spurious wake-ups is finite, and by deadlock freedom ([enabled] speaks of the real threads only) every
   maximal such execution ends in the terminal state. *)
From Wencry Require Import Bytes FileModel PipeConc PipeProps PipeProofs.
From Wencry Require PipeSync.
From Wencry.Gen Require Sync.
Local Open Scope nat_scope.

Section C04.
Variable S : Type.
Variable tr : S -> list N -> S * list N.
Variable tr_event : nat -> S -> list event.
Variable c : nat.
Variable ispadding : bool.

(* a sleeping thread is never sleeping on a condition that already holds *)
Theorem C04_no_lost_wakeup : forall T sigma0 ls s,
  1 <= T -> length sigma0 = T -> wf_loads ls -> reachable S tr tr_event c ispadding T sigma0 ls s ->
  (forall i f, i < T -> getw S s i = W_Asleep f -> b_st (getb S s i) = EMPTY \/ b_st (getb S s i) = UPDATING) /\
  (io S s = I_Asleep -> b_st (getb S s (turn S s)) = READY).
Proof. exact (C04_no_lost_wakeup_proof S tr tr_event c ispadding). Qed.

(* in every reachable state that is not the final one (all workers returned and joined) some thread can run *)
Theorem C04_deadlock_free : forall T sigma0 ls s,
  1 <= T -> length sigma0 = T -> wf_loads ls -> reachable S tr tr_event c ispadding T sigma0 ls s ->
  terminal S s = false -> exists tid, enabled S tr tr_event c ispadding s tid = true.
Proof. exact (C04_deadlock_free_proof S tr tr_event c ispadding). Qed.

(* an explicit bound on the number of steps of ANY schedule, up to the spurious wake-ups it contains: a
   potential that strictly decreases at every step of a real thread and increases by at most 1 at a spurious
   wake-up (PipeTerm.v).  With deadlock freedom: every maximal execution with finitely many spurious
   wake-ups ends in the terminal state. *)
Theorem C04_bounded_steps : forall T sigma0 ls,
  1 <= T -> length sigma0 = T -> wf_loads ls ->
  exists B, forall sched s,
    run S tr tr_event c ispadding (init S T sigma0 ls) sched = Some s ->
    length sched <= B + 2 * spurious_count T sched.
Proof. exact (C04_bounded_steps_proof S tr tr_event c ispadding). Qed.

(* corollary: the statement for schedules of the real threads only *)
Theorem C04_bounded_steps_without_spurious : forall T sigma0 ls,
  1 <= T -> length sigma0 = T -> wf_loads ls ->
  exists B, forall sched s,
    run S tr tr_event c ispadding (init S T sigma0 ls) sched = Some s ->
    (forall t, In t sched -> t <= T) -> length sched <= B.
Proof. exact (C04_bounded_steps_without_spurious_proof S tr tr_event c ispadding). Qed.
End C04.
Print Assumptions C04_no_lost_wakeup.
Print Assumptions C04_deadlock_free.
Print Assumptions C04_bounded_steps.
Print Assumptions C04_bounded_steps_without_spurious.

(* the functions of the hand-over protocol, as clang reads the CURRENT sources, are textually the ones the transition system
   was written from (regenerated on every run; see PipeSync.v) *)
Theorem C04_protocol_text_is_the_modelled_one : Sync.sync_skeleton = PipeSync.expected_skeleton.
Proof. exact PipeSync.skeleton_unchanged. Qed.
Print Assumptions C04_protocol_text_is_the_modelled_one.
