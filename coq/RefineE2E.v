(* End to end: the translated runcrypt::execute_verify run by the thread machine of SrcRun5 = FileModel.verify.
   Composition of: the constructors and execute_verify in the sequential semantics (RefineE2EWhole), the cmphmac call obtained by
   simulation from the refinement lemmas of RefineFile*.v (RefineE2EBridge), what the run leaves alone (RefineE2EFrame), and
   the agreement of the thread machine with the sequential semantics (RefineSeqVerify). *)
From Coq Require Import ZArith NArith List String Bool Lia PeanoNat.
From Wencry Require Import Bytes HashModel HashProofs HmacProofs FileModel MiniC MiniCRun MiniCConc MiniCLemmas SrcRun SrcRun2 SrcRun5
     RefineHashDefs RefineHashDriver RefineSha256 RefineSha1 RefineMd5 RefineHash RefineFileBase RefineFileHmac RefineFileHmac2 RefineFileHmac3 RefineFileVerify
     RefineSeqVerify RefineE2ENames RefineE2ERel RefineE2EEval RefineE2EAlloc RefineE2ESim RefineE2EFrame RefineE2EWhole RefineE2EBridge.
From Wencry.Gen Require Layout Src_sha256 Src_sha1 Src_md5 Src_hashmaster Src_hashbuffer Src_hashfactory Src_fheader Src_cry Src_whole.
Import ListNotations.
Local Open Scope list_scope.
Local Open Scope string_scope.
Local Open Scope Z_scope.

Notation FS D pos e fo := [("fin", {| cf_data := D; cf_pos := pos; cf_eof := e |}); ("fout", fo)].

(* ---------------- what verification leaves alone ---------------- *)
Definition FL0 : list string :=
  OKL0 ++ ["runcrypt::verify/1"; "FileHeader::checkMn/0"; "FileHeader::checkType/0"; "FileHeader::getHmac/1"; "FileHeader::getctype/0";
           "FileHeader::gethtype/0"; "runcrypt::execute_verify/1"; "runcrypt::over/0"].
Definition Keys0 : list string := ["rc.fin"; "rc.out"].
Lemma HFL0 : forall g fn, In g FL0 -> lget whole_prog g = Some fn -> fok whole_prog FL0 Keys0 (f_body fn) = true.
Proof.
  assert (C : forallb (fun g => match lget whole_prog g with Some fn => fok whole_prog FL0 Keys0 (f_body fn) | None => true end) FL0 = true)
    by (vm_compute; reflexivity).
  intros g fn Hg L. rewrite forallb_forall in C. specialize (C g Hg). rewrite L in C. exact C.
Qed.
Lemma HK0 : forall k, In k Keys0 -> strip "class:" k = None.
Proof. intros k [<-|[<-|[]]]; reflexivity. Qed.
Lemma call_frame : forall fuel g pfx vs s v s', In g FL0 -> call whole_prog [] fuel g pfx vs s = Ok (v, s') -> Fr Keys0 s s'.
Proof.
  intros fuel g pfx vs s v s' Hg H. unfold call in H. destruct (lget whole_prog g) as [fn|] eqn:L; [|discriminate H].
  bo H as l El. bo H as r1 E1. destruct r1 as [o1 s1]. injection H as _ <-.
  pose proof (frame whole_prog [] FL0 Keys0 HFL0 HK0 fuel _ _ _ _ (HFL0 g fn Hg L) E1) as [A B].
  split; [exact A|exact B].
Qed.

(* ---------------- runcrypt::verify in the whole-file run ---------------- *)
Lemma gl_nil : forall c hbuf T Fl key mn, globals_ok (@nil (string * object)) (msrc (Mem4 c hbuf T Fl key mn)).
Proof. intros c hbuf T Fl key mn k o H. discriminate H. Qed.
Lemma gl_sha256 : forall c hbuf T Fl key mn, globals_ok Src_sha256.globals (msrc (Mem4 c hbuf T Fl key mn)).
Proof.
  intros c hbuf T Fl key mn k o H. unfold Src_sha256.globals in H. cbn [mget] in H.
  destruct (String.eqb_spec k "k") as [->|_]; [|discriminate H]. injection H as <-. rewrite mget_msrc. reflexivity.
Qed.

Lemma verify_whole : forall c hbuf T F key fsize,
  (1 <= hbuf)%nat -> Z.of_nat (64 * hbuf) < 2 ^ 32 -> block16 key -> bytesb F = true ->
  forall fuel, (2900 + List.length F / 64 <= fuel)%nat ->
  exists code s', verify hbuf F key = FileModel.Ok code /\
    call whole_prog [] fuel "runcrypt::verify/1" "rc." [VInt fsize] (St (M1 c hbuf T key) [] "" (FS (map Z.of_N F) 0%nat false (stream [] 0)) PS1 1%nat)
    = Ok (Some (VInt (Z.of_N code)), s').
Proof.
  intros c hbuf T F key fsize Hh1 Hh2 Hk HFb fuel Hfuel.
  apply (verify_W c hbuf T F key fsize (stream [] 0) HFb); [|exact Hfuel].
  intros H74 Hht f mn l0 Hf.
  assert (Hc : nth 9 F 0%N = 0%N \/ nth 9 F 0%N = 1%N \/ nth 9 F 0%N = 2%N) by lia.
  destruct Hc as [E|[E|E]]; rewrite E.
  - apply (cmp_W "sha1hash" alg_sha1 _ _ F_sha1hash 0%N hbuf (hctx_sha1 hbuf "rc.hmachandle." Hh1 Hh2 pfx_ok_rc) eq_refl F_sha1hash_bound five_sha1
             (or_introl eq_refl) eq_refl (fun c0 T0 => gl_nil c0 hbuf T0)); assumption.
  - apply (cmp_W "md5hash" alg_md5 _ _ F_md5hash 1%N hbuf (hctx_md5 hbuf "rc.hmachandle." Hh1 Hh2 pfx_ok_rc) eq_refl F_md5hash_bound five_md5
             (or_intror (or_introl eq_refl)) eq_refl (fun c0 T0 => gl_nil c0 hbuf T0)); assumption.
  - apply (cmp_W "sha256hash" alg_sha256 _ _ F_sha256hash 2%N hbuf (hctx_sha256 hbuf "rc.hmachandle." Hh1 Hh2 pfx_ok_rc) eq_refl F_sha256hash_bound five_sha256
             (or_intror (or_intror (or_introl eq_refl))) eq_refl (fun c0 T0 => gl_sha256 c0 hbuf T0)); assumption.
Qed.

(* ---------------- runcrypt::execute_verify ---------------- *)
Lemma verify_code : forall hbuf F key code, verify hbuf F key = FileModel.Ok code -> (code <= 4)%N.
Proof.
  intros hbuf F key code H. unfold verify in H.
  repeat match type of H with (if ?c then _ else _) = _ => destruct c end; try (injection H as <-; lia).
  destruct (hmac_model hbuf (nth 9 F 0%N) key (skipn iv_mark F)); [|discriminate H].
  destruct (cmphmac l (firstn 64 (skipn hmac_mark F))); injection H as <-; lia.
Qed.

Lemma lget_over : lget whole_prog "runcrypt::over/0" = Some Src_whole.f_runcrypt_over_0.
Proof. vm_compute. reflexivity. Qed.
Lemma over_call : forall fuel m l p fs ps fr a1 b1 a2 b2, (4 <= fuel)%nat ->
  lget ps "rc.fin" = Some (VPtr a1 b1) -> lget ps "rc.out" = Some (VPtr a2 b2) ->
  call whole_prog [] fuel "runcrypt::over/0" "rc." [] (St m l p fs ps fr) = Ok (None, St m l p fs ps fr).
Proof.
  intros fuel m l p fs ps fr a1 b1 a2 b2 Hf H1 H2. unfold call. rewrite lget_over.
  cbn [f_params f_body Src_whole.f_runcrypt_over_0 bind_params bind mem loc pre files ptrs fresh].
  do 4 (destruct fuel as [|fuel]; [lia|]).
  rewrite exec_seq. rewrite exec_if. cbn [eval bind pre ptrs append as_int eval_un]. rewrite H1. cbn [bind as_int eval_un].
  change (0 =? 0) with true. cbv iota. cbn [bind as_int]. change (1 =? 0) with false. cbv iota. rewrite exec_skip. cbn [bind].
  rewrite exec_if. cbn [eval bind pre ptrs append as_int eval_un]. rewrite H2. cbn [bind as_int eval_un].
  change (0 =? 0) with true. cbv iota. cbn [bind as_int]. change (1 =? 0) with false. cbv iota. rewrite exec_skip. reflexivity.
Qed.

Lemma execute_verify_call : forall c hbuf T F key,
  (1 <= hbuf)%nat -> Z.of_nat (64 * hbuf) < 2 ^ 32 -> block16 key -> bytesb F = true ->
  forall fuel, (2910 + List.length F / 64 <= fuel)%nat ->
  exists code s2, verify hbuf F key = FileModel.Ok code /\
    call whole_prog [] fuel "runcrypt::execute_verify/1" "rc." [VInt (Z.of_nat (List.length F))] (S1 c hbuf T F key)
    = Ok (Some (VInt (if (code =? 0)%N then 1 else 0)), s2).
Proof.
  intros c hbuf T F key Hh1 Hh2 Hk HFb fuel Hfuel.
  set (fsize := Z.of_nat (List.length F)).
  assert (Ef : exists f, fuel = (6 + f)%nat /\ (2900 + List.length F / 64 <= f)%nat) by (exists (fuel - 6)%nat; lia).
  destruct Ef as (f & -> & Hf).
  destruct (verify_whole c hbuf T F key fsize Hh1 Hh2 Hk HFb f Hf) as (code & sv & Hm & Ev).
  pose proof (verify_code _ _ _ _ Hm) as Hc4.
  assert (Hin : In "runcrypt::verify/1" FL0) by (unfold FL0; apply in_or_app; right; left; reflexivity).
  destruct (call_frame _ _ _ _ _ _ _ Hin Ev) as [_ FB]. cbn [ptrs] in FB.
  pose proof (call_any_caller whole_prog [] f "runcrypt::verify/1" "rc." [VInt fsize] _ [("fsize", VInt fsize)] "rc." _ _ _ _ _ Ev) as Ev'.
  exists code. eexists. split; [exact Hm|].
  unfold call. rewrite lget_execute_verify.
  cbn [f_params f_body Src_whole.f_runcrypt_execute_verify_1 bind_params bind S1 mem loc pre files ptrs fresh].
  change (6 + f)%nat with (S (S (S (S (S (S f)))))).
  rewrite exec_seq. rewrite exec_if. cbn [eval bind as_int pre ptrs append].
  change (lget PS1 "rc.fin") with (Some (VPtr "fin" 0)). cbn [bind as_int]. change (0 =? 0) with true. cbv iota.
  rewrite exec_skip. cbn [bind].
  rewrite exec_seq.
  rewrite (x_scall whole_prog [] _ (Some "$t2") "runcrypt::verify/1" None [EVar "fsize"]
             (St (M1 c hbuf T key) [("fsize", VInt fsize)] "rc." (FS0 F) PS1 1%nat) [VInt fsize] "rc." _ _ _ eq_refl eq_refl
             (call_mono whole_prog [] f _ _ _ _ _ Ev' (S (S (S f))) ltac:(lia)) eq_refl).
  cbn [bind]. unfold with_loc. cbn [mem loc pre files ptrs fresh lset String.eqb Ascii.eqb Bool.eqb].
  rewrite exec_seq. rewrite exec_set. cbn [eval bind as_int loc lget String.eqb Ascii.eqb Bool.eqb].
  rewrite wrap_I32_small by lia. unfold with_loc. cbn [bind mem loc pre files ptrs fresh lset String.eqb Ascii.eqb Bool.eqb].
  rewrite exec_seq.
  match goal with |- context [exec whole_prog [] (S ?f0) (SCall None "runcrypt::over/0" None []) (St ?m ?l ?p ?fs ?ps ?fr)] =>
    rewrite (x_scall whole_prog [] f0 None "runcrypt::over/0" None [] (St m l p fs ps fr) [] "rc." None (St m l p fs ps fr) (St m l p fs ps fr) eq_refl eq_refl
               (over_call f0 m l p fs ps fr "fin" 0 "fout" 0 ltac:(lia) (eq_trans (FB "rc.fin" (or_introl eq_refl)) eq_refl)
                          (eq_trans (FB "rc.out" (or_intror (or_introl eq_refl))) eq_refl)) eq_refl)
  end.
  cbn [bind]. rewrite x_return. cbn [eval bind as_int loc lget String.eqb Ascii.eqb Bool.eqb eval_bin].
  assert (Eb : (Z.of_N code =? 0) = (code =? 0)%N) by (destruct (N.eqb_spec code 0), (Z.eqb_spec (Z.of_N code) 0); lia || reflexivity).
  rewrite Eb. cbn [bind]. reflexivity.
Qed.

(* ---------------- the whole run in the sequential semantics ---------------- *)
Lemma whole_verify_exec : forall c hbuf T F key,
  (1 <= hbuf)%nat -> Z.of_nat (64 * hbuf) < 2 ^ 32 -> block16 key -> bytesb F = true ->
  exists fuel s' code, verify hbuf F key = FileModel.Ok code /\
    exec whole_prog [] fuel (whole_main WVer T (-1) (-1) true (Z.of_nat (List.length F))) (whole_state c hbuf T (-1) (-1) true F key []) = Ok (Normal, s') /\
    lget (loc s') "result" = Some (VInt (if (code =? 0)%N then 1 else 0)) /\
    fdata s' "fout" = Some [] /\ fdata s' "fin" = Some (map Z.of_N F).
Proof.
  intros c hbuf T F key Hh1 Hh2 Hk HFb.
  set (f := (2910 + List.length F / 64)%nat).
  destruct (execute_verify_call c hbuf T F key Hh1 Hh2 Hk HFb f (le_n _)) as (code & s2 & Hm & Ec).
  assert (Hin : In "runcrypt::execute_verify/1" FL0).
  { unfold FL0. apply in_or_app. right. cbn. auto 10. }
  destruct (call_frame _ _ _ _ _ _ _ Hin Ec) as [FA _].
  exists (S (S f)). eexists. exists code. split; [exact Hm|].
  unfold whole_main. rewrite exec_seq.
  rewrite (exec_mono whole_prog [] 30 _ _ _ (construct_run c hbuf T F key) (S f)) by (unfold f; lia).
  cbn [bind].
  rewrite (x_scall whole_prog [] f (Some "result") "runcrypt::execute_verify/1" (Some (EField "rc.")) [EConst (Z.of_nat (List.length F))]
             (S1 c hbuf T F key) [VInt (Z.of_nat (List.length F))] "rc." _ _ _ eq_refl eq_refl Ec eq_refl).
  split; [reflexivity|]. unfold with_loc. cbn [loc]. split; [apply lget_lset_same|].
  unfold fdata in *. cbn [files]. rewrite !FA. split; reflexivity.
Qed.

(* ---------------- the theorem ---------------- *)
Lemma SRC_execute_verify_is_model_proof : forall c hbuf T F key rnd,
  (1 <= c)%nat -> (1 <= hbuf)%nat -> (N.of_nat (64 * hbuf) < 2 ^ 32)%N -> (1 <= T < 256)%nat ->
  block16 key -> bytesb F = true -> (N.of_nat (List.length F) < 2 ^ 56)%N ->
  match src_verify_file c hbuf T F key rnd with
  | SOk (b, o, i, _) =>
      exists code, verify hbuf F key = FileModel.Ok code /\ b = (code =? 0)%N /\ o = [] /\ i = F
  | SErr w => w = "out of fuel"%string
  end.
Proof.
  intros c hbuf T F key rnd _ Hh1 Hh2 _ Hk HFb _.
  assert (Hh2' : Z.of_nat (64 * hbuf) < 2 ^ 32) by lia.
  destruct (whole_verify_exec c hbuf T F key Hh1 Hh2' Hk HFb) as (fuel & s' & code & Hm & Hex & Hres & Hfo & Hfi).
  pose proof (verify_file_is_sequential_proof c hbuf T F key rnd fuel Normal s' Hex) as P.
  destruct (src_verify_file c hbuf T F key rnd) as [[[[b o] i] st]|w]; [|exact P].
  destruct P as (P1 & P2 & P3 & _). exists code. split; [exact Hm|].
  unfold fdata in Hfo, Hfi. split; [|split].
  - rewrite Hres in P1. injection P1 as P1. destruct b, (code =? 0)%N; try reflexivity; discriminate P1.
  - rewrite P2. destruct (lget (files s') "fout") as [fo|]; [|reflexivity]. cbn [option_map] in Hfo. injection Hfo as ->. reflexivity.
  - rewrite P3. destruct (lget (files s') "fin") as [fi|]; [|discriminate Hfi]. cbn [option_map] in Hfi. injection Hfi as ->. apply map_to_of_N'.
Qed.
Print Assumptions SRC_execute_verify_is_model_proof.

(* non-vacuity: the hypotheses hold for a genuine encrypted file (RefineSeqVerify.nv_enc), which the machine accepts *)
Example e2e_nonvacuous :
  ((1 <= 1)%nat /\ (N.of_nat (64 * 1) < 2 ^ 32)%N /\ (1 <= 1 < 256)%nat /\ block16 nv_key /\ bytesb nv_enc = true /\
   (N.of_nat (List.length nv_enc) < 2 ^ 56)%N) /\
  verify 1 nv_enc nv_key = FileModel.Ok 0%N /\ src_verify_file 1 1 1 nv_enc nv_key 777 = SOk (true, [], nv_enc, 1%nat).
Proof. repeat split; try (vm_compute; reflexivity); try lia. Qed.
