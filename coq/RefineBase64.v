(* Refinement of valget/base64/base64.cpp: the functions translated from the C++ source
   (Gen/Src_base64.v: hex_to_base64/3, base64_to_hex/3, is_base64/1, is_valid_b64/2), run under the
   MiniC semantics through the entry points of SrcRun.v, compute what the hand-written model
   Base64Model.v computes -- for every input within the stated length bounds.
   Proofs: RefineB64Lib.v (symbolic-execution lemmas and tactics), RefineB64Enc.v, RefineB64Val.v,
   RefineB64Dec.v.  This file only restates the three results under the names Properties_Src.v uses. *)
From Coq Require Import ZArith NArith List String Bool.
From Wencry Require Import Bytes Base64Model MiniC MiniCRun SrcRun.
From Wencry Require RefineB64Enc RefineB64Val RefineB64Dec.
Import ListNotations.
Local Open Scope N_scope.

Lemma SRC_b64_encode_proof : forall data,
  bytesb data = true -> N.of_nat (length data) < 2 ^ 28 ->
  src_b64_encode data = SOk (hex_to_base64 data).
Proof. exact RefineB64Enc.SRC_b64_encode_proof. Qed.

Lemma SRC_b64_valid_proof : forall text,
  bytesb text = true -> N.of_nat (length text) < 2 ^ 31 ->
  src_b64_valid text = SOk (is_valid_b64 text).
Proof. exact RefineB64Val.SRC_b64_valid_proof. Qed.

Lemma SRC_b64_decode_proof : forall cap fill text out,
  forallb (fun c => c <? 128) text = true -> N.of_nat (length text) < 2 ^ 28 -> fill < 256 ->
  base64_to_hex text = DecOk out -> (length out <= cap)%nat ->
  src_b64_decode cap fill text = SOk (true, out ++ repeat fill (cap - length out)).
Proof. exact RefineB64Dec.SRC_b64_decode_proof. Qed.

Print Assumptions SRC_b64_encode_proof.
Print Assumptions SRC_b64_valid_proof.
Print Assumptions SRC_b64_decode_proof.

(* non-vacuity: the hypotheses hold on concrete inputs, and both sides evaluate to the expected value *)
Example SRC_b64_encode_nonvacuous :
  bytesb [77; 97; 110; 255; 0] = true /\ N.of_nat (length [77; 97; 110; 255; 0]) < 2 ^ 28 /\
  src_b64_encode [77; 97; 110; 255; 0] = SOk [84; 87; 70; 117; 47; 119; 65; 61; 0].
Proof. repeat split; vm_compute; reflexivity. Qed.

(* "AAAAAAAAAAAAAAAAAAAAAA==" (accepted) and the same with a third '=' (rejected) *)
Example SRC_b64_valid_nonvacuous :
  let good := repeat 65 22 ++ [61; 61] in
  let bad := repeat 65 21 ++ [61; 61; 61] in
  bytesb good = true /\ N.of_nat (length good) < 2 ^ 31 /\ src_b64_valid good = SOk true /\
  bytesb bad = true /\ src_b64_valid bad = SOk false.
Proof. repeat split; vm_compute; reflexivity. Qed.

(* "TWFu/wA=" decodes to 77 97 110 255 0 in a 7-byte buffer filled with 170 *)
Example SRC_b64_decode_nonvacuous :
  let text := [84; 87; 70; 117; 47; 119; 65; 61] in
  forallb (fun c => c <? 128) text = true /\ N.of_nat (length text) < 2 ^ 28 /\
  base64_to_hex text = DecOk [77; 97; 110; 255; 0] /\
  src_b64_decode 7 170 text = SOk (true, [77; 97; 110; 255; 0; 170; 170]).
Proof. repeat split; vm_compute; reflexivity. Qed.
