From Coq Require Import ZArith NArith List String Bool Lia.
From Wencry Require Import Bytes HashModel MiniC MiniCLemmas MiniCRun SrcRun RefineHashDefs RefineSha1Lib RefineSha1A RefineSha1B.
From Wencry.Gen Require Import HashConst.
From Wencry.Gen Require Src_sha1.
Import ListNotations.
Local Open Scope string_scope.
Local Open Scope list_scope.
Local Open Scope Z_scope.

Create HintDb u32db.
#[export] Hint Resolve u32_add32 u32_rotl32 u32_lor u32_lxor u32_land_l u32_not32 u32_nth u32_shl32 u32_shiftr u32_mod : u32db.
Ltac u32t := auto 10 with u32db.

(* ---- memset / memcpy on byte objects ---- *)
Lemma do_memset_u8 : forall s od bd n, mget (mem s) od = Some bd -> o_ty bd = U8 -> 0 <= n ->
  Z.of_nat (List.length (o_cells bd)) = n ->
  do_memset s (VPtr od 0) 0 n = Ok (with_mem s (mset (mem s) od {| o_ty := U8; o_cells := repeat 0 (Z.to_nat n) |})).
Proof.
  intros s od bd n Hm Ht Hn Hl. unfold do_memset. rewrite Hm, Ht. change (ity_bytes U8) with 1.
  rewrite Z.mod_1_r, !Z.div_1_r. change (0 mod 1) with 0. change (0 / 1) with 0. change (0 mod 256) with 0.
  change (0 =? 0) with true. change (1 =? 1) with true. change (0 <? 0) with false.
  destruct (n <? 0) eqn:A; [apply Z.ltb_lt in A; lia|]. cbn [negb orb]. cbn iota.
  rewrite Hl. change (0 + n) with n. rewrite Z.ltb_irrefl. cbn [Z.to_nat].
  rewrite upd_range_all; [reflexivity|]. rewrite repeat_length. lia.
Qed.

Lemma do_memcpy_u8 : forall s od bd os bs offs n src,
  mget (mem s) od = Some bd -> mget (mem s) os = Some bs -> o_ty bd = U8 -> o_ty bs = U8 -> 0 <= offs -> 0 <= n ->
  firstn (Z.to_nat n) (skipn (Z.to_nat offs) (o_cells bs)) = src ->
  (Z.to_nat offs + Z.to_nat n <= List.length (o_cells bs))%nat -> (Z.to_nat n <= List.length (o_cells bd))%nat ->
  do_memcpy s (VPtr od 0) (VPtr os offs) n = Ok (with_mem s (mset (mem s) od {| o_ty := U8; o_cells := upd_range 0 src (o_cells bd) |})).
Proof.
  intros s od bd os bs offs n src Hd Hs Htd Hts Ho Hn Hsrc Hl1 Hl2. unfold do_memcpy. rewrite Hd, Hs, Htd, Hts.
  change (ity_bytes U8) with 1. rewrite !Z.mod_1_r, !Z.div_1_r. change (0 mod 1) with 0. change (0 / 1) with 0.
  change (1 =? 1) with true. change (0 =? 0) with true. change (0 <? 0) with false.
  destruct (n <? 0) eqn:A; [apply Z.ltb_lt in A; lia|]. destruct (offs <? 0) eqn:B; [apply Z.ltb_lt in B; lia|].
  cbn [negb orb]. cbn iota.
  destruct (Z.of_nat (List.length (o_cells bs)) <? offs + n) eqn:C; [apply Z.ltb_lt in C; lia|].
  destruct (Z.of_nat (List.length (o_cells bd)) <? 0 + n) eqn:D; [apply Z.ltb_lt in D; lia|].
  cbn [Z.to_nat]. rewrite Hsrc. reflexivity.
Qed.

Definition fval (k : nat) (t1 t2 t3 : N) : N :=
  if (N.of_nat k <? 20)%N then add32 (HASH_A t1 t2 t3) 1518500249
  else if (N.of_nat k <? 40)%N then add32 (HASH_B t1 t2 t3) 1859775393
  else if (N.of_nat k <? 60)%N then add32 (HASH_C t1 t2 t3) 2400959708
  else add32 (HASH_B t1 t2 t3) 3395469782.
Lemma round_unfold : forall W t0 t1 t2 t3 t4 k,
  m_sha1_round W [t0; t1; t2; t3; t4] k =
  [add32 (add32 (add32 (rotl32 t0 5) (fval k t1 t2 t3)) t4) (nth k W 0%N); t0; rotl32 t1 30; t2; t3].
Proof. reflexivity. Qed.
Lemma u32_fval : forall k t1 t2 t3, u32 (fval k t1 t2 t3).
Proof. intros. unfold fval. repeat match goal with |- context [if ?c then _ else _] => destruct c end; apply u32_add32. Qed.

Lemma rounds_shape : forall W H k, List.length H = 5%nat -> Forall u32 H ->
  exists t0 t1 t2 t3 t4, fold_left (m_sha1_round W) (seq 0 k) H = [t0; t1; t2; t3; t4] /\
                         u32 t0 /\ u32 t1 /\ u32 t2 /\ u32 t3 /\ u32 t4.
Proof.
  intros W H k HL HU. induction k as [|k IH].
  - destruct H as [|h0 [|h1 [|h2 [|h3 [|h4 [|? ?]]]]]]; try discriminate.
    exists h0, h1, h2, h3, h4. cbn [seq fold_left]. split; [reflexivity|].
    repeat match goal with H : Forall _ (_ :: _) |- _ => inversion H; clear H; subst end. auto.
  - destruct IH as [t0 [t1 [t2 [t3 [t4 [E [U0 [U1 [U2 [U3 U4]]]]]]]]]].
    rewrite seq_S, fold_left_app, E. cbn [fold_left Nat.add]. rewrite round_unfold.
    do 5 eexists. split; [reflexivity|]. repeat split; u32t.
Qed.

Definition rloop : stmt := Eval cbv [f_body Src_sha1.f_sha1hash_getHash_1] in
  match f_body Src_sha1.f_sha1hash_getHash_1 with
  | SSeq _ (SSeq _ (SSeq _ (SSeq _ (SSeq _ (SSeq _ (SSeq _ (SSeq l _))))))) => l | _ => SSkip end.
Definition rbody : stmt := Eval cbv [rloop] in match rloop with SLoop _ b _ => b | _ => SSkip end.
Definition rif : stmt := Eval cbv [rbody] in match rbody with SSeq a _ => a | _ => SSkip end.
Definition rrest : stmt := Eval cbv [rbody] in match rbody with SSeq _ b => b | _ => SSkip end.

Ltac zt := change (Z.to_nat 0) with 0%nat; change (Z.to_nat 1) with 1%nat; change (Z.to_nat 2) with 2%nat;
           change (Z.to_nat 3) with 3%nat; change (Z.to_nat 4) with 4%nat.
Ltac shifts := repeat match goal with
   | |- context [Z.shiftl (Z.of_N ?a) (Zpos ?p)] => change (Z.shiftl (Z.of_N a) (Zpos p)) with (Z.shiftl (Z.of_N a) (Z.of_N (Npos p)))
   | |- context [Z.shiftr (Z.of_N ?a) (Zpos ?p)] => change (Z.shiftr (Z.of_N a) (Zpos p)) with (Z.shiftr (Z.of_N a) (Z.of_N (Npos p)))
   end.
Ltac z2n := repeat first [ rewrite zn_lnot by u32t | rewrite zn_land by u32t | rewrite zn_lor by u32t | rewrite zn_lxor by u32t
                         | rewrite zn_add | rewrite zn_shl | rewrite zn_shr | rewrite zn_wrap by u32t ].
Ltac fa := repeat apply Forall_updN; repeat constructor; u32t.
Ltac ldt := try (apply load_u32; [ rewrite ?updN_length; cbn [List.length]; lia | fa ]).

Section Rounds.
Variable vt : list (string * string).
Notation exec := (MiniC.exec hash_prog vt).

Lemma res_eq : forall (r : res (outcome * state)) s1 s2, r = Ok (Normal, s1) -> s1 = s2 -> r = Ok (Normal, s2).
Proof. intros; subst; reflexivity. Qed.
Lemma seq_ok_ex : forall (P : state -> Prop) f1 f2 f a b s s1,
  exec f1 a s = Ok (Normal, s1) -> (exists s2, exec f2 b s1 = Ok (Normal, s2) /\ P s2) -> (f1 < f)%nat -> (f2 < f)%nat ->
  exists s2, exec f (SSeq a b) s = Ok (Normal, s2) /\ P s2.
Proof.
  intros P f1 f2 f a b s s1 H1 [s2 [H2 HP]] L1 L2. exists s2. split; [|exact HP].
  eapply seq_ok; eauto.
Qed.
Lemma set_ok_int : forall f x e s z n, eval s e = Ok (VInt z) -> z = Z.of_N n -> (0 < f)%nat ->
  exec f (SSet x e) s = Ok (Normal, with_loc s (lset (loc s) x (VInt (Z.of_N n)))).
Proof. intros f x e s z n H E L. subst z. now apply set_ok. Qed.

Lemma rif_ok : forall mm l fs ps fr t0 t1 t2 t3 t4 k, (k < 80)%nat ->
  u32 t0 -> u32 t1 -> u32 t2 -> u32 t3 -> u32 t4 ->
  lget l "i" = Some (VInt (Z.of_nat k)) ->
  exec 10 rif (ST (mset mm "%temph" (u32_obj [t0; t1; t2; t3; t4])) l fs ps fr) =
  Ok (Normal, ST (mset mm "%temph" (u32_obj [t0; t1; t2; t3; t4])) (lset l "f" (VInt (Z.of_N (fval k t1 t2 t3)))) fs ps fr).
Proof.
  intros mm l fs ps fr t0 t1 t2 t3 t4 k Hk U0 U1 U2 U3 U4 Hi. unfold rif.
  assert (C : (k < 20 \/ (20 <= k < 40) \/ (40 <= k < 60) \/ (60 <= k < 80))%nat) by lia.
  destruct C as [C|[C|[C|C]]].
  - eapply if_ok with (f1 := 5%nat); [ev| |lia]. change (wrap U32 20) with 20.
    destruct (Z.ltb_spec (Z.of_nat k) 20); [|lia]. cbn [Z.eqb].
    eapply set_ok_int; [ev; ldt| |lia]. zt. cbn [nth].
    unfold fval. replace (N.of_nat k <? 20)%N with true by (symmetry; apply N.ltb_lt; lia).
    change (wrap U32 1518500249) with (Z.of_N 1518500249). z2n. reflexivity.
  - eapply if_ok with (f1 := 5%nat); [ev| |lia]. change (wrap U32 20) with 20.
    destruct (Z.ltb_spec (Z.of_nat k) 20); [lia|]. cbn [Z.eqb].
    eapply if_ok with (f1 := 4%nat); [ev| |lia]. change (wrap U32 40) with 40.
    destruct (Z.ltb_spec (Z.of_nat k) 40); [|lia]. cbn [Z.eqb].
    eapply set_ok_int; [ev; ldt| |lia]. zt. cbn [nth].
    unfold fval. replace (N.of_nat k <? 20)%N with false by (symmetry; apply N.ltb_ge; lia).
    replace (N.of_nat k <? 40)%N with true by (symmetry; apply N.ltb_lt; lia).
    change (wrap U32 1859775393) with (Z.of_N 1859775393). z2n. reflexivity.
  - eapply if_ok with (f1 := 5%nat); [ev| |lia]. change (wrap U32 20) with 20.
    destruct (Z.ltb_spec (Z.of_nat k) 20); [lia|]. cbn [Z.eqb].
    eapply if_ok with (f1 := 4%nat); [ev| |lia]. change (wrap U32 40) with 40.
    destruct (Z.ltb_spec (Z.of_nat k) 40); [lia|]. cbn [Z.eqb].
    eapply if_ok with (f1 := 3%nat); [ev| |lia]. change (wrap U32 60) with 60.
    destruct (Z.ltb_spec (Z.of_nat k) 60); [|lia]. cbn [Z.eqb].
    eapply set_ok_int; [ev; ldt| |lia]. zt. cbn [nth].
    unfold fval. replace (N.of_nat k <? 20)%N with false by (symmetry; apply N.ltb_ge; lia).
    replace (N.of_nat k <? 40)%N with false by (symmetry; apply N.ltb_ge; lia).
    replace (N.of_nat k <? 60)%N with true by (symmetry; apply N.ltb_lt; lia).
    change 2400959708 with (Z.of_N 2400959708). z2n. reflexivity.
  - eapply if_ok with (f1 := 5%nat); [ev| |lia]. change (wrap U32 20) with 20.
    destruct (Z.ltb_spec (Z.of_nat k) 20); [lia|]. cbn [Z.eqb].
    eapply if_ok with (f1 := 4%nat); [ev| |lia]. change (wrap U32 40) with 40.
    destruct (Z.ltb_spec (Z.of_nat k) 40); [lia|]. cbn [Z.eqb].
    eapply if_ok with (f1 := 3%nat); [ev| |lia]. change (wrap U32 60) with 60.
    destruct (Z.ltb_spec (Z.of_nat k) 60); [lia|]. cbn [Z.eqb].
    eapply set_ok_int; [ev; ldt| |lia]. zt. cbn [nth].
    unfold fval. replace (N.of_nat k <? 20)%N with false by (symmetry; apply N.ltb_ge; lia).
    replace (N.of_nat k <? 40)%N with false by (symmetry; apply N.ltb_ge; lia).
    replace (N.of_nat k <? 60)%N with false by (symmetry; apply N.ltb_ge; lia).
    change 3395469782 with (Z.of_N 3395469782). z2n. reflexivity.
Qed.

Lemma rrest_ok : forall mm l fs ps fr W t0 t1 t2 t3 t4 k fv, (k < 80)%nat ->
  List.length W = 80%nat -> Forall u32 W ->
  u32 t0 -> u32 t1 -> u32 t2 -> u32 t3 -> u32 t4 -> u32 fv ->
  mget mm "w" = Some (u32_obj W) ->
  lget l "i" = Some (VInt (Z.of_nat k)) -> lget l "f" = Some (VInt (Z.of_N fv)) ->
  exists l', exec 10 rrest (ST (mset mm "%temph" (u32_obj [t0; t1; t2; t3; t4])) l fs ps fr) =
  Ok (Normal, ST (mset mm "%temph" (u32_obj [add32 (add32 (add32 (rotl32 t0 5) fv) t4) (nth k W 0%N); t0; rotl32 t1 30; t2; t3])) l' fs ps fr)
  /\ lget l' "i" = Some (VInt (Z.of_nat k)).
Proof.
  intros mm l fs ps fr W t0 t1 t2 t3 t4 k fv Hk HWl HWu U0 U1 U2 U3 U4 Uf Hw Hi Hf. unfold rrest.
  eexists. split.
  - eapply seq_ok with (f1 := 1%nat) (f2 := 8%nat); [ | | lia | lia].
    { eapply set_ok_int; [ev; ldt| |lia].
      zt. cbn [nth]. rewrite Nat2Z.id. shifts. z2n. reflexivity. }
    nrm.
    eapply seq_ok with (f1 := 1%nat) (f2 := 7%nat); [ | | lia | lia].
    { eapply store_ok; [ev | ev; ldt | mg | apply store_u32; [cbn [List.length]; lia | zt; cbn [nth]; z2n; reflexivity] | lia]. }
    nrm; rewrite ?mset_mset_same; zt; cbn [updN nth].
    eapply seq_ok with (f1 := 1%nat) (f2 := 6%nat); [ | | lia | lia].
    { eapply store_ok; [ev | ev; ldt | mg | apply store_u32; [cbn [List.length]; lia | zt; cbn [nth]; z2n; reflexivity] | lia]. }
    nrm; rewrite ?mset_mset_same; zt; cbn [updN nth].
    eapply seq_ok with (f1 := 1%nat) (f2 := 5%nat); [ | | lia | lia].
    { eapply store_ok; [ev; ldt | ev; ldt | mg | apply store_u32; [cbn [List.length]; lia | zt; cbn [nth]; shifts; z2n; reflexivity] | lia]. }
    nrm; rewrite ?mset_mset_same; zt; cbn [updN nth].
    eapply seq_ok with (f1 := 1%nat) (f2 := 4%nat); [ | | lia | lia].
    { eapply store_ok; [ev | ev; ldt | mg | apply store_u32; [cbn [List.length]; lia | zt; cbn [nth]; z2n; reflexivity] | lia]. }
    nrm; rewrite ?mset_mset_same; zt; cbn [updN nth].
    eapply res_eq; [eapply store_ok; [ev | ev | mg | apply store_u32; [cbn [List.length]; lia | z2n; reflexivity] | lia]|].
    nrm; rewrite ?mset_mset_same; zt; cbn [updN nth]. reflexivity.
  - lg.
Qed.
End Rounds.

Lemma do_memcpy_temph : forall s H, mget (mem s) "%temph" = Some {| o_ty := U32; o_cells := repeat 0 (Z.to_nat 5) |} ->
  mget (mem s) "h" = Some (u32_obj H) -> List.length H = 5%nat ->
  do_memcpy s (VPtr "%temph" 0) (VPtr "h" 0) 20 = Ok (with_mem s (mset (mem s) "%temph" (u32_obj H))).
Proof.
  intros s H H1 H2 HL. destruct H as [|h0 [|h1 [|h2 [|h3 [|h4 [|? ?]]]]]]; try discriminate.
  unfold do_memcpy. rewrite H1, H2. unfold u32_obj. cbn -[Z.of_N]. reflexivity.
Qed.

Lemma W_length : forall blk, List.length blk = 64%nat -> List.length (m_sha1_W (words_of be32 blk)) = 80%nat.
Proof.
  intros blk H. unfold m_sha1_W. rewrite rev_length, sched_length, rev_length.
  rewrite (words_of_length be32 16) by (rewrite H; reflexivity). reflexivity.
Qed.
Lemma W_u32 : forall blk, List.length blk = 64%nat -> bytesb blk = true -> Forall u32 (m_sha1_W (words_of be32 blk)).
Proof.
  intros blk H Hb. unfold m_sha1_W. apply Forall_rev. apply sched_u32. apply Forall_rev.
  apply (words_of_u32 16); [rewrite H; reflexivity|exact Hb].
Qed.

Lemma length5 : forall (l : list N), List.length l = 5%nat -> exists a b c d e, l = [a; b; c; d; e].
Proof. intros l Hl. destruct l as [|h0 [|h1 [|h2 [|h3 [|h4 [|? ?]]]]]]; try discriminate. do 5 eexists. reflexivity. Qed.

Section GH1.
Variable vt : list (string * string).
Notation exec := (MiniC.exec hash_prog vt).
Variables (m : memory) (fs : list (string * cfile)) (ps : list (string * value)) (fr : nat).
Variables (o : string) (off : Z) (blk H : list N) (T : N) (so wo : object).
Hypothesis Hs : mget m "s" = Some so.
Hypothesis Hst : o_ty so = U8.
Hypothesis Hsl : List.length (o_cells so) = 64%nat.
Hypothesis Hw : mget m "w" = Some wo.
Hypothesis Hwt : o_ty wo = U32.
Hypothesis Hwl : List.length (o_cells wo) = 80%nat.
Hypothesis Hh : mget m "h" = Some (u32_obj H).
Hypothesis HHl : List.length H = 5%nat.
Hypothesis HHu : Forall u32 H.
Hypothesis Ht : mget m "totalsize" = Some (u64_cell T).
Hypothesis HT : (T < 2 ^ 64)%N.
Hypothesis Hin : bytes_at m o off blk.
Hypothesis Hbl : List.length blk = 64%nat.
Hypothesis Hbb : bytesb blk = true.
Hypothesis No_s : o <> "s".
Hypothesis No_w : o <> "w".
Hypothesis No_h : o <> "h".
Hypothesis No_t : o <> "totalsize".
Hypothesis No_p : o <> "%temph".

Let W := m_sha1_W (words_of be32 blk).
Let V := fold_left (m_sha1_round W) (seq 0 80) H.
Let m4 := mset (mset (mset m "s" (bytes_object blk)) "w" (u32_obj W)) "totalsize" (u64_cell (tot_add T 64)).

Definition InvR (k : nat) (s : state) : Prop :=
  exists l, s = ST (mset m4 "%temph" (u32_obj (fold_left (m_sha1_round W) (seq 0 k) H))) l fs ps fr /\
            lget l "i" = Some (VInt (Z.of_nat k)).
Definition Inv5 (k : nat) (s : state) : Prop :=
  exists l, s = ST (mset (mset m4 "%temph" (u32_obj V)) "h" (u32_obj (firstn k (map2 add32 H V) ++ skipn k H))) l fs ps fr /\
            lget l "i'1" = Some (VInt (Z.of_nat k)).

Lemma getHash1_body : exists l',
  exec 300 (f_body Src_sha1.f_sha1hash_getHash_1) (ST m [("input", VPtr o off)] fs ps fr) =
  Ok (Normal, ST (mset (mset m4 "%temph" (u32_obj V)) "h" (u32_obj (map2 add32 H V))) l' fs ps fr).
Proof.
  destruct so as [sty sc]. cbn [o_ty o_cells] in Hst, Hsl. subst sty.
  destruct wo as [wty wc]. cbn [o_ty o_cells] in Hwt, Hwl. subst wty.
  destruct Hin as [ob [Hob [Hobt [Hoff [Hfn Hlen']]]]]. rewrite Hbl in Hfn, Hlen'.
  pose proof (W_length blk Hbl) as HWl. pose proof (W_u32 blk Hbl Hbb) as HWu. fold W in HWl, HWu.
  destruct (getwdata_body vt (mset m "s" (bytes_object blk)) fs ps fr blk wc) as [lw EW].
  { mg. } { exact Hbl. } { exact Hbb. } { mg. } { exact Hwl. }
  cbn [f_body Src_sha1.f_sha1hash_getHash_1].
  (* round loop *)
  match goal with |- exists l', exec _ (SSeq _ (SSeq _ (SSeq _ (SSeq _ (SSeq _ (SSeq _ (SSeq _ (SSeq (SLoop ?c ?b ?st) _)))))))) _ = _ =>
    assert (ITR : forall k s, (k < 80)%nat -> InvR k s ->
     exists x, eval s c = Ok (VInt x) /\ x <> 0 /\
     exists s1' s2', exec 25 b s = Ok (Normal, s1') /\ exec 25 st s1' = Ok (Normal, s2') /\ InvR (S k) s2') end.
  { intros k s Hk [l [-> Hi]].
    destruct (rounds_shape W H k HHl HHu) as [t0 [t1 [t2 [t3 [t4 [E [U0 [U1 [U2 [U3 U4]]]]]]]]]]. rewrite E.
    eexists. split; [ev|]. split.
    { change (wrap U32 80) with 80. destruct (Z.ltb_spec (Z.of_nat k) 80); lia. }
    destruct (rrest_ok vt m4 (lset l "f" (VInt (Z.of_N (fval k t1 t2 t3)))) fs ps fr W t0 t1 t2 t3 t4 k (fval k t1 t2 t3))
      as [l2 [ER Hi2]]; auto.
    { apply u32_fval. } { unfold m4. mg. } { lg. } { lg. }
    eexists. eexists. split; [|split].
    - eapply (seq_ok hash_prog vt 10 10 25 rif rrest); [ | | lia | lia].
      + apply (rif_ok vt m4 l fs ps fr t0 t1 t2 t3 t4 k); auto.
      + exact ER.
    - eapply set_ok; [ev|lia].
    - nrm. rewrite succ_u32 by lia. eexists. split; [|lg].
      rewrite seq_S, fold_left_app, E. cbn [fold_left Nat.add]. rewrite round_unfold. reflexivity. }
  destruct (rounds_shape W H 80 HHl HHu) as [v0 [v1 [v2 [v3 [v4 [EV [UV0 [UV1 [UV2 [UV3 UV4]]]]]]]]]]. fold V in EV.
  destruct (length5 H HHl) as [h0 [h1 [h2 [h3 [h4 EH]]]]].
  match goal with |- exists l', exec _ (SSeq _ (SSeq _ (SSeq _ (SSeq _ (SSeq _ (SSeq _ (SSeq _ (SSeq _ (SSeq _ (SLoop ?c ?b ?st)))))))))) _ = _ =>
    assert (IT5 : forall k s, (k < 5)%nat -> Inv5 k s ->
     exists x, eval s c = Ok (VInt x) /\ x <> 0 /\
     exists s1' s2', exec 5 b s = Ok (Normal, s1') /\ exec 5 st s1' = Ok (Normal, s2') /\ Inv5 (S k) s2') end.
  { intros k s Hk [l [-> Hi]]. rewrite EV.
    assert (HU : Forall u32 [h0; h1; h2; h3; h4]) by (rewrite <- EH; exact HHu).
    assert (Uh : u32 h0 /\ u32 h1 /\ u32 h2 /\ u32 h3 /\ u32 h4).
    { repeat match goal with X : Forall _ (_ :: _) |- _ => inversion X; clear X; subst end. auto. }
    destruct Uh as [Uh0 [Uh1 [Uh2 [Uh3 Uh4]]]]. clear HU.
    eexists. split; [ev|]. split.
    { change (wrap U32 5) with 5. destruct (Z.ltb_spec (Z.of_nat k) 5); lia. }
    assert (C : (k = 0 \/ k = 1 \/ k = 2 \/ k = 3 \/ k = 4)%nat) by lia.
    rewrite EH.
    destruct C as [C|[C|[C|[C|C]]]]; subst k; cbn [firstn skipn map2 app];
    (eexists; eexists; split; [|split];
     [ eapply store_ok; [ev | ev; ldt | mg | apply store_u32; [cbn [List.length]; lia | rewrite !Nat2Z.id; cbn [nth]; z2n; reflexivity] | lia]
     | nrm; eapply set_ok; [ev|lia]
     | nrm; rewrite mset_mset_same, Nat2Z.id, succ_u32 by lia; cbn [updN]; unfold Inv5; rewrite EV, EH;
       cbn [firstn skipn map2 app]; eexists; split; [reflexivity|lg] ]). }
  (* assembly *)
  cut (exists s2, exec 300 (f_body Src_sha1.f_sha1hash_getHash_1) (ST m [("input", VPtr o off)] fs ps fr) = Ok (Normal, s2) /\
         exists l', s2 = ST (mset (mset m4 "%temph" (u32_obj V)) "h" (u32_obj (map2 add32 H V))) l' fs ps fr).
  { intros [s2 [E [l' ->]]]. exists l'. exact E. }
  cbn [f_body Src_sha1.f_sha1hash_getHash_1].
  eapply seq_ok_ex with (f1 := 1%nat) (f2 := 290%nat); [ | | lia | lia].
  { eapply memset_ok; [ev | ev | ev | eapply do_memset_u8; [mg | reflexivity | lia | cbn [o_cells]; rewrite Hsl; reflexivity] | lia]. }
  nrm.
  eapply seq_ok_ex with (f1 := 1%nat) (f2 := 280%nat); [ | | lia | lia].
  { eapply memcpy_ok; [ev | ev | ev | eapply do_memcpy_u8; [mg | mg | reflexivity | exact Hobt | exact Hoff | lia | exact Hfn | exact Hlen' | cbn [o_cells]; rewrite repeat_length; lia] | lia]. }
  nrm. rewrite mset_mset_same. cbn [o_cells]. rewrite upd_range_all by (rewrite map_length, repeat_length, Hbl; reflexivity).
  fold (bytes_object blk).
  eapply seq_ok_ex with (f1 := 130%nat) (f2 := 270%nat); [ | | lia | lia].
  { eapply call_ok with (f1 := 120%nat); [reflexivity | reflexivity | apply lk_getwdata | reflexivity | nrm; exact EW | reflexivity | lia]. }
  nrm. fold W.
  eapply seq_ok_ex with (f1 := 5%nat) (f2 := 260%nat); [ | | lia | lia].
  { apply addtotal_stmt with (n := 64%N) (T := T); [lia | reflexivity | reflexivity | mg | exact HT]. }
  fold m4.
  eapply seq_ok_ex with (f1 := 1%nat) (f2 := 250%nat); [ | | lia | lia].
  { apply localarr_ok. lia. }
  nrm.
  eapply seq_ok_ex with (f1 := 1%nat) (f2 := 240%nat); [ | | lia | lia].
  { eapply memcpy_ok; [ev | ev | ev | apply do_memcpy_temph with (H := H); [mg | unfold m4; mg | exact HHl] | lia]. }
  nrm. rewrite mset_mset_same.
  eapply seq_ok_ex with (f1 := 1%nat) (f2 := 230%nat); [ | | lia | lia].
  { eapply set_ok; [ev|lia]. }
  nrm.
  match goal with |- context [MiniC.exec _ _ _ (SSeq (SLoop ?c ?b ?st) _) ?s0] =>
    destruct (loop_inv hash_prog vt c b st InvR 80 25 ITR) with (d := 80%nat) (k := 0%nat) (s := s0) as [sA [EA [lA [-> HiA]]]] end.
  { intros s [l [-> Hi]]. ev. }
  { reflexivity. }
  { eexists. split; [reflexivity|reflexivity]. }
  eapply seq_ok_ex with (f1 := 106%nat) (f2 := 100%nat); [ exact EA | | lia | lia].
  eapply seq_ok_ex with (f1 := 1%nat) (f2 := 90%nat); [ | | lia | lia].
  { eapply set_ok; [ev|lia]. }
  nrm. fold V.
  match goal with |- context [MiniC.exec _ _ _ (SLoop ?c ?b ?st) ?s0] =>
    destruct (loop_inv hash_prog vt c b st Inv5 5 5 IT5) with (d := 5%nat) (k := 0%nat) (s := s0) as [sB [EB [lB [-> HiB]]]] end.
  { intros s [l [-> Hi]]. ev. }
  { reflexivity. }
  { eexists. split.
    - cbn [firstn skipn app].
      rewrite (mset_same (mset m4 "%temph" (u32_obj V)) "h" (u32_obj H)); [reflexivity|]. unfold m4. mg.
    - lg. }
  eexists. split; [eapply (exec_mono hash_prog vt _ _ _ _ EB); lia|].
  exists lB. rewrite EV, EH. cbn [firstn skipn map2 app]. reflexivity.
Qed.
End GH1.
