(* L2-L4: model of iobuffer::load_buffer / export_buffer, of the buffer-group pipeline in its
   sequential reading (the concurrent protocol is PipeConc.v; C03 relates the two), of the header
   writer/reader, runcrypt::verify and execute_encrypt / execute_decrypt / execute_verify.
   Written from kernel/cry.cpp, kernel/fheader.cpp, kernel/multi_aes/multi_buffergroup.cpp.
   Parameters: c = BUF_SZ (blocks per chunk), hbuf = HBUF_SZ, T = threads_num. *)
From Wencry Require Import Bytes AesModel ModesModel HashModel.
From Wencry.Gen Require Layout.
Local Open Scope N_scope.

Inductive result (A : Type) :=
| Ok (a : A)
| Fail (code : N)            (* verify() result code 1..4; nothing was written *)
| Crash (why : nat)          (* undefined behaviour in the C++: 1 NULL mode/hash object.  (Codes 2 out-of-bounds pad
                                read, 3 size underflow in export, 4 short IV read were produced by earlier versions
                                of this model; export_buffer was repaired and the model no longer produces them.) *)
| Hang.                      (* the pipeline never terminates (zero-block READY buffer; since the repair of
                                load_buffer no such buffer is produced by loads_of, see FileProofsTotal) *)
Arguments Ok {A} a. Arguments Fail {A} code. Arguments Crash {A} why. Arguments Hang {A}.

(* ---------- iobuffer ---------- *)
Record load := { ld_data : list N;      (* b[0..total): total*16 bytes *)
                 ld_total : nat;
                 ld_final : bool }.

Section Chunk.
Variable c : nat.                        (* BUF_SZ *)
Definition sum : nat := (16 * c)%nat.

(* load_buffer with ispadding = true, on the unread part of the input *)
Definition load_enc (rest : list N) : load * list N :=
  let got := firstn sum rest in
  let n := length got in
  if (n =? sum)%nat then ({| ld_data := got; ld_total := c; ld_final := false |}, skipn sum rest)
  else let tail := (n mod 16)%nat in
       let padding := (16 - tail)%nat in
       ({| ld_data := got ++ repeat (N.of_nat padding) padding; ld_total := S (n / 16); ld_final := true |}, [])
.
(* load_buffer with ispadding = false: FINAL when the read hit end of file, which includes (peek)
   the case that exactly sum bytes were left; the tail (load & 0xf) bytes are ignored *)
Definition load_dec (rest : list N) : load * list N :=
  let got := firstn sum rest in
  let n := length got in
  let rest' := skipn sum rest in
  let readover := (n <? sum)%nat || match rest' with [] => true | _ => false end in
  ({| ld_data := firstn (16 * (n / 16)) got; ld_total := (n / 16)%nat; ld_final := readover |}, rest').

(* the loads performed until `over` (the first non-FULL load); fuel = upper bound on their number.
   A FINAL load without a block (decryption: fewer than 16 bytes left -- an empty body or a ragged
   tail) is reported as NODATA by load_buffer: no buffer is handed over, loading just ends *)
Fixpoint loads (ld : list N -> load * list N) (fuel : nat) (rest : list N) : list load :=
  match fuel with
  | O => []
  | S f => let (l, rest') := ld rest in
           if ld_final l then (if (ld_total l =? 0)%nat then [] else [l]) else l :: loads ld f rest'
  end.
Definition loads_of (ispadding : bool) (rest : list N) : list load :=
  loads (if ispadding then load_enc else load_dec) (S (length rest / sum)) rest.

(* export_buffer after the worker consumed the buffer (now = total); data = processed bytes *)
Definition export (ispadding : bool) (l : load) (data : list N) : result (list N) :=
  if ld_final l then
    if ispadding then Ok (firstn (16 * ld_total l) data)
    else let size := (16 * ld_total l)%nat in           (* u32_t size = now << 4 *)
         (* u8_t padding = (ispadding || now == 0) ? 0 : b[now - 1][15] *)
         let padding := if (ld_total l =? 0)%nat then 0%nat else N.to_nat (nth (size - 1) data 0) in
         (* fwrite(b, 1, padding > size ? 0 : size - padding, fout) *)
         Ok (if (size <? padding)%nat then [] else firstn (size - padding) data)
  else Ok (firstn sum data).
End Chunk.

(* ---------- the pipeline, sequentially: chunk j is transformed by stream j mod T, exported in load order ---------- *)
Definition blocks16_of (l : list N) : list (list N) := chunks 16 l.

Fixpoint set_nth {A} (n : nat) (x : A) (l : list A) : list A :=
  match n, l with
  | O, _ :: t => x :: t
  | S n', h :: t => h :: set_nth n' x t
  | _, [] => []
  end.

Section Pipe.
Variable E D : list N -> list N.
Variable kind : mkind.
Variable T : nat.
Variable c : nat.
Variable ispadding : bool.

Fixpoint pipe_chunks (ivs : list (list N)) (j : nat) (ls : list load) : result (list N) :=
  match ls with
  | [] => Ok []
  | l :: r =>
      if ld_final l && (ld_total l =? 0)%nat then Hang   (* READY with zero blocks: worker exits, I/O thread waits forever *)
      else
        let i := (j mod T)%nat in
        let '(iv', out) := run E D kind (nth i ivs []) (blocks16_of (ld_data l)) in
        match export c ispadding l (concat out) with
        | Ok bytes => match pipe_chunks (set_nth i iv' ivs) (S j) r with
                      | Ok rest => Ok (bytes ++ rest)
                      | e => e
                      end
        | e => e
        end
  end.
Definition pipe_seq (iv16 : list N) (rest : list N) : result (list N) :=
  pipe_chunks (repeat iv16 T) 0 (loads_of c ispadding rest).
End Pipe.

(* ---------- header ---------- *)
Definition magic_bytes : list N := le64_bytes Layout.Magic_Num.
(* FileHeader::getIV(r_buf, iv): iv[0] = SHA1(seed), iv[i] = SHA1(iv[i-1]) *)
Fixpoint iv_chain_from (prev : list N) (n : nat) : list N :=
  match n with
  | O => []
  | S n' => let h := getStringHash alg_sha1 prev in h ++ iv_chain_from h n'
  end.
Definition iv_chain (seed : list N) (T : nat) : list N :=
  match T with
  | O => getStringHash alg_sha1 seed        (* the first hash is written unconditionally *)
  | S n => let h := getStringHash alg_sha1 seed in h ++ iv_chain_from h n
  end.
(* FileHeader::getFileHeader *)
Definition file_header (cm hm : N) (ivs : list N) (T : nat) : list N :=
  magic_bytes ++ [cm; hm] ++ zeros (N.to_nat Layout.PADDING) ++ firstn (20 * T) ivs.

Definition text_mark (T : nat) : nat := (N.to_nat Layout.FILE_TEXT_BASE + N.to_nat Layout.FILE_TEXT_PER_THREAD * T)%nat.
Definition iv_mark : nat := N.to_nat Layout.FILE_IV_MARK.
Definition hmac_mark : nat := N.to_nat Layout.FILE_HMAC_MARK.

(* overwrite l at offset off with w (extending with zeros if needed) *)
Definition patch (l : list N) (off : nat) (w : list N) : list N :=
  let l := l ++ zeros (off - length l) in
  firstn off l ++ w ++ skipn (off + length w) l.

Section Ops.
Variable c hbuf T : nat.

(* runcrypt::execute_encrypt: the sequence of fwrite calls (offset, bytes) issued on the output *)
Definition enc_writes (P key : list N) (cm hm : N) (seed : list N) : result (list (nat * list N)) :=
  let ivs := iv_chain seed T in
  let hdr := file_header cm hm ivs T in
  match create true cm with
  | None => Crash 1
  | Some kind =>
      let ks := genall key in
      match pipe_seq (aes_enc_with ks) (aes_dec_with ks) kind T c true (firstn 16 ivs) P with
      | Ok body =>
          match hmac_model hbuf hm key (skipn iv_mark (hdr ++ body)) with
          | None => Crash 1
          | Some tag => Ok [(0%nat, hdr ++ body); (hmac_mark, tag)]
          end
      | Fail x => Fail x | Crash w => Crash w | Hang => Hang
      end
  end.
Definition apply_writes (ws : list (nat * list N)) : list N :=
  fold_left (fun f w => patch f (fst w) (snd w)) ws [].
Definition enc (P key : list N) (cm hm : N) (seed : list N) : result (list N) :=
  match enc_writes P key cm hm seed with
  | Ok ws => Ok (apply_writes ws)
  | Fail x => Fail x | Crash w => Crash w | Hang => Hang
  end.

(* runcrypt::verify: 0 = accepted *)
Definition verify (F key : list N) : result N :=
  if (length F <? 8)%nat then Ok 4
  else if negb (list_eqb (firstn 8 F) magic_bytes) then Ok 4
  else if (length F <? hmac_mark + 64)%nat then Ok 1
  else
    let ctype := nth 8 F 0 in
    let htype := nth 9 F 0 in
    if (4 <? ctype) || (2 <? htype) then Ok 3
    else match hmac_model hbuf htype key (skipn iv_mark F) with
         | None => Crash 1
         | Some tag => if cmphmac tag (firstn 64 (skipn hmac_mark F)) then Ok 0 else Ok 2
         end.

(* execute_verify: success flag; never writes *)
Definition ver (F key : list N) : result bool :=
  match verify F key with
  | Ok code => Ok (code =? 0)
  | Fail x => Fail x | Crash w => Crash w | Hang => Hang
  end.

(* execute_decrypt: Ok out = success with these output bytes; Fail code = failure, nothing written *)
Definition dec (F key : list N) : result (list N) :=
  match verify F key with
  | Ok 0 =>
      (* verify accepted, so length F >= hmac_mark + 64 = iv_mark + 26: the 16 IV bytes used are present;
         a file shorter than text_mark T has an empty body (fseek beyond EOF, fread returns 0) *)
      match create false (nth 8 F 0) with
      | None => Crash 1
      | Some kind =>
          let ks := genall key in
          pipe_seq (aes_enc_with ks) (aes_dec_with ks) kind T c false
                   (firstn 16 (skipn iv_mark F)) (skipn (text_mark T) F)
      end
  | Ok code => Fail code
  | Fail x => Fail x | Crash w => Crash w | Hang => Hang
  end.
End Ops.
