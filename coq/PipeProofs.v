(* Proofs of the concurrency properties C14 / C04 / C03 over PipeConc, from the invariant of PipeInv.v.
   Dependency order: PipeLemmas.v, PipeInv.v, PipeTerm.v, PipeProofs.v.
   Schedules may contain spurious wake-ups (thread ids above T, PipeConc.spurious) at any point; [reachable]
   and every [sched] below range over those schedules too.  [enabled] is about the real threads only, so
   deadlock freedom says that a REAL thread can run. *)
From Wencry Require Import Bytes FileModel PipeConc PipeProps PipeLemmas PipeInv.
From Wencry Require Export PipeTerm.   (* C04_bounded_steps_proof, C04_bounded_steps_without_spurious_proof *)
From Coq Require Import ZifyNat.
Local Open Scope nat_scope.

Section Proofs.
Variable S : Type.
Variable tr : S -> list N -> S * list N.
Variable tr_event : nat -> S -> list event.
Variable c : nat.
Variable ispadding : bool.

Notation state := (state S).
Notation getb := (getb S).
Notation getw := (getw S).

Lemma reach_inv T sigma0 ls s :
  1 <= T -> length sigma0 = T -> wf_loads ls -> reachable S tr tr_event c ispadding T sigma0 ls s ->
  exists dS q r, InvQR S tr c ispadding T sigma0 ls dS q r s.
Proof.
  intros HT Hsig Hwf Hr. destruct sigma0 as [|x0 rest] eqn:E; [cbn in Hsig; lia|]. rewrite <- E in *.
  exists x0. apply (inv_reachable S tr tr_event c ispadding T sigma0 ls x0 HT Hsig Hwf s Hr).
Qed.

(* ================= C14 ================= *)
Lemma C14_exclusive_hand_over_proof : forall T sigma0 ls s i,
  1 <= T -> length sigma0 = T -> wf_loads ls -> reachable S tr tr_event c ispadding T sigma0 ls s -> i < T ->
  (worker_touches S s i -> b_st (getb s i) = READY \/ (b_st (getb s i) = INV /\ b_now (getb s i) = b_total (getb s i))) /\
  (io_owns S s i -> b_st (getb s i) = EMPTY \/ b_st (getb s i) = UPDATING) /\
  ~ (worker_touches S s i /\ io_owns S s i).
Proof.
  intros T sigma0 ls s i HT Hsig Hwf Hreach Hi.
  destruct (reach_inv T sigma0 ls s HT Hsig Hwf Hreach) as (dS & q & r & Hinv).
  destruct Hinv as (Lb & Lw & Lx & Hr & Ht & Hio & Hbuf). specialize (Hbuf i Hi).
  assert (A : worker_touches S s i -> is_own (iot r (io S s) i) = false /\
              (b_st (getb s i) = READY \/ (b_st (getb s i) = INV /\ b_now (getb s i) = b_total (getb s i)))).
  { intros Hw. apply (BufInv_touch _ _ _ _ _ _ _ _ _ _ _ _ _ _ Hbuf). exact Hw. }
  assert (B : io_owns S s i -> is_own (iot r (io S s) i) = true).
  { intros [Et Ho]. rewrite Ht in Et. subst i. rewrite iot_self.
    destruct (io S s); try contradiction; reflexivity. }
  split; [intros Hw; apply A in Hw; tauto|].
  split; [intros Ho; apply (BufInv_own_st _ _ _ _ _ _ _ _ _ _ _ _ _ _ Hbuf); apply B; exact Ho|].
  intros [Hw Ho]. apply A in Hw. apply B in Ho. destruct Hw as [Hw _]. congruence.
Qed.

Lemma step_io_bst s s' evs i :
  turn S s < length (bufs S s) -> step_io S c ispadding s = Some (s', evs) ->
  b_st (getb s' i) <> b_st (getb s i) ->
  i = turn S s /\ exists x, io S s = I_SetReady x /\ b_st (getb s' i) = (if x =? 2 then INV else READY).
Proof.
  unfold step_io. intros Ht H Hne. destruct (io S s) eqn:Eio; try discriminate.
  - unfold i_wait in H. destruct (upd_or_empty (b_st (getb s (turn S s)))); injection H as <- _; exfalso; apply Hne; reflexivity.
  - unfold i_wait in H. destruct (upd_or_empty (b_st (getb s (turn S s)))); injection H as <- _; exfalso; apply Hne; reflexivity.
  - destruct (b_st (getb s (turn S s))); injection H as <- _; exfalso; apply Hne; reflexivity.
  - destruct (export c ispadding _ _); injection H as <- _; exfalso; apply Hne; reflexivity.
  - destruct (over S s); [injection H as <- _; exfalso; apply Hne; reflexivity|].
    destruct (input S s) as [|l rest]; injection H as <- _; exfalso; apply Hne; [reflexivity|].
    unfold PipeConc.getb at 1. cbn [bufs].
    destruct (Nat.eq_dec (turn S s) i) as [<-|Hd].
    + rewrite nth_set_nth_eq by exact Ht. reflexivity.
    + rewrite nth_set_nth_neq by exact Hd. reflexivity.
  - injection H as <- _. rewrite getb_wake_worker in Hne |- *.
    unfold PipeConc.getb at 1 in Hne. unfold PipeConc.getb at 1. cbn [bufs set_buf] in Hne |- *.
    destruct (Nat.eq_dec (turn S s) i) as [<-|Hd].
    + split; [reflexivity|]. exists loadstate. split; [reflexivity|].
      rewrite nth_set_nth_eq by exact Ht. reflexivity.
    + exfalso. apply Hne. rewrite nth_set_nth_neq by exact Hd. reflexivity.
  - destruct (live S s =? 0); injection H as <- _; exfalso; apply Hne; reflexivity.
  - destruct (getw s k); try discriminate; injection H as <- _; exfalso; apply Hne; reflexivity.
Qed.

Lemma C14_token_moves_proof : forall T sigma0 ls s tid s' evs i,
  1 <= T -> length sigma0 = T -> wf_loads ls -> reachable S tr tr_event c ispadding T sigma0 ls s -> i < T ->
  step S tr tr_event c ispadding s tid = Some (s', evs) ->
  b_st (getb s' i) <> b_st (getb s i) ->
  (tid = Datatypes.S i /\ b_st (getb s i) = READY /\ b_st (getb s' i) = UPDATING) \/
  (tid = 0 /\ turn S s = i /\ (b_st (getb s i) = EMPTY \/ b_st (getb s i) = UPDATING) /\
   (b_st (getb s' i) = READY \/ b_st (getb s' i) = INV)).
Proof.
  intros T sigma0 ls s tid s' evs i HT Hsig Hwf Hreach Hi Hstep Hne.
  destruct (reach_inv T sigma0 ls s HT Hsig Hwf Hreach) as (dS & q & r & Hinv).
  destruct Hinv as (Lb & Lw & Lx & Hr & Ht & Hio & Hbuf).
  unfold step in Hstep. destruct (tid <=? nT S s).
  2:{ (* a spurious wake-up changes no buffer *)
    exfalso. apply Hne. unfold spurious in Hstep. destruct (tid - nT S s - 1) as [|j].
    - destruct (io S s); try discriminate. injection Hstep as <- _. reflexivity.
    - destruct (j <? nT S s); [|discriminate]. destruct (getw s j); try discriminate.
      injection Hstep as <- _. reflexivity. }
  unfold step_real in Hstep. destruct tid as [|j].
  - right. destruct (step_io_bst s s' evs i ltac:(lia) Hstep Hne) as (Ei & x & Eio & Est).
    split; [reflexivity|]. split; [symmetry; exact Ei|]. split.
    + specialize (Hbuf i Hi). apply (BufInv_own_st _ _ _ _ _ _ _ _ _ _ _ _ _ _ Hbuf).
      rewrite Eio. replace i with r by congruence. rewrite iot_self. reflexivity.
    + rewrite Est. destruct (x =? 2); [right|left]; reflexivity.
  - left. destruct (j <? nT S s) eqn:Ej; [|discriminate]. apply Nat.ltb_lt in Ej. unfold nT in Ej.
    destruct (step_worker_spec S tr tr_event dS s j s' evs) as (b' & w' & x' & wk & Hloc & Eb & Ew & Ex & Eio & Hfr);
      try lia; [exact Hstep|].
    destruct (Nat.eq_dec i j) as [->|Hd].
    + split; [reflexivity|]. rewrite Eb in Hne |- *.
      destruct (BufInv_wlocal S tr tr_event c ispadding T sigma0 ls dS HT Hsig Hwf _ _ _ _ _ _ _ _ _ _ (Hbuf j Hi) Hloc) as [_ Hmv].
      destruct Hmv as [[_ Hs]|(_ & Hs & Hs')]; [congruence|]. split; assumption.
    + exfalso. apply Hne. destruct Hfr as (_ & _ & _ & _ & _ & _ & _ & _ & _ & Hoth).
      destruct (Hoth i Hd) as (-> & _). reflexivity.
Qed.

Lemma C14_workers_touch_only_their_buffer_proof0 : forall s i s' evs j,
  step_worker S tr tr_event s i = Some (s', evs) -> j <> i -> getb s' j = getb s j.
Proof.
  intros s i s' evs j H Hne. unfold step_worker in H.
  assert (Hsb : forall st b', getb (set_buf S st i b') j = getb st j)
    by (intros; apply getb_set_buf_neq; congruence).
  destruct (getw s i).
  - injection H as <- _. reflexivity.
  - unfold w_wait in H. destruct (ready_or_inv _); injection H as <- _; reflexivity.
  - destruct (nth_error (wsts S s) i) as [x|]; [|discriminate].
    destruct (take_entry S tr tr_event (getb s i) x i) as [[[b' x'] evs']|]; injection H as <- _.
    + rewrite getb_set_wst. apply Hsb.
    + reflexivity.
  - injection H as <- _. rewrite getb_set_wpc.
    destruct (b_st (getb s i)); try reflexivity. rewrite getb_wake_io. apply Hsb.
  - unfold w_wait in H. destruct (ready_or_inv _); injection H as <- _; reflexivity.
  - discriminate.
  - unfold w_wait in H. destruct (ready_or_inv _); injection H as <- _; reflexivity.
  - destruct (nth_error (wsts S s) i) as [x|]; [|discriminate].
    destruct (b_st (getb s i)); try (injection H as <- _; reflexivity).
    destruct (take_entry S tr tr_event (getb s i) x i) as [[[b' x'] evs']|]; injection H as <- _.
    + rewrite getb_set_wpc, getb_set_wst. apply Hsb.
    + reflexivity.
  - discriminate.
Qed.

(* ================= C04 ================= *)
Lemma C04_no_lost_wakeup_proof : forall T sigma0 ls s,
  1 <= T -> length sigma0 = T -> wf_loads ls -> reachable S tr tr_event c ispadding T sigma0 ls s ->
  (forall i f, i < T -> getw s i = W_Asleep f -> b_st (getb s i) = EMPTY \/ b_st (getb s i) = UPDATING) /\
  (io S s = I_Asleep -> b_st (getb s (turn S s)) = READY).
Proof.
  intros T sigma0 ls s HT Hsig Hwf Hreach.
  destruct (reach_inv T sigma0 ls s HT Hsig Hwf Hreach) as (dS & q & r & Hinv).
  destruct Hinv as (Lb & Lw & Lx & Hr & Ht & Hio & Hbuf). split.
  - intros i f Hi Ew. specialize (Hbuf i Hi). rewrite Ew in Hbuf.
    apply (BufInv_asleep _ _ _ _ _ _ _ _ _ _ _ _ _ _ Hbuf).
  - intros Eio. specialize (Hbuf r Hr). rewrite Ht. rewrite Eio, iot_self in Hbuf. cbn [post_fin] in Hbuf.
    destruct Hbuf as [_ Hpre]. exact Hpre.
Qed.

Lemma step_io_some s :
  match io S s with I_Asleep | I_Done | I_Join _ => False | _ => True end ->
  exists res, step_io S c ispadding s = Some res.
Proof.
  unfold step_io. destruct (io S s); intros H; try contradiction; try (eexists; reflexivity).
  - destruct (b_st (getb s (turn S s))); eexists; reflexivity.
  - destruct (over S s); [eexists; reflexivity|]. destruct (input S s); eexists; reflexivity.
  - destruct (live S s =? 0); eexists; reflexivity.
Qed.

Lemma step_worker_some s i : i < length (wsts S s) ->
  match getw s i with W_Asleep _ | W_Done => False | _ => True end ->
  exists res, step_worker S tr tr_event s i = Some res.
Proof.
  intros Hi H. unfold step_worker.
  destruct (nth_error (wsts S s) i) as [x|] eqn:Ex; [|apply nth_error_None in Ex; lia].
  destruct (getw s i); try contradiction; try (eexists; reflexivity).
  - destruct (take_entry S tr tr_event (getb s i) x i) as [[[b' x'] evs']|]; eexists; reflexivity.
  - destruct (b_st (getb s i)); try (eexists; reflexivity).
    destruct (take_entry S tr tr_event (getb s i) x i) as [[[b' x'] evs']|]; eexists; reflexivity.
Qed.

Lemma worker_enabled s i : i < length (bufs S s) -> i < length (wsts S s) ->
  match getw s i with W_Asleep _ | W_Done => False | _ => True end ->
  enabled S tr tr_event c ispadding s (Datatypes.S i) = true.
Proof.
  intros Hb Hx H. unfold enabled, step_real. assert (E : (i <? nT S s) = true) by (apply Nat.ltb_lt; exact Hb).
  rewrite E. destruct (step_worker_some s i Hx H) as [res ->]. reflexivity.
Qed.

Lemma forallb_false_nth {A} (f : A -> bool) (d : A) : forall l, forallb f l = false ->
  exists k, k < length l /\ f (nth k l d) = false.
Proof.
  induction l as [|a l IH]; intros H; cbn [forallb] in H; [discriminate|].
  destruct (f a) eqn:E.
  - cbn [andb] in H. destruct (IH H) as (k & Hk & Hf). exists (Datatypes.S k). cbn [length nth]. split; [lia|exact Hf].
  - exists 0. cbn [length nth]. split; [lia|exact E].
Qed.

Lemma C04_deadlock_free_proof : forall T sigma0 ls s,
  1 <= T -> length sigma0 = T -> wf_loads ls -> reachable S tr tr_event c ispadding T sigma0 ls s ->
  terminal S s = false -> exists tid, enabled S tr tr_event c ispadding s tid = true.
Proof.
  intros T sigma0 ls s HT Hsig Hwf Hreach Hterm.
  destruct (reach_inv T sigma0 ls s HT Hsig Hwf Hreach) as (dS & q & r & Hinv).
  pose proof Hinv as (Lb & Lw & Lx & Hr & Ht & Hio & Hbuf).
  assert (Hio0 : match io S s with I_Asleep | I_Done | I_Join _ => False | _ => True end ->
                 exists tid, enabled S tr tr_event c ispadding s tid = true).
  { intros H. exists 0. unfold enabled, step_real. destruct (step_io_some s H) as [res ->]. reflexivity. }
  (* a worker that is neither asleep nor done can run *)
  assert (Hw : forall k, k < T -> match getw s k with W_Asleep _ | W_Done => False | _ => True end ->
               exists tid, enabled S tr tr_event c ispadding s tid = true).
  { intros k Hk H. exists (Datatypes.S k). apply worker_enabled; [lia|lia|exact H]. }
  (* at the end, a worker that has not returned can run *)
  assert (Hfin : forall k, post_fin (io S s) = true -> q * T + r + 1 = m ls + T -> k < T -> getw s k <> W_Done ->
                 exists tid, enabled S tr tr_event c ispadding s tid = true).
  { intros k Hp HV Hk Hnd. apply (Hw k Hk).
    destruct (fin_all_dead S tr tr_event c ispadding T sigma0 ls dS HT Hsig q r s k Hinv Hp HV Hk) as (_ & _ & Ha & _).
    destruct (getw s k); try exact I; try contradiction; try congruence. }
  destruct (io S s) eqn:Eio; try (apply Hio0; exact I).
  - (* I_Asleep: the worker of the visited buffer can run *)
    specialize (Hbuf r Hr). rewrite iot_self in Hbuf. cbn [post_fin] in Hbuf.
    destruct Hbuf as [Hidle Hpre]. cbn [pre_ok] in Hpre. apply (Hw r Hr).
    destruct (getw s r) eqn:Ew; try exact I.
    + assert (Hb : BufInv S tr c ispadding T sigma0 ls dS (nvis q r I_Asleep r) None r (getb s r) (W_Asleep from_start) (nth r (wsts S s) dS))
        by (split; [exact Hidle|exact I]).
      apply BufInv_asleep in Hb. destruct Hb; congruence.
    + assert (Hb : BufInv S tr c ispadding T sigma0 ls dS (nvis q r I_Asleep r) None r (getb s r) W_Done (nth r (wsts S s) dS))
        by (split; [exact Hidle|exact I]).
      apply BufInv_done in Hb. congruence.
  - (* I_Join k *)
    unfold IoInv in Hio. rewrite Eio in Hio. destruct Hio as (_ & _ & _ & _ & [Hk HV] & _).
    destruct (getw s k) eqn:Ew;
      try (apply (Hfin k ltac:(reflexivity) HV Hk); rewrite Ew; discriminate).
    exists 0. unfold enabled, step_real, step_io. rewrite Eio, Ew. reflexivity.
  - (* I_Done *)
    unfold IoInv in Hio. rewrite Eio in Hio. destruct Hio as (_ & _ & _ & _ & HV & _). cbn [io_extra] in HV.
    unfold terminal in Hterm. rewrite Eio in Hterm.
    destruct (forallb_false_nth _ W_Done _ Hterm) as (k & Hk & Hf).
    apply (Hfin k ltac:(reflexivity) HV ltac:(lia)). unfold PipeConc.getw. intros E. rewrite E in Hf. discriminate.
Qed.

(* ================= end state ================= *)
Lemma pipeline_end_state_proof : forall T sigma0 ls s,
  1 <= T -> length sigma0 = T -> wf_loads ls -> reachable S tr tr_event c ispadding T sigma0 ls s ->
  terminal S s = true ->
  live S s = 0 /\ (forall i, i < T -> b_st (getb s i) = INV /\ getw s i = W_Done) /\ input S s = [] /\ over S s = true.
Proof.
  intros T sigma0 ls s HT Hsig Hwf Hreach Hterm.
  destruct (reach_inv T sigma0 ls s HT Hsig Hwf Hreach) as (dS & q & r & Hinv).
  pose proof Hinv as (Lb & Lw & Lx & Hr & Ht & Hio & Hbuf).
  unfold terminal in Hterm. destruct (io S s) eqn:Eio; try discriminate.
  unfold IoInv in Hio. rewrite Eio in Hio. destruct Hio as (_ & Hin & Hov & Hlv & HV & _).
  cbn [io_extra loads_done visits_done post_fin] in *.
  rewrite Nat.min_r in Hin by lia.
  split; [lia|]. split; [|split].
  - intros i Hi. split.
    + destruct (fin_all_dead S tr tr_event c ispadding T sigma0 ls dS HT Hsig q r s i Hinv ltac:(rewrite Eio; reflexivity) HV Hi) as (Hs & _).
      exact Hs.
    + rewrite forallb_forall in Hterm. specialize (Hterm (getw s i)).
      destruct (getw s i) eqn:Ew; try reflexivity; exfalso;
        (assert (Hin' : In (nth i (wpcs S s) W_Done) (wpcs S s)) by (apply nth_In; lia));
        unfold PipeConc.getw in Ew; rewrite Ew in Hin'; specialize (Hterm Hin'); discriminate.
  - rewrite Hin. apply skipn_all.
  - destruct Hov as [_ Hov]. apply Hov. cbn [attempts]. lia.
Qed.

(* ================= C03 ================= *)
Lemma C03_output_is_schedule_independent_proof : forall T sigma0 ls sched s,
  1 <= T -> length sigma0 = T -> wf_loads ls ->
  all_ok (snd (seq_chunks S tr c ispadding T sigma0 0 ls)) ->
  run S tr tr_event c ispadding (init S T sigma0 ls) sched = Some s -> terminal S s = true ->
  output S s = ok_bytes (snd (seq_chunks S tr c ispadding T sigma0 0 ls)) /\
  wsts S s = fst (seq_chunks S tr c ispadding T sigma0 0 ls) /\
  crashed S s = None.
Proof.
  intros T sigma0 ls sched s HT Hsig Hwf Hok Hrun Hterm.
  assert (Hreach : reachable S tr tr_event c ispadding T sigma0 ls s) by (exists sched; exact Hrun).
  destruct (reach_inv T sigma0 ls s HT Hsig Hwf Hreach) as (dS & q & r & Hinv).
  pose proof Hinv as (Lb & Lw & Lx & Hr & Ht & Hio & Hbuf).
  unfold terminal in Hterm. destruct (io S s) eqn:Eio; try discriminate.
  unfold IoInv in Hio. rewrite Eio in Hio. destruct Hio as (_ & _ & _ & _ & HV & Hout).
  cbn [io_extra exports_done] in *.
  assert (Efull : firstn (m ls) ls = ls) by (apply firstn_all).
  assert (EG : G S tr c ispadding T sigma0 ls (m ls) = fst (seq_chunks S tr c ispadding T sigma0 0 ls))
    by (unfold G; rewrite Efull; reflexivity).
  assert (EO : outs S tr c ispadding T sigma0 ls (m ls) = snd (seq_chunks S tr c ispadding T sigma0 0 ls))
    by (unfold outs; rewrite Efull; reflexivity).
  rewrite EO in Hout. destruct (Hout Hok) as [Ho Hc].
  replace (q * T + r + 1 - T) with (m ls) in Ho by lia. rewrite EO in Ho.
  split; [exact Ho|]. split; [|exact Hc].
  rewrite <- EG. apply (nth_ext _ _ dS dS).
  - rewrite Lx. symmetry. apply (G_length S tr c ispadding T sigma0 ls Hsig).
  - intros k Hk. rewrite Lx in Hk.
    destruct (fin_all_dead S tr tr_event c ispadding T sigma0 ls dS HT Hsig q r s k Hinv ltac:(rewrite Eio; reflexivity) HV Hk) as (_ & _ & _ & Hx).
    exact Hx.
Qed.
End Proofs.

(* the statement expected by Properties_C14 takes only S tr tr_event *)
Definition C14_workers_touch_only_their_buffer_proof (S : Type) (tr : S -> list N -> S * list N)
  (tr_event : nat -> S -> list event) :=
  C14_workers_touch_only_their_buffer_proof0 S tr tr_event.

(* ---- the instance with history-recording identity streams ---- *)
Lemma tr_blocks_hist : forall bs h, tr_blocks (list (list N)) hist_tr h bs = (h ++ bs, bs).
Proof.
  induction bs as [|b r IH]; intros h; cbn [tr_blocks].
  - rewrite app_nil_r. reflexivity.
  - unfold hist_tr at 1. rewrite IH. rewrite <- app_assoc. reflexivity.
Qed.

Lemma hist_G c ispadding T ls i : 1 <= T -> i < T -> forall j, j <= m ls ->
  nth i (G (list (list N)) hist_tr c ispadding T (repeat [] T) ls j) [] =
  concat (map (fun k => if k mod T =? i then blk ls k else []) (seq 0 j)).
Proof.
  intros HT Hi. assert (Hsig : length (repeat (@nil (list N)) T) = T) by apply repeat_length.
  induction j as [|j IH]; intros Hj.
  - rewrite G_0. cbn [seq map concat]. apply nth_repeat_lt. exact Hi.
  - rewrite seq_S, map_app, concat_app. cbn [Nat.add map concat]. rewrite app_nil_r.
    destruct (Nat.eqb_spec (j mod T) i) as [E|E].
    + rewrite (G_S_same _ hist_tr (fun _ _ => []) c ispadding T _ ls [] HT Hsig j i ltac:(lia) Hi E).
      unfold R. rewrite tr_blocks_hist. cbn [fst]. rewrite IH by lia. reflexivity.
    + rewrite (G_S_other _ hist_tr (fun _ _ => []) c ispadding T _ ls [] HT Hsig j i (or_introl E)).
      rewrite IH by lia. rewrite app_nil_r. reflexivity.
Qed.

Lemma C03_each_block_exactly_once_by_its_owner_proof : forall c ispadding T ls sched s i,
  1 <= T -> wf_loads ls ->
  all_ok (snd (seq_chunks (list (list N)) hist_tr c ispadding T (repeat [] T) 0 ls)) ->
  run (list (list N)) hist_tr (fun _ _ => []) c ispadding (init (list (list N)) T (repeat [] T) ls) sched = Some s ->
  terminal (list (list N)) s = true -> i < T ->
  nth i (wsts (list (list N)) s) [] = owned_blocks T i ls.
Proof.
  intros c ispadding T ls sched s i HT Hwf Hok Hrun Hterm Hi.
  destruct (C03_output_is_schedule_independent_proof _ hist_tr (fun _ _ => []) c ispadding T (repeat [] T) ls sched s
              HT (repeat_length _ _) Hwf Hok Hrun Hterm) as (_ & Hx & _).
  rewrite Hx.
  pose proof (hist_G c ispadding T ls i HT Hi (m ls) (le_n _)) as H.
  unfold G in H. rewrite firstn_all in H. rewrite H. reflexivity.
Qed.

(* ================= non-vacuity: the hypotheses of the lemmas above are satisfiable ================= *)
Module NonVacuity.
Definition S0 := (N * N)%type.
Definition inp : list N := map (fun i => N.of_nat ((i * 7 + 3) mod 256)) (seq 0 40).
Definition ls0 : list load := loads_of 1 true inp.            (* three one-block chunks, the last one FINAL *)
Definition s_init := init S0 2 (tag_init 2) ls0.
Definition full : list nat :=
  [0; 1; 2; 2; 0; 1; 0; 0; 0; 1; 1; 1; 1; 0; 0; 1; 0; 0; 0; 0; 0; 0; 2;
   2; 0; 2; 0; 1; 0; 2; 2; 1; 0; 0; 0; 0; 1; 1; 0; 1; 0; 2; 0; 0; 2; 0;
   0; 0; 0; 1; 1; 0].
Notation run0 := (run S0 tag_tr tag_event 1 true).

Example ex_wf : 1 <= 2 /\ length (tag_init 2) = 2 /\ wf_loads ls0.
Proof.
  split; [lia|]. split; [reflexivity|]. unfold wf_loads. split.
  - vm_compute. repeat constructor.
  - intros i Hi. change (length ls0) with 3 in *.
    destruct i as [|[|[|i]]]; try lia; vm_compute; intro H; try discriminate H; reflexivity.
Qed.

(* the load lists of a decryption with an empty body (no load at all) and with a body that is not a whole
   number of blocks (one chunk of two blocks and 5 more bytes: a single NON-final load) are well formed,
   and the pipeline terminates on them (first-enabled-thread schedule) *)
Fixpoint greedy (S : Type) (tr : S -> list N -> S * list N) (c : nat) (pad : bool) (fuel : nat) (s : state S) : list nat :=
  match fuel with
  | O => []
  | Datatypes.S f =>
      match find (enabled S tr (fun _ _ => []) c pad s) (seq 0 (Datatypes.S (nT S s))) with
      | Some t => match step S tr (fun _ _ => []) c pad s t with
                  | Some (s', _) => t :: greedy S tr c pad f s'
                  | None => []
                  end
      | None => []
      end
  end.
Definition ls_ragged : list load := loads_of 2 false (map N.of_nat (seq 0 37)).
Example ex_wf_empty_and_ragged :
  loads_of 2 false [1%N; 2%N; 3%N] = [] /\ wf_loads [] /\
  map ld_final ls_ragged = [false] /\ map ld_total ls_ragged = [2] /\ wf_loads ls_ragged.
Proof.
  split; [reflexivity|]. split; [split; [constructor|cbn [length]; intros i Hi; lia]|].
  split; [reflexivity|]. split; [reflexivity|]. split.
  - vm_compute. repeat constructor.
  - intros i Hi. change (length ls_ragged) with 1 in *.
    destruct i as [|i]; lia.
Qed.
Example ex_terminal_empty_and_ragged :
  (exists sched s, run S0 tag_tr (fun _ _ => []) 2 false (init S0 2 (tag_init 2) []) sched = Some s /\
                   terminal S0 s = true /\ output S0 s = [] /\ over S0 s = true) /\
  (exists sched s, run S0 tag_tr (fun _ _ => []) 2 false (init S0 2 (tag_init 2) ls_ragged) sched = Some s /\
                   terminal S0 s = true /\ length (concat (output S0 s)) = 32 /\ over S0 s = true).
Proof.
  split.
  - exists (greedy S0 tag_tr 2 false 200 (init S0 2 (tag_init 2) [])). vm_compute. eexists. repeat split.
  - exists (greedy S0 tag_tr 2 false 200 (init S0 2 (tag_init 2) ls_ragged)). vm_compute. eexists. repeat split.
Qed.
Example ex_all_ok : all_ok (snd (seq_chunks S0 tag_tr 1 true 2 (tag_init 2) 0 ls0)).
Proof. vm_compute. repeat constructor; eexists; reflexivity. Qed.

(* C03 / pipeline_end_state: a complete run *)
Example ex_terminal : exists s, run0 s_init full = Some s /\ terminal S0 s = true /\ length (output S0 s) = 3.
Proof. vm_compute. eexists. repeat split. Qed.
(* C04_bounded_steps_without_spurious: [full] is a schedule of the real threads only *)
Example ex_full_real_only : forall t, In t full -> t <= 2.
Proof.
  assert (H : forallb (fun t => t <=? 2) full = true) by (vm_compute; reflexivity).
  rewrite forallb_forall in H. intros t Ht. apply Nat.leb_le. apply H. exact Ht.
Qed.
(* C04_deadlock_free: a reachable non-terminal state *)
Example ex_not_terminal : exists s, run0 s_init (firstn 20 full) = Some s /\ terminal S0 s = false.
Proof. vm_compute. eexists. split; reflexivity. Qed.
(* C14_exclusive_hand_over: reachable states where the worker resp. the I/O thread touches buffer 0 *)
Example ex_worker_touches : exists s, run0 s_init [0; 0; 0; 0; 1; 1] = Some s /\ worker_touches S0 s 0 /\ 0 < 2.
Proof. vm_compute. eexists. split; [reflexivity|]. split; [left; reflexivity|lia]. Qed.
Example ex_io_owns : exists s, run0 s_init [0] = Some s /\ io_owns S0 s 0.
Proof. vm_compute. eexists. split; [reflexivity|]. split; [reflexivity|exact I]. Qed.
(* C14_token_moves: steps that move the token (I/O thread: EMPTY -> READY; worker: READY -> UPDATING) *)
Definition moves (sched : list nat) (tid i : nat) : bool :=
  match run0 s_init sched with
  | Some s => match step S0 tag_tr tag_event 1 true s tid with
              | Some (s', _) => negb (bst_eqb (b_st (getb S0 s' i)) (b_st (getb S0 s i)))
              | None => false
              end
  | None => false
  end.
Lemma moves_spec sched tid i : moves sched tid i = true ->
  exists s s' evs, run0 s_init sched = Some s /\
    step S0 tag_tr tag_event 1 true s tid = Some (s', evs) /\ b_st (getb S0 s' i) <> b_st (getb S0 s i).
Proof.
  unfold moves. destruct (run0 s_init sched) as [s|]; [|discriminate].
  destruct (step S0 tag_tr tag_event 1 true s tid) as [[s' evs]|] eqn:E2; [|discriminate].
  intros H. exists s, s', evs. split; [reflexivity|]. split; [exact E2|].
  intros E. rewrite E in H. destruct (b_st (getb S0 s i)); discriminate.
Qed.
Example ex_token_io : exists s s' evs, run0 s_init [0; 0; 0] = Some s /\
  step S0 tag_tr tag_event 1 true s 0 = Some (s', evs) /\ b_st (getb S0 s' 0) <> b_st (getb S0 s 0).
Proof. apply moves_spec. vm_compute. reflexivity. Qed.
(* tid 1 = worker 0; this step also writes no other buffer (C14_workers_touch_only_their_buffer, j = 1 <> 0) *)
Example ex_token_worker : exists s s' evs, run0 s_init [0; 0; 0; 0; 1; 1; 1; 1] = Some s /\
  step S0 tag_tr tag_event 1 true s 1 = Some (s', evs) /\ b_st (getb S0 s' 0) <> b_st (getb S0 s 0).
Proof. apply moves_spec. vm_compute. reflexivity. Qed.
(* C04_no_lost_wakeup: reachable states with a sleeping worker resp. a sleeping I/O thread *)
Example ex_worker_asleep : exists s, run0 s_init [1; 1] = Some s /\ getw S0 s 0 = W_Asleep true.
Proof. vm_compute. eexists. split; reflexivity. Qed.
Example ex_io_asleep : exists s, run0 s_init (repeat 0 11) = Some s /\ io S0 s = I_Asleep.
Proof. vm_compute. eexists. split; reflexivity. Qed.

(* C03_each_block_exactly_once_by_its_owner: the history instance on the same input and schedule *)
Example ex_hist : wf_loads ls0 /\
  all_ok (snd (seq_chunks (list (list N)) hist_tr 1 true 2 (repeat [] 2) 0 ls0)) /\
  exists s, run (list (list N)) hist_tr (fun _ _ => []) 1 true (init (list (list N)) 2 (repeat [] 2) ls0) full = Some s /\
            terminal (list (list N)) s = true /\ length (nth 0 (wsts (list (list N)) s) []) = 2.
Proof.
  split; [apply ex_wf|]. split.
  - vm_compute. repeat constructor; eexists; reflexivity.
  - vm_compute. eexists. repeat split.
Qed.

(* ---- spurious wake-ups: thread ids T+1+j (T = 2: 3 = I/O thread, 4 = worker 0, 5 = worker 1) ---- *)
Definition inp2 : list N := map (fun i => N.of_nat ((i * 11 + 5) mod 256)) (seq 0 20).
Definition ls2 : list load := loads_of 1 true inp2.          (* two one-block chunks, the second one FINAL *)
Definition s_init2 := init S0 2 (tag_init 2) ls2.
(* worker 0 and worker 1 fall asleep on their EMPTY buffers, are woken spuriously (4, 5), re-test and go back to sleep;
   the I/O thread loads both buffers, falls asleep on buffer 0 (READY) and is woken spuriously three times (3), each
   time before worker 0 has handed the buffer back, so that it re-tests and goes back to sleep; the notification of
   worker 0's set_update wakes it for good *)
Definition sched_spur : list nat :=
  [1; 1; 4; 1; 2; 2; 5; 2; 0; 0; 0; 0; 0; 0; 0; 0; 0; 0; 0; 3; 0; 3; 0;
   2; 2; 3; 0; 2; 2; 1; 1; 2; 1; 1; 0; 1; 0; 0; 0; 0; 1; 0; 0; 1; 0; 0;
   0; 0; 2; 0; 2; 0].
Example ex_wf2 : wf_loads ls2 /\ map ld_total ls2 = [1; 1] /\ map ld_final ls2 = [false; true].
Proof.
  split; [|split; reflexivity]. split.
  - vm_compute. repeat constructor.
  - intros i Hi. change (length ls2) with 2 in *.
    destruct i as [|[|i]]; try lia; vm_compute; intro H; try discriminate H; reflexivity.
Qed.
(* a complete run with five spurious wake-ups ends in the terminal state with the output of the reference *)
Example ex_spurious_run :
  spurious_count 2 sched_spur = 5 /\
  exists s, run0 s_init2 sched_spur = Some s /\ terminal S0 s = true /\ crashed S0 s = None /\
            output S0 s = ok_bytes (snd (seq_chunks S0 tag_tr 1 true 2 (tag_init 2) 0 ls2)) /\
            wsts S0 s = fst (seq_chunks S0 tag_tr 1 true 2 (tag_init 2) 0 ls2).
Proof. split; [reflexivity|]. vm_compute. eexists. repeat split. Qed.
(* a spuriously woken thread whose predicate is false goes back to sleep: same state as before the wake-up *)
Example ex_spurious_back_to_sleep :
  run0 s_init2 [1; 1; 4; 1] = run0 s_init2 [1; 1] /\
  (exists s, run0 s_init2 [1; 1; 4] = Some s /\ getw S0 s 0 = W_Awake true /\ b_st (getb S0 s 0) = EMPTY) /\
  enabled_count S0 tag_tr tag_event 1 true s_init2 = 3.
Proof. vm_compute. split; [reflexivity|]. split; [eexists; repeat split|reflexivity]. Qed.
(* the step bound without the spurious_count term is false: wake, re-test, sleep, 100 times
   (202 steps; the bound B of C04_bounded_steps_explicit_proof is 8*(2+2) + (2+9) + 6*2 + 10*2 = 75) *)
Example ex_unbounded_with_spurious :
  let sched := [1; 1] ++ concat (repeat [4; 1] 100) in
  length sched = 202 /\ spurious_count 2 sched = 100 /\ run0 s_init2 sched = run0 s_init2 [1; 1] /\
  run0 s_init2 [1; 1] <> None.
Proof. vm_compute. repeat split. discriminate. Qed.
End NonVacuity.
