(* RFC 4648 section 4 base64, written from the RFC. *)
From Wencry Require Import Bytes.
Local Open Scope N_scope.

(* Table 1: the base 64 alphabet *)
Definition b64_char (i : N) : N :=
  if i <? 26 then 65 + i            (* A-Z *)
  else if i <? 52 then 97 + (i - 26) (* a-z *)
  else if i <? 62 then 48 + (i - 52) (* 0-9 *)
  else if i =? 62 then 43 else 47.   (* + / *)
Definition b64_val (c : N) : option N :=
  if (65 <=? c) && (c <=? 90) then Some (c - 65)
  else if (97 <=? c) && (c <=? 122) then Some (c - 97 + 26)
  else if (48 <=? c) && (c <=? 57) then Some (c - 48 + 52)
  else if c =? 43 then Some 62 else if c =? 47 then Some 63 else None.
Definition pad_char : N := 61.

Fixpoint encode (l : list N) : list N :=
  match l with
  | a :: b :: c :: r =>
      [b64_char (a / 4); b64_char ((a mod 4) * 16 + b / 16);
       b64_char ((b mod 16) * 4 + c / 64); b64_char (c mod 64)] ++ encode r
  | [a; b] => [b64_char (a / 4); b64_char ((a mod 4) * 16 + b / 16); b64_char ((b mod 16) * 4); pad_char]
  | [a] => [b64_char (a / 4); b64_char ((a mod 4) * 16); pad_char; pad_char]
  | [] => []
  end.

(* decoding of a padded text: full quantums, then at most one padded final quantum *)
Fixpoint decode (s : list N) : option (list N) :=
  match s with
  | [] => Some []
  | [w; x; y; z] =>
      match b64_val w, b64_val x with
      | Some w', Some x' =>
          if (y =? pad_char) && (z =? pad_char) then Some [w' * 4 + x' / 16]
          else match b64_val y with
               | Some y' =>
                   if z =? pad_char then Some [w' * 4 + x' / 16; (x' mod 16) * 16 + y' / 4]
                   else match b64_val z with
                        | Some z' => Some [w' * 4 + x' / 16; (x' mod 16) * 16 + y' / 4; (y' mod 4) * 64 + z']
                        | None => None
                        end
               | None => None
               end
      | _, _ => None
      end
  | w :: x :: y :: z :: r =>
      match b64_val w, b64_val x, b64_val y, b64_val z, decode r with
      | Some w', Some x', Some y', Some z', Some t =>
          Some ([w' * 4 + x' / 16; (x' mod 16) * 16 + y' / 4; (y' mod 4) * 64 + z'] ++ t)
      | _, _, _, _, _ => None
      end
  | _ => None
  end.

(* "a 24-character encoding of a 16-byte value" *)
Definition is_key_text (s : list N) : Prop :=
  length s = 24%nat /\ exists k, decode s = Some k /\ length k = 16%nat.
