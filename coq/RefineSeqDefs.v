(* Definitions for the agreement of the two MiniC semantics on code that does not synchronise:
   [seq_ok] (computable check over the call graph) and [normal_outcome]. *)
From Coq Require Import ZArith NArith List String Bool.
From Wencry Require Import MiniC MiniCConc.
Import ListNotations.
Local Open Scope string_scope.

Definition normal_outcome (o : outcome) : bool := match o with Normal => true | _ => false end.

(* every [break] of st is inside a loop of st (inl = we are inside a loop).  A C++ function body always satisfies this;
   the check is needed because the two semantics DISAGREE on a stray break at the top level of a function body:
   [exec] treats it as a void return, the thread machine reports "break outside a loop" (see RefineSeq.v, stray_break_exec and stray_break_machine). *)
Fixpoint brk_ok (inl : bool) (st : stmt) : bool :=
  match st with
  | SBreak => inl
  | SSeq a b => brk_ok inl a && brk_ok inl b
  | SIf _ a b => brk_ok inl a && brk_ok inl b
  | SLoop _ body step => brk_ok true body && brk_ok false step
  | SDoWhile body _ => brk_ok true body
  | _ => true
  end.

Fixpoint has_suffix (sfx name : string) : bool :=
  String.eqb name sfx || match name with EmptyString => false | String _ r => has_suffix sfx r end.

(* the calls / primitives of one statement: chk f for a direct call or constructor, vchk m for a virtual call of method m,
   no synchronisation primitive when sync = true *)
Fixpoint calls_ok (sync : bool) (chk vchk : string -> bool) (st : stmt) : bool :=
  match st with
  | SSeq a b => calls_ok sync chk vchk a && calls_ok sync chk vchk b
  | SIf _ a b => calls_ok sync chk vchk a && calls_ok sync chk vchk b
  | SLoop _ body step => calls_ok sync chk vchk body && calls_ok sync chk vchk step
  | SDoWhile body _ => calls_ok sync chk vchk body
  | SCall _ f _ _ => chk f
  | SCallVirt _ m _ _ => vchk m
  | SNewObj _ _ _ (Some f) _ => chk f
  | SPrim _ name _ => negb (sync && is_sync_prim name)
  | _ => true
  end.

(* fuel-bounded traversal of the call graph from st.  A virtual call of method m may reach every function of prog
   named <anything>::m. *)
Fixpoint reach_ok (sync : bool) (prog : program) (fuel : nat) (st : stmt) : bool :=
  match fuel with
  | O => false
  | S f =>
      let fn_ok (fn : func) := brk_ok false (f_body fn) && reach_ok sync prog f (f_body fn) in
      calls_ok sync
        (fun fname => match lget prog fname with Some fn => fn_ok fn | None => true end)
        (fun m => forallb (fun nf : string * func => if has_suffix ("::" ++ m) (fst nf) then fn_ok (snd nf) else true) prog)
        st
  end.

(* [seq_ok prog fuel st]: neither st nor any function reachable from it (through at most fuel nested calls) names a
   synchronisation primitive, and every break of a reachable function body is inside a loop of that body *)
Definition seq_ok (prog : program) (fuel : nat) (st : stmt) : bool := reach_ok true prog fuel st.
(* the same without the condition on primitives *)
Definition wf_ok (prog : program) (fuel : nat) (st : stmt) : bool := reach_ok false prog fuel st.
