(* PARALLEL4 (H1), decrypt copy of RefineE2EfSetup2B3: ONE call AesFactory::createCryMaster(0, ctype) (the decrypting classes: the base
   constructor AesDecrypt for ECB / CBC, AesEncrypt for CTR / CFB / OFB). *)
From Coq Require Import ZArith NArith List String Bool Lia PeanoNat Ascii.
From Wencry Require Import Bytes AesModel ModesModel MiniC MiniCRun MiniCLemmas SrcRun SrcRun2 SrcRun5 AesProofs
     RefineAesLib RefineAesOps RefineAesKey RefineAes RefineModes RefineE2ENames RefineE2EfWNames RefineE2EfWStream RefineE2EfHashKeys RefineE2EfSetup2B3.
From Wencry Require RefineFileBase RefineConcMem RefineSha1Lib ModesProofs.
From Wencry.Gen Require Src_aes Src_aesmode.
Import ListNotations.
Local Open Scope list_scope.
Local Open Scope string_scope.
Local Open Scope Z_scope.

Section ObjD.
Variable p : string.
Hypothesis Hptab : forall y, ~ is_tab (p ++ y).
Variable M : memory.
Hypothesis HMp : forall y, mget M (p ++ y) = None.
Hypothesis HMt : tabs_ok M.
Notation seg := (RefineE2EfSetup2B3.seg p).
Ltac segt := repeat (rewrite ?append_eqb_l; cbn [RefineE2EfSetup2B3.seg mget mset String.eqb Ascii.eqb Bool.eqb andb]).
Notation mget_Mseg := (RefineE2EfSetup2B3.mget_Mseg p M HMp).
Notation mget_Mseg_old := (RefineE2EfSetup2B3.mget_Mseg_old M).
Notation mset_Mseg := (RefineE2EfSetup2B3.mset_Mseg p M HMp).

Lemma decryaes_w : forall fuel l0 p0 fs ps fr ok key o1 o2 o3 kc ik,
  (130 <= fuel)%nat -> mget M ok = Some (bytes_object key) -> block16 key -> List.length kc = 176%nat -> List.length ik = 20%nat ->
  call whole_prog [] fuel "decryaes::decryaes/1" (p ++ "crypt.") [VPtr ok 0]
       {| mem := (M ++ seg o1 o2 o3 (bobj kc) (bobj ik))%list; loc := l0; pre := p0; files := fs; ptrs := ps; fresh := fr |}
  = Ok (None, {| mem := (M ++ seg o1 o2 o3 (bobj (concat (map (map Z.of_N) (genall key)))) (bobj (map Z.of_N key ++ skipn 16 ik)))%list;
                 loc := l0; pre := p0; files := fs; ptrs := ps; fresh := fr |}).
Proof.
  intros fuel l0 p0 fs ps fr ok key o1 o2 o3 kc ik Hf Hk Bk Lk Li.
  eapply call_mono; [|exact Hf].
  assert (Hne : ok <> (p ++ "crypt.key.") ++ "init_key").
  { intro E0. rewrite E0, append_assoc_s, HMp in Hk. discriminate Hk. }
  set (s0 := {| mem := (M ++ seg o1 o2 o3 (bobj kc) (bobj ik))%list; loc := [("initkey", VPtr ok 0)]; pre := (p ++ "crypt.key."); files := fs; ptrs := ps; fresh := fr |}).
  pose proof (keyhandle_spec [] s0 (p ++ "crypt.key.") 126 ok key ik kc ltac:(lia)) as KH.
  cbn [mem s0] in KH.
  specialize (KH (tabs_ok_app _ _ HMt)).
  rewrite !append_assoc_s in KH. cbn [append] in KH.
  specialize (KH (Hptab _) (Hptab _)). rewrite append_assoc_s in Hne. cbn [append] in Hne. specialize (KH Hne).
  specialize (KH (mget_Mseg_old _ _ _ Hk) Bk).
  assert (E1 : mget (M ++ seg o1 o2 o3 (bobj kc) (bobj ik))%list (p ++ "crypt.key.init_key") = Some (bobj ik)) by (rewrite mget_Mseg; segt; reflexivity).
  assert (E2 : mget (M ++ seg o1 o2 o3 (bobj kc) (bobj ik))%list (p ++ "crypt.key.key") = Some (bobj kc)) by (rewrite mget_Mseg; segt; reflexivity).
  specialize (KH E1 Li E2 Lk). apply call_aes_whole in KH.
  unfold with_mem in KH. cbn [mem loc pre files ptrs fresh s0] in KH.
  rewrite !mset_Mseg in KH. revert KH. segt. intro KH.
  (* encryaes -> aeshandle -> keyhandle *)
  unfold call. rewrite (aes_in_whole _ _ (eq_refl : lget aes_prog "decryaes::decryaes/1" = Some Src_aesmode.f_decryaes_decryaes_1)).
  cbn [f_params f_body Src_aesmode.f_decryaes_decryaes_1 bind_params bind mem loc pre files ptrs fresh].
  set (s1 := {| mem := (M ++ seg o1 o2 o3 (bobj kc) (bobj ik))%list; loc := [("initkey", VPtr ok 0)]; pre := (p ++ "crypt."); files := fs; ptrs := ps; fresh := fr |}).
  fold s1.
  assert (AH : call whole_prog [] 128 "aeshandle::aeshandle/1" (p ++ "crypt.") [VPtr ok 0] s1 =
               Ok (None, {| mem := (M ++ seg o1 o2 o3 (bobj (concat (map (map Z.of_N) (genall key)))) (bobj (map Z.of_N key ++ skipn 16 ik)))%list;
                            loc := [("initkey", VPtr ok 0)]; pre := (p ++ "crypt."); files := fs; ptrs := ps; fresh := fr |})).
  { unfold call. rewrite (aes_in_whole _ _ (eq_refl : lget aes_prog "aeshandle::aeshandle/1" = Some Src_aesmode.f_aeshandle_aeshandle_1)).
    cbn [f_params f_body Src_aesmode.f_aeshandle_aeshandle_1 bind_params bind mem loc pre files ptrs fresh s1]. fold s1.
    rewrite (RefineFileBase.x_scall whole_prog [] 127 None "keyhandle::keyhandle/1" (Some (EField "key.")) [EVar "initkey"] s1 [VPtr ok 0] (p ++ "crypt.key.") None _ _
               eq_refl ltac:(unfold s1; cbn [this_prefix eval bind pre]; rewrite append_assoc_s; reflexivity)
               (call_mono whole_prog [] 126 _ _ _ _ _ (call_caller_indep whole_prog [] 126 _ _ _ _ _ _ _ _ KH) 127%nat ltac:(lia)) eq_refl).
    reflexivity. }
  rewrite (RefineFileBase.x_scall whole_prog [] 129 None "aeshandle::aeshandle/1" None [EVar "initkey"] s1 [VPtr ok 0] (p ++ "crypt.") None _ _
             eq_refl eq_refl (call_mono whole_prog [] 128 _ _ _ _ _ AH 129%nat ltac:(lia)) eq_refl).
  reflexivity.
Qed.

Notation aesmode_ctor_w' := (RefineE2EfSetup2B3.aesmode_ctor_w p Hptab M HMp).
Lemma aesdecrypt_w : forall fuel l0 p0 fs ps fr ok key oiv ivc c1 c2 o3 kc ik,
  (140 <= fuel)%nat -> mget M ok = Some (bytes_object key) -> block16 key -> mget M oiv = Some (bobj ivc) -> (16 <= List.length ivc)%nat ->
  List.length c1 = 16%nat -> List.length c2 = 16%nat -> List.length kc = 176%nat -> List.length ik = 20%nat ->
  call whole_prog [] fuel "AesDecrypt::AesDecrypt/2" p [VPtr ok 0; VPtr oiv 0]
       {| mem := (M ++ seg (bobj c1) (bobj c2) o3 (bobj kc) (bobj ik))%list; loc := l0; pre := p0; files := fs; ptrs := ps; fresh := fr |}
  = Ok (None, {| mem := (M ++ seg (bobj (firstn 16 ivc)) (bobj (firstn 16 ivc)) o3 (bobj (concat (map (map Z.of_N) (genall key)))) (bobj (map Z.of_N key ++ skipn 16 ik)))%list;
                 loc := l0; pre := p0; files := fs; ptrs := ps; fresh := fr |}).
Proof.
  intros fuel l0 p0 fs ps fr ok key oiv ivc c1 c2 o3 kc ik Hf Hk Bk Hiv Hl L1 L2 Lk Li.
  eapply call_mono; [|exact Hf].
  unfold call. rewrite (aes_in_whole _ _ (eq_refl : lget aes_prog "AesDecrypt::AesDecrypt/2" = Some Src_aesmode.f_AesDecrypt_AesDecrypt_2)).
  cbn [f_params f_body Src_aesmode.f_AesDecrypt_AesDecrypt_2 bind_params bind mem loc pre files ptrs fresh].
  set (L := [("key", VPtr ok 0); ("iv", VPtr oiv 0)]).
  rewrite exec_seq.
  rewrite (RefineFileBase.x_scall whole_prog [] 138 None "Aesmode::Aesmode/1" None [EVar "iv"]
             {| mem := (M ++ seg (bobj c1) (bobj c2) o3 (bobj kc) (bobj ik))%list; loc := L; pre := p; files := fs; ptrs := ps; fresh := fr |}
             [VPtr oiv 0] p None _ _ eq_refl eq_refl
             (aesmode_ctor_w' 138 L p fs ps fr oiv ivc c1 c2 o3 (bobj kc) (bobj ik) ltac:(lia) Hiv Hl L1 L2) eq_refl).
  cbn [bind].
  rewrite (RefineFileBase.x_scall whole_prog [] 138 None "decryaes::decryaes/1" (Some (EField "crypt.")) [EVar "key"]
             {| mem := (M ++ seg (bobj (firstn 16 ivc)) (bobj (firstn 16 ivc)) o3 (bobj kc) (bobj ik))%list; loc := L; pre := p; files := fs; ptrs := ps; fresh := fr |}
             [VPtr ok 0] (p ++ "crypt.") None _ _ eq_refl eq_refl
             (decryaes_w 138 L p fs ps fr ok key _ _ o3 kc ik ltac:(lia) Hk Bk Lk Li) eq_refl).
  reflexivity.
Qed.

Lemma classctor_wd : forall g fuel l0 p0 fs ps fr ok key oiv ivc c1 c2 o3 kc ik,
  lget whole_prog g = Some {| f_params := ["key"; "iv"]; f_body := SCall None "AesDecrypt::AesDecrypt/2" None [EVar "key"; EVar "iv"] |} ->
  (145 <= fuel)%nat -> mget M ok = Some (bytes_object key) -> block16 key -> mget M oiv = Some (bobj ivc) -> (16 <= List.length ivc)%nat ->
  List.length c1 = 16%nat -> List.length c2 = 16%nat -> List.length kc = 176%nat -> List.length ik = 20%nat ->
  call whole_prog [] fuel g p [VPtr ok 0; VPtr oiv 0]
       {| mem := (M ++ seg (bobj c1) (bobj c2) o3 (bobj kc) (bobj ik))%list; loc := l0; pre := p0; files := fs; ptrs := ps; fresh := fr |}
  = Ok (None, {| mem := (M ++ seg (bobj (firstn 16 ivc)) (bobj (firstn 16 ivc)) o3 (bobj (concat (map (map Z.of_N) (genall key)))) (bobj (map Z.of_N key ++ skipn 16 ik)))%list;
                 loc := l0; pre := p0; files := fs; ptrs := ps; fresh := fr |}).
Proof.
  intros g fuel l0 p0 fs ps fr ok key oiv ivc c1 c2 o3 kc ik Hg Hf Hk Bk Hiv Hl L1 L2 Lk Li.
  eapply call_mono; [|exact Hf].
  unfold call. rewrite Hg. cbn [f_params f_body bind_params bind mem loc pre files ptrs fresh].
  set (L := [("key", VPtr ok 0); ("iv", VPtr oiv 0)]).
  rewrite (RefineFileBase.x_scall whole_prog [] 144 None "AesDecrypt::AesDecrypt/2" None [EVar "key"; EVar "iv"]
             {| mem := (M ++ seg (bobj c1) (bobj c2) o3 (bobj kc) (bobj ik))%list; loc := L; pre := p; files := fs; ptrs := ps; fresh := fr |}
             [VPtr ok 0; VPtr oiv 0] p None _ _ eq_refl eq_refl
             (aesdecrypt_w 144 L p fs ps fr ok key oiv ivc c1 c2 o3 kc ik ltac:(lia) Hk Bk Hiv Hl L1 L2 Lk Li) eq_refl).
  reflexivity.
Qed.
End ObjD.

Definition ctor_fnd : func := {| f_params := ["key"; "iv"]; f_body := SCall None "AesDecrypt::AesDecrypt/2" None [EVar "key"; EVar "iv"] |}.

Lemma newobj_wd : forall fuel x cls g M Pt f l0 pa fs key ok oiv ivc,
  lget whole_prog g = Some ctor_fnd -> (150 <= fuel)%nat -> block16 key ->
  tabs_ok M -> mget M ok = Some (bytes_object key) -> mget M oiv = Some (bobj ivc) -> (16 <= List.length ivc)%nat ->
  (forall y, mget M (hobj f ++ y) = None) -> (forall name, mget M ("sizeof:" ++ cls ++ "." ++ name) = None) ->
  lget Pt ("alloc:" ++ cls) = None -> lget Pt (class_key (hobj f)) = None ->
  lget Pt (pa ++ "key") = Some (VPtr ok 0) -> lget Pt (pa ++ "iv") = Some (VPtr oiv 0) ->
  exec whole_prog [] (S fuel) (SNewObj x cls objs5 (Some g) [EPtrVar (EField "key"); EPtrVar (EField "iv")])
       {| mem := M; loc := l0; pre := pa; files := fs; ptrs := Pt; fresh := f |} =
  Ok (Normal, {| mem := (M ++ smf (hobj f) key ivc)%list; loc := lset l0 x (VPtr (hobj f) 0); pre := pa; files := fs;
                 ptrs := (Pt ++ [(class_key (hobj f), VPtr cls 0)])%list; fresh := S f |}).
Proof.
  intros fuel x cls g M Pt f l0 pa fs key ok oiv ivc Hg Hf Bk Ht Hk Hiv Hl HMp Hsz Hal Hcl Hpk Hpi.
  cbn [exec eval_list eval bind pre ptrs]. rewrite Hpk, Hpi. cbn [bind]. rewrite Hal. cbn [fresh mem].
  change ("#" ++ nat_string f ++ ".") with (hobj f).
  unfold objs5 at 1. cbn [forallb fst]. rewrite !HMp. cbn [andb negb].
  rewrite Hg. cbn [f_params ctor_fnd bind_params bind loc files ptrs].
  change [("iv", U8, 16); ("initiv", U8, 16); ("crypt.w", U8, 16); ("crypt.key.key", U8, 176); ("crypt.key.init_key", U8, 20)] with objs5.
  rewrite (alloc5 (hobj f) M HMp (hobj_not_sz f) cls Hsz).
  rewrite (lset_new _ Pt (class_key (hobj f)) (VPtr cls 0) Hcl).
  pose proof (classctor_wd (hobj f) (hobj_not_tab f) M HMp Ht g fuel (lset l0 x (VPtr (hobj f) 0)) pa fs (Pt ++ [(class_key (hobj f), VPtr cls 0)])%list (S f)
                ok key oiv ivc (repeat 0 16) (repeat 0 16) (bobj (repeat 0 16)) (repeat 0 176) (repeat 0 20) Hg ltac:(lia) Hk Bk Hiv Hl
                eq_refl eq_refl eq_refl eq_refl) as CC.
  destruct (call_inv _ _ _ _ _ _ _ _ _ _ _ CC Hg eq_refl) as (o1 & s1 & Ex & _ & Es).
  cbn [mem loc pre files ptrs fresh] in Ex. unfold seg0. rewrite Ex. cbn [bind].
  pose proof (f_equal mem Es) as E1. pose proof (f_equal files Es) as E2. pose proof (f_equal ptrs Es) as E3. pose proof (f_equal fresh Es) as E4.
  cbn [mem files ptrs fresh] in E1, E2, E3, E4. rewrite <- E1, <- E2, <- E3, <- E4. reflexivity.
Qed.

Lemma lget_ctor_d : lget whole_prog "AesECB_Dec::AesECB_Dec/2" = Some ctor_fnd /\ lget whole_prog "AesCBC_Dec::AesCBC_Dec/2" = Some ctor_fnd /\
  lget whole_prog "AesCTR::AesCTR/2" = Some ctor_fn /\ lget whole_prog "AesCFB_Dec::AesCFB_Dec/2" = Some ctor_fn /\ lget whole_prog "AesOFB::AesOFB/2" = Some ctor_fn.
Proof. repeat split; vm_compute; reflexivity. Qed.

Theorem createCryMaster_wd : forall fuel M Pt f l0 p0 fs key cm kd oiv ivc,
  (200 <= fuel)%nat -> create false cm = Some kd -> block16 key ->
  tabs_ok M -> mget M "key" = Some (bytes_object key) -> mget M oiv = Some (bobj ivc) -> (16 <= List.length ivc)%nat ->
  (forall y, mget M (hobj f ++ y) = None) ->
  (forall r, mget M ("sizeof:Aes" ++ r) = None) ->
  (forall c0, lget Pt ("alloc:" ++ c0) = None) -> lget Pt (class_key (hobj f)) = None ->
  lget Pt "rc.aesfactory.key" = Some (VPtr "key" 0) -> lget Pt "rc.aesfactory.iv" = Some (VPtr oiv 0) ->
  call whole_prog [] fuel "AesFactory::createCryMaster/2" "rc.aesfactory." [VInt 0; VInt (Z.of_N cm)]
       {| mem := M; loc := l0; pre := p0; files := fs; ptrs := Pt; fresh := f |} =
  Ok (Some (VPtr (hobj f) 0),
      {| mem := (M ++ smf (hobj f) key ivc)%list; loc := l0; pre := p0; files := fs;
         ptrs := (Pt ++ [(class_key (hobj f), VPtr (cls_of kd) 0)])%list; fresh := S f |}).
Proof.
  intros fuel M Pt f l0 p0 fs key cm kd oiv ivc Hf Hc Bk Ht Hk Hiv Hl HMp Hsz Hal Hcl Hpk Hpi.
  eapply call_mono; [|exact Hf].
  assert (Hm : (cm <= 4)%N).
  { destruct (N.le_gt_cases cm 4) as [Hle|Hgt]; [exact Hle|].
    apply (proj2 (ModesProofs.C10_factory_domain_proof false cm)) in Hgt. rewrite Hgt in Hc. discriminate. }
  set (L7 := lset [("isenc", VInt 0); ("type", VInt (Z.of_N cm))] "$t7" (VInt (Z.of_N cm))).
  assert (NOe : forall cls x g, lget whole_prog g = Some ctor_fn ->
     (forall name, mget M ("sizeof:" ++ cls ++ "." ++ name) = None) ->
     exec whole_prog [] 190 (SNewObj x cls objs5 (Some g) [EPtrVar (EField "key"); EPtrVar (EField "iv")])
       {| mem := M; loc := L7; pre := "rc.aesfactory."; files := fs; ptrs := Pt; fresh := f |} =
     Ok (Normal, {| mem := (M ++ smf (hobj f) key ivc)%list; loc := lset L7 x (VPtr (hobj f) 0);
                    pre := "rc.aesfactory."; files := fs; ptrs := (Pt ++ [(class_key (hobj f), VPtr cls 0)])%list; fresh := S f |})).
  { intros cls x g Hg Hs. apply (newobj_w 189 x cls g M Pt f _ "rc.aesfactory." fs key "key" oiv ivc Hg ltac:(lia) Bk Ht Hk Hiv Hl HMp Hs (Hal cls) Hcl Hpk Hpi). }
  assert (NOd : forall cls x g, lget whole_prog g = Some ctor_fnd ->
     (forall name, mget M ("sizeof:" ++ cls ++ "." ++ name) = None) ->
     exec whole_prog [] 190 (SNewObj x cls objs5 (Some g) [EPtrVar (EField "key"); EPtrVar (EField "iv")])
       {| mem := M; loc := L7; pre := "rc.aesfactory."; files := fs; ptrs := Pt; fresh := f |} =
     Ok (Normal, {| mem := (M ++ smf (hobj f) key ivc)%list; loc := lset L7 x (VPtr (hobj f) 0);
                    pre := "rc.aesfactory."; files := fs; ptrs := (Pt ++ [(class_key (hobj f), VPtr cls 0)])%list; fresh := S f |})).
  { intros cls x g Hg Hs. apply (newobj_wd 189 x cls g M Pt f _ "rc.aesfactory." fs key "key" oiv ivc Hg ltac:(lia) Bk Ht Hk Hiv Hl HMp Hs (Hal cls) Hcl Hpk Hpi). }
  destruct lget_ctor_d as (G0 & G1 & G2 & G3 & G4).
  unfold call. rewrite (aes_in_whole _ _ (eq_refl : lget aes_prog "AesFactory::createCryMaster/2" = Some Src_aesmode.f_AesFactory_createCryMaster_2)).
  cbn [f_params f_body Src_aesmode.f_AesFactory_createCryMaster_2 bind_params bind mem loc pre files ptrs fresh].
  destruct (ModesProofs.mode_cases cm Hm) as [->|[->|[->|[->| ->]]]]; cbn in Hc; injection Hc as <-; cbn [cls_of Z.of_N] in *;
    change 200%nat with (S (S (S (S (S (S (S (S (S (S 190)))))))))).
  - rewrite exec_if. cbn [eval bind as_int loc lget String.eqb Ascii.eqb Bool.eqb]. change (0 =? 0) with true. cbv iota.
    rewrite exec_seq, exec_set. cbn [eval bind as_int loc lget String.eqb Ascii.eqb Bool.eqb]. change (wrap I32 0) with 0. unfold with_loc. cbn [bind mem loc pre files ptrs fresh]. fold L7.
    rewrite exec_if. unfold L7 at 1. cbn [eval bind as_int loc lget lset String.eqb Ascii.eqb Bool.eqb eval_bin Z.eqb]. cbv iota. fold L7.
    rewrite exec_seq.
    rewrite (exec_mono _ _ _ _ _ _ (NOd "AesECB_Dec" "$t8" "AesECB_Dec::AesECB_Dec/2" G0 ltac:(intros name; apply Hsz))) by lia.
    cbn [bind]. rewrite RefineFileBase.x_return. cbn [eval bind loc]. rewrite lget_lset_same. reflexivity.
  - rewrite exec_if. cbn [eval bind as_int loc lget String.eqb Ascii.eqb Bool.eqb]. change (0 =? 0) with true. cbv iota.
    rewrite exec_seq, exec_set. cbn [eval bind as_int loc lget String.eqb Ascii.eqb Bool.eqb]. change (wrap I32 1) with 1. unfold with_loc. cbn [bind mem loc pre files ptrs fresh]. fold L7.
    do 2 (rewrite exec_if; unfold L7 at 1; cbn [eval bind as_int loc lget lset String.eqb Ascii.eqb Bool.eqb eval_bin Z.eqb Pos.eqb]; cbv iota; fold L7).
    rewrite exec_seq.
    rewrite (exec_mono _ _ _ _ _ _ (NOd "AesCBC_Dec" "$t9" "AesCBC_Dec::AesCBC_Dec/2" G1 ltac:(intros name; apply Hsz))) by lia.
    cbn [bind]. rewrite RefineFileBase.x_return. cbn [eval bind loc]. rewrite lget_lset_same. reflexivity.
  - rewrite exec_if. cbn [eval bind as_int loc lget String.eqb Ascii.eqb Bool.eqb]. change (0 =? 0) with true. cbv iota.
    rewrite exec_seq, exec_set. cbn [eval bind as_int loc lget String.eqb Ascii.eqb Bool.eqb]. change (wrap I32 2) with 2. unfold with_loc. cbn [bind mem loc pre files ptrs fresh]. fold L7.
    do 3 (rewrite exec_if; unfold L7 at 1; cbn [eval bind as_int loc lget lset String.eqb Ascii.eqb Bool.eqb eval_bin Z.eqb Pos.eqb]; cbv iota; fold L7).
    rewrite exec_seq.
    rewrite (exec_mono _ _ _ _ _ _ (NOe "AesCTR" "$t10" "AesCTR::AesCTR/2" G2 ltac:(intros name; apply Hsz))) by lia.
    cbn [bind]. rewrite RefineFileBase.x_return. cbn [eval bind loc]. rewrite lget_lset_same. reflexivity.
  - rewrite exec_if. cbn [eval bind as_int loc lget String.eqb Ascii.eqb Bool.eqb]. change (0 =? 0) with true. cbv iota.
    rewrite exec_seq, exec_set. cbn [eval bind as_int loc lget String.eqb Ascii.eqb Bool.eqb]. change (wrap I32 3) with 3. unfold with_loc. cbn [bind mem loc pre files ptrs fresh]. fold L7.
    do 4 (rewrite exec_if; unfold L7 at 1; cbn [eval bind as_int loc lget lset String.eqb Ascii.eqb Bool.eqb eval_bin Z.eqb Pos.eqb]; cbv iota; fold L7).
    rewrite exec_seq.
    rewrite (exec_mono _ _ _ _ _ _ (NOe "AesCFB_Dec" "$t11" "AesCFB_Dec::AesCFB_Dec/2" G3 ltac:(intros name; apply Hsz))) by lia.
    cbn [bind]. rewrite RefineFileBase.x_return. cbn [eval bind loc]. rewrite lget_lset_same. reflexivity.
  - rewrite exec_if. cbn [eval bind as_int loc lget String.eqb Ascii.eqb Bool.eqb]. change (0 =? 0) with true. cbv iota.
    rewrite exec_seq, exec_set. cbn [eval bind as_int loc lget String.eqb Ascii.eqb Bool.eqb]. change (wrap I32 4) with 4. unfold with_loc. cbn [bind mem loc pre files ptrs fresh]. fold L7.
    do 5 (rewrite exec_if; unfold L7 at 1; cbn [eval bind as_int loc lget lset String.eqb Ascii.eqb Bool.eqb eval_bin Z.eqb Pos.eqb]; cbv iota; fold L7).
    rewrite exec_seq.
    rewrite (exec_mono _ _ _ _ _ _ (NOe "AesOFB" "$t12" "AesOFB::AesOFB/2" G4 ltac:(intros name; apply Hsz))) by lia.
    cbn [bind]. rewrite RefineFileBase.x_return. cbn [eval bind loc]. rewrite lget_lset_same. reflexivity.
Qed.
Print Assumptions createCryMaster_wd.
