(* Reasoning about MiniC executions: fuel monotonicity, one-step unfolding equations, the rule
   for counted loops, association-list lemmas, and the bridge between the Z-valued cells of
   MiniC and the N-valued bytes/words of the hand-written models. *)
From Coq Require Import ZArith NArith List String Bool Lia Ascii Arith.
From Wencry Require Import MiniC.
Import ListNotations.
Local Open Scope Z_scope.

(* ---------------- association lists ---------------- *)
Lemma mget_mset_same : forall m k o, mget (mset m k o) k = Some o.
Proof.
  induction m as [|[k' o'] r IH]; intros k o; cbn.
  - now rewrite String.eqb_refl.
  - destruct (String.eqb k k') eqn:E; cbn; rewrite ?String.eqb_refl; auto. now rewrite E.
Qed.
Lemma mget_mset_other : forall m k k' o, k <> k' -> mget (mset m k o) k' = mget m k'.
Proof.
  induction m as [|[k0 o0] r IH]; intros k k' o Hne; cbn.
  - destruct (String.eqb k' k) eqn:E; auto. apply String.eqb_eq in E. congruence.
  - destruct (String.eqb k k0) eqn:E; cbn.
    + apply String.eqb_eq in E. subst k0.
      destruct (String.eqb k' k) eqn:E2; auto. apply String.eqb_eq in E2. congruence.
    + destruct (String.eqb k' k0); auto.
Qed.
Lemma lget_lset_same : forall A (l : list (string * A)) k v, lget (lset l k v) k = Some v.
Proof.
  induction l as [|[k' v'] r IH]; intros k v; cbn.
  - now rewrite String.eqb_refl.
  - destruct (String.eqb k k') eqn:E; cbn; rewrite ?String.eqb_refl; auto. now rewrite E.
Qed.
Lemma lget_lset_other : forall A (l : list (string * A)) k k' v, k <> k' -> lget (lset l k v) k' = lget l k'.
Proof.
  induction l as [|[k0 v0] r IH]; intros k k' v Hne; cbn.
  - destruct (String.eqb k' k) eqn:E; auto. apply String.eqb_eq in E. congruence.
  - destruct (String.eqb k k0) eqn:E; cbn.
    + apply String.eqb_eq in E. subst k0.
      destruct (String.eqb k' k) eqn:E2; auto. apply String.eqb_eq in E2. congruence.
    + destruct (String.eqb k' k0); auto.
Qed.

(* ---------------- lists of cells ---------------- *)
Lemma upd_nth_length : forall l n v, List.length (upd_nth n v l) = List.length l.
Proof. induction l as [|x r IH]; intros [|n] v; cbn; auto. Qed.
Lemma nth_upd_nth_same : forall l n v d, (n < List.length l)%nat -> nth n (upd_nth n v l) d = v.
Proof. induction l as [|x r IH]; intros [|n] v d H; cbn in *; try lia; auto. apply IH. lia. Qed.
Lemma nth_upd_nth_other : forall l n m v d, n <> m -> nth m (upd_nth n v l) d = nth m l d.
Proof. induction l as [|x r IH]; intros [|n] [|m] v d H; cbn; auto; try congruence. Qed.
Lemma upd_range_length : forall vs n l, List.length (upd_range n vs l) = List.length l.
Proof. induction vs as [|v r IH]; intros n l; cbn; auto. now rewrite IH, upd_nth_length. Qed.
Lemma upd_range_app : forall (vs pre post : list Z),
  (List.length vs <= List.length post)%nat ->
  upd_range (List.length pre) vs (pre ++ post) = pre ++ vs ++ skipn (List.length vs) post.
Proof.
  induction vs as [|v r IH]; intros pre post H; cbn in *.
  - reflexivity.
  - destruct post as [|p post]; cbn in H; [lia|].
    assert (E : upd_nth (List.length pre) v (pre ++ p :: post) = (pre ++ [v]) ++ post).
    { clear. induction pre as [|x pre IHp]; cbn; auto. now rewrite IHp. }
    rewrite E. replace (S (List.length pre)) with (List.length (pre ++ [v])) by (rewrite app_length; cbn; lia).
    rewrite IH by lia. now rewrite <- app_assoc.
Qed.

(* ---------------- results ---------------- *)
Lemma bind_Ok : forall A B (r : res A) (f : A -> res B) b, bind r f = Ok b -> exists a, r = Ok a /\ f a = Ok b.
Proof. intros A B [a|w|] f b H; cbn in H; try discriminate. eauto. Qed.

(* ---------------- fuel monotonicity ---------------- *)
Section Mono.
Variable prog : program.
Variable vtab : list (string * string).

Lemma exec_mono : forall fuel st s r, exec prog vtab fuel st s = Ok r -> forall fuel', (fuel <= fuel')%nat -> exec prog vtab fuel' st s = Ok r.
Proof.
  induction fuel as [|fuel IH]; intros st s r H fuel' Hle; [discriminate|].
  destruct fuel' as [|fuel']; [lia|]. assert (Hle' : (fuel <= fuel')%nat) by lia.
  assert (IH' : forall st s r, exec prog vtab fuel st s = Ok r -> exec prog vtab fuel' st s = Ok r) by (intros; eapply IH; eauto).
  clear IH Hle.
  assert (CALL : forall ret fname pfx vs r0,
    match lget prog fname with
    | None => UB ("no function " ++ fname)%string
    | Some f => do l <- bind_params (f_params f) vs;
                do r1 <- exec prog vtab fuel (f_body f) {| mem := mem s; loc := l; pre := pfx; files := files s; ptrs := ptrs s; fresh := fresh s |};
                let '(o, s1) := r1 in
                do s2 <- set_ret {| mem := mem s1; loc := loc s; pre := pre s; files := files s1; ptrs := ptrs s1; fresh := fresh s1 |} ret
                                 (match o with Returned v => v | _ => None end);
                Ok (Normal, s2)
    end = Ok r0 ->
    match lget prog fname with
    | None => UB ("no function " ++ fname)%string
    | Some f => do l <- bind_params (f_params f) vs;
                do r1 <- exec prog vtab fuel' (f_body f) {| mem := mem s; loc := l; pre := pfx; files := files s; ptrs := ptrs s; fresh := fresh s |};
                let '(o, s1) := r1 in
                do s2 <- set_ret {| mem := mem s1; loc := loc s; pre := pre s; files := files s1; ptrs := ptrs s1; fresh := fresh s1 |} ret
                                 (match o with Returned v => v | _ => None end);
                Ok (Normal, s2)
    end = Ok r0).
  { intros ret fname pfx vs r0 Hc. destruct (lget prog fname) as [f|]; [|discriminate].
    apply bind_Ok in Hc. destruct Hc as [l [Hl Hc]]. rewrite Hl. cbn [bind].
    apply bind_Ok in Hc. destruct Hc as [r1 [Hr1 Hc]]. rewrite (IH' _ _ _ Hr1). cbn [bind]. exact Hc. }
  destruct st; cbn [exec] in H |- *; try exact H.
  - (* SSeq *)
    apply bind_Ok in H. destruct H as [[o s1] [H1 H2]]. rewrite (IH' _ _ _ H1). cbn [bind].
    destruct o; auto.
  - (* SIf *)
    apply bind_Ok in H. destruct H as [cv [Hc H]]. rewrite Hc. cbn [bind].
    apply bind_Ok in H. destruct H as [x [Hx H]]. rewrite Hx. cbn [bind]. destruct (x =? 0); auto.
  - (* SLoop *)
    apply bind_Ok in H. destruct H as [cv [Hc H]]. rewrite Hc. cbn [bind].
    apply bind_Ok in H. destruct H as [x [Hx H]]. rewrite Hx. cbn [bind]. destruct (x =? 0); auto.
    apply bind_Ok in H. destruct H as [[o s1] [H1 H]]. rewrite (IH' _ _ _ H1). cbn [bind].
    destruct o; auto.
    apply bind_Ok in H. destruct H as [[o2 s2] [H2 H]]. rewrite (IH' _ _ _ H2). cbn [bind].
    destruct o2; auto.
  - (* SDoWhile *)
    apply bind_Ok in H. destruct H as [[o s1] [H1 H]]. rewrite (IH' _ _ _ H1). cbn [bind].
    destruct o; auto.
    apply bind_Ok in H. destruct H as [cv [Hc H]]. rewrite Hc. cbn [bind].
    apply bind_Ok in H. destruct H as [x [Hx H]]. rewrite Hx. cbn [bind]. destruct (x =? 0); auto.
  - (* SCall *)
    apply bind_Ok in H. destruct H as [vs [Hv H]]. rewrite Hv. cbn [bind].
    apply bind_Ok in H. destruct H as [pfx [Hp H]]. rewrite Hp. cbn [bind]. apply CALL. exact H.
  - (* SCallVirt *)
    apply bind_Ok in H. destruct H as [vs [Hv H]]. rewrite Hv. cbn [bind].
    apply bind_Ok in H. destruct H as [pfx [Hp H]]. rewrite Hp. cbn [bind].
    destruct (lget vtab pfx); [apply CALL; exact H|].
    destruct (lget (ptrs s) (class_key pfx)) as [[z|cls off|]|]; try discriminate. apply CALL. exact H.
  - (* SNewObj *)
    apply bind_Ok in H. destruct H as [vs [Hv H]]. rewrite Hv. cbn [bind].
    match goal with |- context [negb ?b] => destruct (negb b) end; [exact H|].
    destruct ctor as [fname|]; [|exact H].
    destruct (lget prog fname) as [f|]; [|discriminate].
    apply bind_Ok in H. destruct H as [l [Hl H]]. rewrite Hl. cbn [bind].
    apply bind_Ok in H. destruct H as [r1 [Hr1 H]]. rewrite (IH' _ _ _ Hr1). cbn [bind]. exact H.
Qed.

Lemma call_mono : forall fuel f pfx vs s r, call prog vtab fuel f pfx vs s = Ok r ->
  forall fuel', (fuel <= fuel')%nat -> call prog vtab fuel' f pfx vs s = Ok r.
Proof.
  unfold call. intros fuel f pfx vs s r H fuel' Hle. destruct (lget prog f) as [fn|]; [|discriminate].
  apply bind_Ok in H. destruct H as [l [Hl H]]. rewrite Hl. cbn [bind].
  apply bind_Ok in H. destruct H as [r1 [H1 H]]. rewrite (exec_mono _ _ _ _ H1 _ Hle). cbn [bind]. exact H.
Qed.

(* ---------------- one-step equations (rewrite with these instead of unfolding exec) ---------------- *)
Lemma exec_seq : forall fuel a b s,
  exec prog vtab (S fuel) (SSeq a b) s =
  (do r <- exec prog vtab fuel a s; let '(o, s1) := r in match o with Normal => exec prog vtab fuel b s1 | _ => Ok (o, s1) end).
Proof. reflexivity. Qed.
Lemma exec_skip : forall fuel s, exec prog vtab (S fuel) SSkip s = Ok (Normal, s).
Proof. reflexivity. Qed.
Lemma exec_set : forall fuel x e s,
  exec prog vtab (S fuel) (SSet x e) s = (do v <- eval s e; Ok (Normal, with_loc s (lset (loc s) x v))).
Proof. reflexivity. Qed.
Lemma exec_if : forall fuel c a b s,
  exec prog vtab (S fuel) (SIf c a b) s =
  (do cv <- eval s c; do x <- as_int cv; if x =? 0 then exec prog vtab fuel b s else exec prog vtab fuel a s).
Proof. reflexivity. Qed.
Lemma exec_loop : forall fuel c body step s,
  exec prog vtab (S fuel) (SLoop c body step) s =
  (do cv <- eval s c; do x <- as_int cv;
   if x =? 0 then Ok (Normal, s) else
   do r <- exec prog vtab fuel body s;
   let '(o, s1) := r in
   match o with
   | Normal => do r2 <- exec prog vtab fuel step s1;
               let '(o2, s2) := r2 in
               match o2 with Normal => exec prog vtab fuel (SLoop c body step) s2 | _ => UB "control flow out of a loop step" end
   | Broke => Ok (Normal, s1)
   | Returned v => Ok (Returned v, s1)
   end).
Proof. reflexivity. Qed.

(* ---------------- counted loops ----------------
   If the states at the loop head are f 0, f 1, ..., f n, the condition holds at f k for k < n
   and fails at f n, and one iteration (body then step, both ending normally) leads from f k to
   f (k+1), then the loop runs from f 0 to f n.  F is the fuel one iteration needs. *)
Lemma loop_count : forall c body step (f : nat -> state) (n F : nat),
  (forall k, (k < n)%nat ->
     exists x, eval (f k) c = Ok (VInt x) /\ x <> 0 /\
     exists s1, exec prog vtab F body (f k) = Ok (Normal, s1) /\ exec prog vtab F step s1 = Ok (Normal, f (S k))) ->
  (eval (f n) c = Ok (VInt 0)) ->
  forall k, (k <= n)%nat -> exec prog vtab (S (F + (n - k))) (SLoop c body step) (f k) = Ok (Normal, f n).
Proof.
  intros c body step f n F Hit Hend k Hk.
  remember (n - k)%nat as d eqn:Hd. revert k Hk Hd.
  induction d as [|d IH]; intros k Hk Hd.
  - assert (k = n) by lia. subst k. rewrite exec_loop, Hend. reflexivity.
  - destruct (Hit k ltac:(lia)) as [x [Hc [Hx [s1 [Hb Hs]]]]].
    rewrite exec_loop, Hc. cbn [bind as_int].
    destruct (x =? 0) eqn:E; [apply Z.eqb_eq in E; contradiction|].
    rewrite (exec_mono _ _ _ _ Hb (F + S d)%nat ltac:(lia)). cbn [bind].
    rewrite (exec_mono _ _ _ _ Hs (F + S d)%nat ltac:(lia)). cbn [bind].
    replace (F + S d)%nat with (S (F + d)) by lia. apply IH; lia.
Qed.

(* the same with an early exit: iteration m (< n) ends in `break` with state g *)
Lemma loop_break : forall c body step (f : nat -> state) (m F : nat) (g : state),
  (forall k, (k < m)%nat ->
     exists x, eval (f k) c = Ok (VInt x) /\ x <> 0 /\
     exists s1, exec prog vtab F body (f k) = Ok (Normal, s1) /\ exec prog vtab F step s1 = Ok (Normal, f (S k))) ->
  (exists x, eval (f m) c = Ok (VInt x) /\ x <> 0 /\ exec prog vtab F body (f m) = Ok (Broke, g)) ->
  forall k, (k <= m)%nat -> exec prog vtab (S (F + (m - k))) (SLoop c body step) (f k) = Ok (Normal, g).
Proof.
  intros c body step f m F g Hit Hend k Hk.
  remember (m - k)%nat as d eqn:Hd. revert k Hk Hd.
  induction d as [|d IH]; intros k Hk Hd.
  - assert (k = m) by lia. subst k. destruct Hend as [x [Hc [Hx Hb]]].
    rewrite exec_loop, Hc. cbn [bind as_int].
    destruct (x =? 0) eqn:E; [apply Z.eqb_eq in E; contradiction|].
    rewrite (exec_mono _ _ _ _ Hb (F + 0)%nat ltac:(lia)). reflexivity.
  - destruct (Hit k ltac:(lia)) as [x [Hc [Hx [s1 [Hb Hs]]]]].
    rewrite exec_loop, Hc. cbn [bind as_int].
    destruct (x =? 0) eqn:E; [apply Z.eqb_eq in E; contradiction|].
    rewrite (exec_mono _ _ _ _ Hb (F + S d)%nat ltac:(lia)). cbn [bind].
    rewrite (exec_mono _ _ _ _ Hs (F + S d)%nat ltac:(lia)). cbn [bind].
    replace (F + S d)%nat with (S (F + d)) by lia. apply IH; lia.
Qed.
End Mono.

(* ---------------- integers: Z cells vs N model values ---------------- *)
Lemma wrap_U8_small : forall z, 0 <= z < 256 -> wrap U8 z = z.
Proof. intros z H. unfold wrap; cbn. apply Z.mod_small. lia. Qed.
Lemma wrap_U32_small : forall z, 0 <= z < 2 ^ 32 -> wrap U32 z = z.
Proof. intros z H. unfold wrap; cbn [ity_bits ity_signed]. apply Z.mod_small. lia. Qed.
Lemma wrap_U64_small : forall z, 0 <= z < 2 ^ 64 -> wrap U64 z = z.
Proof. intros z H. unfold wrap; cbn [ity_bits ity_signed]. apply Z.mod_small. lia. Qed.
Lemma wrap_I32_small : forall z, - 2 ^ 31 <= z < 2 ^ 31 -> wrap I32 z = z.
Proof.
  intros z H. unfold wrap; cbn [ity_bits ity_signed].
  change (2 ^ 32 / 2) with (2 ^ 31). rewrite Z.mod_small; lia.
Qed.
Lemma wrap_U32_mod : forall z, wrap U32 z = z mod 2 ^ 32.
Proof. reflexivity. Qed.
Lemma wrap_U8_mod : forall z, wrap U8 z = z mod 256.
Proof. reflexivity. Qed.
Lemma arith_U32 : forall z, arith U32 z = Ok (z mod 2 ^ 32).
Proof. reflexivity. Qed.
Lemma arith_U64 : forall z, arith U64 z = Ok (z mod 2 ^ 64).
Proof. reflexivity. Qed.
Lemma arith_I32_small : forall z, - 2 ^ 31 <= z < 2 ^ 31 -> arith I32 z = Ok z.
Proof.
  intros z H. unfold arith; cbn [ity_bits ity_signed]. change (2 ^ 32 / 2) with (2 ^ 31).
  destruct (- 2 ^ 31 <=? z) eqn:A; [|apply Z.leb_gt in A; lia].
  destruct (z <? 2 ^ 31) eqn:B; [|apply Z.ltb_ge in B; lia]. reflexivity.
Qed.

Lemma of_N_mod : forall a b, (b <> 0)%N -> Z.of_N (a mod b) = Z.of_N a mod Z.of_N b.
Proof. intros. apply N2Z.inj_mod. Qed.
Lemma of_N_land : forall a b, Z.of_N (N.land a b) = Z.land (Z.of_N a) (Z.of_N b).
Proof. intros. destruct a, b; reflexivity. Qed.
Lemma of_N_lor : forall a b, Z.of_N (N.lor a b) = Z.lor (Z.of_N a) (Z.of_N b).
Proof. intros. destruct a, b; reflexivity. Qed.
Lemma of_N_lxor : forall a b, Z.of_N (N.lxor a b) = Z.lxor (Z.of_N a) (Z.of_N b).
Proof. intros. destruct a as [|p], b as [|q]; cbn; auto; try (destruct (Pos.lxor p q); reflexivity). Qed.
Lemma of_N_shiftl : forall a n, Z.of_N (N.shiftl a n) = Z.shiftl (Z.of_N a) (Z.of_N n).
Proof. intros. rewrite Z.shiftl_mul_pow2 by lia. rewrite N.shiftl_mul_pow2. rewrite N2Z.inj_mul, N2Z.inj_pow. reflexivity. Qed.
Lemma of_N_shiftr : forall a n, Z.of_N (N.shiftr a n) = Z.shiftr (Z.of_N a) (Z.of_N n).
Proof. intros. rewrite Z.shiftr_div_pow2 by lia. rewrite N.shiftr_div_pow2. rewrite N2Z.inj_div, N2Z.inj_pow. reflexivity. Qed.

(* little-endian bytes *)
Lemma le_val_app : forall a b, le_val (a ++ b) = le_val a + 256 ^ Z.of_nat (List.length a) * le_val b.
Proof.
  induction a as [|x a IH]; intros b.
  - cbn [le_val app List.length]. change (256 ^ Z.of_nat 0) with 1. lia.
  - cbn [le_val app List.length]. rewrite IH. rewrite Nat2Z.inj_succ, Z.pow_succ_r by lia. ring.
Qed.
Lemma le_bytes_length : forall n z, List.length (le_bytes n z) = n.
Proof. induction n; intros; cbn; auto. Qed.
Lemma le_val_le_bytes : forall n z, 0 <= z < 256 ^ Z.of_nat n -> le_val (le_bytes n z) = z.
Proof.
  induction n as [|n IH]; intros z H.
  - cbn in *. lia.
  - cbn [le_bytes le_val]. rewrite Nat2Z.inj_succ, Z.pow_succ_r in H by lia.
    rewrite IH.
    + pose proof (Z.div_mod z 256 ltac:(lia)). lia.
    + split; [apply Z.div_pos; lia|]. apply Z.div_lt_upper_bound; lia.
Qed.

(* ---------------- a call does not depend on the caller's locals / prefix; a larger program ---------------- *)
Definition with_pre (s : state) (p : string) : state :=
  {| mem := mem s; loc := loc s; pre := p; files := files s; ptrs := ptrs s; fresh := fresh s |}.

Lemma call_caller_indep : forall prog vt fuel f pfx vs s l p v s',
  call prog vt fuel f pfx vs s = Ok (v, s') ->
  call prog vt fuel f pfx vs {| mem := mem s; loc := l; pre := p; files := files s; ptrs := ptrs s; fresh := fresh s |}
  = Ok (v, {| mem := mem s'; loc := l; pre := p; files := files s'; ptrs := ptrs s'; fresh := fresh s' |}).
Proof.
  unfold call. intros prog vt fuel f pfx vs s l p v s' H. cbn [mem loc pre files ptrs fresh].
  destruct (lget prog f) as [fn|]; [|discriminate].
  apply bind_Ok in H. destruct H as [l0 [Hl H]]. rewrite Hl. cbn [bind].
  apply bind_Ok in H. destruct H as [[o s1] [H1 H]]. rewrite H1. cbn [bind].
  injection H as Hv Hs. subst v. subst s'. reflexivity.
Qed.

(* the exec of SCall / SCallVirt is a `call` followed by the assignment of the result *)
Lemma exec_scall_call : forall prog vt fuel ret f this args s vs pfx v s',
  eval_list s args = Ok vs -> this_prefix s this = Ok pfx ->
  call prog vt fuel f pfx vs s = Ok (v, s') ->
  exec prog vt (S fuel) (SCall ret f this args) s = (do s2 <- set_ret s' ret v; Ok (Normal, s2)).
Proof.
  intros prog vt fuel ret f this args s vs pfx v s' Hv Hp Hc. cbn [exec]. rewrite Hv. cbn [bind]. rewrite Hp. cbn [bind].
  unfold call in Hc. destruct (lget prog f) as [fn|]; [|discriminate].
  apply bind_Ok in Hc. destruct Hc as [l [Hl Hc]]. rewrite Hl. cbn [bind].
  apply bind_Ok in Hc. destruct Hc as [[o s1] [H1 Hc]]. rewrite H1. cbn [bind].
  injection Hc as Hv' Hs. subst v s'. reflexivity.
Qed.

(* functions found in prog are found (the same) in prog ++ ext: a successful execution is unchanged by linking more code *)
Lemma lget_app : forall A (a b : list (string * A)) k,
  lget (a ++ b) k = match lget a k with Some v => Some v | None => lget b k end.
Proof. induction a as [|[k' v'] r IH]; intros b k; cbn; auto. destruct (String.eqb k k'); auto. Qed.

Section Extend.
Variable prog ext : program.
Variable vtab : list (string * string).

Lemma exec_prog_extend : forall fuel st s r, exec prog vtab fuel st s = Ok r -> exec (prog ++ ext) vtab fuel st s = Ok r.
Proof.
  induction fuel as [|fuel IH]; intros st s r H; [discriminate|].
  assert (CALL : forall ret fname pfx vs r0,
    match lget prog fname with
    | None => UB ("no function " ++ fname)%string
    | Some f => do l <- bind_params (f_params f) vs;
                do r1 <- exec prog vtab fuel (f_body f) {| mem := mem s; loc := l; pre := pfx; files := files s; ptrs := ptrs s; fresh := fresh s |};
                let '(o, s1) := r1 in
                do s2 <- set_ret {| mem := mem s1; loc := loc s; pre := pre s; files := files s1; ptrs := ptrs s1; fresh := fresh s1 |} ret
                                 (match o with Returned v => v | _ => None end);
                Ok (Normal, s2)
    end = Ok r0 ->
    match lget (prog ++ ext) fname with
    | None => UB ("no function " ++ fname)%string
    | Some f => do l <- bind_params (f_params f) vs;
                do r1 <- exec (prog ++ ext) vtab fuel (f_body f) {| mem := mem s; loc := l; pre := pfx; files := files s; ptrs := ptrs s; fresh := fresh s |};
                let '(o, s1) := r1 in
                do s2 <- set_ret {| mem := mem s1; loc := loc s; pre := pre s; files := files s1; ptrs := ptrs s1; fresh := fresh s1 |} ret
                                 (match o with Returned v => v | _ => None end);
                Ok (Normal, s2)
    end = Ok r0).
  { intros ret fname pfx vs r0 Hc. rewrite lget_app. destruct (lget prog fname) as [f|]; [|discriminate].
    apply bind_Ok in Hc. destruct Hc as [l [Hl Hc]]. rewrite Hl. cbn [bind].
    apply bind_Ok in Hc. destruct Hc as [r1 [Hr1 Hc]]. rewrite (IH _ _ _ Hr1). cbn [bind]. exact Hc. }
  destruct st; cbn [exec] in H |- *; try exact H.
  - apply bind_Ok in H. destruct H as [[o s1] [H1 H2]]. rewrite (IH _ _ _ H1). cbn [bind]. destruct o; auto.
  - apply bind_Ok in H. destruct H as [cv [Hc H]]. rewrite Hc. cbn [bind].
    apply bind_Ok in H. destruct H as [x [Hx H]]. rewrite Hx. cbn [bind]. destruct (x =? 0); auto.
  - apply bind_Ok in H. destruct H as [cv [Hc H]]. rewrite Hc. cbn [bind].
    apply bind_Ok in H. destruct H as [x [Hx H]]. rewrite Hx. cbn [bind]. destruct (x =? 0); auto.
    apply bind_Ok in H. destruct H as [[o s1] [H1 H]]. rewrite (IH _ _ _ H1). cbn [bind].
    destruct o; auto.
    apply bind_Ok in H. destruct H as [[o2 s2] [H2 H]]. rewrite (IH _ _ _ H2). cbn [bind].
    destruct o2; auto.
  - apply bind_Ok in H. destruct H as [[o s1] [H1 H]]. rewrite (IH _ _ _ H1). cbn [bind].
    destruct o; auto.
    apply bind_Ok in H. destruct H as [cv [Hc H]]. rewrite Hc. cbn [bind].
    apply bind_Ok in H. destruct H as [x [Hx H]]. rewrite Hx. cbn [bind]. destruct (x =? 0); auto.
  - apply bind_Ok in H. destruct H as [vs [Hv H]]. rewrite Hv. cbn [bind].
    apply bind_Ok in H. destruct H as [pfx [Hp H]]. rewrite Hp. cbn [bind]. apply CALL. exact H.
  - apply bind_Ok in H. destruct H as [vs [Hv H]]. rewrite Hv. cbn [bind].
    apply bind_Ok in H. destruct H as [pfx [Hp H]]. rewrite Hp. cbn [bind].
    destruct (lget vtab pfx); [apply CALL; exact H|].
    destruct (lget (ptrs s) (class_key pfx)) as [[z|cls off|]|]; try discriminate. apply CALL. exact H.
  - apply bind_Ok in H. destruct H as [vs [Hv H]]. rewrite Hv. cbn [bind].
    match goal with |- context [negb ?b] => destruct (negb b) end; [exact H|].
    destruct ctor as [fname|]; [|exact H].
    rewrite lget_app. destruct (lget prog fname) as [f|]; [|discriminate].
    apply bind_Ok in H. destruct H as [l [Hl H]]. rewrite Hl. cbn [bind].
    apply bind_Ok in H. destruct H as [r1 [Hr1 H]]. rewrite (IH _ _ _ Hr1). cbn [bind]. exact H.
Qed.

Lemma call_prog_extend : forall fuel f pfx vs s r, call prog vtab fuel f pfx vs s = Ok r -> call (prog ++ ext) vtab fuel f pfx vs s = Ok r.
Proof.
  unfold call. intros fuel f pfx vs s r H. rewrite lget_app. destruct (lget prog f) as [fn|]; [|discriminate].
  apply bind_Ok in H. destruct H as [l [Hl H]]. rewrite Hl. cbn [bind].
  apply bind_Ok in H. destruct H as [r1 [H1 H]]. rewrite (exec_prog_extend _ _ _ _ H1). cbn [bind]. exact H.
Qed.
End Extend.

(* ---------------- names of heap objects: "#" ++ decimal digits, injective ---------------- *)
Section HeapNames.
Local Open Scope nat_scope.
(* digits *)
Definition digit_of (a : ascii) : nat := nat_of_ascii a - 48.
Fixpoint parse_nat (acc : nat) (s : string) : nat :=
  match s with EmptyString => acc | String a r => parse_nat (10 * acc + digit_of a) r end.
Definition go := (fix go (k : nat) (n : nat) (acc : string) {struct k} : string :=
     match k with
     | O => acc
     | S k' => let d := String (Ascii.ascii_of_nat (48 + Nat.modulo n 10)) acc in
               if Nat.eqb (Nat.div n 10) 0 then d else go k' (Nat.div n 10) d
     end).
Lemma nat_string_go : forall n, nat_string n = go (S n) n EmptyString.
Proof. reflexivity. Qed.
Lemma digit_ascii : forall d, d < 10 -> digit_of (ascii_of_nat (48 + d)) = d.
Proof. intros d H. unfold digit_of. rewrite nat_ascii_embedding by lia. lia. Qed.
(* parse (go k n acc) = value of n's digits followed by acc's digits *)
Fixpoint pow10len (s : string) : nat := match s with EmptyString => 1 | String _ r => 10 * pow10len r end.
Lemma parse_app : forall s a, parse_nat a s = a * pow10len s + parse_nat 0 s.
Proof.
  induction s as [|c r IH]; intros a; cbn [parse_nat pow10len].
  - lia.
  - rewrite IH. rewrite (IH (10 * 0 + digit_of c)). lia.
Qed.
Lemma parse_go : forall k n acc, n < k -> parse_nat 0 (go k n acc) = n * pow10len acc + parse_nat 0 acc.
Proof.
  induction k as [|k IH]; intros n acc Hk; [lia|].
  cbn [go]. destruct (Nat.eqb (n / 10) 0) eqn:E.
  - apply Nat.eqb_eq in E. cbn [parse_nat]. rewrite parse_app.
    rewrite digit_ascii by (apply Nat.mod_upper_bound; lia).
    assert (n < 10) by (apply Nat.div_small_iff in E; lia). rewrite Nat.mod_small by lia.
    replace (10 * 0 + n) with n by lia. reflexivity.
  - apply Nat.eqb_neq in E. rewrite IH.
    + cbn [pow10len parse_nat]. rewrite (parse_app acc).
      rewrite digit_ascii by (apply Nat.mod_upper_bound; lia).
      pose proof (Nat.div_mod n 10 ltac:(lia)) as D.
      replace (10 * 0 + n mod 10) with (n mod 10) by lia.
      set (p := pow10len acc). set (q := parse_nat 0 acc). set (a := n / 10) in *. set (b := n mod 10) in *.
      rewrite D. nia.
    + assert (0 < n) by (destruct n; [cbn in E; congruence|lia]).
      assert (n / 10 < n) by (apply Nat.div_lt; lia). lia.
Qed.
Lemma parse_nat_string : forall n, parse_nat 0 (nat_string n) = n.
Proof. intros n. rewrite nat_string_go, parse_go by lia. cbn. lia. Qed.
Lemma nat_string_inj : forall a b, nat_string a = nat_string b -> a = b.
Proof. intros a b H. rewrite <- (parse_nat_string a), <- (parse_nat_string b), H. reflexivity. Qed.

Definition heap_name (n : nat) : string := String "#" (nat_string n).
Lemma heap_name_inj : forall a b, heap_name a = heap_name b -> a = b.
Proof. intros a b H. injection H as H. apply nat_string_inj. exact H. Qed.
Lemma heap_name_eq : forall n, ("#" ++ nat_string n)%string = heap_name n.
Proof. reflexivity. Qed.
End HeapNames.

(* ---------------- names built from a symbolic prefix ---------------- *)
Lemma append_eqb_l : forall p a b, String.eqb (p ++ a) (p ++ b) = String.eqb a b.
Proof.
  induction p as [|c p IH]; intros a b; cbn [append]; [reflexivity|].
  cbn [String.eqb]. rewrite Ascii.eqb_refl. apply IH.
Qed.
Lemma append_inj_l : forall p a b, (p ++ a)%string = (p ++ b)%string -> a = b.
Proof. intros p a b H. apply String.eqb_eq. rewrite <- (append_eqb_l p). apply String.eqb_eq. exact H. Qed.
Lemma append_assoc_s : forall a b c : string, ((a ++ b) ++ c)%string = (a ++ (b ++ c))%string.
Proof. induction a as [|x a IH]; intros b c; cbn [append]; [reflexivity|]. now rewrite IH. Qed.
(* two names whose first characters differ are different, whatever follows *)
Lemma first_char_neq : forall c1 c2 r1 r2, Ascii.eqb c1 c2 = false -> String.eqb (String c1 r1) (String c2 r2) = false.
Proof. intros c1 c2 r1 r2 H. cbn [String.eqb]. now rewrite H. Qed.
(* lookups in memories / association lists at names with a common symbolic prefix *)
Lemma mget_mset_prefix_other : forall m p a b o, a <> b -> mget (mset m (p ++ a) o) (p ++ b) = mget m (p ++ b).
Proof. intros m p a b o H. apply mget_mset_other. intro E. apply H. eapply append_inj_l. exact E. Qed.
Lemma z_string_inj_nonneg : forall a b, 0 <= a -> 0 <= b -> z_string a = z_string b -> a = b.
Proof.
  intros a b Ha Hb H. unfold z_string in H.
  destruct (a <? 0) eqn:Ea; [apply Z.ltb_lt in Ea; lia|]. destruct (b <? 0) eqn:Eb; [apply Z.ltb_lt in Eb; lia|].
  apply nat_string_inj in H. lia.
Qed.
