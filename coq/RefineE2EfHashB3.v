(* (B) of PARALLEL2: hmac::writeFileHmac on the state after the concurrent phase of execute_encrypt (layout instance PWenc).
   The statement RefineE2EfHashSpec.writeFileHmac_enc_spec is FALSE as it stands (see STATUS.md: the pointer frame may hold an
   "alloc:" entry, the memory frame a "sizeof:" name); it is proved here with these two facts about the frames as additional
   assumptions -- conclusion: RefineE2EfTail.writeFileHmac_spec for PWenc, the premise of RefineE2EfTail.enc_last_step. *)
From Coq Require Import ZArith NArith List String Bool Lia PeanoNat Ascii.
From Wencry Require Import Bytes ModesModel HashModel HashProofs HmacProofs FileModel FileProps MiniC MiniCRun MiniCLemmas MiniCConc SrcRun SrcRun2 SrcRun5
     RefineHashDefs RefineHashDriver RefineSha256 RefineSha1 RefineMd5 RefineHash RefineFileBase RefineFileHmac RefineFileHmac2 RefineFileHmac3
     RefineE2ENames RefineE2ERel RefineE2EFrame RefineE2EWhole RefineE2EBridge RefineE2E.
From Wencry Require RefineConcMem.
From Wencry Require Import RefineE2EfLay RefineE2EfMach RefineE2EfWNames RefineE2EfWLay RefineE2EfTail RefineE2EfEncDefs RefineE2EfHashSpec RefineE2EfEnc2
     RefineE2EfHashMono RefineE2EfHashB1 RefineE2EfHashB2.
From Wencry.Gen Require Layout Src_sha256 Src_sha1 Src_md5.
Import ListNotations.
Local Open Scope list_scope.
Local Open Scope string_scope.

Definition no_alloc_keys (p : locs) : bool := forallb (fun kv => negb (pfxb "alloc:" (fst kv))) p.
Definition no_sizeof_names (m : memory) : bool := forallb (fun kv => negb (pfxb "sizeof:" (fst kv))) m.

Lemma mget_nopfx : forall p (m : memory) r, forallb (fun kv => negb (pfxb p (fst kv))) m = true -> mget m (p ++ r) = None.
Proof.
  intros p m r. induction m as [|[k o] m IH]; intro F; cbn [mget]; [reflexivity|].
  cbn [forallb fst] in F. apply andb_true_iff in F. destruct F as [F1 F2].
  destruct (String.eqb_spec (p ++ r) k) as [<-|_]; [rewrite pfxb_app in F1; discriminate F1|apply IH, F2].
Qed.
Lemma lget_nopfx : forall A p (m : list (string * A)) r, forallb (fun kv => negb (pfxb p (fst kv))) m = true -> lget m (p ++ r) = None.
Proof.
  intros A p m r. induction m as [|[k o] m IH]; intro F; cbn [lget]; [reflexivity|].
  cbn [forallb fst] in F. apply andb_true_iff in F. destruct F as [F1 F2].
  destruct (String.eqb_spec (p ++ r) k) as [<-|_]; [rewrite pfxb_app in F1; discriminate F1|apply IH, F2].
Qed.
Lemma hnum_hobj : forall n y, hnum (hobj n ++ y) = Some n.
Proof. intros n y. unfold hobj. rewrite heap_dot. apply hnum_HN. reflexivity. Qed.

(* the globals of the three hash classes in the plan-world source memory *)
Lemma glA_nil : forall hbuf key seed cm hm c T, globals_ok (@nil (string * object)) (msrc (memA_e hbuf key seed cm hm c T)).
Proof. intros hbuf key seed cm hm c T k o H. discriminate H. Qed.
Lemma glA_sha256 : forall hbuf key seed cm hm c T, globals_ok Src_sha256.globals (msrc (memA_e hbuf key seed cm hm c T)).
Proof.
  intros hbuf key seed cm hm c T k o H. unfold Src_sha256.globals in H. cbn [mget] in H.
  destruct (String.eqb_spec k "k") as [->|_]; [|discriminate H]. injection H as <-. rewrite mget_msrc. reflexivity.
Qed.

Section EncB.
Variables (c hbuf T : nat) (P key seed : list N) (cm hm : N).
Hypothesis EP : enc_params c hbuf T P key seed cm hm.
Variables (h n : nat) (extra : memory) (pextra : locs) (ke : mkind).
Hypothesis Hn : (n < h)%nat.
Hypothesis Hext : ext_mem_ok h extra = true.
Hypothesis Hpext : ext_ptr_ok h pextra = true.
Hypothesis Hnosz : no_sizeof_names extra = true.
Hypothesis Hnoal : no_alloc_keys pextra = true.
Notation PW := (PWenc hbuf T P key seed cm hm h (heap_name n) extra pextra ke).
Notation memA := (memA_e hbuf key seed cm hm c T).
Let OKW : wpar_ok PW := PWenc_ok c hbuf T P key seed cm hm EP h n extra pextra ke Hn Hext Hpext.

Variable d : mdata.
Hypothesis Hsm : sm_ok PW T d.
Notation Mbig := (w_mem_of PW c T true d).
Notation Pbig := (lset (w_ptrs_of PW T) "instance" VNull).

Definition restM : memory := ([("live_num", cell U8 (Z.of_nat (d_live d)))] ++ wp_memB PW c T ++ w_core PW T true d)%list.
Lemma big_M : forall k, mget Mbig k = match mget memA k with Some o => Some o | None => mget restM k end.
Proof. intros k. unfold w_mem_of. cbn [wp_memA PWenc]. rewrite RefineConcMem.mget_app. reflexivity. Qed.
Lemma big_M1 : forall k o, mget memA k = Some o -> mget Mbig k = Some o.
Proof. intros k o H. rewrite big_M, H. reflexivity. Qed.

Lemma big_Mf : forall m y, (h + 4 + T <= m)%nat -> mget restM (hobj m ++ y) = None.
Proof.
  intros m y Hm. pose proof (hnum_hobj m y) as Hk.
  assert (EA : mget memA (hobj m ++ y) = None).
  { destruct (mget memA (hobj m ++ y)) as [o|] eqn:Eo; [|reflexivity]. exfalso. rewrite hobj_app in Eo. eapply keysA_hash, Eo. }
  pose proof (big_M (hobj m ++ y)) as Q. rewrite EA in Q. rewrite <- Q.
  rewrite (mget_to_core PW OKW c T true d _ m Hk) by (cbn [wp_h PWenc]; lia).
  unfold w_core. rewrite !RefineConcMem.mget_app.
  rewrite (allnum_none (wp_h PW) _ _ m (allnum_seg3 PW T true d) Hk) by (cbn [wp_h PWenc]; lia).
  rewrite (allnum_none (wp_h PW + 1) _ _ m (allnum_flat _ _ _ (allnum_iob PW (d_bufs d))) Hk) by (cbn [wp_h PWenc]; lia).
  rewrite (allnum_none (wp_h PW + 2) _ _ m (allnum_flat _ _ _ (allnum_ctrl PW (d_bufs d))) Hk) by (cbn [wp_h PWenc]; lia).
  rewrite (allnum_none (wp_h PW + 3) _ _ m (allnum_MA PW _) Hk) by (cbn [wp_h PWenc]; lia).
  apply (proj1 Hsm). cbn [wp_h PWenc]. exact Hm.
Qed.

Lemma big_Ms : forall r, mget restM ("sizeof:" ++ r) = None.
Proof.
  intros r. assert (Hk : hnum ("sizeof:" ++ r) = None) by reflexivity.
  assert (E1 : String.eqb ("sizeof:" ++ r) "live_num" = false) by reflexivity.
  assert (E2 : String.eqb ("sizeof:" ++ r) "#0" = false) by reflexivity.
  unfold restM. cbn [wp_memB PWenc]. rewrite !RefineConcMem.mget_app.
  pose proof (mget_nopfx "sizeof:" extra r Hnosz) as E3.
  set (k := "sizeof:" ++ r) in *. cbn [mget]. rewrite E1, E2, E3. subst k.
  unfold w_core. rewrite !RefineConcMem.mget_app.
  rewrite (allnum_none' (wp_h PW) _ _ (allnum_seg3 PW T true d) Hk).
  rewrite (allnum_none' (wp_h PW + 1) _ _ (allnum_flat _ _ _ (allnum_iob PW (d_bufs d))) Hk).
  rewrite (allnum_none' (wp_h PW + 2) _ _ (allnum_flat _ _ _ (allnum_ctrl PW (d_bufs d))) Hk).
  rewrite (allnum_none' (wp_h PW + 3) _ _ (allnum_MA PW _) Hk).
  apply (proj2 Hsm).
Qed.

Lemma big_Pa : forall c0, lget Pbig ("alloc:" ++ c0) = None.
Proof.
  intros c0. assert (Hk : hnum ("alloc:" ++ c0) = None) by reflexivity.
  assert (Hc : forall x, String.eqb ("alloc:" ++ c0) (class_key x) = false) by (intros x; reflexivity).
  assert (Hh : forall k a, hnum k = Some a -> String.eqb ("alloc:" ++ c0) k = false).
  { intros k a Ha. rewrite String.eqb_sym. apply (hnum_none_neq k _ a Ha Hk). }
  rewrite lget_lset_other' by discriminate.
  assert (Eo : forall x, String.eqb ("alloc:" ++ c0) (String "r" x) = false) by reflexivity.
  assert (Ei : String.eqb ("alloc:" ++ c0) "instance" = false) by reflexivity.
  unfold w_ptrs_of. cbn [wp_pA wp_pB wp_pC PWenc]. rewrite !RefineConcMem.lget_app.
  pose proof (lget_nopfx _ "alloc:" pextra c0 Hnoal) as E3.
  set (k := "alloc:" ++ c0) in *. cbn [lget]. rewrite !Eo, Ei, E3. subst k.
  assert (C5 : lget (core5 PW) ("alloc:" ++ c0) = None).
  { unfold core5. cbn [lget]. rewrite Hc. rewrite !(Hh _ _ (hnum_GP PW _)). reflexivity. }
  rewrite C5.
  rewrite (RefineConcMem.lget_map_none _ (fun i => class_key (wbp PW i))) by (intros; apply Hc).
  rewrite (RefineConcMem.lget_map_none _ (fun i => class_key (wcp PW i))) by (intros; apply Hc).
  rewrite lget_flat_none.
  2:{ intros j. unfold stream_ptrs. cbn [lget]. rewrite Hc. rewrite (Hh _ _ (hnum_MAkey PW (8 * Z.of_nat j) ltac:(lia))). reflexivity. }
  apply RefineConcMem.lget_map_none. intros j. destruct (thr_key_shape PW OKW (8 * Z.of_nat j)) as (r & E1 & _). rewrite E1. reflexivity.
Qed.

Lemma big_thr : mget Mbig "rc.threads_num" = Some (oc U8 (Z.of_nat T)).
Proof. apply big_M1. reflexivity. Qed.
End EncB.

(* ---------------- the theorem ---------------- *)
Definition writeFileHmac_enc_spec' : Prop :=
  forall (c hbuf T : nat) (P key seed : list N) (cm hm : N) (h n : nat) (extra : memory) (pextra : locs) (ke : mkind),
    enc_params c hbuf T P key seed cm hm -> (N.of_nat (64 * hbuf) < 2 ^ 32)%N ->
    (n < h)%nat -> ext_mem_ok h extra = true -> ext_ptr_ok h pextra = true ->
    no_sizeof_names extra = true -> no_alloc_keys pextra = true ->
    writeFileHmac_spec (PWenc hbuf T P key seed cm hm h (heap_name n) extra pextra ke) c hbuf T hm key.

Theorem writeFileHmac_enc_ok' : writeFileHmac_enc_spec'.
Proof.
  intros c hbuf T P key seed cm hm h n extra pextra ke EP Hh32 Hn Hext Hpext Hnosz Hnoal.
  pose proof EP as [Hc Hh1 HT HP Hkey Hseed Hcm Hhm HsP HsT HsS].
  assert (Hh2 : (Z.of_nat (64 * hbuf) < 2 ^ 32)%Z) by lia.
  intros input0 d l fsize Hbytes Hsm _. cbv zeta.
  set (PW := PWenc hbuf T P key seed cm hm h (heap_name n) extra pextra ke) in *.
  assert (W : exists fuel tag s' fo,
    hmac_model hbuf hm key (skipn 48 (map Z.to_N (d_out d))) = Some tag /\
    call whole_prog [] fuel "hmac::writeFileHmac/6" "rc.hmachandle." [VInt (Z.of_N hm); VPtr "fout" 0; VPtr "key" 0; VInt 48; VInt 10; VInt fsize]
         (St (w_mem_of PW c T true d) l "rc."
             (FS2 {| cf_data := map Z.of_N input0; cf_pos := d_pos d; cf_eof := d_eof d |} {| cf_data := d_out d; cf_pos := List.length (d_out d); cf_eof := false |})
             (lset (w_ptrs_of PW T) "instance" VNull) (h + 4 + T)%nat) = Ok (None, s') /\
    files s' = FS2 {| cf_data := map Z.of_N input0; cf_pos := d_pos d; cf_eof := d_eof d |} fo /\
    cf_data fo = map Z.of_N (patch (map Z.to_N (d_out d)) 10 tag) /\
    mget (mem s') "rc.threads_num" = Some (oc U8 (Z.of_nat T)) /\
    (forall m off, (0 <= off)%Z -> lget (ptrs s') (ptr_key (heap_name m) off) = lget (lset (w_ptrs_of PW T) "instance" VNull) (ptr_key (heap_name m) off)) /\
    lget (ptrs s') "rc.fin" = lget (lset (w_ptrs_of PW T) "instance" VNull) "rc.fin" /\
    lget (ptrs s') "rc.out" = lget (lset (w_ptrs_of PW T) "instance" VNull) "rc.out").
  { assert (Hc3 : hm = 0%N \/ hm = 1%N \/ hm = 2%N) by lia.
    pose proof (big_M c hbuf T P key seed cm hm h n extra pextra ke d) as B1.
    pose proof (big_Mf c hbuf T P key seed cm hm EP h n extra pextra ke Hn Hext Hpext d Hsm) as B2.
    pose proof (big_Ms c hbuf T P key seed cm hm h n extra pextra ke Hnosz d Hsm) as B3.
    pose proof (big_Pa c hbuf T P key seed cm hm EP h n extra pextra ke Hn Hext Hpext Hnoal) as B4.
    fold PW in B1, B2, B3, B4.
    destruct Hc3 as [E|[E|E]]; subst hm.
    - apply (wfh_big "sha1hash" alg_sha1 _ _ F_sha1hash 0%N hbuf (hctx_sha1 hbuf "rc.hmachandle." Hh1 Hh2 pfx_ok_rc) eq_refl five_sha1
               (or_introl eq_refl) eq_refl (fun k0 s0 cm0 c0 T0 => glA_nil hbuf k0 s0 cm0 0%N c0 T0) key seed cm c T _ _ _ (h + 4 + T)%nat B1 B2 B3 B4); [exact Hkey|exact Hbytes|lia].
    - apply (wfh_big "md5hash" alg_md5 _ _ F_md5hash 1%N hbuf (hctx_md5 hbuf "rc.hmachandle." Hh1 Hh2 pfx_ok_rc) eq_refl five_md5
               (or_intror (or_introl eq_refl)) eq_refl (fun k0 s0 cm0 c0 T0 => glA_nil hbuf k0 s0 cm0 1%N c0 T0) key seed cm c T _ _ _ (h + 4 + T)%nat B1 B2 B3 B4); [exact Hkey|exact Hbytes|lia].
    - apply (wfh_big "sha256hash" alg_sha256 _ _ F_sha256hash 2%N hbuf (hctx_sha256 hbuf "rc.hmachandle." Hh1 Hh2 pfx_ok_rc) eq_refl five_sha256
               (or_intror (or_intror (or_introl eq_refl))) eq_refl (fun k0 s0 cm0 c0 T0 => glA_sha256 hbuf k0 s0 cm0 2%N c0 T0) key seed cm c T _ _ _ (h + 4 + T)%nat B1 B2 B3 B4); [exact Hkey|exact Hbytes|lia]. }
  destruct W as (fuel & tag & s' & fo & Hmodel & Hcall & Hfiles & Hfo & Hthr & Hkeys & Hkf & Hko).
  exists fuel, tag, s', fo.
  split; [exact Hmodel|]. split; [exact Hcall|]. split; [exact Hfiles|]. split; [exact Hfo|].
  split.
  { rewrite Hthr. symmetry. cbn [tst mem sh_fin_w]. apply (big_M1 c hbuf T P key seed cm hm h n extra pextra ke d). reflexivity. }
  split; [|split; assumption].
  intros i Hi. cbn [tst ptrs sh_fin_w]. apply (Hkeys (h + 3)%nat (8 * Z.of_nat i)%Z). lia.
Qed.
Print Assumptions writeFileHmac_enc_ok'.

(* non-vacuity: the hypotheses about the frames hold for the frames the real run produces (empty frames are the simplest instance;
   the frames of the run of evidence/T6 are checked in RefineE2EfHashA*.v) *)
Example frames_nonvacuous : ext_mem_ok 5 [] = true /\ ext_ptr_ok 5 [] = true /\ no_sizeof_names [] = true /\ no_alloc_keys [] = true.
Proof. repeat split. Qed.
