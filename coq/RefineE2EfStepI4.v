(* Layer M, the I/O thread (4): load_buffer without padding (decryption): more data, end of data, ragged end. *)
From Coq Require Import ZArith NArith List String Bool Lia Arith.
From Wencry Require Import Bytes FileModel PipeConc PipeLemmas MiniC MiniCLemmas MiniCConc SrcRun RefineSeqDefs RefineSeqA RefineSeqB.
From Wencry Require RefineIobuffer.
From Wencry Require Import RefineE2EfLay RefineE2EfMach RefineE2EfMem RefineE2EfTac RefineE2EfStepW RefineE2EfStepW2 RefineE2EfStepI RefineE2EfStepI2 RefineE2EfStepI3.
From Wencry.Gen Require Src_conc.
Import ListNotations.
Local Open Scope string_scope.
Local Open Scope list_scope.

Section I4.
Context {LY : Layout} {LO : LayoutOk}.
Variables (c T : nat) (input0 : list N).
Notation cst pad := (cstate_md c T pad input0).
Notation sho pad := (sh_of c T pad input0).

Definition loaded (b : mbuf) (got : list Z) (fin : bool) : mbuf :=
  {| mb_cells := upd_range 0 got (mb_cells b); mb_tot := Z.of_nat (List.length got) / 16; mb_now := 0;
     mb_tail := Z.of_nat (List.length got) mod 16; mb_fin := fin; mb_st := mb_st b |}.

(* from the start of the step to the test of the peek condition *)
Ltac dec_prefix Hd Hg Hov Heof t b got k :=
  pose proof Hd as (Lb & Ln & Ht & Hlv & HT & Hc1 & Hc & Hb & Hn); destruct (Hb _ Ht) as (Hst & Htot & Hnow & Hlen & Hbytes);
  fold t b in Ht, Hst, Htot, Hnow, Hlen, Hbytes;
  pose proof (fun l => rd_turn c T false input0 _ l Ht ltac:(lia)) as RTu; pose proof (rd_over c T false input0 _ : forall l, eval (tst (sho false _) l GP) _ = _) as RO;
  pose proof (rd_pad c T false input0 : forall dd l, _) as RP;
  fold t in RTu; rewrite Hov in RO; cbn [b2z] in RO, RP;
  pose proof (fun l => rd_sum c T input0 false _ l (bpfx t) Hc) as RS;
  start_io 150; rewrite Hg; msteps; change (elem_pfx BL t) with (bpfx t); msteps.

Lemma M_io_load_dec_more : forall ws d g x y nb,
  dwf c T d -> List.length ws = T -> g_bu g = [("loadstate", VInt 2); ("$t1", x); ("$t2", y)] -> d_over d = false -> d_eof d = false ->
  let t := d_turn d in
  let b := nth t (d_bufs d) mb0 in
  let got := firstn (16 * c) (skipn (d_pos d) (map Z.of_N input0)) in
  let k := List.length got in
  k = (16 * c)%nat -> nth_error (map Z.of_N input0) (d_pos d + k) = Some nb -> (0 <= nb)%Z ->
  exists n, (n <= 180)%nat /\ cstep prog vt n (cst false I_Load ws d g) 0 =
     Ok (cst false (I_SetReady 0) ws (with_over (with_fin (dset d t (loaded b got (mb_fin b))) (d_pos d + k) false) false)
             (with_bu g [("loadstate", VInt 0); ("$t1", x); ("$t2", y); ("$t3", VInt 0)]), [(7, Z.of_nat t, 0)]%Z).
Proof.
  intros ws d g x y nb Hd Lw Hg Hov Heof t b got k Hk Hnb Hnb0.
  pose proof Hd as (Lb & Ln & Ht & Hlv & HT & Hc1 & Hc & Hb & Hn). destruct (Hb _ Ht) as (Hst & Htot & Hnow & Hlen & Hbytes). fold t b in Ht, Hst, Htot, Hnow, Hlen, Hbytes.
  pose proof (fun l => rd_turn c T false input0 d l Ht ltac:(lia)) as RTu. pose proof (rd_over c T false input0 d) as RO. pose proof (rd_pad c T false input0 d) as RP.
  fold t in RTu. rewrite Hov in RO. cbn [b2z] in RO, RP.
  pose proof (fun l => rd_sum c T input0 false d l (bpfx t) Hc) as RS.
  start_io 180. rewrite Hg. msteps. change (elem_pfx BL t) with (bpfx t). msteps.
  assert (Hgot : got = firstn (Z.to_nat (16 * Z.of_nat c)) (skipn (d_pos d) (map Z.of_N input0))) by (unfold got; f_equal; lia).
  mprim_some ltac:(idtac; change (wrap U64 1) with 1%Z; rewrite (wrap_U64_small (16 * Z.of_nat c)) by lia;
                   eapply (RefineIobuffer.prim_fread _ _ _ _ _ _ (lget_fin_file _ _ _ _ _ _ _)); [evs; rewrite mget_b by exact Ht; reflexivity | lia | exact Hgot | fold b k; rewrite Hlen; lia]).
  cbn [cf_data cf_pos cf_eof]. rewrite Heof. fold b k. rewrite sho_fread by assumption. after_prim. fold b.
  assert (Hklt : (Z.of_nat k <? 16 * Z.of_nat c)%Z = false) by (apply Z.ltb_ge; lia).
  assert (Hks : (Z.of_nat k =? 16 * Z.of_nat c)%Z = true) by (apply Z.eqb_eq; lia).
  assert (Hk0 : (Z.of_nat k =? 0)%Z = false) by (apply Z.eqb_neq; lia).
  assert (Hnb1 : (nb =? -1)%Z = false) by (apply Z.eqb_neq; lia).
  rewrite Hklt. cbn [orb].
  set (d1 := with_fin (dset d t (mb_with_cells (upd_range 0 got (mb_cells b)) b)) (d_pos d + k) false).
  pose proof (fun l => rd_sum c T input0 false d1 l (bpfx t) Hc) as RS1. clear RS.
  msteps. rewrite (wrap_U32_small (Z.of_nat k)) by lia.
  mprim_some ltac:(idtac; eapply RefineIobuffer.prim_feof; apply lget_fin_file). after_prim. cbn [cf_eof d1 with_fin d_eof].
  msteps. unfold d1.
  mprim_some ltac:(idtac; eapply RefineIobuffer.prim_fgetc_some; [apply lget_fin_file | cbn [cf_data cf_pos with_fin d_pos]; exact Hnb]).
  cbn [cf_data cf_pos cf_eof with_fin d_pos d_eof]. rewrite sho_fin. after_prim.
  msteps.
  mprim_none ltac:(idtac; eapply RefineIobuffer.prim_ungetc; [apply lget_fin_file | cbn [cf_pos with_fin d_pos]; reflexivity | cbn [cf_data]; exact Hnb]).
  cbn [cf_data cf_pos cf_eof with_fin d_pos d_eof]. rewrite sho_fin. after_prim.
  match goal with |- context [sh_of _ _ _ _ (with_fin (with_fin (with_fin ?X ?p0 ?e0) ?p1 ?e1) ?p2 ?e2)] =>
    change (with_fin (with_fin (with_fin X p0 e0) p1 e1) p2 e2) with (with_fin X p2 e2) end.
  msteps.
  bstore mget_tail mset_tail Ht Lb. rewrite tail_val by lia.
  msteps. bstore mget_tot mset_tot Ht Lb. rewrite total_val by lia.
  msteps. bstore mget_now mset_now Ht Lb. change (wrap U32 (wrap U32 0)) with 0%Z.
  cbn [mb_with_tail mb_with_tot mb_with_now mb_with_cells mb_cells mb_tot mb_now mb_tail mb_fin mb_st].
  clear RS1. match goal with |- context [C (sh_of _ _ ?pd _ ?dd) _ _] => pose proof (fun l => rd_sum c T input0 pd dd l (bpfx t) Hc) as RS2 end.
  msteps_ret.
  eapply exr_weaken; [eapply load_ret_tail; [exact Ht | lia | left; reflexivity | ] | lia].
  cbn [Z.eqb negb Z.to_nat]. reflexivity.
Qed.

Lemma M_io_load_dec_end : forall ws d g x y,
  dwf c T d -> List.length ws = T -> g_bu g = [("loadstate", VInt 2); ("$t1", x); ("$t2", y)] -> d_over d = false -> d_eof d = false ->
  let t := d_turn d in
  let b := nth t (d_bufs d) mb0 in
  let got := firstn (16 * c) (skipn (d_pos d) (map Z.of_N input0)) in
  let k := List.length got in
  k = (16 * c)%nat -> nth_error (map Z.of_N input0) (d_pos d + k) = None ->
  exists n, (n <= 180)%nat /\ cstep prog vt n (cst false I_Load ws d g) 0 =
     Ok (cst false (I_SetReady 1) ws (with_over (with_fin (dset d t (loaded b got true)) (d_pos d + k) true) true)
             (with_bu g [("loadstate", VInt 1); ("$t1", x); ("$t2", y); ("$t3", VInt 1)]), [(7, Z.of_nat t, 1)]%Z).
Proof.
  intros ws d g x y Hd Lw Hg Hov Heof t b got k Hk Hnb.
  pose proof Hd as (Lb & Ln & Ht & Hlv & HT & Hc1 & Hc & Hb & Hn). destruct (Hb _ Ht) as (Hst & Htot & Hnow & Hlen & Hbytes). fold t b in Ht, Hst, Htot, Hnow, Hlen, Hbytes.
  pose proof (fun l => rd_turn c T false input0 d l Ht ltac:(lia)) as RTu. pose proof (rd_over c T false input0 d) as RO. pose proof (rd_pad c T false input0 d) as RP.
  fold t in RTu. rewrite Hov in RO. cbn [b2z] in RO, RP.
  pose proof (fun l => rd_sum c T input0 false d l (bpfx t) Hc) as RS.
  start_io 180. rewrite Hg. msteps. change (elem_pfx BL t) with (bpfx t). msteps.
  assert (Hgot : got = firstn (Z.to_nat (16 * Z.of_nat c)) (skipn (d_pos d) (map Z.of_N input0))) by (unfold got; f_equal; lia).
  mprim_some ltac:(idtac; change (wrap U64 1) with 1%Z; rewrite (wrap_U64_small (16 * Z.of_nat c)) by lia;
                   eapply (RefineIobuffer.prim_fread _ _ _ _ _ _ (lget_fin_file _ _ _ _ _ _ _)); [evs; rewrite mget_b by exact Ht; reflexivity | lia | exact Hgot | fold b k; rewrite Hlen; lia]).
  cbn [cf_data cf_pos cf_eof]. rewrite Heof. fold b k. rewrite sho_fread by assumption. after_prim. fold b.
  assert (Hklt : (Z.of_nat k <? 16 * Z.of_nat c)%Z = false) by (apply Z.ltb_ge; lia).
  assert (Hks : (Z.of_nat k =? 16 * Z.of_nat c)%Z = true) by (apply Z.eqb_eq; lia).
  assert (Hk0 : (Z.of_nat k =? 0)%Z = false) by (apply Z.eqb_neq; lia).
  assert (Hkd : (Z.of_nat k / 16 =? 0)%Z = false).
  { apply Z.eqb_neq. rewrite Hk. replace (Z.of_nat (16 * c)) with (Z.of_nat c * 16)%Z by lia. rewrite Z.div_mul by lia. lia. }
  rewrite Hklt. cbn [orb].
  set (d1 := with_fin (dset d t (mb_with_cells (upd_range 0 got (mb_cells b)) b)) (d_pos d + k) false).
  pose proof (fun l => rd_sum c T input0 false d1 l (bpfx t) Hc) as RS1. clear RS.
  msteps. rewrite (wrap_U32_small (Z.of_nat k)) by lia.
  mprim_some ltac:(idtac; eapply RefineIobuffer.prim_feof; apply lget_fin_file). after_prim. cbn [cf_eof d1 with_fin d_eof].
  msteps. unfold d1.
  mprim_some ltac:(idtac; eapply RefineIobuffer.prim_fgetc_none; [apply lget_fin_file | cbn [cf_data cf_pos with_fin d_pos]; exact Hnb]).
  cbn [cf_data cf_pos cf_eof with_fin d_pos d_eof]. rewrite sho_fin. after_prim.
  match goal with |- context [sh_of _ _ _ _ (with_fin (with_fin ?X ?p0 ?e0) ?p1 ?e1)] =>
    change (with_fin (with_fin X p0 e0) p1 e1) with (with_fin X p1 e1) end.
  msteps.
  bstore mget_tail mset_tail Ht Lb. rewrite tail_val by lia.
  msteps. bstore mget_tot mset_tot Ht Lb. rewrite total_val by lia.
  msteps. bstore mget_now mset_now Ht Lb. change (wrap U32 (wrap U32 0)) with 0%Z.
  cbn [mb_with_tail mb_with_tot mb_with_now mb_with_cells mb_cells mb_tot mb_now mb_tail mb_fin mb_st].
  clear RS1. match goal with |- context [C (sh_of _ _ ?pd _ ?dd) _ _] =>
    pose proof (fun l => rd_sum c T input0 pd dd l (bpfx t) Hc) as RS2; pose proof (fun l => rd_tot' c T input0 pd dd t l Ht) as RT3 end.
  rewrite nth_dset_fin in RT3 by (rewrite Lb; exact Ht). cbn [mb_tot mb_with_tail mb_with_tot mb_with_now mb_with_cells] in RT3.
  assert (Hd16 : (0 <= Z.of_nat k / 16 <= Z.of_nat c)%Z) by (split; [apply Z.div_pos; lia | apply Z.div_le_upper_bound; lia]).
  specialize (fun l => RT3 l ltac:(lia)).
  msteps.
  mstep; [rewrite mget_fin by exact Ht; reflexivity | apply store_cell | ].
  match goal with |- context [sh_of _ _ _ _ (with_fin (dset ?d ?t ?B) ?p ?e)] =>
    erewrite (sho_mset _ _ _ _ (with_fin (dset d t B) p e)); [ | change (wrap TBool 1) with (b2z true); apply mset_fin; [exact Ht | cbn [with_fin d_bufs]; rewrite dset_length; exact Lb] | reflexivity];
    rewrite upd_dset_fin by (rewrite Lb; exact Ht) end.
  cbn [mb_with_fin mb_with_tot mb_with_now mb_with_tail mb_with_cells mb_cells mb_tot mb_now mb_tail mb_fin mb_st].
  msteps_ret.
  eapply exr_weaken; [eapply load_ret_tail; [exact Ht | lia | right; left; reflexivity | ] | lia].
  cbn [Z.eqb negb Z.to_nat Pos.to_nat Pos.iter_op Nat.add]. reflexivity.
Qed.

Lemma M_io_load_dec_short : forall ws d g x y,
  dwf c T d -> List.length ws = T -> g_bu g = [("loadstate", VInt 2); ("$t1", x); ("$t2", y)] -> d_over d = false -> d_eof d = false ->
  let t := d_turn d in
  let b := nth t (d_bufs d) mb0 in
  let got := firstn (16 * c) (skipn (d_pos d) (map Z.of_N input0)) in
  let k := List.length got in
  (k < 16 * c)%nat -> (16 <= k)%nat ->
  exists n, (n <= 180)%nat /\ cstep prog vt n (cst false I_Load ws d g) 0 =
     Ok (cst false (I_SetReady 1) ws (with_over (with_fin (dset d t (loaded b got true)) (d_pos d + k) true) true)
             (with_bu g [("loadstate", VInt 1); ("$t1", x); ("$t2", y); ("$t3", VInt 1)]), [(7, Z.of_nat t, 1)]%Z).
Proof.
  intros ws d g x y Hd Lw Hg Hov Heof t b got k Hk Hk16.
  pose proof Hd as (Lb & Ln & Ht & Hlv & HT & Hc1 & Hc & Hb & Hn). destruct (Hb _ Ht) as (Hst & Htot & Hnow & Hlen & Hbytes). fold t b in Ht, Hst, Htot, Hnow, Hlen, Hbytes.
  pose proof (fun l => rd_turn c T false input0 d l Ht ltac:(lia)) as RTu. pose proof (rd_over c T false input0 d) as RO. pose proof (rd_pad c T false input0 d) as RP.
  fold t in RTu. rewrite Hov in RO. cbn [b2z] in RO, RP.
  pose proof (fun l => rd_sum c T input0 false d l (bpfx t) Hc) as RS.
  start_io 180. rewrite Hg. msteps. change (elem_pfx BL t) with (bpfx t). msteps.
  assert (Hgot : got = firstn (Z.to_nat (16 * Z.of_nat c)) (skipn (d_pos d) (map Z.of_N input0))) by (unfold got; f_equal; lia).
  mprim_some ltac:(idtac; change (wrap U64 1) with 1%Z; rewrite (wrap_U64_small (16 * Z.of_nat c)) by lia;
                   eapply (RefineIobuffer.prim_fread _ _ _ _ _ _ (lget_fin_file _ _ _ _ _ _ _)); [evs; rewrite mget_b by exact Ht; reflexivity | lia | exact Hgot | fold b k; rewrite Hlen; lia]).
  cbn [cf_data cf_pos cf_eof]. rewrite Heof. fold b k. rewrite sho_fread by assumption. after_prim. fold b.
  assert (Hklt : (Z.of_nat k <? 16 * Z.of_nat c)%Z = true) by (apply Z.ltb_lt; lia).
  assert (Hks : (Z.of_nat k =? 16 * Z.of_nat c)%Z = false) by (apply Z.eqb_neq; lia).
  assert (Hkd : (Z.of_nat k / 16 =? 0)%Z = false).
  { apply Z.eqb_neq. intro E. assert (Z.of_nat k < 16)%Z by (apply Z.div_small_iff in E; lia). lia. }
  rewrite Hklt. cbn [orb].
  set (d1 := with_fin (dset d t (mb_with_cells (upd_range 0 got (mb_cells b)) b)) (d_pos d + k) true).
  pose proof (fun l => rd_sum c T input0 false d1 l (bpfx t) Hc) as RS1. clear RS.
  msteps. rewrite (wrap_U32_small (Z.of_nat k)) by lia.
  mprim_some ltac:(idtac; eapply RefineIobuffer.prim_feof; apply lget_fin_file). after_prim. cbn [cf_eof d1 with_fin d_eof].
  msteps. unfold d1.
  bstore mget_tail mset_tail Ht Lb. rewrite tail_val by lia.
  msteps. bstore mget_tot mset_tot Ht Lb. rewrite total_val by lia.
  msteps. bstore mget_now mset_now Ht Lb. change (wrap U32 (wrap U32 0)) with 0%Z.
  cbn [mb_with_tail mb_with_tot mb_with_now mb_with_cells mb_cells mb_tot mb_now mb_tail mb_fin mb_st].
  clear RS1. match goal with |- context [C (sh_of _ _ ?pd _ ?dd) _ _] =>
    pose proof (fun l => rd_sum c T input0 pd dd l (bpfx t) Hc) as RS2; pose proof (fun l => rd_tot' c T input0 pd dd t l Ht) as RT3 end.
  rewrite nth_dset_fin in RT3 by (rewrite Lb; exact Ht). cbn [mb_tot mb_with_tail mb_with_tot mb_with_now mb_with_cells] in RT3.
  assert (Hd16 : (0 <= Z.of_nat k / 16 <= Z.of_nat c)%Z) by (split; [apply Z.div_pos; lia | apply Z.div_le_upper_bound; lia]).
  specialize (fun l => RT3 l ltac:(lia)).
  msteps.
  mstep; [rewrite mget_fin by exact Ht; reflexivity | apply store_cell | ].
  match goal with |- context [sh_of _ _ _ _ (with_fin (dset ?d ?t ?B) ?p ?e)] =>
    erewrite (sho_mset _ _ _ _ (with_fin (dset d t B) p e)); [ | change (wrap TBool 1) with (b2z true); apply mset_fin; [exact Ht | cbn [with_fin d_bufs]; rewrite dset_length; exact Lb] | reflexivity];
    rewrite upd_dset_fin by (rewrite Lb; exact Ht) end.
  cbn [mb_with_fin mb_with_tot mb_with_now mb_with_tail mb_with_cells mb_cells mb_tot mb_now mb_tail mb_fin mb_st].
  msteps_ret.
  eapply exr_weaken; [eapply load_ret_tail; [exact Ht | lia | right; left; reflexivity | ] | lia].
  cbn [Z.eqb negb Z.to_nat Pos.to_nat Pos.iter_op Nat.add]. reflexivity.
Qed.

Lemma M_io_load_dec_nodata : forall ws d g x y,
  dwf c T d -> List.length ws = T -> g_bu g = [("loadstate", VInt 2); ("$t1", x); ("$t2", y)] -> d_over d = false -> d_eof d = false ->
  let t := d_turn d in
  let b := nth t (d_bufs d) mb0 in
  let got := firstn (16 * c) (skipn (d_pos d) (map Z.of_N input0)) in
  let k := List.length got in
  (k < 16)%nat ->
  exists n, (n <= 180)%nat /\ cstep prog vt n (cst false I_Load ws d g) 0 =
     Ok (cst false (I_SetReady 2) ws (with_over (with_fin (dset d t (loaded b got (mb_fin b))) (d_pos d + k) true) true)
             (with_bu g [("loadstate", VInt 2); ("$t1", x); ("$t2", y); ("$t3", VInt 2)]), [(7, Z.of_nat t, 2)]%Z).
Proof.
  intros ws d g x y Hd Lw Hg Hov Heof t b got k Hk16.
  pose proof Hd as (Lb & Ln & Ht & Hlv & HT & Hc1 & Hc & Hb & Hn). destruct (Hb _ Ht) as (Hst & Htot & Hnow & Hlen & Hbytes). fold t b in Ht, Hst, Htot, Hnow, Hlen, Hbytes.
  pose proof (fun l => rd_turn c T false input0 d l Ht ltac:(lia)) as RTu. pose proof (rd_over c T false input0 d) as RO. pose proof (rd_pad c T false input0 d) as RP.
  fold t in RTu. rewrite Hov in RO. cbn [b2z] in RO, RP.
  pose proof (fun l => rd_sum c T input0 false d l (bpfx t) Hc) as RS.
  start_io 180. rewrite Hg. msteps. change (elem_pfx BL t) with (bpfx t). msteps.
  assert (Hgot : got = firstn (Z.to_nat (16 * Z.of_nat c)) (skipn (d_pos d) (map Z.of_N input0))) by (unfold got; f_equal; lia).
  mprim_some ltac:(idtac; change (wrap U64 1) with 1%Z; rewrite (wrap_U64_small (16 * Z.of_nat c)) by lia;
                   eapply (RefineIobuffer.prim_fread _ _ _ _ _ _ (lget_fin_file _ _ _ _ _ _ _)); [evs; rewrite mget_b by exact Ht; reflexivity | lia | exact Hgot | fold b k; rewrite Hlen; lia]).
  cbn [cf_data cf_pos cf_eof]. rewrite Heof. fold b k. rewrite sho_fread by assumption. after_prim. fold b.
  assert (Hklt : (Z.of_nat k <? 16 * Z.of_nat c)%Z = true) by (apply Z.ltb_lt; lia).
  assert (Hks : (Z.of_nat k =? 16 * Z.of_nat c)%Z = false) by (apply Z.eqb_neq; lia).
  assert (Hkd : (Z.of_nat k / 16 =? 0)%Z = true) by (apply Z.eqb_eq; apply Z.div_small; lia).
  rewrite Hklt. cbn [orb].
  set (d1 := with_fin (dset d t (mb_with_cells (upd_range 0 got (mb_cells b)) b)) (d_pos d + k) true).
  pose proof (fun l => rd_sum c T input0 false d1 l (bpfx t) Hc) as RS1. clear RS.
  msteps. rewrite (wrap_U32_small (Z.of_nat k)) by lia.
  mprim_some ltac:(idtac; eapply RefineIobuffer.prim_feof; apply lget_fin_file). after_prim. cbn [cf_eof d1 with_fin d_eof].
  msteps. unfold d1.
  bstore mget_tail mset_tail Ht Lb. rewrite tail_val by lia.
  msteps. bstore mget_tot mset_tot Ht Lb. rewrite total_val by lia.
  msteps. bstore mget_now mset_now Ht Lb. change (wrap U32 (wrap U32 0)) with 0%Z.
  cbn [mb_with_tail mb_with_tot mb_with_now mb_with_cells mb_cells mb_tot mb_now mb_tail mb_fin mb_st].
  clear RS1. match goal with |- context [C (sh_of _ _ ?pd _ ?dd) _ _] =>
    pose proof (fun l => rd_sum c T input0 pd dd l (bpfx t) Hc) as RS2; pose proof (fun l => rd_tot' c T input0 pd dd t l Ht) as RT3 end.
  rewrite nth_dset_fin in RT3 by (rewrite Lb; exact Ht). cbn [mb_tot mb_with_tail mb_with_tot mb_with_now mb_with_cells] in RT3.
  assert (Hd16 : (0 <= Z.of_nat k / 16 <= Z.of_nat c)%Z) by (split; [apply Z.div_pos; lia | apply Z.div_le_upper_bound; lia]).
  specialize (fun l => RT3 l ltac:(lia)).
  msteps_ret.
  eapply exr_weaken; [eapply load_ret_tail; [exact Ht | lia | right; right; reflexivity | ] | lia].
  cbn [Z.eqb negb Z.to_nat Pos.to_nat Pos.iter_op Nat.add]. reflexivity.
Qed.

End I4.
