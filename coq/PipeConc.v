(* L3: the buffer group (kernel/multi_aes/multi_buffergroup.cpp, multicry.cpp) as a transition
   system over T worker threads and the I/O (main) thread.

   Granularity = the scheduling points of the real code under the scheduler shim
   (harness/shim.h): one step of a thread is the code between two consecutive points, where a
   point is (a) the start of a critical section (mutex lock in wait_ready / wait_update /
   set_ready / set_update), (b) the wake-up of a thread sleeping in cv.wait (it re-acquires the
   mutex and re-tests its predicate), (c) a guarded WENCRY_VERIF_YIELD hook placed before every
   unsynchronised shared access (get_entry, cmpstate, export_buffer, load_buffer, turn_iter),
   (d) thread exit / join.  A critical section runs atomically (it contains no other shared
   access; the unsynchronised cmpstate readers see the state before or after it), cv.wait
   releases the mutex and sleeps atomically, notify_all is issued inside the same critical
   section as the state change.

   Spurious wake-ups (the C++ standard allows cv.wait to return without a notification) are schedulable
   actions of their own: for a state with T buffers the pseudo thread id T + 1 + j (j = 0: the I/O
   thread, j = i + 1: worker i) means "thread j, sleeping in cv.wait, wakes up without having been
   notified".  It is enabled iff that thread is asleep, it makes the thread Awake and changes nothing
   else; the thread then re-tests its predicate like after a notification (w_wait / i_wait with
   woke = true) and goes back to sleep if it does not hold.  [step] on the ids 0..T is the step of the
   real threads ([step_real]); [enabled] / [enabled_count] speak about the real threads only.

   The block transformation (the cipher stream object of worker i) is a section parameter. *)
From Wencry Require Import Bytes FileModel.
Local Open Scope nat_scope.

Inductive bst := EMPTY | UPDATING | READY | INV.
Definition bst_code (s : bst) : nat := match s with EMPTY => 0 | UPDATING => 1 | READY => 2 | INV => 3 end.
Definition bst_eqb (a b : bst) : bool := bst_code a =? bst_code b.

Record buf := { b_st : bst; b_total : nat; b_now : nat; b_final : bool; b_data : list (list N) }.

(* worker program counter *)
Inductive wpc :=
| W_New                        (* thread created, has not run yet (runs up to its first scheduling point) *)
| W_Start                      (* multiruncrypt_file: wait_buffer_ready(id) -> wait_ready(): lock *)
| W_Get                        (* require_buffer_entry: first get_entry() *)
| W_SetUpdate                  (* set_update(): lock *)
| W_WaitReady                  (* wait_ready(): lock *)
| W_Asleep (from_start : bool) (* in cv_ready.wait *)
| W_Awake (from_start : bool)  (* notified or woken spuriously, has to re-acquire and re-test *)
| W_Cmp                        (* cmpstate(READY) and second get_entry() *)
| W_Done.                      (* returned NULL, thread function returned *)
(* I/O thread program counter *)
Inductive ipc :=
| I_WaitUpdate                 (* run_buffer: wait_update(): lock *)
| I_Asleep | I_Awake
| I_Cmp                        (* buffer_update: cmpstate(UPDATING) *)
| I_Export                     (* export_buffer *)
| I_Load                       (* load_buffer (unless over) *)
| I_SetReady (loadstate : nat) (* set_ready(loadstate != NODATA): lock; 0 FULL 1 FINAL 2 NODATA *)
| I_Turn                       (* turn_iter *)
| I_Join (k : nat)             (* run_multicry: threads[k].join() blocked on worker k *)
| I_Done.

Definition event := (nat * nat * nat)%type.   (* kind, object, value -- the harness' event record *)
Definition NOOBJ : nat := 999.

Section Conc.
Variable S : Type.                                   (* state of a cipher stream object *)
Variable tr : S -> list N -> S * list N.             (* Aesmode::runcry *)
Variable tr_event : nat -> S -> list event.          (* what an instrumented object logs (harness only) *)
Variable c : nat.                                    (* BUF_SZ *)
Variable ispadding : bool.

Record state := {
  bufs : list buf; wpcs : list wpc; wsts : list S;
  io : ipc; turn : nat; over : bool; live : nat;
  input : list load;                 (* results of the load_buffer calls still to come *)
  output : list (list N);            (* what export_buffer wrote, in order *)
  crashed : option nat }.            (* Some why: undefined behaviour in export_buffer *)

Definition nT (s : state) : nat := length (bufs s).
Definition empty_buf : buf := {| b_st := EMPTY; b_total := 0; b_now := 0; b_final := false; b_data := [] |}.
Definition init (T : nat) (sigma0 : list S) (ls : list load) : state :=
  {| bufs := repeat empty_buf T; wpcs := repeat W_New T; wsts := sigma0;
     io := I_WaitUpdate; turn := 0; over := false; live := T;
     input := ls; output := []; crashed := None |}.

Definition getb (s : state) (i : nat) : buf := nth i (bufs s) empty_buf.
Definition getw (s : state) (i : nat) : wpc := nth i (wpcs s) W_Done.

Definition set_buf (s : state) (i : nat) (b : buf) : state :=
  {| bufs := set_nth i b (bufs s); wpcs := wpcs s; wsts := wsts s; io := io s; turn := turn s; over := over s;
     live := live s; input := input s; output := output s; crashed := crashed s |}.
Definition set_wpc (s : state) (i : nat) (p : wpc) : state :=
  {| bufs := bufs s; wpcs := set_nth i p (wpcs s); wsts := wsts s; io := io s; turn := turn s; over := over s;
     live := live s; input := input s; output := output s; crashed := crashed s |}.
Definition set_wst (s : state) (i : nat) (x : S) : state :=
  {| bufs := bufs s; wpcs := wpcs s; wsts := set_nth i x (wsts s); io := io s; turn := turn s; over := over s;
     live := live s; input := input s; output := output s; crashed := crashed s |}.
Definition set_io (s : state) (p : ipc) : state :=
  {| bufs := bufs s; wpcs := wpcs s; wsts := wsts s; io := p; turn := turn s; over := over s;
     live := live s; input := input s; output := output s; crashed := crashed s |}.
Definition with_st (b : buf) (st : bst) : buf :=
  {| b_st := st; b_total := b_total b; b_now := b_now b; b_final := b_final b; b_data := b_data b |}.

(* ---- worker i ---- *)
(* iobuffer::get_entry + Aesmode::runcry on the entry: (got?, new buffer, new stream state, events) *)
Definition take_entry (b : buf) (x : S) (i : nat) : option (buf * S * list event) :=
  if b_now b <? b_total b then
    let blk := nth (b_now b) (b_data b) [] in
    let (x', blk') := tr x blk in
    Some ({| b_st := b_st b; b_total := b_total b; b_now := Datatypes.S (b_now b); b_final := b_final b;
             b_data := set_nth (b_now b) blk' (b_data b) |}, x', tr_event i x)
  else None.

Definition ready_or_inv (st : bst) : bool := match st with READY | INV => true | _ => false end.
Definition upd_or_empty (st : bst) : bool := match st with UPDATING | EMPTY => true | _ => false end.

(* critical section of wait_ready (first entry or after a wake-up) *)
Definition w_wait (s : state) (i : nat) (from_start woke : bool) : state * list event :=
  let st := b_st (getb s i) in
  let pre := if woke then [(12, 0, 0)] else [] in
  if ready_or_inv st
  then (set_wpc s i (if from_start then W_Get else W_Cmp), pre ++ [(16, NOOBJ, bst_code st)])
  else (set_wpc s i (W_Asleep from_start), pre ++ [(11, 0, 0)]).

Definition wake_io (s : state) (i : nat) : state :=
  match io s with
  | I_Asleep => if turn s =? i then set_io s I_Awake else s
  | _ => s
  end.
Definition wake_worker (s : state) (i : nat) : state :=
  match getw s i with
  | W_Asleep f => set_wpc s i (W_Awake f)
  | _ => s
  end.

Definition step_worker (s : state) (i : nat) : option (state * list event) :=
  let b := getb s i in
  match getw s i with
  | W_New => Some (set_wpc s i W_Start, [])
  | W_Start => Some (w_wait s i true false)
  | W_WaitReady => Some (w_wait s i false false)
  | W_Awake f => Some (w_wait s i f true)
  | W_Asleep _ => None
  | W_Done => None
  | W_Get =>
      match nth_error (wsts s) i with
      | None => None
      | Some x =>
          match take_entry b x i with
          | Some (b', x', evs) => Some (set_wst (set_buf s i b') i x', [(1, i, 1)] ++ evs)
          | None => Some (set_wpc s i W_SetUpdate, [(1, i, 0)])
          end
      end
  | W_SetUpdate =>
      (* if (state == READY) { state = UPDATING; cv_update.notify_all(); } *)
      let s' := match b_st b with
                | READY => wake_io (set_buf s i (with_st b UPDATING)) i
                | _ => s
                end in
      Some (set_wpc s' i W_WaitReady, [(18, NOOBJ, bst_code (b_st (getb s' i)))])
  | W_Cmp =>
      match nth_error (wsts s) i with
      | None => None
      | Some x =>
          match b_st b with
          | READY =>
              match take_entry b x i with
              | Some (b', x', evs) => Some (set_wpc (set_wst (set_buf s i b') i x') i W_Get, [(2, i, 1)] ++ evs)
              | None => Some (set_wpc s i W_Done, [(2, i, 0); (14, 0, 0)])
              end
          | _ => Some (set_wpc s i W_Done, [(2, i, 0); (14, 0, 0)])
          end
      end
  end.

(* ---- I/O thread ---- *)
Definition i_wait (s : state) (woke : bool) : state * list event :=
  let st := b_st (getb s (turn s)) in
  let pre := if woke then [(12, 0, 0)] else [] in
  if upd_or_empty st then (set_io s I_Cmp, pre ++ [(17, NOOBJ, bst_code st)])
  else (set_io s I_Asleep, pre ++ [(11, 0, 0)]).

Definition b2n (b : bool) : nat := if b then 1 else 0.

Fixpoint first_unfinished (ps : list wpc) (k : nat) : option nat :=
  match ps with
  | [] => None
  | p :: r => match p with W_Done => first_unfinished r (Datatypes.S k) | _ => Some k end
  end.
(* join loop from worker k on: I_Join k' on the first unfinished worker k' >= k, else I_Done *)
Definition join_from (s : state) (k : nat) : ipc :=
  match first_unfinished (skipn k (wpcs s)) k with
  | Some k' => I_Join k'
  | None => I_Done
  end.

(* do turn = (turn + 1) % size; while (ctrl[turn].cmpstate(INV)); -- fuel bounds the skipping *)
Fixpoint next_turn (s : state) (fuel t : nat) : nat :=
  match fuel with
  | O => t
  | Datatypes.S f => let t' := (t + 1) mod (nT s) in
           match b_st (getb s t') with INV => next_turn s f t' | _ => t' end
  end.

Definition step_io (s : state) : option (state * list event) :=
  let t := turn s in
  let b := getb s t in
  match io s with
  | I_WaitUpdate => Some (i_wait s false)
  | I_Awake => Some (i_wait s true)
  | I_Asleep => None
  | I_Done => None
  | I_Cmp =>
      match b_st b with
      | UPDATING => Some (set_io s I_Export, [(3, t, 1); (4, t, 0)])
      | _ => Some (set_io s I_Load, [(3, t, 0); (6, t, b2n (over s))])
      end
  | I_Export =>
      (* export_buffer uses now (not total), isfinal and the buffer contents *)
      let l := {| ld_data := []; ld_total := b_now b; ld_final := b_final b |} in
      let s1 := match export c ispadding l (concat (b_data b)) with
                | Ok bytes => {| bufs := bufs s; wpcs := wpcs s; wsts := wsts s; io := I_Load; turn := t; over := over s;
                                 live := live s; input := input s; output := output s ++ [bytes]; crashed := crashed s |}
                | Crash w => {| bufs := bufs s; wpcs := wpcs s; wsts := wsts s; io := I_Load; turn := t; over := over s;
                                live := live s; input := input s; output := output s; crashed := Some w |}
                | _ => set_io s I_Load
                end in
      Some (s1, [(5, t, 0); (6, t, b2n (over s))])
  | I_Load =>
      if over s then Some (set_io s (I_SetReady 2), [(7, t, 2)])
      else match input s with
           | [] => Some ({| bufs := bufs s; wpcs := wpcs s; wsts := wsts s; io := I_SetReady 2; turn := t; over := true;
                            live := live s; input := []; output := output s; crashed := crashed s |}, [(7, t, 2)])
           | l :: rest =>
               let ls := if ld_final l then 1 else 0 in
               let b' := {| b_st := b_st b; b_total := ld_total l; b_now := 0; b_final := b_final b || ld_final l;
                            b_data := blocks16_of (ld_data l) |} in
               Some ({| bufs := set_nth t b' (bufs s); wpcs := wpcs s; wsts := wsts s; io := I_SetReady ls; turn := t;
                        over := ld_final l; live := live s; input := rest; output := output s; crashed := crashed s |},
                     [(7, t, ls)])
           end
  | I_SetReady ls =>
      let st' := if ls =? 2 then INV else READY in
      let s1 := set_buf s t (with_st b st') in
      let s2 := {| bufs := bufs s1; wpcs := wpcs s1; wsts := wsts s1; io := I_Turn; turn := t; over := over s1;
                   live := if ls =? 2 then live s1 - 1 else live s1; input := input s1; output := output s1;
                   crashed := crashed s1 |} in
      Some (wake_worker s2 t, [(15, NOOBJ, bst_code st')])
  | I_Turn =>
      if live s =? 0 then Some (set_io s (join_from s 0), [(8, t, 0)])
      else let t' := next_turn s (nT s) t in
           Some ({| bufs := bufs s; wpcs := wpcs s; wsts := wsts s; io := I_WaitUpdate; turn := t'; over := over s;
                    live := live s; input := input s; output := output s; crashed := crashed s |},
                 [(8, t, 1); (9, t', 0)])
  | I_Join k =>
      match getw s k with
      | W_Done => Some (set_io s (join_from s k), [])
      | _ => None
      end
  end.

(* thread ids as in the harness: 0 = I/O (main) thread, i+1 = worker i *)
Definition step_real (s : state) (tid : nat) : option (state * list event) :=
  match tid with
  | O => step_io s
  | Datatypes.S i => if i <? nT s then step_worker s i else None
  end.
(* thread j (0 = I/O thread, i+1 = worker i) returns from cv.wait without a notification *)
Definition spurious (s : state) (j : nat) : option (state * list event) :=
  match j with
  | O => match io s with I_Asleep => Some (set_io s I_Awake, []) | _ => None end
  | Datatypes.S i =>
      if i <? nT s then
        match getw s i with W_Asleep f => Some (set_wpc s i (W_Awake f), []) | _ => None end
      else None
  end.
(* ids 0..T: the real threads; id T+1+j: spurious wake-up of thread j *)
Definition step (s : state) (tid : nat) : option (state * list event) :=
  if tid <=? nT s then step_real s tid else spurious s (tid - nT s - 1).
(* a REAL thread can take a step (a pending spurious wake-up does not count as progress) *)
Definition enabled (s : state) (tid : nat) : bool :=
  match step_real s tid with Some _ => true | None => false end.
Definition enabled_count (s : state) : nat :=
  length (filter (enabled s) (seq 0 (Datatypes.S (nT s)))).
Definition spurious_enabled (s : state) (j : nat) : bool :=
  match spurious s j with Some _ => true | None => false end.
Definition terminal (s : state) : bool :=
  match io s with I_Done => forallb (fun p => match p with W_Done => true | _ => false end) (wpcs s) | _ => false end.

(* a schedule is the list of thread ids chosen at the successive scheduling points (ids above T: spurious wake-ups) *)
Fixpoint run (s : state) (sched : list nat) : option state :=
  match sched with
  | [] => Some s
  | t :: r => match step s t with
              | Some (s', _) => run s' r
              | None => None
              end
  end.
Fixpoint run_events (s : state) (sched : list nat) : option (state * list (nat * nat * list event)) :=
  match sched with
  | [] => Some (s, [])
  | t :: r => match step s t with
              | Some (s', evs) =>
                  match run_events s' r with
                  | Some (s'', l) => Some (s'', (t, enabled_count s, evs) :: l)
                  | None => None
                  end
              | None => None
              end
  end.
End Conc.

(* ---- the instance used by the harness: tagging stream objects (drv.cpp TagMode) ---- *)
Definition tag_tr (x : N * N) (blk : list N) : (N * N) * list N :=
  let (s, n) := x in
  ((s, (n + 1)%N),
   map (fun p : nat * N => let (i, v) := p in
          if i <? 8 then N.lxor v ((s + 1) mod 256)%N
          else if i =? 8 then N.lxor v (n mod 256)%N else v)
       (combine (seq 0 (length blk)) blk)).
Definition tag_event (i : nat) (x : N * N) : list event := [(13, N.to_nat (fst x), N.to_nat (snd x))].
Definition tag_init (T : nat) : list (N * N) := map (fun i => (N.of_nat i, 0%N)) (seq 0 T).
Definition tag_run (c T : nat) (ispadding : bool) (inp : list N) (sched : list nat) :=
  run_events (N * N) tag_tr tag_event c ispadding (init (N * N) T (tag_init T) (loads_of c ispadding inp)) sched.
