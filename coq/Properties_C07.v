(* C07 -- SHA-1, MD5 and SHA-256 digests are the standard ones for every message.
   Only statements; every proof is one [exact] of a lemma of HashProofs. *)
From Wencry Require Import Bytes HashSpec HashModel HashProofs.
From Wencry.Gen Require Import HashConst.
Local Open Scope N_scope.

(* in-memory entry point, every message whose bit length fits the standard's 64-bit field *)
Theorem C07_string_digest_is_standard : forall alg a m,
  get_hasher alg = Some a -> bytesb m = true ->
  8 * N.of_nat (length m) < 2 ^ 64 ->
  getStringHash a m = hash_spec alg m.
Proof. exact C07_string_digest_is_standard_proof. Qed.
Print Assumptions C07_string_digest_is_standard.

(* file entry point through filebuffer64, for every refill size hbuf >= 1, with or without the
   64-byte prefix block *)
Theorem C07_file_digest_is_standard : forall hbuf alg a pre m,
  (1 <= hbuf)%nat -> get_hasher alg = Some a -> bytesb m = true ->
  match pre with None => True | Some p => length p = 64%nat /\ bytesb p = true end ->
  8 * N.of_nat (64 + length m) < 2 ^ 64 ->
  getFileHash hbuf a pre m = Some (hash_spec alg (match pre with None => [] | Some p => p end ++ m)).
Proof. exact C07_file_digest_is_standard_proof. Qed.
Print Assumptions C07_file_digest_is_standard.

(* the running length counter of the current source tree is 64 bits wide *)
Theorem C07_counter_is_64_bit : totalsize_bits = 64.
Proof. exact C07_counter_is_64_bit_proof. Qed.
Print Assumptions C07_counter_is_64_bit.

(* the hash factory is defined exactly on the documented numbers 0..2 *)
Theorem C07_hasher_domain : forall alg, get_hasher alg = None <-> 2 < alg.
Proof. exact C07_hasher_domain_proof. Qed.
Print Assumptions C07_hasher_domain.
