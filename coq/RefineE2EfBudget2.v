(* Stage 5: the two end-to-end theorems for arbitrary budgets (steps, fuel, scheduler seed): assembly of RefineE2EfBudget with every proved piece. *)
From Coq Require Import ZArith NArith List String Bool Lia Arith.
From Wencry Require Import Bytes AesModel ModesModel HashModel FileSpec FileModel FileProps PipeConc MiniC MiniCRun MiniCLemmas MiniCConc SrcRun SrcRun2 SrcRun5.
From Wencry Require Import RefineE2EfLay RefineE2EfWLay RefineE2EfWOk RefineE2EfGen RefineE2EfTail RefineE2EfDec2 RefineE2EfEncDefs RefineE2EfHashSpec RefineE2EfEnc2 RefineE2EfHashB3
     RefineE2EfFinal RefineE2EfDecSpec RefineE2EfDecInst RefineE2EfBudget.
From Wencry Require RefineE2EfFinal2 RefineE2EfFinal3 RefineE2EfFinal4 RefineE2Ef RefineE2EfDecFinal RefineE2EfSetup1D RefineE2EfSetup2AD RefineE2EfSetup2D RefineE2EfDecD1 RefineE2EfDecD2.
Import ListNotations.
Local Open Scope N_scope.

Theorem SRC_execute_encrypt_is_model_any_budget_proof : forall c hbuf T P key seed cm hm steps fuel rnd,
  enc_params c hbuf T P key seed cm hm ->
  forallb (fun b => (0 <? b) && (b <? 256)) seed = true ->
  N.of_nat (length seed) < 2 ^ 32 ->
  N.of_nat (16 * c) < 2 ^ 32 -> N.of_nat (64 * hbuf) < 2 ^ 32 ->
  match auto_run steps fuel rnd (whole_init WEnc c hbuf T (Z.of_N cm) (Z.of_N hm) P key seed) 0 with
  | WDone cs _ => main_result cs = Some 1%Z /\ enc c hbuf T P key cm hm seed = FileModel.Ok (out_bytes cs) /\ in_bytes cs = P
  | WDeadlock _ => False
  | WSteps => True
  | WErr w => w = "out of fuel"%string
  end.
Proof.
  intros c hbuf T P key seed cm hm steps fuel rnd EP Hseed HsL Hc32 Hh32.
  assert (Hke : exists ke, create true cm = Some ke).
  { destruct EP as [_ _ _ _ _ _ Hcm _ _ _ _]. unfold create.
    assert (E : cm = 0 \/ cm = 1 \/ cm = 2 \/ cm = 3 \/ cm = 4) by lia.
    destruct E as [-> |[-> |[-> |[-> | ->]]]]; eexists; reflexivity. }
  destruct Hke as [ke Hke].
  pose proof (RefineE2EfFinal2.setup_from_steps c hbuf T P key seed cm hm ke EP Hseed HsL Hc32 Hh32 Hke RefineE2EfFinal3.prepare_IV_ok
                (RefineE2EfFinal4.setup2_from_seq _ _ _ _ _ _ _ _ _ (RefineE2Ef.second_step_seq_ok c hbuf T P key seed cm hm ke))) as SU.
  destruct SU as (h & n & extra & pextra & sm0 & LB & Hsm & Hpre).
  pose proof LB as (Hn & Hext & Hpext & _).
  pose proof (wfh_enc c hbuf T P key seed cm hm h n extra pextra ke EP Hh32 LB) as WFH.
  set (PW := PWenc hbuf T P key seed cm hm h (heap_name n) extra pextra ke) in *.
  pose proof (PWenc_ok c hbuf T P key seed cm hm EP h n extra pextra ke Hn Hext Hpext) as OKW. fold PW in OKW.
  pose proof EP as [Hc Hh HT HP Hkey Hsd Hcm Hhm HsP HsT HsS].
  assert (Ekb : forall T0 pad, wp_kb PW T0 pad = kbot_of enc_R enc_K1) by reflexivity.
  assert (Etd : forall T0 pad, wp_tdone PW T0 pad = tdone_of enc_R enc_K1 (wp_blocs PW T0 pad) (wp_bpre PW)) by reflexivity.
  apply (encrypt_from_parts_b c hbuf T P key seed cm hm EP Hc32 ke Hke PW eq_refl eq_refl eq_refl eq_refl OKW (DKU PW OKW Ekb Etd) sm0 Hsm Hpre).
  intros s cs Hsim Hterm fuel0.
  apply (enc_last_step PW OKW c hbuf T P key seed cm hm Hhm ltac:(lia) Ekb Etd eq_refl); try assumption.
  - intros T0 pad. eexists. reflexivity.
  - intros T0 pad. reflexivity.
  - intros T0 pad. eexists. reflexivity.
  - intros c1 T1. reflexivity.
  - intros c1 T1. reflexivity.
  - intros T1. reflexivity.
  - intros T1. reflexivity.
  - intros T1. reflexivity.
  - reflexivity.
Qed.
Print Assumptions SRC_execute_encrypt_is_model_any_budget_proof.

Theorem SRC_execute_decrypt_is_model_any_budget_proof : forall c hbuf T F key out steps fuel rnd,
  (1 <= c)%nat -> (1 <= hbuf)%nat -> N.of_nat (16 * c) < 2 ^ 32 -> N.of_nat (64 * hbuf) < 2 ^ 32 -> (1 <= T <= 16)%nat ->
  block16 key -> bytesb F = true ->
  dec c hbuf T F key = FileModel.Ok out ->
  match auto_run steps fuel rnd (whole_init WDec c hbuf T (-1) (-1) F key []) 0 with
  | WDone cs _ => main_result cs = Some 1%Z /\ out_bytes cs = out /\ in_bytes cs = F
  | WDeadlock _ => False
  | WSteps => True
  | WErr w => w = "out of fuel"%string
  end.
Proof.
  intros c hbuf T F key out steps fuel rnd Hc Hh1 Hc32 Hh32 HT Hkey HF Hdec.
  destruct (RefineE2EfDecFinal.dec_accepts c hbuf T F key out Hdec) as (Hver & Hlen & Hct & kd & Hkd).
  assert (Hlen74 : (64 <= List.length F)%nat) by (assert (hmac_mark = 10%nat) by reflexivity; lia).
  pose proof (RefineE2EfDecFinal.iv16_block F HF Hlen74) as Hiv.
  assert (Hct256 : (nth 8 F 0 < 256)%N) by lia.
  destruct (RefineE2EfSetup1D.dec_first_step c hbuf T F key Hh1 Hh32 HT Hkey HF Hver Hlen Hct256 RefineE2EfDecD1.dec_verify_ok RefineE2EfDecD2.dec_prepare_IV0_ok)
    as (h & n & ivo & extra & pextra & Hn & Hn1 & Hivo & Hty & Hl16 & Hiv16 & Hext & Hpext & Hnsz & Hnal & Hst).
  cbv zeta in Hst. destruct Hst as (EL0 & EL1 & Hst1).
  pose proof (RefineE2EfSetup2AD.gi_if_ok_d c hbuf T F key h n extra pextra kd HT Hkey Hiv Hn Hext Hpext Hnsz Hnal) as GI.
  pose proof (RefineE2EfDecFinal.pa_rest_d_ok c hbuf T F key kd h n ivo extra pextra Hc HT Hkey HF Hlen Hct Hkd Hn Hn1 Hivo Hty Hl16 Hiv16 Hext Hpext Hnsz Hnal) as PA.
  destruct (RefineE2EfSetup2D.second_step c hbuf T F key h n extra pextra kd HT Hkey Hiv Hn Hext Hpext GI PA) as (sm0 & Hsm & Hst2).
  cbv zeta in Hst2.
  set (PW := PWd hbuf T F key h n extra pextra kd) in *.
  pose proof (PWdec_ok hbuf T F key HT Hkey Hiv h n extra pextra kd Hn Hext Hpext) as OKW.
  destruct (PWdec_frame hbuf T F key h n extra pextra kd) as [D1 D2 D3 D4 D5 D6 D7 D8 D9 D10].
  apply (decrypt_from_parts_b c hbuf T F key out Hc Hc32 HT HF Hdec kd Hkd PW eq_refl eq_refl eq_refl eq_refl OKW (DKT PW OKW D1 D2) sm0 Hsm).
  - intros fuel0. split; [exact EL0|].
    destruct (Hst1 fuel0) as [E|E]; [left; exact E|right].
    eexists. eexists. split; [exact E|]. split; [exact EL1|].
    destruct (Hst2 fuel0) as [E2|[e2 E2]]; [left; exact E2|right; exists e2; exact E2].
  - intros s cs Hsim Hterm fuel0.
    exact (dec_last_step PW OKW D1 D2 D3 D4 D5 D6 D7 D8 D9 D10 c T F HT s cs Hsim Hterm fuel0).
Qed.
Print Assumptions SRC_execute_decrypt_is_model_any_budget_proof.
