(* PARALLEL3, B4: the loop `for (i = 0; i < threads_num; i++) mode[i] = aesfactory.createCryMaster(cmode, ctype)` of prepare_AES in a big
   whole-program state: d iterations append d cipher-mode objects to the memory and 2d entries (class, cell of the mode array) to the
   pointer table. *)
From Coq Require Import ZArith NArith List String Bool Lia PeanoNat Ascii.
From Wencry Require Import Bytes AesModel ModesModel MiniC MiniCRun MiniCLemmas SrcRun SrcRun2 SrcRun5
     RefineAesLib RefineAesOps RefineAes RefineModes RefineE2ENames RefineE2EfWNames RefineE2EfSetup2B3.
From Wencry Require RefineFileBase RefineConcMem.
From Wencry.Gen Require Src_whole.
Import ListNotations.
Local Open Scope list_scope.
Local Open Scope string_scope.
Local Open Scope Z_scope.

Definition cry_cond : expr := EBin TBool Lt (EVar "i") (ECast I32 (ELoad U8 (EField "threads_num"))).
Definition cry_body : stmt :=
  SSeq (SCall (Some "$t2") "AesFactory::createCryMaster/2" (Some (EField "aesfactory.")) [EVar "cmode"; EVar "ctype"])
       (SSetPtrCell (EPtrAdd (EVar "mode") 8 (EVar "i")) (EVar "$t2")).
Definition cry_step : stmt := SSet "i" (EBin I32 Add (EVar "i") (EConst 1)).
Definition cry_loop : stmt := SLoop cry_cond cry_body cry_step.

Lemma load_u8cell : forall x, load_obj {| o_ty := U8; o_cells := [x] |} U8 0 = Ok (wrap U8 x).
Proof. reflexivity. Qed.

Lemma x_setptrcell : forall prog vt f p e s, exec prog vt (S f) (SSetPtrCell p e) s =
  (do pv <- eval s p; do ev <- eval s e; match pv with VPtr o off => Ok (Normal, with_ptrs s (lset (ptrs s) (ptr_key o off) ev)) | _ => UB "pointer cell of a non-object" end).
Proof. reflexivity. Qed.

Section Defs.
Variables (key : list N) (ke : mkind) (ivc : list Z) (m : nat).
Notation ma := (heap_name m).

Definition SMf (f d : nat) : memory := concat (map (fun j => smf (hobj (f + j)) key ivc) (seq 0 d)).
Definition PPf (f i d : nat) : list (string * value) :=
  flat_map (fun j => [(class_key (hobj (f + j)), VPtr (cls_of ke) 0); (ptr_key ma (8 * Z.of_nat (i + j)), VPtr (hobj (f + j)) 0)]) (seq 0 d).

Lemma SMf_S : forall f d, SMf f (S d) = (smf (hobj f) key ivc ++ SMf (S f) d)%list.
Proof.
  intros f d. unfold SMf. cbn [seq]. rewrite <- seq_shift. cbn [map concat]. rewrite Nat.add_0_r. f_equal. rewrite map_map. f_equal.
  apply map_ext. intros j. replace (f + S j)%nat with (S f + j)%nat by lia. reflexivity.
Qed.
Lemma PPf_S : forall f i d, PPf f i (S d) =
  ([(class_key (hobj f), VPtr (cls_of ke) 0); (ptr_key ma (8 * Z.of_nat i), VPtr (hobj f) 0)] ++ PPf (S f) (S i) d)%list.
Proof.
  intros f i d. unfold PPf. cbn [seq]. rewrite <- seq_shift. cbn [flat_map]. rewrite !Nat.add_0_r. f_equal.
  rewrite flat_map_concat_map, map_map, <- flat_map_concat_map. apply flat_map_ext. intros j.
  replace (f + S j)%nat with (S f + j)%nat by lia. replace (i + S j)%nat with (S i + j)%nat by lia. reflexivity.
Qed.

Lemma smf_keys : forall p k, mget (smf p key ivc) k <> None -> exists y, k = p ++ y.
Proof.
  intros p k. unfold smf, seg. cbn [mget].
  repeat match goal with |- context [String.eqb k ?x] => destruct (String.eqb_spec k x) as [->|_]; [intros _; eauto|] end. congruence.
Qed.
Lemma ptr_key_hash : forall n off, exists r, ptr_key (heap_name n) off = String "#"%char r.
Proof. intros n off. unfold ptr_key, heap_name. destruct (off =? 0); cbn [append]; eauto. Qed.

End Defs.

Section Loop.
Variables (T : nat) (key : list N) (cm : N) (ke : mkind) (oiv : string) (ivc : list Z) (m : nat) (fs : list (string * cfile)).
Hypothesis HT : (T <= 255)%nat.
Hypothesis Hc : create true cm = Some ke.
Hypothesis Bk : block16 key.
Hypothesis Hl : (16 <= List.length ivc)%nat.
Notation ma := (heap_name m).
Notation SMf := (SMf key ivc).
Notation PPf := (PPf ke m).
Notation smf_keys := (smf_keys key ivc).

(* what the loop needs of the state *)
Record LInv (M : memory) (Pt : list (string * value)) (f i : nat) : Prop := {
  li_tabs : tabs_ok M;
  li_key : mget M "key" = Some (bytes_object key);
  li_iv : mget M oiv = Some (bobj ivc);
  li_thr : mget M "rc.threads_num" = Some {| o_ty := U8; o_cells := [Z.of_nat T] |};
  li_free : forall k y, (f <= k)%nat -> mget M (hobj k ++ y) = None;
  li_sz : forall r, mget M ("sizeof:Aes" ++ r) = None;
  li_al : forall c0, lget Pt ("alloc:" ++ c0) = None;
  li_cls : forall k, (f <= k)%nat -> lget Pt (class_key (hobj k)) = None;
  li_cell : forall j, (i <= j)%nat -> lget Pt (ptr_key ma (8 * Z.of_nat j)) = None;
  li_pk : lget Pt "rc.aesfactory.key" = Some (VPtr "key" 0);
  li_pi : lget Pt "rc.aesfactory.iv" = Some (VPtr oiv 0) }.

Lemma LInv_next : forall M Pt f i, LInv M Pt f i ->
  LInv (M ++ smf (hobj f) key ivc)%list (Pt ++ [(class_key (hobj f), VPtr (cls_of ke) 0); (ptr_key ma (8 * Z.of_nat i), VPtr (hobj f) 0)])%list (S f) (S i).
Proof.
  intros M Pt f i I. destruct I.
  assert (Old : forall k o, mget M k = Some o -> mget (M ++ smf (hobj f) key ivc)%list k = Some o) by (intros k o H; rewrite RefineConcMem.mget_app, H; reflexivity).
  assert (OldP : forall k v, lget Pt k = Some v -> lget (Pt ++ [(class_key (hobj f), VPtr (cls_of ke) 0); (ptr_key ma (8 * Z.of_nat i), VPtr (hobj f) 0)])%list k = Some v)
    by (intros k v H; rewrite RefineConcMem.lget_app, H; reflexivity).
  destruct (ptr_key_hash m (8 * Z.of_nat i)) as [rk Erk].
  constructor.
  - apply tabs_ok_app, li_tabs0.
  - apply Old, li_key0.
  - apply Old, li_iv0.
  - apply Old, li_thr0.
  - intros k y Hk. rewrite RefineConcMem.mget_app, li_free0 by lia.
    destruct (mget (smf (hobj f) key ivc) (hobj k ++ y)) eqn:E; [|reflexivity]. exfalso.
    destruct (smf_keys (hobj f) (hobj k ++ y)) as [y' E']; [rewrite E; discriminate|]. apply hobj_inj in E'. lia.
  - intros r. rewrite RefineConcMem.mget_app, li_sz0.
    destruct (mget (smf (hobj f) key ivc) ("sizeof:Aes" ++ r)) eqn:E; [|reflexivity]. exfalso.
    destruct (smf_keys (hobj f) ("sizeof:Aes" ++ r)) as [y' E']; [rewrite E; discriminate|]. rewrite hobj_app in E'. discriminate E'.
  - intros c0. rewrite RefineConcMem.lget_app, li_al0. cbn [lget]. rewrite Erk. reflexivity.
  - intros k Hk. rewrite RefineConcMem.lget_app, li_cls0 by lia. cbn [lget]. rewrite Erk.
    unfold class_key. rewrite append_eqb_l. destruct (String.eqb_spec (hobj k) (hobj f)) as [E|_]; [|reflexivity].
    exfalso. rewrite <- (append_nil_r (hobj k)), <- (append_nil_r (hobj f)) in E. apply hobj_inj in E. lia.
  - intros j Hj. rewrite RefineConcMem.lget_app, li_cell0 by lia.
    assert (E1 : String.eqb (ptr_key ma (8 * Z.of_nat j)) (class_key (hobj f)) = false).
    { destruct (ptr_key_hash m (8 * Z.of_nat j)) as [rj ->]. reflexivity. }
    assert (E2 : String.eqb (ptr_key ma (8 * Z.of_nat j)) (ptr_key ma (8 * Z.of_nat i)) = false).
    { rewrite RefineConcMem.ptr_key_eqb by lia. apply Z.eqb_neq. lia. }
    cbn [lget]. rewrite E1, E2. reflexivity.
  - apply OldP, li_pk0.
  - apply OldP, li_pi0.
Qed.

Lemma cry_loop_w : forall d i M Pt f l, (i + d = T)%nat -> LInv M Pt f i ->
  lget l "i" = Some (VInt (Z.of_nat i)) -> lget l "mode" = Some (VPtr ma 0) -> lget l "cmode" = Some (VInt 1) -> lget l "ctype" = Some (VInt (Z.of_N cm)) ->
  exists l', exec whole_prog [] (210 + d) cry_loop {| mem := M; loc := l; pre := "rc."; files := fs; ptrs := Pt; fresh := f |} =
    Ok (Normal, {| mem := (M ++ SMf f d)%list; loc := l'; pre := "rc."; files := fs; ptrs := (Pt ++ PPf f i d)%list; fresh := (f + d)%nat |}) /\
    lget l' "mode" = Some (VPtr ma 0).
Proof.
  induction d as [|d IH]; intros i M Pt f l Hd I Li Lm Lc Lt.
  - exists l. split; [|exact Lm]. unfold SMf, PPf. cbn [seq map concat flat_map]. rewrite !app_nil_r, (Nat.add_0_r f).
    change (210 + 0)%nat with (S 209). unfold cry_loop. rewrite exec_loop. unfold cry_cond. cbn [eval bind as_int loc pre mem append].
    rewrite Li, (li_thr _ _ _ _ I). cbn [bind as_int]. rewrite load_u8cell. cbn [bind as_int eval_bin]. rewrite (wrap_U8_small (Z.of_nat T)) by lia. rewrite (wrap_I32_small (Z.of_nat T)) by lia.
    destruct (Z.ltb_spec (Z.of_nat i) (Z.of_nat T)); [lia|]. cbn [bind as_int]. change (0 =? 0) with true. cbv iota. reflexivity.
  - assert (Hi : (i < T)%nat) by lia.
    pose proof (createCryMaster_w 208 M Pt f (lset l "$t2" (VInt 0)) "rc." fs key cm ke oiv ivc ltac:(lia) Hc Bk (li_tabs _ _ _ _ I) (li_key _ _ _ _ I) (li_iv _ _ _ _ I) Hl
                  (fun y => li_free _ _ _ _ I f y (le_n _)) (li_sz _ _ _ _ I) (li_al _ _ _ _ I) (li_cls _ _ _ _ I f (le_n _)) (li_pk _ _ _ _ I) (li_pi _ _ _ _ I)) as CC.
    clear CC.
    pose proof (createCryMaster_w (208 + d) M Pt f l "rc." fs key cm ke oiv ivc ltac:(lia) Hc Bk (li_tabs _ _ _ _ I) (li_key _ _ _ _ I) (li_iv _ _ _ _ I) Hl
                  (fun y => li_free _ _ _ _ I f y (le_n _)) (li_sz _ _ _ _ I) (li_al _ _ _ _ I) (li_cls _ _ _ _ I f (le_n _)) (li_pk _ _ _ _ I) (li_pi _ _ _ _ I)) as CC.
    set (l1 := lset l "$t2" (VPtr (hobj f) 0)).
    set (l2 := lset l1 "i" (VInt (Z.of_nat (S i)))).
    destruct (IH (S i) (M ++ smf (hobj f) key ivc)%list (Pt ++ [(class_key (hobj f), VPtr (cls_of ke) 0); (ptr_key ma (8 * Z.of_nat i), VPtr (hobj f) 0)])%list (S f) l2
                ltac:(lia) (LInv_next _ _ _ _ I)) as (l' & EL & Lm').
    { unfold l2. apply lget_lset_same. }
    { unfold l2, l1. rewrite !lget_lset_other by discriminate. exact Lm. }
    { unfold l2, l1. rewrite !lget_lset_other by discriminate. exact Lc. }
    { unfold l2, l1. rewrite !lget_lset_other by discriminate. exact Lt. }
    exists l'. split; [|exact Lm'].
    replace (210 + S d)%nat with (S (210 + d)) by lia. unfold cry_loop. rewrite exec_loop. unfold cry_cond at 1. cbn [eval bind as_int loc pre mem append].
    rewrite Li, (li_thr _ _ _ _ I). cbn [bind as_int]. rewrite load_u8cell. cbn [bind as_int eval_bin]. rewrite (wrap_U8_small (Z.of_nat T)) by lia. rewrite (wrap_I32_small (Z.of_nat T)) by lia.
    destruct (Z.ltb_spec (Z.of_nat i) (Z.of_nat T)); [|lia]. cbn [bind as_int]. change (1 =? 0) with false. cbv iota.
    (* the body *)
    replace (210 + d)%nat with (S (S (208 + d))) by lia. unfold cry_body at 1. rewrite exec_seq.
    rewrite (RefineFileBase.x_scall whole_prog [] (208 + d) (Some "$t2") "AesFactory::createCryMaster/2" (Some (EField "aesfactory.")) [EVar "cmode"; EVar "ctype"]
               {| mem := M; loc := l; pre := "rc."; files := fs; ptrs := Pt; fresh := f |} [VInt 1; VInt (Z.of_N cm)] "rc.aesfactory." _ _ _
               ltac:(cbn [eval_list eval bind loc]; rewrite Lc, Lt; reflexivity) eq_refl CC eq_refl).
    cbn [bind]. unfold with_loc. cbn [mem loc pre files ptrs fresh]. fold l1.
    rewrite x_setptrcell. cbn [eval bind as_int loc]. unfold l1 at 1 2 3. rewrite lget_lset_same. rewrite !lget_lset_other by discriminate. rewrite Lm, Li. cbn [bind as_int].
    unfold with_ptrs. cbn [mem loc pre files ptrs fresh].
    replace (0 + Z.of_nat i * 8) with (8 * Z.of_nat i) by lia.
    rewrite (lset_new _ (Pt ++ [(class_key (hobj f), VPtr (cls_of ke) 0)])%list (ptr_key ma (8 * Z.of_nat i)) (VPtr (hobj f) 0)).
    2:{ rewrite RefineConcMem.lget_app, (li_cell _ _ _ _ I i (le_n _)). cbn [lget]. destruct (ptr_key_hash m (8 * Z.of_nat i)) as [rk ->]. reflexivity. }
    rewrite <- app_assoc. cbn [app].
    (* the step *)
    unfold cry_step at 1. rewrite exec_set. cbn [eval bind as_int loc]. unfold l1 at 1. rewrite lget_lset_other by discriminate. rewrite Li. cbn [bind as_int eval_bin].
    rewrite arith_I32_small by lia. cbn [bind]. unfold with_loc. cbn [mem loc pre files ptrs fresh].
    replace (Z.of_nat i + 1) with (Z.of_nat (S i)) by lia. fold l2.
    (* the rest of the loop *)
    fold cry_loop. replace (S (S (208 + d))) with (210 + d)%nat by lia.
    rewrite (exec_mono _ _ _ _ _ _ EL) by lia.
    rewrite SMf_S, PPf_S, <- !app_assoc. cbn [app]. replace (f + S d)%nat with (S f + d)%nat by lia. reflexivity.
Qed.
End Loop.
Print Assumptions cry_loop_w.
