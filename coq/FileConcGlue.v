(* placeholder: proofs are delivered into this file *)
