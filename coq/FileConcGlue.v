(* Glue between the file-level theorems (C01 / C02: sequential reading of the pipeline,
   FileModel.pipe_seq) and the concurrency theorem C03 (PipeConc, arbitrary stream object):
   instantiating the stream object with the real mode objects (ModesModel.runcry over the AES
   model) transfers the round trip to every terminating schedule.

   Layout:
   1. the two sequential descriptions coincide: [tr_blocks] over [runcry] is [ModesModel.run],
      and a successful [pipe_chunks] is chunk by chunk what [seq_chunks] computes ([glue]);
   2. the loads of the encryptor and of the decryptor are well formed ([wf_loads]);
   3. what encryption computes, with the pieces C01 needs named ([enc_pieces]);
   4. the required lemma and a non-vacuity example. *)
From Coq Require Import NArith ZArith List Bool Arith Lia PeanoNat ZifyNat ZifyN ZifyBool.
From Wencry Require Import Bytes AesSpec AesModel ModesSpec ModesModel HashSpec HashModel
  FileModel FileSpec FileProps AesProofs ModesProofs HashProofs HmacProofs FileProofsDec
  PipeConc PipeProps PipeProofs.
From Wencry.Gen Require Layout.
Import ListNotations.
Local Open Scope nat_scope.
Local Ltac Zify.zify_post_hook ::= Z.to_euclidean_division_equations.

Opaque aes_enc_with aes_dec_with genall hmac_model getStringHash magic_bytes.

(* ------------------------------------------------------------------------------------------ *)
(* 1. pipe_chunks versus seq_chunks                                                            *)
(* ------------------------------------------------------------------------------------------ *)

Section Glue.
Variables E D : list N -> list N.
Variable kind : mkind.
Variable T c : nat.
Variable pad : bool.

Lemma tr_blocks_run : forall bs iv,
  tr_blocks (list N) (runcry E D kind) iv bs = ModesModel.run E D kind iv bs.
Proof.
  induction bs as [|b r IH]; intro iv; [reflexivity|].
  cbn [tr_blocks ModesModel.run].
  destruct (runcry E D kind iv b) as [iv' b']. rewrite IH. reflexivity.
Qed.

Lemma export_header_only : forall l data,
  export c pad {| ld_data := []; ld_total := ld_total l; ld_final := ld_final l |} data =
  export c pad l data.
Proof. intros l data. reflexivity. Qed.

Lemma glue : 1 <= T -> forall ls sts j out,
  length sts = T ->
  Forall (fun l => 1 <= ld_total l) ls ->
  pipe_chunks E D kind T c pad sts j ls = Ok out ->
  all_ok (snd (seq_chunks (list N) (runcry E D kind) c pad T sts j ls)) /\
  concat (ok_bytes (snd (seq_chunks (list N) (runcry E D kind) c pad T sts j ls))) = out.
Proof.
  intro HT. induction ls as [|l r IH]; intros sts j out Hl Hwf Hp.
  - cbn [pipe_chunks] in Hp. injection Hp as <-.
    cbn [seq_chunks snd ok_bytes map concat]. split; [constructor | reflexivity].
  - inversion Hwf as [|l0 r0 Hl1 Hr]; subst l0 r0.
    cbn [pipe_chunks] in Hp.
    assert (Hz : ld_final l && (ld_total l =? 0) = false).
    { destruct (Nat.eqb_spec (ld_total l) 0) as [E0|_]; [lia|]. apply andb_false_r. }
    rewrite Hz in Hp.
    assert (Hi : j mod T < length sts) by (rewrite Hl; apply Nat.mod_upper_bound; lia).
    cbn [seq_chunks]. rewrite (nth_error_nth' sts [] Hi).
    rewrite tr_blocks_run.
    destruct (ModesModel.run E D kind (nth (j mod T) sts []) (blocks16_of (ld_data l))) as [iv' o].
    rewrite export_header_only.
    destruct (export c pad l (concat o)) as [b | | |] eqn:Eexp; try discriminate Hp.
    destruct (pipe_chunks E D kind T c pad (FileModel.set_nth (j mod T) iv' sts) (S j) r)
      as [rest | | |] eqn:Erest; try discriminate Hp.
    injection Hp as <-.
    destruct (IH (FileModel.set_nth (j mod T) iv' sts) (S j) rest) as [I1 I2].
    + rewrite fset_nth_length. exact Hl.
    + exact Hr.
    + exact Erest.
    + destruct (seq_chunks (list N) (runcry E D kind) c pad T
                  (FileModel.set_nth (j mod T) iv' sts) (S j) r) as [sts' rs].
      cbn [snd] in *. split.
      * constructor; [exists b; reflexivity | exact I1].
      * cbn [ok_bytes map concat]. fold (ok_bytes rs). rewrite I2. reflexivity.
Qed.
End Glue.

(* ------------------------------------------------------------------------------------------ *)
(* 2. the loads are well formed                                                                *)
(* ------------------------------------------------------------------------------------------ *)

(* only the last load is final, every load is well formed *)
Inductive wfl : list load -> Prop :=
| wfl_last l : ld_final l = true -> wf_load l -> wfl [l]
| wfl_cons l r : ld_final l = false -> wf_load l -> wfl r -> wfl (l :: r).

Lemma wfl_wf_loads : forall ls, wfl ls -> wf_loads ls.
Proof.
  intros ls H. split.
  - induction H as [l H1 H2 | l r H1 H2 H3 IH]; constructor; try assumption. constructor.
  - induction H as [l H1 H2 | l r H1 H2 H3 IH]; intros i Hi Hf.
    + cbn [length] in *. lia.
    + destruct i as [|i].
      * cbn [nth] in Hf. congruence.
      * cbn [nth length] in *. rewrite <- (IH i) by (try lia; exact Hf). reflexivity.
Qed.

Lemma wfl_total : forall ls, wfl ls -> Forall (fun l => 1 <= ld_total l) ls.
Proof.
  intros ls H. induction H as [l H1 H2 | l r H1 H2 H3 IH]; constructor;
    try exact (proj1 H2); try assumption. constructor.
Qed.

Lemma wfl_enc : forall c, 1 <= c -> forall n P, length P < sum c * S n -> bytes P ->
  wfl (loads_of c true P).
Proof.
  intros c Hc.
  assert (Hlast : forall P, length P < sum c -> bytes P -> wfl (loads_of c true P)).
  { intros P HP Hb. rewrite loads_of_enc_last by exact HP.
    apply wfl_last; [reflexivity|]. unfold wf_load, blocks16_of. cbn [ld_total ld_data].
    split; [lia|].
    exact (proj2 (proj2 (chunks16_of_mul _ (padded P) (padded_length P) (padded_bytes P Hb)))). }
  induction n as [|n IH]; intros P HP Hb.
  - apply Hlast; [lia | exact Hb].
  - destruct (Nat.lt_ge_cases (length P) (sum c)) as [Hlt|Hge]; [apply Hlast; assumption|].
    rewrite loads_of_enc_full by assumption.
    apply wfl_cons; [reflexivity | |].
    + unfold wf_load, blocks16_of. cbn [ld_total ld_data]. split; [exact Hc|].
      apply (chunks16_of_mul c (firstn (sum c) P)).
      * rewrite firstn_length, Nat.min_l by exact Hge. apply sum_eq.
      * apply bytes_firstn_skipn. exact Hb.
    + apply IH.
      * rewrite skipn_length. rewrite (Nat.mul_succ_r _ (S n)) in HP. lia.
      * apply bytes_firstn_skipn. exact Hb.
Qed.

Lemma wfl_dec : forall c, 1 <= c -> forall n t B, length B = 16 * t -> 1 <= t -> t <= c * S n ->
  bytes B -> wfl (loads_of c false B).
Proof.
  intros c Hc.
  assert (Hlast : forall t B, length B = 16 * t -> 1 <= t -> t <= c -> bytes B ->
                  wfl (loads_of c false B)).
  { intros t B HB Ht1 Ht Hb. rewrite (loads_of_dec_last c B t HB Ht1 Ht).
    apply wfl_last; [reflexivity|]. unfold wf_load, blocks16_of. cbn [ld_total ld_data].
    split; [exact Ht1|]. apply (chunks16_of_mul t B HB Hb). }
  induction n as [|n IH]; intros t B HB Ht1 Ht Hb.
  - apply (Hlast t); try assumption. lia.
  - destruct (Nat.le_gt_cases t c) as [Hle|Hgt]; [apply (Hlast t); assumption|].
    destruct (split_at (sum c) B) as [A [R [-> [HA HR]]]]; [rewrite sum_eq; lia|].
    rewrite app_length in HR, HB. rewrite sum_eq in *.
    apply Forall_app in Hb. destruct Hb as [HbA HbR].
    assert (HneR : R <> []) by (intro He; subst R; cbn [length] in HB; lia).
    rewrite loads_of_dec_full by (try assumption; rewrite sum_eq; exact HA).
    apply wfl_cons; [reflexivity | |].
    + unfold wf_load, blocks16_of. cbn [ld_total ld_data]. split; [exact Hc|].
      apply (chunks16_of_mul c A HA HbA).
    + apply (IH (t - c)); try assumption; try lia.
Qed.

(* the decryptor's loads of ANY body (empty, ragged, last byte not a pad length ...) are well formed:
   the concurrency theorems C03 / C04 / C14 apply to the decryption of every file *)
Lemma loads_final_last : forall ld fuel rest i,
  i < length (loads ld fuel rest) ->
  ld_final (nth i (loads ld fuel rest) {| ld_data := []; ld_total := 0; ld_final := false |}) = true ->
  S i = length (loads ld fuel rest).
Proof.
  intros ld. induction fuel as [|f IH]; intros rest i Hi Hf; cbn [loads] in *; [cbn [length] in Hi; lia|].
  destruct (ld rest) as [l rest']. destruct (ld_final l) eqn:Ef.
  - destruct (ld_total l =? 0); cbn [length] in *; lia.
  - destruct i as [|i]; cbn [nth length] in *; [congruence|].
    rewrite <- (IH rest' i) by (try lia; exact Hf). reflexivity.
Qed.

Lemma loads_dec_wf_load : forall c, 1 <= c -> forall fuel rest, bytes rest ->
  Forall wf_load (loads (load_dec c) fuel rest).
Proof.
  intros c Hc. induction fuel as [|f IH]; intros rest Hb; [constructor|].
  cbn [loads]. unfold load_dec at 1. cbv zeta. cbn [ld_final ld_total].
  set (got := firstn (sum c) rest). set (n := length got).
  assert (Hbg : bytes got) by (apply bytes_firstn_skipn; exact Hb).
  assert (Hwl : n / 16 <> 0 ->
                wf_load {| ld_data := firstn (16 * (n / 16)) got; ld_total := n / 16;
                           ld_final := (n <? sum c) || match skipn (sum c) rest with [] => true | _ => false end |}).
  { intro Hn0. unfold wf_load, blocks16_of. cbn [ld_total ld_data]. split; [lia|].
    apply (chunks16_of_mul (n / 16) (firstn (16 * (n / 16)) got)).
    - rewrite firstn_length. fold n. pose proof (Nat.mul_div_le n 16). lia.
    - apply bytes_firstn_skipn. exact Hbg. }
  destruct ((n <? sum c) || match skipn (sum c) rest with [] => true | _ => false end) eqn:Hro.
  - destruct (Nat.eqb_spec (n / 16) 0) as [E0|N0]; [constructor|].
    constructor; [|constructor]. rewrite <- Hro. apply Hwl. exact N0.
  - constructor.
    + rewrite <- Hro. apply Hwl.
      apply orb_false_iff in Hro. destruct Hro as [Hlt _]. apply Nat.ltb_ge in Hlt.
      assert (Hn : n = sum c) by (unfold n, got in *; rewrite firstn_length in *; lia).
      rewrite Hn, sum_eq. rewrite (Nat.mul_comm 16 c), Nat.div_mul by discriminate. lia.
    + apply IH. apply bytes_firstn_skipn. exact Hb.
Qed.

Lemma wf_loads_dec : forall c B, 1 <= c -> bytes B -> wf_loads (loads_of c false B).
Proof.
  intros c B Hc Hb. unfold loads_of. split.
  - apply loads_dec_wf_load; assumption.
  - apply loads_final_last.
Qed.

(* ------------------------------------------------------------------------------------------ *)
(* 3. what encryption computes, piece by piece (the assembly of C01_roundtrip_proof with the   *)
(*    intermediate objects exposed)                                                            *)
(* ------------------------------------------------------------------------------------------ *)

Lemma enc_pieces : forall c hbuf T P key seed cm hm,
  enc_params c hbuf T P key seed cm hm ->
  exists F ke kd body,
    enc c hbuf T P key cm hm seed = Ok F /\
    create true cm = Some ke /\ create false cm = Some kd /\
    pipe_chunks (aes_enc key) (aes_dec key) ke T c true
                (repeat (firstn 16 (iv_chain seed T)) T) 0 (loads_of c true P) = Ok body /\
    pipe_chunks (aes_enc key) (aes_dec key) kd T c false
                (repeat (firstn 16 (iv_chain seed T)) T) 0 (loads_of c false body) = Ok P /\
    firstn 16 (skipn 48 F) = firstn 16 (iv_chain seed T) /\
    skipn (text_mark T) F = body /\
    bytes P /\ bytes body /\ length body = 16 * (length P / 16 + 1).
Proof.
  intros c hbuf T P key seed cm hm [Hc Hh HT HP Hkey Hseed Hcm Hhm HsP HsT HsS].
  destruct (create_kpair cm Hcm) as [ke [kd [Hke [Hkd Hk]]]].
  destruct (iv_chain_props seed T HT) as [Hivl Hivb].
  assert (Hiv16 : block16 (firstn 16 (iv_chain seed T))).
  { apply block16_iff. split; [rewrite firstn_length; lia|apply bytes_firstn_skipn; exact Hivb]. }
  apply bytesb_bytes in HP.
  assert (Hfuel : length P < sum c * S (length P)).
  { rewrite sum_eq. nia. }
  destruct (pipe_roundtrip (aes_enc key) (aes_dec key)
              (fun b Hb => C09_decrypt_inverts_encrypt_proof key b Hkey Hb)
              (fun b Hb => proj1 (C09_outputs_are_blocks_proof key b Hkey Hb))
              ke kd T c Hk HT Hc (length P) P Hfuel HP 0
              (repeat (firstn 16 (iv_chain seed T)) T) (repeat_length _ _)
              (Forall_repeat _ _ _ _ Hiv16)) as [body [B1 [B2 [B3 B4]]]].
  assert (Hhdr : file_header cm hm (iv_chain seed T) T ++ body =
                 (magic_bytes ++ [cm; hm]) ++ zeros 38 ++ (iv_chain seed T ++ body)).
  { unfold file_header. change (N.to_nat Layout.PADDING) with 38.
    rewrite (firstn_all2 (iv_chain seed T)) by lia. rewrite <- !app_assoc. reflexivity. }
  set (ivs := iv_chain seed T) in *.
  set (A := magic_bytes ++ [cm; hm]) in *.
  assert (HA : length A = 10) by (unfold A; rewrite app_length, magic_length; reflexivity).
  assert (Hmsg : skipn 48 (file_header cm hm ivs T ++ body) = ivs ++ body).
  { rewrite Hhdr. rewrite app_assoc. apply skipn_app_exact.
    rewrite app_length, HA, zeros_length. reflexivity. }
  assert (Hmac : hmac_model hbuf hm key (ivs ++ body) =
                 Some (hmac_spec (hash_spec hm) key (ivs ++ body))).
  { apply C08_tag_is_rfc2104_hmac_proof; try assumption.
    - apply bytesb_bytes. apply bytes_app; assumption.
    - rewrite app_length, Hivl, B3, pow64. rewrite pow56 in HsP. lia. }
  set (tag := hmac_spec (hash_spec hm) key (ivs ++ body)) in *.
  assert (Htl : length tag <= 32) by exact (hlen_le _ _ _ _ _ Hmac).
  set (F := patch (file_header cm hm ivs T ++ body) hmac_mark tag).
  assert (HF : F = A ++ tag ++ zeros (38 - length tag) ++ (ivs ++ body)).
  { unfold F. rewrite Hhdr. change hmac_mark with 10. rewrite <- HA.
    apply patch_in_zeros. lia. }
  assert (Henc : enc c hbuf T P key cm hm seed = Ok F).
  { apply (enc_ok c hbuf T P key cm hm seed ke body tag Hke).
    - exact B1.
    - change iv_mark with 48. fold ivs. rewrite Hmsg. exact Hmac. }
  assert (Hsk48 : skipn 48 F = ivs ++ body).
  { rewrite HF. rewrite (app_assoc tag), (app_assoc A). apply skipn_app_exact.
    rewrite !app_length, HA, zeros_length. lia. }
  exists F, ke, kd, body.
  split; [exact Henc|]. split; [exact Hke|]. split; [exact Hkd|].
  split; [exact B1|]. split; [exact B2|].
  split; [rewrite Hsk48; apply firstn_app_ge; lia|].
  split.
  { rewrite text_mark_eq, HF. rewrite !app_assoc.
    apply skipn_app_exact. rewrite !app_length, HA, zeros_length, Hivl. lia. }
  split; [exact HP|]. split; [exact B4 | exact B3].
Qed.

(* ------------------------------------------------------------------------------------------ *)
(* 4. the required lemma                                                                       *)
(* ------------------------------------------------------------------------------------------ *)

(* one pipeline: a successful sequential reading fixes the output of every terminating schedule *)
Lemma every_schedule : forall E D kind T c pad iv16 ls out,
  1 <= T -> wfl ls ->
  pipe_chunks E D kind T c pad (repeat iv16 T) 0 ls = Ok out ->
  forall sched s,
    PipeConc.run (list N) (runcry E D kind) (fun _ _ => []) c pad
                 (init (list N) T (repeat iv16 T) ls) sched = Some s ->
    terminal (list N) s = true ->
    concat (output (list N) s) = out /\ crashed (list N) s = None.
Proof.
  intros E D kind T c pad iv16 ls out HT Hwf Hp sched s Hrun Hterm.
  destruct (glue E D kind T c pad HT ls (repeat iv16 T) 0 out (repeat_length _ _)
                 (wfl_total ls Hwf) Hp) as [G1 G2].
  destruct (C03_output_is_schedule_independent_proof (list N) (runcry E D kind) (fun _ _ => [])
              c pad T (repeat iv16 T) ls sched s HT (repeat_length _ _) (wfl_wf_loads ls Hwf)
              G1 Hrun Hterm) as [O1 [_ O3]].
  split; [rewrite O1; exact G2 | exact O3].
Qed.

(* the same with the well-formedness condition of the concurrency theorems themselves *)
Lemma every_schedule_wf : forall E D kind T c pad iv16 ls out,
  1 <= T -> wf_loads ls ->
  pipe_chunks E D kind T c pad (repeat iv16 T) 0 ls = Ok out ->
  forall sched s,
    PipeConc.run (list N) (runcry E D kind) (fun _ _ => []) c pad
                 (init (list N) T (repeat iv16 T) ls) sched = Some s ->
    terminal (list N) s = true ->
    concat (output (list N) s) = out /\ crashed (list N) s = None.
Proof.
  intros E D kind T c pad iv16 ls out HT Hwf Hp sched s Hrun Hterm.
  assert (Htot : Forall (fun l => 1 <= ld_total l) ls).
  { destruct Hwf as [Hall _]. apply Forall_impl with (2 := Hall). intros l Hl. exact (proj1 Hl). }
  destruct (glue E D kind T c pad HT ls (repeat iv16 T) 0 out (repeat_length _ _) Htot Hp) as [G1 G2].
  destruct (C03_output_is_schedule_independent_proof (list N) (runcry E D kind) (fun _ _ => [])
              c pad T (repeat iv16 T) ls sched s HT (repeat_length _ _) Hwf
              G1 Hrun Hterm) as [O1 [_ O3]].
  split; [rewrite O1; exact G2 | exact O3].
Qed.

(* decryption of ANY file of bytes that decrypts successfully (i.e. any accepted file, see
   C11_decrypt_total): every terminating schedule of the buffer pipeline writes exactly the output of the
   sequential reading, without undefined behaviour; the loads are well formed, so that deadlock freedom
   and the step bound (C04) hold for them as well *)
Lemma decrypt_under_every_schedule_proof : forall c hbuf T F key out,
  1 <= c -> 1 <= T -> bytes F -> dec c hbuf T F key = Ok out ->
  exists kd, create false (nth 8 F 0%N) = Some kd /\
    let E := aes_enc_with (genall key) in
    let D := aes_dec_with (genall key) in
    let iv16 := firstn 16 (skipn 48 F) in
    let ls := loads_of c false (skipn (text_mark T) F) in
    wf_loads ls /\
    forall sched s,
      PipeConc.run (list N) (runcry E D kd) (fun _ _ => []) c false
          (init (list N) T (repeat iv16 T) ls) sched = Some s ->
      terminal (list N) s = true ->
      concat (output (list N) s) = out /\ crashed (list N) s = None.
Proof.
  intros c hbuf T F key out Hc HT Hb Hd. unfold dec in Hd.
  destruct (verify hbuf F key) as [code| | |]; try discriminate Hd.
  destruct code as [|p]; [|discriminate Hd].
  destruct (create false (nth 8 F 0%N)) as [kd|]; [|discriminate Hd].
  exists kd. split; [reflexivity|]. cbv zeta.
  assert (Hwf : wf_loads (loads_of c false (skipn (text_mark T) F))).
  { apply wf_loads_dec; [exact Hc|]. apply bytes_firstn_skipn. exact Hb. }
  split; [exact Hwf|].
  apply (every_schedule_wf (aes_enc_with (genall key)) (aes_dec_with (genall key)) kd T c false
           (firstn 16 (skipn 48 F)) _ out HT Hwf).
  exact Hd.
Qed.
Print Assumptions decrypt_under_every_schedule_proof.

Lemma C01_roundtrip_under_every_schedule_proof : forall c hbuf T P key seed cm hm,
  enc_params c hbuf T P key seed cm hm ->
  exists F ke kd,
    enc c hbuf T P key cm hm seed = Ok F /\
    create true cm = Some ke /\ create false cm = Some kd /\
    let E := aes_enc_with (genall key) in
    let D := aes_dec_with (genall key) in
    let iv16 := firstn 16 (skipn 48 F) in
    let body := skipn (text_mark T) F in
    (forall sched s,
        PipeConc.run (list N) (runcry E D ke) (fun _ _ => []) c true
            (init (list N) T (repeat iv16 T) (loads_of c true P)) sched = Some s ->
        terminal (list N) s = true ->
        concat (output (list N) s) = body /\ crashed (list N) s = None) /\
    (forall sched s,
        PipeConc.run (list N) (runcry E D kd) (fun _ _ => []) c false
            (init (list N) T (repeat iv16 T) (loads_of c false body)) sched = Some s ->
        terminal (list N) s = true ->
        concat (output (list N) s) = P /\ crashed (list N) s = None).
Proof.
  intros c hbuf T P key seed cm hm Hp.
  destruct (enc_pieces c hbuf T P key seed cm hm Hp)
    as [F [ke [kd [body [Henc [Hke [Hkd [B1 [B2 [Hiv [Hbody [HbP [Hbb Hlb]]]]]]]]]]]]].
  destruct Hp as [Hc Hh HT HP Hkey Hseed Hcm Hhm HsP HsT HsS].
  exists F, ke, kd.
  split; [exact Henc|]. split; [exact Hke|]. split; [exact Hkd|].
  cbv zeta. rewrite Hiv, Hbody.
  split.
  - apply (every_schedule (aes_enc_with (genall key)) (aes_dec_with (genall key)) ke T c true
             (firstn 16 (iv_chain seed T)) (loads_of c true P) body HT).
    + apply (wfl_enc c Hc (length P) P); [rewrite sum_eq; nia | exact HbP].
    + exact B1.
  - apply (every_schedule (aes_enc_with (genall key)) (aes_dec_with (genall key)) kd T c false
             (firstn 16 (iv_chain seed T)) (loads_of c false body) P HT).
    + apply (wfl_dec c Hc (length P) (length P / 16 + 1) body Hlb); [lia | nia | exact Hbb].
    + exact B2.
Qed.
Print Assumptions C01_roundtrip_under_every_schedule_proof.

(* non-vacuity: the hypothesis holds on a concrete non-trivial instance (CBC, SHA-256, 3 streams,
   40 plaintext bytes, 2-block chunks: one full load and a final one) *)
Example C01b_nonvacuous :
  enc_params 2 1 3 (map N.of_nat (seq 0 40)) (repeat 11%N 16) [1; 2; 3]%N 1%N 2%N.
Proof. exact C01_nonvacuous. Qed.

(* the glue hypotheses on that instance: the loads are well formed and the sequential reading succeeds *)
Example C01b_loads_nonvacuous :
  let P := map N.of_nat (seq 0 40) in
  length (loads_of 2 true P) = 2 /\
  map ld_final (loads_of 2 true P) = [false; true] /\
  map ld_total (loads_of 2 true P) = [2; 1].
Proof. vm_compute. repeat split. Qed.
