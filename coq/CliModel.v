(* L5: model of the option-driven front end: main.cpp, valget/getopts.cpp (parseOpts, get_v_opt),
   Settings' constructor, and the exit status.  Input = the sequence of (option, value class)
   pairs getopt_long delivers for an argument vector (glibc's tokenisation -- clusters,
   --opt=value, abbreviations, permutation -- is environment: modelled by the harness, not
   verified) plus abstract facts about the file system.  Written from the C++. *)
From Coq Require Import ZArith List Bool.
Import ListNotations.
Local Open Scope Z_scope.

(* what an input path names, relative to key identities *)
Inductive fkind := FMissing | FPlain | FWenc (kid : nat).   (* FWenc k: valid file encrypted under key k *)
Inductive kclass := KInvalid | KValid (kid : nat).          (* -k text: rejected by is_valid_b64 / decodes to key kid *)

Inductive tok :=
| T_e | T_d | T_v | T_V | T_h | T_n
| T_i (long : bool) (default_out_openable : bool) (f : fkind)   (* long: strlen(path)+5 >= sizeof(fout) *)
| T_o (openable : bool)
| T_k (k : kclass)
| T_cmode (n : Z) | T_hmode (n : Z)          (* atoi of the argument *)
| T_other.                                   (* getopt returned '?' (unknown option, missing argument) or 'm' *)

(* vpak_t as far as it matters *)
Record pak := {
  mode : Z;            (* 'u' = 117 initially *)
  ctype : Z; htype : Z; (* char; -1 = not given *)
  fp : option fkind;   (* NULL / open input *)
  out : bool;          (* out != NULL *)
  key : option nat;    (* NULL / key id *)
  no_echo : bool;
  dflt_ok : bool;      (* fout usable: not too long and openable *)
}.
Definition pak0 : pak := {| mode := 117; ctype := -1; htype := -1; fp := None; out := false; key := None; no_echo := false; dflt_ok := false |}.

Inductive outcome :=
| Exit (code : Z) (diag : bool) (op_done : option (Z * bool))  (* status, a diagnostic was printed, operation executed: (mode, success) *)
| Crash.

Definition set_mode (p : pak) (m : Z) : option pak :=
  if mode p =? 117 then Some {| mode := m; ctype := ctype p; htype := htype p; fp := fp p; out := out p; key := key p; no_echo := no_echo p; dflt_ok := dflt_ok p |}
  else None.                                   (* "Only one mode can be specified" *)

(* parseOpts: None = returned false (a diagnostic was printed) *)
Definition parse_one (p : pak) (t : tok) : option pak :=
  match t with
  | T_e => set_mode p 101 | T_d => set_mode p 100 | T_v => set_mode p 118 | T_V => set_mode p 86 | T_h => set_mode p 104
  | T_n => Some {| mode := mode p; ctype := ctype p; htype := htype p; fp := fp p; out := out p; key := key p; no_echo := true; dflt_ok := dflt_ok p |}
  | T_i long dflt f =>
      match f with
      | FMissing => None                        (* "Could not open file" *)
      | _ => Some {| mode := mode p; ctype := ctype p; htype := htype p; fp := Some f; out := out p; key := key p; no_echo := no_echo p;
                     dflt_ok := negb long && dflt |}
      end
  | T_o openable =>
      if openable then Some {| mode := mode p; ctype := ctype p; htype := htype p; fp := fp p; out := true; key := key p; no_echo := no_echo p; dflt_ok := dflt_ok p |}
      else None
  | T_k KInvalid => None                        (* "Invalid base64 key" *)
  | T_k (KValid k) => Some {| mode := mode p; ctype := ctype p; htype := htype p; fp := fp p; out := out p; key := Some k; no_echo := no_echo p; dflt_ok := dflt_ok p |}
  | T_cmode n =>
      if ctype p =? -1 then
        if (n <? 0) || (127 <? n) then None     (* "Wrong ctype" *)
        else Some {| mode := mode p; ctype := n; htype := htype p; fp := fp p; out := out p; key := key p; no_echo := no_echo p; dflt_ok := dflt_ok p |}
      else None                                 (* "Only one ctype can be specified" *)
  | T_hmode n =>
      if htype p =? -1 then
        if (n <? 0) || (127 <? n) then None
        else Some {| mode := mode p; ctype := ctype p; htype := n; fp := fp p; out := out p; key := key p; no_echo := no_echo p; dflt_ok := dflt_ok p |}
      else None
  | T_other => None                             (* "Unknown option" *)
  end.

Fixpoint parse_all (p : pak) (ts : list tok) : option pak :=
  match ts with
  | [] => Some p
  | t :: r => match parse_one p t with Some p' => parse_all p' r | None => None end
  end.

Definition RANDOM_KEY : nat := 0.   (* identity of the key getRandomKey() produces *)

(* get_v_opt after the getopt loop: None = returned NULL after printing "Error :" *)
Definition post_checks (p : pak) : option pak :=
  if mode p =? 117 then None                    (* "Wrong Mode" *)
  else if mode p =? 101 then
    let c := if ctype p =? -1 then Some 0 else if (0 <=? ctype p) && (ctype p <? 5) then Some (ctype p) else None in
    let h := if htype p =? -1 then Some 0 else if (0 <=? htype p) && (htype p <? 3) then Some (htype p) else None in
    match c, h with
    | Some c', Some h' =>
        let k := match key p with Some k => k | None => RANDOM_KEY end in
        match fp p with
        | None => None                          (* "No file specified" *)
        | Some f =>
            if out p || dflt_ok p
            then Some {| mode := 101; ctype := c'; htype := h'; fp := Some f; out := true; key := Some k; no_echo := no_echo p; dflt_ok := dflt_ok p |}
            else None                           (* "Could not open default output file" *)
        end
    | _, _ => None                              (* "Wrong ctype" / "Wrong htype" *)
    end
  else if (mode p =? 100) || (mode p =? 118) then
    match fp p, key p with
    | Some _, Some _ => if (mode p =? 100) && negb (out p) then None else Some p
    | _, _ => None                              (* "No file specified" / "No key specified" / "No output file specified" *)
    end
  else Some p.                                  (* 'V' / 'h' *)

(* main() after get_v_opt returned a package *)
Definition run_main (p : pak) : outcome :=
  if (mode p =? 86) || (mode p =? 104) then Exit 0 false (Some (mode p, true))   (* version() / help() *)
  else
    (* Settings::Settings: exit(1) with a message on stderr *)
    if (ctype p <? -1) || (4 <? ctype p) || (htype p <? -1) || (2 <? htype p) then Exit 1 true None
    else
      match fp p, key p with
      | Some f, Some k =>
          if mode p =? 101 then
            if out p then Exit 0 false (Some (101, true)) else Crash          (* fwrite to a NULL FILE* *)
          else
            let accepted := match f with FWenc k' => Nat.eqb k k' | _ => false end in
            if mode p =? 100 then
              if accepted then (if out p then Exit 0 false (Some (100, true)) else Crash)
              else Exit 255 (negb (no_echo p)) (Some (100, false))
            else
              if accepted then Exit 0 false (Some (118, true))
              else Exit 255 (negb (no_echo p)) (Some (118, false))
      | None, _ => Exit 255 (negb (no_echo p)) None   (* printinv(0): "Invalid values"; unreachable after post_checks *)
      | _, None => Crash                    (* memcpy from a NULL key in hmac::getres *)
      end.

Definition cli (ts : list tok) : outcome :=
  match parse_all pak0 ts with
  | None => Exit 1 true None
  | Some p => match post_checks p with
              | None => Exit 1 true None
              | Some p' => run_main p'
              end
  end.

(* ---- vocabulary for the statements ---- *)
Definition is_mode_tok (t : tok) : bool := match t with T_e | T_d | T_v | T_V | T_h => true | _ => false end.
Definition count_modes (ts : list tok) : nat := length (filter is_mode_tok ts).
Definition has_no_echo (ts : list tok) : bool := existsb (fun t => match t with T_n => true | _ => false end) ts.
Definition has_valid_key (ts : list tok) : bool := existsb (fun t => match t with T_k (KValid _) => true | _ => false end) ts.
Definition has_output (ts : list tok) : bool := existsb (fun t => match t with T_o true => true | _ => false end) ts.
Definition has_input (ts : list tok) : bool := existsb (fun t => match t with T_i _ _ FPlain | T_i _ _ (FWenc _) => true | _ => false end) ts.
