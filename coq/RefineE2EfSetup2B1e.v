(* PARALLEL3, B1 from the END: inside buffergroup::set_buffergroup, after `buflst = new iobuffer[size]` and its constructor loop:
     $t6 = size; $t4 = new bufferctrl[$t6]; for ($t5 = 0; $t5 < $t6; $t5++) bufferctrl::bufferctrl() on $t4[$t5]; ctrl = $t4
   on an explicit state: T x 4 objects appended to the memory, T class entries appended to the pointer table, live_num 0 -> T in place,
   the member "ctrl" set in place. *)
From Coq Require Import ZArith NArith List String Bool Lia PeanoNat Ascii.
From Wencry Require Import Bytes MiniC MiniCRun MiniCLemmas SrcRun SrcRun2 SrcRun5 RefineE2ENames RefineE2EfLay RefineE2EfWNames RefineE2EfWStream RefineE2EfSetup2B3.
From Wencry Require RefineFileBase RefineConcMem RefineConcSim.
From Wencry.Gen Require Src_conc.
Import ListNotations.
Local Open Scope list_scope.
Local Open Scope string_scope.
Local Open Scope Z_scope.

Notation elem_pfx := RefineConcSim.elem_pfx.

(* ---------------- new T[n] of class objects: the loop inside SNewObjArr ---------------- *)
Section Build.
Variables (cls : string) (objs : list (string * ity * Z)) (base : string).
Fixpoint build_arr (k : nat) (i : Z) (m : memory) (ps : list (string * value)) {struct k} : memory * list (string * value) :=
  match k with
  | O => (m, ps)
  | S k' => let name := (base ++ "[" ++ z_string i ++ "].")%string in
            build_arr k' (i + 1) (alloc_objs cls name objs m) (lset ps (class_key name) (VPtr cls 0))
  end.
End Build.
Lemma x_newobjarr : forall prog vt f x cls objs n s,
  exec prog vt (S f) (SNewObjArr x cls objs n) s =
  (do nv <- eval s n; do cnt <- as_int nv;
   if (cnt <? 0) || (4096 <? cnt) then UB "new[]: element count" else
   let base := ("#" ++ nat_string (fresh s))%string in
   let '(m', ps') := build_arr cls objs base (Z.to_nat cnt) 0 (mem s) (ptrs s) in
   Ok (Normal, {| mem := m'; loc := lset (loc s) x (VPtr base 0); pre := pre s; files := files s; ptrs := ps'; fresh := S (fresh s) |})).
Proof. reflexivity. Qed.

Lemma mset_same_val : forall (m : memory) k o, mget m k = Some o -> mset m k o = m.
Proof.
  induction m as [|[k0 o0] m IH]; intros k o H; cbn [mget mset] in *; [discriminate|].
  destruct (String.eqb_spec k k0) as [->|N]; [injection H as ->; reflexivity|]. f_equal. apply IH, H.
Qed.

Section Ctrl.
Variable q : nat.
Notation ct := (heap_name q).
Definition cp (i : nat) : string := elem_pfx ct i.
Definition objs_ctrl : list (string * ity * Z) := [("state", U32, 1); ("lock._M_mutex", U8, 40); ("cv_ready._M_cond._M_cond", U8, 48); ("cv_update._M_cond._M_cond", U8, 48)].
Definition ctrl0 (i : nat) : memory :=
  [(cp i ++ "state", cell U32 0); (cp i ++ "lock._M_mutex", zeros_obj 40); (cp i ++ "cv_ready._M_cond._M_cond", zeros_obj 48); (cp i ++ "cv_update._M_cond._M_cond", zeros_obj 48)].

Lemma cp_hash : forall i x, exists r, cp i ++ x = String "#"%char r.
Proof. intros i x. unfold cp, RefineConcSim.elem_pfx, heap_name. cbn [append]. eauto. Qed.
Lemma cp_eqb : forall i j a b, String.eqb (cp i ++ a) (cp j ++ b) = Nat.eqb i j && String.eqb a b.
Proof. intros. apply RefineConcMem.elem_pfx_eqb. Qed.
Lemma ctrl0_keys : forall i k, mget (ctrl0 i) k <> None -> exists x, k = cp i ++ x.
Proof.
  intros i k. unfold ctrl0. cbn [mget].
  repeat match goal with |- context [String.eqb k ?x] => destruct (String.eqb_spec k x) as [->|_]; [intros _; eauto|] end. congruence.
Qed.

(* a memory / pointer table in which the elements j, j+1, ... of the array are still free *)
Definition Fm (m : memory) (j : nat) : Prop :=
  (forall i x, (j <= i)%nat -> mget m (cp i ++ x) = None) /\ (forall name, mget m ("sizeof:bufferctrl." ++ name) = None).
Definition Fp (ps : list (string * value)) (j : nat) : Prop := forall i, (j <= i)%nat -> lget ps (class_key (cp i)) = None.

Lemma alloc_cons : forall cls pfx name t n r m, alloc_objs cls pfx ((name, t, n) :: r) m =
  alloc_objs cls pfx r (mset m (pfx ++ name) {| o_ty := t; o_cells := repeat 0 (Z.to_nat (match mget m ("sizeof:" ++ cls ++ "." ++ name) with Some o => nth 0 (o_cells o) n | None => n end)) |}).
Proof. reflexivity. Qed.
Lemma sz_none : forall m r name, (forall name, mget m ("sizeof:bufferctrl." ++ name) = None) -> (forall k, mget r k <> None -> exists r', k = String "#"%char r') ->
  mget (m ++ r)%list ("sizeof:" ++ "bufferctrl" ++ "." ++ name) = None.
Proof.
  intros m r name F2 Hr. change ("sizeof:" ++ "bufferctrl" ++ "." ++ name) with ("sizeof:bufferctrl." ++ name).
  rewrite RefineConcMem.mget_app, F2. destruct (mget r ("sizeof:bufferctrl." ++ name)) eqn:E; [|reflexivity].
  exfalso. destruct (Hr ("sizeof:bufferctrl." ++ name)) as [r' E']; [rewrite E; discriminate|discriminate E'].
Qed.

Lemma alloc4 : forall m j, Fm m j -> alloc_objs "bufferctrl" (cp j) objs_ctrl m = (m ++ ctrl0 j)%list.
Proof.
  intros m j [F1 F2].
  assert (N : forall (r : memory) y, (forall k, mget r k <> None -> exists x, k = cp j ++ x /\ x <> y) -> mget (m ++ r)%list (cp j ++ y) = None).
  { intros r y Hr. rewrite RefineConcMem.mget_app, F1 by lia. destruct (mget r (cp j ++ y)) eqn:E; [|reflexivity]. exfalso.
    destruct (Hr (cp j ++ y)) as (x & Ex & Nx); [rewrite E; discriminate|]. apply Nx. symmetry.
    pose proof (cp_eqb j j y x) as Q. rewrite Ex in Q at 1. rewrite String.eqb_refl, Nat.eqb_refl in Q. cbn [andb] in Q. symmetry in Q. apply String.eqb_eq in Q. exact Q. }
  assert (Hh : forall (r : memory), (forall k, mget r k <> None -> exists x, k = cp j ++ x) -> forall k, mget r k <> None -> exists r', k = String "#"%char r').
  { intros r Hr k Hk. destruct (Hr k Hk) as [x ->]. apply cp_hash. }
  unfold objs_ctrl.
  rewrite alloc_cons. rewrite <- (app_nil_r m) at 1 2. rewrite (sz_none m [] "state" F2) by (intros k Hk; exfalso; apply Hk; reflexivity).
  rewrite (mset_new _ (cp j ++ "state")) by (apply N; intros k Hk; exfalso; apply Hk; reflexivity). rewrite app_nil_r.
  rewrite alloc_cons. rewrite (sz_none m _ "lock._M_mutex" F2).
  2:{ apply Hh. intros k. cbn [mget]. destruct (String.eqb_spec k (cp j ++ "state")) as [->|_]; [eauto|congruence]. }
  rewrite (mset_new _ (cp j ++ "lock._M_mutex")).
  2:{ apply N. intros k. cbn [mget]. destruct (String.eqb_spec k (cp j ++ "state")) as [->|_]; [intros _; exists "state"; split; [reflexivity|discriminate]|congruence]. }
  rewrite <- app_assoc. cbn [app].
  rewrite alloc_cons. rewrite (sz_none m _ "cv_ready._M_cond._M_cond" F2).
  2:{ apply Hh. intros k. cbn [mget]. repeat (match goal with |- context [String.eqb k ?x] => destruct (String.eqb_spec k x) as [->|_]; [eauto|] end). congruence. }
  rewrite (mset_new _ (cp j ++ "cv_ready._M_cond._M_cond")).
  2:{ apply N. intros k. cbn [mget].
      destruct (String.eqb_spec k (cp j ++ "state")) as [->|_]; [intros _; exists "state"; split; [reflexivity|discriminate]|].
      destruct (String.eqb_spec k (cp j ++ "lock._M_mutex")) as [->|_]; [intros _; exists "lock._M_mutex"; split; [reflexivity|discriminate]|congruence]. }
  rewrite <- app_assoc. cbn [app].
  rewrite alloc_cons. rewrite (sz_none m _ "cv_update._M_cond._M_cond" F2).
  2:{ apply Hh. intros k. cbn [mget]. repeat (match goal with |- context [String.eqb k ?x] => destruct (String.eqb_spec k x) as [->|_]; [eauto|] end). congruence. }
  rewrite (mset_new _ (cp j ++ "cv_update._M_cond._M_cond")).
  2:{ apply N. intros k. cbn [mget].
      destruct (String.eqb_spec k (cp j ++ "state")) as [->|_]; [intros _; exists "state"; split; [reflexivity|discriminate]|].
      destruct (String.eqb_spec k (cp j ++ "lock._M_mutex")) as [->|_]; [intros _; exists "lock._M_mutex"; split; [reflexivity|discriminate]|].
      destruct (String.eqb_spec k (cp j ++ "cv_ready._M_cond._M_cond")) as [->|_]; [intros _; exists "cv_ready._M_cond._M_cond"; split; [reflexivity|discriminate]|congruence]. }
  rewrite <- app_assoc. cbn [app alloc_objs]. reflexivity.
Qed.

Lemma Fm_next : forall m j, Fm m j -> Fm (m ++ ctrl0 j)%list (S j).
Proof.
  intros m j [F1 F2]. split.
  - intros i x Hi. rewrite RefineConcMem.mget_app, F1 by lia. destruct (mget (ctrl0 j) (cp i ++ x)) eqn:E; [|reflexivity]. exfalso.
    destruct (ctrl0_keys j (cp i ++ x)) as [x' E']; [rewrite E; discriminate|].
    pose proof (cp_eqb i j x x') as Q. rewrite E' in Q at 1. rewrite String.eqb_refl in Q. symmetry in Q. apply andb_prop in Q. destruct Q as [Q _]. apply Nat.eqb_eq in Q. lia.
  - intros name. rewrite RefineConcMem.mget_app, F2. destruct (mget (ctrl0 j) ("sizeof:bufferctrl." ++ name)) eqn:E; [|reflexivity]. exfalso.
    destruct (ctrl0_keys j ("sizeof:bufferctrl." ++ name)) as [x' E']; [rewrite E; discriminate|]. destruct (cp_hash j x') as [r Er]. rewrite Er in E'. discriminate E'.
Qed.

Lemma build_ctrl : forall k j m ps, Fm m j -> Fp ps j ->
  build_arr "bufferctrl" objs_ctrl ct k (Z.of_nat j) m ps =
  ((m ++ flat_map ctrl0 (seq j k))%list, (ps ++ map (fun i => (class_key (cp i), VPtr "bufferctrl" 0)) (seq j k))%list).
Proof.
  induction k as [|k IH]; intros j m ps Hm Hp; cbn [build_arr seq flat_map map]; [rewrite !app_nil_r; reflexivity|].
  change (ct ++ "[" ++ z_string (Z.of_nat j) ++ "].") with (cp j).
  rewrite (alloc4 m j Hm). rewrite (lset_new _ ps (class_key (cp j)) _ (Hp j (le_n _))).
  replace (Z.of_nat j + 1) with (Z.of_nat (S j)) by lia.
  rewrite (IH (S j)); [rewrite <- !app_assoc; reflexivity|apply Fm_next, Hm|].
  intros i Hi. rewrite RefineConcMem.lget_app, Hp by lia. cbn [lget]. unfold class_key. rewrite append_eqb_l.
  pose proof (cp_eqb i j "" "") as Q. rewrite !append_nil_r in Q. rewrite Q. replace (Nat.eqb i j) with false by (symmetry; apply Nat.eqb_neq; lia). reflexivity.
Qed.
End Ctrl.

Lemma arith_I64_small : forall z, (- 2 ^ 63 <= z < 2 ^ 63) -> arith I64 z = Ok z.
Proof.
  intros z H. unfold arith. cbn [ity_bits ity_signed]. change (2 ^ 64 / 2) with (2 ^ 63).
  destruct (Z.leb_spec (- 2 ^ 63) z); [|lia]. destruct (Z.ltb_spec z (2 ^ 63)); [|lia]. reflexivity.
Qed.

(* ---------------- the constructor loop and `ctrl = $t4` ---------------- *)
Definition ctrl_loop : stmt :=
  SLoop (EBin TBool Lt (EVar "$t5") (EVar "$t6")) (SCall None "bufferctrl::bufferctrl/0" (Some (EElem (EVar "$t4") (EVar "$t5"))) [])
        (SSet "$t5" (EBin I64 Add (EVar "$t5") (EConst 1))).

Section CtrlLoop.
Variable q : nat.
Notation ct := (heap_name q).
Variables (MA MR : memory) (T : nat).
Hypothesis HT : (T <= 255)%nat.
Hypothesis HA_live : mget MA "live_num" = None.
Hypothesis HA_cp : forall i x, mget MA (cp q i ++ x) = None.
Hypothesis HR_cp : forall i x, mget MR (cp q i ++ x) = None.

Definition Cobjs : memory := flat_map (ctrl0 q) (seq 0 T).
Definition Mem (j : nat) : memory := (MA ++ [("live_num", cell U8 (Z.of_nat j))] ++ MR ++ Cobjs)%list.

Lemma Mem_live : forall j, mget (Mem j) "live_num" = Some (cell U8 (Z.of_nat j)).
Proof. intros j. unfold Mem. rewrite RefineConcMem.mget_app, HA_live. reflexivity. Qed.
Lemma Mem_set_live : forall j v, mset (Mem j) "live_num" (cell U8 (Z.of_nat v)) = Mem v.
Proof. intros j v. unfold Mem. rewrite RefineConcMem.mset_app_r by exact HA_live. reflexivity. Qed.
Lemma Mem_state : forall j i, (i < T)%nat -> mget (Mem j) (cp q i ++ "state") = Some (cell U32 0).
Proof.
  intros j i Hi. unfold Mem. rewrite !RefineConcMem.mget_app, HA_cp. cbn [mget].
  destruct (cp_hash q i "state") as [r Er]. rewrite Er at 1. cbn [String.eqb Ascii.eqb Bool.eqb andb]. rewrite HR_cp.
  unfold Cobjs. rewrite (RefineConcMem.mget_flat_at _ _ i).
  - unfold ctrl0. cbn [mget]. rewrite String.eqb_refl. reflexivity.
  - intros j' Nj. unfold ctrl0. cbn [mget]. rewrite !cp_eqb. replace (Nat.eqb i j') with false by (symmetry; apply Nat.eqb_neq; lia). reflexivity.
  - lia.
Qed.

Lemma ctrl_ctor : forall fuel j i l0 p0 fs ps fr, (4 <= fuel)%nat -> (i < T)%nat -> (j < 255)%nat ->
  call whole_prog [] fuel "bufferctrl::bufferctrl/0" (cp q i) []
       {| mem := Mem j; loc := l0; pre := p0; files := fs; ptrs := ps; fresh := fr |}
  = Ok (None, {| mem := Mem (S j); loc := l0; pre := p0; files := fs; ptrs := ps; fresh := fr |}).
Proof.
  intros fuel j i l0 p0 fs ps fr Hf Hi Hj. eapply call_mono; [|exact Hf].
  unfold call. rewrite (conc_in_whole _ _ (eq_refl : lget Src_conc.functions "bufferctrl::bufferctrl/0" = Some Src_conc.f_bufferctrl_bufferctrl_0)).
  cbn [f_params f_body Src_conc.f_bufferctrl_bufferctrl_0 bind_params bind mem loc pre files ptrs fresh].
  rewrite exec_seq. rewrite (RefineFileBase.x_store whole_prog []). cbn [eval bind as_int pre mem]. rewrite (Mem_state j i Hi).
  change (store_obj (cell U32 0) U32 0 0) with (Ok (cell U32 0) : res object). cbn [bind]. unfold with_mem. cbn [mem loc pre files ptrs fresh].
  rewrite (mset_same_val _ _ _ (Mem_state j i Hi)).
  rewrite (RefineFileBase.x_store whole_prog []). cbn [eval bind as_int pre mem]. rewrite (Mem_live j). cbn [bind].
  change (load_obj (cell U8 (Z.of_nat j)) U8 0) with (Ok (wrap U8 (Z.of_nat j)) : res Z). cbn [bind as_int eval_bin].
  rewrite (wrap_U8_small (Z.of_nat j)) by lia. rewrite (wrap_I32_small (Z.of_nat j)) by lia. rewrite arith_I32_small by lia. cbn [bind as_int].
  rewrite (wrap_U8_small (Z.of_nat j + 1)) by lia.
  assert (Es : store_obj (cell U8 (Z.of_nat j)) U8 0 (Z.of_nat j + 1) = Ok (cell U8 (Z.of_nat (S j)))).
  { unfold store_obj, cell. cbn [o_ty o_cells ity_bytes ity_bits List.length]. change (8 / 8) with 1. change (0 <? 0) with false. change (1 =? 1) with true.
    change (0 mod 1 =? 0) with true. change (0 / 1 <? Z.of_nat 1) with true. cbv iota. change (Z.to_nat (0 / 1)) with 0%nat. cbn [upd_nth].
    rewrite (wrap_U8_small (Z.of_nat j + 1)) by lia. replace (Z.of_nat j + 1) with (Z.of_nat (S j)) by lia. reflexivity. }
  rewrite Es. cbn [bind]. unfold with_mem. cbn [mem loc pre files ptrs fresh]. rewrite Mem_set_live. reflexivity.
Qed.

Lemma ctrl_loop_w : forall d j l pg fs ps fr, (j + d = T)%nat ->
  lget l "$t5" = Some (VInt (Z.of_nat j)) -> lget l "$t6" = Some (VInt (Z.of_nat T)) -> lget l "$t4" = Some (VPtr ct 0) ->
  exists l', exec whole_prog [] (20 + d) ctrl_loop {| mem := Mem j; loc := l; pre := pg; files := fs; ptrs := ps; fresh := fr |} =
    Ok (Normal, {| mem := Mem T; loc := l'; pre := pg; files := fs; ptrs := ps; fresh := fr |}) /\ lget l' "$t4" = Some (VPtr ct 0).
Proof.
  induction d as [|d IH]; intros j l pg fs ps fr Hd L5 L6 L4.
  - exists l. split; [|exact L4]. assert (j = T) by lia. subst j. change (20 + 0)%nat with (S 19). unfold ctrl_loop. rewrite exec_loop.
    cbn [eval bind as_int loc]. rewrite L5, L6. cbn [bind as_int eval_bin]. rewrite Z.ltb_irrefl. cbn [bind as_int]. change (0 =? 0) with true. cbv iota. reflexivity.
  - assert (Hj : (j < T)%nat) by lia.
    set (l2 := lset l "$t5" (VInt (Z.of_nat (S j)))).
    destruct (IH (S j) l2 pg fs ps fr ltac:(lia)) as (l' & EL & L4').
    { unfold l2. apply lget_lset_same. }
    { unfold l2. rewrite lget_lset_other by discriminate. exact L6. }
    { unfold l2. rewrite lget_lset_other by discriminate. exact L4. }
    exists l'. split; [|exact L4'].
    replace (20 + S d)%nat with (S (S (19 + d))) by lia. unfold ctrl_loop. rewrite exec_loop.
    cbn [eval bind as_int loc]. rewrite L5, L6. cbn [bind as_int eval_bin].
    destruct (Z.ltb_spec (Z.of_nat j) (Z.of_nat T)); [|lia]. cbn [bind as_int]. change (1 =? 0) with false. cbv iota.
    rewrite (RefineFileBase.x_scall whole_prog [] (19 + d) None "bufferctrl::bufferctrl/0" (Some (EElem (EVar "$t4") (EVar "$t5"))) []
               {| mem := Mem j; loc := l; pre := pg; files := fs; ptrs := ps; fresh := fr |} [] (cp q j) None _ _ eq_refl
               ltac:(cbn [this_prefix eval bind as_int loc]; rewrite L4, L5; reflexivity)
               (ctrl_ctor (19 + d) j j l pg fs ps fr ltac:(lia) Hj ltac:(lia)) eq_refl).
    cbn [bind]. rewrite exec_set. cbn [eval bind as_int loc]. rewrite L5. cbn [bind as_int eval_bin].
    rewrite arith_I64_small by lia. cbn [bind]. unfold with_loc. cbn [mem loc pre files ptrs fresh].
    replace (Z.of_nat j + 1) with (Z.of_nat (S j)) by lia. fold l2. fold ctrl_loop.
    rewrite (exec_mono _ _ _ _ _ _ EL) by lia. reflexivity.
Qed.
End CtrlLoop.

(* ---------------- the instance: the end of buffergroup::set_buffergroup in execute_encrypt ---------------- *)
From Wencry Require Import ModesModel HashModel FileModel FileProps RefineE2EWhole RefineE2EfWLay RefineE2EfGen RefineE2EfEncDefs RefineE2EfHashSpec RefineE2EfEnc2
     RefineE2EfHashB2 RefineE2EfHashB3 RefineE2EfSetup1 RefineE2EfSetup2Spec RefineE2EfSetup2Tail.

Lemma lset_app_r : forall A (a b : list (string * A)) k v, lget a k = None -> lset (a ++ b)%list k v = (a ++ lset b k v)%list.
Proof.
  induction a as [|[k0 v0] a IH]; intros b k v H; cbn [lget lset app] in *; [reflexivity|].
  destruct (String.eqb k k0); [discriminate|]. f_equal. apply IH, H.
Qed.
Lemma lset_app_l : forall A (a b : list (string * A)) k v, lget a k <> None -> lset (a ++ b)%list k v = (lset a k v ++ b)%list.
Proof.
  induction a as [|[k0 v0] a IH]; intros b k v H; cbn [lget lset app] in *; [congruence|].
  destruct (String.eqb k k0); [reflexivity|]. cbn [app]. f_equal. apply IH, H.
Qed.
Lemma nth_repeat_lt : forall A (x d : A) n i, (i < n)%nat -> nth i (repeat x n) d = x.
Proof. intros A x d. induction n as [|n IH]; intros [|i] H; cbn [repeat nth]; try lia; [reflexivity|apply IH; lia]. Qed.

Definition sb_end : stmt := s_snd (s_snd (s_snd (s_snd (s_snd (s_snd (s_snd (s_snd (s_snd (f_body Src_conc.f_buffergroup_set_buffergroup_4))))))))).

Section B1End.
Variables (c hbuf T : nat) (P key seed : list N) (cm hm : N) (h n : nat) (extra : memory) (pextra : locs) (ke : mkind).
Hypothesis EP : enc_params c hbuf T P key seed cm hm.
Hypothesis Hn : (n < h)%nat.
Hypothesis Hext : ext_mem_ok h extra = true.
Hypothesis Hpext : ext_ptr_ok h pextra = true.
Hypothesis Hnosz : no_sizeof_names extra = true.
Notation PW := (PW2 hbuf T P key seed cm hm h n extra pextra ke).
Let OKW : wpar_ok PW := PWenc_ok c hbuf T P key seed cm hm EP h n extra pextra ke Hn Hext Hpext.
Notation d0 := (dz c hbuf T P key seed cm hm h n extra pextra ke []).
Notation bufs0 := (repeat (mb_init c) T).

Definition MRc : memory := (wp_memB PW c T ++ w_seg3 PW T true d0 ++ flat_map (w_iob PW bufs0) (seq 0 T))%list.
Definition MC0 : memory := (wp_memA PW c T ++ [("live_num", cell U8 0)] ++ MRc)%list.
Definition core5c : locs :=
  [(class_key (wGP PW), VPtr "buffergroup" 0); ((wGP PW ++ "buflst")%string, VPtr (wBL PW) 0); ((wGP PW ++ "ctrl")%string, VNull);
   ((wGP PW ++ "fin")%string, VPtr "fin" 0); ((wGP PW ++ "fout")%string, VPtr "fout" 0)].
Definition PtC0 : locs :=
  (wp_pA PW T ++ [("instance", VPtr (wGP PW) 0)] ++ wp_pB PW T ++ core5c ++ map (fun i => (class_key (wbp PW i), VPtr "iobuffer" 0)) (seq 0 T))%list.

Lemma wcp_cp : forall i, wcp PW i = cp (h + 2) i.
Proof. reflexivity. Qed.

Lemma MRc_cp : forall i x, mget MRc (cp (h + 2) i ++ x) = None.
Proof.
  intros i x. rewrite <- wcp_cp. pose proof (hnum_cp PW i x) as E. unfold MRc. rewrite !RefineConcMem.mget_app.
  rewrite (frame_none PW _ _ _ (wo_memB PW OKW c T) E) by (cbn [wp_h PW2 PWenc]; lia).
  rewrite (allnum_none (wp_h PW) _ _ _ (allnum_seg3 PW T true d0) E) by (cbn [wp_h PW2 PWenc]; lia).
  rewrite (allnum_none (wp_h PW + 1) _ _ _ (allnum_flat _ _ _ (allnum_iob PW _)) E) by (cbn [wp_h PW2 PWenc]; lia). reflexivity.
Qed.
Lemma MA_cp : forall i x, mget (wp_memA PW c T) (cp (h + 2) i ++ x) = None.
Proof. intros i x. rewrite <- wcp_cp. apply (frame_none PW _ _ _ (wo_memA PW OKW c T) (hnum_cp PW i x)). cbn [wp_h PW2 PWenc]. lia. Qed.

Lemma Fm_C0 : Fm (h + 2) MC0 0.
Proof.
  split.
  - intros i x _. unfold MC0. rewrite !RefineConcMem.mget_app, MA_cp. cbn [mget]. destruct (cp_hash (h + 2) i x) as [r Er]. rewrite Er at 1.
    cbn [String.eqb Ascii.eqb Bool.eqb andb]. apply MRc_cp.
  - intros name. assert (E : hnum ("sizeof:bufferctrl." ++ name) = None) by reflexivity.
    unfold MC0, MRc. cbn [wp_memA wp_memB PW2 PWenc]. rewrite !RefineConcMem.mget_app.
    assert (EA : mget (memA_e hbuf key seed cm hm c T) ("sizeof:bufferctrl." ++ name) = None).
    { destruct (mget (memA_e hbuf key seed cm hm c T) ("sizeof:bufferctrl." ++ name)) eqn:Q; [|reflexivity]. exfalso.
      pose proof (keysA_all hbuf key seed cm hm c T (fun k => negb (pfxb "sizeof:bufferctrl." k)) _ _ eq_refl Q) as X. cbn beta in X.
      rewrite pfxb_app in X. discriminate X. }
    rewrite EA.
    assert (E1 : String.eqb ("sizeof:bufferctrl." ++ name) "live_num" = false) by reflexivity.
    assert (E2 : String.eqb ("sizeof:bufferctrl." ++ name) "#0" = false) by reflexivity.
    pose proof (mget_nopfx "sizeof:" extra ("bufferctrl." ++ name) Hnosz) as E3. change ("sizeof:" ++ "bufferctrl." ++ name) with ("sizeof:bufferctrl." ++ name) in E3.
    set (k := "sizeof:bufferctrl." ++ name) in *. cbn [mget]. rewrite E1, E2, E3. subst k.
    rewrite (allnum_none' (wp_h PW) _ _ (allnum_seg3 PW T true d0) E).
    rewrite (allnum_none' (wp_h PW + 1) _ _ (allnum_flat _ _ _ (allnum_iob PW _)) E). reflexivity.
Qed.
Lemma Fp_C0 : Fp (h + 2) PtC0 0.
Proof.
  intros i _. rewrite <- wcp_cp. pose proof (hnum_cp PW i "") as E. rewrite append_nil_r in E.
  unfold PtC0. rewrite !RefineConcMem.lget_app.
  rewrite (pframe_class PW _ _ _ (wo_pA PW OKW T) E) by (cbn [wp_h PW2 PWenc]; lia). cbn [lget].
  change (String.eqb (class_key (wcp PW i)) "instance") with false. cbv iota.
  rewrite (pframe_class PW _ _ _ (wo_pB PW OKW T) E) by (cbn [wp_h PW2 PWenc]; lia).
  assert (C5 : lget core5c (class_key (wcp PW i)) = None).
  { unfold core5c. cbn [lget]. rewrite class_eqb. pose proof (hnum_GP PW "") as Hg. rewrite append_nil_r in Hg.
    rewrite (hnum_neq _ _ _ _ E Hg) by (cbn [wp_h PW2 PWenc]; lia).
    rewrite !(String.eqb_sym (class_key (wcp PW i)) (wGP PW ++ _)), !(hnum_none_neq _ _ _ (hnum_GP PW _) (hnum_class (wcp PW i))). reflexivity. }
  rewrite C5.
  apply RefineConcMem.lget_map_none. intros j. rewrite class_eqb. pose proof (hnum_bp PW j "") as Hb. rewrite append_nil_r in Hb.
  apply (hnum_neq _ _ _ _ E Hb). cbn [wp_h PW2 PWenc]. lia.
Qed.

Lemma ctrl_objs_eq : flat_map (ctrl0 (h + 2)) (seq 0 T) = flat_map (w_ctrl PW bufs0) (seq 0 T).
Proof.
  apply RefineConcMem.flat_map_ext_seq. intros j Hj. unfold w_ctrl, ctrl0. rewrite nth_repeat_lt by lia. reflexivity.
Qed.

Theorem sb_end_ok : forall l fs, lget l "size" = Some (VInt (Z.of_nat T)) ->
  exists l', exec whole_prog [] (40 + T) sb_end {| mem := MC0; loc := l; pre := wGP PW; files := fs; ptrs := PtC0; fresh := (h + 2)%nat |} =
    MiniC.Ok (Normal, {| mem := MB1 c hbuf T P key seed cm hm h n extra pextra ke; loc := l'; pre := wGP PW; files := fs;
                   ptrs := PtB1 hbuf T P key seed cm hm h n extra pextra ke; fresh := (h + 3)%nat |}).
Proof.
  intros l fs Ls.
  pose proof EP as [Hc Hh1 HT1 HP Hkey Hsd Hcm Hhm HsP HsT HsS].
  set (l1 := lset l "$t6" (VInt (Z.of_nat T))).
  set (l2 := lset l1 "$t4" (VPtr (heap_name (h + 2)) 0)).
  set (l3 := lset l2 "$t5" (VInt 0)).
  set (PtC1 := (PtC0 ++ map (fun i => (class_key (cp (h + 2) i), VPtr "bufferctrl" 0)) (seq 0 T))%list).
  destruct (ctrl_loop_w (h + 2) (wp_memA PW c T) MRc T ltac:(lia) (frame_live PW _ (wo_memA PW OKW c T)) MA_cp MRc_cp T 0 l3 (wGP PW) fs PtC1 (S (h + 2)) eq_refl) as (l' & EL & L4).
  { unfold l3. apply lget_lset_same. }
  { unfold l3, l2, l1. rewrite !lget_lset_other by discriminate. apply lget_lset_same. }
  { unfold l3, l2. rewrite lget_lset_other by discriminate. apply lget_lset_same. }
  exists l'.
  replace (40 + T)%nat with (S (S (S (S (S (35 + T)))))) by lia.
  unfold sb_end, s_snd. cbn [f_body Src_conc.f_buffergroup_set_buffergroup_4].
  (* $t6 = size *)
  rewrite exec_seq, exec_set. cbn [eval bind as_int loc]. rewrite Ls. cbn [bind as_int]. rewrite (wrap_U64_small (Z.of_nat T)) by lia.
  unfold with_loc. cbn [bind mem loc pre files ptrs fresh]. fold l1.
  (* $t4 = new bufferctrl[$t6] *)
  rewrite exec_seq, x_newobjarr. cbn [eval bind as_int loc]. unfold l1 at 1. rewrite lget_lset_same. cbn [bind as_int].
  destruct (Z.ltb_spec (Z.of_nat T) 0) as [|_]; [lia|]. destruct (Z.ltb_spec 4096 (Z.of_nat T)) as [|_]; [lia|]. cbn [orb mem ptrs fresh loc pre files].
  change ("#" ++ nat_string (h + 2)) with (heap_name (h + 2)). rewrite Nat2Z.id.
  change [("state", U32, 1); ("lock._M_mutex", U8, 40); ("cv_ready._M_cond._M_cond", U8, 48); ("cv_update._M_cond._M_cond", U8, 48)] with objs_ctrl.
  change 0%Z with (Z.of_nat 0) at 1. rewrite (build_ctrl (h + 2) T 0 MC0 PtC0 Fm_C0 Fp_C0). cbn [bind]. fold l2. fold PtC1.
  (* $t5 = 0 *)
  rewrite exec_seq, exec_set. cbn [eval bind]. unfold with_loc. cbn [mem loc pre files ptrs fresh]. fold l3.
  (* the constructor loop *)
  rewrite exec_seq. fold ctrl_loop.
  assert (EM : (MC0 ++ flat_map (ctrl0 (h + 2)) (seq 0 T))%list = Mem (h + 2) (wp_memA PW c T) MRc T 0).
  { unfold MC0, Mem, Cobjs. rewrite <- !app_assoc. reflexivity. }
  rewrite EM. rewrite (exec_mono _ _ _ _ _ _ EL) by lia. cbn [bind].
  (* ctrl = $t4 *)
  rewrite (RefineFileBase.x_setptr whole_prog []). cbn [eval bind loc pre]. rewrite L4. cbn [bind]. unfold with_ptrs. cbn [mem loc pre files ptrs fresh].
  f_equal. f_equal. f_equal.
  - unfold Mem, Cobjs, MB1, MRc. rewrite ctrl_objs_eq. rewrite <- !app_assoc. reflexivity.
  - pose proof (hnum_GP PW "ctrl") as E.
    unfold PtC1, PtC0. rewrite <- !app_assoc.
    rewrite lset_app_r by (apply (pframe_num PW _ _ _ (wo_pA PW OKW T) E); cbn [wp_h PW2 PWenc]; lia).
    rewrite (lset_app_r _ [("instance", VPtr (wGP PW) 0)]) by (cbn [lget]; rewrite (hnum_none_neq _ "instance" _ E eq_refl); reflexivity).
    rewrite lset_app_r by (apply (pframe_num PW _ _ _ (wo_pB PW OKW T) E); cbn [wp_h PW2 PWenc]; lia).
    unfold PtB1. do 3 f_equal. unfold core5c, core5. cbn [app lset].
    rewrite (hnum_none_neq _ _ _ E (hnum_class (wGP PW))). rewrite !append_eqb_l. cbn [String.eqb Ascii.eqb Bool.eqb andb].
    reflexivity.
  - lia.
Qed.
End B1End.
Print Assumptions sb_end_ok.
