(* Stage 5: the whole-program layout instance of execute_encrypt, and the EXACT statements about the two hash calls that are
   still open (work package PARALLEL2.md): prepare_IV (header + SHA-1 IV chain) and hmac::writeFileHmac, both in the
   whole-program world (heap-allocated hash objects).  Nothing is proved here: these are definitions (Props). *)
From Coq Require Import ZArith NArith List String Bool Lia.
From Wencry Require Import Bytes AesModel ModesModel HashModel FileModel FileProps MiniC MiniCRun MiniCLemmas MiniCConc SrcRun SrcRun2 SrcRun5 RefineE2EWhole.
From Wencry Require Import RefineE2EfLay RefineE2EfWNames RefineE2EfWLay RefineE2EfTail RefineE2EfEncDefs.
From Wencry.Gen Require Src_aes.
Import ListNotations.
Local Open Scope list_scope.
Local Open Scope string_scope.

(* what the memory / pointer table gained during prepare_IV: only names below the next heap index, none of the names the layout reserves *)
Definition ext_mem_ok (h : nat) (extra : memory) : bool :=
  forallb (fun kv => below h (fst kv) && negb (String.eqb "live_num" (fst kv)) && negb (String.eqb "%mask" (fst kv)) && negb (String.eqb "%nxt_iv" (fst kv))) extra.
Definition ext_ptr_ok (h : nat) (pextra : locs) : bool :=
  forallb (fun kv => below h (fst kv) && match RefineE2ENames.strip "class:" (fst kv) with Some r => below h r | None => true end &&
                     negb (String.eqb "instance" (fst kv)) && negb (pfxb "rc.crym.threads" (fst kv)) && negb (pfxb "rc.aesfactory.iv" (fst kv))) pextra.

Section EncInstance.
Variables (c0 hbuf T0 : nat) (P key seed : list N) (cm hm : N).
Variables (h : nat) (ivn : string) (extra : memory) (pextra : locs) (ke : mkind).

Definition hdr_e : list N := file_header cm hm (iv_chain seed T0) T0.
(* M1e c hbuf T .. = memA_e c T ++ [live_num] ++ [#0] when T <= 255 (the three cells that hold T are written without wrap U8 here) *)
Definition memA_e (c T : nat) : memory :=
  ([("rc.settings.ctype", oc I8 (Z.of_N cm)); ("rc.settings.htype", oc I8 (Z.of_N hm)); ("rc.settings.no_echo", oc TBool 1);
   ("rc.threads_num", oc U8 (Z.of_nat T)); ("rc.mode", oc TBool 0); ("rc.header.hash", mk_object U8 64);
   ("rc.header.num", oc U8 (Z.of_nat T)); ("rc.header.ctype", oc U8 (wrap U8 (Z.of_N cm))); ("rc.header.htype", oc U8 (wrap U8 (Z.of_N hm)));
   ("rc.crym.THREADS_NUM", oc U8 (Z.of_nat T)); ("rc.hmachandle.length", oc U8 0);
   ("st.ctype", oc I8 (Z.of_N cm)); ("st.htype", oc I8 (Z.of_N hm)); ("st.no_echo", oc TBool 1);
   ("key", bytes_object key); ("seed", bytes_object (seed ++ [0%N]))]
  ++ file_globals hbuf ++ Src_aes.globals
  ++ [("sum", RefineE2EfLay.cell U32 (16 * Z.of_nat c)); ("sizeof:iobuffer.b", RefineE2EfLay.cell U32 (16 * Z.of_nat c))])%list.
Definition e_locs : locs :=
  [("fsize", VInt (Z.of_nat (List.length P))); ("r_buf", VPtr "seed" 0); ("$t2", VPtr ivn 0); ("iv", VPtr ivn 0);
   ("$t4", VInt (Z.of_N cm)); ("$t3", VPtr (heap_name (h + 3)) 0); ("mode", VPtr (heap_name (h + 3)) 0)].
Definition PWenc : wpar := {|
  wp_h := h;
  wp_memA := memA_e;
  wp_memB := fun _ _ => ([("#0", mk_object U8 32)] ++ extra)%list;
  wp_pA := fun _ => [("rc.fin", VPtr "fin" 0); ("rc.out", VPtr "fout" 0); ("rc.key", VPtr "key" 0)];
  wp_pB := fun _ => ([("rc.header.key", VPtr "key" 0); ("rc.header.fp", VPtr "fin" 0); ("rc.header.out", VPtr "fout" 0);
                     ("rc.aesfactory.key", VPtr "key" 0); ("rc.resultprint", VPtr "#0" 0)] ++ pextra)%list;
  wp_pC := fun _ => [("rc.aesfactory.iv", VPtr ivn 0)];
  wp_cp := "rc.crym.";
  wp_blocs := fun _ _ => e_locs; wp_bpre := "rc."; wp_kb := fun _ _ => kbot_of enc_R enc_K1;
  wp_tdone := fun _ _ => tdone_of enc_R enc_K1 e_locs "rc.";
  wp_kind := ke; wp_ks := genall key; wp_iv := firstn 16 (iv_chain seed T0);
  wp_out0 := map Z.of_N hdr_e; wp_pos0 := 0 |}.
End EncInstance.

(* ---------------- (A) runcrypt::prepare_IV(r_buf) in the whole-program world ---------------- *)
Definition prepare_IV_enc_spec : Prop :=
  forall (c hbuf T : nat) (P key seed : list N) (cm hm : N) (l : locs),
    enc_params c hbuf T P key seed cm hm ->
    forallb (fun b => (0 <? b)%N && (b <? 256)%N) seed = true ->
    (N.of_nat (64 * hbuf) < 2 ^ 32)%N ->
    let hdr := file_header cm hm (iv_chain seed T) T in
    let m1 := M1e c hbuf T key seed (Z.of_N cm) (Z.of_N hm) in
    exists (fuel h n : nat) (ivo : object) (extra : memory) (pextra : locs),
      call whole_prog [] fuel "runcrypt::prepare_IV/1" "rc." [VPtr "seed" 0]
           {| mem := m1; loc := l; pre := "rc."; files := FS0 P; ptrs := PS1; fresh := 1 |} =
      Ok (Some (VPtr (heap_name n) 0),
          {| mem := (m1 ++ extra)%list; loc := l; pre := "rc.";
             files := [("fin", stream P 0); ("fout", {| cf_data := map Z.of_N hdr; cf_pos := List.length hdr; cf_eof := false |})];
             ptrs := (PS1 ++ pextra)%list; fresh := h |}) /\
      (n < h)%nat /\ mget extra (heap_name n) = Some ivo /\ o_ty ivo = U8 /\ (16 <= List.length (o_cells ivo))%nat /\
      firstn 16 (o_cells ivo) = map Z.of_N (firstn 16 (iv_chain seed T)) /\
      ext_mem_ok h extra = true /\ ext_ptr_ok h pextra = true /\
      (forall k o, mget m1 k = Some o -> mget extra k = None).

(* ---------------- (B) hmac::writeFileHmac in the whole-program world, after the concurrent phase ---------------- *)
Definition writeFileHmac_enc_spec : Prop :=
  forall (c hbuf T : nat) (P key seed : list N) (cm hm : N) (h n : nat) (extra : memory) (pextra : locs) (ke : mkind),
    enc_params c hbuf T P key seed cm hm -> (N.of_nat (64 * hbuf) < 2 ^ 32)%N ->
    (n < h)%nat -> ext_mem_ok h extra = true -> ext_ptr_ok h pextra = true ->
    (forall k o, mget (M1e c hbuf T key seed (Z.of_N cm) (Z.of_N hm)) k = Some o -> mget extra k = None) ->
    writeFileHmac_spec (PWenc hbuf T P key seed cm hm h (heap_name n) extra pextra ke) c hbuf T hm key.
