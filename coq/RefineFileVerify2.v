(* SRC_verify: the cmphmac call of verify() for the three classes, and the entry point src_verify *)
From Coq Require Import ZArith NArith List String Bool Lia PeanoNat.
From Wencry Require Import Bytes HashModel HashProofs HmacProofs FileModel MiniC MiniCRun MiniCLemmas SrcRun SrcRun2 RefineHashDefs RefineHashDriver
     RefineSha256 RefineSha1 RefineMd5 RefineHash RefineFileBase RefineFileHmac RefineFileHmac2 RefineFileHmac3 RefineFileVerify RefineFileVerifyCall.
From Wencry.Gen Require Layout Src_sha256 Src_sha1 Src_md5 Src_hashmaster Src_hashbuffer Src_hashfactory Src_fheader Src_cry.
Import ListNotations.
Local Open Scope list_scope.
Local Open Scope string_scope.
Local Open Scope Z_scope.

Lemma nosz_mset : forall m k o, no_sizeof m -> is_prefix "sizeof:" k = false -> no_sizeof (mset m k o).
Proof.
  intros m k o Hm Hk k' H1 H2. rewrite mget_mset_other; [apply Hm; assumption|]. intro E. subst k'. rewrite Hk in H1. discriminate.
Qed.
Definition no_buf (m : memory) : Prop := forall k, is_prefix "buf." k = true -> mget m k = None.
Lemma nobuf_mset : forall m k o, no_buf m -> is_prefix "buf." k = false -> no_buf (mset m k o).
Proof.
  intros m k o Hm Hk k' H1. rewrite mget_mset_other; [apply Hm; assumption|]. intro E. subst k'. rewrite Hk in H1. discriminate.
Qed.
Lemma gl_mset : forall globs m k o, globals_ok globs m -> mget globs k = None -> globals_ok globs (mset m k o).
Proof.
  intros globs m k o Hm Hk k' o' H1. rewrite mget_mset_other; [apply Hm, H1|]. intro E. subst k'. rewrite Hk in H1. discriminate.
Qed.

Lemma rc_mem0_nosz : forall hbuf key, no_sizeof (rc_mem0 hbuf key).
Proof.
  intros hbuf key k Hk Hne. unfold rc_mem0.
  cbn [file_globals Src_sha1.globals Src_md5.globals Src_sha256.globals app mk_objects map Src_cry.objects_runcrypt mget append].
  repeat match goal with
         | |- context [String.eqb k ?x] => destruct (String.eqb_spec k x) as [->|_]; [first [discriminate Hk | exfalso; apply Hne; reflexivity]|]
         end. reflexivity.
Qed.
Lemma rc_mem0_nobuf : forall hbuf key, no_buf (rc_mem0 hbuf key).
Proof.
  intros hbuf key k Hk. unfold rc_mem0.
  cbn [file_globals Src_sha1.globals Src_md5.globals Src_sha256.globals app mk_objects map Src_cry.objects_runcrypt mget append].
  repeat match goal with
         | |- context [String.eqb k ?x] => destruct (String.eqb_spec k x) as [->|_]; [discriminate Hk|]
         end. reflexivity.
Qed.

Notation FS D pos e fo := [("fin", {| cf_data := D; cf_pos := pos; cf_eof := e |}); ("fout", fo)].

Section AnyClassRc.
Variable cls : string.
Variable a : halg.
Variable objs : list (string * ity * Z).
Variable globs : memory.
Variable F : nat.
Variable hm : N.
Variable hbuf : nat.
Hypothesis C : hctx cls a objs globs (file_vt hm) F (Z.of_N hm) hbuf "rc.hmachandle.".
Hypothesis Hgh : get_hasher hm = Some a.
Hypothesis HF : (F + 26 <= 2000)%nat.
Hypothesis Hfive : forall name t n, In (name, t, n) objs -> In name five.
Hypothesis Hgl : forall rest, globals_ok globs (file_globals hbuf ++ rest)%list.
Hypothesis Hglk : forall k, In k ["rc.header.num"; "rc.header.ctype"; "rc.header.htype"; "%mn"; "rc.header.hash"] -> mget globs k = None.
Hypothesis Hal : lget rc_ptrs1 ("alloc:" ++ cls) = Some (VPtr "" 0).

Lemma gpre_rc : forall T Fl key mn fo, block16 key -> bytesb Fl = true ->
  gpre cls objs globs hbuf "rc.hmachandle." "fin" (mem4 hbuf T Fl key mn) rc_ptrs1 (FS (map Z.of_N Fl) 48%nat false fo) "key" key
       {| cf_data := map Z.of_N Fl; cf_pos := 48; cf_eof := false |} (skipn 48 Fl).
Proof.
  intros T Fl key mn fo [Hk16 Hkb] HFb. unfold mem4, rc_mem1.
  constructor.
  - exact Hal.
  - reflexivity.
  - repeat (apply nosz_mset; [|reflexivity]). apply rc_mem0_nosz.
  - reflexivity.
  - reflexivity.
  - reflexivity.
  - reflexivity.
  - repeat (apply gl_mset; [|apply Hglk; cbn; auto 10]). apply Hgl.
  - intros name t n Hin. apply Hfive in Hin. cbn [five In] in Hin.
    repeat (destruct Hin as [<-|Hin]; [reflexivity|]). destruct Hin.
  - repeat (apply nobuf_mset; [|reflexivity]). apply rc_mem0_nobuf.
  - eexists. reflexivity.
  - reflexivity.
  - lia.
  - exact Hkb.
  - reflexivity.
  - discriminate.
  - reflexivity.
  - cbn [cf_pos cf_data]. apply skipn_map.
  - apply bytesb_skipn, HFb.
Qed.

Lemma cmp_rc : forall T Fl key fsize fo, block16 key -> bytesb Fl = true -> (74 <= List.length Fl)%nat -> nth 9 Fl 0%N = hm ->
  forall fuel mn l0, (2800 + List.length Fl / 64 <= fuel)%nat ->
  exists tag s', hmac_model hbuf hm key (skipn 48 Fl) = Some tag /\
    call file_prog (file_vt hm) fuel "hmac::cmphmac/5" "rc.hmachandle." [VInt (Z.of_N hm); VPtr "key" 0; VPtr "fin" 0; VPtr "rc.header.hash" 0; VInt fsize]
      (St (mem4 hbuf T Fl key mn) l0 "rc." (FS (map Z.of_N Fl) 48%nat false fo) rc_ptrs1 0) =
    Ok (Some (VInt (if cmphmac tag (firstn 64 (skipn 10 Fl)) then 1 else 0)), s').
Proof.
  intros T Fl key fsize fo Hk HFb H74 Hhm fuel mn l0 Hfuel.
  destruct (loop_total_g hbuf hm a key (skipn 48 Fl) (hc_h1 _ _ _ _ _ _ _ _ _ C) Hgh Hk) as (st' & Hfl & Hmodel).
  exists (tag_of a key st').
  assert (Hdiv : (List.length (skipn 48 Fl) / 64 <= List.length Fl / 64)%nat).
  { apply Nat.div_le_mono; [lia|]. rewrite skipn_length. lia. }
  destruct (cmphmac_refines cls a objs globs (file_vt hm) F (Z.of_N hm) hbuf "rc.hmachandle." C "fin" fuel
              (mem4 hbuf T Fl key mn) l0 "rc." (FS (map Z.of_N Fl) 48%nat false fo) rc_ptrs1 0%nat "key" key fsize
              {| cf_data := map Z.of_N Fl; cf_pos := 48; cf_eof := false |} (skipn 48 Fl)
              (List.length (skipn 48 Fl) / 64 + 3)%nat st' "rc.header.hash" (firstn 64 (skipn 10 Fl)))
    as (s' & Ec & _).
  - lia.
  - apply gpre_rc; assumption.
  - exact Hfl.
  - reflexivity.
  - rewrite firstn_length, skipn_length. pose proof (hc_hlen _ _ _ _ _ _ _ _ _ C). lia.
  - apply bytesb_firstn, bytesb_skipn, HFb.
  - reflexivity.
  - discriminate.
  - exists s'. split; [exact Hmodel|exact Ec].
Qed.
End AnyClassRc.

Lemma glk_nil : forall k, In k ["rc.header.num"; "rc.header.ctype"; "rc.header.htype"; "%mn"; "rc.header.hash"] -> mget (@nil (string * object)) k = None.
Proof. reflexivity. Qed.
Lemma glk_sha256 : forall k, In k ["rc.header.num"; "rc.header.ctype"; "rc.header.htype"; "%mn"; "rc.header.hash"] -> mget Src_sha256.globals k = None.
Proof. intros k Hin. cbn [In] in Hin. repeat (destruct Hin as [<-|Hin]; [reflexivity|]). destruct Hin. Qed.

Lemma SRC_verify_proof : forall hbuf T F key,
  (1 <= hbuf)%nat -> (N.of_nat (64 * hbuf) < 2 ^ 32)%N -> (T < 256)%nat ->
  block16 key -> bytesb F = true -> (N.of_nat (List.length F) < 2 ^ 56)%N ->
  exists code, verify hbuf F key = FileModel.Ok code /\ src_verify hbuf T F key = SOk code.
Proof.
  intros hbuf T F key Hh1 Hh2 HT Hk HFb _.
  assert (Hh2' : Z.of_nat (64 * hbuf) < 2 ^ 32) by lia.
  unfold src_verify. cbv zeta.
  set (vt := file_vt (nth 9 F 0%N)). set (fuel := (List.length F / 64 + 3000)%nat).
  change (runcrypt_state hbuf T F key) with (St (rc_mem0 hbuf key) [] "" (FS (map Z.of_N F) 0%nat false (stream [] 0)) rc_ptrs0 0%nat).
  rewrite (ctor_call vt fuel (rc_mem0 hbuf key) [] "" _ 0%nat T 255 255 ltac:(unfold fuel; lia)
             ltac:(eexists; reflexivity) ltac:(eexists; reflexivity) ltac:(eexists; reflexivity)).
  cbn [of_res snd]. change (wrap U8 255) with 255. fold (rc_mem1 hbuf T key 255 255).
  destruct (verify_call vt hbuf T F key (Z.of_nat (List.length F)) (stream [] 0) HFb) with (fuel := fuel) as (code & s' & Hmodel & Ec).
  - intros H74 Hht f mn l0 Hf.
    assert (Hc : nth 9 F 0%N = 0%N \/ nth 9 F 0%N = 1%N \/ nth 9 F 0%N = 2%N) by lia.
    unfold vt. destruct Hc as [E|[E|E]]; rewrite E.
    + apply (cmp_rc "sha1hash" alg_sha1 _ _ F_sha1hash 0%N hbuf (hctx_sha1 hbuf "rc.hmachandle." Hh1 Hh2' pfx_ok_rc) eq_refl F_sha1hash_bound five_sha1
               (fun rest => globals_ok_file hbuf rest _ (or_introl eq_refl)) glk_nil eq_refl); assumption.
    + apply (cmp_rc "md5hash" alg_md5 _ _ F_md5hash 1%N hbuf (hctx_md5 hbuf "rc.hmachandle." Hh1 Hh2' pfx_ok_rc) eq_refl F_md5hash_bound five_md5
               (fun rest => globals_ok_file hbuf rest _ (or_intror (or_introl eq_refl))) glk_nil eq_refl); assumption.
    + apply (cmp_rc "sha256hash" alg_sha256 _ _ F_sha256hash 2%N hbuf (hctx_sha256 hbuf "rc.hmachandle." Hh1 Hh2' pfx_ok_rc) eq_refl F_sha256hash_bound five_sha256
               (fun rest => globals_ok_file hbuf rest _ (or_intror (or_intror eq_refl))) glk_sha256 eq_refl); assumption.
  - unfold fuel. lia.
  - exists code. split; [exact Hmodel|]. unfold rc_mem1 in Ec. change (wrap U8 255) with 255 in Ec. rewrite Ec. cbn [of_res fst]. rewrite N2Z.id. reflexivity.
Qed.
Print Assumptions SRC_verify_proof.
