(* L0: bytes, 32-bit words, list helpers.  Definitions only; lemmas are in BytesLemmas.v
   so that the executable model keeps building when a proof breaks. *)
From Coq Require Export NArith List Bool Arith Lia.
Export ListNotations.
Local Open Scope N_scope.

Definition byte_ok (b : N) : bool := b <? 256.
Definition bytesb (l : list N) : bool := forallb byte_ok l.

(* the 256 byte values, used by the exhaustive sweeps *)
Definition all_bytes : list N := map N.of_nat (seq 0 256).

Definition nthN {A} (l : list A) (i : N) (d : A) : A := nth (N.to_nat i) l d.

Fixpoint map2 {A B C} (f : A -> B -> C) (a : list A) (b : list B) : list C :=
  match a, b with
  | x :: a', y :: b' => f x y :: map2 f a' b'
  | _, _ => []
  end.

Definition xorl (a b : list N) : list N := map2 N.lxor a b.

Definition zeros (n : nat) : list N := repeat 0 n.

(* split a list into consecutive pieces of n elements (last one possibly shorter) *)
Fixpoint chunks_fuel {A} (fuel n : nat) (l : list A) : list (list A) :=
  match fuel with
  | O => []
  | S f => match l with
           | [] => []
           | _ => firstn n l :: chunks_fuel f n (skipn n l)
           end
  end.
Definition chunks {A} (n : nat) (l : list A) : list (list A) := chunks_fuel (length l) n l.

(* 32-bit words *)
Definition w32 : N := 4294967296.
Definition wrap32 (x : N) : N := x mod w32.
Definition add32 (a b : N) : N := (a + b) mod w32.
Definition not32 (a : N) : N := N.lxor a 4294967295.
Definition shl32 (x s : N) : N := (N.shiftl x s) mod w32.
Definition rotl32 (x s : N) : N := N.lor (shl32 x s) (N.shiftr x (32 - s)).
Definition rotr32 (x s : N) : N := N.lor (N.shiftr x s) (shl32 x (32 - s)).

Definition be32 (b0 b1 b2 b3 : N) : N :=
  N.lor (N.shiftl b0 24) (N.lor (N.shiftl b1 16) (N.lor (N.shiftl b2 8) b3)).
Definition le32 (b0 b1 b2 b3 : N) : N := be32 b3 b2 b1 b0.
Definition be32_bytes (w : N) : list N :=
  [N.shiftr w 24 mod 256; N.shiftr w 16 mod 256; N.shiftr w 8 mod 256; w mod 256].
Definition le32_bytes (w : N) : list N := rev (be32_bytes w).

Fixpoint words_of (pack : N -> N -> N -> N -> N) (l : list N) : list N :=
  match l with
  | b0 :: b1 :: b2 :: b3 :: r => pack b0 b1 b2 b3 :: words_of pack r
  | _ => []
  end.

(* 64-bit length encodings *)
Definition be64_bytes (w : N) : list N :=
  map (fun i => N.shiftr w (8 * (7 - i)) mod 256) [0;1;2;3;4;5;6;7].
Definition le64_bytes (w : N) : list N :=
  map (fun i => N.shiftr w (8 * i) mod 256) [0;1;2;3;4;5;6;7].

Definition list_eqb (a b : list N) : bool :=
  (length a =? length b)%nat && forallb (fun p => fst p =? snd p) (combine a b).

(* a well-formed 16-byte block / key / IV register *)
Definition block16 (b : list N) : Prop := length b = 16%nat /\ bytesb b = true.
Definition blocks16 (bs : list (list N)) : Prop := Forall block16 bs.
