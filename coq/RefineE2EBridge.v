(* The hmac::cmphmac call of runcrypt::verify in the whole-file run: obtained from the refinement lemma of RefineFileHmac2.v
   (stated for the run with allocation plan and virtual table) through the simulation of RefineE2ESim.v. *)
From Coq Require Import ZArith NArith List String Bool Lia PeanoNat Ascii.
From Wencry Require Import Bytes HashModel HashProofs HmacProofs FileModel MiniC MiniCRun MiniCLemmas SrcRun SrcRun2 SrcRun5
     RefineHashDefs RefineHashDriver RefineFileBase RefineFileHmac RefineFileHmac2 RefineFileHmac3 RefineFileVerify
     RefineE2ENames RefineE2ERel RefineE2EEval RefineE2EAlloc RefineE2ESim RefineE2EFrame RefineE2EWhole.
From Wencry.Gen Require Layout Src_sha256 Src_sha1 Src_md5 Src_hashmaster Src_hashbuffer Src_hashfactory Src_fheader Src_cry.
Import ListNotations.
Local Open Scope list_scope.
Local Open Scope string_scope.
Local Open Scope Z_scope.

Notation FS D pos e fo := [("fin", {| cf_data := D; cf_pos := pos; cf_eof := e |}); ("fout", fo)].

(* ---------------- the checked functions ---------------- *)
Definition names (p : program) : list string := map fst p.
Definition UL0 : list string :=
  names Src_sha1.functions ++ names Src_md5.functions ++ names Src_sha256.functions ++ names Src_hashmaster.functions
  ++ ["sha1hash::sha1hash/0"; "md5hash::md5hash/0"; "sha256hash::sha256hash/0"].
Definition OKL0 : list string :=
  UL0 ++ names Src_hashbuffer.functions ++ names Src_hashfactory.functions ++ ["hmac::getres/4"; "hmac::cmphmac/5"].
Definition E0 : list string := ["sizeof:iobuffer.b"].
Lemma HE0 : forall e, In e E0 -> exists r, e = "sizeof:" ++ r.
Proof. intros e [<-|[]]. exists "iobuffer.b". reflexivity. Qed.
Lemma HOK0 : forall g, In g OKL0 -> exists fn, lget file_prog g = Some fn /\ lget whole_prog g = Some fn /\
  oks file_prog E0 OKL0 UL0 (inb g UL0) (f_body fn) = true.
Proof.
  assert (C : forallb (fun g => match lget file_prog g with Some fn => oks file_prog E0 OKL0 UL0 (inb g UL0) (f_body fn) | None => false end) OKL0 = true)
    by (vm_compute; reflexivity).
  intros g Hg. rewrite forallb_forall in C. specialize (C g Hg). destruct (lget file_prog g) as [fn|] eqn:L; [|discriminate C].
  exists fn. split; [reflexivity|]. split; [apply lget_W, L|exact C].
Qed.

(* ---------------- the initial world: nothing planned exists yet ---------------- *)
Definition W0 : world := {| wa := None; wb := None; wf := 1 |}.
Lemma tau_W0 : forall k, tau W0 k = k.
Proof.
  intro k. unfold tau. destruct k as [|ch k]; [reflexivity|]. unfold hp, bp. cbn [wa wb W0].
  destruct (inb (String ch k) five); [reflexivity|].
  destruct (strip "buf." (String ch k)) as [r|] eqn:E1; [symmetry; apply strip_Some, E1|].
  destruct (strip "class:" (String ch k)) as [r|] eqn:E2; [|reflexivity].
  apply strip_Some in E2. rewrite E2. f_equal. unfold t1, hp, bp. cbn [wa wb W0].
  destruct (String.eqb_spec r "") as [->|]; [reflexivity|]. destruct (String.eqb_spec r "buf.") as [->|]; reflexivity.
Qed.
Lemma rv_W0 : forall v, rv W0 v = v.
Proof. intros [z|o off|]; cbn [rv]; [reflexivity| |reflexivity]. now rewrite tau_W0. Qed.
Lemma lmap_W0 : forall l, lmap W0 l = l.
Proof. induction l as [|[k v] r IH]; [reflexivity|]. unfold lmap in *. cbn [map fst snd]. now rewrite rv_W0, IH. Qed.
Lemma wf_W0 : wfW W0.
Proof. unfold wfW, W0. cbn. repeat split; intros; discriminate. Qed.

(* ---------------- the memory of the first run: the names the simulation knows ---------------- *)
Definition nmb (k : string) : bool := ordb k || is_prefix "sizeof:" k || String.eqb k "#0".
Definition keepb (k : string) : bool := nmb k && negb (inb k E0).
Definition msrc (m : memory) : memory := filter (fun kv : string * object => keepb (fst kv)) m.
Lemma mget_msrc : forall m k, mget (msrc m) k = if keepb k then mget m k else None.
Proof.
  induction m as [|[k' o] r IH]; intro k; cbn [msrc filter fst mget]; [destruct (keepb k); reflexivity|].
  fold (msrc r). destruct (keepb k') eqn:Ek'.
  - cbn [mget]. destruct (String.eqb_spec k k') as [->|Hne]; [rewrite Ek'; reflexivity|apply IH].
  - rewrite IH. destruct (String.eqb_spec k k') as [->|Hne]; [rewrite Ek'; reflexivity|reflexivity].
Qed.
Lemma prefix_sz : forall k, is_prefix "sizeof:" k = true -> exists r, k = "sizeof:" ++ r.
Proof. intros k H. apply prefix_split in H. exact H. Qed.
Lemma nmb_nm : forall k, nmb k = true -> nm W0 k.
Proof.
  intros k H. unfold nmb in H. apply orb_prop in H. destruct H as [H|H]; [apply orb_prop in H; destruct H as [H|H]|].
  - left. exact H.
  - right. left. apply prefix_sz, H.
  - apply String.eqb_eq in H. subst k. right. right. left. exists 0%nat. reflexivity.
Qed.
Lemma nm_W0_cases : forall k, nm W0 k -> nmb k = true \/ (exists r, k = String "#"%char r).
Proof.
  intros k [H|[[r ->]|[[n ->]|[(n & x & -> & _)|[[Ha _]|[Hb _]]]]]].
  - left. unfold nmb. rewrite H. reflexivity.
  - left. unfold nmb. rewrite sizeof_prefix. rewrite orb_true_r. reflexivity.
  - right. unfold heap_name. eauto.
  - right. rewrite hobj_app. eauto.
  - exfalso. apply Ha. reflexivity.
  - exfalso. apply Hb. reflexivity.
Qed.

Section Keys.
Variables c hbuf T : nat.
Variables Fl key : list N.
Variable mn : object.
Let M4 := Mem4 c hbuf T Fl key mn.
Definition KEYS4 : list string :=
  ["rc.settings.ctype"; "rc.settings.htype"; "rc.settings.no_echo"; "rc.threads_num"; "rc.mode"; "rc.header.hash"; "rc.header.num"; "rc.header.ctype";
   "rc.header.htype"; "rc.crym.THREADS_NUM"; "rc.hmachandle.length"; "st.ctype"; "st.htype"; "st.no_echo"; "key"; "seed"; "k"; "HBUF_SZ";
   "sizeof:filebuffer64.b"; "ipad"; "opad"; "Magic_Num"; "THREAD_MAX"; "Alogtable"; "Logtable"; "RC"; "rs_box"; "s_box"; "sum"; "sizeof:iobuffer.b";
   "live_num"; "#0"; "%mn"].
Lemma keys4 : map fst M4 = KEYS4.
Proof. vm_compute. reflexivity. Qed.
Lemma in_keys4 : forall k o, mget M4 k = Some o -> In k KEYS4.
Proof. intros k o H. rewrite <- keys4. eapply mget_in, H. Qed.
(* a property of all keys, checked by computation *)
Lemma keys4_all : forall (P : string -> bool) k o, forallb P KEYS4 = true -> mget M4 k = Some o -> P k = true.
Proof. intros P k o HP H. rewrite forallb_forall in HP. apply HP. eapply in_keys4, H. Qed.
Lemma keys4_hash : forall r o, mget M4 (String "#"%char r) = Some o -> r = "0".
Proof.
  intros r o H. pose proof (keys4_all (fun k => match k with String "#"%char r' => String.eqb r' "0" | _ => true end) _ _ eq_refl H) as X.
  cbn in X. apply String.eqb_eq, X.
Qed.

Lemma rel0 : forall cls l pfx fs, In cls hashcls -> ordb pfx = true -> gl W0 l -> (forall k f, lget fs k = Some f -> ordb k = true) ->
  Rel cls E0 W0 (St (msrc M4) l pfx fs ([("alloc:" ++ cls, VPtr "" 0); ("alloc:filebuffer64", VPtr "buf." 0)] ++ PS1) 1%nat)
                 (St M4 l pfx fs PS1 1%nat).
Proof.
  intros cls l pfx fs Hcls Hp Hl Hfs. constructor; cbn [mem loc pre files ptrs fresh].
  - reflexivity.
  - reflexivity.
  - exact wf_W0.
  - now rewrite tau_W0.
  - left. exact Hp.
  - now rewrite lmap_W0.
  - exact Hl.
  - reflexivity.
  - exact Hfs.
  - intros k Hn HnE. rewrite tau_W0, mget_msrc. destruct (keepb k) eqn:Ek; [reflexivity|].
    destruct (mget M4 k) as [o|] eqn:Eo; [|reflexivity]. exfalso.
    unfold keepb in Ek. destruct (nm_W0_cases k Hn) as [Hb|[r ->]].
    + rewrite Hb in Ek. cbn [andb] in Ek. apply negb_false_iff, inb_In in Ek. contradiction.
    + apply keys4_hash in Eo. subst r. discriminate Ek.
  - intros e [<-|[]]. rewrite mget_msrc. reflexivity.
  - intros k o H. rewrite mget_msrc in H. destruct (keepb k) eqn:Ek; [|discriminate H]. unfold keepb in Ek. apply andb_prop in Ek. apply nmb_nm, Ek.
  - intros n y Hn. destruct (mget M4 (hobj n ++ y)) as [o|] eqn:Eo; [|reflexivity]. exfalso.
    rewrite hobj_app in Eo. apply keys4_hash in Eo. apply (heap_not_hobj 0 n y). rewrite hobj_app. unfold heap_name. f_equal. symmetry. exact Eo.
  - intros k Hn. rewrite tau_W0.
    assert (E1 : lget ([("alloc:" ++ cls, VPtr "" 0); ("alloc:filebuffer64", VPtr "buf." 0)] ++ PS1) k = lget PS1 k).
    { cbn [app lget]. destruct (String.eqb_spec k ("alloc:" ++ cls)) as [->|_]; [exfalso; eapply nm_not_alloc; [exact Hn|reflexivity]|].
      destruct (String.eqb_spec k "alloc:filebuffer64") as [->|_]; [exfalso; eapply (nm_not_alloc W0 _ "filebuffer64"); [exact Hn|reflexivity]|]. reflexivity. }
    rewrite E1. destruct (lget PS1 k) as [v|]; [cbn [option_map]; now rewrite rv_W0|reflexivity].
  - intros r [[Ha _]|[[Hb _]|(n & -> & (Hn & _))]]; [exfalso; apply Ha; reflexivity|exfalso; apply Hb; reflexivity|].
    cbn [wf W0] in Hn. assert (n = 0%nat) by lia. subst n. reflexivity.
  - intros k v H. apply lget_In in H. cbn [app In PS1] in H.
    repeat (destruct H as [H|H]; [injection H as <- <-|]); try (left; split; [left; reflexivity|]; cbn [gv]; try exact I; left; reflexivity).
    + right. right. left. auto.
    + right. right. right. auto.
    + left. split; [left; reflexivity|]. cbn [gv]. right. right. left. exists 0%nat. reflexivity.
    + destruct H.
  - intro c0. reflexivity.
  - intros n y Hn. rewrite hobj_app. split; reflexivity.
  - intro Ha. exfalso. apply Ha. reflexivity.
  - intro Hb. exfalso. apply Hb. reflexivity.
Qed.
End Keys.

(* ---------------- hmac::cmphmac in the whole-file run ---------------- *)
Section AnyClassW.
Variable cls : string.
Variable a : halg.
Variable objs : list (string * ity * Z).
Variable globs : memory.
Variable F : nat.
Variable hm : N.
Variable hbuf : nat.
Hypothesis C : hctx cls a objs globs (file_vt hm) F (Z.of_N hm) hbuf "rc.hmachandle.".
Hypothesis Hgh : get_hasher hm = Some a.
Hypothesis HF : (F + 26 <= 2000)%nat.
Hypothesis Hfive : forall name t n, In (name, t, n) objs -> In name RefineFileHmac3.five.
Hypothesis Hcls : In cls hashcls.
Hypothesis Hvt : file_vt hm = vt0 cls.
Hypothesis Hgl : forall c T Fl key mn, globals_ok globs (msrc (Mem4 c hbuf T Fl key mn)).

Definition pssrc : list (string * value) := [("alloc:" ++ cls, VPtr "" 0); ("alloc:filebuffer64", VPtr "buf." 0)] ++ PS1.

Lemma cls_ne_fb : cls <> "filebuffer64".
Proof. intro E. subst cls. cbn in Hcls. intuition discriminate. Qed.

Lemma gpre_W : forall c T Fl key mn fo, block16 key -> bytesb Fl = true ->
  gpre cls objs globs hbuf "rc.hmachandle." "fin" (msrc (Mem4 c hbuf T Fl key mn)) pssrc (FS (map Z.of_N Fl) 48%nat false fo) "key" key
       {| cf_data := map Z.of_N Fl; cf_pos := 48; cf_eof := false |} (skipn 48 Fl).
Proof.
  intros c T Fl key mn fo [Hk16 Hkb] HFb.
  constructor.
  - unfold pssrc. cbn [app lget]. rewrite String.eqb_refl. reflexivity.
  - unfold pssrc. cbn [app lget]. destruct (String.eqb_spec "alloc:filebuffer64" ("alloc:" ++ cls)) as [E|_].
    + exfalso. change "alloc:filebuffer64" with ("alloc:" ++ "filebuffer64") in E. apply append_inj_l in E. apply cls_ne_fb. auto.
    + reflexivity.
  - intros k Hk Hne. rewrite mget_msrc. destruct (keepb k) eqn:Ek; [|reflexivity].
    destruct (mget (Mem4 c hbuf T Fl key mn) k) as [o|] eqn:Eo; [|reflexivity]. exfalso.
    pose proof (keys4_all c hbuf T Fl key mn (fun k => negb (is_prefix "sizeof:" k) || String.eqb k "sizeof:filebuffer64.b" || String.eqb k "sizeof:iobuffer.b") _ _ eq_refl Eo) as X.
    cbn beta in X. rewrite Hk in X. cbn [negb orb] in X. apply orb_prop in X. destruct X as [X|X]; apply String.eqb_eq in X; [contradiction|].
    subst k. discriminate Ek.
  - reflexivity.
  - reflexivity.
  - reflexivity.
  - reflexivity.
  - apply Hgl.
  - intros name t n Hin. apply Hfive in Hin. cbn [RefineFileHmac3.five In] in Hin.
    repeat (destruct Hin as [<-|Hin]; [reflexivity|]). destruct Hin.
  - intros k Hk. rewrite mget_msrc. destruct (keepb k); [|reflexivity].
    destruct (mget (Mem4 c hbuf T Fl key mn) k) as [o|] eqn:Eo; [|reflexivity]. exfalso.
    pose proof (keys4_all c hbuf T Fl key mn (fun k => negb (is_prefix "buf." k)) _ _ eq_refl Eo) as X. cbn beta in X. rewrite Hk in X. discriminate.
  - eexists. reflexivity.
  - reflexivity.
  - lia.
  - exact Hkb.
  - reflexivity.
  - discriminate.
  - reflexivity.
  - cbn [cf_pos cf_data]. apply skipn_map.
  - apply bytesb_skipn, HFb.
Qed.

Lemma cmp_W : forall c T Fl key fsize fo, block16 key -> bytesb Fl = true -> (74 <= List.length Fl)%nat -> nth 9 Fl 0%N = hm ->
  forall fuel mn l0, (2800 + List.length Fl / 64 <= fuel)%nat ->
  exists tag s', hmac_model hbuf hm key (skipn 48 Fl) = Some tag /\
    call whole_prog [] fuel "hmac::cmphmac/5" "rc.hmachandle." [VInt (Z.of_N hm); VPtr "key" 0; VPtr "fin" 0; VPtr "rc.header.hash" 0; VInt fsize]
      (St (Mem4 c hbuf T Fl key mn) l0 "rc." (FS (map Z.of_N Fl) 48%nat false fo) PS1 1%nat) =
    Ok (Some (VInt (if cmphmac tag (firstn 64 (skipn 10 Fl)) then 1 else 0)), s').
Proof.
  intros c T Fl key fsize fo Hk HFb H74 Hhm fuel mn l0 Hfuel.
  destruct (loop_total_g hbuf hm a key (skipn 48 Fl) (hc_h1 _ _ _ _ _ _ _ _ _ C) Hgh Hk) as (st' & Hfl & Hmodel).
  exists (tag_of a key st').
  assert (Hdiv : (List.length (skipn 48 Fl) / 64 <= List.length Fl / 64)%nat).
  { apply Nat.div_le_mono; [lia|]. rewrite skipn_length. lia. }
  destruct (cmphmac_refines cls a objs globs (file_vt hm) F (Z.of_N hm) hbuf "rc.hmachandle." C "fin" fuel
              (msrc (Mem4 c hbuf T Fl key mn)) [] "rc." (FS (map Z.of_N Fl) 48%nat false fo) pssrc 1%nat "key" key fsize
              {| cf_data := map Z.of_N Fl; cf_pos := 48; cf_eof := false |} (skipn 48 Fl)
              (List.length (skipn 48 Fl) / 64 + 3)%nat st' "rc.header.hash" (firstn 64 (skipn 10 Fl)))
    as (s' & Ec & _).
  - lia.
  - apply gpre_W; assumption.
  - exact Hfl.
  - reflexivity.
  - rewrite firstn_length, skipn_length. pose proof (hc_hlen _ _ _ _ _ _ _ _ _ C). lia.
  - apply bytesb_firstn, bytesb_skipn, HFb.
  - reflexivity.
  - discriminate.
  - rewrite Hvt in Ec.
    assert (R : Rel cls E0 W0 (St (msrc (Mem4 c hbuf T Fl key mn)) [] "rc." (FS (map Z.of_N Fl) 48%nat false fo) pssrc 1%nat)
                              (St (Mem4 c hbuf T Fl key mn) [] "rc." (FS (map Z.of_N Fl) 48%nat false fo) PS1 1%nat)).
    { apply rel0; [exact Hcls|reflexivity|constructor|].
      intros k f H. cbn [lget] in H. destruct (String.eqb_spec k "fin") as [->|_]; [reflexivity|].
      destruct (String.eqb_spec k "fout") as [->|_]; [reflexivity|discriminate]. }
    assert (Hg : In "hmac::cmphmac/5" OKL0).
    { unfold OKL0. apply in_or_app. right. apply in_or_app. right. apply in_or_app. right. right. left. reflexivity. }
    assert (Hp : preok W0 "rc.hmachandle.") by (left; reflexivity).
    assert (Hpu : "rc.hmachandle." = "" -> inb "hmac::cmphmac/5" UL0 = true) by discriminate.
    assert (Gvs : Forall (gv W0) [VInt (Z.of_N hm); VPtr "key" 0; VPtr "fin" 0; VPtr "rc.header.hash" 0; VInt fsize]).
    { repeat constructor; cbn [gv]; left; reflexivity. }
    destruct (call_sim file_prog whole_prog cls E0 OKL0 UL0 HE0 Hcls HOK0 fuel "hmac::cmphmac/5" "rc.hmachandle."
                _ _ _ W0 _ s' Hg Hp Hpu Gvs R Ec) as (W' & S' & _ & EcW).
    rewrite tau_W0 in EcW. cbn [map rv] in EcW. rewrite !tau_W0 in EcW. cbn [option_map rv] in EcW.
    exists {| mem := mem S'; loc := l0; pre := "rc."; files := files S'; ptrs := ptrs S'; fresh := fresh S' |}. split; [exact Hmodel|].
    apply (call_caller_indep whole_prog [] fuel "hmac::cmphmac/5" "rc.hmachandle." _ _ l0 "rc." _ _ EcW).
Qed.
End AnyClassW.
