(* Entry point for the translated option front end (valget/getopts.cpp get_v_opt / parseOpts / parseModeNumber / getArgsKey,
   information.cpp check_ctype / check_htype, getval1.cpp getRandomKey; Gen/Src_cli.v) and the translated base64 routines it
   calls.  The environment the C library supplies is explicit: what getopt_long delivers (option code + argument text) and
   what each fopen answers. *)
From Coq Require Import ZArith NArith List String Bool.
From Wencry Require Import Bytes MiniC MiniCRun SrcRun.
From Wencry.Gen Require Src_cli Src_base64.
Import ListNotations.
Local Open Scope Z_scope.
Local Open Scope string_scope.
Local Open Scope list_scope.

Definition cli_prog : program := Src_cli.functions ++ Src_base64.functions.

(* one delivered option: getopt_long's return value and optarg (None for options without argument) *)
Definition opt := (Z * option (list N))%type.
Definition opt_record (o : opt) : list Z :=
  match o with
  | (code, None) => [code; 0]
  | (code, Some arg) => [code; Z.of_nat (List.length arg) + 1] ++ map Z.of_N arg
  end.

Record cpak := { c_mode : Z; c_ctype : Z; c_htype : Z; c_fp : bool; c_out : bool; c_key : option (list N); c_no_echo : bool }.

Definition cli_state (opts : list opt) (fopens : list bool) : state :=
  {| mem := Src_base64.globals ++
            [("fout", mk_object U8 128); ("fout_too_long", mk_object TBool 1); ("optind", {| o_ty := I32; o_cells := [1] |})];
     loc := []; pre := "";
     files := [("@getopt", {| cf_data := flat_map opt_record opts; cf_pos := 0; cf_eof := false |});
               ("@fopen", {| cf_data := map (fun b : bool => if b then 1 else 0) fopens; cf_pos := 0; cf_eof := false |})];
     ptrs := [("optarg", VNull)]; fresh := 0 |}.

Definition signed8 (z : Z) : Z := if Z.leb 128 z then (z - 256)%Z else z.
Definition ptr_nonnull (s : state) (k : string) : bool :=
  match lget (ptrs s) k with Some (VPtr _ _) => true | _ => false end.

(* get_v_opt(argc, argv): None = returned NULL (after a diagnostic); Some = the parameter pack *)
Definition src_get_v_opt (opts : list opt) (fopens : list bool) : sres (option cpak) :=
  of_res (call cli_prog [] (2000 + 40 * List.length opts) "get_v_opt/2" "" [VInt 0; VNull] (cli_state opts fopens))
    (fun r =>
       match fst r with
       | Some VNull => SOk None
       | Some (VPtr res 0) =>
           let s := snd r in
           match mget (mem s) res with
           | Some o =>
               let cell i := nth i (o_cells o) 0 in
               let key := match lget (ptrs s) (ptr_key res 16) with
                          | Some (VPtr ko _) => get_bytes s ko
                          | _ => None
                          end in
               SOk (Some {| c_mode := cell 288%nat; c_ctype := signed8 (cell 289%nat); c_htype := signed8 (cell 290%nat);
                            c_fp := ptr_nonnull s (ptr_key res 0); c_out := ptr_nonnull s (ptr_key res 8);
                            c_key := key; c_no_echo := negb (Z.eqb (cell 291%nat) 0) |})
           | None => SErr "no parameter pack"
           end
       | _ => SErr "no result"
       end).
