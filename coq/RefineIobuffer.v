(* Refinement of the chunk buffer: iobuffer::load_buffer / iobuffer::export_buffer as translated from
   kernel/multi_aes/multi_buffergroup.cpp (Gen/Src_iobuffer.v), run by SrcRun.src_loads / src_export_on,
   against FileModel.loads_of / export. *)
From Coq Require Import ZArith NArith List String Bool Lia ZifyNat.
From Wencry Require Import Bytes FileModel MiniC MiniCLemmas MiniCRun SrcRun.
From Wencry.Gen Require Import Src_iobuffer.
Import ListNotations.
Local Open Scope string_scope.
Local Open Scope list_scope.
Local Open Scope Z_scope.

(* ---------------- the shape of the states the entry points build ---------------- *)
Definition cellobj (t : ity) (v : Z) : object := {| o_ty := t; o_cells := [v] |}.
Definition iob_mem (c : nat) (bc : list Z) (tot now tl fl : Z) : memory :=
  [("sum", cellobj U32 (16 * Z.of_nat c)); ("b", {| o_ty := U8; o_cells := bc |}); ("total", cellobj U32 tot);
   ("now", cellobj U32 now); ("tail", cellobj U32 tl); ("isfinal", cellobj TBool fl)].
Definition iob_st (c : nat) (bc : list Z) (tot now tl fl : Z) (fin fout : cfile) : state :=
  {| mem := iob_mem c bc tot now tl fl; loc := []; pre := ""; files := [("fin", fin); ("fout", fout)]; ptrs := []; fresh := 0 |}.

Lemma iob_state_eq : forall c input,
  iob_state c input = iob_st c (repeat 0 (Z.to_nat (16 * Z.of_nat c))) 0 0 0 0
     {| cf_data := map Z.of_N input; cf_pos := 0; cf_eof := false |} {| cf_data := []; cf_pos := 0; cf_eof := false |}.
Proof. reflexivity. Qed.

(* ---------------- objects ---------------- *)
Lemma load_cell : forall t v, load_obj (cellobj t v) t 0 = Ok (wrap t v).
Proof. intros t v. destruct t; reflexivity. Qed.
Lemma store_cell : forall t v z, store_obj (cellobj t v) t 0 z = Ok (cellobj t (wrap t z)).
Proof. intros t v z. destruct t; reflexivity. Qed.
Lemma load_byte : forall cells off, 0 <= off < Z.of_nat (List.length cells) ->
  load_obj {| o_ty := U8; o_cells := cells |} U8 off = Ok (wrap U8 (nth (Z.to_nat off) cells 0)).
Proof.
  intros cells off H. unfold load_obj. cbn [o_ty o_cells]. change (ity_bytes U8) with 1.
  destruct (off <? 0) eqn:E; [apply Z.ltb_lt in E; lia|]. change (1 =? 1) with true. cbv iota.
  rewrite Z.mod_1_r, Z.div_1_r. change (0 =? 0) with true. cbv iota.
  destruct (off <? Z.of_nat (List.length cells)) eqn:E2; [reflexivity|apply Z.ltb_ge in E2; lia].
Qed.

(* ---------------- primitives ---------------- *)
Lemma firstn_min_avail : forall (d : list Z) p n, 0 <= n ->
  firstn (Z.to_nat (Z.min n (Z.of_nat (List.length d) - Z.of_nat p))) (skipn p d) = firstn (Z.to_nat n) (skipn p d).
Proof.
  intros d p n Hn. destruct (Z.le_ge_cases n (Z.of_nat (List.length d) - Z.of_nat p)) as [H|H].
  - now rewrite Z.min_l.
  - rewrite Z.min_r by lia. rewrite !firstn_all2; auto; rewrite skipn_length; lia.
Qed.

Lemma prim_fread : forall s od n fname f cells,
  lget (files s) fname = Some f -> mget (mem s) od = Some {| o_ty := U8; o_cells := cells |} -> 0 <= n ->
  forall got, got = firstn (Z.to_nat n) (skipn (cf_pos f) (cf_data f)) ->
  (List.length got <= List.length cells)%nat ->
  do_prim s "fread" [VPtr od 0; VInt 1; VInt n; VPtr fname 0] =
  Ok (Some (VInt (Z.of_nat (List.length got))),
      with_files (with_mem s (mset (mem s) od {| o_ty := U8; o_cells := upd_range 0 got cells |}))
                 (lset (files s) fname {| cf_data := cf_data f; cf_pos := cf_pos f + List.length got;
                                          cf_eof := cf_eof f || (Z.of_nat (List.length got) <? n) |})).
Proof.
  intros s od n fname f cells Hf Hm Hn got Hgot Hlen.
  unfold do_prim. cbn [String.eqb Ascii.eqb Bool.eqb stream_of bind]. rewrite Hf, Hm.
  cbn [o_ty o_cells]. change (ity_bytes U8 =? 1) with true. cbn [negb].
  destruct (n <? 0) eqn:E; [apply Z.ltb_lt in E; lia|]. change (0 <? 0) with false. cbn [orb].
  rewrite firstn_min_avail by lia. rewrite <- Hgot.
  destruct (Z.of_nat (List.length cells) <? 0 + Z.of_nat (List.length got)) eqn:E2; [apply Z.ltb_lt in E2; lia|].
  reflexivity.
Qed.

Lemma prim_feof : forall s fname f, lget (files s) fname = Some f ->
  do_prim s "feof" [VPtr fname 0] = Ok (Some (VInt (if cf_eof f then 1 else 0)), s).
Proof. intros s fname f Hf. unfold do_prim. cbn [String.eqb Ascii.eqb Bool.eqb stream_of bind]. now rewrite Hf. Qed.

Lemma prim_fgetc_some : forall s fname f b, lget (files s) fname = Some f -> nth_error (cf_data f) (cf_pos f) = Some b ->
  do_prim s "fgetc" [VPtr fname 0] =
  Ok (Some (VInt b), with_files s (lset (files s) fname {| cf_data := cf_data f; cf_pos := S (cf_pos f); cf_eof := cf_eof f |})).
Proof. intros s fname f b Hf Hb. unfold do_prim. cbn [String.eqb Ascii.eqb Bool.eqb stream_of bind]. now rewrite Hf, Hb. Qed.
Lemma prim_fgetc_none : forall s fname f, lget (files s) fname = Some f -> nth_error (cf_data f) (cf_pos f) = None ->
  do_prim s "fgetc" [VPtr fname 0] =
  Ok (Some (VInt (-1)), with_files s (lset (files s) fname {| cf_data := cf_data f; cf_pos := cf_pos f; cf_eof := true |})).
Proof. intros s fname f Hf Hb. unfold do_prim. cbn [String.eqb Ascii.eqb Bool.eqb stream_of bind]. now rewrite Hf, Hb. Qed.
Lemma prim_ungetc : forall s fname f p b, lget (files s) fname = Some f -> cf_pos f = S p -> nth_error (cf_data f) p = Some b ->
  do_prim s "ungetc" [VInt b; VPtr fname 0] =
  Ok (Some (VInt b), with_files s (lset (files s) fname {| cf_data := cf_data f; cf_pos := p; cf_eof := false |})).
Proof.
  intros s fname f p b Hf Hp Hb. unfold do_prim. cbn [String.eqb Ascii.eqb Bool.eqb stream_of bind].
  rewrite Hf, Hp, Hb. now rewrite Z.eqb_refl.
Qed.

(* fwrite of n bytes from the start of a byte object to a stream that is at its end *)
Lemma prim_fwrite : forall s os n fname f cells,
  lget (files s) fname = Some f -> mget (mem s) os = Some {| o_ty := U8; o_cells := cells |} ->
  0 <= n <= Z.of_nat (List.length cells) -> cf_pos f = List.length (cf_data f) ->
  do_prim s "fwrite" [VPtr os 0; VInt 1; VInt n; VPtr fname 0] =
  Ok (Some (VInt n), with_files s (lset (files s) fname
        {| cf_data := cf_data f ++ firstn (Z.to_nat n) cells; cf_pos := cf_pos f + List.length (firstn (Z.to_nat n) cells); cf_eof := cf_eof f |})).
Proof.
  intros s os n fname f cells Hf Hm Hn Hp.
  unfold do_prim. cbn [String.eqb Ascii.eqb Bool.eqb stream_of bind]. rewrite Hf, Hm.
  cbn [o_ty o_cells]. change (ity_bytes U8) with 1.
  destruct (n <? 0) eqn:E; [apply Z.ltb_lt in E; lia|]. change (0 <? 0) with false.
  rewrite !Z.mod_1_r, !Z.div_1_r. change (0 =? 0) with true. change (1 =? 1) with true. cbn [orb negb].
  destruct (Z.of_nat (List.length cells) <? 0 + n) eqn:E2; [apply Z.ltb_lt in E2; lia|].
  rewrite Hp, Nat.eqb_refl. change (Z.to_nat 0) with O. cbn [skipn]. reflexivity.
Qed.

Lemma memset_bytes : forall s od off v n cells,
  mget (mem s) od = Some {| o_ty := U8; o_cells := cells |} -> 0 <= off -> 0 <= n -> off + n <= Z.of_nat (List.length cells) ->
  do_memset s (VPtr od off) v n =
  Ok (with_mem s (mset (mem s) od {| o_ty := U8; o_cells := upd_range (Z.to_nat off) (repeat (v mod 256) (Z.to_nat n)) cells |})).
Proof.
  intros s od off v n cells Hm Ho Hn Hb. unfold do_memset. rewrite Hm. cbn [o_ty o_cells]. change (ity_bytes U8) with 1.
  rewrite !Z.mod_1_r, !Z.div_1_r. change (0 =? 0) with true. change (1 =? 1) with true. cbn [negb orb].
  destruct (n <? 0) eqn:E; [apply Z.ltb_lt in E; lia|]. destruct (off <? 0) eqn:E1; [apply Z.ltb_lt in E1; lia|]. cbn [orb].
  destruct (Z.of_nat (List.length cells) <? off + n) eqn:E2; [apply Z.ltb_lt in E2; lia|]. reflexivity.
Qed.

(* ---------------- arithmetic ---------------- *)
Lemma land15 : forall x, 0 <= x -> Z.land x 15 = x mod 16.
Proof. intros x H. change 15 with (Z.ones 4). rewrite Z.land_ones by lia. reflexivity. Qed.
Lemma shiftr4 : forall x, Z.shiftr x 4 = x / 16.
Proof. intros x. rewrite Z.shiftr_div_pow2 by lia. reflexivity. Qed.
Lemma shiftl4 : forall x, Z.shiftl x 4 = x * 16.
Proof. intros x. rewrite Z.shiftl_mul_pow2 by lia. reflexivity. Qed.

(* ---------------- symbolic execution ---------------- *)
Ltac step := cbn [eval eval_list bind as_int lget lset mget mset String.eqb Ascii.eqb Bool.eqb String.append
   loc mem pre files ptrs fresh with_loc with_mem with_files stream_of set_ret bind_params f_params f_body
   functions f_iobuffer_load_buffer_2 f_iobuffer_export_buffer_2 iob_st iob_mem fst snd cf_data cf_pos cf_eof orb andb negb].
Ltac is_lit a := lazymatch a with Z0 => idtac | Zpos _ => idtac | Zneg _ => idtac end.
Ltac zeval1 := match goal with
  | |- context [Z.eqb ?a ?b] => is_lit a; is_lit b; let v := eval vm_compute in (Z.eqb a b) in change (Z.eqb a b) with v
  | |- context [Z.ltb ?a ?b] => is_lit a; is_lit b; let v := eval vm_compute in (Z.ltb a b) in change (Z.ltb a b) with v
  | |- context [Z.leb ?a ?b] => is_lit a; is_lit b; let v := eval vm_compute in (Z.leb a b) in change (Z.leb a b) with v
  | |- context [wrap ?t ?a] => is_lit a; let v := eval vm_compute in (wrap t a) in change (wrap t a) with v
  | |- context [Z.opp ?a] => is_lit a; let v := eval vm_compute in (Z.opp a) in change (Z.opp a) with v
  end.
Ltac simp := step; repeat (zeval1; step).
Ltac norm := unfold with_loc, with_mem, with_files; cbn [mem loc pre files ptrs fresh].
Ltac seq1 := match goal with |- context [exec ?p ?v (S ?f) (SSeq ?a ?b) ?s] =>
   rewrite (exec_seq p v f a b s); let K := fresh "K" in remember (exec p v f b) as K end.
Ltac xstep := cbn [exec]; simp.
Ltac ifstep := match goal with |- context [exec ?p ?v (S ?f) (SIf ?c ?a ?b) ?s] => rewrite (exec_if p v f c a b s) end; simp.
Ltac next := simp; match goal with HK : ?K = exec _ _ _ _ |- _ => subst K end; norm.

Section Load.
Variables (c : nat) (bc : list Z) (tot now tl fl : Z) (data : list Z) (p : nat) (fout : cfile) (got : list Z).
Hypothesis Hc : (1 <= c)%nat.
Hypothesis Hr : 16 * Z.of_nat c < 2 ^ 32.
Hypothesis Hbc : List.length bc = (16 * c)%nat.
Hypothesis Hgot : got = firstn (Z.to_nat (16 * Z.of_nat c)) (skipn p data).

Let s0 := iob_st c bc tot now tl fl {| cf_data := data; cf_pos := p; cf_eof := false |} fout.

Lemma got_le : Z.of_nat (List.length got) <= 16 * Z.of_nat c.
Proof. rewrite Hgot, firstn_length. lia. Qed.

Ltac prefix Hk :=
  unfold call, s0; step;
  seq1; xstep; rewrite load_cell; step;
  rewrite (wrap_U32_small (16 * Z.of_nat c)) by lia; rewrite (wrap_U64_small (16 * Z.of_nat c)) by lia; simp;
  (erewrite prim_fread; [ | reflexivity | reflexivity | lia | cbn [cf_data cf_pos]; exact Hgot | pose proof got_le; lia ]);
  next;
  seq1; xstep; rewrite (wrap_U32_small (Z.of_nat (List.length got))) by (pose proof got_le; lia); next;
  seq1; xstep; erewrite prim_feof by reflexivity; next;
  seq1; xstep; rewrite Hk; simp; next.

Lemma tail_val : forall k, 0 <= k < 2 ^ 32 -> wrap U32 (wrap U32 (Z.land k 15)) = k mod 16.
Proof. intros k H. rewrite land15 by lia. pose proof (Z.mod_pos_bound k 16). rewrite !(wrap_U32_small (k mod 16)) by lia. reflexivity. Qed.
Lemma total_val : forall k, 0 <= k < 2 ^ 32 -> wrap U32 (Z.shiftr k 4) = k / 16.
Proof. intros k H. rewrite shiftr4. apply wrap_U32_small. split; [apply Z.div_pos; lia|]. apply Z.div_lt_upper_bound; lia. Qed.

Ltac stores :=
  seq1; xstep; cbn [eval_bin]; simp; rewrite store_cell; rewrite tail_val by (pose proof got_le; lia); next;
  seq1; xstep; cbn [eval_bin ity_bits]; simp; rewrite store_cell; rewrite total_val by (pose proof got_le; lia); next;
  seq1; xstep; rewrite store_cell; simp; next.

Lemma load_enc_full : Z.of_nat (List.length got) = 16 * Z.of_nat c ->
  call functions [] 100 "iobuffer::load_buffer/2" "" [VPtr "fin" 0; VInt 1] s0 =
  Ok (Some (VInt 0), iob_st c (upd_range 0 got bc) (Z.of_nat (List.length got) / 16) 0 (Z.of_nat (List.length got) mod 16) fl
                        {| cf_data := data; cf_pos := p + List.length got; cf_eof := false |} fout).
Proof.
  intros Hk. assert (Hlt : (Z.of_nat (List.length got) <? 16 * Z.of_nat c) = false) by (apply Z.ltb_ge; lia).
  assert (Heq : (Z.of_nat (List.length got) =? 16 * Z.of_nat c) = true) by (apply Z.eqb_eq; lia).
  assert (H0 : (Z.of_nat (List.length got) =? 0) = false) by (apply Z.eqb_neq; lia).
  prefix Hlt.
  seq1. ifstep. cbn [eval_un]. simp. xstep. next.
  stores.
  seq1. ifstep. rewrite load_cell. simp. rewrite (wrap_U32_small (16 * Z.of_nat c)) by lia. cbn [eval_bin]. rewrite Heq. simp. xstep. next.
  seq1. ifstep. cbn [eval_un]. simp. xstep. next.
  xstep. cbn [eval_bin]. simp. rewrite H0. simp. reflexivity.
Qed.

Lemma pad_val : forall k, 0 <= k -> wrap U8 ((16 - wrap U32 (k mod 16)) mod 2 ^ 32) = 16 - k mod 16.
Proof.
  intros k H. pose proof (Z.mod_pos_bound k 16 ltac:(lia)). rewrite (wrap_U32_small (k mod 16)) by lia.
  rewrite (Z.mod_small (16 - k mod 16)) by lia. apply wrap_U8_small. lia.
Qed.

Lemma load_enc_final : Z.of_nat (List.length got) < 16 * Z.of_nat c ->
  call functions [] 100 "iobuffer::load_buffer/2" "" [VPtr "fin" 0; VInt 1] s0 =
  Ok (Some (VInt 1),
      iob_st c (upd_range (List.length got) (repeat ((16 - Z.of_nat (List.length got) mod 16) mod 256) (Z.to_nat (16 - Z.of_nat (List.length got) mod 16)))
                   (upd_range 0 got bc))
             (Z.of_nat (List.length got) / 16 + 1) 0 (Z.of_nat (List.length got) mod 16) 1
             {| cf_data := data; cf_pos := p + List.length got; cf_eof := true |} fout).
Proof.
  intros Hk. assert (Hlt : (Z.of_nat (List.length got) <? 16 * Z.of_nat c) = true) by (apply Z.ltb_lt; lia).
  assert (Heq : (Z.of_nat (List.length got) =? 16 * Z.of_nat c) = false) by (apply Z.eqb_neq; lia).
  pose proof (Z.mod_pos_bound (Z.of_nat (List.length got)) 16 ltac:(lia)) as Hm.
  assert (Hd : 0 <= Z.of_nat (List.length got) / 16 < Z.of_nat c).
  { split; [apply Z.div_pos; lia|]. apply Z.div_lt_upper_bound; lia. }
  prefix Hlt.
  seq1. ifstep. cbn [eval_un]. simp. xstep. next.
  stores.
  seq1. ifstep. rewrite load_cell. simp. rewrite (wrap_U32_small (16 * Z.of_nat c)) by lia. cbn [eval_bin]. rewrite Heq. simp.
  seq1. xstep. rewrite load_cell. simp. cbn [eval_bin]. rewrite arith_U32. simp. rewrite pad_val by lia. next.
  seq1. xstep. rewrite load_cell. simp. rewrite (wrap_U32_small (_ / 16)) by lia. next.
  seq1. xstep. rewrite load_cell. simp. rewrite (wrap_U32_small (_ / 16)) by lia. cbn [eval_bin]. rewrite arith_U32. simp.
    rewrite store_cell. rewrite (Z.mod_small (_ / 16 + 1)) by lia. rewrite (wrap_U32_small (_ / 16 + 1)) by lia. next.
  seq1. xstep. rewrite load_cell. simp. rewrite (wrap_U32_small (_ mod 16)) by lia.
    rewrite (wrap_I32_small (16 - _ mod 16)) by lia. rewrite (wrap_U64_small (16 - _ mod 16)) by lia.
    replace (0 + Z.of_nat (List.length got) / 16 * 16 + Z.of_nat (List.length got) mod 16 * 1) with (Z.of_nat (List.length got))
      by (pose proof (Z.div_mod (Z.of_nat (List.length got)) 16 ltac:(lia)); lia).
    erewrite memset_bytes; [ | reflexivity | lia | lia | rewrite upd_range_length; pose proof (Z.div_mod (Z.of_nat (List.length got)) 16 ltac:(lia)); lia ].
    rewrite Nat2Z.id. next.
  seq1. xstep. rewrite store_cell. simp. next.
  xstep. reflexivity.
Qed.

Lemma load_dec_more : forall b, Z.of_nat (List.length got) = 16 * Z.of_nat c ->
  nth_error data (p + List.length got) = Some b -> 0 <= b ->
  call functions [] 100 "iobuffer::load_buffer/2" "" [VPtr "fin" 0; VInt 0] s0 = 
  Ok (Some (VInt 0), iob_st c (upd_range 0 got bc) (Z.of_nat (List.length got) / 16) 0 (Z.of_nat (List.length got) mod 16) fl
                        {| cf_data := data; cf_pos := p + List.length got; cf_eof := false |} fout).
Proof.
  intros b Hk Hnth Hb. assert (Hlt : (Z.of_nat (List.length got) <? 16 * Z.of_nat c) = false) by (apply Z.ltb_ge; lia).
  assert (Heq : (Z.of_nat (List.length got) =? 16 * Z.of_nat c) = true) by (apply Z.eqb_eq; lia).
  assert (H0 : (Z.of_nat (List.length got) =? 0) = false) by (apply Z.eqb_neq; lia).
  assert (Hb1 : (b =? -1) = false) by (apply Z.eqb_neq; lia).
  prefix Hlt.
  seq1. ifstep. cbn [eval_un]. simp. rewrite load_cell. simp. rewrite (wrap_U32_small (16 * Z.of_nat c)) by lia. cbn [eval_bin]. rewrite Heq. simp.
    seq1. xstep. erewrite prim_fgetc_some; [ | reflexivity | cbn [cf_data cf_pos]; exact Hnth ]. next.
    seq1. xstep. next.
    ifstep. cbn [eval_un]. rewrite arith_I32_small by lia. simp. cbn [eval_bin]. rewrite Hb1. simp.
    xstep. erewrite prim_ungetc; [ | reflexivity | reflexivity | cbn [cf_data]; exact Hnth ]. next.
  stores.
  seq1. ifstep. xstep. next.
  seq1. ifstep. cbn [eval_un]. simp. xstep. next.
  xstep. cbn [eval_bin]. simp. rewrite H0. simp. reflexivity.
Qed.

Lemma load_dec_end : Z.of_nat (List.length got) = 16 * Z.of_nat c ->
  nth_error data (p + List.length got) = None ->
  call functions [] 100 "iobuffer::load_buffer/2" "" [VPtr "fin" 0; VInt 0] s0 = 
  Ok (Some (VInt 1), iob_st c (upd_range 0 got bc) (Z.of_nat (List.length got) / 16) 0 (Z.of_nat (List.length got) mod 16) 1
                        {| cf_data := data; cf_pos := p + List.length got; cf_eof := true |} fout).
Proof.
  intros Hk Hnth. assert (Hlt : (Z.of_nat (List.length got) <? 16 * Z.of_nat c) = false) by (apply Z.ltb_ge; lia).
  assert (Heq : (Z.of_nat (List.length got) =? 16 * Z.of_nat c) = true) by (apply Z.eqb_eq; lia).
  assert (H0 : (Z.of_nat (List.length got) / 16 =? 0) = false).
  { apply Z.eqb_neq. rewrite Hk. replace (16 * Z.of_nat c) with (Z.of_nat c * 16) by lia. rewrite Z.div_mul; lia. }
  prefix Hlt.
  seq1. ifstep. cbn [eval_un]. simp. rewrite load_cell. simp. rewrite (wrap_U32_small (16 * Z.of_nat c)) by lia. cbn [eval_bin]. rewrite Heq. simp.
    seq1. xstep. erewrite prim_fgetc_none; [ | reflexivity | cbn [cf_data cf_pos]; exact Hnth ]. next.
    seq1. xstep. next.
    ifstep. cbn [eval_un]. rewrite arith_I32_small by lia. simp. cbn [eval_bin]. simp.
    xstep. next.
  stores.
  seq1. ifstep. xstep. next.
  seq1. ifstep. cbn [eval_un]. simp.
    seq1. ifstep. rewrite load_cell. simp. cbn [eval_bin].
    rewrite (wrap_U32_small (_ / 16)) by (rewrite Hk; replace (16 * Z.of_nat c) with (Z.of_nat c * 16) by lia; rewrite Z.div_mul; lia).
    rewrite H0. simp. xstep. next.
    seq1. xstep. rewrite store_cell. simp. next.
    xstep. reflexivity.
Qed.

Lemma load_dec_short : Z.of_nat (List.length got) < 16 * Z.of_nat c ->
  call functions [] 100 "iobuffer::load_buffer/2" "" [VPtr "fin" 0; VInt 0] s0 = 
  Ok (Some (VInt (if Z.of_nat (List.length got) / 16 =? 0 then 2 else 1)),
      iob_st c (upd_range 0 got bc) (Z.of_nat (List.length got) / 16) 0 (Z.of_nat (List.length got) mod 16)
               (if Z.of_nat (List.length got) / 16 =? 0 then fl else 1)
               {| cf_data := data; cf_pos := p + List.length got; cf_eof := true |} fout).
Proof.
  intros Hk. assert (Hlt : (Z.of_nat (List.length got) <? 16 * Z.of_nat c) = true) by (apply Z.ltb_lt; lia).
  assert (Heq : (Z.of_nat (List.length got) =? 16 * Z.of_nat c) = false) by (apply Z.eqb_neq; lia).
  assert (Hd : 0 <= Z.of_nat (List.length got) / 16 < Z.of_nat c).
  { split; [apply Z.div_pos; lia|]. apply Z.div_lt_upper_bound; lia. }
  prefix Hlt.
  seq1. ifstep. cbn [eval_un]. simp. rewrite load_cell. simp. rewrite (wrap_U32_small (16 * Z.of_nat c)) by lia. cbn [eval_bin]. rewrite Heq. simp.
    xstep. next.
  stores.
  seq1. ifstep. xstep. next.
  seq1. ifstep. cbn [eval_un]. simp.
    seq1. ifstep. rewrite load_cell. simp. cbn [eval_bin].
    rewrite (wrap_U32_small (_ / 16)) by lia.
    destruct (Z.of_nat (List.length got) / 16 =? 0) eqn:H0; simp.
    + xstep. subst K K0. step. reflexivity.
    + xstep. next.
      seq1. xstep. rewrite store_cell. simp. next.
      xstep. reflexivity.
Qed.
End Load.

(* ---------------- export_buffer ---------------- *)
Section Export.
Variables (c : nat) (cells : list Z) (tot nowz tl : Z) (fin : cfile).
Hypothesis Hc : (1 <= c)%nat.
Hypothesis Hr : 16 * Z.of_nat c < 2 ^ 32.
Hypothesis Hcells : List.length cells = (16 * c)%nat.
Hypothesis Hnow : 0 <= nowz <= Z.of_nat c.

Let fout0 := {| cf_data := []; cf_pos := 0; cf_eof := false |}.
Definition wrote (n : Z) : cfile :=
  {| cf_data := [] ++ firstn (Z.to_nat n) cells; cf_pos := 0 + List.length (firstn (Z.to_nat n) cells); cf_eof := false |}.

Lemma export_nonfinal : forall padz,
  call functions [] 100 "iobuffer::export_buffer/2" "" [VPtr "fout" 0; VInt padz] (iob_st c cells tot nowz tl 0 fin fout0) =
  Ok (None, iob_st c cells tot nowz tl 0 fin (wrote (16 * Z.of_nat c))).
Proof.
  intros padz. unfold call, fout0. step.
  ifstep. rewrite load_cell. simp.
  xstep. rewrite load_cell. simp. rewrite (wrap_U32_small (16 * Z.of_nat c)) by lia. rewrite (wrap_U64_small (16 * Z.of_nat c)) by lia.
  erewrite prim_fwrite; [ | reflexivity | reflexivity | lia | reflexivity ].
  simp. norm. reflexivity.
Qed.
Lemma size_val : wrap U32 nowz = nowz /\ Z.shiftl nowz 4 mod 2 ^ 32 = 16 * nowz.
Proof. split; [apply wrap_U32_small; lia|]. rewrite shiftl4. rewrite Z.mod_small; lia. Qed.

(* the final fwrite, for any pad value *)
Definition out_len (pv : Z) : Z := if 16 * nowz <? pv then 0 else 16 * nowz - pv.
Lemma out_len_range : forall pv, 0 <= pv -> 0 <= out_len pv <= 16 * Z.of_nat c.
Proof. intros pv H. unfold out_len. destruct (16 * nowz <? pv) eqn:E; [lia|apply Z.ltb_ge in E; lia]. Qed.

Ltac last_write pv Hpv :=
  xstep; try rewrite (wrap_U32_small pv) by lia; cbn [eval_bin];
  let E := fresh "E" in
  unfold out_len; destruct (16 * nowz <? pv) eqn:E; simp;
  [ | apply Z.ltb_ge in E; rewrite arith_U32; simp; rewrite (Z.mod_small (16 * nowz - pv)) by lia;
      rewrite (wrap_U64_small (16 * nowz - pv)) by lia ];
  (erewrite prim_fwrite; [ | reflexivity | reflexivity | lia | reflexivity ]);
  simp; norm; reflexivity.

Lemma export_final_pad :
  call functions [] 100 "iobuffer::export_buffer/2" "" [VPtr "fout" 0; VInt 1] (iob_st c cells tot nowz tl 1 fin fout0) =
  Ok (None, iob_st c cells tot nowz tl 1 fin (wrote (out_len 0))).
Proof.
  destruct size_val as [Hw Hs].
  unfold call, fout0. step.
  ifstep. rewrite load_cell. simp.
  seq1. xstep. rewrite load_cell, Hw. simp. cbn [eval_bin ity_bits ity_signed]. simp. rewrite Hs. next.
  seq1. xstep. next.
  last_write 0 I.
Qed.

Lemma export_final_now0 : nowz = 0 ->
  call functions [] 100 "iobuffer::export_buffer/2" "" [VPtr "fout" 0; VInt 0] (iob_st c cells tot nowz tl 1 fin fout0) =
  Ok (None, iob_st c cells tot nowz tl 1 fin (wrote (out_len 0))).
Proof.
  intros H0. destruct size_val as [Hw Hs].
  unfold call, fout0. step.
  ifstep. rewrite load_cell. simp.
  seq1. xstep. rewrite load_cell, Hw. simp. cbn [eval_bin ity_bits ity_signed]. simp. rewrite Hs. next.
  seq1. xstep. rewrite load_cell, Hw. simp. cbn [eval_bin]. replace (nowz =? 0) with true by (symmetry; apply Z.eqb_eq; exact H0). simp. next.
  last_write 0 I.
Qed.

Lemma export_final_byte : forall pv, 0 < nowz -> pv = nth (Z.to_nat (16 * nowz - 1)) cells 0 -> 0 <= pv < 256 ->
  call functions [] 100 "iobuffer::export_buffer/2" "" [VPtr "fout" 0; VInt 0] (iob_st c cells tot nowz tl 1 fin fout0) =
  Ok (None, iob_st c cells tot nowz tl 1 fin (wrote (out_len pv))).
Proof.
  intros pv H0 Hpv Hpr. destruct size_val as [Hw Hs].
  unfold call, fout0. step.
  ifstep. rewrite load_cell. simp.
  seq1. xstep. rewrite load_cell, Hw. simp. cbn [eval_bin ity_bits ity_signed]. simp. rewrite Hs. next.
  seq1. xstep. rewrite load_cell, Hw. simp. cbn [eval_bin]. replace (nowz =? 0) with false by (symmetry; apply Z.eqb_neq; lia). simp.
    rewrite arith_U32. simp. rewrite (Z.mod_small (nowz - 1)) by lia.
    replace (0 + (nowz - 1) * 16 + 15 * 1) with (16 * nowz - 1) by lia.
    rewrite load_byte by lia. rewrite <- Hpv. simp.
    rewrite (wrap_U8_small pv) by lia. rewrite (wrap_I32_small pv) by lia. rewrite (wrap_U8_small pv) by lia. next.
  last_write pv Hpr.
Qed.
End Export.

(* ---------------- export_buffer against FileModel.export ---------------- *)
Lemma to_N_of_N_map : forall l, map Z.to_N (map Z.of_N l) = l.
Proof. intros l. rewrite map_map. erewrite map_ext; [apply map_id|]. intros a. apply N2Z.id. Qed.
Lemma firstn_of_N : forall k l, map Z.to_N (firstn k (map Z.of_N l)) = firstn k l.
Proof. intros k l. rewrite <- firstn_map. now rewrite to_N_of_N_map. Qed.
Lemma bytesb_nth : forall l i, bytesb l = true -> (nth i l 0 < 256)%N.
Proof.
  intros l i H. destruct (Nat.lt_ge_cases i (List.length l)) as [Hi|Hi].
  - unfold bytesb in H. rewrite forallb_forall in H. specialize (H (nth i l 0%N) (nth_In l 0%N Hi)).
    unfold byte_ok in H. now apply N.ltb_lt in H.
  - rewrite nth_overflow by lia. reflexivity.
Qed.

Lemma src_export_on_eq : forall c pad now isfinal data,
  src_export_on c pad now isfinal data =
  of_res (call functions [] 100 "iobuffer::export_buffer/2" "" [VPtr "fout" 0; VInt (if pad then 1 else 0)]
            (iob_st c (map Z.of_N data) 0 (Z.of_nat now) 0 (if isfinal then 1 else 0)
                    {| cf_data := map Z.of_N []; cf_pos := 0; cf_eof := false |} {| cf_data := []; cf_pos := 0; cf_eof := false |}))
         (fun r => match lget (files (snd r)) "fout" with Some f => SOk (map Z.to_N (cf_data f)) | None => SErr "no stream" end).
Proof. intros. reflexivity. Qed.

Lemma SRC_export_proof : forall c (ispadding : bool) now (isfinal : bool) data,
  (1 <= c)%nat -> (N.of_nat (16 * c) < 2 ^ 32)%N -> (now <= c)%nat -> List.length data = (16 * c)%nat -> bytesb data = true ->
  exists out, export c ispadding {| ld_data := []; ld_total := now; ld_final := isfinal |} data = FileModel.Ok out /\
              src_export_on c ispadding now isfinal data = SOk out.
Proof.
  intros c pad now isfinal data Hc Hr Hnow Hlen Hb.
  assert (Hr' : 16 * Z.of_nat c < 2 ^ 32) by lia.
  assert (Hcells : List.length (map Z.of_N data) = (16 * c)%nat) by now rewrite map_length.
  assert (Hn : 0 <= Z.of_nat now <= Z.of_nat c) by lia.
  rewrite src_export_on_eq. unfold export. cbn [ld_final ld_total].
  destruct isfinal.
  - destruct pad.
    + eexists. split; [reflexivity|].
      rewrite export_final_pad by assumption. cbn [of_res snd files iob_st lget String.eqb Ascii.eqb Bool.eqb wrote cf_data app].
      rewrite firstn_of_N. f_equal. f_equal. unfold out_len.
      destruct (16 * Z.of_nat now <? 0) eqn:E; [apply Z.ltb_lt in E|]; lia.
    + destruct (Nat.eqb_spec now 0) as [H0|H0].
      * eexists. split; [reflexivity|].
        rewrite export_final_now0 by (assumption || lia). cbn [of_res snd files iob_st lget String.eqb Ascii.eqb Bool.eqb wrote cf_data app].
        rewrite firstn_of_N. subst now. reflexivity.
      * eexists. split; [reflexivity|].
        set (pb := nth (16 * now - 1) data 0%N).
        assert (Hpb : (pb < 256)%N) by (apply bytesb_nth; exact Hb).
        rewrite (export_final_byte c (map Z.of_N data) 0 (Z.of_nat now) 0 _ Hc Hr' Hcells Hn (Z.of_N pb)); [ | lia | | lia ].
        2:{ unfold pb. replace (Z.to_nat (16 * Z.of_nat now - 1)) with (16 * now - 1)%nat by lia.
            change 0 with (Z.of_N 0%N). now rewrite map_nth. }
        cbn [of_res snd files iob_st lget String.eqb Ascii.eqb Bool.eqb wrote cf_data app].
        rewrite firstn_of_N. f_equal. unfold out_len.
        destruct (16 * Z.of_nat now <? Z.of_N pb) eqn:E.
        -- apply Z.ltb_lt in E. replace (16 * now <? N.to_nat pb)%nat with true by (symmetry; apply Nat.ltb_lt; lia). reflexivity.
        -- apply Z.ltb_ge in E. replace (16 * now <? N.to_nat pb)%nat with false by (symmetry; apply Nat.ltb_ge; lia).
           f_equal. lia.
  - eexists. split; [reflexivity|].
    rewrite export_nonfinal by assumption. cbn [of_res snd files iob_st lget String.eqb Ascii.eqb Bool.eqb wrote cf_data app].
    rewrite firstn_of_N. f_equal. f_equal. unfold sum. lia.
Qed.

(* ---------------- the sequence of loads ---------------- *)
Lemma src_load_result : forall (pad : bool) s ls c bc tot now tl fl fin fout,
  call functions [] 100 "iobuffer::load_buffer/2" "" [VPtr "fin" 0; VInt (if pad then 1 else 0)] s =
    Ok (Some (VInt ls), iob_st c bc tot now tl fl fin fout) ->
  src_load pad s = SOk (ls, tot, tl, fl, firstn (Z.to_nat (16 * tot)) (map Z.to_N bc), iob_st c bc tot now tl fl fin fout).
Proof. intros pad s ls c bc tot now tl fl fin fout H. unfold src_load. rewrite H. reflexivity. Qed.

Lemma upd_range_0 : forall vs l, (List.length vs <= List.length l)%nat -> upd_range 0 vs l = vs ++ skipn (List.length vs) l.
Proof. intros vs l H. apply (upd_range_app vs [] l H). Qed.

Lemma skipn_skipn' : forall A x y (l : list A), skipn x (skipn y l) = skipn (x + y) l.
Proof.
  intros A x y. induction y as [|y IH]; intros l.
  - now rewrite Nat.add_0_r.
  - rewrite Nat.add_succ_r. destruct l as [|a l]; [now rewrite !skipn_nil|]. cbn [skipn]. apply IH.
Qed.
Lemma map_repeat' : forall A B (f : A -> B) x n, map f (repeat x n) = repeat (f x) n.
Proof. intros A B f x n. induction n as [|n IH]; cbn; [reflexivity|now rewrite IH]. Qed.
Lemma div16_nat : forall k, Z.of_nat k / 16 = Z.of_nat (k / 16).
Proof. intros k. rewrite (Nat2Z.inj_div k 16). reflexivity. Qed.
Lemma mod16_nat : forall k, Z.of_nat k mod 16 = Z.of_nat (k mod 16).
Proof. intros k. rewrite (Nat2Z.inj_mod k 16). reflexivity. Qed.

Section Step.
Variables (c : nat) (input : list N) (p : nat) (bc : list Z) (tot now tl fl : Z) (fout : cfile).
Hypothesis Hc : (1 <= c)%nat.
Hypothesis Hr : 16 * Z.of_nat c < 2 ^ 32.
Hypothesis Hbc : List.length bc = (16 * c)%nat.

Let rest := skipn p input.
Let gotN := firstn (16 * c) rest.
Let k := List.length gotN.
Let s := iob_st c bc tot now tl fl {| cf_data := map Z.of_N input; cf_pos := p; cf_eof := false |} fout.

Lemma got_eq : firstn (Z.to_nat (16 * Z.of_nat c)) (skipn p (map Z.of_N input)) = map Z.of_N gotN.
Proof. unfold gotN, rest. rewrite skipn_map, firstn_map. f_equal. f_equal. lia. Qed.
Lemma k_le : (k <= 16 * c)%nat.
Proof. unfold k, gotN. rewrite firstn_length. lia. Qed.
Lemma len_got : List.length (map Z.of_N gotN) = k.
Proof. apply map_length. Qed.

(* the data the caller sees when no padding was written *)
Lemma data_plain : forall n, (n <= k)%nat ->
  firstn n (map Z.to_N (upd_range 0 (map Z.of_N gotN) bc)) = firstn n gotN.
Proof.
  intros n Hn. pose proof k_le. rewrite upd_range_0 by (rewrite len_got; lia).
  rewrite map_app, to_N_of_N_map. rewrite firstn_app. fold k.
  replace (n - k)%nat with O by lia. cbn [firstn]. apply app_nil_r.
Qed.

Lemma step_enc_full : k = (16 * c)%nat ->
  exists tl' fl' bc', List.length bc' = (16 * c)%nat /\
  src_load true s = SOk (0, Z.of_nat c, tl', fl', gotN,
     iob_st c bc' (Z.of_nat c) 0 tl' fl' {| cf_data := map Z.of_N input; cf_pos := p + 16 * c; cf_eof := false |} fout).
Proof.
  intros Hk. pose proof (load_enc_full c bc tot now tl fl (map Z.of_N input) p fout _ Hc Hr Hbc (eq_sym got_eq)) as H.
  rewrite len_got in H. specialize (H ltac:(lia)).
  apply (src_load_result true) in H. fold s in H.
  assert (E : Z.of_nat k / 16 = Z.of_nat c) by (rewrite Hk; replace (Z.of_nat (16 * c)) with (Z.of_nat c * 16) by lia; apply Z.div_mul; lia).
  rewrite E in H. replace (Z.to_nat (16 * Z.of_nat c)) with k in H by lia. rewrite data_plain in H by lia.
  unfold k at 2 in H. rewrite firstn_all in H. rewrite Hk in H.
  eexists _, _, _. split; [|exact H]. rewrite upd_range_length. exact Hbc.
Qed.

Lemma nth_error_data : forall q, nth_error (map Z.of_N input) q = option_map Z.of_N (nth_error input q).
Proof. intros q. apply nth_error_map. Qed.

Lemma step_dec_more : k = (16 * c)%nat -> skipn (16 * c) rest <> [] ->
  exists tl' fl' bc', List.length bc' = (16 * c)%nat /\
  src_load false s = SOk (0, Z.of_nat c, tl', fl', gotN,
     iob_st c bc' (Z.of_nat c) 0 tl' fl' {| cf_data := map Z.of_N input; cf_pos := p + 16 * c; cf_eof := false |} fout).
Proof.
  intros Hk Hne.
  assert (Hsome : exists b, nth_error input (p + k) = Some b).
  { destruct (nth_error input (p + k)) as [b|] eqn:E; [eauto|]. exfalso. apply Hne.
    apply nth_error_None in E. unfold rest. rewrite skipn_skipn'. apply skipn_all2. lia. }
  destruct Hsome as [b Hb].
  pose proof (load_dec_more c bc tot now tl fl (map Z.of_N input) p fout _ Hc Hr Hbc (eq_sym got_eq) (Z.of_N b)) as H.
  rewrite len_got in H. specialize (H ltac:(lia)). rewrite nth_error_data, Hb in H. specialize (H eq_refl ltac:(lia)).
  apply (src_load_result false) in H. fold s in H.
  assert (E : Z.of_nat k / 16 = Z.of_nat c) by (rewrite Hk; replace (Z.of_nat (16 * c)) with (Z.of_nat c * 16) by lia; apply Z.div_mul; lia).
  rewrite E in H. replace (Z.to_nat (16 * Z.of_nat c)) with k in H by lia. rewrite data_plain in H by lia.
  unfold k at 2 in H. rewrite firstn_all in H. rewrite Hk in H.
  eexists _, _, _. split; [|exact H]. rewrite upd_range_length. exact Hbc.
Qed.

Lemma step_dec_end : k = (16 * c)%nat -> skipn (16 * c) rest = [] ->
  exists tl' fl' s', src_load false s = SOk (1, Z.of_nat (k / 16), tl', fl', firstn (16 * (k / 16)) gotN, s').
Proof.
  intros Hk He.
  assert (Hnone : nth_error input (p + k) = None).
  { apply nth_error_None. unfold rest in He. rewrite skipn_skipn' in He.
    assert (L : List.length (skipn (16 * c + p) input) = O) by now rewrite He.
    rewrite skipn_length in L. lia. }
  pose proof (load_dec_end c bc tot now tl fl (map Z.of_N input) p fout _ Hc Hr Hbc (eq_sym got_eq)) as H.
  rewrite len_got in H. specialize (H ltac:(lia)). rewrite nth_error_data, Hnone in H. specialize (H eq_refl).
  apply (src_load_result false) in H. fold s in H.
  rewrite div16_nat in H. replace (Z.to_nat (16 * Z.of_nat (k / 16))) with (16 * (k / 16))%nat in H by lia.
  rewrite data_plain in H by (pose proof (Nat.mul_div_le k 16); lia).
  eexists _, _, _. exact H.
Qed.

Lemma step_dec_short : (k < 16 * c)%nat ->
  (k / 16 = 0)%nat /\ (exists tot' tl' fl' dat s', src_load false s = SOk (2, tot', tl', fl', dat, s')) \/
  (k / 16 <> 0)%nat /\ (exists tl' fl' s', src_load false s = SOk (1, Z.of_nat (k / 16), tl', fl', firstn (16 * (k / 16)) gotN, s')).
Proof.
  intros Hk.
  pose proof (load_dec_short c bc tot now tl fl (map Z.of_N input) p fout _ Hc Hr Hbc (eq_sym got_eq)) as H.
  rewrite len_got in H. specialize (H ltac:(lia)).
  apply (src_load_result false) in H. fold s in H.
  rewrite div16_nat in H.
  destruct (Nat.eq_dec (k / 16) 0) as [E|E].
  - left. split; [exact E|]. rewrite E in H. change (Z.of_nat 0 =? 0) with true in H. cbv iota in H. eexists _, _, _, _, _. exact H.
  - right. split; [exact E|]. replace (Z.of_nat (k / 16) =? 0) with false in H by (symmetry; apply Z.eqb_neq; lia). cbv iota in H.
    replace (Z.to_nat (16 * Z.of_nat (k / 16))) with (16 * (k / 16))%nat in H by lia.
    rewrite data_plain in H by (pose proof (Nat.mul_div_le k 16); lia).
    eexists _, _, _. exact H.
Qed.

Lemma step_enc_final : (k < 16 * c)%nat ->
  exists tl' fl' s', src_load true s =
    SOk (1, Z.of_nat (S (k / 16)), tl', fl', gotN ++ repeat (N.of_nat (16 - k mod 16)) (16 - k mod 16), s').
Proof.
  intros Hk.
  pose proof (Nat.mod_upper_bound k 16 ltac:(lia)) as Hm.
  pose proof (Nat.div_mod k 16 ltac:(lia)) as Hdm.
  assert (Hdc : (k / 16 < c)%nat) by (apply Nat.div_lt_upper_bound; lia).
  pose proof (load_enc_final c bc tot now tl fl (map Z.of_N input) p fout _ Hc Hr Hbc (eq_sym got_eq)) as H.
  rewrite upd_range_0 in H by (rewrite len_got; lia).
  rewrite upd_range_app in H by (rewrite repeat_length, skipn_length, len_got, mod16_nat; lia).
  rewrite len_got in H. specialize (H ltac:(lia)).
  apply (src_load_result true) in H. fold s in H.
  rewrite div16_nat, mod16_nat in H.
  replace (Z.of_nat (k / 16) + 1) with (Z.of_nat (S (k / 16))) in H by lia.
  replace (Z.to_nat (16 * Z.of_nat (S (k / 16)))) with (k + (16 - k mod 16))%nat in H by lia.
  replace ((16 - Z.of_nat (k mod 16)) mod 256) with (Z.of_N (N.of_nat (16 - k mod 16))) in H by (rewrite Z.mod_small; lia).
  replace (Z.to_nat (16 - Z.of_nat (k mod 16))) with (16 - k mod 16)%nat in H by lia.
  rewrite repeat_length in H.
  rewrite !map_app, to_N_of_N_map in H. rewrite app_assoc in H.
  rewrite firstn_app in H.
  replace (List.length (gotN ++ map Z.to_N (repeat (Z.of_N (N.of_nat (16 - k mod 16))) (16 - k mod 16)))) with (k + (16 - k mod 16))%nat in H
    by (rewrite app_length, map_length, repeat_length; reflexivity).
  rewrite Nat.sub_diag in H. cbn [firstn] in H. rewrite app_nil_r in H.
  rewrite firstn_all2 in H by (rewrite app_length, map_length, repeat_length; fold k; lia).
  rewrite map_repeat', N2Z.id in H.
  eexists _, _, _. exact H.
Qed.
End Step.

Lemma div_sub_fuel : forall L m f, (0 < m)%nat -> (m <= L)%nat -> (L / m < S f)%nat -> ((L - m) / m < f)%nat.
Proof.
  intros L m f Hm HL H. replace L with (1 * m + (L - m))%nat in H by lia.
  rewrite Nat.div_add_l in H by lia. lia.
Qed.

Lemma loads_from_ok : forall c (pad : bool) input, (1 <= c)%nat -> 16 * Z.of_nat c < 2 ^ 32 ->
  forall fuel p bc tot now tl fl fout, List.length bc = (16 * c)%nat -> (List.length (skipn p input) / (16 * c) < fuel)%nat ->
  src_loads_from fuel pad (iob_st c bc tot now tl fl {| cf_data := map Z.of_N input; cf_pos := p; cf_eof := false |} fout)
   = SOk (loads (if pad then load_enc c else load_dec c) fuel (skipn p input)).
Proof.
  intros c pad input Hc Hr. induction fuel as [|f IH]; intros p bc tot now tl fl fout Hbc Hf; [exfalso; exact (Nat.nlt_0_r _ Hf)|].
  cbn [src_loads_from loads].
  pose proof (step_enc_full c input p bc tot now tl fl fout Hc Hr Hbc) as SEF.
  pose proof (step_enc_final c input p bc tot now tl fl fout Hc Hr Hbc) as SEL.
  pose proof (step_dec_more c input p bc tot now tl fl fout Hc Hr Hbc) as SDM.
  pose proof (step_dec_end c input p bc tot now tl fl fout Hc Hr Hbc) as SDE.
  pose proof (step_dec_short c input p bc tot now tl fl fout Hc Hr Hbc) as SDS.
  set (rest := skipn p input) in *. set (gotN := firstn (16 * c) rest) in *. set (k := List.length gotN) in *.
  assert (Hk : (k <= 16 * c)%nat) by (unfold k, gotN; rewrite firstn_length; lia).
  assert (Hfull : k = (16 * c)%nat -> (List.length (skipn (p + 16 * c) input) / (16 * c) < f)%nat).
  { intros E. rewrite skipn_length. unfold k, gotN in E. rewrite firstn_length in E. unfold rest in E, Hf. rewrite skipn_length in E, Hf.
    replace (List.length input - (p + 16 * c))%nat with (List.length input - p - 16 * c)%nat by lia.
    apply div_sub_fuel; lia. }
  destruct pad.
  - unfold load_enc. unfold sum. fold gotN. fold k.
    destruct (Nat.eqb_spec k (16 * c)) as [E|E].
    + destruct (SEF E) as [tl' [fl' [bc' [Hbc' HS]]]]. rewrite HS.
      change (0 =? 2) with false. change (0 =? 1) with false. cbv iota. cbn [ld_final].
      rewrite (IH _ _ _ _ _ _ _ Hbc' (Hfull E)). rewrite Nat2Z.id.
      unfold rest. rewrite skipn_skipn'. rewrite (Nat.add_comm (16 * c) p). reflexivity.
    + destruct (SEL ltac:(lia)) as [tl' [fl' [s' HS]]]. rewrite HS.
      change (1 =? 2) with false. change (1 =? 1) with true. cbv iota. cbn [ld_final ld_total].
      rewrite Nat2Z.id. reflexivity.
  - unfold load_dec. unfold sum. fold gotN. fold k. cbn [ld_final ld_total].
    destruct (Nat.ltb_spec k (16 * c)) as [E|E].
    + cbn [orb]. destruct (SDS E) as [[E0 [tot' [tl' [fl' [dat [s' HS]]]]]]|[E0 [tl' [fl' [s' HS]]]]]; rewrite HS.
      * change (2 =? 2) with true. cbv iota. rewrite E0. reflexivity.
      * change (1 =? 2) with false. change (1 =? 1) with true. cbv iota. rewrite Nat2Z.id.
        destruct (Nat.eqb_spec (k / 16) 0) as [E1|E1]; [contradiction|]. reflexivity.
    + assert (Ek : k = (16 * c)%nat) by lia. cbn [orb].
      destruct (skipn (16 * c) rest) as [|x r] eqn:ER.
      * destruct (SDE Ek eq_refl) as [tl' [fl' [s' HS]]]. rewrite HS.
        change (1 =? 2) with false. change (1 =? 1) with true. cbv iota. rewrite Nat2Z.id.
        assert (E1 : (k / 16 <> 0)%nat).
        { rewrite Ek. replace (16 * c)%nat with (c * 16)%nat by lia. rewrite Nat.div_mul; lia. }
        destruct (Nat.eqb_spec (k / 16) 0) as [E2|E2]; [contradiction|]. reflexivity.
      * assert (Hne : x :: r <> []) by discriminate.
        destruct (SDM Ek Hne) as [tl' [fl' [bc' [Hbc' HS]]]]. rewrite HS.
        change (0 =? 2) with false. change (0 =? 1) with false. cbv iota.
        rewrite (IH _ _ _ _ _ _ _ Hbc' (Hfull Ek)). rewrite Nat2Z.id.
        assert (E1 : (k / 16 = c)%nat).
        { rewrite Ek. replace (16 * c)%nat with (c * 16)%nat by lia. rewrite Nat.div_mul; lia. }
        rewrite E1. rewrite (firstn_all2 (n := (16 * c)%nat) gotN) by (fold k; lia).
        rewrite <- ER. unfold rest. rewrite skipn_skipn'. rewrite (Nat.add_comm (16 * c) p). reflexivity.
Qed.

Lemma SRC_loads_proof : forall c (ispadding : bool) input,
  (1 <= c)%nat -> (N.of_nat (16 * c) < 2 ^ 32)%N -> bytesb input = true ->
  src_loads c ispadding input = SOk (loads_of c ispadding input).
Proof.
  intros c pad input Hc Hr _. unfold src_loads, loads_of. rewrite iob_state_eq. unfold sum.
  change input with (skipn 0 input) at 3 4.
  apply loads_from_ok; [exact Hc|lia|rewrite repeat_length; lia|cbn [skipn]; lia].
Qed.

(* non-vacuity: the hypotheses are satisfiable, and the conclusions are non-trivial on concrete inputs *)
Example SRC_loads_hyps_ex : (1 <= 2)%nat /\ (N.of_nat (16 * 2) < 2 ^ 32)%N /\ bytesb (map N.of_nat (seq 0 37)) = true.
Proof. vm_compute. repeat split; auto. Qed.
Example SRC_loads_ex : List.length (loads_of 2 true (map N.of_nat (seq 0 37))) = 2%nat /\
  src_loads 2 true (map N.of_nat (seq 0 37)) = SOk (loads_of 2 true (map N.of_nat (seq 0 37))).
Proof. split; [vm_compute; reflexivity|]. apply SRC_loads_proof; vm_compute; auto. Qed.
Example SRC_export_hyps_ex : (1 <= 2)%nat /\ (N.of_nat (16 * 2) < 2 ^ 32)%N /\ (2 <= 2)%nat /\
  List.length (map N.of_nat (seq 0 31) ++ [5%N]) = (16 * 2)%nat /\ bytesb (map N.of_nat (seq 0 31) ++ [5%N]) = true /\
  src_export_on 2 false 2 true (map N.of_nat (seq 0 31) ++ [5%N]) = SOk (map N.of_nat (seq 0 27)).
Proof. vm_compute. repeat split; auto. Qed.
